(* Invariant machinery and the lock invariant (C04) for the core store model. *)
From stdpp Require Import gmap strings.
From RecordUpdate Require Import RecordSet.
From Coq Require Import NArith.
From Verif Require Import Store.Model.
Import RecordSetNotations.
Local Open Scope N_scope.

(* ---------- "preserves" ---------- *)
(* [post P r]: the resulting state -- or, on failure, the partial state -- satisfies P, and the
   failure is never the model's own "out of fuel" (so the cascades terminate). For a concrete
   error constructor other than EFuel, [post P (Err e p)] is convertible with [P p]. *)
Definition post {A} (P : st -> Prop) (proj : A -> st) (r : result A) : Prop :=
  match r with
  | Ok a => P (proj a)
  | Err e p => match e with EFuel => False | _ => P p end
  end.
Definition preserves (P : st -> Prop) (f : st -> result st) : Prop :=
  forall s, P s -> post P id (f s).

Lemma rfold_preserves {A} (P : st -> Prop) (f : st -> A -> result st) l :
  (forall x, preserves P (fun s => f s x)) -> preserves P (rfold f l).
Proof.
  intros Hf. induction l as [|x l IH]; intros s Hs; cbn; [exact Hs|].
  specialize (Hf x s Hs). cbn in Hf. destruct (f s x) as [s'|e p]; cbn; [|exact Hf].
  apply IH. exact Hf.
Qed.

(* A predicate that does not look at the catalog rows, the index table or the lock delays. *)
Record lock_only (P : st -> Prop) : Prop := {
  lo_checks : forall s f, P s -> P (s <| checks ::= f |>);
  lo_nodes : forall s f, P s -> P (s <| nodes ::= f |>);
  lo_services : forall s f, P s -> P (s <| services ::= f |>);
  lo_index : forall s f, P s -> P (s <| index ::= f |>);
  lo_delay : forall s f, P s -> P (s <| lockdelay ::= f |>)
}.

Lemma bind_preserves {A} (P : st -> Prop) (Q : A -> Prop) (m : result A) (k : A -> result st) :
  match m with Ok a => Q a | Err e p => match e with EFuel => False | _ => P p end end ->
  (forall a, Q a -> post P id (k a)) ->
  post P id (m ≫= k).
Proof. intros Hm Hk. destruct m as [a|e p]; cbn; [apply Hk; exact Hm|exact Hm]. Qed.

Lemma ensure_check_with_preserves P del pre idx nd cid hc :
  lock_only P -> (forall i sid, preserves P (del i sid)) ->
  preserves P (ensure_check_with del pre idx nd cid hc).
Proof.
  intros HP Hdel s Hs. unfold ensure_check_with.
  destruct (nodes s !! nd); [|exact Hs].
  apply (bind_preserves P (fun _ => True)).
  { unfold resolve_service. destruct (bool_decide _); [exact I|].
    destruct (services s !! _); [exact I|exact Hs]. }
  intros hc1 _. apply (bind_preserves P P).
  { unfold invalidate_if_critical. destruct (bool_decide _); [|exact Hs].
    apply (rfold_preserves P); [|exact Hs]. intros sid. apply Hdel. }
  intros s1 Hs1. cbn. unfold store_check.
  destruct (match checks s !! (nd, cid) with Some x => negb (check_same x hc1) | None => true end);
    [apply (lo_checks P HP); exact Hs1|exact Hs1].
Qed.

(* deleteSessionTxn preserves P as soon as the one-step removal of a live session does *)
Definition drop_ok (P : st -> Prop) : Prop :=
  forall s idx sid ss, P s -> sessions s !! sid = Some ss -> P (drop_session idx sid ss s).

Definition bounded (P : st -> Prop) (n : nat) (s : st) : Prop := P s /\ (size (sessions s) <= n)%nat.

Lemma bounded_lock_only P n : lock_only P -> lock_only (bounded P n).
Proof.
  intros HP. split; intros s f [Hs Hn]; (split; [|exact Hn]).
  - apply (lo_checks P HP); exact Hs.
  - apply (lo_nodes P HP); exact Hs.
  - apply (lo_services P HP); exact Hs.
  - apply (lo_index P HP); exact Hs.
  - apply (lo_delay P HP); exact Hs.
Qed.

Lemma release_or_delete_keys_sessions idx sid ss s :
  sessions (release_or_delete_keys idx sid ss s) = sessions s.
Proof.
  unfold release_or_delete_keys. destruct (bool_decide _); [reflexivity|].
  destruct (s_delete ss), (s_delay ss); reflexivity.
Qed.

Lemma drop_session_sessions idx sid ss s : sessions (drop_session idx sid ss s) = delete sid (sessions s).
Proof.
  unfold drop_session. cbn zeta.
  match goal with |- context [bool_decide ?P] => destruct (bool_decide P) end; cbn;
    rewrite release_or_delete_keys_sessions; reflexivity.
Qed.

(* with enough fuel for the sessions present, the cascade preserves P and never runs out of fuel *)
Lemma delete_session_preserves P fuel : forall n idx sid,
  lock_only P -> drop_ok P -> (n < fuel)%nat -> preserves (bounded P n) (delete_session fuel idx sid).
Proof.
  induction fuel as [|fuel IH]; intros n idx sid HP Hdrop Hn s [Hs Hsz]; [lia|]. cbn.
  destruct (sessions s !! sid) as [ss|] eqn:Ess; [|split; assumption].
  assert (Hsz4 : (size (sessions (drop_session idx sid ss s)) <= pred n /\ 0 < n)%nat).
  { rewrite drop_session_sessions.
    pose proof (map_size_delete_Some sid (sessions s) (ex_intro _ ss Ess)) as Hx.
    assert (size (sessions s) ≠ 0%nat) by (intros Hz; apply map_size_empty_inv in Hz; rewrite Hz in Ess;
                                       rewrite lookup_empty in Ess; discriminate).
    lia. }
  destruct Hsz4 as [Hsz4 Hpos].
  assert (Hfin : post (bounded P (pred n)) id
            (rfold (fun s' cid =>
               match checks (drop_session idx sid ss s) !! (s_node ss, cid) with
               | None => Ok s'
               | Some c => ensure_check_with (delete_session fuel) true idx (s_node ss) cid
                             (c <| c_status := critical |> <| c_output := OInvalid sid |>) s'
               end)
             (session_checks_of_node (s_node ss) (s_name ss) (drop_session idx sid ss s))
             (drop_session idx sid ss s))).
  { apply (rfold_preserves (bounded P (pred n))); [|split; [apply Hdrop; assumption|exact Hsz4]].
    intros cid s' Hs'. cbn.
    destruct (checks (drop_session idx sid ss s) !! (s_node ss, cid)); [|exact Hs'].
    apply ensure_check_with_preserves; [apply bounded_lock_only; exact HP| |exact Hs'].
    intros i sid'. apply IH; [exact HP|exact Hdrop|lia]. }
  destruct (rfold _ _ _) as [s'|e p]; cbn in *.
  - destruct Hfin as [H1 H2]. split; [exact H1|lia].
  - destruct e; try contradiction; (destruct Hfin as [H1 H2]; split; [exact H1|lia]).
Qed.

Lemma delete_session_top_preserves P idx sid :
  lock_only P -> drop_ok P -> preserves P (delete_session_top idx sid).
Proof.
  intros HP Hd s Hs. unfold delete_session_top, fuel_of.
  pose proof (delete_session_preserves P (S (size (sessions s))) (size (sessions s)) idx sid HP Hd
                (Nat.lt_succ_diag_r _) s (conj Hs (Nat.le_refl _))) as Hx.
  destruct (delete_session _ idx sid s) as [s'|e p]; cbn in *.
  - exact (proj1 Hx).
  - destruct e; try contradiction; exact (proj1 Hx).
Qed.

Lemma ensure_check_p_preserves P pre idx nd cid hc :
  lock_only P -> drop_ok P -> preserves P (ensure_check_p pre idx nd cid hc).
Proof.
  intros HP Hd. unfold ensure_check_p. apply ensure_check_with_preserves; [exact HP|].
  intros i sid s Hs. apply (delete_session_top_preserves P i sid HP Hd s Hs).
Qed.

Lemma delete_check_preserves P idx nd cid :
  lock_only P -> drop_ok P -> preserves P (delete_check idx nd cid).
Proof.
  intros HP Hd s Hs. unfold delete_check. destruct (checks s !! (nd, cid)); [|exact Hs].
  apply (rfold_preserves P); [|apply (lo_checks P HP); exact Hs].
  intros sid. apply delete_session_top_preserves; assumption.
Qed.

Lemma delete_service_preserves P idx nd svc :
  lock_only P -> drop_ok P -> preserves P (delete_service idx nd svc).
Proof.
  intros HP Hd s Hs. unfold delete_service. destruct (services s !! (nd, svc)); [|exact Hs].
  pose proof (rfold_preserves P (fun s' cid => delete_check idx nd cid s') (checks_of_service nd svc s)
                (fun cid => delete_check_preserves P idx nd cid HP Hd) s Hs) as Hr.
  destruct (rfold _ _ s) as [s1|e p]; cbn; [|exact Hr].
  apply (lo_services P HP). exact Hr.
Qed.

Lemma delete_node_preserves P idx nd :
  lock_only P -> drop_ok P -> preserves P (delete_node idx nd).
Proof.
  intros HP Hd s Hs. unfold delete_node. destruct (nodes s !! nd); [|exact Hs].
  pose proof (rfold_preserves P (fun s' svc => delete_service idx nd svc s') (services_of_node nd s)
                (fun svc => delete_service_preserves P idx nd svc HP Hd) s Hs) as Hr1.
  destruct (rfold _ _ s) as [s1|e p]; cbn; [|exact Hr1].
  pose proof (rfold_preserves P (fun s' cid => delete_check idx nd cid s') (checks_of_node nd s1)
                (fun cid => delete_check_preserves P idx nd cid HP Hd) s1 Hr1) as Hr2.
  destruct (rfold _ _ s1) as [s2|e p]; cbn; [|exact Hr2].
  apply (rfold_preserves P); [|apply (lo_nodes P HP); exact Hr2].
  intros sid. apply delete_session_top_preserves; assumption.
Qed.

Lemma ensure_node_preserves P idx nd id addr :
  lock_only P -> drop_ok P -> preserves P (ensure_node idx nd id addr).
Proof.
  intros HP Hd s Hs. unfold ensure_node.
  assert (Hfin : forall n0 s1, P s1 ->
    match (let n1 := match n0 with Some x => Some x | None => nodes s1 !! nd end in
           match n1 with
           | Some x => if bool_decide (n_id x = id) && bool_decide (n_addr x = addr)
                          && bool_decide (nodes s1 !! nd = Some x)
                       then Ok s1 else Ok (s1 <| nodes ::= <[nd := Node id addr (n_create x) idx]> |>)
           | None => Ok (s1 <| nodes ::= <[nd := Node id addr idx idx]> |>)
           end) with Ok s' => P s' | Err e p => match e with EFuel => False | _ => P p end end).
  { intros n0 s1 Hs1. cbn. destruct n0 as [x|]; [|destruct (nodes s1 !! nd) as [x|]].
    - destruct (_ && _); [exact Hs1|apply (lo_nodes P HP); exact Hs1].
    - destruct (_ && _); [exact Hs1|apply (lo_nodes P HP); exact Hs1].
    - apply (lo_nodes P HP); exact Hs1. }
  destruct (bool_decide (id = "")); cbn; [apply (Hfin None); exact Hs|].
  destruct (node_by_id id s) as [[oname on]|]; cbn.
  - destruct (bool_decide (oname = nd)); cbn; [apply (Hfin (Some on)); exact Hs|].
    destruct (similar_clash false nd id s); cbn; [exact Hs|].
    pose proof (delete_node_preserves P idx oname HP Hd s Hs) as Hr.
    destruct (delete_node idx oname s) as [s'|e p]; cbn; [|exact Hr].
    apply (Hfin (Some on)). exact Hr.
  - destruct (similar_clash true nd id s); cbn; [exact Hs|]. apply (Hfin None). exact Hs.
Qed.

Lemma ensure_service_preserves P idx nd svc name port :
  lock_only P -> preserves P (ensure_service idx nd svc name port).
Proof.
  intros HP s Hs. unfold ensure_service. destruct (nodes s !! nd); [|exact Hs].
  destruct (services s !! (nd, svc)) as [x|].
  - destruct (_ && _); [exact Hs|apply (lo_services P HP); exact Hs].
  - apply (lo_services P HP); exact Hs.
Qed.

(* ---------- the lock invariant ---------- *)
Definition LockInv (s : st) : Prop :=
  sessions s !! "" = None /\
  (forall k e, kvs s !! k = Some e -> kv_session e = "" \/ is_Some (sessions s !! kv_session e)) /\
  (forall n c sid, (n, c, sid) ∈ schecks s -> is_Some (sessions s !! sid)) /\
  (forall q sid, queries s !! q = Some sid -> sid = "" \/ is_Some (sessions s !! sid)).

Lemma LockInv_lock_only : lock_only LockInv.
Proof. split; intros s f Hs; exact Hs. Qed.

Lemma LockInv_st0 : LockInv st0.
Proof.
  unfold LockInv, st0; cbn. repeat split.
  - intros k e Hk. rewrite lookup_empty in Hk. discriminate.
  - intros n c sid Hin. set_solver.
  - intros q sid Hq. rewrite lookup_empty in Hq. discriminate.
Qed.

(* the keys step of a session's removal *)
Lemma release_or_delete_keys_kvs idx sid ss s k e :
  kvs (release_or_delete_keys idx sid ss s) !! k = Some e ->
  (kvs s !! k = Some e /\ kv_session e ≠ sid) \/
  (exists e0, kvs s !! k = Some e0 /\ kv_session e0 = sid /\ s_delete ss = false /\
              e = KV (kv_value e0) (kv_flags e0) "" (kv_lock e0) (kv_create e0) idx).
Proof.
  unfold release_or_delete_keys.
  destruct (bool_decide (filter (fun kv => kv_session kv.2 = sid) (kvs s) = ∅)) eqn:Eh.
  - apply bool_decide_eq_true in Eh. intros Hk. left. split; [exact Hk|].
    intros Heq. assert (Hf : filter (fun kv => kv_session kv.2 = sid) (kvs s) !! k = Some e).
    { apply map_filter_lookup_Some. split; [exact Hk|exact Heq]. }
    rewrite Eh, lookup_empty in Hf. discriminate.
  - destruct (s_delete ss) eqn:Ed.
    + destruct (s_delay ss); cbn; intros Hk; apply map_filter_lookup_Some in Hk as [Hk Hne];
        left; split; assumption.
    + assert (Hrel : ((fun e1 => if bool_decide (kv_session e1 = sid)
                          then KV (kv_value e1) (kv_flags e1) "" (kv_lock e1) (kv_create e1) idx else e1)
                <$> kvs s) !! k = Some e ->
          (kvs s !! k = Some e /\ kv_session e ≠ sid) \/
          (exists e0, kvs s !! k = Some e0 /\ kv_session e0 = sid /\ false = false /\
                      e = KV (kv_value e0) (kv_flags e0) "" (kv_lock e0) (kv_create e0) idx)).
      { intros Hk. rewrite lookup_fmap in Hk. destruct (kvs s !! k) as [e0|] eqn:E0; [|discriminate].
        cbn in Hk. injection Hk as <-. destruct (bool_decide (kv_session e0 = sid)) eqn:Eb.
        + apply bool_decide_eq_true in Eb. right. exists e0. repeat split; assumption.
        + apply bool_decide_eq_false in Eb. left. split; [reflexivity|exact Eb]. }
      destruct (s_delay ss); cbn; exact Hrel.
Qed.

Lemma release_or_delete_keys_frame idx sid ss s :
  sessions (release_or_delete_keys idx sid ss s) = sessions s /\
  schecks (release_or_delete_keys idx sid ss s) = schecks s /\
  queries (release_or_delete_keys idx sid ss s) = queries s /\
  nodes (release_or_delete_keys idx sid ss s) = nodes s /\
  services (release_or_delete_keys idx sid ss s) = services s /\
  checks (release_or_delete_keys idx sid ss s) = checks s.
Proof.
  unfold release_or_delete_keys. destruct (bool_decide _); [repeat split|].
  destruct (s_delete ss), (s_delay ss); repeat split.
Qed.

Lemma drop_session_kvs idx sid ss s k e :
  kvs (drop_session idx sid ss s) !! k = Some e ->
  (kvs s !! k = Some e /\ kv_session e ≠ sid) \/
  (exists e0, kvs s !! k = Some e0 /\ kv_session e0 = sid /\ s_delete ss = false /\
              e = KV (kv_value e0) (kv_flags e0) "" (kv_lock e0) (kv_create e0) idx).
Proof.
  unfold drop_session. cbn zeta.
  match goal with |- context [bool_decide ?P] => destruct (bool_decide P) end; cbn;
    intros Hk; apply release_or_delete_keys_kvs in Hk; exact Hk.
Qed.

Lemma drop_session_schecks idx sid ss s m :
  m ∈ schecks (drop_session idx sid ss s) -> m ∈ schecks s /\ m.2 ≠ sid.
Proof.
  unfold drop_session. cbn zeta.
  match goal with |- context [bool_decide ?P] => destruct (bool_decide P) end; cbn;
    rewrite (proj1 (proj2 (release_or_delete_keys_frame _ _ _ _))); cbn;
    intros Hin; apply elem_of_filter in Hin as [Hne Hin]; split; assumption.
Qed.

Lemma drop_session_queries idx sid ss s q x :
  queries (drop_session idx sid ss s) !! q = Some x -> queries s !! q = Some x /\ x ≠ sid.
Proof.
  unfold drop_session. cbn zeta.
  match goal with |- context [bool_decide ?P] => destruct (bool_decide P) eqn:Eq end; cbn.
  - apply bool_decide_eq_true in Eq. cbn in Eq.
    rewrite (proj1 (proj2 (proj2 (release_or_delete_keys_frame _ _ _ _)))). cbn.
    rewrite (proj1 (proj2 (proj2 (release_or_delete_keys_frame _ _ _ _)))) in Eq. cbn in Eq.
    intros Hq. split; [exact Hq|]. intros ->.
    assert (Hf : filter (fun q0 : string * string => q0.2 = sid) (queries s) !! q = Some sid).
    { apply map_filter_lookup_Some. split; [exact Hq|reflexivity]. }
    rewrite Eq, lookup_empty in Hf. discriminate.
  - rewrite (proj1 (proj2 (proj2 (release_or_delete_keys_frame _ _ _ _)))). cbn.
    intros Hq. apply map_filter_lookup_Some in Hq. exact Hq.
Qed.

Lemma LockInv_drop_ok : drop_ok LockInv.
Proof.
  intros s idx sid ss (H0 & Hk & Hc & Hq) Hss.
  assert (Hsid : sid ≠ "") by (intros ->; congruence).
  unfold LockInv. rewrite drop_session_sessions. repeat split.
  - rewrite lookup_delete_ne by exact Hsid. exact H0.
  - intros k e He. apply drop_session_kvs in He as [[He Hne]|(e0 & He0 & _ & _ & ->)].
    + destruct (Hk k e He) as [Hx|Hx]; [left; exact Hx|right].
      rewrite lookup_delete_ne by (intros Heq; apply Hne; symmetry; exact Heq). exact Hx.
    + left. reflexivity.
  - intros n c sid' Hin. apply drop_session_schecks in Hin as [Hin Hne]. cbn in Hne.
    rewrite lookup_delete_ne by (intros Heq; apply Hne; symmetry; exact Heq). eapply Hc; exact Hin.
  - intros q x Hx. apply drop_session_queries in Hx as [Hx Hne].
    destruct (Hq q x Hx) as [Hy|Hy]; [left; exact Hy|right].
    rewrite lookup_delete_ne by (intros Heq; apply Hne; symmetry; exact Heq). exact Hy.
Qed.

(* ---------- KV primitives ---------- *)
Lemma LockInv_kvs (s s' : st) :
  sessions s' = sessions s -> schecks s' = schecks s -> queries s' = queries s ->
  (forall k e, kvs s' !! k = Some e ->
     kvs s !! k = Some e \/ kv_session e = "" \/ is_Some (sessions s !! kv_session e)) ->
  LockInv s -> LockInv s'.
Proof.
  intros Hse Hsc Hq Hk (H0 & Hkv & Hc & Hqq). unfold LockInv. rewrite Hse, Hsc, Hq.
  repeat split; try assumption.
  intros k e He. destruct (Hk k e He) as [Hx|Hx]; [exact (Hkv k e Hx)|exact Hx].
Qed.

Lemma kvs_set_LockInv idx k e upd s :
  LockInv s ->
  (upd = true -> kv_session e = "" \/ is_Some (sessions s !! kv_session e)) ->
  LockInv (kvs_set idx k e upd s).1.
Proof.
  intros Hs Hupd. pose proof Hs as (H0 & Hkv & Hc & Hqq).
  assert (Hsess : forall x, kvs s !! k = x ->
            (if upd then kv_session e else match x with Some y => kv_session y | None => "" end) = "" \/
            is_Some (sessions s !! (if upd then kv_session e
                                    else match x with Some y => kv_session y | None => "" end))).
  { intros x Hx. destruct upd; [apply Hupd; reflexivity|].
    destruct x as [y|]; [exact (Hkv k y Hx)|left; reflexivity]. }
  unfold kvs_set. destruct (kvs s !! k) as [x|] eqn:Ex.
  - destruct (kv_same x _); cbn; [exact Hs|].
    eapply (LockInv_kvs s); [reflexivity|reflexivity|reflexivity| |exact Hs].
    intros k' e' He'. cbn in He'. destruct (decide (k' = k)) as [->|Hne].
    + rewrite lookup_insert in He'. injection He' as <-. right. cbn. apply (Hsess (Some x)). reflexivity.
    + rewrite lookup_insert_ne in He' by congruence. left. exact He'.
  - cbn. eapply (LockInv_kvs s); [reflexivity|reflexivity|reflexivity| |exact Hs].
    intros k' e' He'. cbn in He'. destruct (decide (k' = k)) as [->|Hne].
    + rewrite lookup_insert in He'. injection He' as <-. right. cbn. apply (Hsess None). reflexivity.
    + rewrite lookup_insert_ne in He' by congruence. left. exact He'.
Qed.

Lemma kvs_delete_LockInv idx k s : LockInv s -> LockInv (kvs_delete idx k s).
Proof.
  intros Hs. unfold kvs_delete. destruct (kvs s !! k); [|exact Hs].
  eapply (LockInv_kvs s); [reflexivity|reflexivity|reflexivity| |exact Hs].
  intros k' e' He'. cbn in He'. left. apply lookup_delete_Some in He' as [_ He']. exact He'.
Qed.

Lemma kvs_delete_tree_LockInv idx p s : LockInv s -> LockInv (kvs_delete_tree idx p s).
Proof.
  intros Hs. unfold kvs_delete_tree. destruct (bool_decide _); [exact Hs|].
  destruct (bool_decide (p = "")); cbn;
    (eapply (LockInv_kvs s); [reflexivity|reflexivity|reflexivity| |exact Hs]);
    intros k' e' He'; cbn in He'; left; apply map_filter_lookup_Some in He' as [He' _]; exact He'.
Qed.

Lemma reap_LockInv upto s : LockInv s -> LockInv (reap_tombstones upto s).
Proof. intros Hs. exact Hs. Qed.

Lemma kvs_delete_cas_LockInv idx cidx k s : LockInv s -> LockInv (kvs_delete_cas idx cidx k s).2.
Proof.
  intros Hs. unfold kvs_delete_cas. destruct (kvs s !! k); [|exact Hs].
  destruct (bool_decide _); cbn; [apply kvs_delete_LockInv; exact Hs|exact Hs].
Qed.

Lemma kvs_set_cas_LockInv idx k e s : LockInv s -> LockInv (kvs_set_cas idx k e s).2.1.
Proof.
  intros Hs. unfold kvs_set_cas. destruct (kvs s !! k).
  - destruct (bool_decide (kv_modify e = 0)); cbn; [exact Hs|].
    destruct (bool_decide _); cbn; [apply kvs_set_LockInv; [exact Hs|discriminate]|exact Hs].
  - destruct (bool_decide _); cbn; [apply kvs_set_LockInv; [exact Hs|discriminate]|exact Hs].
Qed.

Lemma kvs_lock_LockInv idx k e s :
  LockInv s -> post LockInv (fun r => r.2.1) (kvs_lock idx k e s).
Proof.
  intros Hs. unfold kvs_lock. destruct (bool_decide (kv_session e = "")); [exact Hs|].
  destruct (sessions s !! kv_session e) as [ss|] eqn:Ess; [|exact Hs].
  assert (Hlive : forall (u : bool), u = true -> kv_session e = "" \/ is_Some (sessions s !! kv_session e)).
  { intros _ _. right. rewrite Ess. eauto. }
  destruct (kvs s !! k) as [x|].
  - destruct (bool_decide (kv_session x = kv_session e)); cbn.
    + apply kvs_set_LockInv; [exact Hs|]. cbn. apply Hlive.
    + destruct (bool_decide (kv_session x = "")); cbn; [|exact Hs].
      apply kvs_set_LockInv; [exact Hs|]. cbn. apply Hlive.
  - cbn. apply kvs_set_LockInv; [exact Hs|]. cbn. apply Hlive.
Qed.

Lemma kvs_unlock_LockInv idx k e s :
  LockInv s -> post LockInv (fun r => r.2.1) (kvs_unlock idx k e s).
Proof.
  intros Hs. unfold kvs_unlock. destruct (bool_decide (kv_session e = "")); [exact Hs|].
  destruct (kvs s !! k) as [x|]; [|exact Hs].
  destruct (bool_decide _); cbn; [|exact Hs].
  apply kvs_set_LockInv; [exact Hs|]. intros _. left. reflexivity.
Qed.

(* ---------- sessions, queries, registration ---------- *)
Lemma session_create_LockInv idx sid ss : preserves LockInv (session_create idx sid ss).
Proof.
  intros s Hs. unfold session_create.
  destruct (bool_decide (sid = "")) eqn:Esid; [exact Hs|]. apply bool_decide_eq_false in Esid.
  destruct (nodes s !! s_node ss); [|exact Hs].
  destruct (forallb _ _); [|exact Hs].
  apply (rfold_preserves LockInv).
  - intros cid s' Hs'. cbn.
    match goal with |- context [checks ?s1 !! ?key] => destruct (checks s1 !! key) end; [|exact Hs'].
    apply ensure_check_p_preserves; [apply LockInv_lock_only|apply LockInv_drop_ok|exact Hs'].
  - destruct Hs as (H0 & Hkv & Hc & Hqq). unfold LockInv; cbn. repeat split.
    + rewrite lookup_insert_ne by exact Esid. exact H0.
    + intros k e He. destruct (Hkv k e He) as [Hx|Hx]; [left; exact Hx|right].
      destruct (decide (kv_session e = sid)) as [->|Hne];
        [rewrite lookup_insert; eauto|rewrite lookup_insert_ne by congruence; exact Hx].
    + intros n0 c0 sid' Hin. apply elem_of_union in Hin as [Hin|Hin].
      * apply elem_of_list_to_set, elem_of_list_fmap in Hin as (cid & Heq & _).
        injection Heq as _ _ ->. rewrite lookup_insert. eauto.
      * destruct (decide (sid' = sid)) as [->|Hne];
          [rewrite lookup_insert; eauto|rewrite lookup_insert_ne by congruence; eapply Hc; exact Hin].
    + intros q x Hx. destruct (Hqq q x Hx) as [Hy|Hy]; [left; exact Hy|right].
      destruct (decide (x = sid)) as [->|Hne];
        [rewrite lookup_insert; eauto|rewrite lookup_insert_ne by congruence; exact Hy].
Qed.

Lemma query_set_LockInv idx qid sess : preserves LockInv (query_set idx qid sess).
Proof.
  intros s Hs. unfold query_set.
  destruct (bool_decide (sess = "") || bool_decide (is_Some (sessions s !! sess))) eqn:Eok; [|exact Hs].
  destruct Hs as (H0 & Hkv & Hc & Hqq). unfold LockInv; cbn. repeat split; try assumption.
  intros q x Hx. destruct (decide (q = qid)) as [->|Hne].
  - rewrite lookup_insert in Hx. injection Hx as <-.
    apply orb_true_iff in Eok as [Ee|Ee]; apply bool_decide_eq_true in Ee; [left|right]; exact Ee.
  - rewrite lookup_insert_ne in Hx by congruence. exact (Hqq q x Hx).
Qed.

Lemma query_delete_LockInv idx qid s : LockInv s -> LockInv (query_delete idx qid s).
Proof.
  intros Hs. unfold query_delete. destruct (queries s !! qid); [|exact Hs].
  destruct Hs as (H0 & Hkv & Hc & Hqq). unfold LockInv; cbn. repeat split; try assumption.
  intros q x Hx. apply lookup_delete_Some in Hx as [_ Hx]. exact (Hqq q x Hx).
Qed.

Lemma ensure_registration_LockInv idx nd id addr skip svc cks :
  preserves LockInv (ensure_registration idx nd id addr skip svc cks).
Proof.
  intros s Hs. unfold ensure_registration.
  apply (bind_preserves LockInv LockInv).
  { destruct (changes_node _ _ _ _); [|exact Hs].
    apply ensure_node_preserves; [apply LockInv_lock_only|apply LockInv_drop_ok|exact Hs]. }
  intros s1 Hs1. apply (bind_preserves LockInv LockInv).
  { destruct svc as [[[sid name] port]|]; [|exact Hs1].
    destruct (services s1 !! (nd, sid)) as [x|].
    - destruct (_ && _); [exact Hs1|].
      apply ensure_service_preserves; [apply LockInv_lock_only|exact Hs1].
    - apply ensure_service_preserves; [apply LockInv_lock_only|exact Hs1]. }
  intros s2 Hs2. apply (rfold_preserves LockInv); [|exact Hs2].
  intros c s' Hs'. cbn. destruct (bool_decide _); [|exact Hs'].
  apply ensure_check_p_preserves; [apply LockInv_lock_only|apply LockInv_drop_ok|exact Hs'].
Qed.

(* ---------- transactions and commands ---------- *)
Notation res_inv := post.

Lemma res_bind_fst {B} (P : st -> Prop) (m : result st) (k : st -> result (st * B)) :
  res_inv P id m -> (forall s', P s' -> res_inv P fst (k s')) -> res_inv P fst (m ≫= k).
Proof. intros Hm Hk. destruct m as [a|e p]; cbn; [apply Hk; exact Hm|exact Hm]. Qed.

Lemma txn_kv_LockInv idx v q s : LockInv s -> res_inv LockInv fst (txn_kv idx v q s).
Proof.
  intros Hs. unfold txn_kv. destruct v; cbn.
  - pose proof (kvs_set_LockInv idx (q_key q) (ent_of q) false s Hs) as Hx.
    destruct (kvs_set _ _ _ _ _) as [s' e']. cbn. apply Hx. discriminate.
  - apply kvs_delete_LockInv; exact Hs.
  - pose proof (kvs_delete_cas_LockInv idx (q_index q) (q_key q) s Hs) as Hx.
    destruct (kvs_delete_cas _ _ _ _) as [[] s']; cbn; [exact Hx|exact Hs].
  - apply kvs_delete_tree_LockInv; exact Hs.
  - pose proof (kvs_set_cas_LockInv idx (q_key q) (ent_of q) s Hs) as Hx.
    destruct (kvs_set_cas _ _ _ _) as [[] [s' e']]; cbn; [exact Hx|exact Hs].
  - pose proof (kvs_lock_LockInv idx (q_key q) (ent_of q) s Hs) as Hx.
    destruct (kvs_lock _ _ _ _) as [[[] [s' e']]|er p]; cbn; [exact Hx|exact Hs|exact Hx].
  - pose proof (kvs_unlock_LockInv idx (q_key q) (ent_of q) s Hs) as Hx.
    destruct (kvs_unlock _ _ _ _) as [[[] [s' e']]|er p]; cbn; [exact Hx|exact Hs|exact Hx].
  - destruct (kvs s !! q_key q); exact Hs.
  - destruct (kvs s !! q_key q); exact Hs.
  - exact Hs.
  - destruct (kvs s !! q_key q); [destruct (bool_decide _)|]; exact Hs.
  - destruct (kvs s !! q_key q); [destruct (bool_decide _)|]; exact Hs.
  - destruct (kvs s !! q_key q); exact Hs.
Qed.

Local Ltac lk := first [apply LockInv_lock_only | apply LockInv_drop_ok].

Lemma txn_node_LockInv idx v nd id addr cidx s :
  LockInv s -> res_inv LockInv fst (txn_node idx v nd id addr cidx s).
Proof.
  intros Hs. unfold txn_node.
  assert (Hreply : forall s', LockInv s' ->
     res_inv LockInv fst
       (match (if bool_decide (id = "") then (fun n => (nd, n)) <$> nodes s' !! nd else node_by_id id s') with
        | Some (nm, n) => Ok (s', [RNode nm n]) | None => Ok (s', []) end)).
  { intros s' Hs'. destruct (if bool_decide (id = "") then _ else _) as [[nm n]|]; exact Hs'. }
  destruct v.
  - destruct (if bool_decide (id = "") then _ else _) as [[nm n]|]; exact Hs.
  - apply res_bind_fst; [apply ensure_node_preserves; [lk|lk|exact Hs]|exact Hreply].
  - destruct (cas_ok _ _ _); [|exact Hs].
    apply res_bind_fst; [apply ensure_node_preserves; [lk|lk|exact Hs]|exact Hreply].
  - apply res_bind_fst; [apply delete_node_preserves; [lk|lk|exact Hs]|intros s' Hs'; exact Hs'].
  - destruct (nodes s !! nd) as [x|]; [|exact Hs]. destruct (bool_decide (n_modify x = cidx)); [|exact Hs].
    apply res_bind_fst; [apply delete_node_preserves; [lk|lk|exact Hs]|intros s' Hs'; exact Hs'].
Qed.

Lemma txn_service_LockInv idx v nd svc name port cidx s :
  LockInv s -> res_inv LockInv fst (txn_service idx v nd svc name port cidx s).
Proof.
  intros Hs. unfold txn_service.
  assert (Hreply : forall s', LockInv s' ->
     res_inv LockInv fst (match services s' !! (nd, svc) with
                          | Some x => Ok (s', [RService nd svc x]) | None => Ok (s', []) end)).
  { intros s' Hs'. destruct (services s' !! (nd, svc)); exact Hs'. }
  destruct v.
  - destruct (services s !! (nd, svc)); exact Hs.
  - apply res_bind_fst; [apply ensure_service_preserves; [lk|exact Hs]|exact Hreply].
  - destruct (cas_ok _ _ _); [|exact Hs].
    apply res_bind_fst; [apply ensure_service_preserves; [lk|exact Hs]|exact Hreply].
  - apply res_bind_fst; [apply delete_service_preserves; [lk|lk|exact Hs]|intros s' Hs'; exact Hs'].
  - destruct (services s !! (nd, svc)) as [x|]; [|exact Hs]. destruct (bool_decide (sv_modify x = cidx)); [|exact Hs].
    apply res_bind_fst; [apply delete_service_preserves; [lk|lk|exact Hs]|intros s' Hs'; exact Hs'].
Qed.

Lemma txn_check_LockInv idx v c s : LockInv s -> res_inv LockInv fst (txn_check idx v c s).
Proof.
  intros Hs. unfold txn_check.
  assert (Hreply : forall s', LockInv s' ->
     res_inv LockInv fst (match checks s' !! (cr_node c, cr_id c) with
                          | Some x => Ok (s', [RCheck (cr_node c) (cr_id c) x]) | None => Ok (s', []) end)).
  { intros s' Hs'. destruct (checks s' !! _); exact Hs'. }
  destruct v.
  - destruct (checks s !! _); exact Hs.
  - apply res_bind_fst; [apply ensure_check_p_preserves; [lk|lk|exact Hs]|exact Hreply].
  - destruct (cas_ok _ _ _); [|exact Hs].
    apply res_bind_fst; [apply ensure_check_p_preserves; [lk|lk|exact Hs]|exact Hreply].
  - apply res_bind_fst; [apply delete_check_preserves; [lk|lk|exact Hs]|intros s' Hs'; exact Hs'].
  - destruct (checks s !! _) as [x|]; [|exact Hs]. destruct (bool_decide (c_modify x = cr_index c)); [|exact Hs].
    apply res_bind_fst; [apply delete_check_preserves; [lk|lk|exact Hs]|intros s' Hs'; exact Hs'].
Qed.

Lemma txn_op_LockInv idx op s : LockInv s -> res_inv LockInv fst (txn_op idx op s).
Proof.
  intros Hs. destruct op; cbn [txn_op].
  - apply txn_kv_LockInv; exact Hs.
  - apply txn_node_LockInv; exact Hs.
  - apply txn_service_LockInv; exact Hs.
  - apply txn_check_LockInv; exact Hs.
  - destruct (sessions s !! sid); [|exact Hs].
    apply res_bind_fst; [apply delete_session_top_preserves; [lk|lk|exact Hs]|intros s' Hs'; exact Hs'].
Qed.

Lemma txn_dispatch_LockInv idx ops : forall i s, LockInv s -> LockInv (txn_dispatch idx i ops s).1.1.
Proof.
  induction ops as [|op ops IH]; intros i s Hs; cbn; [exact Hs|].
  pose proof (txn_op_LockInv idx op s Hs) as Hop.
  destruct (txn_op idx op s) as [[s' r]|e sp]; cbn in Hop.
  - specialize (IH (S i) s' Hop). destruct (txn_dispatch idx (S i) ops s') as [[s'' rs] es]. exact IH.
  - assert (Hsp : LockInv sp) by (destruct e; try exact Hop; contradiction).
    specialize (IH (S i) sp Hsp). destruct (txn_dispatch idx (S i) ops sp) as [[s'' rs] es]. exact IH.
Qed.

Lemma of_unit_LockInv (r : result st) s :
  LockInv s -> res_inv LockInv id r -> LockInv (of_unit r s).1.
Proof. intros Hs Hr. destruct r as [s'|e p]; cbn; [exact Hr|exact Hs]. Qed.

Theorem apply_LockInv idx c s : LockInv s -> LockInv (apply idx c s).1.
Proof.
  intros Hs. destruct c; cbn.
  - (* KVS *) unfold apply_kvs. destruct v; cbn; try exact Hs.
    + apply kvs_set_LockInv; [exact Hs|discriminate].
    + apply kvs_delete_LockInv; exact Hs.
    + pose proof (kvs_delete_cas_LockInv idx (q_index q) (q_key q) s Hs) as Hx.
      destruct (kvs_delete_cas _ _ _ _) as [ok s']. exact Hx.
    + apply kvs_delete_tree_LockInv; exact Hs.
    + pose proof (kvs_set_cas_LockInv idx (q_key q) (ent_of q) s Hs) as Hx.
      destruct (kvs_set_cas _ _ _ _) as [[] [s' e']]; cbn; [exact Hx|exact Hs].
    + pose proof (kvs_lock_LockInv idx (q_key q) (ent_of q) s Hs) as Hx.
      destruct (kvs_lock _ _ _ _) as [[[] [s' e']]|er p]; cbn; [exact Hx|exact Hs|exact Hs].
    + pose proof (kvs_unlock_LockInv idx (q_key q) (ent_of q) s Hs) as Hx.
      destruct (kvs_unlock _ _ _ _) as [[[] [s' e']]|er p]; cbn; [exact Hx|exact Hs|exact Hs].
  - pose proof (session_create_LockInv idx sid ss s Hs) as Hx.
    destruct (session_create idx sid ss s); cbn; [exact Hx|exact Hs].
  - apply of_unit_LockInv; [exact Hs|]. apply delete_session_top_preserves; [lk|lk|exact Hs].
  - apply of_unit_LockInv; [exact Hs|]. apply ensure_registration_LockInv; exact Hs.
  - destruct (negb (bool_decide (svc = ""))); [|destruct (negb (bool_decide (cid = "")))];
      (apply of_unit_LockInv; [exact Hs|]).
    + apply delete_service_preserves; [lk|lk|exact Hs].
    + apply delete_check_preserves; [lk|lk|exact Hs].
    + apply delete_node_preserves; [lk|lk|exact Hs].
  - unfold txn_rw. pose proof (txn_dispatch_LockInv idx ops 0%nat s Hs) as Hx.
    destruct (txn_dispatch idx 0 ops s) as [[s' rs] es]. destruct es; cbn; [exact Hx|exact Hs].
  - exact Hs.
  - apply of_unit_LockInv; [exact Hs|]. apply query_set_LockInv; exact Hs.
  - apply query_delete_LockInv; exact Hs.
Qed.

Theorem run_LockInv log : forall s, LockInv s -> LockInv (run log s).1.
Proof.
  induction log as [|[idx c] log IH]; intros s Hs; cbn; [exact Hs|].
  pose proof (apply_LockInv idx c s Hs) as Ha. destruct (apply idx c s) as [s' r].
  specialize (IH s' Ha). destruct (run log s') as [s'' rs]. exact IH.
Qed.
