(* Session validity (C04, second half): every trigger that must end a session has ended it.
   In every reachable state a live session's node exists, every check the session is bound to
   exists on that node, is linked to the session, and is not critical (unless it is a check of type
   "session", which sessionCreateTxn accepts in critical state).

   The invariant does not hold in the middle of a cascade (deleteCheckTxn removes the check row
   before it invalidates the sessions bound to it; deleteNodeTxn removes the node row before the
   node's sessions), so it is proved with exemption sets: [SV Xn Xc] excuses the sessions of the
   nodes in [Xn] from "node exists" and the bindings to the check keys in [Xc] from "check exists and
   is not critical"; the cascades preserve [SV Xn Xc] for every exemption, and each deleter ends by
   showing that nothing is left to be excused. *)
From stdpp Require Import gmap strings sorting.
From RecordUpdate Require Import RecordSet.
From Coq Require Import NArith.
From Verif Require Import Store.Model Store.Inv.
Import RecordSetNotations.
Local Open Scope N_scope.

(* ---------- lists ---------- *)
Lemma sv_sinsert_perm x l : sinsert x l ≡ₚ x :: l.
Proof.
  induction l as [|y l IH]; cbn; [reflexivity|].
  destruct (String.leb x y); [reflexivity|]. rewrite IH. apply perm_swap.
Qed.
Lemma sv_ssort_perm l : ssort l ≡ₚ l.
Proof. induction l as [|x l IH]; cbn; [reflexivity|]. rewrite sv_sinsert_perm, IH. reflexivity. Qed.
Lemma sv_elem_of_ssort x l : x ∈ ssort l <-> x ∈ l.
Proof. rewrite (sv_ssort_perm l). reflexivity. Qed.

Lemma sv_sessions_of_check nd cid sid s :
  sid ∈ sessions_of_check nd cid s <-> (nd, cid, sid) ∈ schecks s.
Proof.
  unfold sessions_of_check. rewrite sv_elem_of_ssort, elem_of_list_omap. split.
  - intros ([[n c] x] & Hin & Hf). apply elem_of_elements in Hin.
    destruct (bool_decide (n = nd /\ c = cid)) eqn:E; [|discriminate].
    apply bool_decide_eq_true in E as [-> ->]. injection Hf as <-. exact Hin.
  - intros Hin. exists (nd, cid, sid). split; [apply elem_of_elements; exact Hin|].
    rewrite bool_decide_eq_true_2 by (split; reflexivity). reflexivity.
Qed.

Lemma sv_sessions_of_node nd sid s :
  sid ∈ sessions_of_node nd s <-> exists ss, sessions s !! sid = Some ss /\ s_node ss = nd.
Proof.
  unfold sessions_of_node. rewrite sv_elem_of_ssort, elem_of_list_omap. split.
  - intros ([x ss] & Hin & Hf). apply elem_of_map_to_list in Hin.
    destruct (bool_decide (s_node ss = nd)) eqn:E; [|discriminate].
    apply bool_decide_eq_true in E. injection Hf as <-. eauto.
  - intros (ss & Hs & Hn). exists (sid, ss). split; [apply elem_of_map_to_list; exact Hs|].
    rewrite bool_decide_eq_true_2 by exact Hn. reflexivity.
Qed.

Lemma sv_session_checks_of_node nd name cid s :
  cid ∈ session_checks_of_node nd name s ->
  exists c, checks s !! (nd, cid) = Some c /\ c_session_type c = true.
Proof.
  unfold session_checks_of_node. rewrite sv_elem_of_ssort, elem_of_list_omap.
  intros ([[n x] c] & Hin & Hf). apply elem_of_map_to_list in Hin.
  destruct (bool_decide (n = nd)) eqn:E; [|discriminate]. apply bool_decide_eq_true in E. subst.
  destruct (c_session_type c) eqn:Et; [|discriminate].
  destruct (bool_decide (c_sessname c = name)); [|discriminate].
  cbn in Hf. injection Hf as <-. eauto.
Qed.

(* ---------- the invariant, with exemptions ---------- *)
Definition bound_ok (c : check) : Prop := c_status c = critical -> c_session_type c = true.

Definition SV (Xn : string -> Prop) (Xc : string * string -> Prop) (s : st) : Prop :=
  (forall sid ss, sessions s !! sid = Some ss -> Xn (s_node ss) \/ is_Some (nodes s !! s_node ss)) /\
  (forall sid ss cid, sessions s !! sid = Some ss -> cid ∈ s_checks ss ->
     (s_node ss, cid, sid) ∈ schecks s) /\
  (forall sid ss cid, sessions s !! sid = Some ss -> cid ∈ s_checks ss ->
     Xc (s_node ss, cid) \/ exists c, checks s !! (s_node ss, cid) = Some c /\ bound_ok c).

Definition none_n : string -> Prop := fun _ => False.
Definition none_c : string * string -> Prop := fun _ => False.
Definition SessValid : st -> Prop := SV none_n none_c.

Lemma SV_weaken (Xn Xn' : string -> Prop) (Xc Xc' : string * string -> Prop) s :
  (forall n, Xn n -> Xn' n) -> (forall k, Xc k -> Xc' k) -> SV Xn Xc s -> SV Xn' Xc' s.
Proof.
  intros Hn Hc (HA & HB & HC). repeat split.
  - intros sid ss Hs. destruct (HA sid ss Hs) as [H|H]; [left; apply Hn; exact H|right; exact H].
  - exact HB.
  - intros sid ss cid Hs Hin. destruct (HC sid ss cid Hs Hin) as [H|H]; [left; apply Hc; exact H|right; exact H].
Qed.

(* the invariant only reads sessions, check links, nodes and checks *)
Lemma SV_frame Xn Xc (s s' : st) :
  sessions s' = sessions s -> schecks s' = schecks s -> nodes s' = nodes s -> checks s' = checks s ->
  SV Xn Xc s -> SV Xn Xc s'.
Proof. intros H1 H2 H3 H4. unfold SV. rewrite H1, H2, H3, H4. exact id. Qed.

(* ---------- predicates the cascade preserves ---------- *)
(* weaker than [lock_only]: a check row may be written only with a status a bound session tolerates *)
Record casc (P : st -> Prop) : Prop := {
  ca_store : forall s pre idx nd cid hc ex, P s -> bound_ok hc -> P (store_check pre idx nd cid hc ex s);
  ca_drop : drop_ok P
}.

Lemma lock_only_casc P : lock_only P -> drop_ok P -> casc P.
Proof.
  intros HP Hd. split; [|exact Hd]. intros s pre idx nd cid hc ex Hs _. unfold store_check.
  destruct (match ex with Some x => negb (check_same x hc) | None => true end);
    [apply (lo_checks P HP); exact Hs|exact Hs].
Qed.

Lemma casc_and P Q : casc P -> casc Q -> casc (fun s => P s /\ Q s).
Proof.
  intros [Ps Pd] [Qs Qd]. split.
  - intros s pre idx nd cid hc ex [HP HQ] Hb. split; [apply Ps|apply Qs]; assumption.
  - intros s idx sid ss [HP HQ] Hs. split; [apply Pd|apply Qd]; assumption.
Qed.

Lemma store_check_frame pre idx nd cid hc ex s :
  sessions (store_check pre idx nd cid hc ex s) = sessions s /\
  schecks (store_check pre idx nd cid hc ex s) = schecks s /\
  nodes (store_check pre idx nd cid hc ex s) = nodes s /\
  kvs (store_check pre idx nd cid hc ex s) = kvs s /\
  queries (store_check pre idx nd cid hc ex s) = queries s.
Proof.
  unfold store_check.
  destruct (match ex with Some x => negb (check_same x hc) | None => true end); repeat split.
Qed.

Lemma bounded_casc P n : casc P -> casc (bounded P n).
Proof.
  intros [Ps Pd]. split.
  - intros s pre idx nd cid hc ex [Hs Hn] Hb. split; [apply Ps; assumption|].
    rewrite (proj1 (store_check_frame _ _ _ _ _ _ _)). exact Hn.
  - intros s idx sid ss [Hs Hn] Hss. split; [apply Pd; assumption|].
    rewrite drop_session_sessions.
    rewrite (map_size_delete_Some sid (sessions s)) by (rewrite Hss; eauto). lia.
Qed.

Lemma ensure_check_with_casc P del pre idx nd cid hc :
  casc P -> bound_ok hc -> (forall i sid, preserves P (del i sid)) ->
  preserves P (ensure_check_with del pre idx nd cid hc).
Proof.
  intros HP Hb Hdel s Hs. unfold ensure_check_with.
  destruct (nodes s !! nd); [|exact Hs].
  apply (bind_preserves P bound_ok).
  { unfold resolve_service. destruct (bool_decide _); [exact Hb|].
    destruct (services s !! _); [exact Hb|exact Hs]. }
  intros hc1 Hb1. apply (bind_preserves P P).
  { unfold invalidate_if_critical. destruct (bool_decide _); [|exact Hs].
    apply (rfold_preserves P); [|exact Hs]. intros sid. apply Hdel. }
  intros s1 Hs1. cbn. apply (ca_store P HP); assumption.
Qed.

(* updateSessionCheck(critical) over the node's session checks, for any deleter that preserves P *)
Lemma update_session_checks_casc P (del : N -> string -> st -> result st) idx sid nd (cm : st) l :
  casc P ->
  (forall cid, cid ∈ l -> exists c, checks cm !! (nd, cid) = Some c /\ c_session_type c = true) ->
  (forall i sid', preserves P (del i sid')) ->
  preserves P
    (rfold (fun s' cid =>
              match checks cm !! (nd, cid) with
              | None => Ok s'
              | Some c => ensure_check_with del true idx nd cid
                            (c <| c_status := critical |> <| c_output := OInvalid sid |>) s'
              end) l).
Proof.
  intros HP Hl Hdel. induction l as [|cid l IHl]; intros s' Hs'; cbn [rfold]; [exact Hs'|].
  destruct (Hl cid) as (c & Hc & Ht); [left|]. rewrite Hc.
  apply (bind_preserves P P).
  { refine (ensure_check_with_casc P del true idx nd cid _ HP _ Hdel s' Hs'). intros _. exact Ht. }
  intros s'' Hs''.
  apply IHl; [|exact Hs'']. intros cid' Hin. apply Hl. right. exact Hin.
Qed.

Lemma delete_session_casc P fuel : forall n idx sid,
  casc P -> (n < fuel)%nat -> preserves (bounded P n) (delete_session fuel idx sid).
Proof.
  induction fuel as [|fuel IH]; intros n idx sid HP Hn s [Hs Hsz]; [lia|]. cbn.
  destruct (sessions s !! sid) as [ss|] eqn:Ess; [|split; assumption].
  assert (Hsz4 : (size (sessions (drop_session idx sid ss s)) <= pred n /\ 0 < n)%nat).
  { rewrite drop_session_sessions.
    pose proof (map_size_delete_Some sid (sessions s) (ex_intro _ ss Ess)) as Hx.
    assert (size (sessions s) ≠ 0%nat) by (intros Hz; apply map_size_empty_inv in Hz; rewrite Hz in Ess;
                                       rewrite lookup_empty in Ess; discriminate).
    lia. }
  destruct Hsz4 as [Hsz4 Hpos].
  pose proof (update_session_checks_casc (bounded P (pred n)) (delete_session fuel) idx sid (s_node ss)
                (drop_session idx sid ss s)
                (session_checks_of_node (s_node ss) (s_name ss) (drop_session idx sid ss s))
                (bounded_casc P (pred n) HP)
                (fun cid Hin => sv_session_checks_of_node _ _ _ _ Hin)
                (fun i sid' => IH (pred n) i sid' HP ltac:(lia))
                (drop_session idx sid ss s)
                (conj (ca_drop P HP s idx sid ss Hs Ess) Hsz4)) as Hfin.
  destruct (rfold _ _ _) as [s'|e p]; cbn in *.
  - destruct Hfin as [H1 H2]. split; [exact H1|lia].
  - destruct e; try contradiction; (destruct Hfin as [H1 H2]; split; [exact H1|lia]).
Qed.

Lemma delete_session_top_casc P idx sid : casc P -> preserves P (delete_session_top idx sid).
Proof.
  intros HP s Hs. unfold delete_session_top, fuel_of.
  pose proof (delete_session_casc P (S (size (sessions s))) (size (sessions s)) idx sid HP
                (Nat.lt_succ_diag_r _) s (conj Hs (Nat.le_refl _))) as Hx.
  destruct (delete_session _ idx sid s) as [s'|e p]; cbn in *.
  - exact (proj1 Hx).
  - destruct e; try contradiction; exact (proj1 Hx).
Qed.

(* ... and the session it was asked to delete is gone afterwards *)
Lemma delete_session_top_gone P idx sid :
  casc P -> forall s, P s ->
  post (fun s' => P s' /\ sessions s' !! sid = None) id (delete_session_top idx sid s).
Proof.
  intros HP s Hs. unfold delete_session_top, fuel_of. cbn [delete_session].
  destruct (sessions s !! sid) as [ss|] eqn:Ess; [|split; assumption].
  set (Q := fun s' : st => P s' /\ sessions s' !! sid = None).
  assert (HQ : casc Q).
  { apply casc_and; [exact HP|]. apply lock_only_casc.
    - split; intros s0 f H0; exact H0.
    - intros s0 i sid' ss' H0 _. rewrite drop_session_sessions.
      destruct (decide (sid' = sid)) as [->|Hne]; [apply lookup_delete|].
      rewrite lookup_delete_ne by exact Hne. exact H0. }
  assert (Hpos : (0 < size (sessions s))%nat).
  { assert (size (sessions s) ≠ 0%nat); [|lia]. intros Hz. apply map_size_empty_inv in Hz.
    rewrite Hz, lookup_empty in Ess. discriminate. }
  assert (Hs4 : bounded Q (pred (size (sessions s))) (drop_session idx sid ss s)).
  { split; [split; [apply (ca_drop P HP); assumption|rewrite drop_session_sessions; apply lookup_delete]|].
    rewrite drop_session_sessions.
    rewrite (map_size_delete_Some sid (sessions s)) by (rewrite Ess; eauto). lia. }
  pose proof (update_session_checks_casc (bounded Q (pred (size (sessions s))))
                (delete_session (size (sessions s))) idx sid (s_node ss)
                (drop_session idx sid ss s)
                (session_checks_of_node (s_node ss) (s_name ss) (drop_session idx sid ss s))
                (bounded_casc Q _ HQ)
                (fun cid Hin => sv_session_checks_of_node _ _ _ _ Hin)
                (fun i sid' => delete_session_casc Q (size (sessions s)) (pred (size (sessions s)))
                                 i sid' HQ ltac:(lia))
                (drop_session idx sid ss s) Hs4) as Hfin.
  destruct (rfold _ _ _) as [s'|e p]; cbn in *.
  - exact (proj1 Hfin).
  - destruct e; try contradiction; exact (proj1 Hfin).
Qed.

(* ---------- SV is preserved by the cascade ---------- *)
Lemma drop_session_frame idx sid ss s :
  nodes (drop_session idx sid ss s) = nodes s /\ checks (drop_session idx sid ss s) = checks s /\
  schecks (drop_session idx sid ss s) = filter (fun m => m.2 ≠ sid) (schecks s).
Proof.
  unfold drop_session. cbn zeta.
  match goal with |- context [bool_decide ?P] => destruct (bool_decide P) end; cbn;
    destruct (release_or_delete_keys_frame idx sid ss
                (set_index "sessions" idx (s <| sessions ::= delete sid |>))) as (_ & F2 & _ & F4 & _ & F6);
    rewrite ?F2, ?F4, ?F6; repeat split.
Qed.

Lemma SV_casc Xn Xc : casc (SV Xn Xc).
Proof.
  split.
  - intros s pre idx nd cid hc ex (HA & HB & HC) Hb.
    destruct (store_check_frame pre idx nd cid hc ex s) as (F1 & F2 & F3 & _).
    unfold SV. rewrite F1, F2, F3. repeat split; [exact HA|exact HB|].
    intros sid ss c0 Hs Hin. destruct (HC sid ss c0 Hs Hin) as [H|(c & Hc & Hok)]; [left; exact H|right].
    unfold store_check.
    destruct (match ex with Some x => negb (check_same x hc) | None => true end); [|eauto].
    cbn. destruct (decide ((s_node ss, c0) = (nd, cid))) as [Heq|Hne].
    + rewrite Heq, lookup_insert. eexists; split; [reflexivity|]. exact Hb.
    + rewrite lookup_insert_ne by congruence. eauto.
  - intros s idx sid ss (HA & HB & HC) Hss.
    destruct (drop_session_frame idx sid ss s) as (Fn & Fc & Fs).
    unfold SV. rewrite drop_session_sessions, Fn, Fc, Fs. repeat split.
    + intros sid' ss' Hs'. apply lookup_delete_Some in Hs' as [Hne Hs']. eapply HA; exact Hs'.
    + intros sid' ss' c0 Hs' Hin. apply lookup_delete_Some in Hs' as [Hne Hs'].
      apply elem_of_filter. split; [cbn; congruence|eapply HB; eassumption].
    + intros sid' ss' c0 Hs' Hin. apply lookup_delete_Some in Hs' as [Hne Hs']. eapply HC; eassumption.
Qed.

(* sessions are only ever removed by a cascade, never changed *)
Definition Mono (s0 s : st) : Prop :=
  forall sid ss, sessions s !! sid = Some ss -> sessions s0 !! sid = Some ss.

Lemma Mono_casc s0 : casc (Mono s0).
Proof.
  apply lock_only_casc.
  - split; intros s f H; exact H.
  - intros s idx sid ss H _ sid' ss' Hs'. rewrite drop_session_sessions in Hs'.
    apply lookup_delete_Some in Hs' as [_ Hs']. apply H. exact Hs'.
Qed.

Lemma Gone_casc sid : casc (fun s => sessions s !! sid = None).
Proof.
  apply lock_only_casc.
  - split; intros s f H; exact H.
  - intros s i sid' ss' H0 _. rewrite drop_session_sessions.
    destruct (decide (sid' = sid)) as [->|Hne]; [apply lookup_delete|].
    rewrite lookup_delete_ne by exact Hne. exact H0.
Qed.

(* ---------- success postconditions ---------- *)
(* The reachable-state theorem only needs what holds when a command succeeds: a failed command
   (and a transaction with a failed operation) leaves the committed state as it was. *)
Definition okpost {A} (Q : A -> Prop) (r : result A) : Prop :=
  match r with Ok a => Q a | Err _ _ => True end.

Lemma okpost_bind {A B} (Q : A -> Prop) (R : B -> Prop) (m : result A) (k : A -> result B) :
  okpost Q m -> (forall a, Q a -> okpost R (k a)) -> okpost R (m ≫= k).
Proof. intros Hm Hk. destruct m as [a|e p]; cbn; [apply Hk; exact Hm|exact I]. Qed.

Lemma post_okpost (P : st -> Prop) (r : result st) : post P id r -> okpost P r.
Proof. destruct r as [a|e p]; cbn; [exact id|intros _; exact I]. Qed.

Lemma okpost_weaken {A} (Q R : A -> Prop) (r : result A) :
  (forall a, Q a -> R a) -> okpost Q r -> okpost R r.
Proof. intros H. destruct r; cbn; [apply H|exact id]. Qed.

Lemma okpost_rfold {A} (P : st -> Prop) (f : st -> A -> result st) l :
  (forall x s, P s -> okpost P (f s x)) -> forall s, P s -> okpost P (rfold f l s).
Proof.
  intros Hf. induction l as [|x l IH]; intros s Hs; cbn [rfold]; [exact Hs|].
  apply (okpost_bind P P); [apply Hf; exact Hs|exact IH].
Qed.

(* deleting a list of sessions: all of them are gone afterwards *)
Lemma delete_all_gone idx l : forall P, casc P -> forall s, P s ->
  okpost (fun s' => P s' /\ forall sid, sid ∈ l -> sessions s' !! sid = None)
         (rfold (fun s' sid => delete_session_top idx sid s') l s).
Proof.
  induction l as [|x l IH]; intros P HP s Hs; cbn [rfold].
  - split; [exact Hs|]. intros sid Hin. inversion Hin.
  - apply (okpost_bind (fun s' => P s' /\ sessions s' !! x = None)).
    + apply post_okpost. apply (delete_session_top_gone P idx x HP s Hs).
    + intros a Ha.
      pose proof (IH (fun s' => P s' /\ sessions s' !! x = None)
                     (casc_and _ _ HP (Gone_casc x)) a Ha) as Hr.
      eapply okpost_weaken; [|exact Hr]. cbn. intros a' [[HPa Hx] Hl]. split; [exact HPa|].
      intros sid Hin. apply elem_of_cons in Hin as [->|Hin]; [exact Hx|apply Hl; exact Hin].
Qed.

(* ---------- exemptions come and go ---------- *)
Definition plus_c (Xc : string * string -> Prop) (k : string * string) : string * string -> Prop :=
  fun k' => Xc k' \/ k' = k.
Definition plus_n (Xn : string -> Prop) (n : string) : string -> Prop := fun n' => Xn n' \/ n' = n.

Lemma SV_unexempt (Xn Xn' : string -> Prop) (Xc Xc' : string * string -> Prop) s :
  SV Xn' Xc' s ->
  (forall sid ss, sessions s !! sid = Some ss -> Xn' (s_node ss) -> Xn (s_node ss)) ->
  (forall sid ss cid, sessions s !! sid = Some ss -> cid ∈ s_checks ss ->
     Xc' (s_node ss, cid) -> Xc (s_node ss, cid)) ->
  SV Xn Xc s.
Proof.
  intros (HA & HB & HC) Hn Hc. repeat split; [|exact HB|].
  - intros sid ss Hs. destruct (HA sid ss Hs) as [H|H]; [left; eapply Hn; eassumption|right; exact H].
  - intros sid ss cid Hs Hin.
    destruct (HC sid ss cid Hs Hin) as [H|H]; [left; eapply Hc; eassumption|right; exact H].
Qed.

Lemma SV_store_nolink Xn Xc pre idx nd cid hc ex s :
  SV Xn Xc s ->
  (forall sid ss, sessions s !! sid = Some ss -> s_node ss = nd -> cid ∈ s_checks ss -> False) ->
  SV Xn Xc (store_check pre idx nd cid hc ex s).
Proof.
  intros (HA & HB & HC) Hno.
  destruct (store_check_frame pre idx nd cid hc ex s) as (F1 & F2 & F3 & _).
  unfold SV. rewrite F1, F2, F3. repeat split; [exact HA|exact HB|].
  intros sid ss c0 Hs Hin. destruct (HC sid ss c0 Hs Hin) as [H|(c & Hc & Hok)]; [left; exact H|right].
  unfold store_check.
  destruct (match ex with Some x => negb (check_same x hc) | None => true end); [|eauto].
  cbn. destruct (decide ((s_node ss, c0) = (nd, cid))) as [Heq|Hne].
  - exfalso. injection Heq as Hn Hc0. subst c0. exact (Hno sid ss Hs Hn Hin).
  - rewrite lookup_insert_ne by congruence. eauto.
Qed.

Lemma SV_nodes_insert Xn Xc nd n s : SV Xn Xc s -> SV Xn Xc (s <| nodes ::= <[nd := n]> |>).
Proof.
  intros (HA & HB & HC). unfold SV; cbn. repeat split; [|exact HB|exact HC].
  intros sid ss Hs. destruct (HA sid ss Hs) as [H|H]; [left; exact H|right].
  destruct (decide (s_node ss = nd)) as [->|Hne];
    [rewrite lookup_insert; eauto|rewrite lookup_insert_ne by congruence; exact H].
Qed.

(* ---------- the deleters ---------- *)
Lemma delete_check_SV Xn Xc idx nd cid s :
  SV Xn Xc s -> okpost (SV Xn Xc) (delete_check idx nd cid s).
Proof.
  intros Hs. unfold delete_check. destruct (checks s !! (nd, cid)) as [ck0|]; [|exact Hs]. cbn zeta.
  set (s1 := s <| checks ::= delete (nd, cid) |>).
  assert (H1 : SV Xn (plus_c Xc (nd, cid)) s1).
  { destruct Hs as (HA & HB & HC). unfold SV, s1; cbn. repeat split; [exact HA|exact HB|].
    intros sid ss c0 Hss Hin. destruct (decide ((s_node ss, c0) = (nd, cid))) as [Heq|Hne].
    - left. right. exact Heq.
    - destruct (HC sid ss c0 Hss Hin) as [H|(c & Hc & Hok)]; [left; left; exact H|right].
      exists c. rewrite lookup_delete_ne by congruence. split; assumption. }
  pose proof (delete_all_gone idx (sessions_of_check nd cid s1)
                (fun s' => SV Xn (plus_c Xc (nd, cid)) s' /\ Mono s1 s')
                (casc_and _ _ (SV_casc _ _) (Mono_casc s1)) s1 (conj H1 (fun _ _ H => H))) as Hr.
  eapply okpost_weaken; [|exact Hr]. cbn. intros s' [[Hsv Hm] Hg].
  eapply SV_unexempt; [exact Hsv|intros ? ? _ H; exact H|].
  intros sid ss c0 Hss Hin [H|Heq]; [exact H|exfalso].
  injection Heq as Hn Hc. subst c0.
  pose proof (Hm sid ss Hss) as Hss1. destruct H1 as (_ & HB1 & _).
  pose proof (HB1 sid ss cid Hss1 Hin) as Hlink. rewrite Hn in Hlink.
  apply sv_sessions_of_check in Hlink. rewrite (Hg sid Hlink) in Hss. discriminate.
Qed.

Lemma delete_service_SV Xn Xc idx nd svc s :
  SV Xn Xc s -> okpost (SV Xn Xc) (delete_service idx nd svc s).
Proof.
  intros Hs. unfold delete_service. destruct (services s !! (nd, svc)); [|exact Hs].
  apply (okpost_bind (SV Xn Xc)).
  - apply okpost_rfold; [|exact Hs]. intros cid s' Hs'. apply delete_check_SV; exact Hs'.
  - intros s1 H1. cbn. apply (SV_frame Xn Xc s1); [reflexivity..|exact H1].
Qed.

Lemma delete_node_SV Xn Xc idx nd s :
  SV Xn Xc s -> okpost (SV Xn Xc) (delete_node idx nd s).
Proof.
  intros Hs. unfold delete_node. destruct (nodes s !! nd); [|exact Hs].
  apply (okpost_bind (SV Xn Xc)).
  { apply okpost_rfold; [|exact Hs]. intros svc s' Hs'. apply delete_service_SV; exact Hs'. }
  intros s1 H1. apply (okpost_bind (SV Xn Xc)).
  { apply okpost_rfold; [|exact H1]. intros cid s' Hs'. apply delete_check_SV; exact Hs'. }
  intros s2 H2. cbn zeta.
  set (s3 := s2 <| nodes ::= delete nd |>).
  assert (H3 : SV (plus_n Xn nd) Xc s3).
  { destruct H2 as (HA & HB & HC). unfold SV, s3; cbn. repeat split; [|exact HB|exact HC].
    intros sid ss Hss. destruct (decide (s_node ss = nd)) as [Heq|Hne]; [left; right; exact Heq|].
    destruct (HA sid ss Hss) as [H|H]; [left; left; exact H|right].
    rewrite lookup_delete_ne by congruence. exact H. }
  pose proof (delete_all_gone idx (sessions_of_node nd s3)
                (fun s' => SV (plus_n Xn nd) Xc s' /\ Mono s3 s')
                (casc_and _ _ (SV_casc _ _) (Mono_casc s3)) s3 (conj H3 (fun _ _ H => H))) as Hr.
  eapply okpost_weaken; [|exact Hr]. cbn. intros s' [[Hsv Hm] Hg].
  eapply SV_unexempt; [exact Hsv| |intros ? ? ? _ _ H; exact H].
  intros sid ss Hss [H|Heq]; [exact H|exfalso].
  pose proof (Hm sid ss Hss) as Hss3.
  assert (Hin : sid ∈ sessions_of_node nd s3) by (apply sv_sessions_of_node; eauto).
  rewrite (Hg sid Hin) in Hss. discriminate.
Qed.

(* ensureCheckTxn: a critical status first ends every session bound to the check *)
Lemma ensure_check_p_SV Xn Xc pre idx nd cid hc s :
  SV Xn Xc s -> okpost (SV Xn Xc) (ensure_check_p pre idx nd cid hc s).
Proof.
  intros Hs. unfold ensure_check_p, ensure_check_with.
  destruct (nodes s !! nd); [|exact I].
  apply (okpost_bind (fun _ : check => True)).
  { unfold resolve_service. destruct (bool_decide _); [exact I|].
    destruct (services s !! _); exact I. }
  intros hc1 _. unfold invalidate_if_critical.
  destruct (bool_decide (c_status hc1 = critical)) eqn:Ecrit.
  - apply (okpost_bind (fun s1 => (SV Xn Xc s1 /\ Mono s s1) /\
                          forall sid, sid ∈ sessions_of_check nd cid s -> sessions s1 !! sid = None)).
    { apply (delete_all_gone idx (sessions_of_check nd cid s) (fun s' => SV Xn Xc s' /\ Mono s s')
               (casc_and _ _ (SV_casc _ _) (Mono_casc s)) s (conj Hs (fun _ _ H => H))). }
    intros s1 [[H1 Hm] Hg]. cbn.
    apply SV_store_nolink; [exact H1|].
    intros sid ss Hss Hn Hin. pose proof (Hm sid ss Hss) as Hss0.
    destruct Hs as (_ & HB & _). pose proof (HB sid ss cid Hss0 Hin) as Hl. rewrite Hn in Hl.
    apply sv_sessions_of_check in Hl. rewrite (Hg sid Hl) in Hss. discriminate.
  - cbn. apply (ca_store _ (SV_casc Xn Xc)); [exact Hs|].
    intros Hc. apply bool_decide_eq_false in Ecrit. contradiction.
Qed.

(* ---------- session creation ---------- *)
Lemma session_create_SV Xn Xc idx sid ss s :
  SV Xn Xc s -> okpost (SV Xn Xc) (session_create idx sid ss s).
Proof.
  intros Hs. unfold session_create. destruct (bool_decide (sid = "")); [exact I|].
  destruct (nodes s !! s_node ss) as [n|] eqn:En; [|exact I].
  destruct (forallb _ _) eqn:Efa; [|exact I].
  apply okpost_rfold.
  - intros cid s' Hs'. cbn beta.
    match goal with |- context [checks ?s1 !! ?key] => destruct (checks s1 !! key) end; [|exact Hs'].
    apply ensure_check_p_SV; exact Hs'.
  - destruct Hs as (HA & HB & HC). unfold SV, set_index; cbn. repeat split.
    + intros sid' ss' Hs'. destruct (decide (sid' = sid)) as [->|Hne].
      * rewrite lookup_insert in Hs'. injection Hs' as <-. cbn. right. rewrite En. eauto.
      * rewrite lookup_insert_ne in Hs' by congruence. eapply HA; exact Hs'.
    + intros sid' ss' c0 Hs' Hin. apply elem_of_union. destruct (decide (sid' = sid)) as [->|Hne].
      * rewrite lookup_insert in Hs'. injection Hs' as <-. cbn in *. left.
        apply elem_of_list_to_set, elem_of_list_fmap. exists c0. split; [reflexivity|exact Hin].
      * rewrite lookup_insert_ne in Hs' by congruence. right. eapply HB; eassumption.
    + intros sid' ss' c0 Hs' Hin. destruct (decide (sid' = sid)) as [->|Hne].
      * rewrite lookup_insert in Hs'. injection Hs' as <-. cbn in *. right.
        rewrite forallb_forall in Efa. specialize (Efa c0 (proj1 (elem_of_list_In _ _) Hin)).
        destruct (checks s !! (s_node ss, c0)) as [c|]; [|discriminate]. exists c. split; [reflexivity|].
        intros Hcrit. rewrite (bool_decide_eq_true_2 _ Hcrit) in Efa. cbn in Efa.
        destruct (c_session_type c); [reflexivity|discriminate].
      * rewrite lookup_insert_ne in Hs' by congruence. eapply HC; eassumption.
Qed.

(* ---------- catalog writes ---------- *)
Lemma ensure_node_SV Xn Xc idx nd id addr s :
  SV Xn Xc s -> okpost (SV Xn Xc) (ensure_node idx nd id addr s).
Proof.
  intros Hs. unfold ensure_node.
  assert (Hfin : forall n0 s1, SV Xn Xc s1 ->
    okpost (SV Xn Xc)
      (let n1 := match n0 with Some x => Some x | None => nodes s1 !! nd end in
       match n1 with
       | Some x => if bool_decide (n_id x = id) && bool_decide (n_addr x = addr)
                      && bool_decide (nodes s1 !! nd = Some x)
                   then Ok s1 else Ok (s1 <| nodes ::= <[nd := Node id addr (n_create x) idx]> |>)
       | None => Ok (s1 <| nodes ::= <[nd := Node id addr idx idx]> |>)
       end)).
  { intros n0 s1 Hs1. cbn. destruct n0 as [x|]; [|destruct (nodes s1 !! nd) as [x|]].
    - destruct (_ && _); [exact Hs1|apply SV_nodes_insert; exact Hs1].
    - destruct (_ && _); [exact Hs1|apply SV_nodes_insert; exact Hs1].
    - apply SV_nodes_insert; exact Hs1. }
  destruct (bool_decide (id = "")); cbn; [apply (Hfin None); exact Hs|].
  destruct (node_by_id id s) as [[oname on]|]; cbn.
  - destruct (bool_decide (oname = nd)); cbn; [apply (Hfin (Some on)); exact Hs|].
    destruct (similar_clash false nd id s); cbn; [exact I|].
    pose proof (delete_node_SV Xn Xc idx oname s Hs) as Hr.
    destruct (delete_node idx oname s) as [s'|e p]; cbn; [|exact I].
    apply (Hfin (Some on)). exact Hr.
  - destruct (similar_clash true nd id s); cbn; [exact I|]. apply (Hfin None). exact Hs.
Qed.

Lemma ensure_service_SV Xn Xc idx nd svc name port s :
  SV Xn Xc s -> okpost (SV Xn Xc) (ensure_service idx nd svc name port s).
Proof.
  intros Hs. unfold ensure_service. destruct (nodes s !! nd); [|exact I].
  destruct (services s !! (nd, svc)) as [x|].
  - destruct (_ && _); [exact Hs|]. cbn. apply (SV_frame Xn Xc s); [reflexivity..|exact Hs].
  - cbn. apply (SV_frame Xn Xc s); [reflexivity..|exact Hs].
Qed.

Lemma ensure_registration_SV Xn Xc idx nd id addr skip svc cks s :
  SV Xn Xc s -> okpost (SV Xn Xc) (ensure_registration idx nd id addr skip svc cks s).
Proof.
  intros Hs. unfold ensure_registration.
  apply (okpost_bind (SV Xn Xc)).
  { destruct (changes_node _ _ _ _); [|exact Hs]. apply ensure_node_SV; exact Hs. }
  intros s1 Hs1. apply (okpost_bind (SV Xn Xc)).
  { destruct svc as [[[sid name] port]|]; [|exact Hs1].
    destruct (services s1 !! (nd, sid)) as [x|].
    - destruct (_ && _); [exact Hs1|]. apply ensure_service_SV; exact Hs1.
    - apply ensure_service_SV; exact Hs1. }
  intros s2 Hs2. apply okpost_rfold; [|exact Hs2].
  intros c s' Hs'. cbn. destruct (bool_decide _); [|exact I].
  apply ensure_check_p_SV; exact Hs'.
Qed.

(* ---------- writes that do not touch sessions, links, nodes or checks ---------- *)
Definition same4 (s s' : st) : Prop :=
  sessions s' = sessions s /\ schecks s' = schecks s /\ nodes s' = nodes s /\ checks s' = checks s.

Lemma SV_same4 Xn Xc s s' : same4 s s' -> SV Xn Xc s -> SV Xn Xc s'.
Proof. intros (H1 & H2 & H3 & H4). apply SV_frame; assumption. Qed.

Lemma same4_refl s : same4 s s.
Proof. repeat split. Qed.

Lemma kvs_set_same4 idx k e u s : same4 s (kvs_set idx k e u s).1.
Proof.
  unfold kvs_set. destruct (kvs s !! k) as [x|]; [destruct (kv_same _ _)|]; repeat split.
Qed.
Lemma kvs_delete_same4 idx k s : same4 s (kvs_delete idx k s).
Proof. unfold kvs_delete. destruct (kvs s !! k); repeat split. Qed.
Lemma kvs_delete_cas_same4 idx cidx k s : same4 s (kvs_delete_cas idx cidx k s).2.
Proof.
  unfold kvs_delete_cas. destruct (kvs s !! k) eqn:E; [|repeat split].
  destruct (bool_decide _); cbn; [apply kvs_delete_same4|repeat split].
Qed.
Lemma kvs_set_cas_same4 idx k e s : same4 s (kvs_set_cas idx k e s).2.1.
Proof.
  unfold kvs_set_cas. destruct (kvs s !! k).
  - destruct (bool_decide (kv_modify e = 0)); cbn; [repeat split|].
    destruct (bool_decide _); cbn; [apply kvs_set_same4|repeat split].
  - destruct (bool_decide _); cbn; [apply kvs_set_same4|repeat split].
Qed.
Lemma kvs_delete_tree_same4 idx p s : same4 s (kvs_delete_tree idx p s).
Proof.
  unfold kvs_delete_tree. destruct (bool_decide _); [repeat split|].
  destruct (bool_decide (p = "")); repeat split.
Qed.
Lemma kvs_lock_same4 idx k e s : okpost (fun r => same4 s r.2.1) (kvs_lock idx k e s).
Proof.
  unfold kvs_lock. destruct (bool_decide (kv_session e = "")); [exact I|].
  destruct (sessions s !! kv_session e); [|exact I].
  destruct (kvs s !! k) as [x|].
  - destruct (bool_decide (kv_session x = kv_session e)); cbn; [apply kvs_set_same4|].
    destruct (bool_decide (kv_session x = "")); cbn; [apply kvs_set_same4|repeat split].
  - cbn. apply kvs_set_same4.
Qed.
Lemma kvs_unlock_same4 idx k e s : okpost (fun r => same4 s r.2.1) (kvs_unlock idx k e s).
Proof.
  unfold kvs_unlock. destruct (bool_decide (kv_session e = "")); [exact I|].
  destruct (kvs s !! k) as [x|]; [|repeat split].
  destruct (bool_decide _); cbn; [apply kvs_set_same4|repeat split].
Qed.

(* ---------- transactions ---------- *)
Lemma txn_kv_SV Xn Xc idx v q s :
  SV Xn Xc s -> okpost (fun r => SV Xn Xc r.1) (txn_kv idx v q s).
Proof.
  intros Hs. unfold txn_kv. destruct v; cbn.
  - pose proof (kvs_set_same4 idx (q_key q) (ent_of q) false s) as Hx.
    destruct (kvs_set _ _ _ _ _) as [s' e']. cbn in *. eapply SV_same4; eassumption.
  - eapply SV_same4; [apply kvs_delete_same4|exact Hs].
  - pose proof (kvs_delete_cas_same4 idx (q_index q) (q_key q) s) as Hx.
    destruct (kvs_delete_cas _ _ _ _) as [[] s']; cbn in *; [eapply SV_same4; eassumption|exact I].
  - eapply SV_same4; [apply kvs_delete_tree_same4|exact Hs].
  - pose proof (kvs_set_cas_same4 idx (q_key q) (ent_of q) s) as Hx.
    destruct (kvs_set_cas _ _ _ _) as [[] [s' e']]; cbn in *; [eapply SV_same4; eassumption|exact I].
  - pose proof (kvs_lock_same4 idx (q_key q) (ent_of q) s) as Hx.
    destruct (kvs_lock _ _ _ _) as [[[] [s' e']]|er p]; cbn in *; [eapply SV_same4; eassumption|exact I|exact I].
  - pose proof (kvs_unlock_same4 idx (q_key q) (ent_of q) s) as Hx.
    destruct (kvs_unlock _ _ _ _) as [[[] [s' e']]|er p]; cbn in *; [eapply SV_same4; eassumption|exact I|exact I].
  - destruct (kvs s !! q_key q); [exact Hs|exact I].
  - destruct (kvs s !! q_key q); exact Hs.
  - exact Hs.
  - destruct (kvs s !! q_key q); [destruct (bool_decide _)|]; first [exact Hs|exact I].
  - destruct (kvs s !! q_key q); [destruct (bool_decide _)|]; first [exact Hs|exact I].
  - destruct (kvs s !! q_key q); [exact I|exact Hs].
Qed.

Lemma okpost_bind_fst {B} (P : st -> Prop) (m : result st) (k : st -> result (st * B)) :
  okpost P m -> (forall s', P s' -> okpost (fun r => P r.1) (k s')) -> okpost (fun r => P r.1) (m ≫= k).
Proof. intros Hm Hk. destruct m as [a|e p]; cbn; [apply Hk; exact Hm|exact I]. Qed.

Lemma txn_node_SV Xn Xc idx v nd id addr cidx s :
  SV Xn Xc s -> okpost (fun r => SV Xn Xc r.1) (txn_node idx v nd id addr cidx s).
Proof.
  intros Hs. unfold txn_node.
  assert (Hreply : forall s', SV Xn Xc s' ->
     okpost (fun r : st * list tres => SV Xn Xc r.1)
       (match (if bool_decide (id = "") then (fun n => (nd, n)) <$> nodes s' !! nd else node_by_id id s') with
        | Some (nm, n) => Ok (s', [RNode nm n]) | None => Ok (s', []) end)).
  { intros s' Hs'. destruct (if bool_decide (id = "") then _ else _) as [[nm n]|]; exact Hs'. }
  destruct v.
  - destruct (if bool_decide (id = "") then _ else _) as [[nm n]|]; [exact Hs|exact I].
  - apply okpost_bind_fst; [apply ensure_node_SV; exact Hs|exact Hreply].
  - destruct (cas_ok _ _ _); [|exact I].
    apply okpost_bind_fst; [apply ensure_node_SV; exact Hs|exact Hreply].
  - apply okpost_bind_fst; [apply delete_node_SV; exact Hs|intros s' Hs'; exact Hs'].
  - destruct (nodes s !! nd) as [x|]; [|exact I]. destruct (bool_decide (n_modify x = cidx)); [|exact I].
    apply okpost_bind_fst; [apply delete_node_SV; exact Hs|intros s' Hs'; exact Hs'].
Qed.

Lemma txn_service_SV Xn Xc idx v nd svc name port cidx s :
  SV Xn Xc s -> okpost (fun r => SV Xn Xc r.1) (txn_service idx v nd svc name port cidx s).
Proof.
  intros Hs. unfold txn_service.
  assert (Hreply : forall s', SV Xn Xc s' ->
     okpost (fun r : st * list tres => SV Xn Xc r.1)
            (match services s' !! (nd, svc) with
             | Some x => Ok (s', [RService nd svc x]) | None => Ok (s', []) end)).
  { intros s' Hs'. destruct (services s' !! (nd, svc)); exact Hs'. }
  destruct v.
  - destruct (services s !! (nd, svc)); [exact Hs|exact I].
  - apply okpost_bind_fst; [apply ensure_service_SV; exact Hs|exact Hreply].
  - destruct (cas_ok _ _ _); [|exact I].
    apply okpost_bind_fst; [apply ensure_service_SV; exact Hs|exact Hreply].
  - apply okpost_bind_fst; [apply delete_service_SV; exact Hs|intros s' Hs'; exact Hs'].
  - destruct (services s !! (nd, svc)) as [x|]; [|exact I]. destruct (bool_decide (sv_modify x = cidx)); [|exact I].
    apply okpost_bind_fst; [apply delete_service_SV; exact Hs|intros s' Hs'; exact Hs'].
Qed.

Lemma txn_check_SV Xn Xc idx v c s :
  SV Xn Xc s -> okpost (fun r => SV Xn Xc r.1) (txn_check idx v c s).
Proof.
  intros Hs. unfold txn_check.
  assert (Hreply : forall s', SV Xn Xc s' ->
     okpost (fun r : st * list tres => SV Xn Xc r.1)
            (match checks s' !! (cr_node c, cr_id c) with
             | Some x => Ok (s', [RCheck (cr_node c) (cr_id c) x]) | None => Ok (s', []) end)).
  { intros s' Hs'. destruct (checks s' !! _); exact Hs'. }
  destruct v.
  - destruct (checks s !! _); [exact Hs|exact I].
  - apply okpost_bind_fst; [apply ensure_check_p_SV; exact Hs|exact Hreply].
  - destruct (cas_ok _ _ _); [|exact I].
    apply okpost_bind_fst; [apply ensure_check_p_SV; exact Hs|exact Hreply].
  - apply okpost_bind_fst; [apply delete_check_SV; exact Hs|intros s' Hs'; exact Hs'].
  - destruct (checks s !! _) as [x|]; [|exact I]. destruct (bool_decide (c_modify x = cr_index c)); [|exact I].
    apply okpost_bind_fst; [apply delete_check_SV; exact Hs|intros s' Hs'; exact Hs'].
Qed.

Lemma txn_op_SV Xn Xc idx op s :
  SV Xn Xc s -> okpost (fun r => SV Xn Xc r.1) (txn_op idx op s).
Proof.
  intros Hs. destruct op; cbn [txn_op].
  - apply txn_kv_SV; exact Hs.
  - apply txn_node_SV; exact Hs.
  - apply txn_service_SV; exact Hs.
  - apply txn_check_SV; exact Hs.
  - destruct (sessions s !! sid); [|exact I].
    apply okpost_bind_fst; [|intros s' Hs'; exact Hs'].
    apply post_okpost. apply delete_session_top_casc; [apply SV_casc|exact Hs].
Qed.

(* a transaction that reports no error went through successful operations only *)
Lemma txn_dispatch_SV Xn Xc idx ops : forall i s,
  SV Xn Xc s -> (txn_dispatch idx i ops s).2 = [] -> SV Xn Xc (txn_dispatch idx i ops s).1.1.
Proof.
  induction ops as [|op ops IH]; intros i s Hs; cbn; [intros _; exact Hs|].
  pose proof (txn_op_SV Xn Xc idx op s Hs) as Hop.
  destruct (txn_op idx op s) as [[s' r]|e sp]; cbn in Hop.
  - specialize (IH (S i) s' Hop). destruct (txn_dispatch idx (S i) ops s') as [[s'' rs] es]. exact IH.
  - destruct (txn_dispatch idx (S i) ops sp) as [[s'' rs] es]. cbn. discriminate.
Qed.

(* ---------- commands and histories ---------- *)
Lemma of_unit_SV Xn Xc (r : result st) s :
  SV Xn Xc s -> okpost (SV Xn Xc) r -> SV Xn Xc (of_unit r s).1.
Proof. intros Hs Hr. destruct r as [s'|e p]; cbn; [exact Hr|exact Hs]. Qed.

Theorem apply_SessValid idx c s : SessValid s -> SessValid (apply idx c s).1.
Proof.
  unfold SessValid. intros Hs. destruct c; cbn.
  - (* KVS *) unfold apply_kvs. destruct v; cbn; try exact Hs.
    + eapply SV_same4; [apply kvs_set_same4|exact Hs].
    + eapply SV_same4; [apply kvs_delete_same4|exact Hs].
    + pose proof (kvs_delete_cas_same4 idx (q_index q) (q_key q) s) as Hx.
      destruct (kvs_delete_cas _ _ _ _) as [ok s']. eapply SV_same4; eassumption.
    + eapply SV_same4; [apply kvs_delete_tree_same4|exact Hs].
    + pose proof (kvs_set_cas_same4 idx (q_key q) (ent_of q) s) as Hx.
      destruct (kvs_set_cas _ _ _ _) as [[] [s' e']]; cbn in *; [eapply SV_same4; eassumption|exact Hs].
    + pose proof (kvs_lock_same4 idx (q_key q) (ent_of q) s) as Hx.
      destruct (kvs_lock _ _ _ _) as [[[] [s' e']]|er p]; cbn in *; [eapply SV_same4; eassumption|exact Hs|exact Hs].
    + pose proof (kvs_unlock_same4 idx (q_key q) (ent_of q) s) as Hx.
      destruct (kvs_unlock _ _ _ _) as [[[] [s' e']]|er p]; cbn in *; [eapply SV_same4; eassumption|exact Hs|exact Hs].
  - pose proof (session_create_SV _ _ idx sid ss s Hs) as Hx.
    destruct (session_create idx sid ss s); cbn; [exact Hx|exact Hs].
  - apply of_unit_SV; [exact Hs|]. apply post_okpost.
    apply delete_session_top_casc; [apply SV_casc|exact Hs].
  - apply of_unit_SV; [exact Hs|]. apply ensure_registration_SV; exact Hs.
  - destruct (negb (bool_decide (svc = ""))); [|destruct (negb (bool_decide (cid = "")))];
      (apply of_unit_SV; [exact Hs|]).
    + apply delete_service_SV; exact Hs.
    + apply delete_check_SV; exact Hs.
    + apply delete_node_SV; exact Hs.
  - unfold txn_rw. pose proof (txn_dispatch_SV _ _ idx ops 0%nat s Hs) as Hx.
    destruct (txn_dispatch idx 0 ops s) as [[s' rs] es]. destruct es; cbn; [apply Hx; reflexivity|exact Hs].
  - eapply SV_same4; [|exact Hs]. repeat split.
  - apply of_unit_SV; [exact Hs|]. unfold query_set.
    destruct (_ || _); [|exact I]. cbn. eapply SV_same4; [|exact Hs]. repeat split.
  - unfold query_delete. destruct (queries s !! qid); [|exact Hs].
    eapply SV_same4; [|exact Hs]. repeat split.
Qed.

Lemma SessValid_st0 : SessValid st0.
Proof.
  unfold SessValid, SV, st0; cbn. repeat split.
  - intros sid ss H. rewrite lookup_empty in H. discriminate.
  - intros sid ss cid H. rewrite lookup_empty in H. discriminate.
  - intros sid ss cid H. rewrite lookup_empty in H. discriminate.
Qed.

Theorem run_SessValid log : forall s, SessValid s -> SessValid (run log s).1.
Proof.
  induction log as [|[idx c] log IH]; intros s Hs; cbn; [exact Hs|].
  pose proof (apply_SessValid idx c s Hs) as Ha. destruct (apply idx c s) as [s' r].
  specialize (IH s' Ha). destruct (run log s') as [s'' rs]. exact IH.
Qed.

(* readable form: what a live session can rely on, in every reachable state *)
Theorem sessions_valid log sid ss :
  sessions (run log st0).1 !! sid = Some ss ->
  is_Some (nodes (run log st0).1 !! s_node ss) /\
  forall cid, cid ∈ s_checks ss ->
    (s_node ss, cid, sid) ∈ schecks (run log st0).1 /\
    exists c, checks (run log st0).1 !! (s_node ss, cid) = Some c /\
              (c_status c = critical -> c_session_type c = true).
Proof.
  intros Hs. destruct (run_SessValid log st0 SessValid_st0) as (HA & HB & HC). split.
  - destruct (HA sid ss Hs) as [[]|H]; exact H.
  - intros cid Hin. split; [eapply HB; eassumption|].
    destruct (HC sid ss cid Hs Hin) as [[]|H]; exact H.
Qed.

(* each trigger, as a consequence: after any history, if the node of a session is not registered,
   or a check it is bound to is missing or critical (and not of type "session"), the session is
   not there *)
Corollary trigger_ends_session log sid ss :
  let s := (run log st0).1 in
  (nodes s !! s_node ss = None \/
   exists cid, cid ∈ s_checks ss /\
     match checks s !! (s_node ss, cid) with
     | None => True
     | Some c => c_status c = critical /\ c_session_type c = false
     end) ->
  sessions s !! sid ≠ Some ss.
Proof.
  cbv zeta. intros Htrig Hs. destruct (sessions_valid log sid ss Hs) as [Hn Hc].
  destruct Htrig as [Hnone|(cid & Hin & Hck)].
  - rewrite Hnone in Hn. destruct Hn; discriminate.
  - destruct (Hc cid Hin) as (_ & c & Hcc & Hok). rewrite Hcc in Hck. destruct Hck as [Hcrit Hty].
    rewrite (Hok Hcrit) in Hty. discriminate.
Qed.
