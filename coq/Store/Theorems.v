(* Theorems about the core store model used by properties C03, C04, C05. *)
From stdpp Require Import gmap strings.
From RecordUpdate Require Import RecordSet.
From Coq Require Import NArith.
From Verif Require Import Store.Model Store.Inv.
Import RecordSetNotations.
Local Open Scope N_scope.

(* ================= C05: transactions ================= *)

(* A transaction with any failing operation changes nothing at all -- not the replicated tables, not
   the index table, not even the (local) lock-delay map -- and returns no results. *)
Theorem txn_all_or_nothing idx ops s s' rs es :
  txn_rw idx ops s = (s', CTxn rs es) -> es ≠ [] -> s' = s /\ rs = [].
Proof.
  unfold txn_rw. destruct (txn_dispatch idx 0 ops s) as [[s1 rs1] es1].
  destruct es1 as [|e1 es1]; intros Heq Hne.
  - injection Heq as <- <- <-. contradiction.
  - injection Heq as <- <- <-. split; reflexivity.
Qed.

(* The same for every single command that reports an error. *)
Theorem failed_command_changes_nothing idx c s e :
  (apply idx c s).2 = CErr e -> (apply idx c s).1 = s.
Proof.
  destruct c; cbn [apply of_unit].
  - unfold apply_kvs. destruct v; cbn; try discriminate; try (intros _; reflexivity).
    + destruct (kvs_delete_cas _ _ _ _) as [ok s1]; cbn; discriminate.
    + destruct (kvs_set_cas _ _ _ _) as [ok [s1 e1]]; cbn; discriminate.
    + destruct (kvs_lock _ _ _ _) as [[ok [s1 e1]]|er p]; cbn; intros H; [discriminate H|reflexivity].
    + destruct (kvs_unlock _ _ _ _) as [[ok [s1 e1]]|er p]; cbn; intros H; [discriminate H|reflexivity].
  - destruct (session_create idx sid ss s); cbn; intros H; [discriminate H|reflexivity].
  - destruct (delete_session_top idx sid s); cbn; intros H; [discriminate H|reflexivity].
  - destruct (ensure_registration _ _ _ _ _ _ _ s); cbn; intros H; [discriminate H|reflexivity].
  - destruct (negb (bool_decide (svc = ""))); [|destruct (negb (bool_decide (cid = "")))].
    + destruct (delete_service idx nd svc s); cbn; intros H; [discriminate H|reflexivity].
    + destruct (delete_check idx nd cid s); cbn; intros H; [discriminate H|reflexivity].
    + destruct (delete_node idx nd s); cbn; intros H; [discriminate H|reflexivity].
  - unfold txn_rw. destruct (txn_dispatch idx 0 ops s) as [[s1 rs1] es1]. destruct es1; cbn; discriminate.
  - cbn; discriminate.
  - destruct (query_set idx qid sess s); cbn; intros H; [discriminate H|reflexivity].
  - cbn; discriminate.
Qed.

(* A concrete, non-trivial instance (it also pins the repaired behaviour: before the fix recorded in
   known_findings.json this very transaction left a lock delay on key "a" behind): node n1 with
   check c1, a session with a lock delay bound to c1 holding key "a"; the transaction sets c1
   critical (which invalidates the session) and then fails on a missing key. *)
Definition ld_log : list (N * cmd) :=
  [ (1, Register "n1" "" 1 false None [CheckReq "n1" "c1" 0 "" false "" 0 0]);
    (2, SessionCreate "s1" (Sess "n1" "" false ["c1"] true 0));
    (3, KVS VLock (KVReq "a" [] 0 "s1" 0 0)) ].
Definition ld_txn : list txnop :=
  [ TCheck CSet (CheckReq "n1" "c1" 2 "" false "" 0 0); TKV VGet (KVReq "zz" [] 0 "" 0 0) ].

Lemma st_eqb_eq a b : st_eqb a b = true -> a = b.
Proof.
  unfold st_eqb. intros H. repeat (apply andb_true_iff in H as [H ?]).
  repeat match goal with X : bool_decide _ = true |- _ => apply bool_decide_eq_true in X end.
  destruct a, b; cbn in *. congruence.
Qed.

Example txn_failed_example :
  let s := (run ld_log st0).1 in
  (txn_rw 4 ld_txn s).2 = CTxn [] [(1%nat, ENotFound)] /\ (txn_rw 4 ld_txn s).1 = s /\
  (exists e, kvs s !! "a" = Some e /\ kv_session e = "s1") /\
  (* the same operations without the failing one do invalidate the session and set the delay *)
  lockdelay (txn_rw 4 [TCheck CSet (CheckReq "n1" "c1" 2 "" false "" 0 0)] s).1 = {["a"]}.
Proof.
  cbv zeta. split; [vm_compute; reflexivity|]. split; [apply st_eqb_eq; vm_compute; reflexivity|].
  split; [eexists; split; vm_compute; reflexivity|].
  eapply bool_decide_eq_true_1; vm_compute; reflexivity.
Qed.

(* Committed transactions are the sequential composition of their operations. *)
Fixpoint seq_ops (idx : N) (ops : list txnop) (s : st) : result (st * list tres) :=
  match ops with
  | [] => Ok (s, [])
  | op :: rest =>
    match txn_op idx op s with
    | Ok (s', r) => match seq_ops idx rest s' with
                    | Ok (s'', rs) => Ok (s'', r ++ rs)
                    | Err e p => Err e p
                    end
    | Err e p => Err e p
    end
  end.

Lemma txn_dispatch_seq idx ops : forall i s s' rs,
  txn_dispatch idx i ops s = (s', rs, []) -> seq_ops idx ops s = Ok (s', rs).
Proof.
  induction ops as [|op ops IH]; intros i s s' rs; cbn.
  - intros Heq; injection Heq as <- <-; reflexivity.
  - destruct (txn_op idx op s) as [[s1 r]|e sp].
    + destruct (txn_dispatch idx (S i) ops s1) as [[s2 rs2] es2] eqn:Ed.
      intros Heq. injection Heq as <- <- ->. rewrite (IH (S i) s1 s2 rs2 Ed). reflexivity.
    + destruct (txn_dispatch idx (S i) ops sp) as [[s2 rs2] es2]. intros Heq; discriminate.
Qed.

Theorem txn_commit_is_sequential idx ops s s' rs :
  txn_rw idx ops s = (s', CTxn rs []) -> seq_ops idx ops s = Ok (s', rs).
Proof.
  unfold txn_rw. destruct (txn_dispatch idx 0 ops s) as [[s1 rs1] es1] eqn:Ed.
  destruct es1 as [|e1 es1]; intros Heq; [|discriminate].
  injection Heq as <- <-. apply (txn_dispatch_seq idx ops 0%nat). exact Ed.
Qed.

(* the write verbs inside a transaction are the standalone commands *)
Theorem txn_kv_is_command idx v q s s' r :
  txn_kv idx v q s = Ok (s', r) ->
  match v with VSet | VDelete | VDeleteCAS | VDeleteTree | VCAS | VLock | VUnlock => (apply_kvs idx v q s).1 = s'
          | _ => s' = s end.
Proof.
  unfold txn_kv, apply_kvs. destruct v; cbn.
  - destruct (kvs_set _ _ _ _ _) as [s1 e1]. intros Heq; injection Heq as <- _. reflexivity.
  - intros Heq; injection Heq as <- _. reflexivity.
  - destruct (kvs_delete_cas _ _ _ _) as [[] s1]; intros Heq; [injection Heq as <- _; reflexivity|discriminate].
  - intros Heq; injection Heq as <- _. reflexivity.
  - destruct (kvs_set_cas _ _ _ _) as [[] [s1 e1]]; intros Heq; [injection Heq as <- _; reflexivity|discriminate].
  - destruct (kvs_lock _ _ _ _) as [[[] [s1 e1]]|er p]; intros Heq; try discriminate.
    injection Heq as <- _. reflexivity.
  - destruct (kvs_unlock _ _ _ _) as [[[] [s1 e1]]|er p]; intros Heq; try discriminate.
    injection Heq as <- _. reflexivity.
  - destruct (kvs s !! q_key q); intros Heq; [injection Heq as <- _; reflexivity|discriminate].
  - destruct (kvs s !! q_key q); intros Heq; injection Heq as <- _; reflexivity.
  - intros Heq; injection Heq as <- _. reflexivity.
  - destruct (kvs s !! q_key q); [destruct (bool_decide _)|]; intros Heq; try discriminate;
      injection Heq as <- _; reflexivity.
  - destruct (kvs s !! q_key q); [destruct (bool_decide _)|]; intros Heq; try discriminate;
      injection Heq as <- _; reflexivity.
  - destruct (kvs s !! q_key q); intros Heq; [discriminate|injection Heq as <- _; reflexivity].
Qed.

(* read-only transactions: the verbs the read endpoint admits never modify the state *)
Definition is_read (op : txnop) : bool :=
  match op with
  | TKV (VGet | VGetOrEmpty | VGetTree | VCheckSession | VCheckIndex | VCheckNotExists) _ => true
  | TNode CGet _ _ _ _ => true
  | TService CGet _ _ _ _ _ => true
  | TCheck CGet _ => true
  | _ => false
  end.

Theorem read_op_pure idx op s :
  is_read op = true -> match txn_op idx op s with Ok (s', _) => s' = s | Err _ p => p = s end.
Proof.
  destruct op as [v q|v nd id addr cidx|v nd svc name port cidx|v c|sid]; cbn [is_read txn_op];
    try discriminate.
  - destruct v; try discriminate; intros _; unfold txn_kv.
    + destruct (kvs s !! q_key q); reflexivity.
    + destruct (kvs s !! q_key q); reflexivity.
    + reflexivity.
    + destruct (kvs s !! q_key q); [destruct (bool_decide _)|]; reflexivity.
    + destruct (kvs s !! q_key q); [destruct (bool_decide _)|]; reflexivity.
    + destruct (kvs s !! q_key q); reflexivity.
  - destruct v; try discriminate; intros _. unfold txn_node.
    destruct (if bool_decide (id = "") then _ else _) as [[nm n]|]; reflexivity.
  - destruct v; try discriminate; intros _. unfold txn_service.
    destruct (services s !! (nd, svc)); reflexivity.
  - destruct v; try discriminate; intros _. unfold txn_check.
    destruct (checks s !! _); reflexivity.
Qed.

Theorem txn_ro_pure idx ops : forall i s,
  forallb is_read ops = true -> (txn_dispatch idx i ops s).1.1 = s.
Proof.
  induction ops as [|op ops IH]; intros i s Hall; cbn; [reflexivity|].
  cbn in Hall. apply andb_true_iff in Hall as [Hop Hall].
  pose proof (read_op_pure idx op s Hop) as Hx.
  destruct (txn_op idx op s) as [[s' r]|e sp]; subst.
  - specialize (IH (S i) s Hall). destruct (txn_dispatch idx (S i) ops s) as [[s2 rs2] es2]. exact IH.
  - specialize (IH (S i) s Hall). destruct (txn_dispatch idx (S i) ops s) as [[s2 rs2] es2]. exact IH.
Qed.

(* ================= C04: locks ================= *)

Theorem lock_invariant log : LockInv (run log st0).1.
Proof. apply run_LockInv, LockInv_st0. Qed.

(* a session that is gone holds nothing *)
Theorem gone_session_holds_nothing s sid :
  LockInv s -> sessions s !! sid = None -> sid ≠ "" ->
  (forall k e, kvs s !! k = Some e -> kv_session e ≠ sid) /\
  (forall n c, (n, c, sid) ∉ schecks s) /\
  (forall q, queries s !! q ≠ Some sid).
Proof.
  intros (H0 & Hkv & Hc & Hq) Hgone Hne. repeat split.
  - intros k e He Heq. destruct (Hkv k e He) as [Hx|[x Hx]]; congruence.
  - intros n c Hin. destruct (Hc n c sid Hin) as [x Hx]. congruence.
  - intros q Hx. destruct (Hq q sid Hx) as [Hy|[x Hy]]; congruence.
Qed.

(* acquisition: succeeds iff the session is live and the key is free or already held by it *)
Theorem lock_acquire idx k e s :
  match kvs_lock idx k e s with
  | Err er _ => (er = ENoSession /\ kv_session e = "") \/
                (er = EInvalidSession /\ kv_session e ≠ "" /\ sessions s !! kv_session e = None)
  | Ok (ok, (s', _)) =>
    kv_session e ≠ "" /\ is_Some (sessions s !! kv_session e) /\
    (ok = true <-> match kvs s !! k with
                   | None => True
                   | Some x => kv_session x = "" \/ kv_session x = kv_session e
                   end) /\
    (ok = true -> exists e', kvs s' !! k = Some e' /\ kv_session e' = kv_session e) /\
    (ok = false -> s' = s)
  end.
Proof.
  unfold kvs_lock. destruct (bool_decide (kv_session e = "")) eqn:E0.
  { apply bool_decide_eq_true in E0. left. split; [reflexivity|exact E0]. }
  apply bool_decide_eq_false in E0.
  destruct (sessions s !! kv_session e) as [ss|] eqn:Ess; [|right; repeat split; assumption].
  assert (Hset : forall ent, exists e', kvs (kvs_set idx k ent true s).1 !! k = Some e' /\ kv_session e' = kv_session ent).
  { intros ent. unfold kvs_set. destruct (kvs s !! k) as [x|] eqn:Ex.
    - destruct (kv_same x _) eqn:Esame; cbn.
      + exists x. split; [exact Ex|]. unfold kv_same in Esame. cbn in Esame.
        repeat (apply andb_true_iff in Esame as [Esame ?]).
        match goal with H : bool_decide (kv_session x = _) = true |- _ => apply bool_decide_eq_true in H; exact H end.
      + eexists. rewrite lookup_insert. split; reflexivity.
    - cbn. eexists. rewrite lookup_insert. split; reflexivity. }
  destruct (kvs s !! k) as [x|] eqn:Ex.
  - destruct (bool_decide (kv_session x = kv_session e)) eqn:E1.
    + apply bool_decide_eq_true in E1.
      destruct (kvs_set idx k _ true s) as [s' e'] eqn:Eset. repeat split; eauto.
      intros _. pose proof (Hset (KV (kv_value e) (kv_flags e) (kv_session e) (kv_lock x) (kv_create x) idx)) as Hx.
      rewrite Eset in Hx. exact Hx.
      discriminate.
    + apply bool_decide_eq_false in E1. destruct (bool_decide (kv_session x = "")) eqn:E2.
      * apply bool_decide_eq_true in E2.
        destruct (kvs_set idx k _ true s) as [s' e'] eqn:Eset. repeat split; eauto.
        intros _. pose proof (Hset (KV (kv_value e) (kv_flags e) (kv_session e) (kv_lock x + 1) (kv_create x) idx)) as Hx.
        rewrite Eset in Hx. exact Hx.
        discriminate.
      * apply bool_decide_eq_false in E2. repeat split; eauto; try discriminate.
        intros [Hx|Hx]; contradiction.
  - destruct (kvs_set idx k _ true s) as [s' e'] eqn:Eset. repeat split; eauto.
    intros _. pose proof (Hset (KV (kv_value e) (kv_flags e) (kv_session e) 1 idx idx)) as Hx.
    rewrite Eset in Hx. exact Hx.
    discriminate.
Qed.

(* release: only the holder *)
Theorem lock_release idx k e s :
  match kvs_unlock idx k e s with
  | Err er _ => er = ENoSession /\ kv_session e = ""
  | Ok (ok, (s', _)) =>
    (ok = true <-> exists x, kvs s !! k = Some x /\ kv_session x = kv_session e) /\
    (ok = false -> s' = s)
  end.
Proof.
  unfold kvs_unlock. destruct (bool_decide (kv_session e = "")) eqn:E0.
  { apply bool_decide_eq_true in E0. split; [reflexivity|exact E0]. }
  destruct (kvs s !! k) as [x|] eqn:Ex.
  - destruct (bool_decide (kv_session x = kv_session e)) eqn:E1.
    + apply bool_decide_eq_true in E1. destruct (kvs_set _ _ _ _ _) as [s' e'].
      split; [split; [intros _; exists x; split; [reflexivity|exact E1]|reflexivity]|discriminate].
    + apply bool_decide_eq_false in E1. split; [|reflexivity].
      split; [discriminate|]. intros (y & Hy & Hs). injection Hy as <-. contradiction.
  - split; [|reflexivity]. split; [discriminate|]. intros (y & Hy & _). discriminate.
Qed.

(* the end of a session, in the same step: what happens to each key it held *)
Theorem session_end_keys idx sid ss s k e0 :
  kvs s !! k = Some e0 -> kv_session e0 = sid ->
  if s_delete ss
  then kvs (drop_session idx sid ss s) !! k = None /\ tombs (drop_session idx sid ss s) !! k = Some idx
  else kvs (drop_session idx sid ss s) !! k
       = Some (KV (kv_value e0) (kv_flags e0) "" (kv_lock e0) (kv_create e0) idx).
Proof.
  intros He0 Hs0.
  assert (Hheld : filter (fun kv : string * kvent => kv_session kv.2 = sid) (kvs s) !! k = Some e0).
  { apply map_filter_lookup_Some. split; assumption. }
  assert (Hne : filter (fun kv : string * kvent => kv_session kv.2 = sid) (kvs s) ≠ ∅).
  { intros Hx. rewrite Hx, lookup_empty in Hheld. discriminate. }
  unfold drop_session. cbn zeta.
  assert (Hcore : if s_delete ss
     then kvs (release_or_delete_keys idx sid ss (set_index "sessions" idx (s <| sessions ::= delete sid |>))) !! k = None /\
          tombs (release_or_delete_keys idx sid ss (set_index "sessions" idx (s <| sessions ::= delete sid |>))) !! k = Some idx
     else kvs (release_or_delete_keys idx sid ss (set_index "sessions" idx (s <| sessions ::= delete sid |>))) !! k
          = Some (KV (kv_value e0) (kv_flags e0) "" (kv_lock e0) (kv_create e0) idx)).
  { unfold release_or_delete_keys. cbn [kvs set_index set].
    change (kvs (set_index "sessions" idx (s <| sessions ::= delete sid |>))) with (kvs s).
    rewrite bool_decide_eq_false_2 by exact Hne.
    destruct (s_delete ss) eqn:Ed.
    - destruct (s_delay ss); cbn; (split;
        [apply map_filter_lookup_None; right; intros e1 He1 Hn; rewrite He0 in He1; injection He1 as <-; contradiction
        |apply lookup_union_Some_l; rewrite lookup_fmap, Hheld; reflexivity]).
    - destruct (s_delay ss); cbn; rewrite lookup_fmap, He0; cbn;
        rewrite bool_decide_eq_true_2 by exact Hs0; reflexivity. }
  match goal with |- context [bool_decide ?P] => destruct (bool_decide P) end;
    destruct (s_delete ss); cbn; exact Hcore.
Qed.

(* ================= C03: the KV store is a sequential versioned map ================= *)

(* The abstract map: what a client can see of the KV store. *)
Notation SpecKV := (gmap string kvent).

Definition spec_write (idx : N) (k : string) (v : bytes) (f : N) (sess : string) (l : N) (m : SpecKV) : SpecKV :=
  match m !! k with
  | Some x => if kv_same x (KV v f sess l 0 0) then m
              else <[k := KV v f sess l (kv_create x) idx]> m
  | None => <[k := KV v f sess l idx idx]> m
  end.
Definition holder (m : SpecKV) (k : string) : string :=
  match m !! k with Some x => kv_session x | None => "" end.
Definition spec_set idx k (e : kvent) (m : SpecKV) : SpecKV :=
  spec_write idx k (kv_value e) (kv_flags e) (holder m k) (kv_lock e) m.
Definition spec_cas idx k (e : kvent) (m : SpecKV) : bool * SpecKV :=
  let ok := match m !! k with
            | Some x => negb (bool_decide (kv_modify e = 0)) && bool_decide (kv_modify e = kv_modify x)
            | None => bool_decide (kv_modify e = 0)
            end in
  if ok then (true, spec_set idx k e m) else (false, m).
Definition spec_delete (k : string) (m : SpecKV) : SpecKV := delete k m.
Definition spec_delete_cas (cidx : N) (k : string) (m : SpecKV) : bool * SpecKV :=
  match m !! k with
  | None => (true, m)
  | Some x => if bool_decide (kv_modify x = cidx) then (true, delete k m) else (false, m)
  end.
Definition spec_delete_tree (p : string) (m : SpecKV) : SpecKV :=
  filter (fun kv => has_prefix p kv.1 = false) m.
(* lock: [live] says whether the session exists *)
Definition spec_lock idx k (e : kvent) (m : SpecKV) : bool * SpecKV :=
  match m !! k with
  | Some x =>
    if bool_decide (kv_session x = kv_session e)
    then (true, spec_write idx k (kv_value e) (kv_flags e) (kv_session e) (kv_lock x) m)
    else if bool_decide (kv_session x = "")
         then (true, spec_write idx k (kv_value e) (kv_flags e) (kv_session e) (kv_lock x + 1) m)
         else (false, m)
  | None => (true, spec_write idx k (kv_value e) (kv_flags e) (kv_session e) 1 m)
  end.
Definition spec_unlock idx k (e : kvent) (m : SpecKV) : bool * SpecKV :=
  match m !! k with
  | Some x => if bool_decide (kv_session x = kv_session e)
              then (true, spec_write idx k (kv_value e) (kv_flags e) "" (kv_lock x) m) else (false, m)
  | None => (false, m)
  end.

Lemma kv_same_irrel x v f s l c1 m1 c2 m2 : kv_same x (KV v f s l c1 m1) = kv_same x (KV v f s l c2 m2).
Proof. reflexivity. Qed.

Lemma kvs_set_write idx k e upd s :
  kvs (kvs_set idx k e upd s).1 =
  spec_write idx k (kv_value e) (kv_flags e)
             (if upd then kv_session e else holder (kvs s) k) (kv_lock e) (kvs s).
Proof.
  unfold kvs_set, spec_write, holder. destruct (kvs s !! k) as [x|] eqn:Ex; rewrite ?Ex; cbn.
  - match goal with |- context [kv_same x ?a] => change (kv_same x a) with
      (kv_same x (KV (kv_value e) (kv_flags e) (if upd then kv_session e else kv_session x) (kv_lock e) 0 0)) end.
    destruct (kv_same x _); reflexivity.
  - reflexivity.
Qed.

Theorem refine_set idx k e s : kvs (kvs_set idx k e false s).1 = spec_set idx k e (kvs s).
Proof. apply kvs_set_write. Qed.

Theorem refine_delete idx k s : kvs (kvs_delete idx k s) = spec_delete k (kvs s).
Proof.
  unfold kvs_delete, spec_delete. destruct (kvs s !! k) eqn:Ek; [reflexivity|].
  symmetry. apply delete_notin. exact Ek.
Qed.

Theorem refine_delete_cas idx cidx k s :
  ((kvs_delete_cas idx cidx k s).1, kvs (kvs_delete_cas idx cidx k s).2) = spec_delete_cas cidx k (kvs s).
Proof.
  unfold kvs_delete_cas, spec_delete_cas. destruct (kvs s !! k) as [x|] eqn:Ek; [|reflexivity].
  destruct (bool_decide _); cbn; [|reflexivity]. rewrite refine_delete. reflexivity.
Qed.

Theorem refine_cas idx k e s :
  ((kvs_set_cas idx k e s).1, kvs (kvs_set_cas idx k e s).2.1) = spec_cas idx k e (kvs s).
Proof.
  unfold kvs_set_cas, spec_cas. destruct (kvs s !! k) as [x|] eqn:Ek.
  - destruct (bool_decide (kv_modify e = 0)); cbn; [reflexivity|].
    destruct (bool_decide _); cbn; [rewrite refine_set|]; reflexivity.
  - destruct (bool_decide (kv_modify e = 0)); cbn; [rewrite refine_set|]; reflexivity.
Qed.

Theorem refine_delete_tree idx p s : kvs (kvs_delete_tree idx p s) = spec_delete_tree p (kvs s).
Proof.
  unfold kvs_delete_tree, spec_delete_tree.
  destruct (bool_decide (filter (fun kv : string * kvent => has_prefix p kv.1 = true) (kvs s) = ∅)) eqn:Ev.
  - apply bool_decide_eq_true in Ev. symmetry. apply map_filter_id.
    intros k x Hk. change (has_prefix p k = false). destruct (has_prefix p k) eqn:Ep; [|reflexivity].
    exfalso.
    assert (Hf : filter (fun kv : string * kvent => has_prefix p kv.1 = true) (kvs s) !! k = Some x)
      by (apply map_filter_lookup_Some; split; [exact Hk|exact Ep]).
    rewrite Ev, lookup_empty in Hf. discriminate.
  - destruct (bool_decide (p = "")); reflexivity.
Qed.

Theorem refine_lock idx k e s r :
  kvs_lock idx k e s = Ok r -> (r.1, kvs r.2.1) = spec_lock idx k e (kvs s).
Proof.
  unfold kvs_lock, spec_lock. destruct (bool_decide (kv_session e = "")); [discriminate|].
  destruct (sessions s !! kv_session e); [|discriminate].
  destruct (kvs s !! k) as [x|] eqn:Ek.
  - destruct (bool_decide (kv_session x = kv_session e)).
    + intros Heq; injection Heq as <-. cbn. rewrite kvs_set_write. reflexivity.
    + destruct (bool_decide (kv_session x = "")); intros Heq; injection Heq as <-; cbn;
        [rewrite kvs_set_write|]; reflexivity.
  - intros Heq; injection Heq as <-. cbn. rewrite kvs_set_write. reflexivity.
Qed.

Theorem refine_unlock idx k e s r :
  kvs_unlock idx k e s = Ok r -> (r.1, kvs r.2.1) = spec_unlock idx k e (kvs s).
Proof.
  unfold kvs_unlock, spec_unlock. destruct (bool_decide (kv_session e = "")); [discriminate|].
  destruct (kvs s !! k) as [x|] eqn:Ek; [|intros Heq; injection Heq as <-; reflexivity].
  destruct (bool_decide (kv_session x = kv_session e)); intros Heq; injection Heq as <-; cbn;
    [rewrite kvs_set_write|]; reflexivity.
Qed.

(* reads return the map *)
Theorem read_get idx k q s :
  q_key q = k -> txn_kv idx VGet q s = match kvs s !! k with Some x => Ok (s, [RKV k x true]) | None => Err ENotFound s end.
Proof. intros <-. reflexivity. Qed.

(* the laws the property names *)
Theorem noop_keeps_modify idx k v f l m x :
  m !! k = Some x -> kv_value x = v -> kv_flags x = f -> kv_lock x = l ->
  spec_write idx k v f (kv_session x) l m = m.
Proof.
  intros Hx <- <- <-. unfold spec_write. rewrite Hx. unfold kv_same; cbn.
  rewrite !bool_decide_eq_true_2 by reflexivity. reflexivity.
Qed.

Theorem write_changes_advance_modify idx k v f sess l m x :
  m !! k = Some x -> spec_write idx k v f sess l m ≠ m ->
  spec_write idx k v f sess l m !! k = Some (KV v f sess l (kv_create x) idx).
Proof.
  intros Hx. unfold spec_write. rewrite Hx. destruct (kv_same x _); [contradiction|].
  intros _. apply lookup_insert.
Qed.

Theorem create_stable idx k v f sess l m x x' :
  m !! k = Some x -> spec_write idx k v f sess l m !! k = Some x' -> kv_create x' = kv_create x.
Proof.
  intros Hx. unfold spec_write. rewrite Hx. destruct (kv_same x _).
  - rewrite Hx. intros Heq; injection Heq as <-. reflexivity.
  - rewrite lookup_insert. intros Heq; injection Heq as <-. reflexivity.
Qed.

Theorem other_keys_untouched idx k v f sess l m k' :
  k' ≠ k -> spec_write idx k v f sess l m !! k' = m !! k'.
Proof.
  intros Hne. unfold spec_write. destruct (m !! k) as [x|]; [destruct (kv_same x _)|];
    try reflexivity; apply lookup_insert_ne; congruence.
Qed.

(* lock counter: a fresh acquisition raises it by exactly one; re-acquisition and release keep it *)
Theorem lock_counter idx k e m :
  match m !! k with
  | None => forall x', (spec_lock idx k e m).2 !! k = Some x' -> kv_lock x' = 1
  | Some x =>
    (forall x', (spec_lock idx k e m).1 = true -> (spec_lock idx k e m).2 !! k = Some x' ->
       kv_lock x' = if bool_decide (kv_session x = kv_session e) then kv_lock x else kv_lock x + 1) /\
    (forall x', (spec_unlock idx k e m).2 !! k = Some x' -> kv_lock x' = kv_lock x)
  end.
Proof.
  unfold spec_lock, spec_unlock. destruct (m !! k) as [x|] eqn:Ex.
  - split.
    + intros x'. destruct (bool_decide (kv_session x = kv_session e)); cbn.
      * intros _. unfold spec_write. rewrite Ex. destruct (kv_same x _) eqn:Es.
        -- rewrite Ex. intros Heq; injection Heq as <-. reflexivity.
        -- rewrite lookup_insert. intros Heq; injection Heq as <-. reflexivity.
      * destruct (bool_decide (kv_session x = "")); cbn; [|discriminate].
        intros _. unfold spec_write. rewrite Ex. destruct (kv_same x _) eqn:Es.
        -- unfold kv_same in Es; cbn in Es. repeat (apply andb_true_iff in Es as [Es ?]).
           apply bool_decide_eq_true in Es. lia.
        -- rewrite lookup_insert. intros Heq; injection Heq as <-. reflexivity.
    + intros x'. destruct (bool_decide (kv_session x = kv_session e)); cbn.
      * unfold spec_write. rewrite Ex. destruct (kv_same x _).
        -- rewrite Ex. intros Heq; injection Heq as <-. reflexivity.
        -- rewrite lookup_insert. intros Heq; injection Heq as <-. reflexivity.
      * rewrite Ex. intros Heq; injection Heq as <-. reflexivity.
  - intros x'. cbn. unfold spec_write. rewrite Ex, lookup_insert. intros Heq; injection Heq as <-. reflexivity.
Qed.

(* Commands that are not KV verbs change the map only by ending sessions: every key is either
   untouched, or its holder's session is gone and the key is deleted or released (holder cleared,
   value, flags, lock counter and create index kept). *)
Definition released (e0 e : kvent) : Prop :=
  kv_value e = kv_value e0 /\ kv_flags e = kv_flags e0 /\ kv_session e = "" /\
  kv_lock e = kv_lock e0 /\ kv_create e = kv_create e0.

Definition KVFrame (s0 s : st) : Prop :=
  LockInv s /\
  (forall sid, sessions s0 !! sid = None -> sessions s !! sid = None) /\
  forall k, kvs s !! k = kvs s0 !! k \/
            exists e0, kvs s0 !! k = Some e0 /\ kv_session e0 ≠ "" /\
                       sessions s !! kv_session e0 = None /\
                       (kvs s !! k = None \/ exists e, kvs s !! k = Some e /\ released e0 e).

Lemma KVFrame_refl s : LockInv s -> KVFrame s s.
Proof. intros Hs. split; [exact Hs|]. split; [auto|]. intros k. left. reflexivity. Qed.

Lemma KVFrame_lock_only s0 : lock_only (KVFrame s0).
Proof. split; intros s f Hs; exact Hs. Qed.

Lemma KVFrame_drop_ok s0 : drop_ok (KVFrame s0).
Proof.
  intros s idx sid ss (Hinv & Hmono & Hk) Hss.
  pose proof Hinv as (H0 & Hkv & _ & _).
  assert (Hsid : sid ≠ "") by (intros ->; congruence).
  split; [apply LockInv_drop_ok; assumption|]. split.
  - intros sid' Hn. rewrite drop_session_sessions. apply lookup_delete_None. right. apply Hmono. exact Hn.
  - intros k. rewrite drop_session_sessions.
    destruct (kvs (drop_session idx sid ss s) !! k) as [e|] eqn:Ed.
    + apply drop_session_kvs in Ed as [[Ed Hne]|(e1 & He1 & Hs1 & Hdel & ->)].
      * destruct (Hk k) as [Hx|(e0 & He0 & Hh & Hg & Hr)].
        -- left. congruence.
        -- right. exists e0. repeat split; try assumption.
           ++ apply lookup_delete_None. right. exact Hg.
           ++ right. destruct Hr as [Hr|(e' & He' & Hrel)]; [congruence|].
              exists e. split; [reflexivity|]. congruence.
      * destruct (Hk k) as [Hx|(e0 & He0 & Hh & Hg & Hr)].
        -- right. exists e1. rewrite <- Hx. repeat split; try assumption; try reflexivity.
           ++ congruence.
           ++ rewrite Hs1. apply lookup_delete.
           ++ right. eexists. split; [reflexivity|]. repeat split; reflexivity.
        -- (* already released earlier: its holder is "", so it is not held by sid *)
           destruct Hr as [Hr|(e' & He' & Hrel)]; [congruence|].
           rewrite He1 in He'. injection He' as <-. destruct Hrel as (_ & _ & Hh' & _). congruence.
    + destruct (Hk k) as [Hx|(e0 & He0 & Hh & Hg & Hr)].
      * destruct (kvs s !! k) as [e1|] eqn:E1.
        -- (* deleted now: it was held by sid *)
           right. exists e1. rewrite <- Hx.
           assert (Hheld : kv_session e1 = sid).
           { destruct (decide (kv_session e1 = sid)) as [Hy|Hy]; [exact Hy|]. exfalso.
             assert (Hstay : kvs (drop_session idx sid ss s) !! k ≠ None).
             { unfold drop_session. cbn zeta.
               match goal with |- context [bool_decide ?P] => destruct (bool_decide P) end; cbn;
                 unfold release_or_delete_keys; cbn;
                 destruct (bool_decide (filter _ (kvs s) = ∅)); cbn; try congruence;
                 destruct (s_delete ss), (s_delay ss); cbn;
                 try (rewrite lookup_fmap, E1; cbn; discriminate);
                 (intros Hn; apply map_filter_lookup_None in Hn as [Hn|Hn]; [congruence|];
                  apply (Hn e1 E1); exact Hy). }
             contradiction. }
           repeat split; try reflexivity.
           ++ congruence.
           ++ rewrite Hheld. apply lookup_delete.
           ++ left. reflexivity.
        -- left. congruence.
      * right. exists e0. repeat split; try assumption.
        -- apply lookup_delete_None. right. exact Hg.
        -- left. reflexivity.
Qed.

Theorem session_destroy_frame idx sid s :
  LockInv s -> post (KVFrame s) id (delete_session_top idx sid s).
Proof.
  intros Hs. apply delete_session_top_preserves;
    [apply KVFrame_lock_only|apply KVFrame_drop_ok|apply KVFrame_refl; exact Hs].
Qed.

Theorem deregister_frame idx nd svc cid s :
  LockInv s ->
  post (KVFrame s) id (if negb (bool_decide (svc = "")) then delete_service idx nd svc s
                       else if negb (bool_decide (cid = "")) then delete_check idx nd cid s
                            else delete_node idx nd s).
Proof.
  intros Hs. destruct (negb _); [|destruct (negb _)].
  - apply delete_service_preserves; [apply KVFrame_lock_only|apply KVFrame_drop_ok|apply KVFrame_refl; exact Hs].
  - apply delete_check_preserves; [apply KVFrame_lock_only|apply KVFrame_drop_ok|apply KVFrame_refl; exact Hs].
  - apply delete_node_preserves; [apply KVFrame_lock_only|apply KVFrame_drop_ok|apply KVFrame_refl; exact Hs].
Qed.
