(* C04: the holder of a key changes only by a successful acquisition of a free key, a release by
   the holder, or the end of the holder's session -- for every command, not only for the lock verbs. *)
From stdpp Require Import gmap strings.
From RecordUpdate Require Import RecordSet.
From Coq Require Import NArith.
From Verif Require Import Store.Model Store.Inv Store.SessInv Store.EndInv.
Import RecordSetNotations.
Local Open Scope N_scope.

Definition holder (s : st) (k : string) : option string := kv_session <$> kvs s !! k.

Lemma kvs_set_holder idx k e u s k' :
  holder (kvs_set idx k e u s).1 k' =
  if decide (k' = k) then Some (if u then kv_session e else default "" (holder s k)) else holder s k'.
Proof.
  unfold holder, kvs_set. destruct (kvs s !! k) as [x|] eqn:Ex.
  - destruct (kv_same x _) eqn:Es; cbn.
    + destruct (decide (k' = k)) as [->|Hne]; [|reflexivity]. rewrite Ex. cbn.
      unfold kv_same in Es. cbn in Es. repeat (apply andb_true_iff in Es as [Es ?]).
      match goal with H : bool_decide (kv_session x = _) = true |- _ => apply bool_decide_eq_true in H; rewrite H end.
      destruct u; reflexivity.
    + destruct (decide (k' = k)) as [->|Hne];
        [rewrite lookup_insert; destruct u; reflexivity|rewrite lookup_insert_ne by congruence; reflexivity].
  - cbn. destruct (decide (k' = k)) as [->|Hne];
      [rewrite lookup_insert; destruct u; reflexivity|rewrite lookup_insert_ne by congruence; reflexivity].
Qed.

Lemma kvs_delete_holder idx k s k' :
  holder (kvs_delete idx k s) k' = if decide (k' = k) then None else holder s k'.
Proof.
  unfold holder, kvs_delete. destruct (kvs s !! k) eqn:Ek; cbn.
  - destruct (decide (k' = k)) as [->|Hne]; [rewrite lookup_delete|rewrite lookup_delete_ne by congruence]; reflexivity.
  - destruct (decide (k' = k)) as [->|Hne]; [rewrite Ek|]; reflexivity.
Qed.

Local Ltac use_set Hh' k :=
  match type of Hh' with
  | context [kvs_set ?i ?kk ?e ?u ?s] =>
    let H := fresh "Hset" in
    pose proof (kvs_set_holder i kk e u s k) as H;
    destruct (kvs_set i kk e u s) as [? ?]; cbn in H, Hh'; rewrite H in Hh'
  end.

(* what a standalone KV command can do to the holder of a key that exists before and after *)
Theorem kv_command_holder idx v q s k h h' :
  holder s k = Some h -> holder (apply_kvs idx v q s).1 k = Some h' -> h' ≠ h ->
  (v = VLock /\ k = q_key q /\ h = "" /\ h' = q_session q /\ q_session q ≠ "" /\
   is_Some (sessions s !! q_session q)) \/
  (v = VUnlock /\ k = q_key q /\ h = q_session q /\ h' = "" /\ q_session q ≠ "").
Proof.
  intros Hh Hh' Hne. unfold apply_kvs in Hh'. destruct v; cbn in Hh'; try congruence.
  - (* set *) rewrite kvs_set_holder in Hh'. destruct (decide (k = q_key q)) as [->|]; [|congruence].
    rewrite Hh in Hh'. cbn in Hh'. congruence.
  - (* delete *) rewrite kvs_delete_holder in Hh'. destruct (decide _); congruence.
  - (* delete-cas *) unfold kvs_delete_cas in Hh'. destruct (kvs s !! q_key q); [|cbn in Hh'; congruence].
    destruct (bool_decide _); cbn in Hh'; [|congruence].
    rewrite kvs_delete_holder in Hh'. destruct (decide _); congruence.
  - (* delete-tree *) exfalso. revert Hh'. unfold kvs_delete_tree, holder in *.
    destruct (bool_decide _); [congruence|].
    destruct (bool_decide (q_key q = "")); cbn; intros Hh';
      (destruct (filter _ (kvs s) !! k) as [e'|] eqn:Ef; [|discriminate];
       apply map_filter_lookup_Some in Ef as [Ef _]; rewrite Ef in Hh; cbn in *; congruence).
  - (* cas *) unfold kvs_set_cas in Hh'. cbn in Hh'.
    destruct (kvs s !! q_key q) as [x|] eqn:Ex.
    + destruct (bool_decide (q_index q = 0)); cbn in Hh'; [congruence|].
      destruct (bool_decide _); cbn in Hh'; [|congruence].
      use_set Hh' k. destruct (decide (k = q_key q)) as [->|]; [|congruence].
      rewrite Hh in Hh'. cbn in Hh'. congruence.
    + destruct (bool_decide _); cbn in Hh'; [|congruence].
      use_set Hh' k. destruct (decide (k = q_key q)) as [->|]; [|congruence].
      rewrite Hh in Hh'. cbn in Hh'. congruence.
  - (* lock *) left. unfold kvs_lock in Hh'. cbn in Hh'.
    destruct (bool_decide (q_session q = "")) eqn:Ee; [cbn in Hh'; congruence|].
    apply bool_decide_eq_false in Ee.
    destruct (sessions s !! q_session q) as [ss|] eqn:Ess; [|cbn in Hh'; congruence].
    destruct (kvs s !! q_key q) as [x|] eqn:Ex.
    + destruct (bool_decide (kv_session x = q_session q)) eqn:Eown; cbn in Hh'.
      * apply bool_decide_eq_true in Eown. use_set Hh' k.
        destruct (decide (k = q_key q)) as [->|]; [|congruence]. cbn in Hh'.
        unfold holder in Hh. rewrite Ex in Hh. cbn in Hh. congruence.
      * destruct (bool_decide (kv_session x = "")) eqn:Efree; cbn in Hh'; [|congruence].
        apply bool_decide_eq_true in Efree. use_set Hh' k.
        destruct (decide (k = q_key q)) as [->|]; [|congruence]. cbn in Hh'.
        unfold holder in Hh. rewrite Ex in Hh. cbn in Hh.
        repeat split; try congruence. eauto.
    + cbn in Hh'. use_set Hh' k.
      destruct (decide (k = q_key q)) as [->|]; [|congruence].
      unfold holder in Hh. rewrite Ex in Hh. discriminate.
  - (* unlock *) right. unfold kvs_unlock in Hh'. cbn in Hh'.
    destruct (bool_decide (q_session q = "")) eqn:Ee; [cbn in Hh'; congruence|].
    apply bool_decide_eq_false in Ee.
    destruct (kvs s !! q_key q) as [x|] eqn:Ex; [|cbn in Hh'; congruence].
    destruct (bool_decide (kv_session x = q_session q)) eqn:Eown; cbn in Hh'; [|congruence].
    apply bool_decide_eq_true in Eown. use_set Hh' k.
    destruct (decide (k = q_key q)) as [->|]; [|congruence]. cbn in Hh'.
    unfold holder in Hh. rewrite Ex in Hh. cbn in Hh. repeat split; congruence.
Qed.

(* ... and every other command (not a KV write, a transaction or a reap): the holder of a surviving
   key changes only to "", and only because the holder's session ended in this command *)
Theorem other_command_holder idx c s k h h' :
  LockInv s ->
  match c with KVS _ _ | Txn _ | Reap _ => True | _ =>
    holder s k = Some h -> holder (apply idx c s).1 k = Some h' -> h' ≠ h ->
    h' = "" /\ is_Some (sessions s !! h) /\ sessions (apply idx c s).1 !! h = None
  end.
Proof.
  intros Hs. pose proof (kv_frame_command idx c s Hs) as Hf.
  destruct c; try exact I; intros Hh Hh' Hne; unfold holder in *;
    (destruct (Hf k) as [[Ek _]|(e0 & ss0 & He0 & Hs0 & Hg & Hr)];
     [rewrite Ek in Hh'; congruence|];
     rewrite He0 in Hh; cbn in Hh; injection Hh as <-;
     destruct (s_delete ss0);
     [destruct Hr as [Hr _]; rewrite Hr in Hh'; discriminate|];
     rewrite Hr in Hh'; cbn in Hh'; injection Hh' as <-;
     split; [reflexivity|split; [rewrite Hs0; eauto|exact Hg]]).
Qed.
