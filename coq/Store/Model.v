(* Core model of consul's Raft-applied state store (agent/consul/state):
   KV + graveyard, sessions + check links, prepared-query session binding, and the part of the
   catalog (nodes, services, checks) that sessions and transactions interact with, with the
   transaction dispatcher of txn.go.  Shaped like the *Txn functions: same verbs, same order of
   effects, same early returns.  std++ style.  No proofs in this file.

   Not in this model (see DESIGN.md): catalog index-table rows, derived catalog tables
   (kind names, gateways, topology, virtual IPs), coordinates, peer-imported rows, node names
   differing only in case (EqualFold is modelled as equality; generators use lower case). *)
From stdpp Require Import gmap strings.
From RecordUpdate Require Import RecordSet.
From Coq Require Import NArith.
Import RecordSetNotations.
Local Open Scope N_scope.

Definition bytes := list N.

(* ---------- errors and results ---------- *)
Inductive err :=
| EMissingNode        (* ErrMissingNode *)
| EMissingService     (* ErrMissingService *)
| ENoSession          (* "missing session" *)
| EInvalidSession     (* "invalid session %q" *)
| EMissingSessionID
| EBadSessionCheck    (* validateSessionChecksTxn: missing check / critical check *)
| ESimilarName        (* node name reserved by another node *)
| ECheckNodeMismatch  (* "check node %q does not match node %q" *)
| EStale              (* txn verbs: cas failed / lock held / not held *)
| ENotFound           (* txn get verbs / session delete of a missing session *)
| EGuard              (* check-session / check-index / check-not-exists failed *)
| EFuel.              (* model only: recursion fuel exhausted (proved unreachable) *)

(* ---------- rows ---------- *)
Record kvent := KV {
  kv_value : bytes; kv_flags : N; kv_session : string; kv_lock : N; kv_create : N; kv_modify : N }.
Record session := Sess {
  s_node : string; s_name : string; s_delete : bool (* behaviour "delete" *);
  s_checks : list string; s_delay : bool (* LockDelay > 0 *); s_create : N }.
Record node := Node { n_id : string; n_addr : N; n_create : N; n_modify : N }.
Record service := Svc { sv_name : string; sv_port : N; sv_create : N; sv_modify : N }.
Inductive output := OUser (n : N) | OInForce (sid : string) | OInvalid (sid : string).
Record check := Chk {
  c_status : N  (* 0 passing, 1 warning, 2 critical *);
  c_service : string (* service id, "" = node-level *); c_svcname : string;
  c_session_type : bool (* Type == "session" *); c_sessname : string (* Definition.SessionName *);
  c_output : output; c_create : N; c_modify : N }.

#[global] Instance kvent_eq_dec : EqDecision kvent. Proof. solve_decision. Defined.
#[global] Instance session_eq_dec : EqDecision session. Proof. solve_decision. Defined.
#[global] Instance node_eq_dec : EqDecision node. Proof. solve_decision. Defined.
#[global] Instance service_eq_dec : EqDecision service. Proof. solve_decision. Defined.
#[global] Instance output_eq_dec : EqDecision output. Proof. solve_decision. Defined.
#[global] Instance check_eq_dec : EqDecision check. Proof. solve_decision. Defined.

#[global] Instance eta_check : Settable _ :=
  settable! Chk <c_status; c_service; c_svcname; c_session_type; c_sessname; c_output; c_create; c_modify>.
#[global] Instance eta_session : Settable _ :=
  settable! Sess <s_node; s_name; s_delete; s_checks; s_delay; s_create>.

Definition critical : N := 2.
Definition serf_check : string := "serfHealth".

Record st := St {
  kvs : gmap string kvent;
  tombs : gmap string N;
  sessions : gmap string session;
  schecks : gset (string * string * string);     (* (node, check id, session id) *)
  queries : gmap string string;                  (* prepared query id -> session id ("" = none) *)
  nodes : gmap string node;
  services : gmap (string * string) service;     (* (node, service id) *)
  checks : gmap (string * string) check;         (* (node, check id) *)
  index : gmap string N;                         (* index table rows: kvs, tombstones, sessions, prepared-queries *)
  lockdelay : gset string                        (* NOT replicated: keys with a lock-delay expiry set *)
}.
#[global] Instance eta_st : Settable _ :=
  settable! St <kvs; tombs; sessions; schecks; queries; nodes; services; checks; index; lockdelay>.

Definition st0 : st := St ∅ ∅ ∅ ∅ ∅ ∅ ∅ ∅ ∅ ∅.

(* the replicated part: everything but the lock-delay map *)
Definition repl (s : st) : st := s <| lockdelay := ∅ |>.

Definition set_index (k : string) (idx : N) (s : st) : st := s <| index ::= <[k := idx]> |>.

(* A computation inside a memdb write transaction either succeeds, or fails with the state as it
   was at the point of failure: the caller aborts the transaction (dropping that state); the
   transaction dispatcher, however, goes on executing later operations on that partial state. *)
Inductive result (A : Type) := Ok (a : A) | Err (e : err) (partial : st).
Arguments Ok {A} a.
Arguments Err {A} e partial.
#[global] Instance result_bind : MBind result :=
  fun A B f r => match r with Ok a => f a | Err e p => Err e p end.

Fixpoint rfold {A S} (f : S -> A -> result S) (l : list A) (s : S) : result S :=
  match l with
  | [] => Ok s
  | x :: l' => s' ← f s x; rfold f l' s'
  end.

(* decidable equality of whole states, field by field *)
Definition st_eqb (a b : st) : bool :=
  bool_decide (kvs a = kvs b) && bool_decide (tombs a = tombs b) &&
  bool_decide (sessions a = sessions b) && bool_decide (schecks a = schecks b) &&
  bool_decide (queries a = queries b) && bool_decide (nodes a = nodes b) &&
  bool_decide (services a = services b) && bool_decide (checks a = checks b) &&
  bool_decide (index a = index b) && bool_decide (lockdelay a = lockdelay b).

(* ---------- sorted iteration (memdb iterates in index order) ---------- *)
Fixpoint sinsert (x : string) (l : list string) : list string :=
  match l with
  | [] => [x]
  | y :: l' => if String.leb x y then x :: l else y :: sinsert x l'
  end.
Definition ssort (l : list string) : list string := foldr sinsert [] l.

(* ---------- KV ---------- *)
Definition kv_same (a b : kvent) : bool :=   (* DirEntry.Equal: lock index, flags, value, session *)
  bool_decide (kv_lock a = kv_lock b) && bool_decide (kv_flags a = kv_flags b) &&
  bool_decide (kv_value a = kv_value b) && bool_decide (kv_session a = kv_session b).

(* kvsSetTxn: returns the state and the entry as the caller sees it afterwards *)
Definition kvs_set (idx : N) (k : string) (e : kvent) (update_session : bool) (s : st) : st * kvent :=
  let ex := kvs s !! k in
  let create := match ex with Some x => kv_create x | None => idx end in
  let sess := if update_session then kv_session e
              else match ex with Some x => kv_session x | None => "" end in
  let e1 := KV (kv_value e) (kv_flags e) sess (kv_lock e) create (kv_modify e) in
  match ex with
  | Some x =>
    if kv_same x e1 then (s, KV (kv_value e) (kv_flags e) sess (kv_lock e) create (kv_modify x))
    else let e2 := KV (kv_value e) (kv_flags e) sess (kv_lock e) create idx in
         (set_index "kvs" idx (s <| kvs ::= <[k := e2]> |>), e2)
  | None =>
    let e2 := KV (kv_value e) (kv_flags e) sess (kv_lock e) create idx in
    (set_index "kvs" idx (s <| kvs ::= <[k := e2]> |>), e2)
  end.

(* kvsDeleteTxn *)
Definition kvs_delete (idx : N) (k : string) (s : st) : st :=
  match kvs s !! k with
  | None => s
  | Some _ =>
    set_index "kvs" idx
      (set_index "tombstones" idx (s <| tombs ::= <[k := idx]> |>) <| kvs ::= delete k |>)
  end.

(* kvsDeleteCASTxn *)
Definition kvs_delete_cas (idx cidx : N) (k : string) (s : st) : bool * st :=
  match kvs s !! k with
  | None => (true, s)
  | Some e => if bool_decide (kv_modify e = cidx) then (true, kvs_delete idx k s) else (false, s)
  end.

(* kvsSetCASTxn: the supplied modify index is the expected one *)
Definition kvs_set_cas (idx : N) (k : string) (e : kvent) (s : st) : bool * (st * kvent) :=
  let ex := kvs s !! k in
  let cidx := kv_modify e in
  match ex with
  | Some x =>
    if bool_decide (cidx = 0) then (false, (s, e))
    else if bool_decide (cidx = kv_modify x) then (true, kvs_set idx k e false s) else (false, (s, e))
  | None =>
    if bool_decide (cidx = 0) then (true, kvs_set idx k e false s) else (false, (s, e))
  end.

Definition has_prefix (p : string) (k : string) : bool := String.prefix p k.

(* kvsDeleteTreeTxn *)
Definition kvs_delete_tree (idx : N) (p : string) (s : st) : st :=
  let victims := filter (fun kv => has_prefix p kv.1 = true) (kvs s) in
  if bool_decide (victims = ∅) then s
  else
    (* the tombstones under the prefix are subsumed by this delete and dropped with it *)
    let s1 := s <| kvs ::= filter (fun kv => has_prefix p kv.1 = false) |>
                <| tombs ::= filter (fun kt => has_prefix p kt.1 = false) |> in
    let s2 := if bool_decide (p = "") then s1
              else set_index "tombstones" idx (s1 <| tombs ::= <[p := idx]> |>) in
    set_index "kvs" idx s2.

(* kvsLockTxn *)
Definition kvs_lock (idx : N) (k : string) (e : kvent) (s : st) : result (bool * (st * kvent)) :=
  if bool_decide (kv_session e = "") then Err ENoSession s else
  match sessions s !! kv_session e with
  | None => Err EInvalidSession s
  | Some _ =>
    match kvs s !! k with
    | Some x =>
      if bool_decide (kv_session x = kv_session e) then
        Ok (true, kvs_set idx k (KV (kv_value e) (kv_flags e) (kv_session e) (kv_lock x) (kv_create x) idx) true s)
      else if bool_decide (kv_session x = "") then
        Ok (true, kvs_set idx k (KV (kv_value e) (kv_flags e) (kv_session e) (kv_lock x + 1) (kv_create x) idx) true s)
      else Ok (false, (s, e))
    | None =>
      Ok (true, kvs_set idx k (KV (kv_value e) (kv_flags e) (kv_session e) 1 idx idx) true s)
    end
  end.

(* kvsUnlockTxn *)
Definition kvs_unlock (idx : N) (k : string) (e : kvent) (s : st) : result (bool * (st * kvent)) :=
  if bool_decide (kv_session e = "") then Err ENoSession s else
  match kvs s !! k with
  | None => Ok (false, (s, e))
  | Some x =>
    if bool_decide (kv_session x = kv_session e) then
      Ok (true, kvs_set idx k (KV (kv_value e) (kv_flags e) "" (kv_lock x) (kv_create x) idx) true s)
    else Ok (false, (s, e))
  end.

(* Graveyard.ReapTxn *)
Definition reap_tombstones (upto : N) (s : st) : st :=
  s <| tombs ::= filter (fun kt => upto < kt.2) |>.

(* ---------- sessions, checks: the mutually recursive invalidation ---------- *)
Definition sessions_of_check (nd cid : string) (s : st) : list string :=
  ssort (omap (fun '(n, c, sid) => if bool_decide (n = nd /\ c = cid) then Some sid else None)
              (elements (schecks s))).

Definition check_same (a b : check) : bool :=   (* HealthCheck.IsSame on the modelled fields *)
  bool_decide (c_status a = c_status b) && bool_decide (c_service a = c_service b) &&
  bool_decide (c_svcname a = c_svcname b) && bool_decide (c_session_type a = c_session_type b) &&
  bool_decide (c_sessname a = c_sessname b) && bool_decide (c_output a = c_output b).

(* ensureCheckTxn, parametrised by the session deleter.  [preserve] = preserveIndexes: true only
   when called from updateSessionCheck, which then keeps the check's old ModifyIndex although its
   status and output change. *)
Definition resolve_service (nd : string) (hc : check) (s : st) : result check :=
  if bool_decide (c_service hc = "") then Ok hc
  else match services s !! (nd, c_service hc) with
       | None => Err EMissingService s
       | Some sv => Ok (hc <| c_svcname := sv_name sv |>)
       end.

Definition invalidate_if_critical (del : N -> string -> st -> result st)
           (idx : N) (nd cid : string) (hc : check) (s : st) : result st :=
  if bool_decide (c_status hc = critical)
  then rfold (fun s' sid => del idx sid s') (sessions_of_check nd cid s) s
  else Ok s.

Definition store_check (preserve : bool) (idx : N) (nd cid : string) (hc : check)
           (ex : option check) (s : st) : st :=
  let modified := match ex with Some x => negb (check_same x hc) | None => true end in
  if modified then
    let create := match ex with Some x => c_create x | None => if preserve then c_create hc else idx end in
    let modify := if preserve then match ex with Some x => c_modify x | None => c_modify hc end else idx in
    s <| checks ::= <[(nd, cid) := hc <| c_create := create |> <| c_modify := modify |> ]> |>
  else s.

Definition ensure_check_with (del : N -> string -> st -> result st) (preserve : bool)
           (idx : N) (nd cid : string) (hc : check) (s : st) : result st :=
  match nodes s !! nd with
  | None => Err EMissingNode s
  | Some _ =>
    hc1 ← resolve_service nd hc s;
    s1 ← invalidate_if_critical del idx nd cid hc1 s;
    Ok (store_check preserve idx nd cid hc1 (checks s !! (nd, cid)) s1)
  end.

Definition session_checks_of_node (nd name : string) (s : st) : list string :=
  ssort (omap (fun '((n, cid), c) =>
                 if bool_decide (n = nd) && c_session_type c && bool_decide (c_sessname c = name)
                 then Some cid else None)
              (map_to_list (checks s))).

Definition release_or_delete_keys (idx : N) (sid : string) (ss : session) (s : st) : st :=
  let held := filter (fun kv => kv_session kv.2 = sid) (kvs s) in
  if bool_decide (held = ∅) then s else
  let s1 :=
    if s_delete ss then
      set_index "kvs" idx
        (set_index "tombstones" idx
           (s <| tombs ::= fun t => ((fun _ => idx) <$> held) ∪ t |>
              <| kvs ::= filter (fun kv => kv_session kv.2 ≠ sid) |>))
    else
      set_index "kvs" idx
        (s <| kvs ::= fmap (fun e => if bool_decide (kv_session e = sid)
                                     then KV (kv_value e) (kv_flags e) "" (kv_lock e) (kv_create e) idx
                                     else e) |>) in
  if s_delay ss then s1 <| lockdelay ::= fun d => dom held ∪ d |> else s1.

(* deleteSessionTxn up to (not including) updateSessionCheck: the session row, the keys it holds,
   its check links and its prepared queries go in one step *)
Definition drop_session (idx : N) (sid : string) (ss : session) (s : st) : st :=
  let s1 := set_index "sessions" idx (s <| sessions ::= delete sid |>) in
  let s2 := release_or_delete_keys idx sid ss s1 in
  let s3 := s2 <| schecks ::= filter (fun m => m.2 ≠ sid) |> in
  let qs := filter (fun q => q.2 = sid) (queries s3) in
  if bool_decide (qs = ∅) then s3
  else set_index "prepared-queries" idx (s3 <| queries ::= filter (fun q => q.2 ≠ sid) |>).

(* deleteSessionTxn; fuel bounds the session -> session-check -> session cascade *)
Fixpoint delete_session (fuel : nat) (idx : N) (sid : string) (s : st) : result st :=
  match fuel with
  | O => Err EFuel s
  | S fuel' =>
    match sessions s !! sid with
    | None => Ok s
    | Some ss =>
      let s4 := drop_session idx sid ss s in
      (* updateSessionCheck(..., critical): over the node's session-type checks named like the session *)
      rfold (fun s' cid =>
               match checks s4 !! (s_node ss, cid) with     (* iterator snapshot *)
               | None => Ok s'
               | Some c =>
                 ensure_check_with (delete_session fuel') true idx (s_node ss) cid
                   (c <| c_status := critical |> <| c_output := OInvalid sid |>) s'
               end)
            (session_checks_of_node (s_node ss) (s_name ss) s4) s4
    end
  end.

Definition fuel_of (s : st) : nat := S (size (sessions s)).
Definition delete_session_top (idx : N) (sid : string) (s : st) : result st :=
  delete_session (fuel_of s) idx sid s.
Definition ensure_check_p (preserve : bool) (idx : N) (nd cid : string) (hc : check) (s : st) : result st :=
  ensure_check_with (fun i sid s' => delete_session (fuel_of s') i sid s') preserve idx nd cid hc s.
Definition ensure_check := ensure_check_p false.

(* sessionCreateTxn *)
Definition session_create (idx : N) (sid : string) (ss : session) (s : st) : result st :=
  if bool_decide (sid = "") then Err EMissingSessionID s else
  match nodes s !! s_node ss with
  | None => Err EMissingNode s
  | Some _ =>
    if forallb (fun cid => match checks s !! (s_node ss, cid) with
                           | None => false
                           | Some c => negb (bool_decide (c_status c = critical) && negb (c_session_type c))
                           end) (s_checks ss)
    then
      let s1 := set_index "sessions" idx
                  (s <| sessions ::= <[sid := ss <| s_create := idx |> ]> |>
                     <| schecks ::= fun m => list_to_set ((fun cid => (s_node ss, cid, sid)) <$> s_checks ss) ∪ m |>) in
      (* updateSessionCheck(..., passing) *)
      rfold (fun s' cid =>
               match checks s1 !! (s_node ss, cid) with
               | None => Ok s'
               | Some c => ensure_check_p true idx (s_node ss) cid
                             (c <| c_status := 0 |> <| c_output := OInForce sid |>) s'
               end)
            (session_checks_of_node (s_node ss) (s_name ss) s1) s1
    else Err EBadSessionCheck s
  end.

(* ---------- catalog ---------- *)
Definition checks_of_node (nd : string) (s : st) : list string :=
  ssort (omap (fun '((n, cid), _) => if bool_decide (n = nd) then Some cid else None)
              (map_to_list (checks s))).
Definition checks_of_service (nd svc : string) (s : st) : list string :=
  ssort (omap (fun '((n, cid), c) => if bool_decide (n = nd) && bool_decide (c_service c = svc)
                                     then Some cid else None)
              (map_to_list (checks s))).
Definition services_of_node (nd : string) (s : st) : list string :=
  ssort (omap (fun '((n, sid), _) => if bool_decide (n = nd) then Some sid else None)
              (map_to_list (services s))).
Definition sessions_of_node (nd : string) (s : st) : list string :=
  ssort (omap (fun '(sid, ss) => if bool_decide (s_node ss = nd) then Some sid else None)
              (map_to_list (sessions s))).

(* deleteCheckTxn *)
Definition delete_check (idx : N) (nd cid : string) (s : st) : result st :=
  match checks s !! (nd, cid) with
  | None => Ok s
  | Some _ =>
    let s1 := s <| checks ::= delete (nd, cid) |> in
    rfold (fun s' sid => delete_session_top idx sid s') (sessions_of_check nd cid s1) s1
  end.

(* deleteServiceTxn *)
Definition delete_service (idx : N) (nd svc : string) (s : st) : result st :=
  match services s !! (nd, svc) with
  | None => Ok s
  | Some _ =>
    s1 ← rfold (fun s' cid => delete_check idx nd cid s') (checks_of_service nd svc s) s;
    Ok (s1 <| services ::= delete (nd, svc) |>)
  end.

(* deleteNodeTxn *)
Definition delete_node (idx : N) (nd : string) (s : st) : result st :=
  match nodes s !! nd with
  | None => Ok s
  | Some _ =>
    s1 ← rfold (fun s' svc => delete_service idx nd svc s') (services_of_node nd s) s;
    s2 ← rfold (fun s' cid => delete_check idx nd cid s') (checks_of_node nd s1) s1;
    let s3 := s2 <| nodes ::= delete nd |> in
    rfold (fun s' sid => delete_session_top idx sid s') (sessions_of_node nd s3) s3
  end.

Definition node_healthy (nd : string) (s : st) : bool :=
  match checks s !! (nd, serf_check) with
  | Some c => negb (bool_decide (c_status c = critical))
  | None => false
  end.

(* ensureNoNodeWithSimilarNameTxn with EqualFold = equality *)
Definition similar_clash (allow_without_id : bool) (nd id : string) (s : st) : bool :=
  match nodes s !! nd with
  | Some en => negb (bool_decide (n_id en = id)) &&
               (negb (bool_decide (n_id en = "")) || negb allow_without_id) && node_healthy nd s
  | None => false
  end.

Definition node_by_id (id : string) (s : st) : option (string * node) :=
  match filter (fun kn => n_id kn.2 = id) (map_to_list (nodes s)) with
  | x :: _ => Some x
  | [] => None
  end.

(* ensureNodeTxn (preserveIndexes = false) *)
Definition ensure_node (idx : N) (nd id : string) (addr : N) (s : st) : result st :=
  r ← (if bool_decide (id = "") then Ok (None, s) else
       match node_by_id id s with
       | Some (oname, on) =>
         if bool_decide (oname = nd) then Ok (Some on, s)
         else if similar_clash false nd id s then Err ESimilarName s
         else s' ← delete_node idx oname s; Ok (Some on, s')
       | None => if similar_clash true nd id s then Err ESimilarName s else Ok (None, s)
       end);
  let '(n0, s1) := r in
  let n1 := match n0 with Some x => Some x | None => nodes s1 !! nd end in
  match n1 with
  | Some x =>
    if bool_decide (n_id x = id) && bool_decide (n_addr x = addr)
       && bool_decide (nodes s1 !! nd = Some x)   (* IsSame compares the name too *)
    then Ok s1
    else Ok (s1 <| nodes ::= <[nd := Node id addr (n_create x) idx]> |>)
  | None => Ok (s1 <| nodes ::= <[nd := Node id addr idx idx]> |>)
  end.

(* ensureServiceTxn for typical services (preserveIndexes = false) *)
Definition ensure_service (idx : N) (nd svc name : string) (port : N) (s : st) : result st :=
  match nodes s !! nd with
  | None => Err EMissingNode s
  | Some _ =>
    match services s !! (nd, svc) with
    | Some x =>
      if bool_decide (sv_name x = name) && bool_decide (sv_port x = port) then Ok s
      else Ok (s <| services ::= <[(nd, svc) := Svc name port (sv_create x) idx]> |>)
    | None => Ok (s <| services ::= <[(nd, svc) := Svc name port idx idx]> |>)
    end
  end.

(* ---------- commands (what the FSM applies) ---------- *)
Record kvreq := KVReq { q_key : string; q_value : bytes; q_flags : N; q_session : string;
                        q_index : N (* supplied ModifyIndex *); q_lock : N (* supplied LockIndex *) }.
Definition ent_of (q : kvreq) : kvent :=
  KV (q_value q) (q_flags q) (q_session q) (q_lock q) 0 (q_index q).

Inductive kvverb := VSet | VDelete | VDeleteCAS | VDeleteTree | VCAS | VLock | VUnlock
                  | VGet | VGetOrEmpty | VGetTree | VCheckSession | VCheckIndex | VCheckNotExists.
Inductive catverb := CGet | CSet | CCAS | CDelete | CDeleteCAS.

Record checkreq := CheckReq { cr_node : string; cr_id : string; cr_status : N; cr_service : string;
                              cr_session_type : bool; cr_sessname : string; cr_output : N;
                              cr_index : N }.
(* ensureCheckTxn: "if hc.Status == "" { hc.Status = api.HealthCritical }"; a request status of 3
   stands for an omitted status *)
Definition norm_status (n : N) : N := if bool_decide (n = 3) then critical else n.
Definition check_of (c : checkreq) : check :=
  Chk (norm_status (cr_status c)) (cr_service c) "" (cr_session_type c) (cr_sessname c) (OUser (cr_output c)) 0 0.

Inductive txnop :=
| TKV (v : kvverb) (q : kvreq)
| TNode (v : catverb) (nd id : string) (addr : N) (cidx : N)
| TService (v : catverb) (nd svc name : string) (port : N) (cidx : N)
| TCheck (v : catverb) (c : checkreq)
| TSessionDelete (sid : string).

Inductive cmd :=
| KVS (v : kvverb) (q : kvreq)
| SessionCreate (sid : string) (ss : session)
| SessionDestroy (sid : string)
| Register (nd id : string) (addr : N) (skip_node_update : bool)
           (svc : option (string * string * N)) (cks : list checkreq)
| Deregister (nd svc cid : string)
| Txn (ops : list txnop)
| Reap (upto : N)
| QuerySet (qid sess : string)
| QueryDelete (qid : string).

(* projected results *)
Inductive tres :=
| RKV (k : string) (e : kvent) (with_value : bool)
| RNode (nd : string) (n : node)
| RService (nd svc : string) (sv : service)
| RCheck (nd cid : string) (c : check).

Inductive cres :=
| CNil                              (* nil *)
| CBool (b : bool)
| CStr (x : string)                 (* session id *)
| CErr (e : err)
| CTxn (results : list tres) (errors : list (nat * err)).

(* ---------- the transaction dispatcher ---------- *)
Definition blank (e : kvent) : kvent := e.   (* value is blanked in the response; see RKV with_value *)

Definition txn_kv (idx : N) (v : kvverb) (q : kvreq) (s : st) : result (st * list tres) :=
  let k := q_key q in
  let e := ent_of q in
  match v with
  | VSet => let '(s', e') := kvs_set idx k e false s in Ok (s', [RKV k e' false])
  | VDelete => Ok (kvs_delete idx k s, [])
  | VDeleteCAS => let '(ok, s') := kvs_delete_cas idx (q_index q) k s in
                  if ok then Ok (s', []) else Err EStale s
  | VDeleteTree => Ok (kvs_delete_tree idx k s, [])
  | VCAS => let '(ok, (s', e')) := kvs_set_cas idx k e s in
            if ok then Ok (s', [RKV k e' false]) else Err EStale s
  | VLock => match kvs_lock idx k e s with
             | Ok (true, (s', e')) => Ok (s', [RKV k e' false])
             | Ok (false, _) => Err EStale s
             | Err er p => Err er p
             end
  | VUnlock => match kvs_unlock idx k e s with
               | Ok (true, (s', e')) => Ok (s', [RKV k e' false])
               | Ok (false, _) => Err EStale s
               | Err er p => Err er p
               end
  | VGet => match kvs s !! k with Some x => Ok (s, [RKV k x true]) | None => Err ENotFound s end
  | VGetOrEmpty => match kvs s !! k with
                   | Some x => Ok (s, [RKV k x true])
                   | None => Ok (s, [RKV k (KV [] (q_flags q) (q_session q) (q_lock q) 0 (q_index q)) true])
                   end
  | VGetTree => Ok (s, (fun kv => RKV kv.1 kv.2 true) <$>
                         filter (fun kv => has_prefix k kv.1 = true)
                                ((fun k' => (k', default e (kvs s !! k'))) <$> ssort (elements (dom (kvs s)))))
  | VCheckSession => match kvs s !! k with
                     | Some x => if bool_decide (kv_session x = q_session q)
                                 then Ok (s, [RKV k x false]) else Err EGuard s
                     | None => Err EGuard s
                     end
  | VCheckIndex => match kvs s !! k with
                   | Some x => if bool_decide (kv_modify x = q_index q)
                               then Ok (s, [RKV k x false]) else Err EGuard s
                   | None => Err EGuard s
                   end
  | VCheckNotExists => match kvs s !! k with Some _ => Err EGuard s | None => Ok (s, []) end
  end.

Definition cas_ok {A} (modify : A -> N) (ex : option A) (cidx : N) : bool :=
  match ex with
  | Some x => negb (bool_decide (cidx = 0)) && bool_decide (cidx = modify x)
  | None => bool_decide (cidx = 0)
  end.

Definition txn_node (idx : N) (v : catverb) (nd id : string) (addr cidx : N) (s : st)
  : result (st * list tres) :=
  let get (s' : st) : option (string * node) :=
      if bool_decide (id = "") then (fun n => (nd, n)) <$> nodes s' !! nd else node_by_id id s' in
  let reply (s' : st) := match get s' with Some (nm, n) => Ok (s', [RNode nm n]) | None => Ok (s', []) end in
  match v with
  | CGet => match get s with Some (nm, n) => Ok (s, [RNode nm n]) | None => Err ENotFound s end
  | CSet => s' ← ensure_node idx nd id addr s; reply s'
  | CCAS => if cas_ok n_modify (nodes s !! nd) cidx
            then s' ← ensure_node idx nd id addr s; reply s' else Err EStale s
  | CDelete => s' ← delete_node idx nd s; Ok (s', [])
  | CDeleteCAS => match nodes s !! nd with
                  | None => Err EStale s
                  | Some x => if bool_decide (n_modify x = cidx)
                              then s' ← delete_node idx nd s; Ok (s', []) else Err EStale s
                  end
  end.

Definition txn_service (idx : N) (v : catverb) (nd svc name : string) (port cidx : N) (s : st)
  : result (st * list tres) :=
  let reply (s' : st) := match services s' !! (nd, svc) with
                         | Some x => Ok (s', [RService nd svc x]) | None => Ok (s', []) end in
  match v with
  | CGet => match services s !! (nd, svc) with
            | Some x => Ok (s, [RService nd svc x]) | None => Err ENotFound s end
  | CSet => s' ← ensure_service idx nd svc name port s; reply s'
  | CCAS => if cas_ok sv_modify (services s !! (nd, svc)) cidx
            then s' ← ensure_service idx nd svc name port s; reply s' else Err EStale s
  | CDelete => s' ← delete_service idx nd svc s; Ok (s', [])
  | CDeleteCAS => match services s !! (nd, svc) with
                  | None => Err EStale s
                  | Some x => if bool_decide (sv_modify x = cidx)
                              then s' ← delete_service idx nd svc s; Ok (s', []) else Err EStale s
                  end
  end.

Definition txn_check (idx : N) (v : catverb) (c : checkreq) (s : st) : result (st * list tres) :=
  let nd := cr_node c in let cid := cr_id c in
  let reply (s' : st) := match checks s' !! (nd, cid) with
                         | Some x => Ok (s', [RCheck nd cid x]) | None => Ok (s', []) end in
  match v with
  | CGet => match checks s !! (nd, cid) with
            | Some x => Ok (s, [RCheck nd cid x]) | None => Err ENotFound s end
  | CSet => s' ← ensure_check idx nd cid (check_of c) s; reply s'
  | CCAS => if cas_ok c_modify (checks s !! (nd, cid)) (cr_index c)
            then s' ← ensure_check idx nd cid (check_of c) s; reply s' else Err EStale s
  | CDelete => s' ← delete_check idx nd cid s; Ok (s', [])
  | CDeleteCAS => match checks s !! (nd, cid) with
                  | None => Err EStale s
                  | Some x => if bool_decide (c_modify x = cr_index c)
                              then s' ← delete_check idx nd cid s; Ok (s', []) else Err EStale s
                  end
  end.

Definition txn_op (idx : N) (op : txnop) (s : st) : result (st * list tres) :=
  match op with
  | TKV v q => txn_kv idx v q s
  | TNode v nd id addr cidx => txn_node idx v nd id addr cidx s
  | TService v nd svc name port cidx => txn_service idx v nd svc name port cidx s
  | TCheck v c => txn_check idx v c s
  | TSessionDelete sid =>
    match sessions s !! sid with
    | None => Err ENotFound s
    | Some _ => s' ← delete_session_top idx sid s; Ok (s', [])
    end
  end.

(* txnDispatch: keeps going after an error (on the state as it is), collects results and errors *)
Fixpoint txn_dispatch (idx : N) (i : nat) (ops : list txnop) (s : st)
  : st * list tres * list (nat * err) :=
  match ops with
  | [] => (s, [], [])
  | op :: rest =>
    match txn_op idx op s with
    | Ok (s', r) =>
      let '(s'', rs, es) := txn_dispatch idx (S i) rest s' in (s'', r ++ rs, es)
    | Err e sp =>
      let '(s'', rs, es) := txn_dispatch idx (S i) rest sp in (s'', rs, (i, e) :: es)
    end
  end.

(* Faithful: an operation that fails part-way leaves its partial writes in the memdb transaction and
   the remaining operations run on them ([Err] carries that state); all of it is dropped at the end. *)

(* TxnRW: commit iff no error.  Lock delays are registered with tx.Defer and therefore applied
   only when the transaction commits (since the fix recorded in known_findings.json; before it
   they were written during dispatch and survived an abort). *)
Definition txn_rw (idx : N) (ops : list txnop) (s : st) : st * cres :=
  let '(s', rs, es) := txn_dispatch idx 0 ops s in
  match es with
  | [] => (s', CTxn rs [])
  | _ => (s, CTxn [] es)
  end.

(* ---------- the FSM ---------- *)
Definition of_unit (r : result st) (s : st) : st * cres :=
  match r with Ok s' => (s', CNil) | Err e _ => (s, CErr e) end.

Definition apply_kvs (idx : N) (v : kvverb) (q : kvreq) (s : st) : st * cres :=
  let k := q_key q in let e := ent_of q in
  match v with
  | VSet => ((kvs_set idx k e false s).1, CNil)
  | VDelete => (kvs_delete idx k s, CNil)
  | VDeleteCAS => let '(ok, s') := kvs_delete_cas idx (q_index q) k s in (s', CBool ok)
  | VDeleteTree => (kvs_delete_tree idx k s, CNil)
  | VCAS => let '(ok, (s', _)) := kvs_set_cas idx k e s in (if ok then s' else s, CBool ok)
  | VLock => match kvs_lock idx k e s with
             | Ok (ok, (s', _)) => (if ok then s' else s, CBool ok)
             | Err er p => (s, CErr er)
             end
  | VUnlock => match kvs_unlock idx k e s with
               | Ok (ok, (s', _)) => (if ok then s' else s, CBool ok)
               | Err er p => (s, CErr er)
               end
  | _ => (s, CErr EGuard)     (* "Invalid KVS operation": read verbs are not FSM commands *)
  end.

Definition changes_node (id : string) (addr : N) (skip : bool) (ex : option node) : bool :=
  match ex with
  | None => true
  | Some x => if skip then false else negb (bool_decide (n_id x = id) && bool_decide (n_addr x = addr))
  end.

(* ensureRegistrationTxn *)
Definition ensure_registration (idx : N) (nd id : string) (addr : N) (skip : bool)
           (svc : option (string * string * N)) (cks : list checkreq) (s : st) : result st :=
  s1 ← (if changes_node id addr skip (nodes s !! nd) then ensure_node idx nd id addr s else Ok s);
  s2 ← (match svc with
        | None => Ok s1
        | Some (sid, name, port) =>
          match services s1 !! (nd, sid) with
          | Some x => if bool_decide (sv_name x = name) && bool_decide (sv_port x = port) then Ok s1
                      else ensure_service idx nd sid name port s1
          | None => ensure_service idx nd sid name port s1
          end
        end);
  rfold (fun s' c => if bool_decide (cr_node c = nd) then ensure_check idx nd (cr_id c) (check_of c) s'
                     else Err ECheckNodeMismatch s') cks s2.

Definition query_set (idx : N) (qid sess : string) (s : st) : result st :=
  if bool_decide (sess = "") || bool_decide (is_Some (sessions s !! sess))
  then Ok (set_index "prepared-queries" idx (s <| queries ::= <[qid := sess]> |>))
  else Err EInvalidSession s.

Definition query_delete (idx : N) (qid : string) (s : st) : st :=
  match queries s !! qid with
  | None => s
  | Some _ => set_index "prepared-queries" idx (s <| queries ::= delete qid |>)
  end.

Definition apply (idx : N) (c : cmd) (s : st) : st * cres :=
  match c with
  | KVS v q => apply_kvs idx v q s
  | SessionCreate sid ss =>
    match session_create idx sid ss s with
    | Ok s' => (s', CStr sid)
    | Err e _ => (s, CErr e)
    end
  | SessionDestroy sid => of_unit (delete_session_top idx sid s) s
  | Register nd id addr skip svc cks => of_unit (ensure_registration idx nd id addr skip svc cks s) s
  | Deregister nd svc cid =>
    if negb (bool_decide (svc = "")) then of_unit (delete_service idx nd svc s) s
    else if negb (bool_decide (cid = "")) then of_unit (delete_check idx nd cid s) s
    else of_unit (delete_node idx nd s) s
  | Txn ops => txn_rw idx ops s
  | Reap upto => (reap_tombstones upto s, CNil)
  | QuerySet qid sess => of_unit (query_set idx qid sess s) s
  | QueryDelete qid => (query_delete idx qid s, CNil)
  end.

(* A failing command aborts its memdb transaction; nothing of it survives, the deferred lock
   delays included. *)

Fixpoint run (log : list (N * cmd)) (s : st) : st * list cres :=
  match log with
  | [] => (s, [])
  | (idx, c) :: rest =>
    let '(s', r) := apply idx c s in
    let '(s'', rs) := run rest s' in (s'', r :: rs)
  end.
