(* Command-level consequences for C04 and C05:
   - the cascades never run out of the model's fuel, in any command of any history (so no invariant
     holds merely because a cascade was cut short and the command reported an error);
   - "one index": every KV row and every tombstone that differs after a command carries the
     command's index;
   - the end-of-session clause at the level of commands and transaction operations: if a session
     that was live before the step is gone after it, every key it held is -- according to the
     session's behaviour -- deleted with a tombstone at the step's index, or released with value,
     flags, lock counter and create index kept and the modify index set to the step's index. *)
From stdpp Require Import gmap strings.
From RecordUpdate Require Import RecordSet.
From Coq Require Import NArith.
From Verif Require Import Store.Model Store.Inv Store.SessInv.
Import RecordSetNotations.
Local Open Scope N_scope.

(* ---------- closure of the predicate classes ---------- *)
Lemma lock_only_and P Q : lock_only P -> lock_only Q -> lock_only (fun s => P s /\ Q s).
Proof.
  intros HP HQ. split; intros s f [H1 H2]; split.
  - apply (lo_checks P HP); exact H1. - apply (lo_checks Q HQ); exact H2.
  - apply (lo_nodes P HP); exact H1. - apply (lo_nodes Q HQ); exact H2.
  - apply (lo_services P HP); exact H1. - apply (lo_services Q HQ); exact H2.
  - apply (lo_index P HP); exact H1. - apply (lo_index Q HQ); exact H2.
  - apply (lo_delay P HP); exact H1. - apply (lo_delay Q HQ); exact H2.
Qed.

(* ---------- exact effect of a session's removal on keys and tombstones ---------- *)
Definition released_row (e0 : kvent) (idx : N) : kvent :=
  KV (kv_value e0) (kv_flags e0) "" (kv_lock e0) (kv_create e0) idx.

Lemma release_or_delete_keys_lookup idx sid ss s k :
  kvs (release_or_delete_keys idx sid ss s) !! k =
  match kvs s !! k with
  | Some e => if decide (kv_session e = sid)
              then (if s_delete ss then None else Some (released_row e idx)) else Some e
  | None => None
  end.
Proof.
  unfold release_or_delete_keys.
  destruct (bool_decide (filter (fun kv => kv_session kv.2 = sid) (kvs s) = ∅)) eqn:Eh.
  - apply bool_decide_eq_true in Eh. destruct (kvs s !! k) as [e|] eqn:Ek; [|reflexivity].
    destruct (decide (kv_session e = sid)) as [Heq|Hne]; [|reflexivity]. exfalso.
    assert (Hf : filter (fun kv => kv_session kv.2 = sid) (kvs s) !! k = Some e)
      by (apply map_filter_lookup_Some; split; assumption).
    rewrite Eh, lookup_empty in Hf. discriminate.
  - assert (Hdel : filter (fun kv : string * kvent => kv_session kv.2 ≠ sid) (kvs s) !! k =
             match kvs s !! k with
             | Some e => if decide (kv_session e = sid) then None else Some e
             | None => None
             end).
    { destruct (kvs s !! k) as [e|] eqn:Ek.
      - destruct (decide (kv_session e = sid)) as [Heq|Hne].
        + apply map_filter_lookup_None. right. intros e' He' Hne'. rewrite Ek in He'. injection He' as <-.
          apply Hne'. exact Heq.
        + apply map_filter_lookup_Some. split; assumption.
      - apply map_filter_lookup_None. left. exact Ek. }
    assert (Hrel : ((fun e => if bool_decide (kv_session e = sid)
                              then KV (kv_value e) (kv_flags e) "" (kv_lock e) (kv_create e) idx else e)
                    <$> kvs s) !! k =
             match kvs s !! k with
             | Some e => if decide (kv_session e = sid) then Some (released_row e idx) else Some e
             | None => None
             end).
    { rewrite lookup_fmap. destruct (kvs s !! k) as [e|]; [|reflexivity]. cbn.
      destruct (decide (kv_session e = sid)) as [Heq|Hne].
      - rewrite bool_decide_eq_true_2 by exact Heq. reflexivity.
      - rewrite bool_decide_eq_false_2 by exact Hne. reflexivity. }
    destruct (s_delete ss), (s_delay ss); cbn; rewrite ?Hdel, ?Hrel;
      destruct (kvs s !! k) as [e|]; try reflexivity; destruct (decide (kv_session e = sid)); reflexivity.
Qed.

Lemma release_or_delete_keys_tombs idx sid ss s k :
  tombs (release_or_delete_keys idx sid ss s) !! k =
  match kvs s !! k with
  | Some e => if decide (kv_session e = sid)
              then (if s_delete ss then Some idx else tombs s !! k) else tombs s !! k
  | None => tombs s !! k
  end.
Proof.
  unfold release_or_delete_keys.
  destruct (bool_decide (filter (fun kv => kv_session kv.2 = sid) (kvs s) = ∅)) eqn:Eh.
  - apply bool_decide_eq_true in Eh. destruct (kvs s !! k) as [e|] eqn:Ek; [|reflexivity].
    destruct (decide (kv_session e = sid)) as [Heq|Hne]; [|reflexivity]. exfalso.
    assert (Hf : filter (fun kv => kv_session kv.2 = sid) (kvs s) !! k = Some e)
      by (apply map_filter_lookup_Some; split; assumption).
    rewrite Eh, lookup_empty in Hf. discriminate.
  - assert (Hun : (((fun _ : kvent => idx) <$> filter (fun kv : string * kvent => kv_session kv.2 = sid) (kvs s))
                   ∪ tombs s) !! k =
             match kvs s !! k with
             | Some e => if decide (kv_session e = sid) then Some idx else tombs s !! k
             | None => tombs s !! k
             end).
    { destruct (kvs s !! k) as [e|] eqn:Ek.
      - destruct (decide (kv_session e = sid)) as [Heq|Hne].
        + apply lookup_union_Some_l. rewrite lookup_fmap.
          rewrite (proj2 (map_filter_lookup_Some _ _ _ _) (conj Ek Heq)). reflexivity.
        + rewrite lookup_union_r; [reflexivity|]. rewrite lookup_fmap.
          rewrite (proj2 (map_filter_lookup_None _ _ _)); [reflexivity|].
          right. intros e' He' Heq'. rewrite Ek in He'. injection He' as <-. contradiction.
      - rewrite lookup_union_r; [reflexivity|]. rewrite lookup_fmap.
        rewrite (proj2 (map_filter_lookup_None _ _ _)); [reflexivity|]. left. exact Ek. }
    destruct (s_delete ss), (s_delay ss); cbn; rewrite ?Hun;
      destruct (kvs s !! k) as [e|]; try reflexivity; destruct (decide (kv_session e = sid)); reflexivity.
Qed.

Lemma drop_session_lookup idx sid ss s k :
  kvs (drop_session idx sid ss s) !! k =
  match kvs s !! k with
  | Some e => if decide (kv_session e = sid)
              then (if s_delete ss then None else Some (released_row e idx)) else Some e
  | None => None
  end.
Proof.
  unfold drop_session. cbn zeta.
  match goal with |- context [bool_decide ?P] => destruct (bool_decide P) end; cbn;
    rewrite release_or_delete_keys_lookup; reflexivity.
Qed.

Lemma drop_session_tombs idx sid ss s k :
  tombs (drop_session idx sid ss s) !! k =
  match kvs s !! k with
  | Some e => if decide (kv_session e = sid)
              then (if s_delete ss then Some idx else tombs s !! k) else tombs s !! k
  | None => tombs s !! k
  end.
Proof.
  unfold drop_session. cbn zeta.
  match goal with |- context [bool_decide ?P] => destruct (bool_decide P) end; cbn;
    rewrite release_or_delete_keys_tombs; reflexivity.
Qed.

(* ---------- the cascade lemmas of Inv.v, for predicates tied to the command's index ---------- *)
(* All session removals of one command happen at that command's index; a predicate such as "every
   changed row carries idx" is stable under removals at idx only. *)
Section At.
  Context (P : st -> Prop) (idx : N).
  Hypothesis HL : lock_only P.
  Hypothesis HD : forall s sid ss, P s -> sessions s !! sid = Some ss -> P (drop_session idx sid ss s).

  Lemma at_ensure_check_with del pre nd cid hc :
    (forall sid, preserves P (del idx sid)) ->
    preserves P (ensure_check_with del pre idx nd cid hc).
  Proof.
    intros Hdel s Hs. unfold ensure_check_with.
    destruct (nodes s !! nd); [|exact Hs].
    apply (bind_preserves P (fun _ => True)).
    { unfold resolve_service. destruct (bool_decide _); [exact I|].
      destruct (services s !! _); [exact I|exact Hs]. }
    intros hc1 _. apply (bind_preserves P P).
    { unfold invalidate_if_critical. destruct (bool_decide _); [|exact Hs].
      apply (rfold_preserves P); [|exact Hs]. intros sid. apply Hdel. }
    intros s1 Hs1. cbn. unfold store_check.
    destruct (match checks s !! (nd, cid) with Some x => negb (check_same x hc1) | None => true end);
      [apply (lo_checks P HL); exact Hs1|exact Hs1].
  Qed.

  Lemma at_delete_session fuel : forall n sid,
    (n < fuel)%nat -> preserves (bounded P n) (delete_session fuel idx sid).
  Proof.
    induction fuel as [|fuel IH]; intros n sid Hn s [Hs Hsz]; [lia|]. cbn.
    destruct (sessions s !! sid) as [ss|] eqn:Ess; [|split; assumption].
    assert (Hsz4 : (size (sessions (drop_session idx sid ss s)) <= pred n /\ 0 < n)%nat).
    { rewrite drop_session_sessions.
      pose proof (map_size_delete_Some sid (sessions s) (ex_intro _ ss Ess)) as Hx.
      assert (size (sessions s) ≠ 0%nat) by (intros Hz; apply map_size_empty_inv in Hz; rewrite Hz in Ess;
                                         rewrite lookup_empty in Ess; discriminate).
      lia. }
    destruct Hsz4 as [Hsz4 Hpos].
    assert (HLb : lock_only (bounded P (pred n))) by (apply bounded_lock_only; exact HL).
    assert (Hfin : post (bounded P (pred n)) id
              (rfold (fun s' cid =>
                 match checks (drop_session idx sid ss s) !! (s_node ss, cid) with
                 | None => Ok s'
                 | Some c => ensure_check_with (delete_session fuel) true idx (s_node ss) cid
                               (c <| c_status := critical |> <| c_output := OInvalid sid |>) s'
                 end)
               (session_checks_of_node (s_node ss) (s_name ss) (drop_session idx sid ss s))
               (drop_session idx sid ss s))).
    { apply (rfold_preserves (bounded P (pred n))); [|split; [apply HD; assumption|exact Hsz4]].
      intros cid s' Hs'. cbn.
      destruct (checks (drop_session idx sid ss s) !! (s_node ss, cid)); [|exact Hs'].
      (* ensure_check_with for the bounded predicate, by hand: same steps as at_ensure_check_with *)
      unfold ensure_check_with. destruct (nodes s' !! s_node ss); [|exact Hs'].
      apply (bind_preserves (bounded P (pred n)) (fun _ => True)).
      { unfold resolve_service. destruct (bool_decide _); [exact I|].
        destruct (services s' !! _); [exact I|exact Hs']. }
      intros hc1 _. apply (bind_preserves (bounded P (pred n)) (bounded P (pred n))).
      { unfold invalidate_if_critical. destruct (bool_decide _); [|exact Hs'].
        apply (rfold_preserves (bounded P (pred n))); [|exact Hs'].
        intros sid'. apply IH. lia. }
      intros s1 Hs1. cbn. unfold store_check.
      match goal with |- context [if ?b then _ else _] => destruct b end;
        [apply (lo_checks _ HLb); exact Hs1|exact Hs1]. }
    destruct (rfold _ _ _) as [s'|e p]; cbn in *.
    - destruct Hfin as [H1 H2]. split; [exact H1|lia].
    - destruct e; try contradiction; (destruct Hfin as [H1 H2]; split; [exact H1|lia]).
  Qed.

  Lemma at_delete_session_top sid : preserves P (delete_session_top idx sid).
  Proof.
    intros s Hs. unfold delete_session_top, fuel_of.
    pose proof (at_delete_session (S (size (sessions s))) (size (sessions s)) sid
                  (Nat.lt_succ_diag_r _) s (conj Hs (Nat.le_refl _))) as Hx.
    destruct (delete_session _ idx sid s) as [s'|e p]; cbn in *.
    - exact (proj1 Hx).
    - destruct e; try contradiction; exact (proj1 Hx).
  Qed.

  Lemma at_ensure_check_p pre nd cid hc : preserves P (ensure_check_p pre idx nd cid hc).
  Proof.
    unfold ensure_check_p. apply at_ensure_check_with.
    intros sid s Hs. apply (at_delete_session_top sid s Hs).
  Qed.

  Lemma at_delete_check nd cid : preserves P (delete_check idx nd cid).
  Proof.
    intros s Hs. unfold delete_check. destruct (checks s !! (nd, cid)); [|exact Hs].
    apply (rfold_preserves P); [|apply (lo_checks P HL); exact Hs].
    intros sid. apply at_delete_session_top.
  Qed.

  Lemma at_delete_service nd svc : preserves P (delete_service idx nd svc).
  Proof.
    intros s Hs. unfold delete_service. destruct (services s !! (nd, svc)); [|exact Hs].
    pose proof (rfold_preserves P (fun s' cid => delete_check idx nd cid s') (checks_of_service nd svc s)
                  (fun cid => at_delete_check nd cid) s Hs) as Hr.
    destruct (rfold _ _ s) as [s1|e p]; cbn; [|exact Hr].
    apply (lo_services P HL). exact Hr.
  Qed.

  Lemma at_delete_node nd : preserves P (delete_node idx nd).
  Proof.
    intros s Hs. unfold delete_node. destruct (nodes s !! nd); [|exact Hs].
    pose proof (rfold_preserves P (fun s' svc => delete_service idx nd svc s') (services_of_node nd s)
                  (fun svc => at_delete_service nd svc) s Hs) as Hr1.
    destruct (rfold _ _ s) as [s1|e p]; cbn; [|exact Hr1].
    pose proof (rfold_preserves P (fun s' cid => delete_check idx nd cid s') (checks_of_node nd s1)
                  (fun cid => at_delete_check nd cid) s1 Hr1) as Hr2.
    destruct (rfold _ _ s1) as [s2|e p]; cbn; [|exact Hr2].
    apply (rfold_preserves P); [|apply (lo_nodes P HL); exact Hr2].
    intros sid. apply at_delete_session_top.
  Qed.

  Lemma at_ensure_node nd id addr : preserves P (ensure_node idx nd id addr).
  Proof.
    intros s Hs. unfold ensure_node.
    assert (Hfin : forall n0 s1, P s1 ->
      match (let n1 := match n0 with Some x => Some x | None => nodes s1 !! nd end in
             match n1 with
             | Some x => if bool_decide (n_id x = id) && bool_decide (n_addr x = addr)
                            && bool_decide (nodes s1 !! nd = Some x)
                         then Ok s1 else Ok (s1 <| nodes ::= <[nd := Node id addr (n_create x) idx]> |>)
             | None => Ok (s1 <| nodes ::= <[nd := Node id addr idx idx]> |>)
             end) with Ok s' => P s' | Err e p => match e with EFuel => False | _ => P p end end).
    { intros n0 s1 Hs1. cbn. destruct n0 as [x|]; [|destruct (nodes s1 !! nd) as [x|]].
      - destruct (_ && _); [exact Hs1|apply (lo_nodes P HL); exact Hs1].
      - destruct (_ && _); [exact Hs1|apply (lo_nodes P HL); exact Hs1].
      - apply (lo_nodes P HL); exact Hs1. }
    destruct (bool_decide (id = "")); cbn; [apply (Hfin None); exact Hs|].
    destruct (node_by_id id s) as [[oname on]|]; cbn.
    - destruct (bool_decide (oname = nd)); cbn; [apply (Hfin (Some on)); exact Hs|].
      destruct (similar_clash false nd id s); cbn; [exact Hs|].
      pose proof (at_delete_node oname s Hs) as Hr.
      destruct (delete_node idx oname s) as [s'|e p]; cbn; [|exact Hr].
      apply (Hfin (Some on)). exact Hr.
    - destruct (similar_clash true nd id s); cbn; [exact Hs|]. apply (Hfin None). exact Hs.
  Qed.
End At.

(* ---------- lifting a cascade-stable predicate to every command ---------- *)
Section Lift.
  Context (P : st -> Prop) (idx : N).
  Hypothesis HL : lock_only P.
  Hypothesis HD : forall s sid ss, P s -> sessions s !! sid = Some ss -> P (drop_session idx sid ss s).
  Hypothesis Hset : forall k e u s, P s -> P (kvs_set idx k e u s).1.
  Hypothesis Hdel : forall k s, P s -> P (kvs_delete idx k s).
  Hypothesis Htree : forall p s, P s -> P (kvs_delete_tree idx p s).
  Hypothesis Hsess : forall sid ss s, P s ->
    P (set_index "sessions" idx
         (s <| sessions ::= <[sid := ss <| s_create := idx |> ]> |>
            <| schecks ::= fun m => list_to_set ((fun cid => (s_node ss, cid, sid)) <$> s_checks ss) ∪ m |>)).
  Hypothesis Hquery : forall f s, P s -> P (s <| queries ::= f |>).
  Hypothesis Hreap : forall upto s, P s -> P (reap_tombstones upto s).

  Lemma lift_delete_cas cidx k s : P s -> P (kvs_delete_cas idx cidx k s).2.
  Proof.
    intros Hs. unfold kvs_delete_cas. destruct (kvs s !! k); [|exact Hs].
    destruct (bool_decide _); cbn; [apply Hdel; exact Hs|exact Hs].
  Qed.
  Lemma lift_set_cas k e s : P s -> P (kvs_set_cas idx k e s).2.1.
  Proof.
    intros Hs. unfold kvs_set_cas. destruct (kvs s !! k).
    - destruct (bool_decide (kv_modify e = 0)); cbn; [exact Hs|].
      destruct (bool_decide _); cbn; [apply Hset; exact Hs|exact Hs].
    - destruct (bool_decide _); cbn; [apply Hset; exact Hs|exact Hs].
  Qed.
  Lemma lift_lock k e s : P s -> post P (fun r => r.2.1) (kvs_lock idx k e s).
  Proof.
    intros Hs. unfold kvs_lock. destruct (bool_decide (kv_session e = "")); [exact Hs|].
    destruct (sessions s !! kv_session e); [|exact Hs].
    destruct (kvs s !! k) as [x|].
    - destruct (bool_decide (kv_session x = kv_session e)); cbn; [apply Hset; exact Hs|].
      destruct (bool_decide (kv_session x = "")); cbn; [apply Hset; exact Hs|exact Hs].
    - cbn. apply Hset; exact Hs.
  Qed.
  Lemma lift_unlock k e s : P s -> post P (fun r => r.2.1) (kvs_unlock idx k e s).
  Proof.
    intros Hs. unfold kvs_unlock. destruct (bool_decide (kv_session e = "")); [exact Hs|].
    destruct (kvs s !! k) as [x|]; [|exact Hs].
    destruct (bool_decide _); cbn; [apply Hset; exact Hs|exact Hs].
  Qed.

  Lemma lift_txn_kv v q s : P s -> post P fst (txn_kv idx v q s).
  Proof.
    intros Hs. unfold txn_kv. destruct v; cbn.
    - pose proof (Hset (q_key q) (ent_of q) false s Hs) as Hx.
      destruct (kvs_set _ _ _ _ _) as [s' e']. exact Hx.
    - apply Hdel; exact Hs.
    - pose proof (lift_delete_cas (q_index q) (q_key q) s Hs) as Hx.
      destruct (kvs_delete_cas _ _ _ _) as [[] s']; cbn; [exact Hx|exact Hs].
    - apply Htree; exact Hs.
    - pose proof (lift_set_cas (q_key q) (ent_of q) s Hs) as Hx.
      destruct (kvs_set_cas _ _ _ _) as [[] [s' e']]; cbn; [exact Hx|exact Hs].
    - pose proof (lift_lock (q_key q) (ent_of q) s Hs) as Hx.
      destruct (kvs_lock _ _ _ _) as [[[] [s' e']]|er p]; cbn; [exact Hx|exact Hs|exact Hx].
    - pose proof (lift_unlock (q_key q) (ent_of q) s Hs) as Hx.
      destruct (kvs_unlock _ _ _ _) as [[[] [s' e']]|er p]; cbn; [exact Hx|exact Hs|exact Hx].
    - destruct (kvs s !! q_key q); exact Hs.
    - destruct (kvs s !! q_key q); exact Hs.
    - exact Hs.
    - destruct (kvs s !! q_key q); [destruct (bool_decide _)|]; exact Hs.
    - destruct (kvs s !! q_key q); [destruct (bool_decide _)|]; exact Hs.
    - destruct (kvs s !! q_key q); exact Hs.
  Qed.

  Lemma lift_bind_fst {B} (m : result st) (k : st -> result (st * B)) :
    post P id m -> (forall s', P s' -> post P fst (k s')) -> post P fst (m ≫= k).
  Proof. intros Hm Hk. destruct m as [a|e p]; cbn; [apply Hk; exact Hm|exact Hm]. Qed.

  Lemma lift_txn_op op s : P s -> post P fst (txn_op idx op s).
  Proof.
    intros Hs. destruct op as [v q|v nd id addr cidx|v nd svc name port cidx|v c|sid]; cbn [txn_op].
    - apply lift_txn_kv; exact Hs.
    - unfold txn_node.
      assert (Hreply : forall s', P s' ->
         post P fst
           (match (if bool_decide (id = "") then (fun n => (nd, n)) <$> nodes s' !! nd else node_by_id id s') with
            | Some (nm, n) => Ok (s', [RNode nm n]) | None => Ok (s', []) end)).
      { intros s' Hs'. destruct (if bool_decide (id = "") then _ else _) as [[nm n]|]; exact Hs'. }
      destruct v.
      + destruct (if bool_decide (id = "") then _ else _) as [[nm n]|]; exact Hs.
      + apply lift_bind_fst; [apply at_ensure_node; assumption|exact Hreply].
      + destruct (cas_ok _ _ _); [|exact Hs].
        apply lift_bind_fst; [apply at_ensure_node; assumption|exact Hreply].
      + apply lift_bind_fst; [apply at_delete_node; assumption|intros s' Hs'; exact Hs'].
      + destruct (nodes s !! nd) as [x|]; [|exact Hs]. destruct (bool_decide (n_modify x = cidx)); [|exact Hs].
        apply lift_bind_fst; [apply at_delete_node; assumption|intros s' Hs'; exact Hs'].
    - unfold txn_service.
      assert (Hreply : forall s', P s' ->
         post P fst (match services s' !! (nd, svc) with
                     | Some x => Ok (s', [RService nd svc x]) | None => Ok (s', []) end)).
      { intros s' Hs'. destruct (services s' !! (nd, svc)); exact Hs'. }
      destruct v.
      + destruct (services s !! (nd, svc)); exact Hs.
      + apply lift_bind_fst; [apply ensure_service_preserves; assumption|exact Hreply].
      + destruct (cas_ok _ _ _); [|exact Hs].
        apply lift_bind_fst; [apply ensure_service_preserves; assumption|exact Hreply].
      + apply lift_bind_fst; [apply at_delete_service; assumption|intros s' Hs'; exact Hs'].
      + destruct (services s !! (nd, svc)) as [x|]; [|exact Hs].
        destruct (bool_decide (sv_modify x = cidx)); [|exact Hs].
        apply lift_bind_fst; [apply at_delete_service; assumption|intros s' Hs'; exact Hs'].
    - unfold txn_check.
      assert (Hreply : forall s', P s' ->
         post P fst (match checks s' !! (cr_node c, cr_id c) with
                     | Some x => Ok (s', [RCheck (cr_node c) (cr_id c) x]) | None => Ok (s', []) end)).
      { intros s' Hs'. destruct (checks s' !! _); exact Hs'. }
      destruct v.
      + destruct (checks s !! _); exact Hs.
      + apply lift_bind_fst; [apply at_ensure_check_p; assumption|exact Hreply].
      + destruct (cas_ok _ _ _); [|exact Hs].
        apply lift_bind_fst; [apply at_ensure_check_p; assumption|exact Hreply].
      + apply lift_bind_fst; [apply at_delete_check; assumption|intros s' Hs'; exact Hs'].
      + destruct (checks s !! _) as [x|]; [|exact Hs].
        destruct (bool_decide (c_modify x = cr_index c)); [|exact Hs].
        apply lift_bind_fst; [apply at_delete_check; assumption|intros s' Hs'; exact Hs'].
    - destruct (sessions s !! sid); [|exact Hs].
      apply lift_bind_fst; [apply at_delete_session_top; assumption|intros s' Hs'; exact Hs'].
  Qed.

  (* the dispatcher keeps P on whatever state it is working on, and never reports "out of fuel" *)
  Lemma lift_txn_dispatch ops : forall i s, P s ->
    P (txn_dispatch idx i ops s).1.1 /\ forall j e, (j, e) ∈ (txn_dispatch idx i ops s).2 -> e ≠ EFuel.
  Proof.
    induction ops as [|op ops IH]; intros i s Hs; cbn.
    - split; [exact Hs|]. intros j e Hin. inversion Hin.
    - pose proof (lift_txn_op op s Hs) as Hop.
      destruct (txn_op idx op s) as [[s' r]|e sp]; cbn in Hop.
      + specialize (IH (S i) s' Hop). destruct (txn_dispatch idx (S i) ops s') as [[s'' rs] es]. exact IH.
      + assert (Hsp : P sp /\ e ≠ EFuel) by (destruct e; try (split; [exact Hop|discriminate]); contradiction).
        destruct Hsp as [Hsp Hne].
        specialize (IH (S i) sp Hsp). destruct (txn_dispatch idx (S i) ops sp) as [[s'' rs] es].
        cbn in *. split; [exact (proj1 IH)|]. intros j e' Hin.
        apply elem_of_cons in Hin as [Heq|Hin]; [injection Heq as _ ->; exact Hne|eapply (proj2 IH); exact Hin].
  Qed.

  Lemma lift_ensure_registration nd id addr skip svc cks :
    preserves P (ensure_registration idx nd id addr skip svc cks).
  Proof.
    intros s Hs. unfold ensure_registration.
    apply (bind_preserves P P).
    { destruct (changes_node _ _ _ _); [|exact Hs]. apply at_ensure_node; assumption. }
    intros s1 Hs1. apply (bind_preserves P P).
    { destruct svc as [[[sid name] port]|]; [|exact Hs1].
      destruct (services s1 !! (nd, sid)) as [x|].
      - destruct (_ && _); [exact Hs1|]. apply ensure_service_preserves; assumption.
      - apply ensure_service_preserves; assumption. }
    intros s2 Hs2. apply (rfold_preserves P); [|exact Hs2].
    intros c s' Hs'. cbn. destruct (bool_decide _); [|exact Hs'].
    apply at_ensure_check_p; assumption.
  Qed.

  Lemma lift_session_create sid ss : preserves P (session_create idx sid ss).
  Proof.
    intros s Hs. unfold session_create.
    destruct (bool_decide (sid = "")); [exact Hs|].
    destruct (nodes s !! s_node ss); [|exact Hs].
    destruct (forallb _ _); [|exact Hs].
    apply (rfold_preserves P).
    - intros cid s' Hs'. cbn.
      match goal with |- context [checks ?s1 !! ?key] => destruct (checks s1 !! key) end; [|exact Hs'].
      apply at_ensure_check_p; assumption.
    - apply Hsess; exact Hs.
  Qed.

  (* the result of a command is never the model's own "out of fuel" *)
  Definition no_fuel (r : cres) : Prop :=
    match r with
    | CErr e => e ≠ EFuel
    | CTxn _ es => forall j e, (j, e) ∈ es -> e ≠ EFuel
    | _ => True
    end.

  Lemma lift_of_unit (r : result st) s : P s -> post P id r -> P (of_unit r s).1 /\ no_fuel (of_unit r s).2.
  Proof.
    intros Hs Hr. destruct r as [s'|e p]; cbn; [split; [exact Hr|exact I]|].
    split; [exact Hs|]. destruct e; try discriminate. contradiction.
  Qed.

  Theorem lift_apply c s : P s -> P (apply idx c s).1 /\ no_fuel (apply idx c s).2.
  Proof.
    intros Hs. destruct c; cbn [apply].
    - unfold apply_kvs. destruct v; cbn; try (split; [exact Hs|discriminate]).
      + split; [apply Hset; exact Hs|exact I].
      + split; [apply Hdel; exact Hs|exact I].
      + pose proof (lift_delete_cas (q_index q) (q_key q) s Hs) as Hx.
        destruct (kvs_delete_cas _ _ _ _) as [ok s']. split; [exact Hx|exact I].
      + split; [apply Htree; exact Hs|exact I].
      + pose proof (lift_set_cas (q_key q) (ent_of q) s Hs) as Hx.
        destruct (kvs_set_cas _ _ _ _) as [[] [s' e']]; cbn in *; (split; [first [exact Hx|exact Hs]|exact I]).
      + pose proof (lift_lock (q_key q) (ent_of q) s Hs) as Hx.
        destruct (kvs_lock _ _ _ _) as [[[] [s' e']]|er p]; cbn in *;
          [split; [exact Hx|exact I]|split; [exact Hs|exact I]|].
        split; [exact Hs|]. destruct er; try discriminate. contradiction.
      + pose proof (lift_unlock (q_key q) (ent_of q) s Hs) as Hx.
        destruct (kvs_unlock _ _ _ _) as [[[] [s' e']]|er p]; cbn in *;
          [split; [exact Hx|exact I]|split; [exact Hs|exact I]|].
        split; [exact Hs|]. destruct er; try discriminate. contradiction.
    - pose proof (lift_session_create sid ss s Hs) as Hx.
      destruct (session_create idx sid ss s) as [s'|e p]; cbn in *; [split; [exact Hx|exact I]|].
      split; [exact Hs|]. destruct e; try discriminate. contradiction.
    - apply lift_of_unit; [exact Hs|]. apply at_delete_session_top; assumption.
    - apply lift_of_unit; [exact Hs|]. apply lift_ensure_registration; exact Hs.
    - destruct (negb (bool_decide (svc = ""))); [|destruct (negb (bool_decide (cid = "")))];
        (apply lift_of_unit; [exact Hs|]).
      + apply at_delete_service; assumption.
      + apply at_delete_check; assumption.
      + apply at_delete_node; assumption.
    - unfold txn_rw. pose proof (lift_txn_dispatch ops 0%nat s Hs) as [Hx Hf].
      destruct (txn_dispatch idx 0 ops s) as [[s' rs] es]. destruct es as [|e0 es]; cbn in *.
      + split; [exact Hx|]. intros j e Hin. inversion Hin.
      + split; [exact Hs|exact Hf].
    - split; [apply Hreap; exact Hs|exact I].
    - apply lift_of_unit; [exact Hs|]. unfold query_set. destruct (_ || _); [|exact Hs].
      cbn. apply (lo_index P HL). apply Hquery. exact Hs.
    - unfold query_delete. destruct (queries s !! qid); [|split; [exact Hs|exact I]].
      split; [|exact I]. apply (lo_index P HL). apply Hquery. exact Hs.
  Qed.
End Lift.


(* ---------- no command of any history runs out of fuel ---------- *)
Theorem no_fuel_anywhere idx c s : no_fuel (apply idx c s).2.
Proof.
  refine (proj2 (lift_apply (fun _ => True) idx _ _ _ _ _ _ _ _ c s I)); try (intros; exact I).
  split; intros; exact I.
Qed.

Theorem run_no_fuel log : forall s, Forall no_fuel (run log s).2.
Proof.
  induction log as [|[idx c] log IH]; intros s; cbn; [constructor|].
  pose proof (no_fuel_anywhere idx c s) as Hc. destruct (apply idx c s) as [s' r].
  specialize (IH s'). destruct (run log s') as [s'' rs]. cbn in *. constructor; assumption.
Qed.

(* ---------- one index ---------- *)
Definition Stamp (s0 : st) (idx : N) (s : st) : Prop :=
  (forall k e, kvs s !! k = Some e -> kvs s0 !! k = Some e \/ kv_modify e = idx) /\
  (forall k i, tombs s !! k = Some i -> tombs s0 !! k = Some i \/ i = idx).

Lemma Stamp_refl s idx : Stamp s idx s.
Proof. split; intros; left; assumption. Qed.

Lemma Stamp_lock_only s0 idx : lock_only (Stamp s0 idx).
Proof. split; intros s f H; exact H. Qed.

Lemma Stamp_drop s0 idx s sid ss :
  Stamp s0 idx s -> sessions s !! sid = Some ss -> Stamp s0 idx (drop_session idx sid ss s).
Proof.
  intros [Hk Ht] _. split.
  - intros k e He. rewrite drop_session_lookup in He.
    destruct (kvs s !! k) as [e1|] eqn:E1; [|discriminate].
    destruct (decide (kv_session e1 = sid)).
    + destruct (s_delete ss); [discriminate|]. injection He as <-. right. reflexivity.
    + injection He as <-. apply (Hk k e1 E1).
  - intros k i Hi. rewrite drop_session_tombs in Hi.
    destruct (kvs s !! k) as [e1|] eqn:E1; [|apply (Ht k i Hi)].
    destruct (decide (kv_session e1 = sid)); [|apply (Ht k i Hi)].
    destruct (s_delete ss); [injection Hi as <-; right; reflexivity|apply (Ht k i Hi)].
Qed.

Lemma Stamp_set s0 idx k e u s : Stamp s0 idx s -> Stamp s0 idx (kvs_set idx k e u s).1.
Proof.
  intros [Hk Ht]. unfold kvs_set. destruct (kvs s !! k) as [x|] eqn:Ex.
  - destruct (kv_same x _); cbn; [split; assumption|]. split; [|exact Ht].
    intros k' e' He'. cbn in He'. destruct (decide (k' = k)) as [->|Hne].
    + rewrite lookup_insert in He'. injection He' as <-. right. reflexivity.
    + rewrite lookup_insert_ne in He' by congruence. apply (Hk k' e' He').
  - cbn. split; [|exact Ht].
    intros k' e' He'. cbn in He'. destruct (decide (k' = k)) as [->|Hne].
    + rewrite lookup_insert in He'. injection He' as <-. right. reflexivity.
    + rewrite lookup_insert_ne in He' by congruence. apply (Hk k' e' He').
Qed.

Lemma Stamp_delete s0 idx k s : Stamp s0 idx s -> Stamp s0 idx (kvs_delete idx k s).
Proof.
  intros [Hk Ht]. unfold kvs_delete. destruct (kvs s !! k); [|split; assumption]. split; cbn.
  - intros k' e' He'. apply lookup_delete_Some in He' as [_ He']. apply (Hk k' e' He').
  - intros k' i Hi. destruct (decide (k' = k)) as [->|Hne].
    + rewrite lookup_insert in Hi. injection Hi as <-. right. reflexivity.
    + rewrite lookup_insert_ne in Hi by congruence. apply (Ht k' i Hi).
Qed.

Lemma Stamp_delete_tree s0 idx p s : Stamp s0 idx s -> Stamp s0 idx (kvs_delete_tree idx p s).
Proof.
  intros [Hk Ht]. unfold kvs_delete_tree. destruct (bool_decide _); [split; assumption|].
  destruct (bool_decide (p = "")); cbn; split; cbn.
  - intros k' e' He'. apply map_filter_lookup_Some in He' as [He' _]. apply (Hk k' e' He').
  - intros k' i Hi. apply map_filter_lookup_Some in Hi as [Hi _]. apply (Ht k' i Hi).
  - intros k' e' He'. apply map_filter_lookup_Some in He' as [He' _]. apply (Hk k' e' He').
  - intros k' i Hi. destruct (decide (k' = p)) as [->|Hne].
    + rewrite lookup_insert in Hi. injection Hi as <-. right. reflexivity.
    + rewrite lookup_insert_ne in Hi by congruence.
      apply map_filter_lookup_Some in Hi as [Hi _]. apply (Ht k' i Hi).
Qed.

(* Every KV row and every tombstone present after a command either was there before, unchanged, or
   carries the command's index -- for every command, a committed transaction of any length and any
   mix of verbs and cascades included. *)
Theorem one_index idx c s : Stamp s idx (apply idx c s).1.
Proof.
  refine (proj1 (lift_apply (Stamp s idx) idx (Stamp_lock_only s idx) _ _ _ _ _ _ _ c s (Stamp_refl s idx))).
  - intros s1 sid ss. apply Stamp_drop.
  - intros k e u s1. apply Stamp_set.
  - intros k s1. apply Stamp_delete.
  - intros p s1. apply Stamp_delete_tree.
  - intros sid ss s1 H. exact H.
  - intros f s1 H. exact H.
  - intros upto s1 [Hk Ht]. split; [exact Hk|]. cbn.
    intros k i Hi. apply map_filter_lookup_Some in Hi as [Hi _]. apply (Ht k i Hi).
Qed.

(* ---------- the end-of-session clause, per step ---------- *)
Definition EndFrame (s0 : st) (idx : N) (s : st) : Prop :=
  (forall sid ss, sessions s !! sid = Some ss -> sessions s0 !! sid = Some ss) /\
  forall k,
    (kvs s !! k = kvs s0 !! k /\ tombs s !! k = tombs s0 !! k) \/
    exists e0 ss, kvs s0 !! k = Some e0 /\ sessions s0 !! kv_session e0 = Some ss /\
                  sessions s !! kv_session e0 = None /\
                  if s_delete ss then kvs s !! k = None /\ tombs s !! k = Some idx
                  else kvs s !! k = Some (released_row e0 idx).

Definition EndP (s0 : st) (idx : N) (s : st) : Prop := EndFrame s0 idx s /\ sessions s !! "" = None.

Lemma EndP_refl s idx : sessions s !! "" = None -> EndP s idx s.
Proof. intros H0. split; [|exact H0]. split; [auto|]. intros k. left. split; reflexivity. Qed.

Lemma EndP_lock_only s0 idx : lock_only (EndP s0 idx).
Proof. split; intros s f H; exact H. Qed.

Lemma EndP_drop s0 idx s sid ss :
  EndP s0 idx s -> sessions s !! sid = Some ss -> EndP s0 idx (drop_session idx sid ss s).
Proof.
  intros [[Hm Hk] H0] Hss.
  assert (Hsid : sid ≠ "") by (intros ->; congruence).
  split; [|rewrite drop_session_sessions, lookup_delete_ne by exact Hsid; exact H0].
  split.
  - intros sid' ss'. rewrite drop_session_sessions. intros Hs'.
    apply lookup_delete_Some in Hs' as [_ Hs']. apply Hm. exact Hs'.
  - intros k. rewrite drop_session_lookup, drop_session_tombs, drop_session_sessions.
    destruct (Hk k) as [[Ek Et]|(e0 & ss0 & He0 & Hs0 & Hg & Hr)].
    + destruct (kvs s !! k) as [e1|] eqn:E1; [|left; split; assumption].
      destruct (decide (kv_session e1 = sid)) as [Heq|Hne]; [|left; split; assumption].
      right. exists e1, ss. rewrite <- Ek. split; [reflexivity|]. rewrite Heq.
      split; [apply Hm; exact Hss|]. split; [apply lookup_delete|].
      destruct (s_delete ss); [split; reflexivity|reflexivity].
    + right. exists e0, ss0. split; [exact He0|]. split; [exact Hs0|].
      split; [apply lookup_delete_None; right; exact Hg|].
      destruct (s_delete ss0).
      * destruct Hr as [Hr1 Hr2]. rewrite Hr1. split; [reflexivity|exact Hr2].
      * rewrite Hr. cbn. destruct (decide ("" = sid)) as [Heq|_]; [congruence|reflexivity].
Qed.

(* what the frame says about a session that was live before the step and is gone after it *)
Definition EndClause (s0 : st) (idx : N) (s : st) : Prop :=
  forall sid ss, sessions s0 !! sid = Some ss -> sessions s !! sid = None ->
  forall k e0, kvs s0 !! k = Some e0 -> kv_session e0 = sid ->
    if s_delete ss then kvs s !! k = None /\ tombs s !! k = Some idx
    else kvs s !! k = Some (released_row e0 idx).

Lemma EndP_clause s0 idx s : LockInv s0 -> LockInv s -> EndP s0 idx s -> EndClause s0 idx s.
Proof.
  intros (H00 & _) (H0 & Hkv & _ & _) [[Hm Hk] _] sid ss Hss Hgone k e0 He0 Hheld.
  assert (Hsid : sid ≠ "") by (intros ->; congruence).
  destruct (Hk k) as [[Ek _]|(e1 & ss1 & He1 & Hs1 & _ & Hr)].
  - exfalso. rewrite He0 in Ek. destruct (Hkv k e0 Ek) as [Hx|[x Hx]]; congruence.
  - rewrite He0 in He1. injection He1 as <-. rewrite Hheld, Hss in Hs1. injection Hs1 as <-. exact Hr.
Qed.

(* the steps that can end sessions *)
Lemma end_preserved_destroy s0 idx sid : preserves (EndP s0 idx) (delete_session_top idx sid).
Proof. apply at_delete_session_top; [apply EndP_lock_only|intros s1 sid' ss'; apply EndP_drop]. Qed.

Lemma txn_kv_sessions idx v q s s' r : txn_kv idx v q s = Ok (s', r) -> sessions s' = sessions s.
Proof.
  unfold txn_kv. destruct v; cbn.
  - pose proof (kvs_set_same4 idx (q_key q) (ent_of q) false s) as Hx.
    destruct (kvs_set _ _ _ _ _) as [s1 e1]. intros Hop; injection Hop as <- _. exact (proj1 Hx).
  - intros Hop; injection Hop as <- _. exact (proj1 (kvs_delete_same4 idx (q_key q) s)).
  - pose proof (kvs_delete_cas_same4 idx (q_index q) (q_key q) s) as Hx.
    destruct (kvs_delete_cas _ _ _ _) as [[] s1]; intros Hop; [injection Hop as <- _; exact (proj1 Hx)|discriminate].
  - intros Hop; injection Hop as <- _. exact (proj1 (kvs_delete_tree_same4 idx (q_key q) s)).
  - pose proof (kvs_set_cas_same4 idx (q_key q) (ent_of q) s) as Hx.
    destruct (kvs_set_cas _ _ _ _) as [[] [s1 e1]]; intros Hop; [injection Hop as <- _; exact (proj1 Hx)|discriminate].
  - pose proof (kvs_lock_same4 idx (q_key q) (ent_of q) s) as Hx.
    destruct (kvs_lock _ _ _ _) as [[[] [s1 e1]]|er p]; intros Hop; try discriminate.
    injection Hop as <- _. exact (proj1 Hx).
  - pose proof (kvs_unlock_same4 idx (q_key q) (ent_of q) s) as Hx.
    destruct (kvs_unlock _ _ _ _) as [[[] [s1 e1]]|er p]; intros Hop; try discriminate.
    injection Hop as <- _. exact (proj1 Hx).
  - destruct (kvs s !! q_key q); intros Hop; [injection Hop as <- _; reflexivity|discriminate].
  - destruct (kvs s !! q_key q); intros Hop; injection Hop as <- _; reflexivity.
  - intros Hop; injection Hop as <- _. reflexivity.
  - destruct (kvs s !! q_key q); [destruct (bool_decide _)|]; intros Hop; try discriminate; injection Hop as <- _; reflexivity.
  - destruct (kvs s !! q_key q); [destruct (bool_decide _)|]; intros Hop; try discriminate; injection Hop as <- _; reflexivity.
  - destruct (kvs s !! q_key q); intros Hop; [discriminate|injection Hop as <- _; reflexivity].
Qed.

Definition is_kv_op (op : txnop) : bool := match op with TKV _ _ => true | _ => false end.

(* the operations that can end sessions leave every key untouched or ended with its session *)
Lemma txn_op_EndP idx op s s' r :
  LockInv s -> is_kv_op op = false -> txn_op idx op s = Ok (s', r) -> EndP s idx s'.
Proof.
  intros Hs Hnk Hop.
  destruct op as [v q|v nd id addr cidx|v nd svc name port cidx|v c|sid]; [discriminate| | | |].
  - cbn [txn_op] in Hop. unfold txn_node in Hop.
    assert (HP : EndP s idx s) by (apply EndP_refl; apply Hs).
    assert (HL := EndP_lock_only s idx).
    assert (HD := fun s1 sid ss => EndP_drop s idx s1 sid ss).
    destruct v.
    + destruct (if bool_decide (id = "") then _ else _) as [[nm n]|]; [injection Hop as <- _; exact HP|discriminate].
    + pose proof (at_ensure_node (EndP s idx) idx HL HD nd id addr s HP) as Hx.
      destruct (ensure_node idx nd id addr s) as [s1|e p]; cbn in Hop; [|discriminate].
      destruct (if bool_decide (id = "") then _ else _) as [[nm n]|]; injection Hop as <- _; exact Hx.
    + destruct (cas_ok _ _ _); [|discriminate].
      pose proof (at_ensure_node (EndP s idx) idx HL HD nd id addr s HP) as Hx.
      destruct (ensure_node idx nd id addr s) as [s1|e p]; cbn in Hop; [|discriminate].
      destruct (if bool_decide (id = "") then _ else _) as [[nm n]|]; injection Hop as <- _; exact Hx.
    + pose proof (at_delete_node (EndP s idx) idx HL HD nd s HP) as Hx.
      destruct (delete_node idx nd s) as [s1|e p]; cbn in Hop; [|discriminate]. injection Hop as <- _; exact Hx.
    + destruct (nodes s !! nd) as [x|]; [|discriminate]. destruct (bool_decide (n_modify x = cidx)); [|discriminate].
      pose proof (at_delete_node (EndP s idx) idx HL HD nd s HP) as Hx.
      destruct (delete_node idx nd s) as [s1|e p]; cbn in Hop; [|discriminate]. injection Hop as <- _; exact Hx.
  - cbn [txn_op] in Hop. unfold txn_service in Hop.
    assert (HP : EndP s idx s) by (apply EndP_refl; apply Hs).
    assert (HL := EndP_lock_only s idx).
    assert (HD := fun s1 sid ss => EndP_drop s idx s1 sid ss).
    destruct v.
    + destruct (services s !! (nd, svc)); [injection Hop as <- _; exact HP|discriminate].
    + pose proof (ensure_service_preserves (EndP s idx) idx nd svc name port HL s HP) as Hx.
      destruct (ensure_service idx nd svc name port s) as [s1|e p]; cbn in Hop; [|discriminate].
      destruct (services s1 !! (nd, svc)); injection Hop as <- _; exact Hx.
    + destruct (cas_ok _ _ _); [|discriminate].
      pose proof (ensure_service_preserves (EndP s idx) idx nd svc name port HL s HP) as Hx.
      destruct (ensure_service idx nd svc name port s) as [s1|e p]; cbn in Hop; [|discriminate].
      destruct (services s1 !! (nd, svc)); injection Hop as <- _; exact Hx.
    + pose proof (at_delete_service (EndP s idx) idx HL HD nd svc s HP) as Hx.
      destruct (delete_service idx nd svc s) as [s1|e p]; cbn in Hop; [|discriminate]. injection Hop as <- _; exact Hx.
    + destruct (services s !! (nd, svc)) as [x|]; [|discriminate].
      destruct (bool_decide (sv_modify x = cidx)); [|discriminate].
      pose proof (at_delete_service (EndP s idx) idx HL HD nd svc s HP) as Hx.
      destruct (delete_service idx nd svc s) as [s1|e p]; cbn in Hop; [|discriminate]. injection Hop as <- _; exact Hx.
  - cbn [txn_op] in Hop. unfold txn_check in Hop.
    assert (HP : EndP s idx s) by (apply EndP_refl; apply Hs).
    assert (HL := EndP_lock_only s idx).
    assert (HD := fun s1 sid ss => EndP_drop s idx s1 sid ss).
    destruct v.
    + destruct (checks s !! _); [injection Hop as <- _; exact HP|discriminate].
    + pose proof (at_ensure_check_p (EndP s idx) idx HL HD false (cr_node c) (cr_id c) (check_of c) s HP) as Hx.
      fold ensure_check in Hx.
      destruct (ensure_check idx (cr_node c) (cr_id c) (check_of c) s) as [s1|e p]; cbn in Hop; [|discriminate].
      destruct (checks s1 !! _); injection Hop as <- _; exact Hx.
    + destruct (cas_ok _ _ _); [|discriminate].
      pose proof (at_ensure_check_p (EndP s idx) idx HL HD false (cr_node c) (cr_id c) (check_of c) s HP) as Hx.
      fold ensure_check in Hx.
      destruct (ensure_check idx (cr_node c) (cr_id c) (check_of c) s) as [s1|e p]; cbn in Hop; [|discriminate].
      destruct (checks s1 !! _); injection Hop as <- _; exact Hx.
    + pose proof (at_delete_check (EndP s idx) idx HL HD (cr_node c) (cr_id c) s HP) as Hx.
      destruct (delete_check idx (cr_node c) (cr_id c) s) as [s1|e p]; cbn in Hop; [|discriminate].
      injection Hop as <- _; exact Hx.
    + destruct (checks s !! _) as [x|]; [|discriminate].
      destruct (bool_decide (c_modify x = cr_index c)); [|discriminate].
      pose proof (at_delete_check (EndP s idx) idx HL HD (cr_node c) (cr_id c) s HP) as Hx.
      destruct (delete_check idx (cr_node c) (cr_id c) s) as [s1|e p]; cbn in Hop; [|discriminate].
      injection Hop as <- _; exact Hx.
  - cbn [txn_op] in Hop. destruct (sessions s !! sid); [|discriminate].
    pose proof (end_preserved_destroy s idx sid s (EndP_refl s idx (proj1 Hs))) as Hx.
    destruct (delete_session_top idx sid s) as [s1|e p]; cbn in Hop; [|discriminate].
    injection Hop as <- _; exact Hx.
Qed.

Theorem end_of_session_txn_op idx op s s' r :
  LockInv s -> txn_op idx op s = Ok (s', r) -> EndClause s idx s'.
Proof.
  intros Hs Hop.
  assert (Hinv' : LockInv s').
  { pose proof (txn_op_LockInv idx op s Hs) as Hx. rewrite Hop in Hx. exact Hx. }
  destruct (is_kv_op op) eqn:Ek.
  - (* KV verbs do not touch the sessions table *)
    destruct op as [v q| | | |]; try discriminate.
    intros sid ss Hss Hgone. exfalso.
    assert (Hsame : sessions s' = sessions s) by (eapply txn_kv_sessions; exact Hop).
    rewrite Hsame in Hgone. congruence.
  - apply (EndP_clause s idx s' Hs Hinv'). eapply txn_op_EndP; eassumption.
Qed.

(* a committed transaction: the clause holds for every operation, on the state that operation ran on *)
Fixpoint StepsEnd (idx : N) (ops : list txnop) (s : st) : Prop :=
  match ops with
  | [] => True
  | op :: rest =>
    match txn_op idx op s with
    | Ok (s1, _) => EndClause s idx s1 /\ StepsEnd idx rest s1
    | Err _ _ => True
    end
  end.

Theorem end_of_session_in_txn idx ops : forall s, LockInv s -> StepsEnd idx ops s.
Proof.
  induction ops as [|op ops IH]; intros s Hs; cbn; [exact I|].
  pose proof (txn_op_LockInv idx op s Hs) as Hinv.
  destruct (txn_op idx op s) as [[s1 r]|e p] eqn:Hop; [|exact I].
  split; [eapply end_of_session_txn_op; eassumption|apply IH; exact Hinv].
Qed.

(* session creation ends no session *)
Lemma ensure_check_p_noncrit_sessions pre idx nd cid hc s s' :
  c_status hc ≠ critical -> ensure_check_p pre idx nd cid hc s = Ok s' -> sessions s' = sessions s.
Proof.
  intros Hnc. unfold ensure_check_p, ensure_check_with.
  destruct (nodes s !! nd); [|discriminate].
  unfold resolve_service.
  assert (Hgo : forall hc1, c_status hc1 = c_status hc ->
            (s1 ← invalidate_if_critical (fun i sid s0 => delete_session (fuel_of s0) i sid s0) idx nd cid hc1 s;
             Ok (store_check pre idx nd cid hc1 (checks s !! (nd, cid)) s1)) = Ok s' -> sessions s' = sessions s).
  { intros hc1 Hst. unfold invalidate_if_critical.
    rewrite bool_decide_eq_false_2 by (rewrite Hst; exact Hnc). cbn.
    intros Heq; injection Heq as <-. apply store_check_frame. }
  destruct (bool_decide (c_service hc = "")); cbn; [apply Hgo; reflexivity|].
  destruct (services s !! _); cbn; [apply Hgo; reflexivity|discriminate].
Qed.

Lemma session_create_sessions idx sid ss s s' :
  session_create idx sid ss s = Ok s' -> sessions s' = <[sid := ss <| s_create := idx |> ]> (sessions s).
Proof.
  unfold session_create. destruct (bool_decide (sid = "")); [discriminate|].
  destruct (nodes s !! s_node ss); [|discriminate].
  destruct (forallb _ _); [|discriminate].
  match goal with |- rfold ?f ?l ?s1 = Ok s' -> _ =>
    assert (Hall : forall l' a b, rfold f l' a = Ok b -> sessions b = sessions a) end.
  { induction l' as [|cid l' IHl]; intros a b; cbn [rfold]; [intros Heq; injection Heq as <-; reflexivity|].
    cbn beta.
    match goal with |- context [checks ?s1 !! ?key] => destruct (checks s1 !! key) as [c|] end.
    - destruct (ensure_check_p true idx (s_node ss) cid _ a) as [a'|e p] eqn:Ee; cbn; [|discriminate].
      intros Hr. rewrite (IHl a' b Hr). eapply ensure_check_p_noncrit_sessions; [|exact Ee].
      cbn. discriminate.
    - cbn. apply IHl. }
  intros Hr. rewrite (Hall _ _ _ Hr). reflexivity.
Qed.

(* every command other than a transaction, as one step *)
Theorem end_of_session_command idx c s :
  LockInv s -> (forall ops, c ≠ Txn ops) -> EndClause s idx (apply idx c s).1.
Proof.
  intros Hs Hnt.
  pose proof (apply_LockInv idx c s Hs) as Hinv'.
  assert (Hvac : forall s', sessions s' = sessions s -> EndClause s idx s').
  { intros s' Hsame sid ss Hss Hgone. rewrite Hsame in Hgone. congruence. }
  assert (HP : EndP s idx s) by (apply EndP_refl; apply Hs).
  assert (HL := EndP_lock_only s idx).
  assert (HD := fun s1 sid ss => EndP_drop s idx s1 sid ss).
  assert (Hunit : forall r : result st, post (EndP s idx) id r -> LockInv (of_unit r s).1 ->
            EndClause s idx (of_unit r s).1).
  { intros r Hr Hi. destruct r as [s1|e p]; cbn in *; [|apply Hvac; reflexivity].
    apply EndP_clause; assumption. }
  destruct c; cbn [apply] in *.
  - apply Hvac. unfold apply_kvs. destruct v; cbn; try reflexivity.
    + exact (proj1 (kvs_set_same4 idx (q_key q) (ent_of q) false s)).
    + exact (proj1 (kvs_delete_same4 idx (q_key q) s)).
    + pose proof (kvs_delete_cas_same4 idx (q_index q) (q_key q) s) as Hx.
      destruct (kvs_delete_cas _ _ _ _) as [ok s1]. exact (proj1 Hx).
    + exact (proj1 (kvs_delete_tree_same4 idx (q_key q) s)).
    + pose proof (kvs_set_cas_same4 idx (q_key q) (ent_of q) s) as Hx.
      destruct (kvs_set_cas _ _ _ _) as [[] [s1 e1]]; cbn in *; [exact (proj1 Hx)|reflexivity].
    + pose proof (kvs_lock_same4 idx (q_key q) (ent_of q) s) as Hx.
      destruct (kvs_lock _ _ _ _) as [[[] [s1 e1]]|er p]; cbn in *; [exact (proj1 Hx)|reflexivity|reflexivity].
    + pose proof (kvs_unlock_same4 idx (q_key q) (ent_of q) s) as Hx.
      destruct (kvs_unlock _ _ _ _) as [[[] [s1 e1]]|er p]; cbn in *; [exact (proj1 Hx)|reflexivity|reflexivity].
  - destruct (session_create idx sid ss s) as [s1|e p] eqn:Ec; cbn; [|apply Hvac; reflexivity].
    intros sid' ss' Hss Hgone. exfalso. rewrite (session_create_sessions _ _ _ _ _ Ec) in Hgone.
    destruct (decide (sid' = sid)) as [->|Hne];
      [rewrite lookup_insert in Hgone; discriminate|rewrite lookup_insert_ne in Hgone by congruence; congruence].
  - apply Hunit; [apply end_preserved_destroy; exact HP|exact Hinv'].
  - apply Hunit; [|exact Hinv'].
    apply (lift_ensure_registration (EndP s idx) idx HL HD); exact HP.
  - destruct (negb (bool_decide (svc = ""))); [|destruct (negb (bool_decide (cid = "")))];
      (apply Hunit; [|exact Hinv']).
    + apply at_delete_service; assumption.
    + apply at_delete_check; assumption.
    + apply at_delete_node; assumption.
  - exfalso. exact (Hnt ops eq_refl).
  - apply Hvac. reflexivity.
  - apply Hvac. unfold query_set. destruct (_ || _); reflexivity.
  - apply Hvac. unfold query_delete. destruct (queries s !! qid); reflexivity.
Qed.

(* ---------- the KV map under commands that are not KV writes (C03) ---------- *)
(* every key is untouched (row and tombstone), or its holder's session ended in this command and the
   key was deleted with a tombstone at the command's index or released, by the session's behaviour *)
Definition KVEnd (s0 : st) (idx : N) (s : st) : Prop :=
  forall k,
    (kvs s !! k = kvs s0 !! k /\ tombs s !! k = tombs s0 !! k) \/
    exists e0 ss, kvs s0 !! k = Some e0 /\ sessions s0 !! kv_session e0 = Some ss /\
                  sessions s !! kv_session e0 = None /\
                  if s_delete ss then kvs s !! k = None /\ tombs s !! k = Some idx
                  else kvs s !! k = Some (released_row e0 idx).

Lemma store_check_kvs pre idx nd cid hc ex s :
  kvs (store_check pre idx nd cid hc ex s) = kvs s /\ tombs (store_check pre idx nd cid hc ex s) = tombs s.
Proof.
  unfold store_check.
  destruct (match ex with Some x => negb (check_same x hc) | None => true end); split; reflexivity.
Qed.

Lemma ensure_check_p_noncrit_kvs pre idx nd cid hc s s' :
  c_status hc ≠ critical -> ensure_check_p pre idx nd cid hc s = Ok s' ->
  kvs s' = kvs s /\ tombs s' = tombs s.
Proof.
  intros Hnc. unfold ensure_check_p, ensure_check_with.
  destruct (nodes s !! nd); [|discriminate].
  unfold resolve_service.
  assert (Hgo : forall hc1, c_status hc1 = c_status hc ->
            (s1 ← invalidate_if_critical (fun i sid s0 => delete_session (fuel_of s0) i sid s0) idx nd cid hc1 s;
             Ok (store_check pre idx nd cid hc1 (checks s !! (nd, cid)) s1)) = Ok s' ->
            kvs s' = kvs s /\ tombs s' = tombs s).
  { intros hc1 Hst. unfold invalidate_if_critical.
    rewrite bool_decide_eq_false_2 by (rewrite Hst; exact Hnc). cbn.
    intros Heq; injection Heq as <-. apply store_check_kvs. }
  destruct (bool_decide (c_service hc = "")); cbn; [apply Hgo; reflexivity|].
  destruct (services s !! _); cbn; [apply Hgo; reflexivity|discriminate].
Qed.

Lemma session_create_kvs idx sid ss s s' :
  session_create idx sid ss s = Ok s' -> kvs s' = kvs s /\ tombs s' = tombs s.
Proof.
  unfold session_create. destruct (bool_decide (sid = "")); [discriminate|].
  destruct (nodes s !! s_node ss); [|discriminate].
  destruct (forallb _ _); [|discriminate].
  match goal with |- rfold ?f ?l ?s1 = Ok s' -> _ =>
    assert (Hall : forall l' a b, rfold f l' a = Ok b -> kvs b = kvs a /\ tombs b = tombs a) end.
  { induction l' as [|cid l' IHl]; intros a b; cbn [rfold]; [intros Heq; injection Heq as <-; split; reflexivity|].
    cbn beta.
    match goal with |- context [checks ?s1 !! ?key] => destruct (checks s1 !! key) as [c|] end.
    - destruct (ensure_check_p true idx (s_node ss) cid _ a) as [a'|e p] eqn:Ee; cbn; [|discriminate].
      intros Hr. destruct (IHl a' b Hr) as [H1 H2]. rewrite H1, H2.
      eapply ensure_check_p_noncrit_kvs; [|exact Ee]. cbn. discriminate.
    - cbn. apply IHl. }
  intros Hr. destruct (Hall _ _ _ Hr) as [H1 H2]. rewrite H1, H2. split; reflexivity.
Qed.

Theorem kv_frame_command idx c s :
  LockInv s ->
  match c with KVS _ _ | Txn _ | Reap _ => True | _ => KVEnd s idx (apply idx c s).1 end.
Proof.
  intros Hs.
  assert (Hsame : forall s', kvs s' = kvs s -> tombs s' = tombs s -> KVEnd s idx s').
  { intros s' H1 H2 k. left. rewrite H1, H2. split; reflexivity. }
  assert (HP : EndP s idx s) by (apply EndP_refl; apply Hs).
  assert (HL := EndP_lock_only s idx).
  assert (HD := fun s1 sid ss => EndP_drop s idx s1 sid ss).
  assert (Hunit : forall r : result st, post (EndP s idx) id r -> KVEnd s idx (of_unit r s).1).
  { intros r Hr. destruct r as [s1|e p]; cbn in *; [exact (proj2 (proj1 Hr))|apply Hsame; reflexivity]. }
  destruct c; cbn [apply]; try exact I.
  - destruct (session_create idx sid ss s) as [s1|e p] eqn:Ec; cbn; [|apply Hsame; reflexivity].
    destruct (session_create_kvs _ _ _ _ _ Ec) as [H1 H2]. apply Hsame; assumption.
  - apply Hunit. apply end_preserved_destroy; exact HP.
  - apply Hunit. apply (lift_ensure_registration (EndP s idx) idx HL HD); exact HP.
  - destruct (negb (bool_decide (svc = ""))); [|destruct (negb (bool_decide (cid = "")))]; apply Hunit.
    + apply at_delete_service; assumption.
    + apply at_delete_check; assumption.
    + apply at_delete_node; assumption.
  - apply Hsame; unfold query_set; destruct (_ || _); reflexivity.
  - apply Hsame; unfold query_delete; destruct (queries s !! qid); reflexivity.
Qed.

(* ... and the same for the non-KV operations of a transaction *)
Theorem kv_frame_txn_op idx op s s' r :
  LockInv s -> is_kv_op op = false -> txn_op idx op s = Ok (s', r) -> KVEnd s idx s'.
Proof. intros Hs Hk Hop. exact (proj2 (proj1 (txn_op_EndP idx op s s' r Hs Hk Hop))). Qed.

Fixpoint TxnKVSteps (idx : N) (ops : list txnop) (s : st) : Prop :=
  match ops with
  | [] => True
  | op :: rest =>
    match txn_op idx op s with
    | Ok (s1, _) => (if is_kv_op op then True else KVEnd s idx s1) /\ TxnKVSteps idx rest s1
    | Err _ _ => True
    end
  end.

Theorem kv_frame_in_txn idx ops : forall s, LockInv s -> TxnKVSteps idx ops s.
Proof.
  induction ops as [|op ops IH]; intros s Hs; cbn; [exact I|].
  pose proof (txn_op_LockInv idx op s Hs) as Hinv.
  destruct (txn_op idx op s) as [[s1 r]|e p] eqn:Hop; [|exact I].
  split; [|apply IH; exact Hinv].
  destruct (is_kv_op op) eqn:Ek; [exact I|]. eapply kv_frame_txn_op; eassumption.
Qed.

(* ---------- the list verb returns exactly the map's content under the prefix (C03) ---------- *)
Theorem read_tree idx q s :
  exists l, txn_kv idx VGetTree q s = Ok (s, (fun kv : string * kvent => RKV kv.1 kv.2 true) <$> l) /\
            NoDup l.*1 /\
            forall k e, (k, e) ∈ l <-> kvs s !! k = Some e /\ has_prefix (q_key q) k = true.
Proof.
  unfold txn_kv.
  set (ks := ssort (elements (dom (kvs s)))).
  set (l0 := (fun k' => (k', default (ent_of q) (kvs s !! k'))) <$> ks).
  exists (filter (fun kv : string * kvent => has_prefix (q_key q) kv.1 = true) l0).
  split; [reflexivity|]. split.
  - assert (Hnd : NoDup ks) by (unfold ks; rewrite (sv_ssort_perm _); apply NoDup_elements).
    assert (Hfst : forall l1 : list (string * kvent),
              (filter (fun kv : string * kvent => has_prefix (q_key q) kv.1 = true) l1).*1
              = filter (fun k => has_prefix (q_key q) k = true) (l1.*1)).
    { induction l1 as [|[a b] l1 IH]; [reflexivity|].
      rewrite fmap_cons, !filter_cons. cbn [fst].
      destruct (decide (has_prefix (q_key q) a = true)); [rewrite fmap_cons|]; rewrite IH; reflexivity. }
    rewrite Hfst. apply NoDup_filter. unfold l0. rewrite <- list_fmap_compose.
    assert (Hid : (fst ∘ (fun k' : string => (k', default (ent_of q) (kvs s !! k')))) <$> ks = ks).
    { clear. induction ks as [|x l IH]; [reflexivity|]. cbn. rewrite IH. reflexivity. }
    rewrite Hid. exact Hnd.
  - intros k e. rewrite elem_of_list_filter. cbn. unfold l0. rewrite elem_of_list_fmap. split.
    + intros [Hp (k' & Heq & Hin)]. injection Heq as -> ->.
      unfold ks in Hin. apply sv_elem_of_ssort, elem_of_elements, elem_of_dom in Hin as [x Hx].
      rewrite Hx. cbn. split; [reflexivity|exact Hp].
    + intros [He Hp]. split; [exact Hp|]. exists k. rewrite He. cbn. split; [reflexivity|].
      unfold ks. apply sv_elem_of_ssort, elem_of_elements, elem_of_dom. eauto.
Qed.
