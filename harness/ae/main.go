// Correspondence harness for property C16 (anti-entropy: the catalog converges to the agent's
// local state).
//
// A real agent/local.State (local.NewState with a Config, a logger and a token store) is driven
// through generated histories of local changes (add / update / remove services with checks) and
// catalog drift. Its Delegate is a fake RPC endpoint backed by a REAL agent/consul/state.Store:
// Catalog.Register goes through a msgpack round trip and state.EnsureRegistration,
// Catalog.Deregister through state.DeleteService / DeleteCheck (same precedence as the FSM),
// Catalog.NodeServiceList / Health.NodeChecks read the store. The delegate fails, denies
// (permission denied, or "Unknown service/check ID" when the target is absent, exactly as
// vetDeregisterWithACL answers an under-privileged token) or answers "ACL not found" on the
// n-th call for EVERY n up to the call count of the fault-free run.
//
// Every run records, per step: the result, the RPC sequence (who called, target id, token,
// piggy-backed checks, outcome), every bookkeeping entry of the local state (through the verif
// hook, so Deleted entries and placeholders are visible) and the catalog content; all as rows
// of small numbers that the Coq model reproduces. A model-independent oracle states the
// property directly on the real structs.
package main

import (
	"bufio"
	"context"
	"encoding/json"
	"errors"
	"flag"
	"fmt"
	"math/rand"
	"os"
	"reflect"
	"runtime"
	"sort"
	"strings"
	"time"

	"github.com/hashicorp/go-hclog"

	"github.com/hashicorp/consul/acl"
	"github.com/hashicorp/consul/acl/resolver"
	"github.com/hashicorp/consul/agent/consul/state"
	"github.com/hashicorp/consul/agent/local"
	"github.com/hashicorp/consul/agent/structs"
	"github.com/hashicorp/consul/agent/token"
	"github.com/hashicorp/consul/lib/stringslice"
	"github.com/hashicorp/consul/types"
)

// ------------------------------------------------------------------ universe and codes

const (
	nodeName = "node1"
	nodeID   = "40e4a748-2192-161a-0510-9bf59fe950b5"
	nodeAddr = "10.1.1.1"
	consulID = 9 // model id of the service "consul" and of the check "serfHealth"
)

var svcIDs = map[int]string{1: "s1", 2: "s2", 3: "s3", 4: "s4", consulID: structs.ConsulServiceID}
var chkIDs = map[int]string{1: "c1", 2: "c2", 3: "c3", 4: "c4", 5: "c5", 6: "c6", consulID: string(structs.SerfCheckID)}
var svcNames = []string{"", "web", "db", "api", "consul"}
var tagSets = [][]string{nil, {"a"}, {"b"}, {"a", "b"}, {"c"}}
var statuses = []string{"", "passing", "warning", "critical"}
var tokens = []string{"", "tok-user", "tok-agent", "tok-cfg", "tok-a", "tok-b"}
var taKeys = map[int]string{1: "lan", 2: "wan", 11: "consul-x", 12: "consul-y"}

func rev(m map[int]string, s string) int {
	for k, v := range m {
		if v == s {
			return k
		}
	}
	panic("unknown id in universe: " + s)
}

func idx(l []string, s string) int {
	for k, v := range l {
		if v == s {
			return k
		}
	}
	panic("unknown name in universe: " + s)
}

func tagCode(t []string) int {
	for k, v := range tagSets {
		if len(v) == len(t) && strings.Join(v, ",") == strings.Join(t, ",") {
			if len(t) == 0 && (t == nil) != (v == nil) {
				continue
			}
			return k
		}
	}
	if len(t) == 0 {
		return 99 // empty but not nil: never generated; a distinct code so that it shows up as a mismatch
	}
	panic("unknown tags: " + strings.Join(t, ","))
}

// MSvc / MChk are the modelled projections of a service / check definition.
type MSvc struct {
	Name  int      `json:"name"`
	Tags  int      `json:"tags"`
	Eto   bool     `json:"eto"`
	Rest  int      `json:"rest"`
	TaNil bool     `json:"tanil"` // TaggedAddresses == nil (DeepEqual tells nil from empty)
	TaU   [][2]int `json:"tau"`   // user tagged addresses, sorted by key
	TaR   [][2]int `json:"tar"`   // reserved ("consul-" prefixed) tagged addresses, sorted by key
}

type MChk struct {
	Sid    int `json:"sid"`
	Status int `json:"status"`
	Out    int `json:"out"`
	Rest   int `json:"rest"`
	Sname  int `json:"sname"`
	Stags  int `json:"stags"`
	Aux    int `json:"aux"` // Type / Interval / Timeout / ExposedPort: fields HealthCheck.IsSame does not compare
}

type ChkWithID struct {
	ID  int  `json:"id"`
	Def MChk `json:"def"`
}

func buildSvc(id int, m MSvc) *structs.NodeService {
	ns := &structs.NodeService{
		ID:                svcIDs[id],
		Service:           svcNames[m.Name],
		Tags:              stringslice.CloneStringSlice(tagSets[m.Tags]),
		Port:              1000 + m.Rest,
		EnableTagOverride: m.Eto,
		Weights:           &structs.Weights{Passing: 1, Warning: 1},
		EnterpriseMeta:    *structs.DefaultEnterpriseMetaInDefaultPartition(),
	}
	if !m.TaNil {
		ns.TaggedAddresses = map[string]structs.ServiceAddress{}
		for _, kv := range append(append([][2]int{}, m.TaU...), m.TaR...) {
			ns.TaggedAddresses[taKeys[kv[0]]] = structs.ServiceAddress{Address: fmt.Sprintf("10.0.0.%d", kv[1]), Port: 2000 + kv[1]}
		}
	}
	return ns
}

func encSvc(ns *structs.NodeService) MSvc {
	m := MSvc{Name: idx(svcNames, ns.Service), Tags: tagCode(ns.Tags), Eto: ns.EnableTagOverride, Rest: ns.Port - 1000,
		TaNil: ns.TaggedAddresses == nil, TaU: [][2]int{}, TaR: [][2]int{}}
	for k, v := range ns.TaggedAddresses {
		kc := rev(taKeys, k)
		if strings.HasPrefix(k, structs.MetaKeyReservedPrefix) {
			m.TaR = append(m.TaR, [2]int{kc, v.Port - 2000})
		} else {
			m.TaU = append(m.TaU, [2]int{kc, v.Port - 2000})
		}
	}
	sort.Slice(m.TaU, func(i, j int) bool { return m.TaU[i][0] < m.TaU[j][0] })
	sort.Slice(m.TaR, func(i, j int) bool { return m.TaR[i][0] < m.TaR[j][0] })
	return m
}

func buildChk(id int, m MChk) *structs.HealthCheck {
	hc := &structs.HealthCheck{
		Node:           nodeName,
		CheckID:        types.CheckID(chkIDs[id]),
		Name:           fmt.Sprintf("chk%d", m.Rest),
		Status:         statuses[m.Status],
		ServiceName:    svcNames[m.Sname],
		ServiceTags:    stringslice.CloneStringSlice(tagSets[m.Stags]),
		Type:           "ttl",
		EnterpriseMeta: *structs.DefaultEnterpriseMetaInDefaultPartition(),
	}
	if m.Aux != 0 { // as agent.AddCheck fills them in from the check definition
		hc.Type = "http"
		hc.Interval = fmt.Sprintf("%ds", 10*m.Aux)
		hc.Timeout = fmt.Sprintf("%ds", m.Aux)
		hc.ExposedPort = 21500 + m.Aux
	}
	if m.Out != 0 {
		hc.Output = fmt.Sprintf("out%d", m.Out)
	}
	if m.Sid != 0 {
		hc.ServiceID = svcIDs[m.Sid]
	}
	return hc
}

func encChk(hc *structs.HealthCheck) MChk {
	m := MChk{Status: idx(statuses, hc.Status), Sname: idx(svcNames, hc.ServiceName), Stags: tagCode(hc.ServiceTags)}
	fmt.Sscanf(hc.Name, "chk%d", &m.Rest)
	if hc.Type != "ttl" || hc.Interval != "" || hc.Timeout != "" || hc.ExposedPort != 0 {
		m.Aux = hc.ExposedPort - 21500
		if hc.Type != "http" || hc.Interval != fmt.Sprintf("%ds", 10*m.Aux) || hc.Timeout != fmt.Sprintf("%ds", m.Aux) || m.Aux <= 0 {
			m.Aux = 99 // an inconsistent mixture: never generated, shows up as a mismatch
		}
	}
	if hc.Output != "" {
		fmt.Sscanf(hc.Output, "out%d", &m.Out)
	}
	if hc.ServiceID != "" {
		m.Sid = rev(svcIDs, hc.ServiceID)
	}
	return m
}

// ------------------------------------------------------------------ histories

type Step struct {
	Op     string      `json:"op"`
	ID     int         `json:"id,omitempty"`
	Svc    *MSvc       `json:"svc,omitempty"`
	Chk    *MChk       `json:"chk,omitempty"`
	Tok    int         `json:"tok,omitempty"`
	Loc    bool        `json:"loc,omitempty"`
	Chks   []ChkWithID `json:"chks,omitempty"`
	Cids   []int       `json:"cids,omitempty"`
	Status int         `json:"status,omitempty"`
	Out    int         `json:"out,omitempty"`
	Ni     int         `json:"ni,omitempty"`
	Skip   bool        `json:"skip,omitempty"`
	// filled in by a run: the order in which the implementation's map iteration visited entries
	Os []int `json:"os,omitempty"`
	Oc []int `json:"oc,omitempty"`
}

type History struct {
	User   int    `json:"user"`
	Agent  int    `json:"agent"`
	Cfg    int    `json:"cfg"`
	StrErr bool   `json:"strerr"` // errors cross a (simulated) net/rpc boundary: only their text survives
	WF     bool   `json:"wf"`     // agent-style history (a service is removed together with its checks, ...)
	Defer  bool   `json:"defer"`  // CheckUpdateInterval > 0 (the agent's default is 5m): output-only updates are deferred
	Steps  []Step `json:"steps"`
}

// Fail is one objection of the direct oracle, with its structured signature.
type Fail struct {
	What string                 `json:"what"`
	Sig  map[string]interface{} `json:"sig"`
}

type Case struct {
	ID     int       `json:"id"`
	Kind   string    `json:"kind"`
	Hist   History   `json:"hist"`
	Faults []int     `json:"faults"`
	Obs    [][][]int `json:"obs"`
	Calls  int       `json:"calls"`
	Oracle string    `json:"oracle"` // the first objection ("" when none)
	Fails  []Fail    `json:"fails,omitempty"`
	ToCoq  bool      `json:"to_coq"`
}

// ------------------------------------------------------------------ the fake delegate

const (
	oOK = iota
	oFail
	oDenied
	oNotFound
	oUnknown // only as an observed outcome: "Unknown service/check ID" (the agent treats it as success)
)

const (
	kListSvcs = 1 + iota
	kListChks
	kNodeInfo
	kSyncSvc
	kSyncChk
	kDelSvc
	kDelChk
)

type event struct {
	kind, id, tok     int
	skip, withsvc     bool
	outcome           int
	pig               []int
	injected          int // the fault oracle's answer for this call
	coversC, coversS  []int
	unexpectedRequest string
}

type delegate struct {
	store  *state.Store
	raft   uint64
	faults []int
	pos    int
	log    []event
	strErr bool
	bad    string
}

func (d *delegate) ResolveTokenAndDefaultMeta(string, *acl.EnterpriseMeta, *acl.AuthorizerContext) (resolver.Result, error) {
	return resolver.Result{}, acl.ErrNotFound
}

func callerKind() int {
	pcs := make([]uintptr, 32)
	n := runtime.Callers(2, pcs)
	frames := runtime.CallersFrames(pcs[:n])
	for {
		f, more := frames.Next()
		switch {
		case strings.HasSuffix(f.Function, "local.(*State).syncService"):
			return kSyncSvc
		case strings.HasSuffix(f.Function, "local.(*State).syncCheck"):
			return kSyncChk
		case strings.HasSuffix(f.Function, "local.(*State).syncNodeInfo"):
			return kNodeInfo
		case strings.HasSuffix(f.Function, "local.(*State).deleteService"):
			return kDelSvc
		case strings.HasSuffix(f.Function, "local.(*State).deleteCheck"):
			return kDelChk
		case strings.HasSuffix(f.Function, "local.(*State).updateSyncState"):
			return 0
		}
		if !more {
			return -1
		}
	}
}

func (d *delegate) mkErr(o int, unknown string) error {
	var err error
	switch o {
	case oFail:
		err = errors.New("rpc error making call: connection refused")
	case oDenied:
		err = acl.ErrPermissionDenied
	case oNotFound:
		err = acl.ErrNotFound
	case oUnknown:
		err = errors.New(unknown)
	}
	if d.strErr && err != nil {
		err = errors.New("rpc error making call: " + err.Error())
	}
	return err
}

func tokCode(t string) int { return idx(tokens, t) }

func (d *delegate) RPC(_ context.Context, method string, args interface{}, reply interface{}) error {
	inj := oOK
	if d.pos < len(d.faults) {
		inj = d.faults[d.pos]
	}
	d.pos++
	ck := callerKind()
	ev := event{injected: inj, outcome: inj}
	defer func() { d.log = append(d.log, ev) }()
	em := structs.WildcardEnterpriseMetaInDefaultPartition()
	switch method {
	case "Catalog.NodeServiceList":
		req := args.(*structs.NodeSpecificRequest)
		ev.kind, ev.tok = kListSvcs, tokCode(req.Token)
		if ck != 0 || req.Node != nodeName {
			d.bad = "unexpected NodeServiceList call"
		}
		if inj != oOK {
			return d.mkErr(inj, "")
		}
		out := reply.(*structs.IndexedNodeServiceList)
		index, svcs, err := d.store.NodeServiceList(nil, req.Node, em, "")
		if err != nil {
			ev.outcome = oFail
			return err
		}
		out.Index = index
		if svcs != nil {
			out.NodeServices = *svcs
		}
		return nil
	case "Health.NodeChecks":
		req := args.(*structs.NodeSpecificRequest)
		ev.kind, ev.tok = kListChks, tokCode(req.Token)
		if ck != 0 {
			d.bad = "unexpected NodeChecks call"
		}
		if inj != oOK {
			return d.mkErr(inj, "")
		}
		out := reply.(*structs.IndexedHealthChecks)
		index, chks, err := d.store.NodeChecks(nil, req.Node, em, "")
		if err != nil {
			ev.outcome = oFail
			return err
		}
		out.Index, out.HealthChecks = index, chks
		return nil
	case "Catalog.Register":
		req := args.(*structs.RegisterRequest)
		ev.kind, ev.tok, ev.skip = ck, tokCode(req.Token), req.SkipNodeUpdate
		var cks structs.HealthChecks
		if req.Check != nil {
			cks = append(cks, req.Check)
		}
		cks = append(cks, req.Checks...)
		switch ck {
		case kNodeInfo:
			if req.Service != nil || len(cks) != 0 {
				d.bad = "node info sync carries entries"
			}
		case kSyncSvc:
			if req.Service == nil {
				d.bad = "service sync without service"
				return errors.New("bad request")
			}
			ev.id = rev(svcIDs, req.Service.ID)
			ev.coversS = []int{ev.id}
			for _, c := range cks {
				ev.pig = append(ev.pig, rev(chkIDs, string(c.CheckID)))
			}
			sort.Ints(ev.pig)
			ev.coversC = ev.pig
		case kSyncChk:
			if len(cks) != 1 {
				d.bad = "check sync without exactly one check"
				return errors.New("bad request")
			}
			ev.id = rev(chkIDs, string(cks[0].CheckID))
			ev.withsvc = req.Service != nil
			ev.coversC = []int{ev.id}
		default:
			d.bad = "Catalog.Register from an unexpected caller"
		}
		if req.Node != nodeName || string(req.ID) != nodeID || req.Address != nodeAddr {
			d.bad = "register request with wrong node identity"
		}
		if inj != oOK {
			return d.mkErr(inj, "")
		}
		if err := d.applyRegister(req); err != nil {
			ev.outcome = oFail
			return d.wrap(err)
		}
		return nil
	case "Catalog.Deregister":
		req := args.(*structs.DeregisterRequest)
		ev.kind, ev.tok = ck, tokCode(req.Token)
		switch {
		case ck == kDelSvc && req.ServiceID != "" && req.CheckID == "":
			ev.id = rev(svcIDs, req.ServiceID)
		case ck == kDelChk && req.CheckID != "" && req.ServiceID == "":
			ev.id = rev(chkIDs, string(req.CheckID))
		default:
			d.bad = "malformed Deregister request"
			return errors.New("bad request")
		}
		if req.Node != nodeName {
			d.bad = "deregister for another node"
		}
		switch inj {
		case oOK:
			d.raft++
			var err error
			if req.ServiceID != "" {
				err = d.store.DeleteService(d.raft, req.Node, req.ServiceID, &req.EnterpriseMeta, "")
			} else {
				err = d.store.DeleteCheck(d.raft, req.Node, req.CheckID, &req.EnterpriseMeta, "")
			}
			if err != nil {
				ev.outcome = oFail
				return d.wrap(err)
			}
			return nil
		case oDenied:
			// what vetDeregisterWithACL answers a token without node:write and without
			// service:write: "Unknown service ID" when the target is absent, else permission denied
			if req.ServiceID != "" {
				_, ns, _ := d.store.NodeService(nil, req.Node, req.ServiceID, &req.EnterpriseMeta, "")
				if ns == nil {
					ev.outcome = oUnknown
					return d.mkErr(oUnknown, fmt.Sprintf("Unknown service ID '%s'", req.ServiceID))
				}
			} else {
				_, nc, _ := d.store.NodeCheck(req.Node, req.CheckID, &req.EnterpriseMeta, "")
				if nc == nil {
					ev.outcome = oUnknown
					return d.mkErr(oUnknown, fmt.Sprintf("Unknown check ID '%s'", req.CheckID))
				}
			}
			return d.mkErr(oDenied, "")
		default:
			return d.mkErr(inj, "")
		}
	}
	d.bad = "unexpected RPC method " + method
	ev.outcome = oFail
	return errors.New("unknown method")
}

func (d *delegate) wrap(err error) error {
	if d.strErr {
		return errors.New("rpc error making call: " + err.Error())
	}
	return err
}

// applyRegister does what Catalog.Register does after vetting: the request crosses msgpack
// (raftApply encodes it, the FSM decodes it), the single Check is moved into Checks, and the
// whole request is applied by state.EnsureRegistration in one transaction.
func (d *delegate) applyRegister(req *structs.RegisterRequest) error {
	buf, err := structs.Encode(structs.RegisterRequestType, req)
	if err != nil {
		return err
	}
	var r2 structs.RegisterRequest
	if err := structs.Decode(buf[1:], &r2); err != nil {
		return err
	}
	if r2.Check != nil {
		r2.Checks = append(r2.Checks, r2.Check)
		r2.Check = nil
	}
	for _, c := range r2.Checks {
		if c.Node == "" {
			c.Node = r2.Node
		}
		if c.Type == "" { // Catalog.Register: "Populate check type ..."
			c.Type = c.CheckType().Type()
		}
	}
	d.raft++
	return d.store.EnsureRegistration(d.raft, &r2)
}

// ------------------------------------------------------------------ one run

type world struct {
	st       *local.State
	d        *delegate
	triggers int
}

func nodeMeta(ni int) map[string]string { return map[string]string{"k": fmt.Sprint(ni)} }

func newWorld(h History, faults []int) *world {
	ts := new(token.Store)
	ts.UpdateUserToken(tokens[h.User], token.TokenSourceConfig)
	ts.UpdateAgentToken(tokens[h.Agent], token.TokenSourceConfig)
	ts.UpdateConfigFileRegistrationToken(tokens[h.Cfg], token.TokenSourceConfig)
	cfg := local.Config{
		AdvertiseAddr:   nodeAddr,
		Datacenter:      "dc1",
		NodeID:          types.NodeID(nodeID),
		NodeName:        nodeName,
		TaggedAddresses: map[string]string{"lan": nodeAddr},
	}
	if h.Defer {
		// long enough never to fire by itself; the "timer" step fires a pending timer on purpose
		cfg.CheckUpdateInterval = 24 * time.Hour
	}
	w := &world{}
	w.st = local.NewState(cfg, hclog.NewNullLogger(), ts)
	w.st.TriggerSyncChanges = func() { w.triggers++ }
	if err := w.st.LoadMetadata(nodeMeta(1)); err != nil {
		panic(err)
	}
	w.d = &delegate{store: state.NewStateStore(nil), faults: faults, strErr: h.StrErr}
	w.st.Delegate = w.d
	return w
}

type snapshot struct {
	node bool
	svcs map[int]local.VerifSvc
	chks map[int]local.VerifChk
}

func (w *world) snap() snapshot {
	n, ss, cs := w.st.VerifDump()
	s := snapshot{node: n, svcs: map[int]local.VerifSvc{}, chks: map[int]local.VerifChk{}}
	for _, e := range ss {
		if e.Service != nil {
			c := *e.Service
			e.Service = &c
		}
		s.svcs[rev(svcIDs, e.ID.ID)] = e
	}
	for _, e := range cs {
		if e.Check != nil {
			e.Check = e.Check.Clone()
		}
		s.chks[rev(chkIDs, string(e.ID.ID))] = e
	}
	return s
}

type catalog struct {
	node *structs.Node
	svcs map[int]*structs.NodeService
	chks map[int]*structs.HealthCheck
}

func (w *world) cat() catalog {
	c := catalog{svcs: map[int]*structs.NodeService{}, chks: map[int]*structs.HealthCheck{}}
	em := structs.WildcardEnterpriseMetaInDefaultPartition()
	_, l, err := w.d.store.NodeServiceList(nil, nodeName, em, "")
	if err != nil {
		panic(err)
	}
	if l != nil {
		c.node = l.Node
		for _, s := range l.Services {
			c.svcs[rev(svcIDs, s.ID)] = s
		}
	}
	_, hcs, err := w.d.store.NodeChecks(nil, nodeName, em, "")
	if err != nil {
		panic(err)
	}
	for _, hc := range hcs {
		c.chks[rev(chkIDs, string(hc.CheckID))] = hc
	}
	return c
}

func b2i(b bool) int {
	if b {
		return 1
	}
	return 0
}

func sortedKeys[V any](m map[int]V) []int {
	ks := make([]int, 0, len(m))
	for k := range m {
		ks = append(ks, k)
	}
	sort.Ints(ks)
	return ks
}

func taRow(m MSvc) []int {
	r := []int{b2i(m.TaNil), len(m.TaU)}
	for _, kv := range m.TaU {
		r = append(r, kv[0], kv[1])
	}
	r = append(r, len(m.TaR))
	for _, kv := range m.TaR {
		r = append(r, kv[0], kv[1])
	}
	return r
}

// rows: the canonical observation of one step (see Run/C16.v encode_*)
func rows(res int, log []event, s snapshot, c catalog) [][]int {
	out := [][]int{{0, res}}
	for _, e := range log {
		r := []int{1, e.kind, e.id, e.tok, b2i(e.skip), b2i(e.withsvc), e.outcome, len(e.pig)}
		out = append(out, append(r, e.pig...))
	}
	out = append(out, []int{2, b2i(s.node)})
	for _, id := range sortedKeys(s.svcs) {
		e := s.svcs[id]
		r := []int{3, id, tokCode(e.Token), b2i(e.InSync), b2i(e.Deleted), b2i(e.IsLocal), b2i(e.Service != nil)}
		if e.Service != nil {
			m := encSvc(e.Service)
			r = append(r, m.Name, m.Tags, b2i(m.Eto), m.Rest)
			r = append(r, taRow(m)...)
		}
		out = append(out, r)
	}
	for _, id := range sortedKeys(s.chks) {
		e := s.chks[id]
		r := []int{4, id, tokCode(e.Token), b2i(e.InSync), b2i(e.Deleted), b2i(e.IsLocal), b2i(e.Defer), b2i(e.Check != nil)}
		if e.Check != nil {
			m := encChk(e.Check)
			r = append(r, m.Sid, m.Status, m.Out, m.Rest, m.Sname, m.Stags, m.Aux)
		}
		out = append(out, r)
	}
	if c.node == nil {
		out = append(out, []int{5, 0, 0})
	} else {
		ni := 0
		fmt.Sscan(c.node.Meta["k"], &ni)
		out = append(out, []int{5, 1, ni})
	}
	for _, id := range sortedKeys(c.svcs) {
		m := encSvc(c.svcs[id])
		r := []int{6, id, m.Name, m.Tags, b2i(m.Eto), m.Rest}
		out = append(out, append(r, taRow(m)...))
	}
	for _, id := range sortedKeys(c.chks) {
		m := encChk(c.chks[id])
		out = append(out, []int{7, id, m.Sid, m.Status, m.Out, m.Rest, m.Sname, m.Stags, m.Aux})
	}
	return out
}

func guard(f func() error) (res int, pmsg string) {
	defer func() {
		if r := recover(); r != nil {
			res, pmsg = 2, fmt.Sprint(r)
		}
	}()
	if err := f(); err != nil {
		return 1, ""
	}
	return 0, ""
}

func svcID(id int) structs.ServiceID { return structs.NewServiceID(svcIDs[id], nil) }
func chkID(id int) structs.CheckID {
	return structs.NewCheckID(types.CheckID(chkIDs[id]), nil)
}

// visiting order of a sync step, read off the RPC log: the targets of service-level calls in
// call order, then every other id of the universe (entries that caused no call)
func order(log []event, kinds [2]int, universe map[int]string) []int {
	var o []int
	seen := map[int]bool{}
	for _, e := range log {
		if (e.kind == kinds[0] || e.kind == kinds[1]) && !seen[e.id] {
			seen[e.id] = true
			o = append(o, e.id)
		}
	}
	for _, id := range sortedKeys(universe) {
		if !seen[id] {
			o = append(o, id)
		}
	}
	return o
}

type result struct {
	hist  History // with Os/Oc filled in
	obs   [][][]int
	calls int
	// call positions (global RPC indexes) made by each sync step of the run
	syncCalls [][]int
	oracle    string
	fails     []Fail // the first objection of every kind
	inj       bool   // some fault was injected
}

func sigKey(sig map[string]interface{}) string {
	m := map[string]interface{}{}
	for k, v := range sig {
		if k != "msg" && k != "shrunk" {
			m[k] = v
		}
	}
	b, _ := json.Marshal(m)
	return string(b)
}

// object records an objection; one per distinct full signature per run
func (r *result) object(what string, sig map[string]interface{}) {
	for _, f := range r.fails {
		if sigKey(f.Sig) == sigKey(sig) {
			return
		}
	}
	if r.oracle == "" {
		r.oracle = what
	}
	r.fails = append(r.fails, Fail{what, sig})
}

func (r *result) has(key string) *Fail {
	for i := range r.fails {
		if sigKey(r.fails[i].Sig) == key {
			return &r.fails[i]
		}
	}
	return nil
}

func run(h History, faults []int) result {
	w := newWorld(h, faults)
	res := result{hist: History{User: h.User, Agent: h.Agent, Cfg: h.Cfg, StrErr: h.StrErr, WF: h.WF, Defer: h.Defer}}
	orc := newOracle(h.WF)
	for si, st0 := range h.Steps {
		st := st0
		st.Os, st.Oc = nil, nil
		if st.Svc != nil { // a definition with addresses has a non-nil map
			d := *st.Svc
			if len(d.TaU)+len(d.TaR) > 0 {
				d.TaNil = false
			}
			st.Svc = &d
		}
		pre, preCat := w.snap(), w.cat()
		logStart := len(w.d.log)
		posStart := w.d.pos
		var rc int
		var pmsg string
		switch st.Op {
		case "addsvc":
			var cks []*structs.HealthCheck
			for _, c := range st.Chks {
				cks = append(cks, buildChk(c.ID, c.Def))
			}
			rc, pmsg = guard(func() error {
				return w.st.AddServiceWithChecks(buildSvc(st.ID, *st.Svc), cks, tokens[st.Tok], st.Loc)
			})
		case "rmsvc": // as agent.removeServiceLocked does: the service together with its (live) checks
			rc, pmsg = guard(func() error {
				var ids []structs.CheckID
				for id, c := range w.st.AllChecks() {
					if c.ServiceID == svcIDs[st.ID] {
						ids = append(ids, id)
					}
				}
				return w.st.RemoveServiceWithChecks(svcID(st.ID), ids)
			})
		case "rmsvcraw":
			rc, pmsg = guard(func() error {
				var ids []structs.CheckID
				for _, c := range st.Cids {
					ids = append(ids, chkID(c))
				}
				return w.st.RemoveServiceWithChecks(svcID(st.ID), ids)
			})
		case "addchk":
			rc, pmsg = guard(func() error {
				hc := buildChk(st.ID, *st.Chk)
				if h.WF && hc.ServiceID != "" && w.st.Service(hc.CompoundServiceID()) == nil {
					// agent.addCheckLocked: "ServiceID %q does not exist" (absent or marked deleted)
					return fmt.Errorf("ServiceID %q does not exist", hc.ServiceID)
				}
				return w.st.AddCheck(hc, tokens[st.Tok], st.Loc)
			})
		case "rmchk":
			rc, pmsg = guard(func() error { return w.st.RemoveCheck(chkID(st.ID)) })
		case "updchk":
			rc, pmsg = guard(func() error {
				out := ""
				if st.Out != 0 {
					out = fmt.Sprintf("out%d", st.Out)
				}
				w.st.UpdateCheck(chkID(st.ID), statuses[st.Status], out)
				return nil
			})
		case "timer": // the deferred-output timer of the check fires (no-op when none is pending)
			rc, pmsg = guard(func() error { w.st.VerifFireDefer(chkID(st.ID)); return nil })
		case "uss":
			rc, pmsg = guard(func() error { return w.st.VerifUpdateSyncState() })
		case "syncchanges":
			rc, pmsg = guard(func() error { return w.st.SyncChanges() })
		case "syncfull":
			rc, pmsg = guard(func() error { return w.st.SyncFull() })
		case "dreg":
			rc, pmsg = guard(func() error {
				req := &structs.RegisterRequest{Datacenter: "dc1", ID: types.NodeID(nodeID), Node: nodeName, Address: nodeAddr,
					TaggedAddresses: map[string]string{"lan": nodeAddr}, NodeMeta: nodeMeta(st.Ni), SkipNodeUpdate: st.Skip}
				if st.Svc != nil {
					req.Service = buildSvc(st.ID, *st.Svc)
				}
				for _, c := range st.Chks {
					req.Checks = append(req.Checks, buildChk(c.ID, c.Def))
				}
				w.d.raft++
				return w.d.store.EnsureRegistration(w.d.raft, req)
			})
		case "ddelsvc":
			rc, pmsg = guard(func() error {
				w.d.raft++
				return w.d.store.DeleteService(w.d.raft, nodeName, svcIDs[st.ID], nil, "")
			})
		case "ddelchk":
			rc, pmsg = guard(func() error {
				w.d.raft++
				return w.d.store.DeleteCheck(w.d.raft, nodeName, types.CheckID(chkIDs[st.ID]), nil, "")
			})
		case "ddelnode":
			rc, pmsg = guard(func() error {
				w.d.raft++
				return w.d.store.DeleteNode(w.d.raft, nodeName, nil, "")
			})
		default:
			panic("unknown op " + st.Op)
		}
		log := w.d.log[logStart:]
		if st.Op == "syncchanges" || st.Op == "syncfull" {
			var ps []int
			for p := posStart; p < w.d.pos; p++ {
				ps = append(ps, p)
			}
			res.syncCalls = append(res.syncCalls, ps)
			st.Os = order(log, [2]int{kSyncSvc, kDelSvc}, svcIDs)
			st.Oc = order(log, [2]int{kSyncChk, kDelChk}, chkIDs)
		}
		post, postCat := w.snap(), w.cat()
		res.hist.Steps = append(res.hist.Steps, st)
		res.obs = append(res.obs, rows(rc, log, post, postCat))
		for _, e := range log {
			if e.injected != oOK {
				res.inj = true
			}
		}
		if rc == 2 {
			res.object("panic:"+st.Op, map[string]interface{}{"kind": "panic", "op": st.Op, "over_placeholder": overPlaceholder(st, pre), "msg": pmsg})
		} else if w.d.bad != "" {
			res.object("bad-request:"+w.d.bad, map[string]interface{}{"kind": "bad-request", "what": w.d.bad})
			w.d.bad = ""
		} else {
			for _, ob := range orc.step(si, st, rc, log, pre, post, preCat, postCat) {
				res.object(ob.what, ob.sig)
			}
		}
	}
	res.calls = w.d.pos
	return res
}

func overPlaceholder(st Step, pre snapshot) bool {
	switch st.Op {
	case "addsvc":
		if e, ok := pre.svcs[st.ID]; ok && e.Service == nil {
			return true
		}
		for _, c := range st.Chks {
			if e, ok := pre.chks[c.ID]; ok && e.Check == nil {
				return true
			}
		}
	case "addchk":
		if e, ok := pre.chks[st.ID]; ok && e.Check == nil {
			return true
		}
	}
	return false
}

// ------------------------------------------------------------------ the direct oracle
//
// States C16 on the implementation's own objects (structs.NodeService.IsSame etc.), without
// the model and without the numeric encoding.

type oracle struct {
	wf bool // agent-style history: claims about checks apply
	// trace-level bookkeeping: entries whose "in sync" flag has an excuse since the last good diff
	refusedS, refusedC map[int]bool // registration refused by ACLs
	driftS, driftC     map[int]bool // the catalog row was changed behind the agent's back
}

func newOracle(wf bool) *oracle {
	return &oracle{wf: wf, refusedS: map[int]bool{}, refusedC: map[int]bool{}, driftS: map[int]bool{}, driftC: map[int]bool{}}
}

// objection of the oracle: a verdict string and its structured signature
type objection struct {
	what string
	sig  map[string]interface{}
}

// diffFields lists the top-level fields in which two structs of the same type differ
// (reflect.DeepEqual per field), so that "holds" does not depend on the implementation's IsSame.
func diffFields(a, b interface{}) []string {
	va, vb := reflect.ValueOf(a), reflect.ValueOf(b)
	var out []string
	for i := 0; i < va.NumField(); i++ {
		if !reflect.DeepEqual(va.Field(i).Interface(), vb.Field(i).Interface()) {
			out = append(out, va.Type().Field(i).Name)
		}
	}
	sort.Strings(out)
	return out
}

// svcDiff: fields in which the catalog's row differs from the definition; nil when the row is absent.
// Nothing of a service row is server-owned here except the Raft indexes.
func svcDiff(c catalog, id int, def *structs.NodeService) (absent bool, d []string) {
	r := c.svcs[id]
	if r == nil || def == nil {
		return true, nil
	}
	a, b := *def, *r
	a.RaftIndex, b.RaftIndex = structs.RaftIndex{}, structs.RaftIndex{}
	a.LocallyRegisteredAsSidecar, b.LocallyRegisteredAsSidecar = false, false
	return false, diffFields(a, b)
}

func holdsSvc(c catalog, id int, def *structs.NodeService) bool {
	absent, d := svcDiff(c, id, def)
	return !absent && len(d) == 0
}

// server-owned parts of a service: tags under EnableTagOverride, reserved tagged addresses
func holdsSvcModOwned(c catalog, id int, def *structs.NodeService) bool {
	r := c.svcs[id]
	if r == nil || def == nil {
		return false
	}
	return len(svcOwnDiff(def, r)) == 0
}

func svcOwnDiff(x, y *structs.NodeService) []string {
	a, b := *x, *y
	a.RaftIndex, b.RaftIndex = structs.RaftIndex{}, structs.RaftIndex{}
	a.LocallyRegisteredAsSidecar, b.LocallyRegisteredAsSidecar = false, false
	if a.EnableTagOverride {
		a.Tags, b.Tags = nil, nil
	}
	strip := func(m map[string]structs.ServiceAddress) map[string]structs.ServiceAddress {
		o := map[string]structs.ServiceAddress{}
		for k, v := range m {
			if !strings.HasPrefix(k, structs.MetaKeyReservedPrefix) {
				o[k] = v
			}
		}
		return o
	}
	a.TaggedAddresses, b.TaggedAddresses = strip(a.TaggedAddresses), strip(b.TaggedAddresses)
	return diffFields(a, b)
}

// chkDiff: server-owned parts of a check row are ServiceName / ServiceTags (copied from the
// catalog's service row), the default of an empty Status, and the Raft indexes
func chkDiff(c catalog, id int, def *structs.HealthCheck) (absent bool, d []string) {
	r := c.chks[id]
	if r == nil || def == nil {
		return true, nil
	}
	a, b := *def, *r
	a.RaftIndex, b.RaftIndex = structs.RaftIndex{}, structs.RaftIndex{}
	a.ServiceName, a.ServiceTags = b.ServiceName, b.ServiceTags
	if a.Status == "" {
		a.Status = "critical"
	}
	return false, diffFields(a, b)
}

func holdsChk(c catalog, id int, def *structs.HealthCheck) bool {
	absent, d := chkDiff(c, id, def)
	return !absent && len(d) == 0
}

// cause classifies a difference field by field: Output is explained only by a pending
// deferred-output timer (UpdateCheck with CheckUpdateInterval > 0), Type/Interval/Timeout/ExposedPort
// by HealthCheck.IsSame not comparing them. A cause is reported only when EVERY differing field is
// explained; the conjunction of the two recorded findings is its own cause.
func cause(absent bool, d []string, deferPending bool) string {
	if absent || len(d) == 0 {
		return ""
	}
	out, aux := false, false
	for _, f := range d {
		switch f {
		case "Output":
			if !deferPending {
				return ""
			}
			out = true
		case "Type", "Interval", "Timeout", "ExposedPort":
			aux = true
		default:
			return ""
		}
	}
	switch {
	case out && aux:
		return "deferred-output+isame-ignored-fields"
	case out:
		return "deferred-output"
	default:
		return "isame-ignored-fields"
	}
}

func diffSig(absent bool, d []string) interface{} {
	if absent {
		return "absent"
	}
	return strings.Join(d, ",")
}

func refused(log []event, svc bool, id int) bool {
	for _, e := range log {
		if e.outcome != oDenied && e.outcome != oNotFound {
			continue
		}
		cov := e.coversC
		if svc {
			cov = e.coversS
		}
		for _, x := range cov {
			if x == id {
				return true
			}
		}
	}
	return false
}

func covered(log []event, svc bool, id int) bool {
	for _, e := range log {
		cov := e.coversC
		if svc {
			cov = e.coversS
		}
		for _, x := range cov {
			if x == id {
				return true
			}
		}
	}
	return false
}

func (o *oracle) step(si int, st Step, rc int, log []event, pre, post snapshot, preCat, postCat catalog) []objection {
	var objs []objection
	add := func(what, kind string, kv ...interface{}) {
		m := map[string]interface{}{"kind": kind, "op": st.Op}
		for i := 0; i+1 < len(kv); i += 2 {
			m[kv[i].(string)] = kv[i+1]
		}
		objs = append(objs, objection{what, m})
	}
	defer func() {}()
	switch st.Op {
	case "dreg", "ddelsvc", "ddelchk", "ddelnode":
		// remember which rows changed behind the agent's back (an excuse for the trace-level clause)
		for id := range svcIDs {
			if !reflect.DeepEqual(preCat.svcs[id], postCat.svcs[id]) {
				o.driftS[id] = true
			}
		}
		for id := range chkIDs {
			if !reflect.DeepEqual(preCat.chks[id], postCat.chks[id]) {
				o.driftC[id] = true
			}
		}
	case "addsvc", "addchk":
		// (5) a local change never turns an entry that was not in sync into one that is, and an
		// entry whose definition changed does not stay in sync unless the catalog holds the new one
		for _, id := range sortedKeys(post.svcs) {
			e := post.svcs[id]
			p, had := pre.svcs[id]
			if !e.InSync || e.Deleted || e.Service == nil {
				continue
			}
			absent, d := svcDiff(postCat, id, e.Service)
			if !absent && len(d) == 0 {
				continue
			}
			wasIn := had && p.InSync && !p.Deleted
			if !wasIn {
				add(fmt.Sprintf("local-op-marks-insync:svc:%d", id), "local-op-marks-insync", "entry", "svc",
					"over_deleted", had && p.Deleted, "over_unsynced", had && !p.InSync,
					"same_definition", had && p.Service != nil && len(svcOwnDiff(e.Service, p.Service)) == 0 && reflect.DeepEqual(e.Service.Tags, p.Service.Tags))
			} else if p.Service != nil && !reflect.DeepEqual(*p.Service, *e.Service) {
				add(fmt.Sprintf("local-change-stays-insync:svc:%d", id), "local-change-stays-insync", "entry", "svc", "differs", diffSig(absent, d))
			}
		}
		for _, id := range sortedKeys(post.chks) {
			e := post.chks[id]
			p, had := pre.chks[id]
			if !e.InSync || e.Deleted || e.Check == nil {
				continue
			}
			absent, d := chkDiff(postCat, id, e.Check)
			if !absent && len(d) == 0 {
				continue
			}
			wasIn := had && p.InSync && !p.Deleted
			if !wasIn {
				add(fmt.Sprintf("local-op-marks-insync:chk:%d", id), "local-op-marks-insync", "entry", "chk",
					"over_deleted", had && p.Deleted, "over_unsynced", had && !p.InSync,
					"same_definition", had && p.Check != nil && reflect.DeepEqual(*e.Check, *p.Check))
			} else if p.Check != nil && !reflect.DeepEqual(*p.Check, *e.Check) {
				changed := diffFields(*p.Check, *e.Check)
				add(fmt.Sprintf("local-change-stays-insync:chk:%d", id), "local-change-stays-insync", "entry", "chk",
					"changed", strings.Join(changed, ","), "cause", cause(false, changed, e.Defer))
			}
		}
	case "rmsvc", "rmsvcraw", "rmchk", "updchk", "timer":
		for _, id := range sortedKeys(post.svcs) {
			if p, had := pre.svcs[id]; post.svcs[id].InSync && !(had && p.InSync) {
				add(fmt.Sprintf("local-op-marks-insync:svc:%d", id), "local-op-marks-insync", "entry", "svc")
			}
		}
		for _, id := range sortedKeys(post.chks) {
			e := post.chks[id]
			p, had := pre.chks[id]
			if e.InSync && !(had && p.InSync) {
				add(fmt.Sprintf("local-op-marks-insync:chk:%d", id), "local-op-marks-insync", "entry", "chk")
			} else if e.InSync && !e.Deleted && e.Check != nil && had && p.Check != nil && !reflect.DeepEqual(*p.Check, *e.Check) {
				absent, d := chkDiff(postCat, id, e.Check)
				if absent || len(d) > 0 {
					changed := diffFields(*p.Check, *e.Check)
					add(fmt.Sprintf("local-change-stays-insync:chk:%d", id), "local-change-stays-insync", "entry", "chk",
						"changed", strings.Join(changed, ","), "cause", cause(false, changed, e.Defer))
				}
			}
		}
	default:
		objs = append(objs, o.syncStep(st, rc, log, pre, post, preCat, postCat)...)
	}

	// (7) trace level, after EVERY step: a live entry marked in sync is held by the catalog, or its
	// registration was refused since the last good diff, or its row was changed behind the agent's
	// back since then
	for _, e := range log {
		if e.outcome == oDenied || e.outcome == oNotFound {
			for _, x := range e.coversS {
				o.refusedS[x] = true
			}
			for _, x := range e.coversC {
				o.refusedC[x] = true
			}
		}
	}
	for _, id := range sortedKeys(post.svcs) {
		e := post.svcs[id]
		if !e.InSync || e.Deleted || e.Service == nil || o.refusedS[id] || o.driftS[id] {
			continue
		}
		if absent, d := svcDiff(postCat, id, e.Service); absent || len(d) > 0 {
			add(fmt.Sprintf("trace-false-insync:svc:%d", id), "trace-false-insync", "entry", "svc", "differs", diffSig(absent, d))
		}
	}
	if o.wf {
		for _, id := range sortedKeys(post.chks) {
			e := post.chks[id]
			if !e.InSync || e.Deleted || e.Check == nil || o.refusedC[id] || o.driftC[id] {
				continue
			}
			if absent, d := chkDiff(postCat, id, e.Check); absent || len(d) > 0 {
				add(fmt.Sprintf("trace-false-insync:chk:%d", id), "trace-false-insync", "entry", "chk",
					"differs", diffSig(absent, d), "cause", cause(absent, d, e.Defer))
			}
		}
	}
	return objs
}

func (o *oracle) syncStep(st Step, rc int, log []event, pre, post snapshot, preCat, postCat catalog) []objection {
	var objs []objection
	add := func(what, kind string, kv ...interface{}) {
		m := map[string]interface{}{"kind": kind, "op": st.Op}
		for i := 0; i+1 < len(kv); i += 2 {
			m[kv[i].(string)] = kv[i+1]
		}
		objs = append(objs, objection{what, m})
	}
	// ---- sync steps: uss, syncchanges, syncfull
	readsOK := len(log) >= 2 && log[0].kind == kListSvcs && log[0].outcome == oOK && log[1].kind == kListChks && log[1].outcome == oOK
	recomputed := (st.Op == "syncfull" || st.Op == "uss") && readsOK
	if recomputed { // every flag was recomputed from the catalog: earlier excuses are void
		o.refusedS, o.refusedC, o.driftS, o.driftC = map[int]bool{}, map[int]bool{}, map[int]bool{}, map[int]bool{}
	}
	injected := false
	nodeFailed := false
	for _, e := range log {
		if e.injected != oOK {
			injected = true
		}
		if e.kind == kNodeInfo && e.outcome == oFail {
			nodeFailed = true
		}
	}

	// (0) a sync never rewrites or drops a local registration (up to the server-owned fields it adopts)
	for _, id := range sortedKeys(pre.svcs) {
		p := pre.svcs[id]
		if p.Deleted || p.Service == nil {
			continue
		}
		e, ok := post.svcs[id]
		if !ok || e.Deleted || e.Service == nil {
			add(fmt.Sprintf("sync-lost-local-entry:svc:%d", id), "sync-lost-local-entry", "entry", "svc")
		} else if d := svcOwnDiff(p.Service, e.Service); len(d) > 0 {
			add(fmt.Sprintf("sync-changed-local-def:svc:%d", id), "sync-changed-local-def", "entry", "svc", "differs", strings.Join(d, ","))
		}
	}
	for _, id := range sortedKeys(pre.chks) {
		p := pre.chks[id]
		if p.Deleted || p.Check == nil {
			continue
		}
		e, ok := post.chks[id]
		if !ok || e.Deleted || e.Check == nil {
			add(fmt.Sprintf("sync-lost-local-entry:chk:%d", id), "sync-lost-local-entry", "entry", "chk")
		} else if !reflect.DeepEqual(*p.Check, *e.Check) {
			add(fmt.Sprintf("sync-changed-local-def:chk:%d", id), "sync-changed-local-def", "entry", "chk", "differs", strings.Join(diffFields(*p.Check, *e.Check), ","))
		}
	}

	// (1) no false in-sync mark
	for _, id := range sortedKeys(post.svcs) {
		e := post.svcs[id]
		if !e.InSync || e.Deleted || e.Service == nil {
			continue
		}
		absent, d := svcDiff(postCat, id, e.Service)
		if (!absent && len(d) == 0) || refused(log, true, id) {
			continue
		}
		if p, had := pre.svcs[id]; !recomputed && had && p.InSync && !p.Deleted && p.Service != nil && reflect.DeepEqual(*p.Service, *e.Service) {
			continue // not marked by this step
		}
		add(fmt.Sprintf("false-insync:svc:%d", id), "false-insync", "entry", "svc", "differs", diffSig(absent, d))
	}
	if o.wf {
		for _, id := range sortedKeys(post.chks) {
			e := post.chks[id]
			if !e.InSync || e.Deleted || e.Check == nil {
				continue
			}
			absent, d := chkDiff(postCat, id, e.Check)
			if (!absent && len(d) == 0) || refused(log, false, id) {
				continue
			}
			if p, had := pre.chks[id]; !recomputed && had && p.InSync && !p.Deleted && p.Check != nil && reflect.DeepEqual(*p.Check, *e.Check) {
				continue
			}
			add(fmt.Sprintf("false-insync:chk:%d", id), "false-insync", "entry", "chk", "differs", diffSig(absent, d), "cause", cause(absent, d, e.Defer))
		}
	}

	// (2) deletions are remembered until the catalog no longer holds the entry
	for _, id := range sortedKeys(pre.svcs) {
		if !pre.svcs[id].Deleted {
			continue
		}
		if e, ok := post.svcs[id]; ok && e.Deleted {
			continue
		}
		if postCat.svcs[id] != nil {
			add(fmt.Sprintf("delete-forgotten:svc:%d", id), "delete-forgotten", "entry", "svc")
		}
	}
	for _, id := range sortedKeys(pre.chks) {
		p := pre.chks[id]
		if !p.Deleted {
			continue
		}
		if e, ok := post.chks[id]; ok && e.Deleted {
			continue
		}
		if r := postCat.chks[id]; r != nil {
			// who dropped the mark: deleteService's prune (a successful / "unknown" service
			// deregistration of the service the check was bound to LOCALLY, and no call for the check itself)?
			prunedBySvc := false
			if p.Check != nil && p.Check.ServiceID != "" {
				sid := rev(svcIDs, p.Check.ServiceID)
				for _, ev := range log {
					if ev.kind == kDelSvc && ev.id == sid && (ev.outcome == oOK || ev.outcome == oUnknown) {
						prunedBySvc = true
					}
				}
			}
			for _, ev := range log {
				if ev.kind == kDelChk && ev.id == id {
					prunedBySvc = false
				}
			}
			add(fmt.Sprintf("delete-forgotten:chk:%d", id), "delete-forgotten", "entry", "chk", "placeholder", p.Check == nil,
				"catalog_binding_same", p.Check != nil && p.Check.ServiceID == r.ServiceID, "pruned_by_service_dereg", prunedBySvc)
		}
	}

	// (3) entries the catalog does not hold are pushed again by a full sync whose reads succeed,
	// and every visited Deleted entry is deregistered again (or dropped) by any SyncChanges
	if st.Op == "syncfull" && readsOK && !nodeFailed && o.wf {
		for _, id := range sortedKeys(pre.svcs) {
			p := pre.svcs[id]
			if p.Deleted || p.Service == nil || holdsSvcModOwned(preCat, id, p.Service) {
				continue
			}
			if !covered(log, true, id) {
				add(fmt.Sprintf("not-retried:svc:%d", id), "not-retried", "entry", "svc")
			}
		}
		for _, id := range sortedKeys(pre.chks) {
			p := pre.chks[id]
			if p.Deleted || p.Check == nil {
				continue
			}
			absent, d := chkDiff(preCat, id, p.Check)
			if !absent && len(d) == 0 {
				continue
			}
			if !covered(log, false, id) {
				add(fmt.Sprintf("not-retried:chk:%d", id), "not-retried", "entry", "chk", "differs", diffSig(absent, d), "cause", cause(absent, d, p.Defer))
			}
		}
	}
	if (st.Op == "syncfull" && readsOK || st.Op == "syncchanges") && !nodeFailed {
		delCalled := func(kind, id int) bool {
			for _, ev := range log {
				if ev.kind == kind && ev.id == id {
					return true
				}
			}
			return false
		}
		for _, id := range sortedKeys(pre.svcs) {
			if e, ok := post.svcs[id]; pre.svcs[id].Deleted && ok && e.Deleted && !delCalled(kDelSvc, id) {
				add(fmt.Sprintf("delete-not-retried:svc:%d", id), "delete-not-retried", "entry", "svc")
			}
		}
		for _, id := range sortedKeys(pre.chks) {
			if e, ok := post.chks[id]; pre.chks[id].Deleted && ok && e.Deleted && !delCalled(kDelChk, id) {
				add(fmt.Sprintf("delete-not-retried:chk:%d", id), "delete-not-retried", "entry", "chk")
			}
		}
	}

	// (4) convergence: a full sync without any fault, on an agent-style history. Every problem is
	// its own objection (nothing is overwritten).
	if st.Op == "syncfull" && !injected && o.wf {
		if rc != 0 {
			add("sync-error-without-fault", "sync-error-without-fault")
		}
		nc := func(problem, what string, kv ...interface{}) {
			add("not-converged:"+what, "not-converged", append([]interface{}{"problem", problem}, kv...)...)
		}
		for _, id := range sortedKeys(post.svcs) {
			e := post.svcs[id]
			if e.Deleted {
				nc("svc-still-deleted", fmt.Sprintf("svc %d still marked deleted", id))
			} else if absent, d := svcDiff(postCat, id, e.Service); absent || len(d) > 0 {
				nc("svc-not-held", fmt.Sprintf("svc %d not held", id), "differs", diffSig(absent, d))
			} else if !e.InSync {
				nc("svc-not-insync", fmt.Sprintf("svc %d held but not marked in sync", id))
			}
		}
		for _, id := range sortedKeys(postCat.svcs) {
			if _, ok := post.svcs[id]; !ok && id != consulID {
				nc("foreign-svc-left", fmt.Sprintf("foreign svc %d left", id))
			}
		}
		for _, id := range sortedKeys(post.chks) {
			e := post.chks[id]
			if e.Deleted {
				nc("chk-still-deleted", fmt.Sprintf("chk %d still marked deleted", id))
			} else if absent, d := chkDiff(postCat, id, e.Check); absent || len(d) > 0 {
				nc("chk-not-held", fmt.Sprintf("chk %d not held", id), "differs", diffSig(absent, d), "cause", cause(absent, d, e.Defer))
			}
		}
		for _, id := range sortedKeys(postCat.chks) {
			if _, ok := post.chks[id]; !ok && id != consulID {
				// was it a locally removed check that the catalog held under another service?
				p, had := pre.chks[id]
				r := preCat.chks[id]
				nc("stale-chk-left", fmt.Sprintf("foreign chk %d left", id),
					"was_local_deleted", had && p.Deleted && p.Check != nil,
					"bound_elsewhere", had && p.Check != nil && r != nil && p.Check.ServiceID != r.ServiceID)
			}
		}
		if postCat.node == nil || postCat.node.Meta["k"] != "1" {
			nc("node-info", "node info not pushed")
		}
	}
	return objs
}

// ------------------------------------------------------------------ generators

type gen struct {
	r *rand.Rand
}

func (g *gen) svcDef() MSvc {
	m := MSvc{Name: 1 + g.r.Intn(3), Tags: g.r.Intn(5), Eto: g.r.Intn(4) == 0, Rest: g.r.Intn(3), TaNil: g.r.Intn(10) != 0,
		TaU: [][2]int{}, TaR: [][2]int{}}
	if g.r.Intn(3) == 0 {
		m.TaU = append(m.TaU, [2]int{1, 1 + g.r.Intn(2)})
	}
	if g.r.Intn(6) == 0 {
		m.TaU = append(m.TaU, [2]int{2, 1 + g.r.Intn(2)})
	}
	return m
}

func (g *gen) chkDef(sid int, svc *MSvc) MChk {
	m := MChk{Sid: sid, Status: 1 + g.r.Intn(3), Out: g.r.Intn(3), Rest: g.r.Intn(2)}
	if g.r.Intn(3) == 0 {
		m.Aux = 1 + g.r.Intn(2)
	}
	if svc != nil { // the agent copies the service name and tags into the check
		m.Sname, m.Stags = svc.Name, svc.Tags
	}
	return m
}

func (g *gen) pick(m map[int]bool) int {
	ks := sortedKeys(m)
	return ks[g.r.Intn(len(ks))]
}

// structured, agent-style histories. The generator keeps its own shadow of what is live (it
// does not look at the implementation), so most operations are valid.
func (g *gen) history(nsteps int) History {
	h := History{User: g.r.Intn(2), Agent: 2 * g.r.Intn(2), Cfg: 3 * g.r.Intn(2), StrErr: g.r.Intn(2) == 0, WF: true,
		Defer: g.r.Intn(3) == 0}
	liveS := map[int]MSvc{}
	liveC := map[int]MChk{}
	catS := map[int]MSvc{} // rough shadow of the catalog, only to aim the drift
	catC := map[int]int{}  // check id -> service id
	add := func(s Step) { h.Steps = append(h.Steps, s) }
	svcTok := func() int { return []int{0, 0, 4, 5}[g.r.Intn(4)] }

	// initial catalog content behind the agent's back
	if g.r.Intn(2) == 0 {
		d := MSvc{Name: 4, Rest: 0, TaNil: true, TaU: [][2]int{}, TaR: [][2]int{}}
		add(Step{Op: "dreg", ID: consulID, Svc: &d, Ni: 1 + g.r.Intn(2), Chks: []ChkWithID{{ID: consulID, Def: MChk{Status: 1, Rest: 1}}}})
	}
	for k := g.r.Intn(3); k > 0; k-- {
		id := 1 + g.r.Intn(4)
		d := g.svcDef()
		if g.r.Intn(3) == 0 {
			d.TaR = append(d.TaR, [2]int{11, 1 + g.r.Intn(2)})
		}
		s := Step{Op: "dreg", ID: id, Svc: &d, Ni: 1 + g.r.Intn(2), Skip: g.r.Intn(2) == 0}
		if g.r.Intn(2) == 0 {
			cid := 1 + g.r.Intn(6)
			s.Chks = []ChkWithID{{ID: cid, Def: g.chkDef(id, &d)}}
			catC[cid] = id
		}
		catS[id] = d
		add(s)
	}

	for len(h.Steps) < nsteps {
		switch x := g.r.Intn(100); {
		case x < 22: // add or update a service with checks
			id := 1 + g.r.Intn(4)
			d := g.svcDef()
			if old, ok := liveS[id]; ok && g.r.Intn(3) == 0 {
				d = old // idempotent re-registration
			} else if old, ok := liveS[id]; ok && g.r.Intn(2) == 0 {
				d = old
				d.Tags = g.r.Intn(5)
			}
			tok := svcTok()
			s := Step{Op: "addsvc", ID: id, Svc: &d, Tok: tok, Loc: g.r.Intn(3) == 0}
			for k := g.r.Intn(3); k > 0; k-- {
				cid := 1 + g.r.Intn(6)
				if c, ok := liveC[cid]; ok && c.Sid != id {
					continue
				}
				dup := false
				for _, c := range s.Chks {
					dup = dup || c.ID == cid
				}
				if dup {
					continue
				}
				cd := g.chkDef(id, &d)
				s.Chks = append(s.Chks, ChkWithID{ID: cid, Def: cd})
				liveC[cid] = cd
			}
			liveS[id] = d
			add(s)
		case x < 30: // remove a service with its checks
			if len(liveS) == 0 {
				continue
			}
			m := map[int]bool{}
			for k := range liveS {
				m[k] = true
			}
			id := g.pick(m)
			delete(liveS, id)
			for cid, c := range liveC {
				if c.Sid == id {
					delete(liveC, cid)
				}
			}
			add(Step{Op: "rmsvc", ID: id})
		case x < 40: // add a check (node level or on a live service), possibly with its own token
			cid := 1 + g.r.Intn(6)
			sid := 0
			var sd *MSvc
			if len(liveS) > 0 && g.r.Intn(4) != 0 {
				m := map[int]bool{}
				for k := range liveS {
					m[k] = true
				}
				sid = g.pick(m)
				d := liveS[sid]
				sd = &d
			}
			cd := g.chkDef(sid, sd)
			if old, ok := liveC[cid]; ok && g.r.Intn(3) == 0 {
				cd = old
				if g.r.Intn(2) == 0 { // re-registration that changes only Type/Interval/Timeout/ExposedPort
					cd.Aux = (old.Aux + 1) % 3
				}
			}
			liveC[cid] = cd
			add(Step{Op: "addchk", ID: cid, Chk: &cd, Tok: svcTok(), Loc: g.r.Intn(3) == 0})
		case x < 45:
			if len(liveC) == 0 {
				continue
			}
			m := map[int]bool{}
			for k := range liveC {
				m[k] = true
			}
			cid := g.pick(m)
			delete(liveC, cid)
			add(Step{Op: "rmchk", ID: cid})
		case x < 53:
			if len(liveC) == 0 {
				continue
			}
			m := map[int]bool{}
			for k := range liveC {
				m[k] = true
			}
			cid := g.pick(m)
			c := liveC[cid]
			if g.r.Intn(2) == 0 { // output only (deferred when CheckUpdateInterval > 0)
				c.Out = (c.Out + 1 + g.r.Intn(2)) % 3
			} else {
				c.Status, c.Out = 1+g.r.Intn(3), g.r.Intn(3)
			}
			liveC[cid] = c
			add(Step{Op: "updchk", ID: cid, Status: c.Status, Out: c.Out})
			if h.Defer && g.r.Intn(3) == 0 {
				add(Step{Op: "timer", ID: cid})
			}
		case x < 65:
			add(Step{Op: "syncchanges"})
		case x < 80:
			add(Step{Op: "syncfull"})
			for k, v := range liveS {
				catS[k] = v
			}
			for k, v := range liveC {
				catC[k] = v.Sid
			}
		case x < 82:
			add(Step{Op: "uss"})
		case x < 83:
			add(Step{Op: "timer", ID: 1 + g.r.Intn(6)})
		case x < 90: // drift: alter / add a service behind the agent's back
			id := 1 + g.r.Intn(4)
			d := g.svcDef()
			if old, ok := catS[id]; ok && g.r.Intn(2) == 0 {
				d = old
				switch g.r.Intn(3) {
				case 0:
					d.Tags = g.r.Intn(5)
				case 1:
					d.TaR = [][2]int{{11 + g.r.Intn(2), 1 + g.r.Intn(2)}}
				case 2:
					d.Rest = g.r.Intn(3)
				}
			}
			catS[id] = d
			s := Step{Op: "dreg", ID: id, Svc: &d, Ni: 1 + g.r.Intn(2), Skip: g.r.Intn(3) != 0}
			if g.r.Intn(3) == 0 {
				cid := 1 + g.r.Intn(6)
				s.Chks = []ChkWithID{{ID: cid, Def: g.chkDef(id, &d)}}
				catC[cid] = id
			}
			add(s)
		case x < 93: // drift: a check (re)registered, possibly under another service
			if len(catS) == 0 {
				continue
			}
			m := map[int]bool{}
			for k := range catS {
				m[k] = true
			}
			sid := g.pick(m)
			if g.r.Intn(4) == 0 {
				sid = 0
			}
			cid := 1 + g.r.Intn(6)
			var sd *MSvc
			if sid != 0 {
				d := catS[sid]
				sd = &d
			}
			cd := g.chkDef(sid, sd)
			if old, ok := liveC[cid]; ok && g.r.Intn(2) == 0 {
				if _, there := catS[old.Sid]; there || old.Sid == 0 { // the same check, only Type/Interval/... altered
					cd, sid = old, old.Sid
					cd.Aux = (old.Aux + 1) % 3
				}
			}
			add(Step{Op: "dreg", Ni: 1, Skip: true, Chks: []ChkWithID{{ID: cid, Def: cd}}})
			catC[cid] = sid
		case x < 96:
			id := 1 + g.r.Intn(4)
			delete(catS, id)
			add(Step{Op: "ddelsvc", ID: id})
		case x < 98:
			add(Step{Op: "ddelchk", ID: 1 + g.r.Intn(6)})
		case x < 99:
			add(Step{Op: "ddelnode"})
			catS, catC = map[int]MSvc{}, map[int]int{}
		default: // node info drift
			add(Step{Op: "dreg", Ni: 2, Skip: false})
		}
	}
	if g.r.Intn(10) < 7 {
		add(Step{Op: "syncfull"})
	}
	return h
}

// malformed stream: operations the State API accepts or refuses that the agent layer would
// not issue (a service removed without its checks, checks for absent or deleted services,
// removal of unknown ids, re-adding over deleted entries and placeholders, ...)
func (g *gen) malformed(nsteps int) History {
	h := History{User: g.r.Intn(2), Agent: 2 * g.r.Intn(2), Cfg: 3 * g.r.Intn(2), StrErr: g.r.Intn(2) == 0, WF: false,
		Defer: g.r.Intn(2) == 0}
	for len(h.Steps) < nsteps {
		id, cid := 1+g.r.Intn(3), 1+g.r.Intn(4)
		switch x := g.r.Intn(100); {
		case x < 20:
			d := g.svcDef()
			s := Step{Op: "addsvc", ID: id, Svc: &d, Tok: []int{0, 4}[g.r.Intn(2)], Loc: g.r.Intn(2) == 0}
			if g.r.Intn(2) == 0 {
				sid := id
				if g.r.Intn(4) == 0 {
					sid = 1 + g.r.Intn(3)
				}
				s.Chks = []ChkWithID{{ID: cid, Def: g.chkDef(sid, &d)}}
			}
			h.Steps = append(h.Steps, s)
		case x < 32:
			var cids []int
			for k := g.r.Intn(3); k > 0; k-- {
				cids = append(cids, 1+g.r.Intn(4))
			}
			h.Steps = append(h.Steps, Step{Op: "rmsvcraw", ID: id, Cids: cids})
		case x < 45:
			sid := g.r.Intn(4)
			var sd *MSvc
			if sid != 0 {
				d := g.svcDef()
				sd = &d
			}
			cd := g.chkDef(sid, sd)
			h.Steps = append(h.Steps, Step{Op: "addchk", ID: cid, Chk: &cd, Tok: []int{0, 4, 5}[g.r.Intn(3)], Loc: g.r.Intn(2) == 0})
		case x < 52:
			h.Steps = append(h.Steps, Step{Op: "rmchk", ID: cid})
		case x < 56:
			h.Steps = append(h.Steps, Step{Op: "updchk", ID: cid, Status: g.r.Intn(4), Out: g.r.Intn(3)})
		case x < 58:
			h.Steps = append(h.Steps, Step{Op: "timer", ID: cid})
		case x < 68:
			h.Steps = append(h.Steps, Step{Op: "syncchanges"})
		case x < 78:
			h.Steps = append(h.Steps, Step{Op: "syncfull"})
		case x < 84:
			h.Steps = append(h.Steps, Step{Op: "uss"})
		case x < 92:
			d := g.svcDef()
			if g.r.Intn(3) == 0 {
				d.TaR = [][2]int{{12, 1}}
			}
			s := Step{Op: "dreg", ID: id, Svc: &d, Ni: 1 + g.r.Intn(2), Skip: g.r.Intn(2) == 0}
			if g.r.Intn(2) == 0 {
				s.Chks = []ChkWithID{{ID: cid, Def: g.chkDef(1+g.r.Intn(3), &d)}}
			}
			h.Steps = append(h.Steps, s)
		case x < 95:
			h.Steps = append(h.Steps, Step{Op: "dreg", Ni: 1, Skip: true, Chks: []ChkWithID{{ID: cid, Def: g.chkDef(g.r.Intn(4), nil)}}})
		case x < 97:
			h.Steps = append(h.Steps, Step{Op: "ddelsvc", ID: id})
		case x < 99:
			h.Steps = append(h.Steps, Step{Op: "ddelchk", ID: cid})
		default:
			h.Steps = append(h.Steps, Step{Op: "ddelnode"})
		}
	}
	return h
}

// ------------------------------------------------------------------ shrinking

// remove steps (and faults) while an oracle failure of the same kind remains
func shrink(h History, faults []int, key string) (History, []int, result) {
	sameFailure := func(r result) bool { return r.has(key) != nil }
	best := run(h, faults)
	for changed := true; changed; {
		changed = false
		for i := len(h.Steps) - 1; i >= 0; i-- {
			h2 := h
			h2.Steps = append(append([]Step{}, h.Steps[:i]...), h.Steps[i+1:]...)
			// faults are positional: keep them, move the last one earlier (the removed step may
			// have made calls), or drop them
			cands := [][]int{faults}
			if n := len(faults); n > 0 {
				for k := 1; k <= n-1 && k <= 16; k++ {
					f := append([]int{}, faults[:n-1-k]...)
					cands = append(cands, append(f, faults[n-1]))
				}
			}
			cands = append(cands, nil)
			for _, f2 := range cands {
				r := run(h2, f2)
				if sameFailure(r) {
					h, faults, best, changed = h2, f2, r, true
					break
				}
			}
		}
	}
	// simplify the faults: replace by ok one at a time
	for i := range faults {
		if faults[i] == oOK {
			continue
		}
		f2 := append([]int{}, faults...)
		f2[i] = oOK
		if r := run(h, f2); sameFailure(r) {
			faults, best = f2, r
		}
	}
	return h, faults, best
}

// ------------------------------------------------------------------ main

func main() {
	seed := flag.Int64("seed", 1, "PRNG seed")
	tier := flag.String("tier", "quick", "quick|thorough")
	out := flag.String("out", "", "output file (JSON lines)")
	replay := flag.String("replay", "", "replay file: re-run the history on the implementation")
	flag.Parse()

	if *replay != "" {
		os.Exit(doReplay(*replay))
	}

	f, err := os.Create(*out)
	if err != nil {
		panic(err)
	}
	defer f.Close()
	bw := bufio.NewWriterSize(f, 1<<20)
	defer bw.Flush()
	enc := json.NewEncoder(bw)

	g := &gen{r: rand.New(rand.NewSource(*seed))}
	nHist, nMal, coqFaultStride := 150, 60, 4
	pairs := false
	if *tier == "thorough" {
		nHist, nMal, coqFaultStride = 600, 250, 3
		pairs = true
	}
	id := 0
	shrunkFor := map[string]int{}
	emit := func(kind string, h History, faults []int, toCoq bool) result {
		r := run(h, faults)
		c := Case{ID: id, Kind: kind, Hist: r.hist, Faults: faults, Obs: r.obs, Calls: r.calls, Oracle: r.oracle, Fails: r.fails, ToCoq: toCoq}
		if faults == nil {
			c.Faults = []int{}
		}
		for i, f := range c.Fails {
			// shrink, and carry the shrunk history with the objection; a few times per distinct
			// signature (the check reports one replay per signature)
			key := sigKey(f.Sig)
			if shrunkFor[key] >= 2 {
				continue
			}
			shrunkFor[key]++
			_, fs, rs := shrink(h, faults, key)
			if sf := rs.has(key); sf != nil {
				sig := sf.Sig
				if fs == nil {
					fs = []int{}
				}
				sig["shrunk"] = map[string]interface{}{"hist": rs.hist, "faults": fs, "oracle": sf.What}
				c.Fails[i] = Fail{sf.What, sig}
			}
		}
		if len(c.Fails) > 0 {
			c.ToCoq = true // every run the oracle objects to is also compared with the model
		}
		if err := enc.Encode(&c); err != nil {
			panic(err)
		}
		id++
		return r
	}

	// hand-written corner histories first (they also seed the known findings deterministically)
	for ci, h := range corner() {
		base := emit("corner", h, nil, true)
		if *tier != "thorough" {
			continue
		}
		// exhaustive small scope: EVERY fault sequence over {ok, error, denied, ACL not found} on
		// the first calls of the corner histories (all through the oracle, 1/16 also through Coq)
		n := base.calls
		if n > 6 {
			n = 6
		}
		total := 1
		for i := 0; i < n; i++ {
			total *= 4
		}
		for code := 1; code < total; code++ {
			faults := make([]int, n)
			for i, c := 0, code; i < n; i, c = i+1, c/4 {
				faults[i] = c % 4
			}
			emit("corner/exhaustive", h, faults, (code+ci)%16 == 0)
		}
	}

	for hi := 0; hi < nHist+nMal; hi++ {
		var h History
		kind := "agent"
		if hi < nHist {
			h = g.history(6 + g.r.Intn(9))
		} else {
			h = g.malformed(5 + g.r.Intn(8))
			kind = "malformed"
		}
		base := emit(kind+"/nofault", h, nil, true)
		// single faults at every call position of the fault-free run, each of the three kinds;
		// all go through the oracle, a third of them (rotating kinds) are also evaluated in Coq
		for n := 0; n < base.calls; n++ {
			for k := oFail; k <= oNotFound; k++ {
				faults := make([]int, n+1)
				faults[n] = k
				emit(fmt.Sprintf("%s/fault%d", kind, k), h, faults, (n+k+hi)%coqFaultStride == 0)
			}
		}
		// EVERY fault sequence over {ok, error, denied, ACL not found} on up to n call positions spread
		// over the LAST TWO sync steps of the history (fail in one sync, refusal in the next, ...)
		nMulti, every, coqMulti := 3, 10, 8
		if pairs {
			nMulti, every, coqMulti = 4, 4, 24
		}
		if hi%every == 0 && len(base.syncCalls) > 0 {
			var pos []int
			from := len(base.syncCalls) - 2
			if from < 0 {
				from = 0
			}
			for _, ps := range base.syncCalls[from:] {
				pos = append(pos, ps...)
			}
			if len(pos) > nMulti { // spread the chosen positions over both steps
				sel := make([]int, nMulti)
				for i := range sel {
					sel[i] = pos[i*(len(pos)-1)/(nMulti-1)]
				}
				pos = sel
			}
			total := 1
			for range pos {
				total *= 4
			}
			for code := 1; code < total; code++ {
				nz := 0
				faults := make([]int, pos[len(pos)-1]+1)
				for i, c := 0, code; i < len(pos); i, c = i+1, c/4 {
					faults[pos[i]] = c % 4
					if c%4 != 0 {
						nz++
					}
				}
				if nz < 2 {
					continue // single faults are enumerated above
				}
				emit(kind+"/multi", h, faults, code%coqMulti == 0)
			}
		}
		if pairs && base.calls >= 2 {
			for t := 0; t < 12; t++ {
				a, b := g.r.Intn(base.calls), g.r.Intn(base.calls+2)
				if a == b {
					continue
				}
				faults := make([]int, max(a, b)+1)
				faults[a], faults[b] = oFail+g.r.Intn(3), oFail+g.r.Intn(3)
				emit(kind+"/pair", h, faults, t%4 == 0)
			}
		}
	}
}

// corner cases written by hand: each targets one place where the code flips a flag
func corner() []History {
	web := MSvc{Name: 1, Tags: 1, Rest: 0, TaNil: true, TaU: [][2]int{}, TaR: [][2]int{}}
	webEto := MSvc{Name: 1, Tags: 1, Eto: true, Rest: 0, TaNil: true, TaU: [][2]int{}, TaR: [][2]int{}}
	web2 := MSvc{Name: 1, Tags: 2, Rest: 1, TaU: [][2]int{}, TaR: [][2]int{{11, 1}}}
	db := MSvc{Name: 2, Tags: 0, Rest: 0, TaU: [][2]int{{1, 1}}, TaR: [][2]int{}}
	c1 := MChk{Sid: 1, Status: 1, Out: 0, Rest: 0, Sname: 1, Stags: 1}
	c2 := MChk{Sid: 1, Status: 3, Out: 1, Rest: 1, Sname: 1, Stags: 1}
	c1aux := MChk{Sid: 1, Status: 1, Out: 0, Rest: 0, Sname: 1, Stags: 1, Aux: 1}
	c1out := MChk{Sid: 1, Status: 1, Out: 2, Rest: 0, Sname: 1, Stags: 1}
	nodeChk := MChk{Sid: 0, Status: 1}
	c3db := MChk{Sid: 2, Status: 1, Sname: 2, Stags: 0}
	return []History{
		// plain convergence with a piggy-backed check, a separately-tokened check, a node check
		{User: 1, WF: true, Steps: []Step{
			{Op: "addsvc", ID: 1, Svc: &web, Chks: []ChkWithID{{1, c1}}},
			{Op: "addchk", ID: 2, Chk: &c2, Tok: 4},
			{Op: "addchk", ID: 3, Chk: &nodeChk},
			{Op: "syncfull"}, {Op: "syncfull"}}},
		// drift: foreign service with check, altered service, tag override, reserved address
		{User: 1, Agent: 2, WF: true, Steps: []Step{
			{Op: "dreg", ID: 2, Svc: &db, Ni: 2, Chks: []ChkWithID{{3, c3db}}},
			{Op: "dreg", ID: 1, Svc: &web2, Ni: 2, Skip: true},
			{Op: "addsvc", ID: 1, Svc: &webEto, Chks: []ChkWithID{{1, c1}}},
			{Op: "syncfull"},
			{Op: "updchk", ID: 1, Status: 3, Out: 2},
			{Op: "syncchanges"},
			{Op: "rmsvc", ID: 1},
			{Op: "syncchanges"}, {Op: "syncfull"}}},
		// re-registering an identical definition over an entry that was never pushed
		{User: 1, WF: true, Steps: []Step{
			{Op: "addsvc", ID: 1, Svc: &web},
			{Op: "addsvc", ID: 1, Svc: &web},
			{Op: "syncchanges"}, {Op: "syncfull"}}},
		// a local add over the placeholder of a foreign catalog entry
		{User: 1, WF: true, Steps: []Step{
			{Op: "dreg", ID: 1, Svc: &web, Ni: 1},
			{Op: "uss"},
			{Op: "addsvc", ID: 1, Svc: &web},
			{Op: "syncchanges"}, {Op: "syncfull"}}},
		// a check re-registered with only its Interval/Timeout/Type/ExposedPort changed (IsSame ignores them)
		{User: 1, WF: true, Steps: []Step{
			{Op: "addsvc", ID: 1, Svc: &web, Chks: []ChkWithID{{1, c1}}},
			{Op: "syncfull"},
			{Op: "addchk", ID: 1, Chk: &c1aux},
			{Op: "syncchanges"}, {Op: "syncfull"}}},
		// CheckUpdateInterval > 0: an output-only update is deferred; full syncs in between; then the timer fires
		{User: 1, WF: true, Defer: true, Steps: []Step{
			{Op: "addsvc", ID: 1, Svc: &web, Chks: []ChkWithID{{1, c1}}},
			{Op: "syncfull"},
			{Op: "updchk", ID: 1, Status: 1, Out: 2},
			{Op: "syncchanges"}, {Op: "syncfull"},
			{Op: "addchk", ID: 1, Chk: &c1out},
			{Op: "syncfull"},
			{Op: "updchk", ID: 1, Status: 1, Out: 1},
			{Op: "timer", ID: 1},
			{Op: "syncchanges"}, {Op: "syncfull"}}},
		// a removed check that the catalog holds under ANOTHER service, removed together with its
		// (local) service: the service deregistration prunes the local mark, the catalog keeps the check
		{User: 1, WF: true, Steps: []Step{
			{Op: "addsvc", ID: 1, Svc: &web, Chks: []ChkWithID{{1, c1}}},
			{Op: "addsvc", ID: 2, Svc: &db},
			{Op: "syncfull"},
			{Op: "dreg", Ni: 1, Skip: true, Chks: []ChkWithID{{1, MChk{Sid: 2, Status: 1, Sname: 2}}}},
			{Op: "rmsvc", ID: 1},
			{Op: "syncfull"}, {Op: "syncfull"}}},
	}
}

func doReplay(path string) int {
	raw, err := os.ReadFile(path)
	if err != nil {
		fmt.Println(err)
		return 2
	}
	var top map[string]json.RawMessage
	if err := json.Unmarshal(raw, &top); err != nil {
		fmt.Println(err)
		return 2
	}
	var h History
	var faults []int
	if err := json.Unmarshal(top["hist"], &h); err != nil {
		fmt.Println("replay file has no 'hist':", err)
		return 2
	}
	json.Unmarshal(top["faults"], &faults)
	r := run(h, faults)
	for i, st := range r.hist.Steps {
		b, _ := json.Marshal(st)
		fmt.Printf("step %d %s\n", i, b)
		for _, row := range r.obs[i] {
			fmt.Printf("    %v\n", row)
		}
	}
	for _, f := range r.fails {
		b, _ := json.Marshal(f.Sig)
		fmt.Printf("ORACLE FAILS: %s  %s\n", f.What, b)
	}
	if len(r.fails) > 0 {
		return 1
	}
	fmt.Println("oracle: ok")
	return 0
}
