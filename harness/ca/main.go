// Correspondence harness for property C12 (Connect CA).
//
// Part (a), "worlds": a real consul.CAManager (NewCAManager + Initialize, built-in "consul"
// provider) whose delegate applies every CA command through a real fsm.FSM. Generated CSRs
// (raw URI strings placed in a hand-built SAN extension, so escaped / non-canonical spellings reach
// the code exactly as a client could send them) are parsed by connect.ParseCSR as the
// ConnectCA.Sign endpoint does and handed to CAManager.AuthorizeAndSignCertificate together with
// an authorizer built from a generated ACL policy. Between requests the world rotates the root
// through CAManager.UpdateConfiguration and snapshots/restores the FSM.
//
// Part (b), "histories": generated CA commands (set-roots check-and-set with current / zero /
// stale / future indexes, several or no active roots, duplicate and empty IDs, roots+config,
// config set and check-and-set, provider state, serial increments, snapshot/restore, an invalid
// op) applied through FSM.Apply -> ApplyConnectCAOperationFromRequest on a real state store.
//
// Every case carries the implementation's observations and the verdict of a direct oracle that
// states the property on them without reference to the Coq model.
package main

import (
	"bytes"
	"context"
	"crypto/ecdsa"
	"crypto/elliptic"
	crand "crypto/rand"
	"crypto/x509"
	"crypto/x509/pkix"
	"encoding/asn1"
	"encoding/hex"
	"encoding/json"
	"encoding/pem"
	"errors"
	"flag"
	"fmt"
	"io"
	"math/rand"
	"net"
	"net/url"
	"os"
	"sort"
	"strconv"
	"strings"

	"github.com/hashicorp/go-hclog"
	"github.com/hashicorp/raft"
	"google.golang.org/grpc"

	"github.com/hashicorp/consul/acl"
	"github.com/hashicorp/consul/agent/connect"
	"github.com/hashicorp/consul/agent/consul"
	"github.com/hashicorp/consul/agent/consul/fsm"
	"github.com/hashicorp/consul/agent/consul/state"
	"github.com/hashicorp/consul/agent/structs"
	raftstorage "github.com/hashicorp/consul/internal/storage/raft"
)

// ------------------------------------------------------------------ JSON shapes

type URLj struct {
	Scheme string `json:"scheme"` // hex
	Host   string `json:"host"`   // hex
	Path   string `json:"path"`   // hex
	Raw    string `json:"raw"`    // hex
	Plain  bool   `json:"plain"`  // no userinfo, opaque, query, fragment, omit-host
	Deco   int    `json:"deco"`   // 0 nothing; 1 userinfo / query / fragment; 2 only opaque or omit-host
	Str    string `json:"str"`    // String(), for humans
}

type TabEntry struct {
	Name string `json:"name"` // hex
	Ok   bool   `json:"ok"`
}

type SignExpect struct {
	Ok     bool     `json:"ok"`
	Err    string   `json:"err,omitempty"`
	Msg    string   `json:"msg,omitempty"`
	URIs   []URLj   `json:"uris,omitempty"`
	DNS    []string `json:"dns,omitempty"` // hex
	IPs    []string `json:"ips,omitempty"` // hex of the textual form
	IsCA   bool     `json:"is_ca"`
	Serial uint64   `json:"serial"`
	Verify bool     `json:"verify"`
}

type SignCase struct {
	Type     string     `json:"type"`                  // "sign"
	Entry    string     `json:"entry"`                 // "authorize" (AuthorizeAndSignCertificate) | "autoconf" (parseAutoConfigCSR + node check + SignCertificate)
	Node     string     `json:"node"`                  // hex; autoconf: the node name the JWT authorized
	LeafEqRq bool       `json:"leaf_eq_request"`       // the leaf's URI string is the String() of the URL the CSR parser produced (not re-printed by the CA)
	DecorRq  bool       `json:"decoration_in_request"` // the leaf's query/fragment/userinfo/no-authority form is the request's
	Mech     string     `json:"unreadable_mechanism,omitempty"`
	World    int        `json:"world"`
	N        int        `json:"n"`
	DC       string     `json:"dc"`      // hex
	Cluster  string     `json:"cluster"` // hex
	HasSer   bool       `json:"has_serial"`
	Serial   uint64     `json:"serial"`
	Builtin  uint64     `json:"builtin"`
	RawURIs  []string   `json:"raw_uris"` // as put into the SAN
	CAExt    bool       `json:"ca_ext"`   // CSR asks for basicConstraints CA:TRUE
	CSROk    bool       `json:"csr_ok"`
	URIs     []URLj     `json:"uris"`
	DNS      []string   `json:"dns"`
	IPs      []string   `json:"ips"`
	Emails   int        `json:"emails"`
	SvcTab   []TabEntry `json:"svc_tab"`
	NodeTab  []TabEntry `json:"node_tab"`
	Mesh     bool       `json:"mesh"`
	ACL      bool       `json:"acl"`
	Rules    string     `json:"rules"`
	Shape    string     `json:"shape"` // generator's label
	Expect   SignExpect `json:"expect"`
	Oracle   string     `json:"oracle"`
	OracleSg string     `json:"oracle_kind,omitempty"`
	IDKind   string     `json:"id_kind,omitempty"`
	ToCoq    bool       `json:"to_coq"`
}

type Rootj struct {
	ID     string `json:"id"` // hex
	Active bool   `json:"active"`
	Create uint64 `json:"create"`
	Modify uint64 `json:"modify"`
}

type Configj struct {
	Provider string `json:"provider"` // hex
	Cluster  string `json:"cluster"`  // hex
	Create   uint64 `json:"create"`
	Modify   uint64 `json:"modify"`
	Payload  uint64 `json:"payload"`
}

type PStatej struct {
	ID     string `json:"id"`
	Create uint64 `json:"create"`
	Modify uint64 `json:"modify"`
}

type Dump struct {
	Roots      []Rootj   `json:"roots"`
	RootsIdx   uint64    `json:"roots_idx"`
	Config     *Configj  `json:"config"`
	PStates    []PStatej `json:"pstates"`
	BuiltinIdx uint64    `json:"builtin_idx"`
	HasSerial  bool      `json:"has_serial"`
	Serial     uint64    `json:"serial"`
}

type Opj struct {
	Op     string   `json:"op"` // set_roots | set_roots_config | set_config | set_pstate | del_pstate | incr | snap | invalid
	Cidx   uint64   `json:"cidx,omitempty"`
	Roots  []Rootj  `json:"roots,omitempty"` // id, active only
	Config *Configj `json:"config,omitempty"`
	ID     string   `json:"id,omitempty"` // hex
}

type Outj struct {
	K string `json:"k"` // bool | nil | serial | err
	B bool   `json:"b,omitempty"`
	N uint64 `json:"n,omitempty"`
	E string `json:"e,omitempty"`
}

type Step struct {
	Idx  uint64 `json:"idx"`
	Op   Opj    `json:"op"`
	Out  Outj   `json:"out"`
	Dump Dump   `json:"dump"`
}

type HistCase struct {
	Type     string `json:"type"` // "hist"
	Source   string `json:"source"`
	ID       int    `json:"id"`
	Steps    []Step `json:"steps"`
	Oracle   string `json:"oracle"`
	OracleSg string `json:"oracle_kind,omitempty"`
	ToCoq    bool   `json:"to_coq"`
}

func hx(s string) string { return hex.EncodeToString([]byte(s)) }

// ------------------------------------------------------------------ FSM world

type raftHandle struct {
	apply func(msg []byte) (any, error)
}

func (h *raftHandle) Apply(msg []byte) (any, error)              { return h.apply(msg) }
func (raftHandle) IsLeader() bool                                { return true }
func (raftHandle) EnsureStrongConsistency(context.Context) error { return nil }
func (raftHandle) DialLeader() (*grpc.ClientConn, error)         { return nil, errors.New("no") }

type memSink struct {
	bytes.Buffer
}

func (m *memSink) ID() string    { return "verif" }
func (m *memSink) Cancel() error { return nil }
func (m *memSink) Close() error  { return nil }

type machine struct {
	f      *fsm.FSM
	idx    uint64
	cancel context.CancelFunc
}

func newFSM() (*fsm.FSM, context.CancelFunc) {
	logger := hclog.NewNullLogger()
	handle := &raftHandle{}
	backend, err := raftstorage.NewBackend(handle, logger)
	if err != nil {
		panic(err)
	}
	handle.apply = func(buf []byte) (any, error) { return backend.Apply(buf, 1), nil }
	ctx, cancel := context.WithCancel(context.Background())
	go backend.Run(ctx)
	f := fsm.NewFromDeps(fsm.Deps{
		Logger:         logger,
		NewStateStore:  func() *state.Store { return state.NewStateStore(nil) },
		StorageBackend: backend,
	})
	return f, cancel
}

func newMachine() *machine {
	f, cancel := newFSM()
	return &machine{f: f, cancel: cancel}
}

func (m *machine) close() { m.cancel() }

// snapshotRestore persists the FSM and restores the bytes into the same FSM (as a follower
// installing a snapshot does).
func (m *machine) snapshotRestore() error {
	snap, err := m.f.Snapshot()
	if err != nil {
		return err
	}
	defer snap.Release()
	sink := &memSink{}
	if err := snap.Persist(sink); err != nil {
		return err
	}
	return m.f.Restore(io.NopCloser(bytes.NewReader(sink.Bytes())))
}

func (m *machine) dump() Dump {
	st := m.f.State()
	snap := st.Snapshot()
	defer snap.Close()
	var d Dump
	roots, err := snap.CARoots()
	if err != nil {
		panic(err)
	}
	for _, r := range roots {
		d.Roots = append(d.Roots, Rootj{ID: hx(r.ID), Active: r.Active, Create: r.CreateIndex, Modify: r.ModifyIndex})
	}
	sort.Slice(d.Roots, func(i, j int) bool { return d.Roots[i].ID < d.Roots[j].ID })
	cfg, err := snap.CAConfig()
	if err != nil {
		panic(err)
	}
	if cfg != nil {
		d.Config = &Configj{Provider: hx(cfg.Provider), Cluster: hx(cfg.ClusterID), Create: cfg.CreateIndex,
			Modify: cfg.ModifyIndex, Payload: payloadOf(cfg)}
	}
	ps, err := snap.CAProviderState()
	if err != nil {
		panic(err)
	}
	for _, p := range ps {
		d.PStates = append(d.PStates, PStatej{ID: hx(p.ID), Create: p.CreateIndex, Modify: p.ModifyIndex})
	}
	sort.Slice(d.PStates, func(i, j int) bool { return d.PStates[i].ID < d.PStates[j].ID })
	it, err := snap.Indexes()
	if err != nil {
		panic(err)
	}
	for raw := it.Next(); raw != nil; raw = it.Next() {
		e := raw.(*state.IndexEntry)
		switch e.Key {
		case "connect-ca-roots":
			d.RootsIdx = e.Value
		case "connect-ca-builtin":
			d.BuiltinIdx = e.Value
		case "connect-ca-builtin-serial":
			d.HasSerial, d.Serial = true, e.Value
		}
	}
	// what the query endpoints report must agree with the raw index entries
	if idx, _, _ := st.CARoots(nil); idx != d.RootsIdx {
		panic(fmt.Sprintf("CARoots index %d != index entry %d", idx, d.RootsIdx))
	}
	return d
}

func payloadOf(cfg *structs.CAConfiguration) uint64 {
	if cfg == nil || cfg.State == nil {
		return 0
	}
	n, _ := strconv.ParseUint(cfg.State["p"], 10, 64)
	return n
}

func outOf(resp interface{}) Outj {
	switch v := resp.(type) {
	case nil:
		return Outj{K: "nil"}
	case bool:
		return Outj{K: "bool", B: v}
	case uint64:
		return Outj{K: "serial", N: v}
	case error:
		s := v.Error()
		switch {
		case strings.Contains(s, "there must be exactly one active CA"):
			return Outj{K: "err", E: "one_active"}
		case strings.Contains(s, "is replaced by a later entry with the same ID"):
			return Outj{K: "err", E: "active_overwritten"}
		case errors.Is(v, state.ErrMissingCARootID):
			return Outj{K: "err", E: "missing_id"}
		case strings.Contains(s, "ModifyIndex did not match existing"):
			return Outj{K: "err", E: "config_cas"}
		case strings.Contains(s, "Invalid CA operation"):
			return Outj{K: "err", E: "invalid_op"}
		}
		return Outj{K: "err", E: "other:" + s}
	}
	return Outj{K: "err", E: fmt.Sprintf("other:unexpected response %T", resp)}
}

func opOf(req *structs.CARequest) Opj {
	var o Opj
	cfgj := func(c *structs.CAConfiguration) *Configj {
		if c == nil {
			return nil
		}
		return &Configj{Provider: hx(c.Provider), Cluster: hx(c.ClusterID), Modify: c.ModifyIndex, Payload: payloadOf(c)}
	}
	rts := func() []Rootj {
		out := []Rootj{}
		for _, r := range req.Roots {
			out = append(out, Rootj{ID: hx(r.ID), Active: r.Active})
		}
		return out
	}
	switch req.Op {
	case structs.CAOpSetRoots:
		o = Opj{Op: "set_roots", Cidx: req.Index, Roots: rts()}
	case structs.CAOpSetRootsAndConfig:
		o = Opj{Op: "set_roots_config", Cidx: req.Index, Roots: rts(), Config: cfgj(req.Config)}
	case structs.CAOpSetConfig:
		o = Opj{Op: "set_config", Config: cfgj(req.Config)}
	case structs.CAOpSetProviderState:
		o = Opj{Op: "set_pstate", ID: hx(req.ProviderState.ID)}
	case structs.CAOpDeleteProviderState:
		o = Opj{Op: "del_pstate", ID: hx(req.ProviderState.ID)}
	case structs.CAOpIncrementProviderSerialNumber:
		o = Opj{Op: "incr"}
	default:
		o = Opj{Op: "invalid"}
	}
	return o
}

// ------------------------------------------------------------------ direct oracle for root-set histories

func activeCount(d Dump) int {
	n := 0
	for _, r := range d.Roots {
		if r.Active {
			n++
		}
	}
	return n
}

func dumpEq(a, b Dump) bool {
	x, _ := json.Marshal(a)
	y, _ := json.Marshal(b)
	return bytes.Equal(x, y)
}

// histOracle states the root-set clauses of the property on the observations of one history:
//   - after every command the root set is empty or has exactly one active root;
//   - a root-set command either replaces the whole set by exactly the given one (and answers true)
//     or changes nothing at all (and does not answer true);
//   - it succeeds only when the given index equals the index of the roots table;
//   - serial numbers handed out are strictly increasing.
func histOracle(steps []Step) (string, string) {
	prev := Dump{}
	var lastSerial uint64
	haveSerial := false
	for i, s := range steps {
		d := s.Dump
		if len(d.Roots) != 0 && activeCount(d) != 1 {
			dup := false
			seen := map[string]bool{}
			for _, r := range s.Op.Roots {
				if seen[r.ID] {
					dup = true
				}
				seen[r.ID] = true
			}
			kind := "not-one-active"
			if dup {
				kind = "not-one-active-duplicate-ids"
			}
			return fmt.Sprintf("%s: step %d (%s) leaves %d roots with %d active", kind, i, s.Op.Op, len(d.Roots), activeCount(d)), kind
		}
		switch s.Op.Op {
		case "set_roots", "set_roots_config":
			okAns := s.Out.K == "bool" && s.Out.B
			if okAns {
				if s.Op.Cidx != prev.RootsIdx {
					return fmt.Sprintf("cas-succeeded-on-mismatch: step %d given index %d, table index %d", i, s.Op.Cidx, prev.RootsIdx), "cas-succeeded-on-mismatch"
				}
				// whole-set replacement: stored set == given set (last occurrence of an ID wins)
				want := map[string]bool{}
				for _, r := range s.Op.Roots {
					want[r.ID] = r.Active
				}
				if len(want) != len(d.Roots) {
					return fmt.Sprintf("partial-replace: step %d stored %d roots, given %d distinct", i, len(d.Roots), len(want)), "partial-replace"
				}
				for _, r := range d.Roots {
					a, ok := want[r.ID]
					if !ok || a != r.Active || r.Modify != s.Idx {
						return fmt.Sprintf("partial-replace: step %d root %s", i, r.ID), "partial-replace"
					}
				}
				if d.RootsIdx != s.Idx {
					return fmt.Sprintf("partial-replace: step %d roots index %d != %d", i, d.RootsIdx, s.Idx), "partial-replace"
				}
				if s.Op.Op == "set_roots_config" {
					if d.Config == nil || d.Config.Modify != s.Idx || d.Config.Payload != s.Op.Config.Payload {
						return fmt.Sprintf("partial-replace: step %d roots replaced but config not", i), "partial-replace"
					}
					pm := uint64(0)
					if prev.Config != nil {
						pm = prev.Config.Modify
					}
					if s.Op.Config.Modify != pm {
						return fmt.Sprintf("cas-succeeded-on-mismatch: step %d config index %d, stored %d", i, s.Op.Config.Modify, pm), "cas-succeeded-on-mismatch"
					}
				}
			} else if !dumpEq(prev, d) {
				return fmt.Sprintf("failed-update-changed-state: step %d (%s) answered %+v but the state changed", i, s.Op.Op, s.Out), "failed-update-changed-state"
			}
		case "set_config":
			if s.Op.Config != nil && s.Op.Config.Modify != 0 {
				okAns := s.Out.K == "bool" && s.Out.B
				pm := uint64(0)
				if prev.Config != nil {
					pm = prev.Config.Modify
				}
				if okAns && s.Op.Config.Modify != pm {
					return fmt.Sprintf("cas-succeeded-on-mismatch: step %d config", i), "cas-succeeded-on-mismatch"
				}
				if !okAns && !dumpEq(prev, d) {
					return fmt.Sprintf("failed-update-changed-state: step %d config", i), "failed-update-changed-state"
				}
			}
			if !rootsEq(prev, d) {
				return fmt.Sprintf("config-update-touched-roots: step %d", i), "config-update-touched-roots"
			}
		case "incr":
			if s.Out.K == "serial" {
				if haveSerial && s.Out.N <= lastSerial {
					return fmt.Sprintf("serial-reused: step %d serial %d after %d", i, s.Out.N, lastSerial), "serial-reused"
				}
				haveSerial, lastSerial = true, s.Out.N
			}
			if !rootsEq(prev, d) {
				return fmt.Sprintf("serial-increment-touched-roots: step %d", i), "serial-increment-touched-roots"
			}
		case "snap":
			// blank-provider configs are deliberately not restored (consul issue 4954)
			p, q := prev, d
			if p.Config != nil && p.Config.Provider == "" {
				p.Config = nil
			}
			if !dumpEq(p, q) {
				return fmt.Sprintf("restore-differs: step %d", i), "restore-differs"
			}
		default:
			if !rootsEq(prev, d) {
				return fmt.Sprintf("unrelated-command-touched-roots: step %d (%s)", i, s.Op.Op), "unrelated-command-touched-roots"
			}
		}
		prev = d
	}
	return "", ""
}

func rootsEq(a, b Dump) bool {
	x, _ := json.Marshal(a.Roots)
	y, _ := json.Marshal(b.Roots)
	return bytes.Equal(x, y) && a.RootsIdx == b.RootsIdx
}

// ------------------------------------------------------------------ part (b): generated histories

var rootIDs = []string{"r1", "r2", "r3", "r4", "r5"}

func genRootList(rng *rand.Rand, cur Dump) []*structs.CARoot {
	mk := func(id string, active bool) *structs.CARoot {
		return &structs.CARoot{ID: id, Name: "n-" + id, Active: active, RootCert: "cert-" + id}
	}
	var out []*structs.CARoot
	switch p := rng.Intn(100); {
	case p < 45 && len(cur.Roots) > 0:
		// rotation as the leader builds it: keep the old ones deactivated, append a new active one
		used := map[string]bool{}
		for _, r := range cur.Roots {
			id, _ := hex.DecodeString(r.ID)
			used[string(id)] = true
			if rng.Intn(6) == 0 {
				continue // an old root is dropped
			}
			out = append(out, mk(string(id), false))
		}
		nid := rootIDs[rng.Intn(len(rootIDs))]
		if rng.Intn(4) != 0 {
			for _, c := range rootIDs {
				if !used[c] {
					nid = c
					break
				}
			}
		}
		out = append(out, mk(nid, true))
		if rng.Intn(8) == 0 {
			rng.Shuffle(len(out), func(i, j int) { out[i], out[j] = out[j], out[i] })
		}
	case p < 75:
		// a list with exactly one active root
		n := 1 + rng.Intn(4)
		perm := rng.Perm(len(rootIDs))
		a := rng.Intn(n)
		for i := 0; i < n; i++ {
			out = append(out, mk(rootIDs[perm[i]], i == a))
		}
	default:
		// anything: 0..4 entries, random flags, duplicates and empty IDs
		n := rng.Intn(5)
		for i := 0; i < n; i++ {
			id := rootIDs[rng.Intn(3)]
			if rng.Intn(10) == 0 {
				id = ""
			}
			out = append(out, mk(id, rng.Intn(2) == 0))
		}
	}
	return out
}

func pickIdx(rng *rand.Rand, cur uint64, seen []uint64) uint64 {
	switch p := rng.Intn(100); {
	case p < 60:
		return cur
	case p < 72:
		return 0
	case p < 87:
		if len(seen) > 0 {
			return seen[rng.Intn(len(seen))]
		}
		return cur + 1
	default:
		return cur + 1 + uint64(rng.Intn(5))
	}
}

func genConfig(rng *rand.Rand, modify uint64) *structs.CAConfiguration {
	prov := []string{"consul", "consul", "vault", "aws-pca", ""}[rng.Intn(5)]
	cl := []string{"", "c1", "c2", "C1"}[rng.Intn(4)]
	c := &structs.CAConfiguration{Provider: prov, ClusterID: cl,
		State: map[string]string{"p": strconv.Itoa(1 + rng.Intn(1000))}}
	c.ModifyIndex = modify
	return c
}

func genHistory(rng *rand.Rand, id int, nsteps int) HistCase {
	m := newMachine()
	defer m.close()
	hc := HistCase{Type: "hist", Source: "generated", ID: id, ToCoq: true}
	var seenRoots, seenCfg []uint64
	for k := 0; k < nsteps; k++ {
		cur := m.dump()
		m.idx += 1 + uint64(rng.Intn(3))
		var req *structs.CARequest
		snap := false
		cfgMod := uint64(0)
		if cur.Config != nil {
			cfgMod = cur.Config.Modify
		}
		switch p := rng.Intn(100); {
		case p < 34:
			req = &structs.CARequest{Op: structs.CAOpSetRoots, Index: pickIdx(rng, cur.RootsIdx, seenRoots), Roots: genRootList(rng, cur)}
		case p < 56:
			req = &structs.CARequest{Op: structs.CAOpSetRootsAndConfig, Index: pickIdx(rng, cur.RootsIdx, seenRoots),
				Roots: genRootList(rng, cur), Config: genConfig(rng, pickIdx(rng, cfgMod, seenCfg))}
		case p < 70:
			mod := uint64(0)
			if rng.Intn(2) == 0 {
				mod = pickIdx(rng, cfgMod, seenCfg)
			}
			req = &structs.CARequest{Op: structs.CAOpSetConfig, Config: genConfig(rng, mod)}
		case p < 77:
			req = &structs.CARequest{Op: structs.CAOpSetProviderState, ProviderState: &structs.CAConsulProviderState{ID: []string{"p1", "p2"}[rng.Intn(2)]}}
		case p < 82:
			req = &structs.CARequest{Op: structs.CAOpDeleteProviderState, ProviderState: &structs.CAConsulProviderState{ID: []string{"p1", "p2"}[rng.Intn(2)]}}
		case p < 92:
			req = &structs.CARequest{Op: structs.CAOpIncrementProviderSerialNumber}
		case p < 98:
			snap = true
		default:
			req = &structs.CARequest{Op: structs.CAOp("bogus")}
		}
		st := Step{Idx: m.idx}
		if snap {
			if err := m.snapshotRestore(); err != nil {
				panic(err)
			}
			st.Op = Opj{Op: "snap"}
			st.Out = Outj{K: "nil"}
		} else {
			st.Op = opOf(req)
			buf, err := structs.Encode(structs.ConnectCARequestType, req)
			if err != nil {
				panic(err)
			}
			resp := m.f.Apply(&raft.Log{Index: m.idx, Term: 1, Type: raft.LogCommand, Data: buf})
			st.Out = outOf(resp)
		}
		st.Dump = m.dump()
		seenRoots = append(seenRoots, st.Dump.RootsIdx)
		if st.Dump.Config != nil {
			seenCfg = append(seenCfg, st.Dump.Config.Modify)
		}
		hc.Steps = append(hc.Steps, st)
	}
	hc.Oracle, hc.OracleSg = histOracle(hc.Steps)
	return hc
}

// exhaustiveRootSets: every root list of length <= 3 over the IDs {"a","b",""} with every choice of
// active flags, as CAOpSetRoots with the current / zero / a stale index, on three base states
// (no roots; one root; a rotated pair). Thorough tier only.
func exhaustiveRootSets(emit func(interface{})) int {
	ids := []string{"a", "b", ""}
	type ent struct {
		id     string
		active bool
	}
	var lists [][]ent
	var rec func(cur []ent, k int)
	rec = func(cur []ent, k int) {
		lists = append(lists, append([]ent(nil), cur...))
		if k == 0 {
			return
		}
		for _, id := range ids {
			for _, a := range []bool{true, false} {
				rec(append(cur, ent{id, a}), k-1)
			}
		}
	}
	rec(nil, 3)
	bases := [][]*structs.CARequest{
		{},
		{{Op: structs.CAOpSetRoots, Index: 0, Roots: []*structs.CARoot{{ID: "a", Active: true, Name: "n", RootCert: "c"}}}},
		{{Op: structs.CAOpSetRoots, Index: 0, Roots: []*structs.CARoot{{ID: "a", Active: true, Name: "n", RootCert: "c"}}},
			{Op: structs.CAOpSetRoots, Index: 1, Roots: []*structs.CARoot{{ID: "a", Name: "n", RootCert: "c"}, {ID: "b", Active: true, Name: "n", RootCert: "c"}}}},
	}
	n := 0
	for bi, base := range bases {
		for _, l := range lists {
			for ci := 0; ci < 3; ci++ {
				m := newMachine()
				hc := HistCase{Type: "hist", Source: "exhaustive", ID: n, ToCoq: true}
				apply := func(req *structs.CARequest) {
					m.idx++
					buf, err := structs.Encode(structs.ConnectCARequestType, req)
					if err != nil {
						panic(err)
					}
					resp := m.f.Apply(&raft.Log{Index: m.idx, Term: 1, Type: raft.LogCommand, Data: buf})
					hc.Steps = append(hc.Steps, Step{Idx: m.idx, Op: opOf(req), Out: outOf(resp), Dump: m.dump()})
				}
				for _, r := range base {
					apply(r)
				}
				cur := m.dump().RootsIdx
				cidx := []uint64{cur, 0, cur + 1}[ci]
				if bi == 2 && ci == 2 {
					cidx = 1 // a stale index
				}
				var roots []*structs.CARoot
				for _, e := range l {
					roots = append(roots, &structs.CARoot{ID: e.id, Active: e.active, Name: "n", RootCert: "c"})
				}
				apply(&structs.CARequest{Op: structs.CAOpSetRoots, Index: cidx, Roots: roots})
				m.close()
				hc.Oracle, hc.OracleSg = histOracle(hc.Steps)
				emit(hc)
				n++
			}
		}
	}
	return n
}

// ------------------------------------------------------------------ part (a): CSR generation

var (
	oidSAN = asn1.ObjectIdentifier{2, 5, 29, 17}
	oidBC  = asn1.ObjectIdentifier{2, 5, 29, 19}
)

type sanSpec struct {
	uris   []string
	dns    []string
	ips    []net.IP
	emails []string
	caExt  bool
}

func buildCSR(key *ecdsa.PrivateKey, s sanSpec) (string, error) {
	var names []asn1.RawValue
	for _, d := range s.dns {
		names = append(names, asn1.RawValue{Tag: 2, Class: asn1.ClassContextSpecific, Bytes: []byte(d)})
	}
	for _, e := range s.emails {
		names = append(names, asn1.RawValue{Tag: 1, Class: asn1.ClassContextSpecific, Bytes: []byte(e)})
	}
	for _, ip := range s.ips {
		b := ip.To4()
		if b == nil {
			b = ip
		}
		names = append(names, asn1.RawValue{Tag: 7, Class: asn1.ClassContextSpecific, Bytes: b})
	}
	for _, u := range s.uris {
		names = append(names, asn1.RawValue{Tag: 6, Class: asn1.ClassContextSpecific, Bytes: []byte(u)})
	}
	tmpl := &x509.CertificateRequest{SignatureAlgorithm: x509.ECDSAWithSHA256}
	if len(names) > 0 {
		der, err := asn1.Marshal(names)
		if err != nil {
			return "", err
		}
		tmpl.ExtraExtensions = append(tmpl.ExtraExtensions, pkix.Extension{Id: oidSAN, Critical: true, Value: der})
	}
	if s.caExt {
		ext, err := connect.CreateCAExtension()
		if err != nil {
			return "", err
		}
		tmpl.ExtraExtensions = append(tmpl.ExtraExtensions, ext)
	}
	der, err := x509.CreateCertificateRequest(crand.Reader, tmpl, key)
	if err != nil {
		return "", err
	}
	var buf bytes.Buffer
	if err := pem.Encode(&buf, &pem.Block{Type: "CERTIFICATE REQUEST", Bytes: der}); err != nil {
		return "", err
	}
	return buf.String(), nil
}

func urlj(u *url.URL) URLj {
	user := u.User != nil || u.RawQuery != "" || u.ForceQuery || u.Fragment != "" || u.RawFragment != ""
	form := u.Opaque != "" || u.OmitHost
	deco := 0
	if user {
		deco = 1
	} else if form {
		deco = 2
	}
	return URLj{Scheme: hx(u.Scheme), Host: hx(u.Host), Path: hx(u.Path), Raw: hx(u.RawPath), Plain: !user && !form, Deco: deco, Str: u.String()}
}

type genEnv struct {
	dc      string
	cluster string
}

func (e genEnv) td() string { return strings.ToLower(e.cluster + ".consul") }

func caseVary(rng *rand.Rand, s string) string {
	b := []byte(s)
	for i := range b {
		if rng.Intn(3) == 0 && b[i] >= 'a' && b[i] <= 'z' {
			b[i] -= 32
		}
	}
	return string(b)
}

// escVary percent-encodes some bytes of a segment (so the raw path differs from its decoding).
func escVary(rng *rand.Rand, s string, all bool) string {
	var sb strings.Builder
	for i := 0; i < len(s); i++ {
		if all || rng.Intn(3) == 0 {
			if rng.Intn(2) == 0 {
				fmt.Fprintf(&sb, "%%%02X", s[i])
			} else {
				fmt.Fprintf(&sb, "%%%02x", s[i])
			}
		} else {
			sb.WriteByte(s[i])
		}
	}
	return sb.String()
}

var svcNames = []string{"web", "api", "db", "Web", "web-v2", "a"}
var nodeNames = []string{"n1", "n2", "node-3", "N1"}

// segment returns a raw (as written in the URI) spelling of a name, and the generator's label.
func segment(rng *rand.Rand, name string) (string, string) {
	switch p := rng.Intn(100); {
	case p < 52:
		return name, ""
	case p < 62:
		return escVary(rng, name, false), "+esc"
	case p < 66:
		return escVary(rng, name, true), "+escall"
	case p < 71:
		return name + "%2F" + []string{"x", "id", "svc", "dc"}[rng.Intn(4)], "+slash"
	case p < 74:
		return name + "%2f..%2F" + name, "+slash"
	case p < 77:
		return caseVary(rng, name), "+case"
	case p < 81:
		return name + "%25" + "41", "+pct"
	case p < 85:
		// a letter encoded twice: decoding once gives a name with a "%", decoding twice another name
		k := rng.Intn(len(name))
		return name[:k] + fmt.Sprintf("%%25%02X", name[k]) + name[k+1:], "+pct2"
	case p < 87:
		return name + []string{" ", "\"", "<x>", "^", "`", "{}", "|"}[rng.Intn(7)], "+invalidchar"
	case p < 90:
		return name + "%2F" + "x" + []string{" ", "^", "|"}[rng.Intn(3)], "+slash+invalidchar"
	case p < 93:
		return name + []string{"%", "%2", "%zz", "%G0"}[rng.Intn(4)], "+badesc"
	case p < 96:
		return name + []string{";p", ",q", "=", "@", ":", "+", "$", "&", "!", "*", "'", "(", ")", "~", "[", "]"}[rng.Intn(16)], "+reserved"
	case p < 97:
		return name + "%00", "+nul"
	case p < 99:
		return name + "%C3%A9", "+utf8"
	default:
		return name + "%FF", "+badutf8"
	}
}

type genURI struct {
	raw   string
	shape string
	kind  string // service|agent|gateway|server|signing|junk
	name  string // the decoded name the generator intends (for rule bias)
}

func genHost(rng *rand.Rand, e genEnv, agent bool) (string, string) {
	td := e.td()
	p := rng.Intn(100)
	if agent {
		switch {
		case p < 40:
			return td, ""
		case p < 65:
			return "dummy.consul", "+dummyhost"
		case p < 75:
			return caseVary(rng, td), "+hostcase"
		case p < 85:
			return "other-cluster.consul", "+foreignhost"
		case p < 92:
			return "", "+emptyhost"
		default:
			return "evil.example.com", "+foreignhost"
		}
	}
	switch {
	case p < 70:
		return td, ""
	case p < 80:
		return caseVary(rng, td), "+hostcase"
	case p < 88:
		return "other-cluster.consul", "+foreignhost"
	case p < 91:
		return e.cluster + ".consul", "+rawclusterhost"
	case p < 94:
		return td + ".", "+hostdot"
	case p < 96:
		return "", "+emptyhost"
	case p < 98:
		return td + ":8300", "+hostport"
	default:
		return "x." + td, "+subdomain"
	}
}

func genDC(rng *rand.Rand, e genEnv) (string, string) {
	switch p := rng.Intn(100); {
	case p < 70:
		return e.dc, ""
	case p < 80:
		return "dc2", "+foreigndc"
	case p < 85:
		return caseVary(rng, strings.ToUpper(e.dc[:1])+e.dc[1:]), "+dccase"
	case p < 93:
		return escVary(rng, e.dc, rng.Intn(2) == 0), "+dcesc"
	case p < 96:
		return e.dc + "%2Fid%2Fn9", "+dcslash"
	default:
		return "dc2%2F" + e.dc, "+dcslash"
	}
}

func genOneURI(rng *rand.Rand, e genEnv) genURI {
	var g genURI
	var labels []string
	add := func(l string) {
		if l != "" {
			labels = append(labels, l)
		}
	}
	p := rng.Intn(100)
	var path string
	apPrefix := func(allowForeign bool) string {
		switch q := rng.Intn(100); {
		case q < 70:
			return ""
		case q < 82:
			add("+ap-default")
			return "/ap/default"
		case q < 88:
			add("+ap-esc")
			return "/ap/d%65fault"
		case q < 92:
			add("+ap-case")
			return "/ap/DEFAULT"
		default:
			add("+ap-foreign")
			return "/ap/" + []string{"foo", "Foo", "f%6Fo", "a%2Fb"}[rng.Intn(4)]
		}
	}
	switch {
	case p < 42:
		g.kind = "service"
		g.name = svcNames[rng.Intn(len(svcNames))]
		seg, l := segment(rng, g.name)
		add(l)
		dc, l2 := genDC(rng, e)
		add(l2)
		ns := "default"
		switch q := rng.Intn(100); {
		case q < 82:
		case q < 88:
			ns, _ = "d%65fault", 0
			add("+ns-esc")
		case q < 93:
			ns = "other"
			add("+ns-foreign")
		default:
			ns = "Default"
			add("+ns-case")
		}
		path = apPrefix(true) + "/ns/" + ns + "/dc/" + dc + "/svc/" + seg
	case p < 68:
		g.kind = "agent"
		g.name = nodeNames[rng.Intn(len(nodeNames))]
		seg, l := segment(rng, g.name)
		add(l)
		dc, l2 := genDC(rng, e)
		add(l2)
		path = apPrefix(true) + "/agent/client/dc/" + dc + "/id/" + seg
	case p < 78:
		g.kind = "gateway"
		dc, l2 := genDC(rng, e)
		add(l2)
		path = apPrefix(true) + "/gateway/mesh/dc/" + dc
	case p < 86:
		g.kind = "server"
		dc, l2 := genDC(rng, e)
		add(l2)
		path = "/agent/server/dc/" + dc
	case p < 89:
		g.kind = "signing"
		path = ""
	default:
		g.kind = "junk"
		path = []string{"/", "/ns/default/dc/" + e.dc + "/svc/", "/ns/default/dc/" + e.dc + "/svc/web/extra",
			"/ns//dc/" + e.dc + "/svc/web", "//ns/default/dc/" + e.dc + "/svc/web", "/agent/client/dc/" + e.dc + "/id/",
			"/agent/server/dc/" + e.dc + "/id/n1", "/gateway/mesh/dc/", "/ap//gateway/mesh/dc/" + e.dc, "/svc/web",
			"/ns/default/dc/" + e.dc + "/svc/web/", "/NS/default/dc/" + e.dc + "/svc/web", "/agent/Client/dc/" + e.dc + "/id/n1",
			"/*", "*", "/ap/default/agent/server/dc/" + e.dc, "/ns/default/dc/" + e.dc + "/svc/web%"}[rng.Intn(17)]
	}
	host, lh := genHost(rng, e, g.kind == "agent")
	add(lh)
	scheme := "spiffe"
	switch q := rng.Intn(100); {
	case q < 90:
	case q < 94:
		scheme = "SPIFFE"
		add("+schemecase")
	case q < 97:
		scheme = "https"
		add("+scheme")
	default:
		scheme = "spiffex"
		add("+scheme")
	}
	raw := scheme + "://" + host + path
	switch q := rng.Intn(100); {
	case q < 86:
	case q < 89:
		raw += "?x=1"
		add("+query")
	case q < 91:
		raw += "?"
		add("+forcequery")
	case q < 94:
		raw += "#frag"
		add("+fragment")
	case q < 97:
		raw = scheme + "://user@" + host + path
		add("+userinfo")
	case q < 99:
		if host == "" || rng.Intn(2) == 0 {
			raw = scheme + ":" + path
			add("+omithost")
		}
	default:
		raw = scheme + ":opaque" + path
		add("+opaque")
	}
	g.raw = raw
	g.shape = g.kind + strings.Join(labels, "")
	return g
}

// ------------------------------------------------------------------ authorizers

type authzSpec struct {
	rules string
	a     acl.Authorizer
}

func genAuthz(rng *rand.Rand, intended []genURI) authzSpec {
	switch p := rng.Intn(100); {
	case p < 6:
		return authzSpec{"<deny-all>", acl.DenyAll()}
	case p < 10:
		return authzSpec{"<allow-all>", acl.AllowAll()}
	case p < 16:
		return authzSpec{"<manage-all>", acl.ManageAll()}
	}
	var sb strings.Builder
	q := func(s string) string { return strconv.Quote(s) }
	svc := map[string]string{}
	node := map[string]string{}
	pol := func(grantBias int) string {
		switch x := rng.Intn(100); {
		case x < grantBias:
			return "write"
		case x < grantBias+(100-grantBias)/2:
			return "read"
		default:
			return "deny"
		}
	}
	for _, g := range intended {
		// bias: mostly grant what is asked, sometimes a near miss: the segment as written, decoded
		// once (what the code must ask about), decoded twice, lower-cased
		dec := decodedCandidates(g.raw)
		for _, n := range nearMisses(g.raw) {
			if rng.Intn(100) < 30 {
				dec = append(dec, n)
			}
		}
		switch g.kind {
		case "service":
			for _, n := range dec {
				if rng.Intn(100) < 55 {
					svc[n] = pol(85)
				}
			}
			if rng.Intn(100) < 50 {
				svc[g.name] = pol(80)
			}
		case "agent":
			for _, n := range dec {
				if rng.Intn(100) < 55 {
					node[n] = pol(85)
				}
			}
			if rng.Intn(100) < 50 {
				node[g.name] = pol(80)
			}
		}
	}
	if rng.Intn(4) == 0 {
		svc[svcNames[rng.Intn(len(svcNames))]] = pol(60)
	}
	if rng.Intn(4) == 0 {
		node[nodeNames[rng.Intn(len(nodeNames))]] = pol(60)
	}
	keys := func(m map[string]string) []string {
		var k []string
		for x := range m {
			k = append(k, x)
		}
		sort.Strings(k)
		return k
	}
	for _, n := range keys(svc) {
		if n == "" || !hclSafe(n) {
			continue
		}
		fmt.Fprintf(&sb, "service %s { policy = %s }\n", q(n), q(svc[n]))
	}
	for _, n := range keys(node) {
		if n == "" || !hclSafe(n) {
			continue
		}
		fmt.Fprintf(&sb, "node %s { policy = %s }\n", q(n), q(node[n]))
	}
	if rng.Intn(100) < 22 {
		fmt.Fprintf(&sb, "service_prefix %s { policy = %s }\n", q([]string{"", "w", "web", "a"}[rng.Intn(4)]), q(pol(70)))
	}
	if rng.Intn(100) < 22 {
		fmt.Fprintf(&sb, "node_prefix %s { policy = %s }\n", q([]string{"", "n", "N"}[rng.Intn(3)]), q(pol(70)))
	}
	if rng.Intn(100) < 55 {
		fmt.Fprintf(&sb, "mesh = %s\n", q(pol(75)))
	}
	if rng.Intn(100) < 45 {
		fmt.Fprintf(&sb, "acl = %s\n", q(pol(70)))
	}
	if rng.Intn(100) < 25 {
		fmt.Fprintf(&sb, "operator = %s\n", q(pol(70)))
	}
	rules := sb.String()
	pl, err := acl.NewPolicyFromSource(rules, nil, nil)
	if err != nil {
		return authzSpec{"<deny-all> (rules rejected: " + err.Error() + ")", acl.DenyAll()}
	}
	a, err := acl.NewPolicyAuthorizerWithDefaults(acl.DenyAll(), []*acl.Policy{pl}, nil)
	if err != nil {
		return authzSpec{"<deny-all>", acl.DenyAll()}
	}
	return authzSpec{rules, a}
}

func hclSafe(s string) bool {
	for i := 0; i < len(s); i++ {
		if s[i] < 0x20 || s[i] >= 0x7f {
			return false
		}
	}
	return true
}

// nearMisses: spellings of the path segments other than the single decoding.
func nearMisses(raw string) []string {
	var out []string
	i := strings.Index(raw, "://")
	rest := raw
	if i >= 0 {
		rest = raw[i+3:]
	}
	for _, s := range strings.Split(rest, "/") {
		d, err := url.PathUnescape(s)
		if err != nil {
			continue
		}
		if s != d {
			out = append(out, s)
		}
		if d2, err := url.PathUnescape(d); err == nil && d2 != d {
			out = append(out, d2)
		}
		if l := strings.ToLower(d); l != d {
			out = append(out, l)
		}
	}
	return out
}

// decodedCandidates: every path segment of a raw URI string, percent-decoded when possible.
func decodedCandidates(raw string) []string {
	var out []string
	i := strings.Index(raw, "://")
	rest := raw
	if i >= 0 {
		rest = raw[i+3:]
	}
	for _, s := range strings.Split(rest, "/") {
		if d, err := url.PathUnescape(s); err == nil {
			out = append(out, d)
		}
	}
	return out
}

// candidateNames: every name the code could conceivably ask the authorizer about for these URLs.
func candidateNames(us []*url.URL) []string {
	set := map[string]bool{}
	for _, u := range us {
		for _, p := range []string{u.Path, u.RawPath} {
			for _, s := range strings.Split(p, "/") {
				set[s] = true
				if d, err := url.PathUnescape(s); err == nil {
					set[d] = true
					set[strings.ToLower(d)] = true
					if d2, err := url.PathUnescape(d); err == nil {
						set[d2] = true
					}
				}
				set[strings.ToLower(s)] = true
			}
		}
	}
	var out []string
	for s := range set {
		out = append(out, s)
	}
	sort.Strings(out)
	return out
}

// ------------------------------------------------------------------ independent identity reader (oracle)

type ident struct {
	kind, host, ap, ns, dc, name string
}

// readIdentity is the oracle's own reading of a SPIFFE URI *string*: split off scheme and
// authority, split the path on "/", percent-decode each segment. It shares no code with
// connect.ParseCertURI or net/url. A SPIFFE ID has the form spiffe://<trust domain>/<path> and
// nothing else: decor names what else the string carries ("query", "fragment", "userinfo",
// "no-authority"); the identity is still read so that the other clauses can be evaluated.
func readIdentity(s string) (id ident, ok bool, decor string) {
	const pre = "spiffe:"
	if !strings.HasPrefix(s, pre) {
		return ident{}, false, ""
	}
	rest := s[len(pre):]
	var decs []string
	if i := strings.IndexByte(rest, '#'); i >= 0 {
		rest = rest[:i]
		decs = append(decs, "fragment")
	}
	if i := strings.IndexByte(rest, '?'); i >= 0 {
		rest = rest[:i]
		decs = append(decs, "query")
	}
	host := ""
	if strings.HasPrefix(rest, "//") {
		rest = rest[2:]
		slash := strings.IndexByte(rest, '/')
		if slash < 0 {
			return ident{}, false, strings.Join(decs, "+")
		}
		host, rest = rest[:slash], rest[slash:]
		if i := strings.LastIndexByte(host, '@'); i >= 0 {
			host = host[i+1:]
			decs = append(decs, "userinfo")
		}
	} else {
		decs = append(decs, "no-authority")
	}
	decor = strings.Join(decs, "+")
	if !strings.HasPrefix(rest, "/") {
		return ident{}, false, decor
	}
	path := rest[1:]
	segs := strings.Split(path, "/")
	dec := make([]string, len(segs))
	for i, sg := range segs {
		d, ok := pctDecode(sg)
		if !ok || d == "" {
			return ident{}, false, decor
		}
		dec[i] = d
	}
	id = ident{host: host, ap: "default"}
	hasAP := false
	if len(segs) >= 2 && segs[0] == "ap" {
		id.ap = dec[1]
		hasAP = true
		segs, dec = segs[2:], dec[2:]
	}
	switch {
	case len(segs) == 6 && segs[0] == "ns" && segs[2] == "dc" && segs[4] == "svc":
		id.kind, id.ns, id.dc, id.name = "service", dec[1], dec[3], dec[5]
	case len(segs) == 6 && segs[0] == "agent" && segs[1] == "client" && segs[2] == "dc" && segs[4] == "id":
		id.kind, id.dc, id.name = "agent", dec[3], dec[5]
	case len(segs) == 4 && segs[0] == "gateway" && segs[1] == "mesh" && segs[2] == "dc":
		id.kind, id.dc = "gateway", dec[3]
	case len(segs) == 4 && segs[0] == "agent" && segs[1] == "server" && segs[2] == "dc" && !hasAP:
		id.kind, id.dc = "server", dec[3]
	default:
		return ident{}, false, decor
	}
	return id, true, decor
}

func pctDecode(s string) (string, bool) {
	var out []byte
	for i := 0; i < len(s); i++ {
		if s[i] != '%' {
			out = append(out, s[i])
			continue
		}
		if i+2 >= len(s) {
			return "", false
		}
		h, ok1 := hexv(s[i+1])
		l, ok2 := hexv(s[i+2])
		if !ok1 || !ok2 {
			return "", false
		}
		out = append(out, h<<4|l)
		i += 2
	}
	return string(out), true
}

func hexv(c byte) (byte, bool) {
	switch {
	case c >= '0' && c <= '9':
		return c - '0', true
	case c >= 'a' && c <= 'f':
		return c - 'a' + 10, true
	case c >= 'A' && c <= 'F':
		return c - 'A' + 10, true
	}
	return 0, false
}

// ------------------------------------------------------------------ worlds

type world struct {
	id         int
	m          *machine
	d          *consul.VerifCADelegate
	mgr        *consul.CAManager
	env        genEnv
	key        *ecdsa.PrivateKey
	steps      []Step
	serials    []uint64 // every serial observed (CA increments and leaf certificates), in order
	rotateErrs []string
}

func classify(err error) (string, string) {
	s := err.Error()
	switch {
	case strings.Contains(s, "invalid number of URIs"):
		return "uri_count", s
	case strings.Contains(s, "does not allow specifying email"):
		return "email", s
	case strings.Contains(s, "must have 'spiffe' scheme"):
		return "scheme", s
	case strings.Contains(s, "Invalid admin partition:"), strings.Contains(s, "Invalid namespace:"),
		strings.Contains(s, "Invalid datacenter:"), strings.Contains(s, "Invalid service:"), strings.Contains(s, "Invalid node:"):
		return "unescape", s
	case strings.Contains(s, "is not for the correct node"):
		return "wrong_node", s
	case strings.Contains(s, "SPIFFE ID is not an Agent ID"):
		return "not_agent", s
	case strings.Contains(s, "Failed to parse CSR"):
		return "bad_csr", s
	case strings.Contains(s, "not in the expected format"):
		return "format", s
	case strings.Contains(s, "supported in Enterprise only"), strings.Contains(s, "must be a service, mesh-gateway, or agent ID"):
		return "unsupported", s
	case acl.IsErrPermissionDenied(err):
		return "denied", s
	case strings.Contains(s, "must not have userinfo, a query or a fragment"):
		return "decorated", s
	case strings.Contains(s, "of the certificate signing request is not this datacenter"):
		return "datacenter", s
	case strings.Contains(s, "different datacenter"):
		return "datacenter", s
	case strings.Contains(s, "different trust domain"):
		return "trust_domain", s
	}
	return "other", s
}

func newWorld(rng *rand.Rand, id int, key *ecdsa.PrivateKey) *world {
	dcs := []string{"dc1", "dc1", "east-1", "primary"}
	clusters := []string{"11111111-2222-3333-4444-555555555555", "AbCdEf01-2222-3333-4444-555555555555", "c1"}
	return newWorldEnv(rng, id, key, genEnv{dc: dcs[rng.Intn(len(dcs))], cluster: clusters[rng.Intn(len(clusters))]})
}

func newWorldEnv(rng *rand.Rand, id int, key *ecdsa.PrivateKey, env genEnv) *world {
	w := &world{id: id, m: newMachine(), key: key}
	w.env = env
	conf := consul.DefaultConfig()
	conf.Datacenter = w.env.dc
	conf.PrimaryDatacenter = w.env.dc
	conf.ConnectEnabled = true
	conf.CAConfig = &structs.CAConfiguration{
		Provider:  "consul",
		ClusterID: w.env.cluster,
		Config: map[string]interface{}{
			"LeafCertTTL":         "72h",
			"IntermediateCertTTL": "2160h",
			"RootCertTTL":         "87600h",
			"CSRMaxPerSecond":     0,
			"CSRMaxConcurrent":    0,
		},
	}
	// some worlds start above index 0 with legacy provider-table writes so that the serial counter
	// bootstraps from the provider table index
	w.m.idx = uint64(rng.Intn(40))
	w.d = &consul.VerifCADelegate{FSM: w.m.f, Conf: conf}
	irng := rand.New(rand.NewSource(int64(id)*7919 + 13)) // index gaps must not depend on outcomes
	w.d.NextIndex = func() uint64 { w.m.idx += 1 + uint64(irng.Intn(2)); return w.m.idx }
	w.d.Trace = func(idx uint64, req *structs.CARequest, resp interface{}) {
		st := Step{Idx: idx, Op: opOf(req), Out: outOf(resp), Dump: w.m.dump()}
		if st.Out.K == "serial" {
			w.serials = append(w.serials, st.Out.N)
		}
		w.steps = append(w.steps, st)
	}
	w.mgr = consul.VerifCANewManager(w.d)
	if err := w.mgr.Initialize(); err != nil {
		panic(fmt.Sprintf("world %d: Initialize: %v", id, err))
	}
	return w
}

func (w *world) rotate(rng *rand.Rand) error {
	_, pk, err := connect.GeneratePrivateKey()
	if err != nil {
		return err
	}
	_, cur, err := w.m.f.State().CAConfig(nil)
	if err != nil {
		return err
	}
	cfg := map[string]interface{}{}
	for k, v := range cur.Config {
		cfg[k] = v
	}
	cfg["PrivateKey"] = pk
	delete(cfg, "RootCert")
	args := &structs.CARequest{Op: structs.CAOpSetConfig, Config: &structs.CAConfiguration{
		Provider: "consul", Config: cfg, ForceWithoutCrossSigning: rng.Intn(3) == 0}}
	return w.mgr.UpdateConfiguration(args)
}

// recluster applies a raw CAOpSetConfig (as another leader or an operator tool could) that changes
// the stored ClusterID: from then on the trust domain of this datacenter is the new one.
func (w *world) recluster(rng *rand.Rand) {
	_, cur, err := w.m.f.State().CAConfig(nil)
	if err != nil || cur == nil {
		return
	}
	nc := *cur
	nc.ClusterID = []string{"c2", "22222222-2222-3333-4444-555555555555", "C1", w.env.cluster}[rng.Intn(4)]
	if rng.Intn(2) == 0 {
		nc.ModifyIndex = 0 // plain set
	}
	if _, err := w.d.ApplyCARequest(&structs.CARequest{Op: structs.CAOpSetConfig, Config: &nc}); err != nil {
		panic(fmt.Sprintf("world %d: recluster: %v", w.id, err))
	}
}

func (w *world) snapshot(rng *rand.Rand) {
	w.m.idx++
	if err := w.m.snapshotRestore(); err != nil {
		panic(err)
	}
	w.steps = append(w.steps, Step{Idx: w.m.idx, Op: Opj{Op: "snap"}, Out: Outj{K: "nil"}, Dump: w.m.dump()})
	if rng.Intn(2) == 0 {
		// a new leader: fresh manager and provider instances on the restored state
		w.mgr = consul.VerifCANewManager(w.d)
		if err := w.mgr.Initialize(); err != nil {
			panic(fmt.Sprintf("world %d: re-Initialize: %v", w.id, err))
		}
	}
}

func (w *world) sign(rng *rand.Rand, n int) SignCase {
	// the trust domain is derived from the ClusterID of the stored CA configuration on every request
	cluster := w.env.cluster
	if _, cfg, _ := w.m.f.State().CAConfig(nil); cfg != nil {
		cluster = cfg.ClusterID
	}
	sc := SignCase{Type: "sign", World: w.id, N: n, DC: hx(w.env.dc), Cluster: hx(cluster)}
	// ---- generate the request
	var spec sanSpec
	nuri := 1
	switch p := rng.Intn(100); {
	case p < 3:
		nuri = 0
	case p < 88:
		nuri = 1
	case p < 97:
		nuri = 2
	default:
		nuri = 3
	}
	entry := "authorize"
	if rng.Intn(100) < 16 {
		entry = "autoconf"
	}
	sc.Entry = entry
	var gens []genURI
	var shapes []string
	for i := 0; i < nuri; i++ {
		g := genOneURI(rng, w.env)
		if entry == "autoconf" {
			// auto-config requests carry agent identities; keep a share of other kinds
			for k := 0; k < 4 && g.kind != "agent" && rng.Intn(100) < 85; k++ {
				g = genOneURI(rng, w.env)
			}
		}
		gens = append(gens, g)
		spec.uris = append(spec.uris, g.raw)
		shapes = append(shapes, g.shape)
	}
	for i := rng.Intn(3) - 0; i > 0 && rng.Intn(2) == 0; i-- {
		spec.dns = append(spec.dns, []string{"web.service.consul", "localhost", "server." + w.env.dc + ".consul", "*.example.com"}[rng.Intn(4)])
	}
	for i := rng.Intn(3); i > 0 && rng.Intn(3) == 0; i-- {
		spec.ips = append(spec.ips, []net.IP{net.ParseIP("127.0.0.1"), net.ParseIP("10.1.2.3"), net.ParseIP("::1")}[rng.Intn(3)])
	}
	if rng.Intn(100) < 7 {
		spec.emails = append(spec.emails, "ops@example.com")
	}
	spec.caExt = rng.Intn(100) < 8
	sc.RawURIs, sc.CAExt = spec.uris, spec.caExt
	sc.Shape = fmt.Sprintf("%d:%s", nuri, strings.Join(shapes, ","))
	az := genAuthz(rng, gens)
	sc.Rules = az.rules

	pemCSR, err := buildCSR(w.key, spec)
	if err != nil {
		panic(err)
	}
	csr, err := connect.ParseCSR(pemCSR) // as ConnectCA.Sign does
	if err != nil {
		sc.CSROk = false
		sc.Expect = SignExpect{Err: "bad_csr", Msg: err.Error()}
		return sc
	}
	sc.CSROk, sc.ToCoq = true, true
	for _, u := range csr.URIs {
		sc.URIs = append(sc.URIs, urlj(u))
	}
	for _, d := range csr.DNSNames {
		sc.DNS = append(sc.DNS, hx(d))
	}
	for _, ip := range csr.IPAddresses {
		sc.IPs = append(sc.IPs, hx(ip.String()))
	}
	sc.Emails = len(csr.EmailAddresses)
	for _, nm := range candidateNames(csr.URIs) {
		sc.SvcTab = append(sc.SvcTab, TabEntry{hx(nm), az.a.ServiceWrite(nm, nil) == acl.Allow})
		sc.NodeTab = append(sc.NodeTab, TabEntry{hx(nm), az.a.NodeWrite(nm, nil) == acl.Allow})
	}
	sc.Mesh = az.a.MeshWrite(nil) == acl.Allow
	sc.ACL = az.a.ACLWrite(nil) == acl.Allow

	before := w.m.dump()
	sc.HasSer, sc.Serial, sc.Builtin = before.HasSerial, before.Serial, before.BuiltinIdx
	csrStrings := make([]string, len(csr.URIs))
	reqURLs := make([]url.URL, len(csr.URIs)) // SignCertificate replaces csr.URIs for agents
	for i, u := range csr.URIs {
		csrStrings[i] = u.String()
		reqURLs[i] = *u
	}

	// ---- the implementation
	nser := len(w.serials)
	var issued *structs.IssuedCert
	node := ""
	if entry == "authorize" {
		issued, err = w.mgr.AuthorizeAndSignCertificate(csr, az.a)
	} else {
		// The real AutoConfig.InitialConfiguration (request datacenter test, the updaters,
		// updateTLSCertificatesInConfig -> backend.SignCertificate = CAManager.SignCertificate) with an
		// authorizer standing for a JWT that validates for `node`: it runs the real parseAutoConfigCSR
		// and the node-name comparison of jwtAuthorizer.Authorize (copied in the hook file).
		node = nodeNames[rng.Intn(len(nodeNames))]
		if len(gens) > 0 && gens[0].kind == "agent" && rng.Intn(100) < 80 {
			if d := decodedCandidates(gens[0].raw); len(d) > 0 {
				node = d[len(d)-1] // the decoded last segment: what a well-behaved agent sends
			}
		}
		if node == "" {
			node = "n1"
		}
		sc.Node = hx(node)
		var certPEM string
		certPEM, err = consul.VerifCAAutoConfigSign(w.mgr, w.d, node, pemCSR)
		if err == nil {
			issued = &structs.IssuedCert{CertPEM: certPEM}
		}
	}
	if err != nil {
		cls, msg := classify(err)
		sc.Expect = SignExpect{Err: cls, Msg: msg}
		after := w.m.dump()
		if !dumpEq(before, after) && cls != "other" {
			sc.Oracle, sc.OracleSg = "refused request changed the CA state", "refusal-changed-state"
		}
		return sc
	}
	leaf, inter, err := connect.ParseLeafCerts(issued.CertPEM)
	if err != nil {
		sc.Expect = SignExpect{Err: "other", Msg: "issued certificate does not parse: " + err.Error()}
		sc.Oracle, sc.OracleSg = "issued certificate does not parse", "issued-unparseable-cert"
		return sc
	}
	ex := SignExpect{Ok: true, IsCA: leaf.IsCA}
	for _, u := range leaf.URIs {
		ex.URIs = append(ex.URIs, urlj(u))
	}
	for _, d := range leaf.DNSNames {
		ex.DNS = append(ex.DNS, hx(d))
	}
	for _, ip := range leaf.IPAddresses {
		ex.IPs = append(ex.IPs, hx(ip.String()))
	}
	if !leaf.SerialNumber.IsUint64() {
		sc.Oracle, sc.OracleSg = "serial does not fit 64 bits", "serial-range"
	}
	ex.Serial = leaf.SerialNumber.Uint64()

	// ---- direct oracle (no model, no consul parsing code)
	var fails []string
	var kinds []string
	fail := func(kind, f string, a ...interface{}) {
		kinds = append(kinds, kind)
		fails = append(fails, kind+": "+fmt.Sprintf(f, a...))
	}
	// chains to the active root of the state store
	_, active, _ := w.m.f.State().CARootActive(nil)
	if active == nil {
		fail("no-active-root", "no active root in the store after issuing")
	} else {
		pool := x509.NewCertPool()
		pool.AppendCertsFromPEM([]byte(active.RootCert))
		_, verr := leaf.Verify(x509.VerifyOptions{Roots: pool, Intermediates: inter, KeyUsages: []x509.ExtKeyUsage{x509.ExtKeyUsageClientAuth}})
		ex.Verify = verr == nil
		if verr != nil {
			fail("not-chained-to-active-root", "%v", verr)
		}
	}
	if leaf.IsCA {
		fail("issued-ca", "leaf has CA:TRUE")
	}
	if leaf.KeyUsage&x509.KeyUsageCertSign != 0 {
		fail("issued-ca", "leaf may sign certificates")
	}
	for _, s := range w.serials[:nser] {
		if s >= ex.Serial {
			fail("serial-reused", "serial %d not above earlier serial %d", ex.Serial, s)
			break
		}
	}
	if alloc := w.serials[nser:]; len(alloc) != 1 || alloc[0] != ex.Serial {
		fail("serial-not-from-counter", "leaf serial %d, serials allocated through the log during the request: %v", ex.Serial, alloc)
	}
	if len(spec.uris) != 1 || len(spec.emails) != 0 {
		fail("issued-for-bad-san-set", "%d URIs, %d e-mail SANs", len(spec.uris), len(spec.emails))
	}
	// DNS names: the name that designates a server of the datacenter may only go to a server identity
	serverSAN := ""
	for _, d := range leaf.DNSNames {
		if strings.HasPrefix(strings.ToLower(d), "server.") {
			serverSAN = d
		}
	}
	if len(leaf.URIs) != 1 {
		fail("leaf-uri-count", "%d URIs in the leaf", len(leaf.URIs))
	} else {
		leafStr := leaf.URIs[0].String()
		sc.LeafEqRq = len(csrStrings) == 1 && leafStr == csrStrings[0] // the CA did not re-print the URI
		lid, ok, decor := readIdentity(leafStr)
		if len(spec.uris) == 1 {
			_, _, rdecor := readIdentity(strings.Replace(spec.uris[0], "SPIFFE:", "spiffe:", 1))
			sc.DecorRq = decor != "" && rdecor == decor
		}
		sc.IDKind = lid.kind
		if decor != "" {
			fail("decorated-uri", "leaf URI %q is not of the form spiffe://<trust domain>/<path>: %s", leafStr, decor)
		}
		if !ok {
			fail("issued-unreadable-identity", "leaf URI %q is not a well-formed workload/agent identity", leafStr)
			// the one recorded mechanism: the leaf's path is the default re-encoding of the request's
			// DECODED path (or of the agent identity re-printed from its decoded names) and the
			// request's RawPath had an encoded "/" that thereby became a separator
			sc.Mech = "other"
			if len(reqURLs) == 1 {
				rq, lf := &reqURLs[0], leaf.URIs[0]
				if lf.RawPath == "" && strings.Contains(strings.ToLower(rq.RawPath), "%2f") {
					switch {
					case lf.Path == rq.Path:
						sc.Mech = "reencoded-decoded-path-with-slash"
					case strings.HasPrefix(rq.Path, "/ap/") && strings.HasSuffix(rq.Path, lf.Path) && strings.HasPrefix(lf.Path, "/agent/client/dc/"):
						sc.Mech = "reencoded-decoded-path-with-slash"
					}
				}
			}
		} else {
			td := strings.ToLower(cluster + ".consul")
			if strings.ToLower(lid.host) != td {
				fail("foreign-trust-domain-"+lid.kind, "leaf identity host %q, trust domain %q", lid.host, td)
			}
			if lid.dc != w.env.dc {
				fail("foreign-datacenter-"+lid.kind, "leaf identity datacenter %q, this is %q", lid.dc, w.env.dc)
			}
			if lid.kind == "agent" && lid.ap != "default" {
				fail("agent-partition", "agent identity in partition %q (the community edition has none)", lid.ap)
			} else if lid.ap != "default" || (lid.kind == "service" && lid.ns != "default") {
				fail("unsupported-scope", "partition %q namespace %q", lid.ap, lid.ns)
			}
			if serverSAN != "" && lid.kind != "server" {
				fail("server-dns-san", "%s identity issued with the DNS name %q", lid.kind, serverSAN)
			}
			if entry == "autoconf" {
				if lid.kind != "agent" {
					fail("autoconf-non-agent", "auto-config issued a %s identity", lid.kind)
				} else if lid.name != node {
					fail("unauthorized", "auto-config authorized node %q, leaf is for %q", node, lid.name)
				}
			} else {
				switch lid.kind {
				case "service":
					if az.a.ServiceWrite(lid.name, nil) != acl.Allow {
						fail("unauthorized", "no service:write on %q", lid.name)
					}
				case "agent":
					if az.a.NodeWrite(lid.name, nil) != acl.Allow {
						fail("unauthorized", "no node:write on %q", lid.name)
					}
				case "gateway":
					if az.a.MeshWrite(nil) != acl.Allow {
						fail("unauthorized", "no mesh:write")
					}
				case "server":
					if az.a.ACLWrite(nil) != acl.Allow {
						fail("unauthorized", "no acl:write")
					}
				}
			}
			// the identity in the leaf is the identity that was requested (host coerced for agents;
			// an agent URI re-printed by the CA carries no partition)
			if len(spec.uris) == 1 {
				rid, rok, _ := readIdentity(strings.Replace(spec.uris[0], "SPIFFE:", "spiffe:", 1))
				if rok {
					if lid.kind == "agent" {
						rid.host = lid.host
						if !sc.LeafEqRq {
							rid.ap = lid.ap
						}
					}
					rid.host, lid.host = strings.ToLower(rid.host), strings.ToLower(lid.host)
					if rid != lid {
						fail("identity-changed", "requested %+v, issued %+v", rid, lid)
					}
				} else {
					fail("identity-changed", "request URI %q unreadable but leaf carries %+v", spec.uris[0], lid)
				}
			}
		}
	}
	sort.Strings(kinds)
	sc.Oracle = strings.Join(fails, "; ")
	sc.OracleSg = strings.Join(uniq(kinds), "+")
	sc.Expect = ex
	return sc
}

func uniq(s []string) []string {
	var out []string
	for i, x := range s {
		if i == 0 || x != s[i-1] {
			out = append(out, x)
		}
	}
	return out
}

func runWorld(rng *rand.Rand, id int, key *ecdsa.PrivateKey, nsign int, emit func(interface{})) {
	w := newWorld(rng, id, key)
	defer w.m.close()
	for k := 0; k < nsign; k++ {
		switch p := rng.Intn(100); {
		case p < 5:
			if err := w.rotate(rng); err != nil {
				w.rotateErrs = append(w.rotateErrs, err.Error())
			}
		case p < 9:
			w.snapshot(rng)
		case p < 12:
			w.recluster(rng)
		}
		emit(w.sign(rng, k))
	}
	hc := HistCase{Type: "hist", Source: "manager", ID: id, Steps: w.steps, ToCoq: true}
	hc.Oracle, hc.OracleSg = histOracle(w.steps)
	emit(hc)
}

// ------------------------------------------------------------------ tabulation of net/url's path escaping

// escapeTable: for every byte, whether (*url.URL).EscapedPath escapes it in a path (the model's
// should_escape_path), and whether url.PathUnescape accepts "%"+two bytes as hex (is_hex).
// validTable: for every byte except '%', whether net/url accepts it in a RawPath (validEncoded):
// EscapedPath returns the RawPath "/c" when it does and re-encodes the Path otherwise; for bytes that
// need no escaping both give "/c", and those bytes are valid.
func validTable() (v [256]bool) {
	for c := 0; c < 256; c++ {
		if c == '%' {
			v[c] = true
			continue
		}
		p := "/" + string([]byte{byte(c)})
		u := url.URL{Path: p, RawPath: p}
		v[c] = u.EscapedPath() == p
	}
	return
}

func escapeTable() (esc [256]bool, hexd [256]int) {
	for c := 0; c < 256; c++ {
		u := url.URL{Path: "/" + string([]byte{byte(c)})}
		esc[c] = u.EscapedPath() != u.Path
		hexd[c] = -1
		if s, err := url.PathUnescape("%" + string([]byte{byte(c)}) + "0"); err == nil && len(s) == 1 {
			hexd[c] = int(s[0] >> 4)
		}
	}
	return
}

// ------------------------------------------------------------------ main

func main() {
	seed := flag.Int64("seed", 1, "seed")
	tier := flag.String("tier", "quick", "quick|thorough")
	out := flag.String("out", "", "output jsonl")
	replay := flag.String("replay", "", "replay file (a violation written by checks/C12.py)")
	flag.Parse()
	if *replay != "" {
		os.Exit(doReplay(*replay))
	}
	f, err := os.Create(*out)
	if err != nil {
		panic(err)
	}
	defer f.Close()
	enc := json.NewEncoder(f)
	emit := func(v interface{}) {
		if err := enc.Encode(v); err != nil {
			panic(err)
		}
	}
	esc, hexd := escapeTable()
	tab := map[string]interface{}{"type": "tab"}
	var el []bool
	var hl []int
	for c := 0; c < 256; c++ {
		el = append(el, esc[c])
		hl = append(hl, hexd[c])
	}
	tab["escape_path"], tab["hex"] = el, hl
	vt := validTable()
	var vl []bool
	for c := 0; c < 256; c++ {
		vl = append(vl, vt[c])
	}
	tab["valid_enc"] = vl
	emit(tab)

	key, err := ecdsa.GenerateKey(elliptic.P256(), crand.Reader)
	if err != nil {
		panic(err)
	}
	worlds, nsign, hists, hlen := 20, 50, 160, 14
	if *tier == "thorough" {
		worlds, nsign, hists, hlen = 120, 60, 2500, 18
	}
	rng := rand.New(rand.NewSource(*seed))
	for i := 0; i < worlds; i++ {
		runWorld(rng, i, key, nsign, emit)
	}
	for i := 0; i < hists; i++ {
		emit(genHistory(rng, i, 4+rng.Intn(hlen)))
	}
	if *tier == "thorough" {
		exhaustiveRootSets(emit)
	}
}

// doReplay re-runs one recorded failing input against the implementation and prints what happens.
func doReplay(path string) int {
	b, err := os.ReadFile(path)
	if err != nil {
		fmt.Println(err)
		return 2
	}
	var r struct {
		Kind string          `json:"kind"`
		Sign *SignCase       `json:"sign"`
		Hist *HistCase       `json:"hist"`
		Raw  json.RawMessage `json:"-"`
	}
	if err := json.Unmarshal(b, &r); err != nil {
		fmt.Println(err)
		return 2
	}
	switch {
	case r.Hist != nil:
		m := newMachine()
		defer m.close()
		var steps []Step
		for _, s := range r.Hist.Steps {
			m.idx = s.Idx
			st := Step{Idx: s.Idx, Op: s.Op}
			if s.Op.Op == "snap" {
				if err := m.snapshotRestore(); err != nil {
					panic(err)
				}
				st.Out = Outj{K: "nil"}
			} else {
				req := reqOf(s.Op)
				buf, _ := structs.Encode(structs.ConnectCARequestType, req)
				st.Out = outOf(m.f.Apply(&raft.Log{Index: s.Idx, Term: 1, Type: raft.LogCommand, Data: buf}))
			}
			st.Dump = m.dump()
			steps = append(steps, st)
			fmt.Printf("idx=%d op=%s out=%+v roots=%+v roots_idx=%d\n", s.Idx, s.Op.Op, st.Out, st.Dump.Roots, st.Dump.RootsIdx)
		}
		o, _ := histOracle(steps)
		fmt.Println("oracle:", o)
		if o != "" {
			return 1
		}
		return 0
	case r.Sign != nil:
		rng := rand.New(rand.NewSource(1))
		key, _ := ecdsa.GenerateKey(elliptic.P256(), crand.Reader)
		dc, _ := hex.DecodeString(r.Sign.DC)
		cl, _ := hex.DecodeString(r.Sign.Cluster)
		w := newWorldEnv(rng, 0, key, genEnv{dc: string(dc), cluster: string(cl)})
		defer w.m.close()
		fmt.Printf("server datacenter %q, cluster ID %q, request URIs %q\nACL rules:\n%s\n", w.env.dc, w.env.cluster, r.Sign.RawURIs, r.Sign.Rules)
		spec := sanSpec{uris: r.Sign.RawURIs, caExt: r.Sign.CAExt}
		pemCSR, err := buildCSR(key, spec)
		if err != nil {
			panic(err)
		}
		csr, err := connect.ParseCSR(pemCSR)
		if err != nil {
			fmt.Println("CSR rejected by crypto/x509:", err)
			return 0
		}
		var az acl.Authorizer = acl.DenyAll()
		switch r.Sign.Rules {
		case "<allow-all>":
			az = acl.AllowAll()
		case "<manage-all>":
			az = acl.ManageAll()
		default:
			if pl, err := acl.NewPolicyFromSource(r.Sign.Rules, nil, nil); err == nil {
				az, _ = acl.NewPolicyAuthorizerWithDefaults(acl.DenyAll(), []*acl.Policy{pl}, nil)
			}
		}
		issued, err := w.mgr.AuthorizeAndSignCertificate(csr, az)
		if err != nil {
			fmt.Println("refused:", err)
			return 0
		}
		leaf, _, _ := connect.ParseLeafCerts(issued.CertPEM)
		fmt.Printf("issued: URIs=%v IsCA=%v serial=%v (the recorded oracle verdict: %s)\n", leaf.URIs, leaf.IsCA, leaf.SerialNumber, r.Sign.Oracle)
		return 1
	}
	fmt.Println("nothing to replay in", path)
	return 2
}

func reqOf(o Opj) *structs.CARequest {
	un := func(h string) string { b, _ := hex.DecodeString(h); return string(b) }
	roots := func() []*structs.CARoot {
		var out []*structs.CARoot
		for _, r := range o.Roots {
			out = append(out, &structs.CARoot{ID: un(r.ID), Active: r.Active, Name: "n", RootCert: "c"})
		}
		return out
	}
	cfg := func() *structs.CAConfiguration {
		if o.Config == nil {
			return nil
		}
		c := &structs.CAConfiguration{Provider: un(o.Config.Provider), ClusterID: un(o.Config.Cluster),
			State: map[string]string{"p": strconv.FormatUint(o.Config.Payload, 10)}}
		c.ModifyIndex = o.Config.Modify
		return c
	}
	switch o.Op {
	case "set_roots":
		return &structs.CARequest{Op: structs.CAOpSetRoots, Index: o.Cidx, Roots: roots()}
	case "set_roots_config":
		return &structs.CARequest{Op: structs.CAOpSetRootsAndConfig, Index: o.Cidx, Roots: roots(), Config: cfg()}
	case "set_config":
		return &structs.CARequest{Op: structs.CAOpSetConfig, Config: cfg()}
	case "set_pstate":
		return &structs.CARequest{Op: structs.CAOpSetProviderState, ProviderState: &structs.CAConsulProviderState{ID: un(o.ID)}}
	case "del_pstate":
		return &structs.CARequest{Op: structs.CAOpDeleteProviderState, ProviderState: &structs.CAConsulProviderState{ID: un(o.ID)}}
	case "incr":
		return &structs.CARequest{Op: structs.CAOpIncrementProviderSerialNumber}
	}
	return &structs.CARequest{Op: structs.CAOp("bogus")}
}
