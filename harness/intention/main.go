// Correspondence harness for property C13 (intention precedence, matching, decisions).
//
// Every case is one history of writes against a real state.Store:
//   - legacy representation: Store.LegacyIntentionSet on the "connect-intentions" table;
//   - config-entry representation: whole service-intentions entries through
//     Normalize / Validate / Store.EnsureConfigEntry (what ConfigEntry.Apply does), or one source at a
//     time through Store.IntentionMutation(IntentionOpUpsert) (what Intention.Apply does).
//
// After the writes it records Store.Intentions, Store.IntentionMatch / IntentionMatchOne by source and by
// destination for every query entry, and Store.IntentionDecision along both routes the servers use
// (match by source + decide on destination = Intention.Check; match by destination + decide on source =
// agent authorize / topology) for every (peer, source, destination).
//
// Cases come in groups: the same set of writes in every order (or up to six orders), so that the
// model-independent oracle can compare the observations across orders.  The oracle also checks, on the
// implementation's answers only: lists strictly sorted by (precedence desc, tie-break), match lists equal to
// the brute-force "pattern covers the name" subset of Store.Intentions, every decision equal to the action
// of the unique most specific covering intention (destination specificity first), both routes equal.
//
// The first output line tabulates the structs-level functions exhaustively on finite universes
// (UpdatePrecedence, computeIntentionPrecedence via Normalize, IntentionPrecedenceSorter.Less,
// connect.IntentionMatch); the check proves the model's functions equal to these tables by vm_compute.
package main

import (
	"bufio"
	"encoding/json"
	"flag"
	"fmt"
	"math/rand"
	"os"
	"sort"
	"strings"
	"sync"

	"github.com/hashicorp/consul/agent/connect"
	"github.com/hashicorp/consul/agent/consul/state"
	"github.com/hashicorp/consul/agent/structs"
)

// ------------------------------------------------------------------ data

type Ixn struct {
	ID    string `json:"id"`
	Peer  string `json:"peer"`
	SNS   string `json:"sns"`
	SName string `json:"sname"`
	DNS   string `json:"dns"`
	DName string `json:"dname"`
	Act   string `json:"act"`
	NPerm int    `json:"nperm"`
	Prec  int    `json:"prec"`
}

type Src struct {
	Peer  string `json:"peer"`
	Name  string `json:"name"`
	Act   string `json:"act"`
	NPerm int    `json:"nperm"`
	Prec  int    `json:"prec"` // Precedence as supplied by the client (Normalize must recompute it)
}

type Op struct {
	Kind string `json:"kind"` // lset | entry | upsert | sdest (service-defaults with a Destination block for Name)
	Ixn  *Ixn   `json:"ixn,omitempty"`
	Name string `json:"name,omitempty"` // entry name / upsert destination
	Srcs []Src  `json:"srcs,omitempty"` // entry: all sources; upsert: exactly one
}

type Case struct {
	ID      int         `json:"id"`
	Group   int         `json:"group"`
	GKind   string      `json:"gkind"`
	Mode    string      `json:"mode"` // legacy | upsert | entry | mixed
	Commute bool        `json:"commute"`
	WF      bool        `json:"wf"` // all stored intentions well-formed and accepted (oracle applies in full)
	Legacy  bool        `json:"legacy"`
	Ops     []Op        `json:"ops"`
	Qs      [][2]string `json:"qs"`
	Peers   []string    `json:"peers"`
	Dflt    bool        `json:"dflt"`
	APerm   bool        `json:"aperm"`

	WRes []int    `json:"wres"`
	WMsg []string `json:"wmsg,omitempty"`
	All  []Ixn    `json:"all"`
	MSrc [][]int  `json:"msrc"`
	MDst [][]int  `json:"mdst"`
	MSrD [][]int  `json:"msrd"` // IntentionMatchOne by source with target type "destination"
	R1   []int    `json:"r1"`
	R2   []int    `json:"r2"`

	Oracle string `json:"oracle"` // "" or the kinds of the direct-oracle failures, comma separated
	Fails  []Fail `json:"fails,omitempty"`
	ToCoq  bool   `json:"to_coq"`

	// not serialised: full lists for the cross-order comparison
	msrcFull, mdstFull, msrdFull [][]Ixn
	mig                          *Case // the same queries on the store obtained by migrating the legacy table
	r1all, r2all       [4][]int
}

type Fail struct {
	Kind   string                 `json:"kind"`
	Detail string                 `json:"detail"`
	Sig    map[string]interface{} `json:"sig"`
	Shrunk *Replay                `json:"shrunk,omitempty"`
}

type Replay struct {
	Legacy bool        `json:"legacy"`
	Ops    []Op        `json:"ops"`
	Ops2   []Op        `json:"ops2,omitempty"` // second history for cross-order failures
	Qs     [][2]string `json:"qs"`
	Peers  []string    `json:"peers"`
	Dflt   bool        `json:"dflt"`
	APerm  bool        `json:"aperm"`
	Reason string      `json:"reason,omitempty"`
}

// ------------------------------------------------------------------ running the implementation

func mkPerms(n int) []*structs.IntentionPermission {
	var out []*structs.IntentionPermission
	for k := 0; k < n; k++ {
		out = append(out, &structs.IntentionPermission{
			Action: structs.IntentionActionAllow,
			HTTP:   &structs.IntentionHTTPPermission{PathExact: fmt.Sprintf("/p%d", k)},
		})
	}
	return out
}

func errCode(err error) int {
	if err == nil {
		return 0
	}
	s := err.Error()
	switch {
	case strings.Contains(s, "Missing Intention ID"):
		return 100
	case strings.Contains(s, "duplicate intention found"):
		return 101
	case s == "Name is required":
		return 1
	case strings.HasPrefix(s, "Name: wildcard character"):
		return 2
	case strings.Contains(s, "At least one source is required"):
		return 3
	case strings.HasPrefix(s, "Sources[") && strings.HasSuffix(s, "].Name is required"):
		return 4
	case strings.HasPrefix(s, "Sources[") && strings.Contains(s, "].Name: wildcard character"):
		return 5
	case strings.HasPrefix(s, "Sources[") && strings.Contains(s, "Peer: cannot use wildcard"):
		return 6
	case strings.Contains(s, "Action must be set to 'allow' or 'deny'"):
		return 7
	case strings.Contains(s, "Action must be omitted if Permissions are specified"):
		return 8
	case strings.Contains(s, "Permissions cannot be specified on intentions with wildcarded destinations"):
		return 9
	case strings.Contains(s, "more than once"):
		return 10
	}
	return 900
}

func project(i *structs.Intention) (Ixn, string) {
	bad := ""
	if i.SourcePartition != "" || i.DestinationPartition != "" || i.SourceSamenessGroup != "" {
		bad = fmt.Sprintf("unexpected tenancy fields %q %q %q", i.SourcePartition, i.DestinationPartition, i.SourceSamenessGroup)
	}
	return Ixn{ID: i.ID, Peer: i.SourcePeer, SNS: i.SourceNS, SName: i.SourceName, DNS: i.DestinationNS,
		DName: i.DestinationName, Act: string(i.Action), NPerm: len(i.Permissions), Prec: i.Precedence}, bad
}

func projectAll(l structs.Intentions) ([]Ixn, string) {
	out := make([]Ixn, 0, len(l))
	bad := ""
	for _, i := range l {
		p, b := project(i)
		if b != "" {
			bad = b
		}
		out = append(out, p)
	}
	return out, bad
}

func sumCode(d structs.IntentionDecisionSummary) int {
	c := 0
	if d.Allowed {
		c |= 1
	}
	if d.HasPermissions {
		c |= 2
	}
	if d.HasExact {
		c |= 4
	}
	return c
}

func toIntention(x *Ixn) *structs.Intention {
	return &structs.Intention{ID: x.ID, SourcePeer: x.Peer, SourceNS: x.SNS, SourceName: x.SName,
		DestinationNS: x.DNS, DestinationName: x.DName, Action: structs.IntentionAction(x.Act),
		Permissions: mkPerms(x.NPerm), SourceType: structs.IntentionSourceConsul, Precedence: x.Prec}
}

func toSource(s Src) *structs.SourceIntention {
	return &structs.SourceIntention{Name: s.Name, Peer: s.Peer, Action: structs.IntentionAction(s.Act),
		Permissions: mkPerms(s.NPerm), Precedence: s.Prec}
}

func newStore(legacy bool) (*state.Store, error) {
	s := state.NewStateStore(nil)
	if legacy {
		return s, nil
	}
	if err := s.SystemMetadataSet(1, &structs.SystemMetadataEntry{
		Key: structs.SystemMetadataIntentionFormatKey, Value: structs.SystemMetadataIntentionFormatConfigValue}); err != nil {
		return nil, err
	}
	// L7 intentions need an L7 protocol on the destination (validateProposedConfigEntryInGraph)
	pd := &structs.ProxyConfigEntry{Kind: structs.ProxyDefaults, Name: structs.ProxyConfigGlobal,
		Config: map[string]interface{}{"protocol": "http"}}
	if err := pd.Normalize(); err != nil {
		return nil, err
	}
	if err := pd.Validate(); err != nil {
		return nil, err
	}
	if err := s.EnsureConfigEntry(2, pd); err != nil {
		return nil, err
	}
	return s, nil
}

func applyOp(s *state.Store, idx uint64, o *Op) error {
	switch o.Kind {
	case "lset":
		return s.LegacyIntentionSet(idx, toIntention(o.Ixn))
	case "entry":
		e := &structs.ServiceIntentionsConfigEntry{Kind: structs.ServiceIntentions, Name: o.Name}
		for _, x := range o.Srcs {
			e.Sources = append(e.Sources, toSource(x))
		}
		if err := e.Normalize(); err != nil {
			return err
		}
		if err := e.Validate(); err != nil {
			return err
		}
		return s.EnsureConfigEntry(idx, e)
	case "sdest":
		e := &structs.ServiceConfigEntry{Kind: structs.ServiceDefaults, Name: o.Name,
			Destination: &structs.DestinationConfig{Addresses: []string{"ext.example.com"}, Port: 443}}
		if err := e.Normalize(); err != nil {
			return err
		}
		if err := e.Validate(); err != nil {
			return err
		}
		return s.EnsureConfigEntry(idx, e)
	case "upsert":
		x := o.Srcs[0]
		return s.IntentionMutation(idx, structs.IntentionOpUpsert, &structs.IntentionMutation{
			Destination: structs.NewServiceName(o.Name, nil),
			Source:      structs.NewServiceName(x.Name, nil),
			Value:       toSource(x),
		})
	}
	return fmt.Errorf("unknown op %q", o.Kind)
}

func ikey(x Ixn) string {
	return strings.Join([]string{x.ID, x.Peer, x.SNS, x.SName, x.DNS, x.DName}, "\x00")
}

var combos = [4][2]bool{{false, false}, {false, true}, {true, false}, {true, true}}

func comboIndex(d, a bool) int {
	k := 0
	if d {
		k |= 2
	}
	if a {
		k |= 1
	}
	return k
}

// execute runs the writes and all queries of c on a fresh store and fills the observation fields.
// Returns a non-empty string when something outside the modelled behaviour happened.
func execute(c *Case) string {
	problem := ""
	s, err := newStore(c.Legacy)
	if err != nil {
		return "store setup: " + err.Error()
	}
	c.WRes, c.WMsg = nil, nil
	idx := uint64(10)
	for k := range c.Ops {
		idx++
		err := applyOp(s, idx, &c.Ops[k])
		code := errCode(err)
		c.WRes = append(c.WRes, code)
		if err != nil {
			c.WMsg = append(c.WMsg, err.Error())
			if code == 900 {
				problem = "unclassified write error: " + err.Error()
			}
		} else {
			c.WMsg = append(c.WMsg, "")
		}
	}
	if p := observe(s, c); p != "" {
		problem = p
	}
	c.mig = nil
	if c.Legacy && c.WF && problem == "" {
		if p := migrate(s, c); p != "" {
			problem = p
		}
	}
	return problem
}

// migrate rebuilds the legacy table as service-intentions config entries the way the leader's migration does
// (structs.MigrateIntentions, LegacyNormalize, LegacyValidate, config entry upsert) and asks the same questions.
// Only for tables the legacy endpoints could have produced: local sources, default namespace, allow/deny.
func migrate(s *state.Store, c *Case) string {
	_, rows, err := s.LegacyIntentions(nil, nil)
	if err != nil {
		return "LegacyIntentions: " + err.Error()
	}
	if len(rows) == 0 {
		return ""
	}
	for _, r := range rows {
		if r.SourcePeer != "" || r.SourceNS != "default" || r.DestinationNS != "default" || len(r.Permissions) > 0 ||
			(r.Action != structs.IntentionActionAllow && r.Action != structs.IntentionActionDeny) ||
			(r.SourceName != "*" && strings.Contains(r.SourceName, "*")) || (r.DestinationName != "*" && strings.Contains(r.DestinationName, "*")) {
			return ""
		}
	}
	s2, err := newStore(false)
	if err != nil {
		return "store setup: " + err.Error()
	}
	m := &Case{Legacy: false, WF: true, Qs: c.Qs, Peers: c.Peers, Dflt: c.Dflt, APerm: c.APerm}
	idx := uint64(100)
	for _, e := range structs.MigrateIntentions(rows) {
		idx++
		if err := e.LegacyNormalize(); err != nil {
			return "migration LegacyNormalize: " + err.Error()
		}
		if err := e.LegacyValidate(); err != nil {
			return "migration LegacyValidate: " + err.Error()
		}
		if err := s2.EnsureConfigEntry(idx, e); err != nil {
			return "migration EnsureConfigEntry: " + err.Error()
		}
	}
	if p := observe(s2, m); p != "" {
		return "migrated store: " + p
	}
	c.mig = m
	return ""
}

// observe asks every question of the case on store s and fills the observation fields of c.
func observe(s *state.Store, c *Case) string {
	problem := ""
	_, all, _, err := s.Intentions(nil, nil)
	if err != nil {
		return "Intentions: " + err.Error()
	}
	var bad string
	c.All, bad = projectAll(all)
	if bad != "" {
		problem = bad
	}
	pos := map[string]int{}
	for k, x := range c.All {
		pos[ikey(x)] = k
	}
	index := func(l []Ixn) []int {
		out := make([]int, 0, len(l))
		for _, x := range l {
			if p, ok := pos[ikey(x)]; ok && c.All[p] == x {
				out = append(out, p)
			} else {
				out = append(out, 9999)
				problem = "match result not in Store.Intentions: " + fmt.Sprint(x)
			}
		}
		return out
	}
	nq := len(c.Qs)
	srcLists := make([]structs.SimplifiedIntentions, nq)
	dstLists := make([]structs.SimplifiedIntentions, nq)
	c.MSrc, c.MDst, c.MSrD = make([][]int, nq), make([][]int, nq), make([][]int, nq)
	c.msrcFull, c.mdstFull, c.msrdFull = make([][]Ixn, nq), make([][]Ixn, nq), make([][]Ixn, nq)
	for k, q := range c.Qs {
		entry := structs.IntentionMatchEntry{Namespace: q[0], Name: q[1]}
		_, oned, err := s.IntentionMatchOne(nil, entry, structs.IntentionMatchSource, structs.IntentionTargetDestination)
		if err != nil {
			return "IntentionMatchOne(destination target): " + err.Error()
		}
		pd, bd := projectAll(structs.Intentions(oned))
		if bd != "" {
			problem = bd
		}
		c.MSrD[k], c.msrdFull[k] = index(pd), pd
		for _, mt := range []structs.IntentionMatchType{structs.IntentionMatchSource, structs.IntentionMatchDestination} {
			_, ls, err := s.IntentionMatch(nil, &structs.IntentionQueryMatch{Type: mt, Entries: []structs.IntentionMatchEntry{entry}})
			if err != nil || len(ls) != 1 {
				return fmt.Sprintf("IntentionMatch: %v", err)
			}
			_, one, err := s.IntentionMatchOne(nil, entry, mt, structs.IntentionTargetService)
			if err != nil {
				return "IntentionMatchOne: " + err.Error()
			}
			pl, b1 := projectAll(ls[0])
			po, b2 := projectAll(structs.Intentions(one))
			if b1 != "" || b2 != "" {
				problem = b1 + b2
			}
			if fmt.Sprint(pl) != fmt.Sprint(po) {
				problem = fmt.Sprintf("IntentionMatch and IntentionMatchOne differ for %v/%s", q, mt)
			}
			if mt == structs.IntentionMatchSource {
				srcLists[k], c.MSrc[k], c.msrcFull[k] = one, index(pl), pl
			} else {
				dstLists[k], c.MDst[k], c.mdstFull[k] = one, index(pl), pl
			}
		}
	}
	for ci, cb := range combos {
		var r1, r2 []int
		for ks := range c.Qs {
			for _, qd := range c.Qs {
				d, err := s.IntentionDecision(state.IntentionDecisionOpts{Target: qd[1], Namespace: qd[0],
					Intentions: srcLists[ks], MatchType: structs.IntentionMatchDestination,
					DefaultAllow: cb[0], AllowPermissions: cb[1]})
				if err != nil {
					return "IntentionDecision: " + err.Error()
				}
				if d.ExternalSource != "" || d.DefaultAllow != cb[0] {
					problem = "unexpected summary fields"
				}
				r1 = append(r1, sumCode(d))
			}
		}
		for _, peer := range c.Peers {
			for _, qs := range c.Qs {
				for kd := range c.Qs {
					d, err := s.IntentionDecision(state.IntentionDecisionOpts{Target: qs[1], Namespace: qs[0], Peer: peer,
						Intentions: dstLists[kd], MatchType: structs.IntentionMatchSource,
						DefaultAllow: cb[0], AllowPermissions: cb[1]})
					if err != nil {
						return "IntentionDecision: " + err.Error()
					}
					r2 = append(r2, sumCode(d))
				}
			}
		}
		c.r1all[ci], c.r2all[ci] = r1, r2
	}
	k := comboIndex(c.Dflt, c.APerm)
	c.R1, c.R2 = c.r1all[k], c.r2all[k]
	return problem
}

// ------------------------------------------------------------------ the direct oracle (model independent)

func lessSpec(a, b Ixn) bool { // the order the property demands of every returned list
	if a.Prec != b.Prec {
		return a.Prec > b.Prec
	}
	ka := []string{a.Peer, a.SNS, a.SName, a.DNS, a.DName}
	kb := []string{b.Peer, b.SNS, b.SName, b.DNS, b.DName}
	for i := range ka {
		if ka[i] != kb[i] {
			return ka[i] < kb[i]
		}
	}
	return false
}

func patCovers(pns, pname, ns, name string) bool {
	return (pns == "*" || pns == ns) && (pname == "*" || pname == name)
}

func spec(ns, name string) int {
	n := 0
	if ns != "*" {
		n++
	}
	if name != "*" {
		n++
	}
	return n
}

// A failure of the direct oracle.  [cause] says whether one of the RECORDED weaknesses of the code explains
// exactly this failure (the offending intention / query / decision, not the case as a whole):
//   peer-twin  the extra element of a source match is a peered intention next to a local twin with the same names
//   case-fold  the observed answer is what results when the index lookup of that route folds letter case
//   dest-kind  the destination's name has a service-defaults entry with a Destination block
// "" = unexplained.  Only (kind, cause) pairs listed in known_findings.json are tolerated.
type fail struct{ kind, detail, cause string }

// oracleCase returns the first failure of every (kind, cause).
func oracleCase(c *Case) []*fail {
	var out []*fail
	seen := map[string]bool{}
	for _, f := range oracleAll(c) {
		if !seen[f.kind+"/"+f.cause] {
			seen[f.kind+"/"+f.cause] = true
			out = append(out, f)
		}
	}
	return out
}

func hasKind(fs []*fail, kind, cause string) *fail {
	for _, f := range fs {
		if f.kind == kind && f.cause == cause {
			return f
		}
	}
	return nil
}

func fold(s string) string { return strings.ToLower(s) }

func patCoversFold(pns, pname, ns, name string) bool {
	return (pns == "*" || fold(pns) == fold(ns)) && (pname == "*" || fold(pname) == fold(name))
}

func moreSpecific(x, y *Ixn) int { // 1: x above y, 0: tie, -1: below
	sx := [2]int{spec(x.DNS, x.DName), spec(x.SNS, x.SName)}
	sy := [2]int{spec(y.DNS, y.DName), spec(y.SNS, y.SName)}
	switch {
	case sx == sy:
		return 0
	case sx[0] > sy[0] || (sx[0] == sy[0] && sx[1] > sy[1]):
		return 1
	}
	return -1
}

func bestOf(all []Ixn, pred func(x *Ixn) bool) (best *Ixn, tie bool) {
	for k := range all {
		x := &all[k]
		if !pred(x) {
			continue
		}
		if best == nil {
			best = x
			continue
		}
		switch moreSpecific(x, best) {
		case 0:
			tie = true
		case 1:
			best, tie = x, false
		}
	}
	return
}

func summaryWant(best *Ixn, cb [2]bool) int {
	want := 0
	if best == nil {
		if cb[0] {
			want = 1
		}
		return want
	}
	if best.NPerm > 0 {
		want |= 2
		if cb[1] {
			want |= 1
		}
	} else if best.Act == "allow" {
		want |= 1
	}
	if best.SName != "*" && best.DName != "*" {
		want |= 4
	}
	return want
}

// destKinds: lower-cased names that got a service-defaults entry with a Destination block in this history
func destKinds(c *Case) map[string]bool {
	out := map[string]bool{}
	for k, o := range c.Ops {
		if o.Kind == "sdest" && k < len(c.WRes) && c.WRes[k] == 0 {
			out[fold(o.Name)] = true
		}
	}
	return out
}

// asBuilt: the decision a route gives when the recorded weaknesses [useFold], [useDK] are taken into account.
// Used ONLY to attribute a failure to a recorded finding; the property itself is bestOf with exact covering.
func asBuilt(c *Case, dk map[string]bool, route int, useFold, useDK bool, peer string, qs, qd [2]string, cb [2]bool) (int, bool) {
	best, tie := bestOf(c.All, func(x *Ixn) bool {
		if x.Peer != peer {
			return false
		}
		if route == 2 { // list looked up by destination, decided on the source
			d := patCovers(x.DNS, x.DName, qd[0], qd[1])
			if useFold {
				d = patCoversFold(x.DNS, x.DName, qd[0], qd[1])
			}
			return d && patCovers(x.SNS, x.SName, qs[0], qs[1])
		}
		sm := patCovers(x.SNS, x.SName, qs[0], qs[1])
		if useFold && c.Legacy { // only the legacy source index folds
			sm = patCoversFold(x.SNS, x.SName, qs[0], qs[1])
		}
		if useDK && !c.Legacy && dk[fold(x.DName)] {
			return false
		}
		return sm && patCovers(x.DNS, x.DName, qd[0], qd[1])
	})
	return summaryWant(best, cb), tie
}

func oracleAll(c *Case) (out []*fail) {
	// O-sorted: every list strictly sorted
	chk := func(what string, l []Ixn) *fail {
		for k := 0; k+1 < len(l); k++ {
			if !lessSpec(l[k], l[k+1]) {
				return &fail{"not-sorted", fmt.Sprintf("%s: %v before %v", what, l[k], l[k+1]), ""}
			}
		}
		return nil
	}
	if f := chk("Store.Intentions", c.All); f != nil {
		out = append(out, f)
	}
	for k := range c.Qs {
		if f := chk(fmt.Sprintf("match source %v", c.Qs[k]), c.msrcFull[k]); f != nil {
			out = append(out, f)
		}
		if f := chk(fmt.Sprintf("match destination %v", c.Qs[k]), c.mdstFull[k]); f != nil {
			out = append(out, f)
		}
		if f := chk(fmt.Sprintf("match source (destination target) %v", c.Qs[k]), c.msrdFull[k]); f != nil {
			out = append(out, f)
		}
	}
	if !c.WF {
		return out
	}
	dk := destKinds(c)
	// O-prec: precedence numbers order exactly like (destination specificity, source specificity)
	for i := range c.All {
		for j := range c.All {
			a, b := &c.All[i], &c.All[j]
			if (moreSpecific(a, b) == 1) != (a.Prec > b.Prec) {
				out = append(out, &fail{"precedence-not-specificity", fmt.Sprintf("%v vs %v", *a, *b), ""})
			}
		}
	}
	// O-match: match lists are exactly the covering subsets of Store.Intentions
	localTwin := func(x Ixn) bool {
		for _, y := range c.All {
			if y.Peer == "" && y.SNS == x.SNS && y.SName == x.SName && y.DNS == x.DNS && y.DName == x.DName {
				return true
			}
		}
		return false
	}
	for k, q := range c.Qs {
		wantS, wantD := map[string]bool{}, map[string]bool{}
		for _, x := range c.All {
			if x.Peer == "" && patCovers(x.SNS, x.SName, q[0], q[1]) {
				wantS[ikey(x)] = true
			}
			if patCovers(x.DNS, x.DName, q[0], q[1]) {
				wantD[ikey(x)] = true
			}
		}
		cmp := func(side string, want map[string]bool, got []Ixn) (fs []*fail) {
			seen := map[string]bool{}
			for _, x := range got {
				seen[ikey(x)] = true
				if want[ikey(x)] {
					continue
				}
				cause := ""
				switch {
				case side == "src" && !c.Legacy && x.Peer != "" && patCovers(x.SNS, x.SName, q[0], q[1]) && localTwin(x):
					cause = "peer-twin"
				case side == "src" && c.Legacy && x.Peer == "" && patCoversFold(x.SNS, x.SName, q[0], q[1]):
					cause = "case-fold"
				case side == "dst" && patCoversFold(x.DNS, x.DName, q[0], q[1]):
					cause = "case-fold"
				}
				fs = append(fs, &fail{side + "-match-extra", fmt.Sprintf("query %v: %v does not cover it", q, x), cause})
			}
			for _, x := range c.All {
				if want[ikey(x)] && !seen[ikey(x)] {
					cause := ""
					if side == "src" && !c.Legacy && dk[fold(x.DName)] {
						cause = "dest-kind"
					}
					fs = append(fs, &fail{side + "-match-missing", fmt.Sprintf("query %v: %v covers it but is not returned", q, x), cause})
				}
			}
			return fs
		}
		out = append(out, cmp("src", wantS, c.msrcFull[k])...)
		out = append(out, cmp("dst", wantD, c.mdstFull[k])...)
		// target type "destination": only intentions whose destination is a destination-kind name or the wildcard
		if !c.Legacy {
			wantT := map[string]bool{}
			for _, x := range c.All {
				if wantS[ikey(x)] && (dk[fold(x.DName)] || x.DName == "*") {
					wantT[ikey(x)] = true
				}
			}
			for _, f := range cmp("src", wantT, c.msrdFull[k]) {
				f.kind = "dest-target-" + f.kind
				if f.cause == "dest-kind" {
					f.cause = ""
				}
				out = append(out, f)
			}
		}
	}
	// O-decide: the unique most specific covering intention decides, else the default; both routes agree
	nq := len(c.Qs)
	for ci, cb := range combos {
		for pi, peer := range c.Peers {
			for ks, qs := range c.Qs {
				for kd, qd := range c.Qs {
					best, tie := bestOf(c.All, func(x *Ixn) bool {
						return x.Peer == peer && patCovers(x.SNS, x.SName, qs[0], qs[1]) && patCovers(x.DNS, x.DName, qd[0], qd[1])
					})
					if tie {
						out = append(out, &fail{"ambiguous-most-specific", fmt.Sprintf("%q %v -> %v", peer, qs, qd), ""})
						continue
					}
					want := summaryWant(best, cb)
					got2 := c.r2all[ci][(pi*nq+ks)*nq+kd]
					if got2 != want {
						cause := ""
						if w, t := asBuilt(c, dk, 2, true, false, peer, qs, qd, cb); !t && w == got2 {
							cause = "case-fold"
						}
						out = append(out, &fail{"decision-not-most-specific", fmt.Sprintf("route match-by-destination: peer %q %v -> %v default_allow=%v allow_perms=%v: got %d want %d (deciding intention %v)", peer, qs, qd, cb[0], cb[1], got2, want, best), cause})
					}
					if peer == "" {
						got1 := c.r1all[ci][ks*nq+kd]
						if got1 != got2 {
							cause := ""
							for _, fl := range []struct {
								f, d bool
								n    string
							}{{true, false, "case-fold"}, {false, true, "dest-kind"}, {true, true, "case-fold+dest-kind"}} {
								w1, t1 := asBuilt(c, dk, 1, fl.f, fl.d, peer, qs, qd, cb)
								w2, t2 := asBuilt(c, dk, 2, fl.f, fl.d, peer, qs, qd, cb)
								if !t1 && !t2 && w1 == got1 && w2 == got2 {
									cause = fl.n
									break
								}
							}
							out = append(out, &fail{"routes-disagree", fmt.Sprintf("%v -> %v default_allow=%v allow_perms=%v: match-by-source gives %d, match-by-destination gives %d", qs, qd, cb[0], cb[1], got1, got2), cause})
						}
					}
				}
			}
		}
	}
	// O-migrate: the legacy table and its migration to config entries (structs.MigrateIntentions) answer alike.
	// The one recorded divergence: the legacy source index folds case, the config-entry one does not, and two
	// destinations differing only in case collapse into one entry.  A difference is attributed to it only when it
	// vanishes on the queries whose names have no differently-spelled twin among the stored names.
	if c.mig != nil {
		if d := sameObsOn(c, c.mig, nil); d != "" {
			stored := map[string]string{}
			collide := false
			for _, x := range c.All {
				for _, n := range []string{x.SName, x.DName} {
					if o, ok := stored[fold(n)]; ok && o != n {
						collide = true
					}
					stored[fold(n)] = n
				}
			}
			cause := ""
			if collide {
				cause = "case-fold"
			} else if sameObsOn(c, c.mig, func(q [2]string) bool { o, ok := stored[fold(q[1])]; return !ok || o == q[1] }) == "" {
				cause = "case-fold"
			}
			out = append(out, &fail{"representations-disagree", "legacy table vs MigrateIntentions + LegacyNormalize/Validate + EnsureConfigEntry: " + d, cause})
		}
	}
	return out
}

func sameObs(a, b *Case) string { return sameObsOn(a, b, nil) }

// sameObsOn compares the observations of two cases, optionally only on the query entries accepted by okq.
func sameObsOn(a, b *Case, okq func(q [2]string) bool) string {
	if fmt.Sprint(a.All) != fmt.Sprint(b.All) {
		return fmt.Sprintf("Store.Intentions differs: %v vs %v", a.All, b.All)
	}
	nq := len(a.Qs)
	ok := func(k int) bool { return okq == nil || okq(a.Qs[k]) }
	for k := range a.Qs {
		if !ok(k) {
			continue
		}
		if fmt.Sprint(a.msrcFull[k]) != fmt.Sprint(b.msrcFull[k]) {
			return fmt.Sprintf("match by source %v differs", a.Qs[k])
		}
		if fmt.Sprint(a.mdstFull[k]) != fmt.Sprint(b.mdstFull[k]) {
			return fmt.Sprintf("match by destination %v differs", a.Qs[k])
		}
	}
	for ci := range a.r1all {
		for ks := 0; ks < nq; ks++ {
			for kd := 0; kd < nq; kd++ {
				if !ok(ks) || !ok(kd) {
					continue
				}
				if a.r1all[ci][ks*nq+kd] != b.r1all[ci][ks*nq+kd] {
					return fmt.Sprintf("decision (match by source) %v -> %v differs", a.Qs[ks], a.Qs[kd])
				}
				for pi := range a.Peers {
					if a.r2all[ci][(pi*nq+ks)*nq+kd] != b.r2all[ci][(pi*nq+ks)*nq+kd] {
						return fmt.Sprintf("decision (match by destination) peer %q %v -> %v differs", a.Peers[pi], a.Qs[ks], a.Qs[kd])
					}
				}
			}
		}
	}
	return ""
}

// orderCause attributes a cross-history difference: "case-fold" when two WRITTEN names differ only in letter
// case, "peer-twin" when an upsert names a source that an entry of the history holds under two peers.
func orderCause(a, b *Case) string {
	names := map[string]string{}
	mixed := false
	add := func(n string) {
		if n == "" {
			return
		}
		if o, ok := names[fold(n)]; ok && o != n {
			mixed = true
		}
		names[fold(n)] = n
	}
	twin := map[string]bool{}
	upserted := map[string]bool{}
	for _, c := range []*Case{a, b} {
		for _, o := range c.Ops {
			add(o.Name)
			if o.Ixn != nil {
				add(o.Ixn.SName)
				add(o.Ixn.DName)
			}
			for i, s := range o.Srcs {
				add(s.Name)
				if o.Kind == "upsert" {
					upserted[fold(o.Name)+"|"+s.Name] = true
				}
				for _, t := range o.Srcs[:i] {
					if o.Kind == "entry" && t.Name == s.Name && t.Peer != s.Peer {
						twin[fold(o.Name)+"|"+s.Name] = true
					}
				}
			}
		}
	}
	if mixed {
		return "case-fold"
	}
	for k := range twin {
		if upserted[k] {
			return "peer-twin"
		}
	}
	return ""
}

// structured signature of an oracle failure: what failed and which recorded weakness (if any) explains THIS failure
func signature(c *Case, kind, cause string) map[string]interface{} {
	return map[string]interface{}{"kind": kind, "cause": cause, "legacy": c.Legacy}
}

// ------------------------------------------------------------------ shrinking

func cloneOps(ops []Op) []Op {
	b, _ := json.Marshal(ops)
	var out []Op
	_ = json.Unmarshal(b, &out)
	return out
}

func shrinkSingle(c *Case, kind, cause string) *Replay {
	cur := &Case{Legacy: c.Legacy, WF: c.WF, Ops: cloneOps(c.Ops), Qs: c.Qs, Peers: c.Peers, Dflt: c.Dflt, APerm: c.APerm}
	changed := true
	for changed {
		changed = false
		for k := range cur.Ops {
			t := &Case{Legacy: cur.Legacy, WF: cur.WF, Qs: cur.Qs, Peers: cur.Peers, Dflt: cur.Dflt, APerm: cur.APerm}
			t.Ops = append(cloneOps(cur.Ops[:k]), cloneOps(cur.Ops[k+1:])...)
			if execute(t) != "" {
				continue
			}
			if hasKind(oracleCase(t), kind, cause) != nil {
				cur, changed = t, true
				break
			}
		}
	}
	_ = execute(cur)
	f := hasKind(oracleCase(cur), kind, cause)
	r := &Replay{Legacy: cur.Legacy, Ops: cur.Ops, Qs: cur.Qs, Peers: cur.Peers, Dflt: cur.Dflt, APerm: cur.APerm}
	if f != nil {
		r.Reason = f.kind + " [" + f.cause + "]: " + f.detail
	}
	return r
}

func opKey(o Op) string { b, _ := json.Marshal(o); return string(b) }

func shrinkPair(a, b *Case) *Replay {
	mk := func(c *Case, ops []Op) *Case {
		return &Case{Legacy: c.Legacy, WF: c.WF, Ops: cloneOps(ops), Qs: c.Qs, Peers: c.Peers, Dflt: c.Dflt, APerm: c.APerm}
	}
	ca, cb := mk(a, a.Ops), mk(b, b.Ops)
	changed := true
	for changed {
		changed = false
		for k := range ca.Ops {
			key := opKey(ca.Ops[k])
			na := append(cloneOps(ca.Ops[:k]), cloneOps(ca.Ops[k+1:])...)
			var nb []Op
			removed := false
			for _, o := range cb.Ops {
				if !removed && opKey(o) == key {
					removed = true
					continue
				}
				nb = append(nb, o)
			}
			if !removed {
				continue
			}
			ta, tb := mk(a, na), mk(b, nb)
			if execute(ta) != "" || execute(tb) != "" {
				continue
			}
			if sameObs(ta, tb) != "" {
				ca, cb, changed = ta, tb, true
				break
			}
		}
	}
	_ = execute(ca)
	_ = execute(cb)
	return &Replay{Legacy: a.Legacy, Ops: ca.Ops, Ops2: cb.Ops, Qs: a.Qs, Peers: a.Peers, Dflt: a.Dflt, APerm: a.APerm,
		Reason: "the two histories end with the same writes applied but: " + sameObs(ca, cb)}
}

// ------------------------------------------------------------------ generators

type write struct { // one logical intention write
	Peer, SNS, SName, DNS, DName, Act string
	NPerm                             int
	Prec                              int // precedence supplied by the client (must be ignored by the code)
}

type group struct {
	kind    string
	mode    string
	writes  []write
	orders  [][]int
	commute bool
	wf      bool
	prefix  [][]Op // optional per-order prefix histories (stored-order groups)
	extraQ  []string
	scripts [][]Op // when set: the cases of the group are these explicit histories (writes/orders unused)
}

func permutations(n int) [][]int {
	var out [][]int
	var rec func(cur []int, used []bool)
	rec = func(cur []int, used []bool) {
		if len(cur) == n {
			out = append(out, append([]int(nil), cur...))
			return
		}
		for i := 0; i < n; i++ {
			if !used[i] {
				used[i] = true
				rec(append(cur, i), used)
				used[i] = false
			}
		}
	}
	rec(nil, make([]bool, n))
	return out
}

func somePerms(rng *rand.Rand, n, max int) [][]int {
	if n <= 3 {
		return permutations(n)
	}
	id := make([]int, n)
	rev := make([]int, n)
	for i := range id {
		id[i], rev[i] = i, n-1-i
	}
	out := [][]int{id, rev}
	seen := map[string]bool{fmt.Sprint(id): true, fmt.Sprint(rev): true}
	for len(out) < max {
		p := rng.Perm(n)
		if !seen[fmt.Sprint(p)] {
			seen[fmt.Sprint(p)] = true
			out = append(out, p)
		}
	}
	return out
}

func actOf(a string) (string, int) {
	if a == "l7" {
		return "", 1
	}
	return a, 0
}

// buildOps turns logical writes, in the given order, into store operations for the mode.
func buildOps(g *group, gid int, order []int) []Op {
	var ops []Op
	type ent struct {
		name string
		srcs []Src
	}
	var client []*ent // what a config-entry client would hold, per destination name
	for pos, wi := range order {
		w := g.writes[wi]
		mode := g.mode
		if mode == "mixed" {
			if (wi+gid)%2 == 0 && w.Peer == "" {
				mode = "upsert"
			} else {
				mode = "entry"
			}
		}
		switch mode {
		case "legacy":
			id := fmt.Sprintf("%08x-0000-4000-8000-%012x", gid, wi+1)
			if w.SNS == "!noid" {
				id = ""
			}
			_ = pos
			sns := w.SNS
			if sns == "!noid" {
				sns = "default"
			}
			ops = append(ops, Op{Kind: "lset", Ixn: &Ixn{ID: id, Peer: w.Peer, SNS: sns, SName: w.SName, DNS: w.DNS, DName: w.DName, Act: w.Act, NPerm: w.NPerm, Prec: w.Prec}})
		case "upsert":
			ops = append(ops, Op{Kind: "upsert", Name: w.DName, Srcs: []Src{{Peer: w.Peer, Name: w.SName, Act: w.Act, NPerm: w.NPerm, Prec: w.Prec}}})
			// keep the client view in step (used by later whole-entry writes in mixed mode)
			var e *ent
			for _, x := range client {
				if x.name == w.DName {
					e = x
				}
			}
			if e == nil {
				e = &ent{name: w.DName}
				client = append(client, e)
			}
			done := false
			for k := range e.srcs {
				if e.srcs[k].Name == w.SName && e.srcs[k].Peer == w.Peer {
					e.srcs[k] = Src{Peer: w.Peer, Name: w.SName, Act: w.Act, NPerm: w.NPerm, Prec: w.Prec}
					done = true
				}
			}
			if !done {
				e.srcs = append(e.srcs, Src{Peer: w.Peer, Name: w.SName, Act: w.Act, NPerm: w.NPerm, Prec: w.Prec})
			}
		case "entry":
			var e *ent
			for _, x := range client {
				if x.name == w.DName {
					e = x
				}
			}
			if e == nil {
				e = &ent{name: w.DName}
				client = append(client, e)
			}
			done := false
			for k := range e.srcs {
				if e.srcs[k].Name == w.SName && e.srcs[k].Peer == w.Peer {
					e.srcs[k] = Src{Peer: w.Peer, Name: w.SName, Act: w.Act, NPerm: w.NPerm, Prec: w.Prec}
					done = true
				}
			}
			if !done {
				e.srcs = append(e.srcs, Src{Peer: w.Peer, Name: w.SName, Act: w.Act, NPerm: w.NPerm, Prec: w.Prec})
			}
			ops = append(ops, Op{Kind: "entry", Name: e.name, Srcs: append([]Src(nil), e.srcs...)})
		}
	}
	return ops
}

// queriesFor: the query entries and peers of a group, from every name its histories mention (shared by
// all cases of the group so that their observations can be compared).
func queriesFor(g *group, histories [][]Op) ([][2]string, []string) {
	names := map[string]bool{"*": true, "zz": true}
	nss := map[string]bool{"default": true}
	peers := map[string]bool{"": true}
	addName := func(n string) {
		if n != "" && (!strings.Contains(n, "*") || n == "*") {
			names[n] = true
		}
	}
	for _, ops := range histories {
		for _, o := range ops {
			addName(o.Name)
			for _, s := range o.Srcs {
				addName(s.Name)
				if s.Peer != "" && !strings.Contains(s.Peer, "*") {
					peers[s.Peer] = true
				}
			}
			if o.Ixn != nil {
				addName(o.Ixn.SName)
				addName(o.Ixn.DName)
				if o.Ixn.SNS != "" {
					nss[o.Ixn.SNS] = true
				}
				if o.Ixn.DNS != "" {
					nss[o.Ixn.DNS] = true
				}
				if o.Ixn.Peer != "" {
					peers[o.Ixn.Peer] = true
				}
			}
		}
	}
	for _, n := range g.extraQ {
		names[n] = true
	}
	var ns, nn, pp []string
	for n := range names {
		nn = append(nn, n)
	}
	for n := range nss {
		ns = append(ns, n)
	}
	for p := range peers {
		pp = append(pp, p)
	}
	sort.Strings(nn)
	sort.Strings(ns)
	sort.Strings(pp)
	var qs [][2]string
	for _, a := range ns {
		for _, b := range nn {
			if a == "*" && b != "*" {
				continue // not a valid query entry
			}
			if a != "default" && a != "*" && b == "zz" {
				continue // the fresh name once is enough
			}
			qs = append(qs, [2]string{a, b})
		}
	}
	return qs, pp
}

func genGroups(rng *rand.Rand, tier string) []*group {
	var gs []*group
	// ---- 1. exhaustive small scope: sources/destinations over {a,b,*}, allow/deny/L7, sets of <= 3 distinct pairs
	names := []string{"a", "b", "*"}
	acts := []string{"allow", "deny", "l7"}
	type pair struct{ s, d string }
	var pairs []pair
	for _, s := range names {
		for _, d := range names {
			pairs = append(pairs, pair{s, d})
		}
	}
	var sets [][]write
	var rec func(start int, cur []write)
	rec = func(start int, cur []write) {
		if len(cur) > 0 {
			sets = append(sets, append([]write(nil), cur...))
		}
		if len(cur) == 3 {
			return
		}
		for p := start; p < len(pairs); p++ {
			for _, a := range acts {
				act, np := actOf(a)
				rec(p+1, append(cur, write{SNS: "default", SName: pairs[p].s, DNS: "default", DName: pairs[p].d, Act: act, NPerm: np}))
			}
		}
	}
	rec(0, nil)
	keepEvery := 1
	if tier != "thorough" {
		keepEvery = 14
	}
	off := rng.Intn(keepEvery)
	for k, set := range sets {
		if (k+off)%keepEvery != 0 {
			continue
		}
		for _, mode := range []string{"legacy", "upsert", "entry"} {
			commute := true
			for _, w := range set {
				if mode == "entry" && w.NPerm > 0 && w.DName == "*" {
					// a whole-entry client keeps resending the rejected source: later writes fail by its own doing
					commute = false
				}
			}
			gs = append(gs, &group{kind: "small-exhaustive", mode: mode, writes: set, orders: permutations(len(set)), commute: commute, wf: true})
		}
	}
	// ---- 2. random larger sets with peer sources
	nLarge := 60
	if tier == "thorough" {
		nLarge = 1500
	}
	big := []string{"web", "api", "db", "cache", "*"}
	for k := 0; k < nLarge; k++ {
		n := 4 + rng.Intn(4)
		mode := []string{"legacy", "upsert", "entry", "mixed"}[rng.Intn(4)]
		var ws []write
		keys := map[string]bool{}
		commute := true
		for len(ws) < n {
			w := write{SNS: "default", DNS: "default", SName: big[rng.Intn(len(big))], DName: big[rng.Intn(len(big))]}
			switch rng.Intn(5) {
			case 0, 1:
				w.Act = "allow"
			case 2, 3:
				w.Act = "deny"
			default:
				if mode != "legacy" && w.DName != "*" {
					w.NPerm = 1 + rng.Intn(2)
				} else {
					w.Act = "deny"
				}
			}
			if (mode == "entry" || mode == "mixed") && rng.Intn(3) == 0 {
				w.Peer = []string{"p", "q"}[rng.Intn(2)]
			}
			if rng.Intn(2) == 0 {
				w.Prec = 1 + rng.Intn(12) // a client-supplied Precedence: recomputed by the code
			}
			key := w.Peer + "|" + w.SName + "|" + w.DName
			nameKey := w.SName + "|" + w.DName
			if keys[key] {
				if rng.Intn(4) != 0 {
					continue
				}
				commute = false // the same intention written twice: the last write wins, order matters by design
			}
			if mode == "mixed" && keys["n:"+nameKey] && !keys[key] {
				continue // keep local/peered twins out of the upsert path here (covered by the stored-order groups)
			}
			keys[key], keys["n:"+nameKey] = true, true
			ws = append(ws, w)
		}
		gs = append(gs, &group{kind: "random-large", mode: mode, writes: ws, orders: somePerms(rng, n, 6), commute: commute, wf: true})
	}
	// ---- 3. legacy rows with namespaces (store level): wildcard namespaces, other namespaces
	nNS := 40
	if tier == "thorough" {
		nNS = 600
	}
	for k := 0; k < nNS; k++ {
		n := 2 + rng.Intn(4)
		var ws []write
		keys := map[string]bool{}
		for len(ws) < n {
			pick := func() (string, string) {
				switch rng.Intn(6) {
				case 0:
					return "*", "*"
				case 1:
					return "default", "*"
				case 2:
					return "ns1", "*"
				case 3:
					return "ns1", []string{"web", "db"}[rng.Intn(2)]
				default:
					return "default", []string{"web", "db", "api"}[rng.Intn(3)]
				}
			}
			sns, sn := pick()
			dns, dn := pick()
			key := sns + "/" + sn + ">" + dns + "/" + dn
			if keys[key] {
				continue
			}
			keys[key] = true
			ws = append(ws, write{SNS: sns, SName: sn, DNS: dns, DName: dn, Act: []string{"allow", "deny"}[rng.Intn(2)]})
		}
		gs = append(gs, &group{kind: "legacy-namespaces", mode: "legacy", writes: ws, orders: somePerms(rng, n, 6), commute: true, wf: true})
	}
	// ---- 4. malformed stream (what a client can send; rejected writes must leave no trace)
	bad := [][]write{
		{{SNS: "default", SName: "a*", DNS: "default", DName: "b", Act: "allow"}, {SNS: "default", SName: "a", DNS: "default", DName: "b", Act: "deny"}},
		{{SNS: "default", SName: "a", DNS: "default", DName: "b*", Act: "allow"}},
		{{SNS: "default", SName: "", DNS: "default", DName: "b", Act: "allow"}, {SNS: "default", SName: "*", DNS: "default", DName: "b", Act: "deny"}},
		{{SNS: "default", SName: "a", DNS: "default", DName: "b", Act: ""}},
		{{SNS: "default", SName: "a", DNS: "default", DName: "b", Act: "ALLOW"}, {SNS: "default", SName: "a", DNS: "default", DName: "*", Act: "allow"}},
		{{SNS: "default", SName: "a", DNS: "default", DName: "b", Act: "allow", NPerm: 1}},
		{{SNS: "default", SName: "a", DNS: "default", DName: "*", NPerm: 1}, {SNS: "default", SName: "*", DNS: "default", DName: "*", Act: "deny"}},
		{{SNS: "default", SName: "a", DNS: "default", DName: "b", Act: "allow", Peer: "p*"}},
		{{SNS: "default", SName: "a", DNS: "default", DName: "b", NPerm: 2}, {SNS: "default", SName: "a", DNS: "default", DName: "b", Act: "deny"}},
	}
	for _, ws := range bad {
		for _, mode := range []string{"upsert", "entry"} {
			okMode := true
			for _, w := range ws {
				if w.Peer != "" && mode == "upsert" {
					okMode = false
				}
			}
			if okMode {
				gs = append(gs, &group{kind: "malformed", mode: mode, writes: ws, orders: permutations(len(ws)), commute: false, wf: true})
			}
		}
	}
	// malformed legacy rows: missing ID, duplicate 4-tuple under another ID (also differing only in case),
	// exact name after wildcard namespace, permissions / empty action on a legacy row
	badLegacy := [][]write{
		{{SNS: "!noid", SName: "a", DNS: "default", DName: "b", Act: "allow"}, {SNS: "default", SName: "a", DNS: "default", DName: "c", Act: "deny"}},
		{{SNS: "default", SName: "a", DNS: "default", DName: "b", Act: "allow"}, {SNS: "default", SName: "a", DNS: "default", DName: "b", Act: "deny"}},
		{{SNS: "*", SName: "a", DNS: "*", DName: "b", Act: "deny"}, {SNS: "*", SName: "*", DNS: "*", DName: "*", Act: "allow"}, {SNS: "default", SName: "a", DNS: "default", DName: "b", Act: "allow"}},
		{{SNS: "default", SName: "a", DNS: "default", DName: "b", Act: "", NPerm: 1}, {SNS: "default", SName: "*", DNS: "default", DName: "b", Act: "nope"}},
		{{SNS: "default", SName: "a", DNS: "default", DName: "b", Act: "allow", Peer: "p"}, {SNS: "default", SName: "*", DNS: "default", DName: "b", Act: "deny"}},
	}
	for _, ws := range badLegacy {
		gs = append(gs, &group{kind: "malformed-legacy", mode: "legacy", writes: ws, orders: permutations(len(ws)), commute: false, wf: false})
	}
	// ---- 5. dedicated groups for the two known weaknesses (see known_findings.json)
	// 5a. names that differ only in case
	mixed := [][]write{
		{{SNS: "default", SName: "web", DNS: "default", DName: "db", Act: "allow"}, {SNS: "default", SName: "api", DNS: "default", DName: "DB", Act: "deny"}},
		{{SNS: "default", SName: "Web", DNS: "default", DName: "db", Act: "deny"}, {SNS: "default", SName: "*", DNS: "default", DName: "db", Act: "allow"}},
		{{SNS: "default", SName: "web", DNS: "default", DName: "Db", Act: "allow"}, {SNS: "default", SName: "*", DNS: "default", DName: "*", Act: "deny"}},
	}
	for _, ws := range mixed {
		for _, mode := range []string{"legacy", "upsert"} {
			gs = append(gs, &group{kind: "mixed-case", mode: mode, writes: ws, orders: permutations(len(ws)), commute: true, wf: true, extraQ: []string{"web", "Web", "db", "DB"}})
		}
	}
	// 5b. a peered and a local source with the same service name in one entry, stored in either order,
	//     followed by the same upsert of the local one
	for _, act := range []string{"allow", "deny"} {
		pe := Src{Peer: "p", Name: "web", Act: "deny"}
		lo := Src{Name: "web", Act: "allow"}
		g := &group{kind: "stored-order", mode: "upsert", commute: true, wf: true,
			writes: []write{{SNS: "default", SName: "web", DNS: "default", DName: "db", Act: act}},
			orders: [][]int{{0}, {0}},
			prefix: [][]Op{{{Kind: "entry", Name: "db", Srcs: []Src{pe, lo}}}, {{Kind: "entry", Name: "db", Srcs: []Src{lo, pe}}}}}
		gs = append(gs, g)
	}
	// peered + local twins without any upsert: the match-by-source list
	gs = append(gs, &group{kind: "peer-twin", mode: "entry", commute: true, wf: true,
		writes: []write{{SNS: "default", SName: "web", DNS: "default", DName: "db", Act: "deny", Peer: "p"},
			{SNS: "default", SName: "web", DNS: "default", DName: "db", Act: "allow"},
			{SNS: "default", SName: "*", DNS: "default", DName: "db", Act: "deny", Peer: "p"}},
		orders: permutations(3)})
	// ---- 6. legacy updates under one UUID (rename, collision, upper-case hex spelling of the same UUID)
	lid := func(k int, upper bool) string {
		id := fmt.Sprintf("aaaaaaaa-0000-4000-8000-%012x", 0xabc000+k)
		if upper {
			id = strings.ToUpper(id)
		}
		return id
	}
	lrow := func(id, sn, dn, act string) Op {
		return Op{Kind: "lset", Ixn: &Ixn{ID: id, SNS: "default", SName: sn, DNS: "default", DName: dn, Act: act}}
	}
	gs = append(gs, &group{kind: "legacy-update", mode: "legacy", wf: true, scripts: [][]Op{
		{lrow(lid(1, false), "web", "db", "allow"), lrow(lid(1, false), "web", "db", "deny")},                                       // same row, new action
		{lrow(lid(1, false), "web", "db", "allow"), lrow(lid(1, false), "*", "db", "deny")},                                         // rename: precedence 9 -> 8
		{lrow(lid(1, false), "web", "db", "allow"), lrow(lid(2, false), "api", "db", "deny"), lrow(lid(1, false), "api", "db", "allow")}, // rename collides
		{lrow(lid(1, false), "web", "db", "allow"), lrow(lid(1, true), "web", "*", "deny")},                                         // same UUID in upper case, renamed
		{lrow(lid(1, false), "web", "db", "allow"), lrow(lid(1, true), "web", "db", "deny")},                                        // same UUID in upper case, same names
		{lrow(lid(1, true), "*", "*", "deny"), lrow(lid(2, false), "web", "db", "allow"), lrow(lid(1, false), "web", "*", "allow"), lrow(lid(2, true), "*", "db", "deny")},
	}})
	nUpd := 40
	if tier == "thorough" {
		nUpd = 800
	}
	for k := 0; k < nUpd; k++ {
		n := 3 + rng.Intn(4)
		var ops []Op
		pool := []string{"web", "api", "db", "*"}
		for len(ops) < n {
			ops = append(ops, lrow(lid(rng.Intn(3), rng.Intn(4) == 0), pool[rng.Intn(4)], pool[rng.Intn(4)], []string{"allow", "deny"}[rng.Intn(2)]))
		}
		gs = append(gs, &group{kind: "legacy-update", mode: "legacy", wf: true, scripts: [][]Op{ops}})
	}
	// ---- 7. names that differ only in case x peers x whole entries (the folding replace of the config-entry table)
	ent := func(name string, srcs ...Src) Op { return Op{Kind: "entry", Name: name, Srcs: srcs} }
	ups := func(dn string, sv Src) Op { return Op{Kind: "upsert", Name: dn, Srcs: []Src{sv}} }
	sv := func(peer, name, act string) Src { return Src{Peer: peer, Name: name, Act: act} }
	caseQ := []string{"web", "Web", "db", "DB", "Db", "api"}
	gs = append(gs, &group{kind: "mixed-case-entry", mode: "entry", wf: true, extraQ: caseQ, scripts: [][]Op{
		{ent("db", sv("", "web", "allow")), ent("DB", sv("", "api", "deny"))},
		{ent("DB", sv("", "api", "deny")), ent("db", sv("", "web", "allow"))},
		{ent("db", sv("", "Web", "deny"), sv("", "web", "allow"), sv("", "*", "deny"))},
		{ent("db", sv("p", "Web", "deny"), sv("", "web", "allow"))},
		{ent("Db", sv("p", "web", "deny"), sv("", "web", "allow"), sv("", "Web", "deny")), ups("db", sv("", "api", "allow"))},
		{ent("db", sv("", "web", "allow")), ups("DB", sv("", "api", "deny")), ups("Db", sv("", "Web", "deny"))},
		{ups("db", sv("", "web", "allow")), ent("DB", sv("q", "web", "deny"), sv("", "Web", "allow"))},
	}})
	nMC := 30
	if tier == "thorough" {
		nMC = 600
	}
	for k := 0; k < nMC; k++ {
		n := 2 + rng.Intn(4)
		var ops []Op
		srcPool := []string{"web", "Web", "api", "*"}
		dstPool := []string{"db", "DB", "Db", "api", "*"}
		for len(ops) < n {
			mk := func() Src {
				x := sv("", srcPool[rng.Intn(4)], []string{"allow", "deny"}[rng.Intn(2)])
				if rng.Intn(4) == 0 {
					x.Peer = "p"
				}
				return x
			}
			if rng.Intn(2) == 0 {
				x := mk()
				x.Peer = ""
				ops = append(ops, ups(dstPool[rng.Intn(5)], x))
			} else {
				e := ent(dstPool[rng.Intn(5)])
				seen := map[string]bool{}
				for j := 0; j < 1+rng.Intn(3); j++ {
					x := mk()
					if !seen[x.Peer+"|"+x.Name] {
						seen[x.Peer+"|"+x.Name] = true
						e.Srcs = append(e.Srcs, x)
					}
				}
				ops = append(ops, e)
			}
		}
		gs = append(gs, &group{kind: "mixed-case-entry", mode: "mixed", wf: true, extraQ: caseQ, scripts: [][]Op{ops}})
	}
	// ---- 8. destination-kind services: a service-defaults entry with a Destination block for the destination
	sd := func(n string) Op { return Op{Kind: "sdest", Name: n} }
	gs = append(gs, &group{kind: "dest-kind", mode: "upsert", wf: true, scripts: [][]Op{
		{sd("db"), ups("db", sv("", "web", "deny")), ups("*", sv("", "web", "allow"))},
		{ups("db", sv("", "web", "deny")), ups("*", sv("", "web", "allow")), sd("db")},
		{sd("DB"), ent("db", sv("", "web", "deny"), sv("p", "web", "allow"), sv("", "*", "allow"))},
		{sd("db"), sd("api"), ups("db", sv("", "web", "allow")), ups("api", sv("", "*", "deny")), ups("cache", Src{Name: "web", NPerm: 1}), ups("*", sv("", "*", "deny"))},
		{sd("zz"), ups("db", sv("", "web", "deny"))},
	}})
	nDK := 20
	if tier == "thorough" {
		nDK = 400
	}
	for k := 0; k < nDK; k++ {
		n := 3 + rng.Intn(3)
		var ws []write
		keys := map[string]bool{}
		for len(ws) < n {
			w := write{SNS: "default", DNS: "default", SName: big[rng.Intn(len(big))], DName: big[rng.Intn(len(big))], Act: []string{"allow", "deny"}[rng.Intn(2)]}
			if keys[w.SName+"|"+w.DName] {
				continue
			}
			keys[w.SName+"|"+w.DName] = true
			ws = append(ws, w)
		}
		pre := []Op{sd(big[rng.Intn(4)])}
		if rng.Intn(2) == 0 {
			pre = append(pre, sd(big[rng.Intn(4)]))
		}
		orders := somePerms(rng, n, 4)
		var prefix [][]Op
		for range orders {
			prefix = append(prefix, pre)
		}
		gs = append(gs, &group{kind: "dest-kind", mode: []string{"upsert", "entry"}[rng.Intn(2)], writes: ws, orders: orders, commute: true, wf: true, prefix: prefix})
	}
	// ---- 9. entry-level validation: empty entry name, no sources (codes 1 and 3), then a good write
	gs = append(gs, &group{kind: "malformed", mode: "entry", wf: true, scripts: [][]Op{
		{ent("", sv("", "web", "allow")), ent("db", sv("", "web", "allow"))},
		{ent("db"), ent("db", sv("", "web", "deny")), ent("db")},
	}})
	return gs
}

// ------------------------------------------------------------------ tabulations

type Tab struct {
	Tab   bool          `json:"tab"`
	Prec  [][]string    `json:"prec"`  // sns, sn, dns, dn, precedence
	CPrec [][]string    `json:"cprec"` // source name, entry name, precedence
	U     []Ixn         `json:"u"`
	Less  [][]int       `json:"less"`
	Authz []interface{} `json:"authz"` // [is_src, target, ns, peer, [positions]]
}

func tabulate() *Tab {
	t := &Tab{Tab: true}
	vals := []string{"*", "default", "a", "", "**"}
	for _, sns := range vals {
		for _, sn := range vals {
			for _, dns := range vals {
				for _, dn := range vals {
					x := &structs.Intention{SourceNS: sns, SourceName: sn, DestinationNS: dns, DestinationName: dn, Precedence: 77}
					x.UpdatePrecedence()
					t.Prec = append(t.Prec, []string{sns, sn, dns, dn, fmt.Sprint(x.Precedence)})
				}
			}
		}
	}
	cvals := []string{"*", "a", "default", "**", "A"}
	for _, sn := range cvals {
		for _, en := range cvals {
			e := &structs.ServiceIntentionsConfigEntry{Kind: structs.ServiceIntentions, Name: en,
				Sources: []*structs.SourceIntention{{Name: sn, Action: structs.IntentionActionAllow, Precedence: 77}}}
			if err := e.Normalize(); err != nil {
				panic(err)
			}
			t.CPrec = append(t.CPrec, []string{sn, en, fmt.Sprint(e.Sources[0].Precedence)})
		}
	}
	// a universe of intentions for Less and IntentionMatch
	peers := []string{"", "p", "pa"}
	nss := []string{"default", "*", "ns"}
	nms := []string{"a", "ab", "*", "B"}
	k := 0
	for _, p := range peers {
		for _, sns := range nss {
			for _, sn := range nms {
				for _, dn := range nms {
					k++
					if k%3 != 0 && !(p == "" && sns == "default") {
						continue
					}
					dns := nss[(k/2)%3]
					x := &structs.Intention{SourcePeer: p, SourceNS: sns, SourceName: sn, DestinationNS: dns, DestinationName: dn}
					x.UpdatePrecedence()
					if k%7 == 0 {
						x.Precedence = 5 // precedence ties with different keys, and equal keys with different precedence
					}
					t.U = append(t.U, Ixn{Peer: p, SNS: sns, SName: sn, DNS: dns, DName: dn, Act: "allow", Prec: x.Precedence})
				}
			}
		}
	}
	gi := func(x Ixn) *structs.Intention {
		i := toIntention(&x)
		i.Precedence = x.Prec
		return i
	}
	for _, a := range t.U {
		row := []int{}
		for j, b := range t.U {
			if (structs.IntentionPrecedenceSorter{gi(a), gi(b)}).Less(0, 1) {
				row = append(row, j)
			}
		}
		t.Less = append(t.Less, row)
	}
	for _, isSrc := range []bool{true, false} {
		mt := structs.IntentionMatchDestination
		if isSrc {
			mt = structs.IntentionMatchSource
		}
		for _, target := range []string{"a", "ab", "*", "b", "B"} {
			for _, ns := range []string{"default", "ns", "*"} {
				for _, peer := range []string{"", "p"} {
					row := []int{}
					for j, b := range t.U {
						if connect.IntentionMatch(target, ns, "", peer, gi(b), mt) {
							row = append(row, j)
						}
						_, ok := connect.AuthorizeIntentionTarget(target, ns, "", peer, gi(b), mt)
						if ok != connect.IntentionMatch(target, ns, "", peer, gi(b), mt) {
							panic("AuthorizeIntentionTarget and IntentionMatch disagree")
						}
					}
					t.Authz = append(t.Authz, []interface{}{isSrc, target, ns, peer, row})
				}
			}
		}
	}
	return t
}

// ------------------------------------------------------------------ main

func replay(path string) int {
	b, err := os.ReadFile(path)
	if err != nil {
		fmt.Println(err)
		return 2
	}
	var doc struct {
		Replay *Replay `json:"replay"`
	}
	var r Replay
	if json.Unmarshal(b, &doc) == nil && doc.Replay != nil {
		r = *doc.Replay
	} else if err := json.Unmarshal(b, &r); err != nil {
		fmt.Println(err)
		return 2
	}
	rc := 0
	run := func(tag string, ops []Op) *Case {
		c := &Case{Legacy: r.Legacy, WF: true, Ops: ops, Qs: r.Qs, Peers: r.Peers, Dflt: r.Dflt, APerm: r.APerm}
		if p := execute(c); p != "" {
			fmt.Println(tag, "problem:", p)
		}
		fmt.Printf("%s writes:\n", tag)
		for k, o := range c.Ops {
			ob, _ := json.Marshal(o)
			fmt.Printf("  %s -> code %d %s\n", ob, c.WRes[k], c.WMsg[k])
		}
		fmt.Printf("%s Store.Intentions: %v\n", tag, c.All)
		for k, q := range c.Qs {
			fmt.Printf("%s match source %v: %v\n%s match destination %v: %v\n", tag, q, c.msrcFull[k], tag, q, c.mdstFull[k])
		}
		fs := oracleCase(c)
		for _, f := range fs {
			fmt.Printf("%s ORACLE FAILS: %s [cause: %q]: %s\n", tag, f.kind, f.cause, f.detail)
			rc = 1
		}
		if len(fs) == 0 {
			fmt.Printf("%s oracle: ok\n", tag)
		}
		return c
	}
	a := run("A", r.Ops)
	if len(r.Ops2) > 0 {
		b := run("B", r.Ops2)
		if d := sameObs(a, b); d != "" {
			fmt.Println("ORACLE FAILS: order-dependent:", d)
			rc = 1
		}
	}
	return rc
}

func main() {
	seed := flag.Int64("seed", 1, "PRNG seed")
	tier := flag.String("tier", "quick", "quick|thorough")
	out := flag.String("out", "", "output file (JSON lines)")
	rep := flag.String("replay", "", "replay a case file")
	coqMax := flag.Int("coqmax", 0, "max cases marked for evaluation in Coq (0 = tier default)")
	salt := flag.Int64("salt", 0, "mixed into the seed (the check derives it from the commit under test so that runs on different trees sample different slices)")
	flag.Parse()
	if *rep != "" {
		os.Exit(replay(*rep))
	}
	rng := rand.New(rand.NewSource(*seed*1000003 + *salt))
	groups := genGroups(rng, *tier)

	var cases []*Case
	type span struct{ from, to int }
	spans := make([]span, len(groups))
	for gi, g := range groups {
		spans[gi].from = len(cases)
		var histories [][]Op
		if len(g.scripts) > 0 {
			histories = g.scripts
		} else {
			for oi, order := range g.orders {
				ops := buildOps(g, gi, order)
				if len(g.prefix) > 0 {
					ops = append(cloneOps(g.prefix[oi]), ops...)
				}
				histories = append(histories, ops)
			}
		}
		qs, peers := queriesFor(g, histories)
		for _, ops := range histories {
			k := len(cases)
			cases = append(cases, &Case{ID: k, Group: gi, GKind: g.kind, Mode: g.mode, Commute: g.commute, WF: g.wf,
				Legacy: g.mode == "legacy", Ops: cloneOps(ops), Qs: qs, Peers: peers, Dflt: k%2 == 1, APerm: (k/2)%2 == 1})
		}
		spans[gi].to = len(cases)
	}

	problems := make([]string, len(cases))
	var wg sync.WaitGroup
	ch := make(chan int, 64)
	for w := 0; w < 4; w++ {
		wg.Add(1)
		go func() {
			defer wg.Done()
			for k := range ch {
				problems[k] = execute(cases[k])
			}
		}()
	}
	for k := range cases {
		ch <- k
	}
	close(ch)
	wg.Wait()

	// oracle: per case, then across the orders of a group
	addFail := func(c *Case, kind, detail, cause string, shrunk *Replay) {
		c.Fails = append(c.Fails, Fail{Kind: kind, Detail: detail, Sig: signature(c, kind, cause), Shrunk: shrunk})
		if c.Oracle != "" {
			c.Oracle += ","
		}
		c.Oracle += kind
	}
	for k, c := range cases {
		if problems[k] != "" {
			addFail(c, "harness-problem", problems[k], "", nil)
			continue
		}
		for _, f := range oracleCase(c) {
			addFail(c, f.kind, f.detail, f.cause, shrinkSingle(c, f.kind, f.cause))
		}
	}
	for gi, g := range groups {
		if !g.commute {
			continue
		}
		first := cases[spans[gi].from]
		for k := spans[gi].from + 1; k < spans[gi].to; k++ {
			c := cases[k]
			if problems[k] != "" || problems[spans[gi].from] != "" {
				continue
			}
			if d := sameObs(first, c); d != "" {
				kind := "order-dependent"
				if g.kind == "stored-order" {
					kind = "stored-order-dependent"
				}
				addFail(c, kind, d, orderCause(first, c), shrinkPair(first, c))
			}
		}
	}

	// which cases are evaluated against the model inside Coq
	max := *coqMax
	if max == 0 {
		max = 1800
		if *tier == "thorough" {
			max = 1 << 30
		}
	}
	if len(cases) <= max {
		for _, c := range cases {
			c.ToCoq = true
		}
	} else {
		// all special groups, then an even sample of the rest
		n := 0
		var rest []*Case
		for _, c := range cases {
			if c.GKind != "small-exhaustive" && c.GKind != "random-large" {
				c.ToCoq = true
				n++
			} else {
				rest = append(rest, c)
			}
		}
		step := float64(len(rest)) / float64(max-n)
		if step < 1 {
			step = 1
		}
		for f := 0.0; int(f) < len(rest); f += step {
			rest[int(f)].ToCoq = true
		}
	}

	w := bufio.NewWriter(os.Stdout)
	if *out != "" {
		f, err := os.Create(*out)
		if err != nil {
			fmt.Fprintln(os.Stderr, err)
			os.Exit(2)
		}
		defer f.Close()
		w = bufio.NewWriter(f)
	}
	defer w.Flush()
	enc := json.NewEncoder(w)
	if err := enc.Encode(tabulate()); err != nil {
		panic(err)
	}
	for _, c := range cases {
		if err := enc.Encode(c); err != nil {
			panic(err)
		}
	}
}
