package main

import (
	"fmt"

	"github.com/hashicorp/consul/agent/consul/state"
	"github.com/hashicorp/consul/agent/structs"
)

func dump(tag string, ixns structs.Intentions) {
	fmt.Printf("%s:", tag)
	for _, i := range ixns {
		fmt.Printf(" [%s|%s/%s/%s -> %s/%s/%s act=%q perms=%d prec=%d id=%s]", i.SourcePeer, i.SourcePartition, i.SourceNS, i.SourceName, i.DestinationPartition, i.DestinationNS, i.DestinationName, i.Action, len(i.Permissions), i.Precedence, i.ID)
	}
	fmt.Println()
}

func main() {
	// ---------- legacy
	s := state.NewStateStore(nil)
	mk := func(id, sns, sn, dns, dn string, act structs.IntentionAction) *structs.Intention {
		return &structs.Intention{ID: id, SourceNS: sns, SourceName: sn, DestinationNS: dns, DestinationName: dn, Action: act, SourceType: structs.IntentionSourceConsul}
	}
	id := func(n int) string { return fmt.Sprintf("00000000-0000-0000-0000-%012d", n) }
	fmt.Println(s.LegacyIntentionSet(1, mk(id(1), "default", "web", "default", "db", "allow")))
	fmt.Println(s.LegacyIntentionSet(2, mk(id(2), "default", "Web", "default", "db", "deny")))
	fmt.Println(s.LegacyIntentionSet(3, mk(id(3), "default", "*", "default", "DB", "deny")))
	fmt.Println(s.LegacyIntentionSet(4, mk(id(4), "*", "*", "*", "*", "deny")))
	fmt.Println(s.LegacyIntentionSet(5, mk(id(5), "*", "web", "*", "db", "deny")))
	fmt.Println(s.LegacyIntentionSet(6, mk("", "x", "web", "*", "db", "deny")))
	for _, n := range []string{"web", "Web", "WEB", "*"} {
		_, l, err := s.IntentionMatchOne(nil, structs.IntentionMatchEntry{Namespace: "default", Name: n}, structs.IntentionMatchSource, structs.IntentionTargetService)
		dump("legacy src "+n, structs.Intentions(l))
		fmt.Println(err)
		for _, d := range []string{"db", "DB"} {
			dec, _ := s.IntentionDecision(state.IntentionDecisionOpts{Target: d, Namespace: "default", Intentions: l, MatchType: structs.IntentionMatchDestination, DefaultAllow: true})
			fmt.Printf("  decision %s->%s %+v\n", n, d, dec)
		}
	}
	for _, n := range []string{"db", "Db"} {
		_, l, _ := s.IntentionMatch(nil, &structs.IntentionQueryMatch{Type: structs.IntentionMatchDestination, Entries: []structs.IntentionMatchEntry{{Namespace: "default", Name: n}}})
		dump("legacy dst "+n, l[0])
	}
	_, all, _, _ := s.Intentions(nil, nil)
	dump("legacy list", all)

	// ---------- config
	c := state.NewStateStore(nil)
	fmt.Println(c.SystemMetadataSet(1, &structs.SystemMetadataEntry{Key: structs.SystemMetadataIntentionFormatKey, Value: structs.SystemMetadataIntentionFormatConfigValue}))
	ens := func(idx uint64, e *structs.ServiceIntentionsConfigEntry) error {
		if err := e.Normalize(); err != nil {
			return fmt.Errorf("normalize: %v", err)
		}
		if err := e.Validate(); err != nil {
			return fmt.Errorf("validate: %v", err)
		}
		return c.EnsureConfigEntry(idx, e)
	}
	perm := []*structs.IntentionPermission{{Action: "allow", HTTP: &structs.IntentionHTTPPermission{PathExact: "/x"}}}
	fmt.Println("L7 without protocol:", ens(2, &structs.ServiceIntentionsConfigEntry{Kind: structs.ServiceIntentions, Name: "l7", Sources: []*structs.SourceIntention{{Name: "web", Permissions: perm}}}))
	pd := &structs.ProxyConfigEntry{Kind: structs.ProxyDefaults, Name: structs.ProxyConfigGlobal, Config: map[string]interface{}{"protocol": "http"}}
	pd.Normalize()
	fmt.Println(pd.Validate(), c.EnsureConfigEntry(3, pd))
	fmt.Println("L7 with protocol:", ens(4, &structs.ServiceIntentionsConfigEntry{Kind: structs.ServiceIntentions, Name: "l7", Sources: []*structs.SourceIntention{{Name: "web", Permissions: perm}}}))

	fmt.Println(ens(5, &structs.ServiceIntentionsConfigEntry{Kind: structs.ServiceIntentions, Name: "db", Sources: []*structs.SourceIntention{
		{Name: "web", Peer: "p", Action: "deny"}, {Name: "web", Action: "allow"}, {Name: "*", Action: "deny"}, {Name: "api", Peer: "p", Action: "deny"}}}))
	fmt.Println(ens(6, &structs.ServiceIntentionsConfigEntry{Kind: structs.ServiceIntentions, Name: "*", Sources: []*structs.SourceIntention{
		{Name: "web", Action: "deny"}, {Name: "*", Peer: "p", Action: "allow"}}}))
	fmt.Println(ens(7, &structs.ServiceIntentionsConfigEntry{Kind: structs.ServiceIntentions, Name: "Up", Sources: []*structs.SourceIntention{
		{Name: "Web", Action: "deny"}}}))
	for _, n := range []string{"web", "Web", "api", "*"} {
		_, l, err := c.IntentionMatchOne(nil, structs.IntentionMatchEntry{Namespace: "default", Name: n}, structs.IntentionMatchSource, structs.IntentionTargetService)
		dump("config src "+n, structs.Intentions(l))
		if err != nil {
			fmt.Println(err)
		}
	}
	for _, n := range []string{"db", "DB", "up", "Up", "*", "zz"} {
		_, l, err := c.IntentionMatchOne(nil, structs.IntentionMatchEntry{Namespace: "default", Name: n}, structs.IntentionMatchDestination, structs.IntentionTargetService)
		dump("config dst "+n, structs.Intentions(l))
		if err != nil {
			fmt.Println(err)
		}
	}
	// upsert shadowing
	up := func(idx uint64, src, dst string, act structs.IntentionAction) error {
		return c.IntentionMutation(idx, structs.IntentionOpUpsert, &structs.IntentionMutation{
			Destination: structs.NewServiceName(dst, nil), Source: structs.NewServiceName(src, nil),
			Value: &structs.SourceIntention{Name: src, Action: act}})
	}
	fmt.Println("upsert web->db deny:", up(10, "web", "db", "deny"))
	fmt.Println("upsert web->DB deny:", up(11, "web", "DB", "deny"))
	fmt.Println("upsert api->db allow:", up(12, "api", "db", "allow"))
	_, l, _ := c.IntentionMatchOne(nil, structs.IntentionMatchEntry{Namespace: "default", Name: "db"}, structs.IntentionMatchDestination, structs.IntentionTargetService)
	dump("config dst db after", structs.Intentions(l))
	fmt.Println("delete web->db:", c.IntentionMutation(13, structs.IntentionOpDelete, &structs.IntentionMutation{
		Destination: structs.NewServiceName("db", nil), Source: structs.NewServiceName("web", nil)}))
	_, l, _ = c.IntentionMatchOne(nil, structs.IntentionMatchEntry{Namespace: "default", Name: "db"}, structs.IntentionMatchDestination, structs.IntentionTargetService)
	dump("config dst db after delete", structs.Intentions(l))
	_, all, _, _ = c.Intentions(nil, nil)
	dump("config list", all)
}
