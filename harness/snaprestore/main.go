// Harness for property C02: snapshot and restore reproduce the state exactly, at any point of any
// history.
//
// Two kinds of histories are generated from the one seed:
//
//	wide   (direct oracle, model-independent): commands of (nearly) every type the FSM applies.
//	       After every prefix h[:k] the donor FSM is snapshotted with the real FSM.Snapshot() +
//	       Persist into a buffer sink; a fresh FSM restores it; the canonical dump of every table
//	       (WalkAllTables, rows serialised field by field) and a fixed list of read queries (result
//	       and reported index) must be equal; then the restored FSM applies h[k:] and every command
//	       result and the final dump must equal the donor's.
//	model  (correspondence with coq/Snapshot/Model.v): commands of the core store model
//	       (coq/Store/Model.v). For every cut the snapshot stream the implementation wrote is
//	       decoded and projected onto the model's records, and the restored store is dumped in the
//	       model's vocabulary; checks/C02.py evaluates the model on the same cases inside Coq.
//
// Output: JSON lines, one per history. `-replay FILE` re-runs one (commands, cut) pair.
package main

import (
	"bufio"
	"bytes"
	"context"
	"encoding/hex"
	"encoding/json"
	"errors"
	"flag"
	"fmt"
	"io"
	"math/rand"
	"os"
	"sort"
	"strconv"
	"strings"

	"github.com/hashicorp/go-hclog"
	"github.com/hashicorp/raft"
	"google.golang.org/grpc"

	"github.com/hashicorp/consul/agent/consul/fsm"
	"github.com/hashicorp/consul/agent/consul/state"
	"github.com/hashicorp/consul/agent/netutil"
	"github.com/hashicorp/consul/agent/structs"
	raftstorage "github.com/hashicorp/consul/internal/storage/raft"
	"github.com/hashicorp/consul/proto/private/pbpeering"
)

// ---------------------------------------------------------------- a real FSM

type raftHandle struct {
	apply func(msg []byte) (any, error)
}

func (h *raftHandle) Apply(msg []byte) (any, error)              { return h.apply(msg) }
func (raftHandle) IsLeader() bool                                { return true }
func (raftHandle) EnsureStrongConsistency(context.Context) error { return nil }
func (raftHandle) DialLeader() (*grpc.ClientConn, error)         { return nil, errors.New("no leader conn") }

type machine struct {
	f      *fsm.FSM
	cancel context.CancelFunc
}

func newMachine() *machine {
	logger := hclog.NewNullLogger()
	handle := &raftHandle{}
	backend, err := raftstorage.NewBackend(handle, logger)
	if err != nil {
		panic(err)
	}
	handle.apply = func(buf []byte) (any, error) { return backend.Apply(buf, 1), nil }
	ctx, cancel := context.WithCancel(context.Background())
	go backend.Run(ctx)
	f := fsm.NewFromDeps(fsm.Deps{
		Logger:         logger,
		NewStateStore:  func() *state.Store { return state.NewStateStore(nil) },
		StorageBackend: backend,
	})
	return &machine{f: f, cancel: cancel}
}

func (m *machine) close()              { m.cancel() }
func (m *machine) store() *state.Store { return m.f.State() }

func (m *machine) apply(idx uint64, data []byte) (res interface{}) {
	defer func() {
		if r := recover(); r != nil {
			res = fmt.Errorf("PANIC: %v", r)
		}
	}()
	return m.f.Apply(&raft.Log{Index: idx, Term: 1, Type: raft.LogCommand, Data: data})
}

type bufSink struct {
	*bytes.Buffer
	cancelled bool
}

func (s *bufSink) ID() string    { return "verif" }
func (s *bufSink) Cancel() error { s.cancelled = true; return nil }
func (s *bufSink) Close() error  { return nil }

func (m *machine) snapshot() ([]byte, error) {
	snap, err := m.f.Snapshot()
	if err != nil {
		return nil, err
	}
	defer snap.Release()
	sink := &bufSink{Buffer: &bytes.Buffer{}}
	if err := snap.Persist(sink); err != nil {
		return nil, err
	}
	if sink.cancelled {
		return nil, errors.New("sink cancelled")
	}
	return sink.Bytes(), nil
}

func (m *machine) restore(b []byte) (err error) {
	defer func() {
		if r := recover(); r != nil {
			err = fmt.Errorf("PANIC: %v", r)
		}
	}()
	return m.f.Restore(io.NopCloser(bytes.NewReader(b)))
}

// ---------------------------------------------------------------- oracle

// Failure is one oracle failure with a structured signature (matched against known_findings.json).
type Failure struct {
	Cut       int               `json:"cut"`
	Stage     string            `json:"stage"` // restore | dump | query | suffix-result | suffix-dump | table-coverage
	Signature map[string]any    `json:"signature"`
	Detail    string            `json:"detail"`
	Tables    []tableDiff       `json:"tables,omitempty"`
	Extra     map[string]string `json:"extra,omitempty"`
}

type cutStats struct {
	restores, applies, rows, queries int
	donorTables, restoredTables      map[string]int
	// secretCombos: cuts at which some peering (accepting / dialing) held exactly this combination
	// of establishment, pending and active secrets
	secretCombos map[string]int
	// witnessCuts: cuts at which each finding's witness predicate held on the donor
	witnessCuts       map[string]int
	deferred, chained int
}

func newCutStats() *cutStats {
	return &cutStats{donorTables: map[string]int{}, restoredTables: map[string]int{}, secretCombos: map[string]int{}, witnessCuts: map[string]int{}}
}

// secretCombos: per peering-secrets row of the store, which secrets it holds.
func secretCombos(st *state.Store) []string {
	dials := map[string]string{}
	var rows []*pbpeering.PeeringSecrets
	st.WalkAllTables(func(table string, item interface{}) bool {
		switch v := item.(type) {
		case *pbpeering.Peering:
			if v.ShouldDial() {
				dials[v.ID] = "dialing"
			} else {
				dials[v.ID] = "accepting"
			}
		case *pbpeering.PeeringSecrets:
			rows = append(rows, v)
		}
		return true
	})
	var out []string
	for _, r := range rows {
		side := dials[r.PeerID]
		if side == "" {
			side = "orphan"
		}
		c := side + ":"
		if r.GetEstablishment().GetSecretID() != "" {
			c += "E"
		}
		if r.GetStream().GetPendingSecretID() != "" {
			c += "P"
		}
		if r.GetStream().GetActiveSecretID() != "" {
			c += "A"
		}
		out = append(out, c)
	}
	return out
}

// diffIndexKeys: keys of index rows that differ between two renderings of the index table.
func diffIndexKeys(a, b []string) []string {
	parse := func(rows []string) map[string]string {
		m := map[string]string{}
		for _, r := range rows {
			var k string
			var v uint64
			if _, err := fmt.Sscanf(r, "{Key:%q,Value:%d}", &k, &v); err == nil {
				m[k] = fmt.Sprint(v)
			} else {
				m[r] = "?"
			}
		}
		return m
	}
	ma, mb := parse(a), parse(b)
	seen := map[string]bool{}
	var out []string
	for k, v := range ma {
		if mb[k] != v && !seen[k] {
			seen[k] = true
			out = append(out, fmt.Sprintf("%s(%s->%s)", k, v, mb[k]))
		}
	}
	for k, v := range mb {
		if ma[k] != v && !seen[k] {
			seen[k] = true
			out = append(out, fmt.Sprintf("%s(%s->%s)", k, ma[k], v))
		}
	}
	sort.Strings(out)
	return out
}

// indexKeyClass: the index key without its entity suffix and values ("service.web(5->9)" -> "service.<name>").
func indexKeyClass(k string) string {
	if i := strings.Index(k, "("); i >= 0 {
		k = k[:i]
	}
	for _, p := range []string{"service.", "node.", "service_kind.", "kind_service_names.", "service_last_extinction", "node_last_extinction"} {
		if j := strings.Index(k, p); j >= 0 {
			if strings.HasSuffix(p, ".") {
				return k[:j] + p + "<name>"
			}
			return k[:j] + p
		}
	}
	return k
}

// donorRun applies the whole history to a fresh FSM and records, for every cut, the snapshot
// bytes, the dump, the query results and the witness, plus every command result.
type donorRun struct {
	wit      []*witness // per step: which findings the donor's state at that step can invoke
	snaps    [][]byte
	snapErr  []error
	deferred [][]byte // Persist of a Snapshot() taken at the cut but written only after the whole history ran
	dumps    []*storeDump
	queries  [][]queryResult
	results  []string
	final    histFacts // the history-level facts after the whole history
}

// deferredCut / chainedCut: the cuts at which the two extra cycles run (a third of the cuts each).
func deferredCut(k int) bool { return k%3 == 1 }
func chainedCut(k int) bool  { return k%3 == 2 }

func runDonor(cmds []wcmd, cuts map[int]bool, st *cutStats) *donorRun {
	d := newMachine()
	defer d.close()
	r := &donorRun{}
	var held []raft.FSMSnapshot
	renamed := false
	sigs := instanceSigs(d.store())
	names := newNameTracker()
	for k := 0; k <= len(cmds); k++ {
		r.wit = append(r.wit, computeWitness(d.store(), histFacts{renamed, names.snapshot()}))
		if st != nil {
			for _, c := range secretCombos(d.store()) {
				st.secretCombos[c]++
			}
		}
		var hold raft.FSMSnapshot
		if cuts == nil || cuts[k] || k == len(cmds) {
			b, err := d.snapshot()
			r.snaps = append(r.snaps, b)
			r.snapErr = append(r.snapErr, err)
			r.dumps = append(r.dumps, dumpStore(d.store()))
			r.queries = append(r.queries, runQueries(d.store(), uni))
			if deferredCut(k) && k < len(cmds) && err == nil {
				hold, _ = d.f.Snapshot()
			}
		} else {
			r.snaps = append(r.snaps, nil)
			r.snapErr = append(r.snapErr, nil)
			r.dumps = append(r.dumps, nil)
			r.queries = append(r.queries, nil)
		}
		held = append(held, hold)
		if k < len(cmds) {
			data, _ := hex.DecodeString(cmds[k].Data)
			r.results = append(r.results, canonResult(d.apply(cmds[k].Idx, data)))
			if st != nil {
				st.applies++
			}
			after := instanceSigs(d.store())
			renamed = renamed || reRegistered(sigs, after) || txnRenames(data, sigs)
			sigs = after
			names.note(d.store())
		}
	}
	r.final = histFacts{true, names.snapshot()}
	// the deferred Persists: the snapshots taken at their cuts are written only now
	for _, h := range held {
		var b []byte
		if h != nil {
			sink := &bufSink{Buffer: &bytes.Buffer{}}
			if err := h.Persist(sink); err == nil && !sink.cancelled {
				b = sink.Bytes()
			} else {
				b = []byte("persist-failed")
			}
			h.Release()
		}
		r.deferred = append(r.deferred, b)
	}
	return r
}

// checkCut restores the snapshot taken at cut k into a fresh FSM, compares, then runs the suffix.
// On a third of the cuts it also checks that a Persist deferred until the end of the history
// restores to the same store; on another third it snapshots the RESTORED machine half way through
// the suffix and restores that into an FSM that already holds state (second generation).
func checkCut(cmds []wcmd, k int, dr *donorRun, st *cutStats) []Failure {
	if dr.snapErr[k] != nil {
		return []Failure{{Cut: k, Stage: "snapshot", Signature: map[string]any{"kind": "snapshot-failed"}, Detail: dr.snapErr[k].Error()}}
	}
	m := newMachine()
	defer m.close()
	if err := m.restore(dr.snaps[k]); err != nil {
		return []Failure{{Cut: k, Stage: "restore", Signature: map[string]any{"kind": "restore-failed"}, Detail: err.Error()}}
	}
	var out []Failure
	w := dr.wit[k]
	rd := dumpStore(m.store())
	if st != nil {
		st.restores++
		st.rows += rd.rows
		for t, rows := range dr.dumps[k].strict {
			if len(rows) > 0 {
				st.donorTables[t]++
			}
		}
		for t, rows := range rd.strict {
			if len(rows) > 0 {
				st.restoredTables[t]++
			}
		}
		for _, mk := range maskList {
			if w.has(mk) {
				st.witnessCuts[maskKind[mk]]++
			}
		}
	}
	out = append(out, compareDumps(k, "dump", dr.dumps[k], rd, w, false)...)
	rq := runQueries(m.store(), uni)
	if st != nil {
		st.queries += len(rq)
	}
	out = append(out, compareQueries(k, "query", dr.queries[k], rq, w, false)...)

	// deferred Persist: the same logical snapshot, written after the donor moved on
	if k < len(dr.deferred) && dr.deferred[k] != nil {
		if st != nil {
			st.deferred++
		}
		if !bytes.Equal(dr.deferred[k], dr.snaps[k]) {
			m3 := newMachine()
			if err := m3.restore(dr.deferred[k]); err != nil {
				out = append(out, Failure{Cut: k, Stage: "deferred-persist", Signature: map[string]any{"kind": "deferred-persist-restore-failed"}, Detail: err.Error()})
			} else if ds := diffTables(rd.strict, dumpStore(m3.store()).strict); len(ds) > 0 {
				out = append(out, Failure{Cut: k, Stage: "deferred-persist", Signature: map[string]any{"kind": "deferred-persist-differs", "table": ds[0].Table},
					Detail: "a Snapshot() taken at the cut and persisted after the rest of the history was applied restores to another store than the one persisted at once", Tables: ds})
			}
			m3.close()
		}
	}

	// suffix; optionally with a second-generation restore half way
	var m2 *machine
	var w2 *witness
	var d2 *storeDump
	j := -1
	if chainedCut(k) && k < len(cmds) {
		j = k + (len(cmds)-k)/2
	}
	diverged := false
	for i := k; i < len(cmds); i++ {
		if i == j {
			// second generation: snapshot the restored machine, restore into a used FSM
			if b2, err := m.snapshot(); err != nil {
				out = append(out, Failure{Cut: k, Stage: "chained-snapshot", Signature: map[string]any{"kind": "snapshot-failed"}, Detail: err.Error()})
			} else {
				m2 = newMachine()
				defer m2.close()
				for u := 0; u < 3 && u < len(cmds); u++ {
					data, _ := hex.DecodeString(cmds[u].Data)
					m2.apply(cmds[u].Idx, data)
				}
				if err := m2.restore(b2); err != nil {
					out = append(out, Failure{Cut: k, Stage: "chained-restore", Signature: map[string]any{"kind": "restore-failed"}, Detail: err.Error()})
					m2 = nil
				} else {
					if st != nil {
						st.chained++
					}
					w2 = computeWitness(m.store(), dr.final)
					d2 = dumpStore(m.store())
					out = append(out, compareDumps(k, "chained-dump", d2, dumpStore(m2.store()), w2, false)...)
					out = append(out, compareQueries(k, "chained-query", runQueries(m.store(), uni), runQueries(m2.store(), uni), w2, false)...)
				}
			}
		}
		data, _ := hex.DecodeString(cmds[i].Data)
		res := canonResult(m.apply(cmds[i].Idx, data))
		if st != nil {
			st.applies++
		}
		if m2 != nil {
			if res2 := canonResult(m2.apply(cmds[i].Idx, data)); res2 != res {
				out = append(out, Failure{Cut: k, Stage: "chained-suffix-result", Signature: map[string]any{"kind": "suffix-result-differs", "command": cmds[i].Kind, "generation": 2},
					Detail: fmt.Sprintf("command %d (%s) after the second-generation restore", i, cmds[i].Desc), Extra: map[string]string{"restored": clip(res), "restored-twice": clip(res2)}})
				m2 = nil
			}
		}
		if res != dr.results[i] {
			if w.has(mOrphanSecret) && strings.Contains(res, "peering secret is already in use") && !strings.HasPrefix(dr.results[i], "error:") && usesSecret(data, w.orphanIDs) {
				// consequence of the orphan-secret finding: the restore recorded the secret of a row
				// that outlived its peering as a used UUID, and this command proposes that very id
				out = append(out, Failure{Cut: k, Stage: "suffix-result", Signature: known(mOrphanSecret),
					Detail: fmt.Sprintf("command %d (%s) after the cut: accepted by the donor, refused by the restored server", i, cmds[i].Desc),
					Extra:  map[string]string{"donor": clip(dr.results[i]), "restored": clip(res)}})
			} else if w.has(mUnheldUUID) && strings.Contains(res, "peering secret is already in use") && !strings.HasPrefix(dr.results[i], "error:") && usesSecret(data, w.unlisted) {
				// the restore recorded an id the donor's list lacks (held by a row a re-created peering adopted)
				out = append(out, Failure{Cut: k, Stage: "suffix-result", Signature: known(mUnheldUUID),
					Detail: fmt.Sprintf("command %d (%s) after the cut: accepted by the donor, refused by the restored server", i, cmds[i].Desc),
					Extra:  map[string]string{"donor": clip(dr.results[i]), "restored": clip(res)}})
			} else if w.has(mUnheldUUID) && strings.Contains(dr.results[i], "peering secret is already in use") && !strings.HasPrefix(res, "error:") && usesSecret(data, w.unheldIDs) {
				// the donor still lists an id that none of its secrets rows holds; the restored server forgot it
				out = append(out, Failure{Cut: k, Stage: "suffix-result", Signature: known(mUnheldUUID),
					Detail: fmt.Sprintf("command %d (%s) after the cut: refused by the donor, accepted by the restored server", i, cmds[i].Desc),
					Extra:  map[string]string{"donor": clip(dr.results[i]), "restored": clip(res)}})
			} else {
				out = append(out, Failure{Cut: k, Stage: "suffix-result", Signature: map[string]any{"kind": "suffix-result-differs", "command": cmds[i].Kind},
					Detail: fmt.Sprintf("command %d (%s) after the cut", i, cmds[i].Desc), Extra: map[string]string{"donor": clip(dr.results[i]), "restored": clip(res)}})
			}
			// the two stores took different paths: comparing them further only repeats this
			diverged = true
			break
		}
	}
	if k < len(cmds) && !diverged {
		fd := dumpStore(m.store())
		ws := w.forSuffix(dr.final.variants)
		out = append(out, compareDumps(k, "suffix-dump", dr.dumps[len(cmds)], fd, ws, true)...)
		fq := runQueries(m.store(), uni)
		out = append(out, compareQueries(k, "suffix-query", dr.queries[len(cmds)], fq, ws, true)...)
		if m2 != nil {
			w2s := w2.forSuffix(nil)
			out = append(out, compareDumps(k, "chained-suffix-dump", fd, dumpStore(m2.store()), w2s, true)...)
			out = append(out, compareQueries(k, "chained-suffix-query", fq, runQueries(m2.store(), uni), w2s, true)...)
		}
	}
	return out
}

// usesSecret: the command's payload carries one of the (quoted) secret ids.
func usesSecret(data []byte, ids map[string]bool) bool {
	for q := range ids {
		if id, err := strconv.Unquote(q); err == nil && bytes.Contains(data, []byte(id)) {
			return true
		}
	}
	return false
}

func sigKey(f Failure) string {
	b, _ := json.Marshal(f.Signature)
	return string(b)
}

// shrink removes commands (keeping their Raft indexes) while the failure with the same signature
// persists at some cut; returns the smaller history and the cut.
func shrink(cmds []wcmd, k int, want string) ([]wcmd, int) {
	has := func(cs []wcmd, cut int) bool {
		dr := runDonor(cs, map[int]bool{cut: true}, nil)
		for _, f := range checkCut(cs, cut, dr, nil) {
			if sigKey(f) == want {
				return true
			}
		}
		return false
	}
	// drop the suffix first when the failure is visible at the cut itself
	if has(cmds[:k], k) {
		cmds = cmds[:k]
	}
	for changed := true; changed; {
		changed = false
		for i := len(cmds) - 1; i >= 0; i-- {
			cand := append(append([]wcmd{}, cmds[:i]...), cmds[i+1:]...)
			ck := k
			if i < k {
				ck = k - 1
			}
			if ck > len(cand) {
				ck = len(cand)
			}
			if has(cand, ck) {
				cmds, k, changed = cand, ck, true
			}
		}
	}
	return cmds, k
}

// ---------------------------------------------------------------- wide histories

type WideHistory struct {
	ID       int            `json:"id"`
	Mode     string         `json:"mode"`
	Mix      string         `json:"mix"`
	Cmds     []wcmd         `json:"cmds"`
	Errors   int            `json:"errors"` // commands whose result is an error
	Cuts     int            `json:"cuts"`
	Failures []Failure      `json:"failures"`
	Shrunk   []ShrunkReplay `json:"shrunk,omitempty"`
}

type ShrunkReplay struct {
	Signature map[string]any `json:"signature"`
	Cmds      []wcmd         `json:"cmds"`
	Cut       int            `json:"cut"`
	Failure   Failure        `json:"failure"`
}

func genWide(seed int64, mix string, n int) []wcmd {
	d := newMachine()
	defer d.close()
	g := &wgen{rng: rand.New(rand.NewSource(seed)), st: d.store, mix: mix}
	g.caseMix = g.rng.Intn(2) == 0
	var cmds []wcmd
	for i := 0; i < n; i++ {
		c := g.next()
		data, _ := hex.DecodeString(c.Data)
		d.apply(c.Idx, data)
		cmds = append(cmds, c)
	}
	return cmds
}

func runWide(id int, mix string, cmds []wcmd, st *cutStats, doShrink bool) WideHistory {
	h := WideHistory{ID: id, Mode: "wide", Mix: mix, Cmds: cmds, Cuts: len(cmds) + 1, Failures: []Failure{}}
	dr := runDonor(cmds, nil, st)
	for _, r := range dr.results {
		if strings.HasPrefix(r, "error:") {
			h.Errors++
		}
	}
	seen := map[string]bool{}
	for k := 0; k <= len(cmds); k++ {
		for _, f := range checkCut(cmds, k, dr, st) {
			key := sigKey(f)
			if seen[key] {
				continue
			}
			seen[key] = true
			h.Failures = append(h.Failures, f)
			if doShrink {
				sc, sk := shrink(cmds, k, key)
				sdr := runDonor(sc, map[int]bool{sk: true}, nil)
				var sf Failure
				for _, x := range checkCut(sc, sk, sdr, nil) {
					if sigKey(x) == key {
						sf = x
					}
				}
				h.Shrunk = append(h.Shrunk, ShrunkReplay{Signature: f.Signature, Cmds: sc, Cut: sk, Failure: sf})
			}
		}
	}
	return h
}

// ---------------------------------------------------------------- main

type Summary struct {
	Mode             string         `json:"mode"` // "summary"
	Tables           []string       `json:"tables"`
	DonorTables      map[string]int `json:"donor_tables"`    // table -> cuts at which the donor held rows
	RestoredTables   map[string]int `json:"restored_tables"` // table -> cuts at which the restored store held rows
	NeverRestored    []string       `json:"never_restored"`  // rows in some donor, never any after restore
	NeverPopulated   []string       `json:"never_populated"` // the generator never produced rows
	Restores         int            `json:"restores"`
	Applies          int            `json:"applies"`
	RowsCompared     int            `json:"rows_compared"`
	QueriesCompared  int            `json:"queries_compared"`
	RestorerTypes    []int          `json:"restorer_types"`
	CommandTypes     []int          `json:"command_types"`
	ProjectedFields  []string       `json:"projected_fields"`
	SelfTestDetected bool           `json:"self_test_detected"`
	SecretCombos     map[string]int `json:"peering_secret_combinations_at_cuts"`
	WitnessCuts      map[string]int `json:"witness_holds_at_cuts"`
	DeferredPersists int            `json:"deferred_persist_cycles"`
	ChainedRestores  int            `json:"chained_restore_cycles"`
}

func main() {
	seed := flag.Int64("seed", 1, "seed")
	tier := flag.String("tier", "quick", "quick|thorough")
	out := flag.String("out", "", "output jsonl")
	nWide := flag.Int("wide", -1, "number of wide histories (default by tier)")
	nModel := flag.Int("model", -1, "number of model histories (default by tier)")
	replay := flag.String("replay", "", "replay file: {cmds:[...], cut:k}")
	show := flag.String("show", "", "with -replay: comma-separated tables whose donor / restored rows at the cut are printed too")
	flag.Parse()

	netutil.GetAgentBindAddrFunc = netutil.GetMockGetAgentBindAddrFunc("0.0.0.0")

	w := bufio.NewWriterSize(os.Stdout, 1<<20)
	if *out != "" {
		f, err := os.Create(*out)
		if err != nil {
			panic(err)
		}
		defer f.Close()
		w = bufio.NewWriterSize(f, 1<<20)
	}
	defer w.Flush()
	emit := func(v interface{}) {
		j, err := json.Marshal(v)
		if err != nil {
			panic(err)
		}
		w.Write(j)
		w.WriteByte('\n')
	}

	if *replay != "" {
		raw, err := os.ReadFile(*replay)
		if err != nil {
			panic(err)
		}
		var r struct {
			Cmds  []wcmd `json:"cmds"`
			Cut   int    `json:"cut"`
			Model []Cmd  `json:"model_cmds"`
		}
		if err := json.Unmarshal(raw, &r); err != nil {
			panic(err)
		}
		if len(r.Model) > 0 {
			emit(runModelHistory(0, 0, "replay", len(r.Model), r.Model))
			return
		}
		dr := runDonor(r.Cmds, map[int]bool{r.Cut: true}, nil)
		fs := checkCut(r.Cmds, r.Cut, dr, nil)
		if fs == nil {
			fs = []Failure{}
		}
		rep := map[string]any{"mode": "replay", "cut": r.Cut, "commands": len(r.Cmds), "failures": fs}
		if *show != "" && dr.snapErr[r.Cut] == nil {
			m := newMachine()
			if err := m.restore(dr.snaps[r.Cut]); err == nil {
				rd := dumpStore(m.store())
				rows := map[string]any{}
				for _, t := range strings.Split(*show, ",") {
					rows[t] = map[string][]string{"donor": dr.dumps[r.Cut].strict[t], "restored": rd.strict[t]}
				}
				rep["rows"] = rows
			}
			m.close()
		}
		emit(rep)
		return
	}

	nw, nm := *nWide, *nModel
	if nw < 0 {
		nw = 90
		if *tier == "thorough" {
			nw = 900
		}
	}
	if nm < 0 {
		nm = 60
		if *tier == "thorough" {
			nm = 600
		}
	}
	rng := rand.New(rand.NewSource(*seed))
	st := newCutStats()
	mixes := []string{"catalog", "kv", "mesh", "admin", "peering"}
	shrunkSigs := map[string]int{}
	for i := -4; i < nw; i++ {
		if i < 0 {
			// the fixed histories (see corpusWide, corpusWideGateway, corpusWideSecrets, corpusWideAudit)
			cmds := corpusWide()
			if i == -2 {
				cmds = corpusWideGateway()
			}
			if i == -3 {
				cmds = corpusWideSecrets()
			}
			if i == -4 {
				cmds = corpusWideAudit()
			}
			h := runWide(2003+i, "corpus", cmds, st, false)
			for _, f := range h.Failures {
				key := sigKey(f)
				sc, sk := shrink(cmds, f.Cut, key)
				sdr := runDonor(sc, map[int]bool{sk: true}, nil)
				sf := f
				for _, x := range checkCut(sc, sk, sdr, nil) {
					if sigKey(x) == key {
						sf = x
					}
				}
				h.Shrunk = append(h.Shrunk, ShrunkReplay{Signature: f.Signature, Cmds: sc, Cut: sk, Failure: sf})
			}
			emit(h)
			continue
		}
		mix := mixes[i%len(mixes)]
		ln := 6 + rng.Intn(30)
		cmds := genWide(rng.Int63(), mix, ln)
		h := runWide(i, mix, cmds, st, false)
		// shrink each distinct signature at most twice per run
		for _, f := range h.Failures {
			key := sigKey(f)
			if shrunkSigs[key] >= 2 {
				continue
			}
			shrunkSigs[key]++
			sc, sk := shrink(cmds, f.Cut, key)
			sdr := runDonor(sc, map[int]bool{sk: true}, nil)
			sf := f
			for _, x := range checkCut(sc, sk, sdr, nil) {
				if sigKey(x) == key {
					sf = x
				}
			}
			h.Shrunk = append(h.Shrunk, ShrunkReplay{Signature: f.Signature, Cmds: sc, Cut: sk, Failure: sf})
		}
		emit(h)
	}
	// corpus: the histories of coq/Snapshot/Witness.v (the refutation witness and the non-vacuity
	// example), replayed on the implementation on every run
	for i, sc := range corpusScripts() {
		h := runModelHistory(1000+i, 0, "corpus", len(sc), sc)
		if i == 0 {
			h.Streams = craftedStreams() // hand-made snapshot streams, checked against the model's restore inside Coq
		}
		emit(h)
	}
	for i := 0; i < nm; i++ {
		mix := []string{"kv", "session", "txn"}[i%3]
		ln := 4 + rng.Intn(26)
		emit(runModelHistory(i, rng.Int63(), mix, ln, nil))
	}

	// table coverage
	sum := Summary{Mode: "summary", Tables: state.VerifC02TableNames(), DonorTables: st.donorTables, RestoredTables: st.restoredTables,
		SecretCombos: st.secretCombos, WitnessCuts: st.witnessCuts, DeferredPersists: st.deferred, ChainedRestores: st.chained,
		Restores: st.restores, Applies: st.applies, RowsCompared: st.rows, QueriesCompared: st.queries, ProjectedFields: projectedNotes,
		NeverRestored: []string{}, NeverPopulated: []string{}}
	for _, t := range sum.Tables {
		switch {
		case st.donorTables[t] > 0 && st.restoredTables[t] == 0:
			sum.NeverRestored = append(sum.NeverRestored, t)
		case st.donorTables[t] == 0:
			sum.NeverPopulated = append(sum.NeverPopulated, t)
		}
	}
	for _, t := range fsm.VerifC02RestorerTypes() {
		sum.RestorerTypes = append(sum.RestorerTypes, int(t))
	}
	for _, t := range fsm.VerifRegisteredTypes() {
		sum.CommandTypes = append(sum.CommandTypes, int(t))
	}
	sort.Ints(sum.RestorerTypes)
	emit(sum)
	_ = structs.RegisterRequestType
}
