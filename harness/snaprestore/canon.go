// Canonical, field-by-field serialisation of state-store rows, command results and query results.
//
// Rows are never printed with %+v (pointer-valued fields would print as addresses). Everything is
// walked by reflection: struct fields in declaration order (unexported ones too), maps sorted by
// key, protobuf messages through their deterministic wire form, time.Time as UnixNano.
//
// Two renderings exist of every value:
//   - strict:  everything a client can read;
//   - lenient: strict, except that the deviations recorded as known findings are replaced by what
//     a restore is known to produce (see `lenient` below). A difference that survives the lenient
//     rendering is a VIOLATION; one that appears only in the strict rendering is a known finding
//     with a structured signature.
//
// Projected away in BOTH renderings (listed in the evidence as `projected_fields`):
//   - kind-service-names rows: the private RaftIndex (no endpoint returns it; a restore re-stamps it)
//   - the distinction between a nil and an empty slice / map (msgpack does not keep it)
package main

import (
	"encoding/hex"
	"fmt"
	"reflect"
	"sort"
	"strconv"
	"strings"
	"time"

	"google.golang.org/protobuf/proto"

	"github.com/hashicorp/consul/agent/consul/state"
	"github.com/hashicorp/consul/agent/structs"
)

// projectedFields: table -> top-level field names dropped from the row in both renderings.
var projectedFields = map[string][]string{
	"kind-service-names": {"RaftIndex"},
}

var projectedNotes = []string{
	"kind-service-names.RaftIndex (private stamp, no endpoint returns it; a restore re-stamps it with the snapshot's last index)",
	"nil vs empty slice/map (not kept by msgpack; compared as equal)",
	"prepared-queries: the compiled template (unexported cache) is compared only as present/absent",
}

// svcKey identifies a service instance for the check refresh of the lenient rendering.
type svcKey struct{ node, id, peer string }

type svcInfo struct {
	name string
	tags []string
}

// maskSet: the known deviations of a restored store (one bit per known finding). A rendering
// with a mask set shows what a restore is known to produce instead of the donor's value.
type maskSet uint

const (
	mUsage            maskSet = 1 << iota // usage rows: index of the row / zero-count rows (finding 14)
	mCheckRefresh                         // health checks: ServiceName/ServiceTags re-copied from the service
	mGatewayStamp                         // gateway-services rows: RaftIndex (and ServiceKind of wildcard rows) rebuilt from the config entry
	mTopologyStamp                        // mesh-topology rows: stamps, references and left-over rows depend on the write order
	mOrphanSecret                         // peering-secret-uuids: the secrets of a row that outlived its peering are recorded by the restore
	mStaleKindName                        // kind-service-names: rows no registered instance backs any more are not rebuilt
	mWildcardUnbacked                     // gateway-services / mesh-topology: which names a wildcard gateway maps depends on the write order
	mStaleHash                            // config entries: the stored Hash predates a status write; the restore recomputes it
	mUnheldUUID                           // peering-secret-uuids: an id no secrets row holds any more is not rebuilt
	mNodeSpelling                         // services: the row keeps the node name as spelled by its own registration; the restore uses the node row's
	mNameSpelling                         // kind-service-names / usage: letter-case variants of one service name collapse by write order
	mAll              = mUsage | mCheckRefresh | mGatewayStamp | mTopologyStamp | mOrphanSecret | mStaleKindName | mWildcardUnbacked | mStaleHash | mUnheldUUID | mNodeSpelling | mNameSpelling
)

var maskList = []maskSet{mUsage, mCheckRefresh, mTopologyStamp, mGatewayStamp, mOrphanSecret, mUnheldUUID, mStaleKindName, mWildcardUnbacked, mStaleHash, mNodeSpelling, mNameSpelling}

var maskKind = map[maskSet]string{
	mUsage:            "usage-row-index-after-restore",
	mCheckRefresh:     "check-service-fields-refreshed-by-restore",
	mGatewayStamp:     "gateway-services-rows-restamped-by-restore",
	mTopologyStamp:    "mesh-topology-rows-depend-on-write-order",
	mOrphanSecret:     "orphan-peering-secret-uuid-added-by-restore",
	mStaleKindName:    "stale-kind-service-name-dropped-by-restore",
	mWildcardUnbacked: "wildcard-gateway-mappings-depend-on-write-order",
	mStaleHash:        "config-entry-hash-recomputed-by-restore",
	mUnheldUUID:       "peering-secret-uuids-diverge-after-peering-id-reuse",
	mNodeSpelling:     "service-row-node-name-respelled-by-restore",
	mNameSpelling:     "service-name-letter-case-variants-collapsed-by-write-order",
}

type canonCtx struct {
	masks   maskSet            // the deviations whose witness predicate holds for the cut being compared
	refresh bool               // re-copy ServiceName/ServiceTags of checks from the store's services (mCheckRefresh)
	svcs    map[svcKey]svcInfo // services of the store the value came from
	// the rows the witness names (nil: none)
	staleHash map[string]bool   // "kind\x00name" of config entries whose stored hash is stale (mStaleHash)
	respelled map[string]bool   // "node\x00peer" (lower case) of nodes with a service row spelled otherwise (mNodeSpelling)
	nodes     map[string]string // "node\x00peer" (lower case) -> the node row's spelling, in the store the value came from
	variants  map[string]bool   // lower-cased service names written in several letter-case spellings (mNameSpelling)
	// after a suffix: the checks that were stale at the cut ("node\x00check\x00peer", lower case).  A later
	// registration that repeats such a check rewrites it on the donor (its copied fields differ) and is
	// a no-op on the restored server (they were refreshed), so its ModifyIndex is not compared.
	staleChecks map[string]bool
}

var (
	timeType     = reflect.TypeOf(time.Time{})
	protoMsgType = reflect.TypeOf((*proto.Message)(nil)).Elem()
	hcType       = reflect.TypeOf(structs.HealthCheck{})
	gsType       = reflect.TypeOf(structs.GatewayService{})
	snType       = reflect.TypeOf(structs.ServiceNode{})
	suType       = reflect.TypeOf(structs.ServiceUsage{})
	svcNameType  = reflect.TypeOf(structs.ServiceName{})
)

// unbackedWildcard: a gateway-services mapping derived from a wildcard ("*") listener / linked
// service. Which names get such a mapping depends on the order in which the gateway's config
// entry, service-defaults destinations and service/proxy registrations were written (the
// registration path, the service-defaults path and the gateway-config path use different
// predicates); a restore replays registrations first and config entries in (kind, name) order.
func (c *canonCtx) unbackedWildcard(v reflect.Value) bool {
	for v.Kind() == reflect.Ptr || v.Kind() == reflect.Interface {
		if v.IsNil() {
			return false
		}
		v = v.Elem()
	}
	if v.Type() != gsType {
		return false
	}
	// (an explicit entry of a gateway that also has a wildcard used to be overwritten by the
	// registration path; repaired by a882280, so explicit rows are compared)
	return v.FieldByName("FromWildcard").Bool()
}

func (c *canonCtx) render(v interface{}) string {
	var sb strings.Builder
	c.walk(reflect.ValueOf(v), &sb, 0, nil)
	return sb.String()
}

func isEmptyColl(v reflect.Value) bool {
	switch v.Kind() {
	case reflect.Slice, reflect.Map:
		return v.Len() == 0
	}
	return false
}

func (c *canonCtx) walk(v reflect.Value, sb *strings.Builder, depth int, skip []string) {
	if depth > 40 {
		sb.WriteString("<deep>")
		return
	}
	if !v.IsValid() {
		sb.WriteString("nil")
		return
	}
	t := v.Type()
	// protobuf messages: deterministic wire form
	if v.Kind() == reflect.Ptr && t.Implements(protoMsgType) {
		if v.IsNil() {
			sb.WriteString("nil")
			return
		}
		if v.CanInterface() {
			b, err := proto.MarshalOptions{Deterministic: true}.Marshal(v.Interface().(proto.Message))
			if err != nil {
				sb.WriteString("<proto-error:" + err.Error() + ">")
				return
			}
			sb.WriteString("pb(" + t.Elem().Name() + "):" + hex.EncodeToString(b))
			return
		}
	}
	switch v.Kind() {
	case reflect.Ptr, reflect.Interface:
		if v.IsNil() {
			sb.WriteString("nil")
			return
		}
		if v.Kind() == reflect.Interface {
			if ek := v.Elem().Kind(); ek == reflect.Struct || ek == reflect.Ptr {
				sb.WriteString("(" + v.Elem().Type().String() + ")")
			}
		}
		c.walk(v.Elem(), sb, depth+1, skip)
	case reflect.Struct:
		if t == timeType {
			if v.CanInterface() {
				tm := v.Interface().(time.Time)
				if tm.IsZero() {
					sb.WriteString("t0")
				} else {
					sb.WriteString("t" + strconv.FormatInt(tm.UnixNano(), 10))
				}
			} else {
				sb.WriteString("t?")
			}
			return
		}
		if pp := t.PkgPath(); pp == "regexp" || pp == "sync" || pp == "sync/atomic" || strings.Contains(pp, "hashicorp/hil") {
			sb.WriteString("<" + t.String() + ">")
			return
		}
		var refreshed *svcInfo
		nodeSpelling := ""
		if c.masks&mNodeSpelling != 0 && t == snType {
			k := strings.ToLower(v.FieldByName("Node").String() + "\x00" + v.FieldByName("PeerName").String())
			if c.respelled[k] {
				nodeSpelling = c.nodes[k]
			}
		}
		if c.masks&mStaleHash != 0 && v.CanAddr() && v.Addr().CanInterface() {
			if ce, ok := v.Addr().Interface().(structs.ConfigEntry); ok && c.staleHash[ce.GetKind()+"\x00"+ce.GetName()] {
				skip = append(append([]string{}, skip...), "Hash")
			}
		}
		if c.masks&mNameSpelling != 0 && t == suType {
			skip = append(append([]string{}, skip...), "Services")
		}
		lowerName := c.masks&mNameSpelling != 0 && t == svcNameType && c.variants[strings.ToLower(v.FieldByName("Name").String())]
		if c.masks&mGatewayStamp != 0 && t == gsType {
			// ServiceKind records which registrations existed when the row was last written
			skip = append(append([]string{}, skip...), "RaftIndex", "ServiceKind")
		}
		if c.masks&(mTopologyStamp|mGatewayStamp) != 0 && t.Name() == "upstreamDownstream" {
			skip = append(append([]string{}, skip...), "RaftIndex")
		}
		if c.refresh && c.masks&mCheckRefresh != 0 && t == hcType && c.svcs != nil {
			sid := v.FieldByName("ServiceID").String()
			if sid != "" {
				k := svcKey{strings.ToLower(v.FieldByName("Node").String()), strings.ToLower(sid), strings.ToLower(v.FieldByName("PeerName").String())}
				if si, ok := c.svcs[k]; ok {
					refreshed = &si
				}
			}
		}
		staleStamp := false
		if c.staleChecks != nil && c.masks&mCheckRefresh != 0 && t == hcType {
			k := strings.ToLower(v.FieldByName("Node").String() + "\x00" + v.FieldByName("CheckID").String() + "\x00" + v.FieldByName("PeerName").String())
			if c.staleChecks[k] {
				staleStamp = true
				skip = append(append([]string{}, skip...), "RaftIndex")
			}
		}
		sb.WriteString("{")
		if staleStamp {
			sb.WriteString("CreateIndex:" + strconv.FormatUint(v.FieldByName("CreateIndex").Uint(), 10) + ",")
		}
		first := true
		for i := 0; i < t.NumField(); i++ {
			f := t.Field(i)
			drop := false
			for _, s := range skip {
				if s == f.Name {
					drop = true
				}
			}
			if drop {
				continue
			}
			fk := f.Type.Kind()
			if fk == reflect.Func || fk == reflect.Chan || fk == reflect.UnsafePointer {
				continue
			}
			if !first {
				sb.WriteString(",")
			}
			first = false
			sb.WriteString(f.Name + ":")
			if nodeSpelling != "" && f.Name == "Node" {
				sb.WriteString(strconv.Quote(nodeSpelling))
				continue
			}
			if lowerName && f.Name == "Name" {
				sb.WriteString(strconv.Quote(strings.ToLower(v.Field(i).String())))
				continue
			}
			if refreshed != nil && f.Name == "ServiceName" {
				sb.WriteString(strconv.Quote(refreshed.name))
				continue
			}
			if refreshed != nil && f.Name == "ServiceTags" {
				sb.WriteString("[")
				for j, tg := range refreshed.tags {
					if j > 0 {
						sb.WriteString(",")
					}
					sb.WriteString(strconv.Quote(tg))
				}
				sb.WriteString("]")
				continue
			}
			c.walk(v.Field(i), sb, depth+1, nil)
		}
		sb.WriteString("}")
	case reflect.Map:
		if v.Len() == 0 {
			sb.WriteString("map[]")
			return
		}
		type kv struct {
			k string
			v reflect.Value
		}
		var kvs []kv
		iter := v.MapRange()
		for iter.Next() {
			var kb strings.Builder
			c.walk(iter.Key(), &kb, depth+1, nil)
			kvs = append(kvs, kv{kb.String(), iter.Value()})
		}
		sort.Slice(kvs, func(i, j int) bool { return kvs[i].k < kvs[j].k })
		sb.WriteString("map[")
		for i, e := range kvs {
			if i > 0 {
				sb.WriteString(",")
			}
			sb.WriteString(e.k + "=>")
			c.walk(e.v, sb, depth+1, nil)
		}
		sb.WriteString("]")
	case reflect.Slice, reflect.Array:
		if v.Kind() == reflect.Slice && t.Elem().Kind() == reflect.Uint8 {
			sb.WriteString("x")
			for i := 0; i < v.Len(); i++ {
				fmt.Fprintf(sb, "%02x", v.Index(i).Uint())
			}
			return
		}
		sb.WriteString("[")
		n := 0
		for i := 0; i < v.Len(); i++ {
			if c.masks&mWildcardUnbacked != 0 && c.unbackedWildcard(v.Index(i)) {
				continue
			}
			if n > 0 {
				sb.WriteString(",")
			}
			n++
			c.walk(v.Index(i), sb, depth+1, nil)
		}
		sb.WriteString("]")
	case reflect.String:
		sb.WriteString(strconv.Quote(v.String()))
	case reflect.Bool:
		if v.Bool() {
			sb.WriteString("true")
		} else {
			sb.WriteString("false")
		}
	case reflect.Int, reflect.Int8, reflect.Int16, reflect.Int32, reflect.Int64:
		sb.WriteString(strconv.FormatInt(v.Int(), 10))
	case reflect.Uint, reflect.Uint8, reflect.Uint16, reflect.Uint32, reflect.Uint64, reflect.Uintptr:
		sb.WriteString(strconv.FormatUint(v.Uint(), 10))
	case reflect.Float32, reflect.Float64:
		sb.WriteString(strconv.FormatFloat(v.Float(), 'g', -1, 64))
	case reflect.Complex64, reflect.Complex128:
		sb.WriteString(fmt.Sprint(v.Complex()))
	default:
		sb.WriteString("<" + t.String() + ">")
	}
}

// ---------------------------------------------------------------- table diffs

// tableDump: table name -> sorted canonical rows.
type tableDump map[string][]string

// diffTables returns the tables whose rows differ, with the first differing row of each side.
type tableDiff struct {
	Table  string `json:"table"`
	Donor  string `json:"donor"`
	Other  string `json:"other"`
	NDonor int    `json:"n_donor"`
	NOther int    `json:"n_other"`
}

func clip(s string) string {
	if len(s) > 700 {
		return s[:700] + "..."
	}
	return s
}

func diffTables(a, b tableDump) []tableDiff {
	names := map[string]bool{}
	for t := range a {
		names[t] = true
	}
	for t := range b {
		names[t] = true
	}
	var sorted []string
	for t := range names {
		sorted = append(sorted, t)
	}
	sort.Strings(sorted)
	var out []tableDiff
	for _, t := range sorted {
		ra, rb := a[t], b[t]
		same := len(ra) == len(rb)
		if same {
			for i := range ra {
				if ra[i] != rb[i] {
					same = false
					break
				}
			}
		}
		if same {
			continue
		}
		// first row present on one side only
		inB := map[string]int{}
		for _, r := range rb {
			inB[r]++
		}
		inA := map[string]int{}
		for _, r := range ra {
			inA[r]++
		}
		d := tableDiff{Table: t, NDonor: len(ra), NOther: len(rb)}
		for _, r := range ra {
			if inB[r] == 0 {
				d.Donor = clip(r)
				break
			}
			inB[r]--
		}
		for _, r := range rb {
			if inA[r] == 0 {
				d.Other = clip(r)
				break
			}
			inA[r]--
		}
		out = append(out, d)
	}
	return out
}

// ---------------------------------------------------------------- read queries

// runQueries evaluates the fixed list of read queries on a store. Every entry records the
// reported query index and the canonical result.
func runQueries(st *state.Store, u *universe) []queryResult {
	env := envOf(st)
	kinds := env.kinds
	var out []queryResult
	em := structs.DefaultEnterpriseMetaInDefaultPartition()
	add := func(name string, idx uint64, res interface{}, err error) {
		e := ""
		if err != nil {
			e = " err=" + err.Error()
		}
		q := queryResult{name: name, idx: idx, err: e, res: res, env: env}
		q.strict = q.render(nil, false)
		out = append(out, q)
	}
	for _, k := range u.keys {
		idx, e, err := st.KVSGet(nil, k, nil)
		add("KVSGet:"+k, idx, e, err)
	}
	for _, p := range u.prefixes {
		idx, es, err := st.KVSList(nil, p, nil)
		add("KVSList:"+p, idx, es, err)
	}
	{
		idx, ss, err := st.SessionList(nil, em)
		add("SessionList", idx, ss, err)
	}
	for _, n := range u.nodes {
		idx, ss, err := st.NodeSessions(nil, n, em)
		add("NodeSessions:"+n, idx, ss, err)
		idx, cs, err := st.NodeChecks(nil, n, em, "")
		add("NodeChecks:"+n, idx, cs, err)
		idx, ns, err := st.NodeServices(nil, n, em, "")
		add("NodeServices:"+n, idx, ns, err)
	}
	for _, peer := range []string{"", u.peers[0]} {
		idx, ns, err := st.Nodes(nil, em, peer)
		add("Nodes:"+peer, idx, ns, err)
		idx, sl, err := st.ServiceList(nil, em, peer)
		// the result is built by ranging over a Go map: a set, compared sorted
		sort.Slice(sl, func(i, j int) bool { return sl[i].String() < sl[j].String() })
		add("ServiceList:"+peer, idx, sl, err)
		idx, sn, err := st.Services(nil, em, peer, true)
		add("Services:"+peer, idx, sn, err)
		idx, nd, err := st.NodeDump(nil, em, peer)
		add("NodeDump:"+peer, idx, nd, err)
		idx, hc, err := st.ChecksInState(nil, "any", em, peer)
		add("ChecksInState:any:"+peer, idx, hc, err)
		for _, s := range u.svcNames {
			idx, sn, err := st.ServiceNodes(nil, s, em, peer)
			add("ServiceNodes:"+s+":"+peer, idx, sn, err)
			idx, csn, err := st.CheckServiceNodes(nil, s, em, peer)
			add("CheckServiceNodes:"+s+":"+peer, idx, csn, err)
			idx, ccsn, err := st.CheckConnectServiceNodes(nil, s, em, peer)
			add("CheckConnectServiceNodes:"+s+":"+peer, idx, ccsn, err)
			idx, sc2, err := st.ServiceChecks(nil, s, em, peer)
			add("ServiceChecks:"+s+":"+peer, idx, sc2, err)
		}
	}
	for _, s := range u.svcNames {
		idx, gs, err := st.GatewayServices(nil, s, em)
		add("GatewayServices:"+s, idx, gs, err)
		for _, kind := range []structs.ServiceKind{structs.ServiceKindTypical, structs.ServiceKindConnectProxy} {
			idx, topo, err := st.ServiceTopology(nil, "dc1", s, kind, false, em)
			if err != nil {
				// which of several failing chains is named depends on map order: keep the fact only
				err = fmt.Errorf("topology-error")
			}
			if topo != nil {
				// instances are gathered per upstream/downstream NAME by ranging over a Go map: compared sorted
				sortCSN(topo.Upstreams)
				sortCSN(topo.Downstreams)
			}
			add("ServiceTopology:"+s+":"+string(kind), idx, topo, err)
		}
		for _, mt := range []structs.IntentionMatchType{structs.IntentionMatchSource, structs.IntentionMatchDestination} {
			idx, ms, err := st.IntentionMatch(nil, &structs.IntentionQueryMatch{Type: mt,
				Entries: []structs.IntentionMatchEntry{{Namespace: "default", Partition: "default", Name: s}}})
			add("IntentionMatch:"+string(mt)+":"+s, idx, ms, err)
		}
		vip, err := st.VirtualIPForService(structs.PeeredServiceName{ServiceName: structs.NewServiceName(s, nil)})
		add("VirtualIPForService:"+s, 0, vip, err)
		mv, err := st.ServiceManualVIPs(structs.PeeredServiceName{ServiceName: structs.NewServiceName(s, nil)})
		add("ServiceManualVIPs:"+s, 0, mv, err)
	}
	{
		idx, gs, err := st.DumpGatewayServices(nil)
		add("DumpGatewayServices", idx, gs, err)
		idx, sd, err := st.ServiceDump(nil, "", false, em, "")
		add("ServiceDump", idx, sd, err)
		idx, vips, err := st.ServiceVirtualIPs()
		add("ServiceVirtualIPs", idx, vips, err)
		for _, kind := range []structs.ServiceKind{structs.ServiceKindTypical, structs.ServiceKindConnectProxy, structs.ServiceKindTerminatingGateway,
			structs.ServiceKindIngressGateway, structs.ServiceKindMeshGateway, structs.ServiceKindConnectEnabled, structs.ServiceKindDestination} {
			idx, kn, err := st.ServiceNamesOfKind(nil, kind)
			// the rows carry the private RaftIndex: project it away as in the table dump
			names := kindNames{}
			for _, k := range kn {
				names.Names = append(names.Names, k.Service.String())
				names.Backed = append(names.Backed, kinds[strings.ToLower(string(kind)+"\x00"+k.Service.Name)])
			}
			add("ServiceNamesOfKind:"+string(kind), idx, names, err)
		}
		idx, ces, err := st.ConfigEntries(nil, em)
		add("ConfigEntries", idx, ces, err)
		idx, ixns, fromCE, err := st.Intentions(nil, em)
		add("Intentions", idx, struct {
			I structs.Intentions
			F bool
		}{ixns, fromCE}, err)
		idx, roots, err := st.CARoots(nil)
		add("CARoots", idx, roots, err)
		idx, cac, err := st.CAConfig(nil)
		add("CAConfig", idx, cac, err)
		for _, id := range u.providerIDs {
			idx, ps, err := st.CAProviderState(id)
			add("CAProviderState:"+id, idx, ps, err)
		}
		idx, pqs, err := st.PreparedQueryList(nil)
		add("PreparedQueryList", idx, pqs, err)
		for _, n := range []string{"pq-web", "tpl-anything", u.queryIDs[0]} {
			idx, pq, err := st.PreparedQueryResolve(n, structs.QuerySource{})
			add("PreparedQueryResolve:"+n, idx, pq, err)
		}
		idx, ps, err := st.PeeringList(nil, *structs.DefaultEnterpriseMetaInDefaultPartition())
		add("PeeringList", idx, ps, err)
		idx, tbs, err := st.PeeringTrustBundleList(nil, *structs.DefaultEnterpriseMetaInDefaultPartition())
		add("PeeringTrustBundleList", idx, tbs, err)
		for _, pid := range u.peerIDs {
			sec, err := st.PeeringSecretsRead(nil, pid)
			add("PeeringSecretsRead:"+pid, 0, sec, err)
			idx, exp, err := st.ExportedServicesForPeer(nil, pid, "dc1")
			add("ExportedServicesForPeer:"+pid, idx, exp, err)
		}
		idx, toks, err := st.ACLTokenList(nil, true, true, "", "", "", nil, em)
		add("ACLTokenList", idx, toks, err)
		idx, pols, err := st.ACLPolicyList(nil, em)
		add("ACLPolicyList", idx, pols, err)
		idx, rls, err := st.ACLRoleList(nil, "", em)
		add("ACLRoleList", idx, rls, err)
		idx, brs, err := st.ACLBindingRuleList(nil, "", em)
		add("ACLBindingRuleList", idx, brs, err)
		idx, ams, err := st.ACLAuthMethodList(nil, em)
		add("ACLAuthMethodList", idx, ams, err)
		idx, cos, err := st.Coordinates(nil, em)
		add("Coordinates", idx, cos, err)
		idx, fss, err := st.FederationStateList(nil)
		add("FederationStateList", idx, fss, err)
		idx, sms, err := st.SystemMetadataList(nil)
		add("SystemMetadataList", idx, sms, err)
		idx, ap, err := st.AutopilotConfig()
		add("AutopilotConfig", idx, ap, err)
		idx, fgp, fgs, err := st.FeatureGatePolicyAndStatus(nil)
		add("FeatureGates", idx, []interface{}{fgp, fgs}, err)
	}
	{
		idx, su, err := st.ServiceUsage(nil, false)
		add("ServiceUsage", idx, su, err)
		idx, nu, err := st.NodeUsage()
		add("NodeUsage", idx, nu, err)
		idx, pu, err := st.PeeringUsage()
		add("PeeringUsage", idx, pu, err)
		idx, ku, err := st.KVUsage()
		add("KVUsage", idx, ku, err)
		idx, cu, err := st.ConfigEntryUsage()
		add("ConfigEntryUsage", idx, cu, err)
	}
	return out
}

// canonResult renders a command result (the value FSM.Apply returned).
func canonResult(v interface{}) string {
	if err, ok := v.(error); ok && err != nil {
		return "error:" + err.Error()
	}
	c := &canonCtx{}
	return c.render(v)
}
