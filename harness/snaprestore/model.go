// The modelled command subset (coq/Store/Model.v): histories, per-cut snapshot records as the
// implementation wrote them, and the restored store, all in the model's vocabulary.
// The command / dump vocabulary is the one of harness/store (checks/storelib.py renders it to Coq).
package main

import (
	"bytes"
	"encoding/hex"
	"fmt"
	"math/rand"
	"reflect"
	"sort"
	"strings"
	"time"

	"github.com/hashicorp/consul-net-rpc/go-msgpack/codec"

	"github.com/hashicorp/consul/agent/consul/fsm"
	"github.com/hashicorp/consul/agent/consul/state"
	"github.com/hashicorp/consul/agent/structs"
	"github.com/hashicorp/consul/api"
	"github.com/hashicorp/consul/types"
)

type KVReq struct {
	Key     string `json:"key"`
	Value   string `json:"value"` // hex
	Flags   uint64 `json:"flags"`
	Session string `json:"session"`
	Index   uint64 `json:"index"`
	Lock    uint64 `json:"lock"`
}

type CheckReq struct {
	Node     string `json:"node"`
	ID       string `json:"id"`
	Status   int    `json:"status"`
	Service  string `json:"service"`
	SessType bool   `json:"sess_type"`
	SessName string `json:"sess_name"`
	Output   int    `json:"output"`
	Index    uint64 `json:"index"`
}

type TxnOp struct {
	Kind  string    `json:"kind"`
	Verb  string    `json:"verb"`
	KV    *KVReq    `json:"kv,omitempty"`
	Node  string    `json:"node,omitempty"`
	ID    string    `json:"id,omitempty"`
	Addr  int       `json:"addr,omitempty"`
	Svc   string    `json:"svc,omitempty"`
	Name  string    `json:"name,omitempty"`
	Port  int       `json:"port,omitempty"`
	Index uint64    `json:"index,omitempty"`
	Check *CheckReq `json:"check,omitempty"`
	Sid   string    `json:"sid,omitempty"`
}

type Cmd struct {
	Kind     string     `json:"kind"`
	Idx      uint64     `json:"idx"`
	Verb     string     `json:"verb,omitempty"`
	KV       *KVReq     `json:"kv,omitempty"`
	Sid      string     `json:"sid,omitempty"`
	Node     string     `json:"node,omitempty"`
	Name     string     `json:"name,omitempty"`
	Delete   bool       `json:"delete,omitempty"`
	Checks   []string   `json:"checks,omitempty"`
	Delay    bool       `json:"delay,omitempty"`
	ID       string     `json:"id,omitempty"`
	Addr     int        `json:"addr,omitempty"`
	Skip     bool       `json:"skip,omitempty"`
	HasSvc   bool       `json:"has_svc,omitempty"`
	Svc      string     `json:"svc,omitempty"`
	SvcName  string     `json:"svc_name,omitempty"`
	Port     int        `json:"port,omitempty"`
	RegCheck []CheckReq `json:"reg_checks,omitempty"`
	CheckID  string     `json:"check_id,omitempty"`
	Ops      []TxnOp    `json:"ops,omitempty"`
	Upto     uint64     `json:"upto,omitempty"`
	Qid      string     `json:"qid,omitempty"`
}

type KVRow struct {
	K string `json:"k"`
	V string `json:"v"`
	F uint64 `json:"f"`
	S string `json:"s"`
	L uint64 `json:"l"`
	C uint64 `json:"c"`
	M uint64 `json:"m"`
}
type SessRow struct {
	ID     string   `json:"id"`
	Node   string   `json:"node"`
	Name   string   `json:"name"`
	Del    bool     `json:"del"`
	Checks []string `json:"checks"`
	Delay  bool     `json:"delay"`
	C      uint64   `json:"c"`
}
type NodeRow struct {
	Name string `json:"name"`
	ID   string `json:"id"`
	Addr int    `json:"addr"`
	C    uint64 `json:"c"`
	M    uint64 `json:"m"`
}
type SvcRow struct {
	Node string `json:"node"`
	ID   string `json:"id"`
	Name string `json:"name"`
	Port int    `json:"port"`
	C    uint64 `json:"c"`
	M    uint64 `json:"m"`
}
type CheckRow struct {
	Node     string `json:"node"`
	ID       string `json:"id"`
	Status   int    `json:"status"`
	Svc      string `json:"svc"`
	SvcName  string `json:"svcname"`
	SessType bool   `json:"stype"`
	SessName string `json:"sname"`
	OutKind  string `json:"okind"`
	OutN     int    `json:"on"`
	OutSid   string `json:"osid"`
	C        uint64 `json:"c"`
	M        uint64 `json:"m"`
}
type Dump struct {
	KVs      []KVRow     `json:"kvs"`
	Tombs    [][2]string `json:"tombs"`
	Sessions []SessRow   `json:"sessions"`
	SChecks  [][3]string `json:"schecks"`
	Queries  [][2]string `json:"queries"`
	Nodes    []NodeRow   `json:"nodes"`
	Services []SvcRow    `json:"services"`
	Checks   []CheckRow  `json:"checks"`
	Index    [][2]string `json:"index"`
	Delay    []string    `json:"lockdelay"`
}

type TRes struct {
	Kind  string    `json:"kind"`
	KV    *KVRow    `json:"kv,omitempty"`
	Node  *NodeRow  `json:"node,omitempty"`
	Svc   *SvcRow   `json:"svc,omitempty"`
	Check *CheckRow `json:"check,omitempty"`
}
type Res struct {
	Kind    string   `json:"kind"`
	Bool    bool     `json:"bool,omitempty"`
	Str     string   `json:"str,omitempty"`
	Err     string   `json:"err,omitempty"`
	Results []TRes   `json:"results,omitempty"`
	Errors  [][2]any `json:"errors,omitempty"`
}

// Rec is one snapshot record in the model's vocabulary.
type Rec struct {
	T     string    `json:"t"` // node service check session kv tomb query index
	Node  *NodeRow  `json:"node,omitempty"`
	Svc   *SvcRow   `json:"svc,omitempty"`
	Check *CheckRow `json:"check,omitempty"`
	Sess  *SessRow  `json:"sess,omitempty"`
	KV    *KVRow    `json:"kv,omitempty"`
	Key   string    `json:"key,omitempty"`
	Sid   string    `json:"sid,omitempty"`
	N     uint64    `json:"n,omitempty"`
}

type ModelCut struct {
	K         int       `json:"k"`
	LastIndex uint64    `json:"last_index"`
	Records   []Rec     `json:"records"`
	Other     []int     `json:"other_record_types"` // record types outside the model (must be empty)
	Restored  Dump      `json:"restored"`
	Reads     [3]uint64 `json:"reads"`           // restored store: KVSList("") index, SessionList index, PreparedQueryList index
	QReads    []QRead   `json:"qreads"`          // restored store: the modelled read queries as the implementation answers them
	Final     *Dump     `json:"final,omitempty"` // restored FSM after the suffix
	Failures  []string  `json:"failures,omitempty"`
}

// QRead: one read of the restored store, in the vocabulary of Snapshot.Model.query / qres.
type QRead struct {
	Q        string     `json:"q"` // kvget kvlist sessget sesslist node nodeservices nodechecks queryget
	Arg      string     `json:"arg"`
	Idx      uint64     `json:"idx"`
	KV       *KVRow     `json:"kv,omitempty"`
	KVs      []KVRow    `json:"kvs,omitempty"`
	Sess     *SessRow   `json:"sess,omitempty"`
	Sessions []SessRow  `json:"sessions,omitempty"`
	Node     *NodeRow   `json:"node,omitempty"`
	Services []SvcRow   `json:"services,omitempty"`
	Checks   []CheckRow `json:"checks,omitempty"`
	QSid     *string    `json:"qsid,omitempty"`
}

// modelReads runs the real read paths (KVSGet, KVSList, SessionGet, SessionList, GetNode,
// NodeServices, NodeChecks, PreparedQueryGet) over the model's universe.
func modelReads(st *state.Store) []QRead {
	var out []QRead
	for _, k := range mKeys {
		idx, e, err := st.KVSGet(nil, k, nil)
		if err != nil {
			panic(err)
		}
		r := QRead{Q: "kvget", Arg: k, Idx: idx}
		if e != nil {
			row := kvRow(e)
			r.KV = &row
		}
		out = append(out, r)
	}
	{
		idx, es, err := st.KVSList(nil, "", nil)
		if err != nil {
			panic(err)
		}
		r := QRead{Q: "kvlist", Idx: idx, KVs: []KVRow{}}
		for _, e := range es {
			r.KVs = append(r.KVs, kvRow(e))
		}
		out = append(out, r)
	}
	for _, id := range mSessIDs {
		idx, se, err := st.SessionGet(nil, id, nil)
		if err != nil {
			panic(err)
		}
		r := QRead{Q: "sessget", Arg: id, Idx: idx}
		if se != nil {
			row := sessRow(se)
			r.Sess = &row
		}
		out = append(out, r)
	}
	{
		idx, ss, err := st.SessionList(nil, nil)
		if err != nil {
			panic(err)
		}
		r := QRead{Q: "sesslist", Idx: idx, Sessions: []SessRow{}}
		for _, se := range ss {
			r.Sessions = append(r.Sessions, sessRow(se))
		}
		out = append(out, r)
	}
	em := structs.DefaultEnterpriseMetaInDefaultPartition()
	for _, nd := range mNodeNames {
		_, n, err := st.GetNode(nd, em, "")
		if err != nil {
			panic(err)
		}
		r := QRead{Q: "node", Arg: nd}
		if n != nil {
			row := nodeRow(n)
			r.Node = &row
		}
		out = append(out, r)
		_, nss, err := st.NodeServices(nil, nd, em, "")
		if err != nil {
			panic(err)
		}
		rs := QRead{Q: "nodeservices", Arg: nd, Services: []SvcRow{}}
		if nss != nil {
			var ids []string
			for id := range nss.Services {
				ids = append(ids, id)
			}
			sort.Strings(ids)
			for _, id := range ids {
				v := nss.Services[id]
				rs.Services = append(rs.Services, SvcRow{Node: nd, ID: v.ID, Name: v.Service, Port: v.Port, C: v.CreateIndex, M: v.ModifyIndex})
			}
		}
		out = append(out, rs)
		_, hcs, err := st.NodeChecks(nil, nd, em, "")
		if err != nil {
			panic(err)
		}
		rc := QRead{Q: "nodechecks", Arg: nd, Checks: []CheckRow{}}
		for _, hc := range hcs {
			rc.Checks = append(rc.Checks, checkRow(hc))
		}
		out = append(out, rc)
	}
	for _, id := range mQueryIDs {
		idx, pq, err := st.PreparedQueryGet(nil, id)
		if err != nil {
			panic(err)
		}
		r := QRead{Q: "queryget", Arg: id, Idx: idx}
		if pq != nil {
			sid := pq.Session
			r.QSid = &sid
		}
		out = append(out, r)
	}
	return out
}

type ModelHistory struct {
	ID       int          `json:"id"`
	Mode     string       `json:"mode"`
	Mix      string       `json:"mix"`
	Cmds     []Cmd        `json:"cmds"`
	Results  []Res        `json:"results"`
	Final    Dump         `json:"final"`
	Cuts     []ModelCut   `json:"cuts"`
	Streams  []StreamCase `json:"streams,omitempty"`
	Failures []Failure    `json:"failures"`
}

// StreamCase: a snapshot stream no Persist would write (hand-made registration records), fed to
// the real FSM.Restore, to exercise the restorer branches the round trip never reaches: a node
// id moving to another name (the old node is deleted with everything on it), a name reserved by
// another id (the whole restore fails), a record without saved indexes (stamped with the header's
// LastIndex), a service record that changes an existing service.
type StreamCase struct {
	Name      string `json:"name"`
	LastIndex uint64 `json:"last_index"`
	Records   []Rec  `json:"records"`
	Other     []int  `json:"other_record_types"`
	Err       string `json:"err"` // non-empty: FSM.Restore refused the stream
	Restored  *Dump  `json:"restored,omitempty"`
}

func craftedStreams() []StreamCase {
	idA, idB := mNodeIDs[1], mNodeIDs[2]
	node := func(name, id string, addr int, c, m uint64) structs.RegisterRequest {
		return structs.RegisterRequest{Datacenter: "dc1", Node: name, ID: types.NodeID(id), Address: addrOf(addr),
			RaftIndex: structs.RaftIndex{CreateIndex: c, ModifyIndex: m}}
	}
	svc := func(r structs.RegisterRequest, id, name string, port int, c, m uint64) structs.RegisterRequest {
		r.Service = &structs.NodeService{ID: id, Service: name, Port: port, Weights: &structs.Weights{Passing: 1, Warning: 1},
			RaftIndex: structs.RaftIndex{CreateIndex: c, ModifyIndex: m}}
		return r
	}
	chk := func(r structs.RegisterRequest, id, sid string, c, m uint64) structs.RegisterRequest {
		r.Check = &structs.HealthCheck{Node: r.Node, CheckID: types.CheckID(id), Name: "chk-" + id, Status: api.HealthPassing, ServiceID: sid,
			Output: "out0", RaftIndex: structs.RaftIndex{CreateIndex: c, ModifyIndex: m}}
		return r
	}
	cases := []struct {
		name string
		li   uint64
		reqs []structs.RegisterRequest
	}{
		{"node id moves to another name", 9, []structs.RegisterRequest{
			node("n1", idA, 1, 1, 1), svc(node("n1", idA, 1, 1, 1), "s1", "web", 80, 2, 2), chk(node("n1", idA, 1, 1, 1), "c1", "s1", 3, 3),
			node("n2", idA, 1, 4, 4), svc(node("n2", idA, 1, 4, 4), "s2", "db", 81, 5, 5)}},
		{"name of a node without serf check taken over by another id", 9, []structs.RegisterRequest{
			node("n1", idA, 1, 1, 1), node("n2", idB, 2, 2, 2), node("n2", idA, 1, 3, 3)}},
		{"name reserved by another id (healthy serf check): restore refused", 9, []structs.RegisterRequest{
			node("n1", idA, 1, 1, 1), node("n2", idB, 2, 2, 2), chk(node("n2", idB, 2, 2, 2), "serfHealth", "", 3, 3), node("n2", idA, 1, 4, 4)}},
		{"no saved indexes", 7, []structs.RegisterRequest{
			node("n1", "", 1, 0, 0), svc(node("n1", "", 1, 0, 0), "s1", "web", 80, 2, 2)}},
		{"later records change node and service", 9, []structs.RegisterRequest{
			node("n1", "", 1, 1, 1), svc(node("n1", "", 1, 1, 1), "s1", "web", 80, 2, 2),
			node("n1", idA, 2, 1, 5), svc(node("n1", idA, 2, 1, 5), "s1", "db", 80, 2, 6), chk(node("n1", idA, 2, 1, 5), "c1", "s1", 7, 7)}},
		{"id taken from a node without id", 9, []structs.RegisterRequest{
			node("n1", "", 1, 1, 1), node("n1", idA, 1, 1, 3)}},
	}
	var out []StreamCase
	for _, c := range cases {
		var buf bytes.Buffer
		enc := codec.NewEncoder(&buf, structs.MsgpackHandle)
		if err := enc.Encode(&fsm.SnapshotHeader{LastIndex: c.li}); err != nil {
			panic(err)
		}
		for i := range c.reqs {
			buf.WriteByte(byte(structs.RegisterRequestType))
			if err := enc.Encode(&c.reqs[i]); err != nil {
				panic(err)
			}
		}
		sc := StreamCase{Name: c.name}
		var err error
		sc.LastIndex, sc.Records, sc.Other, err = decodeRecords(buf.Bytes())
		if err != nil {
			panic(err)
		}
		m := newMachine()
		if rerr := m.restore(buf.Bytes()); rerr != nil {
			sc.Err = rerr.Error()
		} else {
			d := modelDump(m.store())
			sc.Restored = &d
		}
		m.close()
		out = append(out, sc)
	}
	return out
}

var (
	mNodeNames = []string{"n1", "n2", "n3"}
	mNodeIDs   = []string{"", "11111111-1111-1111-1111-111111111111", "22222222-2222-2222-2222-222222222222", "33333333-3333-3333-3333-333333333333"}
	mSvcIDs    = []string{"s1", "s2"}
	mSvcNames  = []string{"web", "db"}
	mCheckIDs  = []string{"c1", "c2", "serfHealth", "sc1"}
	mSessIDs   = []string{"aaaaaaaa-aaaa-aaaa-aaaa-aaaaaaaaaaaa", "bbbbbbbb-bbbb-bbbb-bbbb-bbbbbbbbbbbb", "cccccccc-cccc-cccc-cccc-cccccccccccc", "dddddddd-dddd-dddd-dddd-dddddddddddd"}
	mSessNames = []string{"", "lockA", "lockB"}
	mKeys      = []string{"a", "a/", "a/b", "ab", "b", "é"}
	mPrefixes  = []string{"", "a", "a/", "b", "zz"}
	mValues    = [][]byte{{}, {1, 2, 3}, {255, 0}}
	mQueryIDs  = []string{"99999999-9999-9999-9999-999999999991", "99999999-9999-9999-9999-999999999992"}
)

func mDirEnt(q *KVReq) structs.DirEntry {
	v, _ := hex.DecodeString(q.Value)
	if len(v) == 0 {
		v = nil
	}
	return structs.DirEntry{Key: q.Key, Value: v, Flags: q.Flags, Session: q.Session, LockIndex: q.Lock,
		RaftIndex: structs.RaftIndex{ModifyIndex: q.Index}}
}

func mHealthCheck(c *CheckReq) *structs.HealthCheck {
	hc := &structs.HealthCheck{Node: c.Node, CheckID: types.CheckID(c.ID), Name: "chk", Status: statusNames[c.Status],
		ServiceID: c.Service, Output: fmt.Sprintf("out%d", c.Output),
		RaftIndex: structs.RaftIndex{ModifyIndex: c.Index}}
	if c.SessType {
		hc.Type = "session"
		hc.Definition.SessionName = c.SessName
	}
	return hc
}

func addrOf(n int) string { return fmt.Sprintf("10.0.0.%d", n) }

func mTxnOp(o *TxnOp) *structs.TxnOp {
	switch o.Kind {
	case "kv":
		return &structs.TxnOp{KV: &structs.TxnKVOp{Verb: api.KVOp(o.Verb), DirEnt: mDirEnt(o.KV)}}
	case "node":
		return &structs.TxnOp{Node: &structs.TxnNodeOp{Verb: api.NodeOp(o.Verb),
			Node: structs.Node{Node: o.Node, ID: types.NodeID(o.ID), Address: addrOf(o.Addr), Datacenter: "dc1",
				RaftIndex: structs.RaftIndex{ModifyIndex: o.Index}}}}
	case "service":
		return &structs.TxnOp{Service: &structs.TxnServiceOp{Verb: api.ServiceOp(o.Verb), Node: o.Node,
			Service: structs.NodeService{ID: o.Svc, Service: o.Name, Port: o.Port,
				RaftIndex: structs.RaftIndex{ModifyIndex: o.Index}}}}
	case "check":
		return &structs.TxnOp{Check: &structs.TxnCheckOp{Verb: api.CheckOp(o.Verb), Check: *mHealthCheck(o.Check)}}
	case "session":
		return &structs.TxnOp{Session: &structs.TxnSessionOp{Verb: api.SessionDelete, Session: structs.Session{ID: o.Sid}}}
	}
	panic("unknown txn op kind " + o.Kind)
}

func mEncode(c *Cmd) []byte {
	var t structs.MessageType
	var msg interface{}
	switch c.Kind {
	case "kvs":
		t = structs.KVSRequestType
		msg = &structs.KVSRequest{Datacenter: "dc1", Op: api.KVOp(c.Verb), DirEnt: mDirEnt(c.KV)}
	case "session_create":
		t = structs.SessionRequestType
		s := structs.Session{ID: c.Sid, Node: c.Node, Name: c.Name, Behavior: structs.SessionKeysRelease}
		if c.Delete {
			s.Behavior = structs.SessionKeysDelete
		}
		for _, ck := range c.Checks {
			s.NodeChecks = append(s.NodeChecks, ck)
		}
		if c.Delay {
			s.LockDelay = 15 * time.Second
		}
		msg = &structs.SessionRequest{Datacenter: "dc1", Op: structs.SessionCreate, Session: s}
	case "session_destroy":
		t = structs.SessionRequestType
		msg = &structs.SessionRequest{Datacenter: "dc1", Op: structs.SessionDestroy, Session: structs.Session{ID: c.Sid}}
	case "register":
		t = structs.RegisterRequestType
		r := &structs.RegisterRequest{Datacenter: "dc1", Node: c.Node, ID: types.NodeID(c.ID), Address: addrOf(c.Addr), SkipNodeUpdate: c.Skip}
		if c.HasSvc {
			r.Service = &structs.NodeService{ID: c.Svc, Service: c.SvcName, Port: c.Port}
		}
		for i := range c.RegCheck {
			r.Checks = append(r.Checks, mHealthCheck(&c.RegCheck[i]))
		}
		msg = r
	case "deregister":
		t = structs.DeregisterRequestType
		msg = &structs.DeregisterRequest{Datacenter: "dc1", Node: c.Node, ServiceID: c.Svc, CheckID: types.CheckID(c.CheckID)}
	case "txn":
		t = structs.TxnRequestType
		r := &structs.TxnRequest{Datacenter: "dc1"}
		for i := range c.Ops {
			r.Ops = append(r.Ops, mTxnOp(&c.Ops[i]))
		}
		msg = r
	case "reap":
		t = structs.TombstoneRequestType
		msg = &structs.TombstoneRequest{Datacenter: "dc1", Op: structs.TombstoneReap, ReapIndex: c.Upto}
	case "query_set":
		t = structs.PreparedQueryRequestType
		msg = &structs.PreparedQueryRequest{Datacenter: "dc1", Op: structs.PreparedQueryCreate,
			Query: &structs.PreparedQuery{ID: c.Qid, Session: c.Sid, Service: structs.ServiceQuery{Service: "web"}}}
	case "query_delete":
		t = structs.PreparedQueryRequestType
		msg = &structs.PreparedQueryRequest{Datacenter: "dc1", Op: structs.PreparedQueryDelete,
			Query: &structs.PreparedQuery{ID: c.Qid}}
	default:
		panic("unknown cmd kind " + c.Kind)
	}
	return mustEncode(t, msg)
}

func errClass(msg string) string {
	switch {
	case strings.Contains(msg, "failed to check session"), strings.Contains(msg, "failed session check"),
		strings.Contains(msg, "failed to check index"), strings.Contains(msg, "failed index check"),
		strings.HasSuffix(msg, " exists"):
		return "EGuard"
	case strings.Contains(msg, "index is stale"), strings.Contains(msg, "lock is already held"), strings.Contains(msg, "lock isn't held"):
		return "EStale"
	case strings.Contains(msg, "is reserved by node"):
		return "ESimilarName"
	case strings.Contains(msg, "does not match node"):
		return "ECheckNodeMismatch"
	case strings.Contains(msg, "Missing check '"), strings.Contains(msg, "' is in critical state"), strings.Contains(msg, "is in critical state"):
		return "EBadSessionCheck"
	case strings.Contains(msg, state.ErrMissingNode.Error()):
		return "EMissingNode"
	case strings.Contains(msg, state.ErrMissingService.Error()):
		return "EMissingService"
	case strings.Contains(msg, state.ErrMissingSessionID.Error()):
		return "EMissingSessionID"
	case strings.Contains(msg, "missing session"):
		return "ENoSession"
	case strings.Contains(msg, "invalid session"):
		return "EInvalidSession"
	case strings.Contains(msg, "doesn't exist"), strings.Contains(msg, "not found"):
		return "ENotFound"
	}
	return "EOther:" + msg
}

func parseOutput(o string) (string, int, string) {
	var n int
	if _, err := fmt.Sscanf(o, "out%d", &n); err == nil {
		return "user", n, ""
	}
	if strings.HasPrefix(o, "Session '") && strings.HasSuffix(o, "' in force") {
		return "inforce", 0, strings.TrimSuffix(strings.TrimPrefix(o, "Session '"), "' in force")
	}
	if strings.HasPrefix(o, "Session '") && strings.HasSuffix(o, "' is invalid") {
		return "invalid", 0, strings.TrimSuffix(strings.TrimPrefix(o, "Session '"), "' is invalid")
	}
	return "other:" + o, 0, ""
}

func addrNum(a string) int {
	var n int
	fmt.Sscanf(a, "10.0.0.%d", &n)
	return n
}

func statusNum(s string) int {
	for i, n := range statusNames {
		if n == s {
			return i
		}
	}
	return 99
}

func kvRow(e *structs.DirEntry) KVRow {
	return KVRow{K: e.Key, V: hex.EncodeToString(e.Value), F: e.Flags, S: e.Session, L: e.LockIndex, C: e.CreateIndex, M: e.ModifyIndex}
}
func nodeRow(n *structs.Node) NodeRow {
	return NodeRow{Name: n.Node, ID: string(n.ID), Addr: addrNum(n.Address), C: n.CreateIndex, M: n.ModifyIndex}
}
func checkRow(c *structs.HealthCheck) CheckRow {
	k, n, sid := parseOutput(c.Output)
	return CheckRow{Node: c.Node, ID: string(c.CheckID), Status: statusNum(c.Status), Svc: c.ServiceID, SvcName: c.ServiceName,
		SessType: c.Type == "session", SessName: c.Definition.SessionName, OutKind: k, OutN: n, OutSid: sid,
		C: c.CreateIndex, M: c.ModifyIndex}
}
func sessRow(v *structs.Session) SessRow {
	r := SessRow{ID: v.ID, Node: v.Node, Name: v.Name, Del: v.Behavior == structs.SessionKeysDelete, Checks: []string{},
		Delay: v.LockDelay > 0, C: v.CreateIndex}
	for _, c := range v.CheckIDs() {
		r.Checks = append(r.Checks, string(c))
	}
	return r
}

func modelDump(st *state.Store) Dump {
	d := Dump{KVs: []KVRow{}, Tombs: [][2]string{}, Sessions: []SessRow{}, SChecks: [][3]string{}, Queries: [][2]string{},
		Nodes: []NodeRow{}, Services: []SvcRow{}, Checks: []CheckRow{}, Index: [][2]string{}, Delay: []string{}}
	st.WalkAllTables(func(table string, item interface{}) bool {
		switch v := item.(type) {
		case *structs.DirEntry:
			d.KVs = append(d.KVs, kvRow(v))
		case *state.Tombstone:
			d.Tombs = append(d.Tombs, [2]string{v.Key, fmt.Sprint(v.Index)})
		case *structs.Session:
			d.Sessions = append(d.Sessions, sessRow(v))
		case *structs.Node:
			d.Nodes = append(d.Nodes, nodeRow(v))
		case *structs.ServiceNode:
			d.Services = append(d.Services, SvcRow{Node: v.Node, ID: v.ServiceID, Name: v.ServiceName, Port: v.ServicePort, C: v.CreateIndex, M: v.ModifyIndex})
		case *structs.HealthCheck:
			d.Checks = append(d.Checks, checkRow(v))
		case *state.IndexEntry:
			switch v.Key {
			case "kvs", "tombstones", "sessions", "prepared-queries":
				d.Index = append(d.Index, [2]string{v.Key, fmt.Sprint(v.Value)})
			}
		default:
			rv := reflect.Indirect(reflect.ValueOf(item))
			switch table {
			case "session_checks":
				cid := rv.FieldByName("CheckID").FieldByName("ID")
				d.SChecks = append(d.SChecks, [3]string{rv.FieldByName("Node").String(), cid.String(), rv.FieldByName("Session").String()})
			case "prepared-queries":
				pq := rv.FieldByName("PreparedQuery").Interface().(*structs.PreparedQuery)
				d.Queries = append(d.Queries, [2]string{pq.ID, pq.Session})
			}
		}
		return true
	})
	now := time.Now()
	for _, k := range mKeys {
		if st.KVSLockDelay(k, nil).After(now) {
			d.Delay = append(d.Delay, k)
		}
	}
	sort.Slice(d.KVs, func(i, j int) bool { return d.KVs[i].K < d.KVs[j].K })
	sort.Slice(d.Tombs, func(i, j int) bool { return d.Tombs[i][0] < d.Tombs[j][0] })
	sort.Slice(d.Sessions, func(i, j int) bool { return d.Sessions[i].ID < d.Sessions[j].ID })
	sort.Slice(d.SChecks, func(i, j int) bool { return fmt.Sprint(d.SChecks[i]) < fmt.Sprint(d.SChecks[j]) })
	sort.Slice(d.Queries, func(i, j int) bool { return d.Queries[i][0] < d.Queries[j][0] })
	sort.Slice(d.Nodes, func(i, j int) bool { return d.Nodes[i].Name < d.Nodes[j].Name })
	sort.Slice(d.Services, func(i, j int) bool {
		return d.Services[i].Node+"\x00"+d.Services[i].ID < d.Services[j].Node+"\x00"+d.Services[j].ID
	})
	sort.Slice(d.Checks, func(i, j int) bool {
		return d.Checks[i].Node+"\x00"+d.Checks[i].ID < d.Checks[j].Node+"\x00"+d.Checks[j].ID
	})
	sort.Slice(d.Index, func(i, j int) bool { return d.Index[i][0] < d.Index[j][0] })
	return d
}

func modelResult(out interface{}) Res {
	switch v := out.(type) {
	case nil:
		return Res{Kind: "nil"}
	case bool:
		return Res{Kind: "bool", Bool: v}
	case string:
		return Res{Kind: "str", Str: v}
	case error:
		return Res{Kind: "err", Err: errClass(v.Error())}
	case structs.TxnResponse:
		r := Res{Kind: "txn", Results: []TRes{}, Errors: [][2]any{}}
		for _, tr := range v.Results {
			switch {
			case tr.KV != nil:
				row := kvRow(tr.KV)
				r.Results = append(r.Results, TRes{Kind: "kv", KV: &row})
			case tr.Node != nil:
				row := nodeRow(tr.Node)
				r.Results = append(r.Results, TRes{Kind: "node", Node: &row})
			case tr.Service != nil:
				r.Results = append(r.Results, TRes{Kind: "service", Svc: &SvcRow{ID: tr.Service.ID, Name: tr.Service.Service, Port: tr.Service.Port,
					C: tr.Service.CreateIndex, M: tr.Service.ModifyIndex}})
			case tr.Check != nil:
				row := checkRow(tr.Check)
				r.Results = append(r.Results, TRes{Kind: "check", Check: &row})
			}
		}
		for _, e := range v.Errors {
			r.Errors = append(r.Errors, [2]any{e.OpIndex, errClass(e.What)})
		}
		return r
	}
	return Res{Kind: "err", Err: fmt.Sprintf("EOther:unexpected result type %T", out)}
}

// decodeRecords reads the snapshot stream the implementation wrote and projects every record
// onto the model's vocabulary, in stream order.
func decodeRecords(b []byte) (uint64, []Rec, []int, error) {
	var recs []Rec
	var other []int
	var last uint64
	err := fsm.ReadSnapshot(bytes.NewReader(b), func(h *fsm.SnapshotHeader, msg structs.MessageType, dec *codec.Decoder) error {
		last = h.LastIndex
		switch msg {
		case structs.RegisterRequestType:
			var req structs.RegisterRequest
			if err := dec.Decode(&req); err != nil {
				return err
			}
			n := NodeRow{Name: req.Node, ID: string(req.ID), Addr: addrNum(req.Address), C: req.CreateIndex, M: req.ModifyIndex}
			switch {
			case req.Service != nil:
				recs = append(recs, Rec{T: "service", Node: &n, Svc: &SvcRow{Node: req.Node, ID: req.Service.ID, Name: req.Service.Service, Port: req.Service.Port,
					C: req.Service.CreateIndex, M: req.Service.ModifyIndex}})
			case req.Check != nil:
				c := checkRow(req.Check)
				recs = append(recs, Rec{T: "check", Node: &n, Check: &c})
			default:
				recs = append(recs, Rec{T: "node", Node: &n})
			}
		case structs.SessionRequestType:
			var s structs.Session
			if err := dec.Decode(&s); err != nil {
				return err
			}
			r := sessRow(&s)
			recs = append(recs, Rec{T: "session", Sess: &r})
			if s.ModifyIndex != s.CreateIndex {
				// the model's session restorer max-merges the index row with the CREATE index, the code
				// with ModifyIndex: equal as long as no FSM path modifies a session.  Outside the
				// model's vocabulary otherwise (reported as a correspondence failure).
				other = append(other, 1000+int(msg))
			}
		case structs.KVSRequestType:
			var e structs.DirEntry
			if err := dec.Decode(&e); err != nil {
				return err
			}
			r := kvRow(&e)
			recs = append(recs, Rec{T: "kv", KV: &r})
		case structs.TombstoneRequestType:
			var e structs.DirEntry
			if err := dec.Decode(&e); err != nil {
				return err
			}
			recs = append(recs, Rec{T: "tomb", Key: e.Key, N: e.ModifyIndex})
		case structs.PreparedQueryRequestType:
			var q structs.PreparedQuery
			if err := dec.Decode(&q); err != nil {
				return err
			}
			recs = append(recs, Rec{T: "query", Key: q.ID, Sid: q.Session, N: q.ModifyIndex})
		case structs.IndexRequestType:
			var ie state.IndexEntry
			if err := dec.Decode(&ie); err != nil {
				return err
			}
			switch ie.Key {
			case "kvs", "tombstones", "sessions", "prepared-queries":
				recs = append(recs, Rec{T: "index", Key: ie.Key, N: ie.Value})
			}
		default:
			var ignore interface{}
			if err := dec.Decode(&ignore); err != nil {
				return err
			}
			if msg != structs.ChunkingStateType {
				other = append(other, int(msg))
			}
		}
		return nil
	})
	return last, recs, other, err
}

// ---------------------------------------------------------------- generator (as harness/store, plus
// services re-registered under another name, which the store correspondence never needed)

type mgen struct {
	rng  *rand.Rand
	st   func() *state.Store
	idx  uint64
	mix  string
	safe bool
}

func (g *mgen) pick(xs []string) string { return xs[g.rng.Intn(len(xs))] }

func (g *mgen) casIndex(cur uint64) uint64 {
	switch r := g.rng.Intn(20); {
	case r < 13:
		return cur
	case r < 15:
		return 0
	case r < 18:
		if cur > 1 {
			return cur - 1
		}
		return cur + 3
	default:
		return g.idx + 5
	}
}

func (g *mgen) curKV(k string) *structs.DirEntry {
	_, e, _ := g.st().KVSGet(nil, k, nil)
	return e
}

func (g *mgen) existingKeys() []string {
	_, es, _ := g.st().KVSList(nil, "", nil)
	var out []string
	for _, e := range es {
		out = append(out, e.Key)
	}
	return out
}

func (g *mgen) existingNodes() []string {
	_, ns, _ := g.st().Nodes(nil, nil, "")
	var out []string
	for _, n := range ns {
		out = append(out, n.Node)
	}
	return out
}

func (g *mgen) nodeName() string {
	if ex := g.existingNodes(); len(ex) > 0 && g.rng.Intn(6) > 0 {
		return ex[g.rng.Intn(len(ex))]
	}
	return g.pick(mNodeNames)
}

func (g *mgen) liveSessions() []string {
	_, ss, _ := g.st().SessionList(nil, nil)
	var out []string
	for _, s := range ss {
		out = append(out, s.ID)
	}
	return out
}

func (g *mgen) session() string {
	live := g.liveSessions()
	switch r := g.rng.Intn(20); {
	case r < 16 && len(live) > 0:
		return live[g.rng.Intn(len(live))]
	case r < 17:
		return ""
	default:
		return g.pick(mSessIDs)
	}
}

func (g *mgen) kvReq(verb string) *KVReq {
	q := &KVReq{Key: g.pick(mKeys), Value: hex.EncodeToString(mValues[g.rng.Intn(len(mValues))])}
	if g.rng.Intn(3) == 0 {
		q.Flags = 7
	}
	switch verb {
	case "get", "check-session", "check-index", "unlock", "delete-cas", "cas":
		if ex := g.existingKeys(); len(ex) > 0 && g.rng.Intn(5) > 0 {
			q.Key = ex[g.rng.Intn(len(ex))]
		}
	}
	cur := g.curKV(q.Key)
	var curIdx uint64
	if cur != nil {
		curIdx = cur.ModifyIndex
	}
	switch verb {
	case "delete-tree", "get-tree":
		q.Key = g.pick(mPrefixes)
	case "cas", "delete-cas", "check-index":
		q.Index = g.casIndex(curIdx)
	case "lock", "unlock", "check-session":
		q.Session = g.session()
		if cur != nil && cur.Session != "" && g.rng.Intn(2) == 0 {
			q.Session = cur.Session
		}
	case "set":
		if cur != nil && g.rng.Intn(3) == 0 {
			q.Value, q.Flags, q.Lock = hex.EncodeToString(cur.Value), cur.Flags, cur.LockIndex
		} else if g.rng.Intn(4) == 0 {
			q.Lock = uint64(g.rng.Intn(3))
		}
	}
	return q
}

var mKVWriteVerbs = []string{"set", "set", "cas", "delete", "delete-cas", "delete-tree", "lock", "lock", "unlock"}
var mKVTxnVerbs = []string{"set", "cas", "delete", "delete-cas", "delete-tree", "lock", "unlock", "get", "get-or-empty", "get-tree", "check-session", "check-index", "check-not-exists"}

func (g *mgen) checkReq(node string) CheckReq {
	c := CheckReq{Node: node, ID: g.pick(mCheckIDs), Status: g.rng.Intn(3), Output: g.rng.Intn(2)}
	if g.rng.Intn(3) == 0 {
		c.Service = g.pick(mSvcIDs)
	}
	if c.ID == "sc1" {
		c.SessType = true
		c.SessName = g.pick(mSessNames[1:])
		c.Service = ""
	}
	if c.ID == "serfHealth" {
		c.Service = ""
	}
	_, cur, _ := g.st().NodeCheck(node, types.CheckID(c.ID), nil, "")
	var curIdx uint64
	if cur != nil {
		curIdx = cur.ModifyIndex
	}
	c.Index = g.casIndex(curIdx)
	return c
}

// svcName: usually the id's own name; sometimes the other one (a service re-registered under a new name)
func (g *mgen) svcName(si int) string {
	if g.rng.Intn(6) == 0 {
		return mSvcNames[1-si]
	}
	return mSvcNames[si]
}

func (g *mgen) txnOp() TxnOp {
	w := 10
	if g.mix == "kv" {
		w = 25
	}
	nodeIdx := func(name string) uint64 {
		if _, n, _ := g.st().GetNode(name, nil, ""); n != nil {
			return n.ModifyIndex
		}
		return 0
	}
	svcIdx := func(node, id string) uint64 {
		if _, s, _ := g.st().NodeService(nil, node, id, nil, ""); s != nil {
			return s.ModifyIndex
		}
		return 0
	}
	if g.safe {
		switch r := g.rng.Intn(10); {
		case r < 6:
			v := g.pick([]string{"set", "set", "get-or-empty", "get-tree", "delete", "delete-tree", "cas", "check-index", "get", "lock", "unlock"})
			q := g.kvReq(v)
			if cur := g.curKV(q.Key); cur != nil && (v == "cas" || v == "check-index") {
				q.Index = cur.ModifyIndex
			} else if v == "cas" {
				q.Index = 0
			}
			if live := g.liveSessions(); (v == "lock" || v == "unlock") && len(live) == 0 {
				v = "set"
			}
			return TxnOp{Kind: "kv", Verb: v, KV: q}
		case r < 7:
			n := g.nodeName()
			id := ""
			if _, nn, _ := g.st().GetNode(n, nil, ""); nn != nil {
				id = string(nn.ID)
			}
			return TxnOp{Kind: "node", Verb: g.pick([]string{"set", "delete"}), Node: n, ID: id, Addr: 1 + g.rng.Intn(2)}
		case r < 9:
			c := g.checkReq(g.nodeName())
			c.Service = ""
			return TxnOp{Kind: "check", Verb: g.pick([]string{"set", "set", "delete"}), Check: &c}
		default:
			if live := g.liveSessions(); len(live) > 0 {
				return TxnOp{Kind: "session", Verb: "delete", Sid: live[g.rng.Intn(len(live))]}
			}
			n := g.nodeName()
			si := g.rng.Intn(len(mSvcIDs))
			return TxnOp{Kind: "service", Verb: "set", Node: n, Svc: mSvcIDs[si], Name: g.svcName(si), Port: 80 + g.rng.Intn(2)}
		}
	}
	switch r := g.rng.Intn(w + 10); {
	case r < w:
		v := g.pick(mKVTxnVerbs)
		return TxnOp{Kind: "kv", Verb: v, KV: g.kvReq(v)}
	case r < w+3:
		n := g.nodeName()
		return TxnOp{Kind: "node", Verb: g.pick([]string{"get", "set", "cas", "delete", "delete-cas"}), Node: n, ID: g.pick(mNodeIDs), Addr: 1 + g.rng.Intn(2), Index: g.casIndex(nodeIdx(n))}
	case r < w+5:
		n := g.nodeName()
		si := g.rng.Intn(len(mSvcIDs))
		return TxnOp{Kind: "service", Verb: g.pick([]string{"get", "set", "cas", "delete", "delete-cas"}), Node: n, Svc: mSvcIDs[si], Name: g.svcName(si), Port: 80 + g.rng.Intn(2), Index: g.casIndex(svcIdx(n, mSvcIDs[si]))}
	case r < w+8:
		c := g.checkReq(g.nodeName())
		return TxnOp{Kind: "check", Verb: g.pick([]string{"get", "set", "set", "cas", "delete", "delete-cas"}), Check: &c}
	default:
		return TxnOp{Kind: "session", Verb: "delete", Sid: g.session()}
	}
}

func (g *mgen) next() Cmd {
	g.idx += uint64(1 + g.rng.Intn(3))
	c := Cmd{Idx: g.idx}
	weights := map[string][]int{
		"kv":      {50, 6, 4, 8, 3, 14, 4, 1, 1},
		"session": {22, 14, 8, 18, 10, 12, 2, 5, 2},
		"txn":     {15, 8, 3, 12, 4, 40, 2, 2, 1},
	}[g.mix]
	tot := 0
	for _, w := range weights {
		tot += w
	}
	r := g.rng.Intn(tot)
	k := 0
	for ; k < len(weights); k++ {
		if r < weights[k] {
			break
		}
		r -= weights[k]
	}
	if len(g.existingNodes()) == 0 && g.rng.Intn(3) > 0 {
		k = 3
	}
	switch k {
	case 0:
		c.Kind = "kvs"
		c.Verb = g.pick(mKVWriteVerbs)
		if (c.Verb == "lock" || c.Verb == "unlock") && len(g.liveSessions()) == 0 && g.rng.Intn(4) > 0 {
			c.Verb = "set"
		}
		c.KV = g.kvReq(c.Verb)
	case 1:
		c.Kind = "session_create"
		c.Sid = g.pick(mSessIDs)
		for tries := 0; tries < 4; tries++ {
			live := false
			for _, l := range g.liveSessions() {
				if l == c.Sid {
					live = true
				}
			}
			if !live {
				break
			}
			c.Sid = g.pick(mSessIDs)
		}
		for _, l := range g.liveSessions() {
			if l == c.Sid {
				// the endpoint always picks an unused id (Session.Apply loops until SessionGet finds none)
				c.Kind = "session_destroy"
			}
		}
		if c.Kind == "session_destroy" {
			break
		}
		c.Node = g.nodeName()
		c.Name = g.pick(mSessNames)
		c.Delete = g.rng.Intn(3) == 0
		c.Delay = g.rng.Intn(2) == 0
		_, ncs, _ := g.st().NodeChecks(nil, c.Node, nil, "")
		for _, hc := range ncs {
			if g.rng.Intn(3) == 0 && (hc.Status != api.HealthCritical || g.rng.Intn(6) == 0) {
				c.Checks = append(c.Checks, string(hc.CheckID))
			}
		}
		if g.rng.Intn(12) == 0 {
			c.Checks = append(c.Checks, g.pick(mCheckIDs))
		}
	case 2:
		c.Kind = "session_destroy"
		c.Sid = g.session()
	case 3:
		c.Kind = "register"
		c.Node = g.pick(mNodeNames)
		if g.rng.Intn(2) == 0 {
			c.Node = g.nodeName()
		}
		c.ID = g.pick(mNodeIDs)
		if g.rng.Intn(3) > 0 {
			_, n, _ := g.st().GetNode(c.Node, nil, "")
			if n != nil {
				c.ID = string(n.ID)
			}
		}
		c.Addr = 1 + g.rng.Intn(2)
		c.Skip = g.rng.Intn(8) == 0
		if g.rng.Intn(2) == 0 {
			si := g.rng.Intn(len(mSvcIDs))
			c.HasSvc, c.Svc, c.SvcName, c.Port = true, mSvcIDs[si], g.svcName(si), 80+g.rng.Intn(2)
		}
		for n := g.rng.Intn(3); n > 0; n-- {
			ck := g.checkReq(c.Node)
			if g.rng.Intn(15) == 0 {
				ck.Node = g.pick(mNodeNames)
			}
			c.RegCheck = append(c.RegCheck, ck)
		}
	case 4:
		c.Kind = "deregister"
		c.Node = g.nodeName()
		switch g.rng.Intn(3) {
		case 0:
			c.Svc = g.pick(mSvcIDs)
		case 1:
			c.CheckID = g.pick(mCheckIDs)
		}
	case 5:
		c.Kind = "txn"
		n := 1 + g.rng.Intn(3) + g.rng.Intn(3)*g.rng.Intn(2)
		g.safe = g.rng.Intn(5) < 3
		for i := 0; i < n; i++ {
			c.Ops = append(c.Ops, g.txnOp())
		}
	case 6:
		c.Kind = "reap"
		c.Upto = g.idx - uint64(g.rng.Intn(8))
	case 7:
		c.Kind = "query_set"
		c.Qid = g.pick(mQueryIDs)
		c.Sid = g.session()
	case 8:
		c.Kind = "query_delete"
		c.Qid = g.pick(mQueryIDs)
	}
	return c
}

// runModelHistory: one history of the modelled subset; every cut is snapshotted, decoded,
// restored and dumped in the model's vocabulary; the direct oracle of the wide mode is evaluated too.
func runModelHistory(id int, seed int64, mix string, n int, script []Cmd) ModelHistory {
	h := ModelHistory{ID: id, Mode: "model", Mix: mix, Cmds: []Cmd{}, Results: []Res{}, Cuts: []ModelCut{}, Failures: []Failure{}}
	d := newMachine()
	defer d.close()
	g := &mgen{rng: rand.New(rand.NewSource(seed)), st: d.store, mix: mix}
	var snaps [][]byte
	var dumps []*storeDump
	var rawResults []string
	var wits []*witness
	renamed := false
	sigs := instanceSigs(d.store())
	for i := 0; i <= n; i++ {
		wits = append(wits, computeWitness(d.store(), histFacts{renamed: renamed}))
		b, err := d.snapshot()
		if err != nil {
			h.Failures = append(h.Failures, Failure{Cut: i, Stage: "snapshot", Signature: map[string]any{"kind": "snapshot-failed"}, Detail: err.Error()})
		}
		snaps = append(snaps, b)
		dumps = append(dumps, dumpStore(d.store()))
		if i == n {
			break
		}
		var c Cmd
		if script != nil {
			c = script[i]
		} else {
			c = g.next()
		}
		data := mEncode(&c)
		out := d.apply(c.Idx, data)
		h.Cmds = append(h.Cmds, c)
		h.Results = append(h.Results, modelResult(out))
		rawResults = append(rawResults, canonResult(out))
		after := instanceSigs(d.store())
		renamed = renamed || reRegistered(sigs, after) || txnRenames(data, sigs)
		sigs = after
	}
	h.Final = modelDump(d.store())
	seen := map[string]bool{}
	addF := func(fs []Failure) {
		for _, f := range fs {
			if k := sigKey(f); !seen[k] {
				seen[k] = true
				h.Failures = append(h.Failures, f)
			}
		}
	}
	for k := 0; k <= n; k++ {
		if snaps[k] == nil {
			continue
		}
		mc := ModelCut{K: k}
		last, recs, other, err := decodeRecords(snaps[k])
		if err != nil {
			addF([]Failure{{Cut: k, Stage: "decode", Signature: map[string]any{"kind": "snapshot-undecodable"}, Detail: err.Error()}})
			continue
		}
		mc.LastIndex, mc.Records, mc.Other = last, recs, other
		if mc.Records == nil {
			mc.Records = []Rec{}
		}
		if mc.Other == nil {
			mc.Other = []int{}
		}
		m := newMachine()
		if err := m.restore(snaps[k]); err != nil {
			addF([]Failure{{Cut: k, Stage: "restore", Signature: map[string]any{"kind": "restore-failed"}, Detail: err.Error()}})
			m.close()
			continue
		}
		mc.Restored = modelDump(m.store())
		mc.Reads[0], _, _ = m.store().KVSList(nil, "", nil)
		mc.Reads[1], _, _ = m.store().SessionList(nil, nil)
		mc.Reads[2], _, _ = m.store().PreparedQueryList(nil)
		mc.QReads = modelReads(m.store())
		addF(compareDumps(k, "dump", dumps[k], dumpStore(m.store()), wits[k], false))
		for i := k; i < n; i++ {
			res := canonResult(m.apply(h.Cmds[i].Idx, mEncode(&h.Cmds[i])))
			if res != rawResults[i] {
				addF([]Failure{{Cut: k, Stage: "suffix-result", Signature: map[string]any{"kind": "suffix-result-differs", "command": h.Cmds[i].Kind},
					Detail: fmt.Sprintf("command %d after the cut", i), Extra: map[string]string{"donor": clip(rawResults[i]), "restored": clip(res)}}})
				break
			}
		}
		fd := modelDump(m.store())
		mc.Final = &fd
		addF(compareDumps(k, "suffix-dump", dumps[n], dumpStore(m.store()), wits[k].forSuffix(nil), true))
		m.close()
		h.Cuts = append(h.Cuts, mc)
	}
	return h
}

// corpusScripts: coq/Snapshot/Witness.v stale_log (a service re-registered under another name:
// its check keeps the old ServiceName until a restore re-copies it) and rich_log.
func corpusScripts() [][]Cmd {
	ck := func(node, id string, status int, svc string, stype bool, sname string, out int) CheckReq {
		return CheckReq{Node: node, ID: id, Status: status, Service: svc, SessType: stype, SessName: sname, Output: out}
	}
	stale := []Cmd{
		{Kind: "register", Idx: 1, Node: "n1", Addr: 1, HasSvc: true, Svc: "s1", SvcName: "web", Port: 80, RegCheck: []CheckReq{ck("n1", "c1", 0, "s1", false, "", 0)}},
		{Kind: "register", Idx: 2, Node: "n1", Addr: 1, HasSvc: true, Svc: "s1", SvcName: "db", Port: 80},
	}
	rich := []Cmd{
		{Kind: "register", Idx: 1, Node: "n1", ID: "11111111-1111-1111-1111-111111111111", Addr: 1, HasSvc: true, Svc: "s1", SvcName: "web", Port: 80,
			RegCheck: []CheckReq{ck("n1", "c1", 0, "s1", false, "", 0), ck("n1", "c2", 0, "", false, "", 1), ck("n1", "sc1", 2, "", true, "lockA", 0)}},
		{Kind: "register", Idx: 3, Node: "n2", Addr: 2, RegCheck: []CheckReq{ck("n2", "serfHealth", 0, "", false, "", 0)}},
		{Kind: "session_create", Idx: 4, Sid: "aaaaaaaa-aaaa-aaaa-aaaa-aaaaaaaaaaaa", Node: "n1", Name: "lockA", Checks: []string{"c2"}, Delay: true},
		{Kind: "kvs", Idx: 6, Verb: "lock", KV: &KVReq{Key: "a/b", Value: "0102", Flags: 7, Session: "aaaaaaaa-aaaa-aaaa-aaaa-aaaaaaaaaaaa"}},
		{Kind: "kvs", Idx: 7, Verb: "set", KV: &KVReq{Key: "b"}},
		{Kind: "kvs", Idx: 9, Verb: "delete", KV: &KVReq{Key: "b"}},
		{Kind: "query_set", Idx: 10, Qid: "99999999-9999-9999-9999-999999999991", Sid: "aaaaaaaa-aaaa-aaaa-aaaa-aaaaaaaaaaaa"},
		{Kind: "txn", Idx: 12, Ops: []TxnOp{{Kind: "kv", Verb: "set", KV: &KVReq{Key: "a", Value: "03"}}, {Kind: "service", Verb: "set", Node: "n2", Svc: "s2", Name: "db", Port: 81}}},
	}
	return [][]Cmd{stale, rich}
}
