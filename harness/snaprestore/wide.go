// Generator of histories over (nearly) every command type the FSM applies, built the way the
// leader builds them (Normalize / Validate / SetHash, ids and timestamps chosen by the "leader",
// check-and-set indexes resolved against the implementation's current state).
package main

import (
	"encoding/hex"
	"fmt"
	"math/rand"
	"net"
	"strings"
	"time"

	"github.com/hashicorp/serf/coordinate"
	"google.golang.org/protobuf/types/known/timestamppb"

	"github.com/hashicorp/consul/agent/consul/state"
	"github.com/hashicorp/consul/agent/structs"
	"github.com/hashicorp/consul/api"
	"github.com/hashicorp/consul/proto/private/pbpeering"
	"github.com/hashicorp/consul/types"
)

type universe struct {
	nodes, nodeIDs                 []string
	svcNames, svcIDs               []string
	checkIDs, sessIDs, sessNames   []string
	keys, prefixes                 []string
	queryIDs, providerIDs          []string
	peers, peerIDs                 []string
	policyIDs, roleIDs, tokenAcc   []string
	tokenSec, ruleIDs, methods     []string
	ixnIDs, dcs, metaKeys, rootIDs []string
	secretIDs                      []string
}

var uni = &universe{
	nodes:       []string{"n1", "n2", "n3"},
	nodeIDs:     []string{"", "11111111-1111-1111-1111-111111111111", "22222222-2222-2222-2222-222222222222", "33333333-3333-3333-3333-333333333333"},
	svcNames:    []string{"web", "api", "db", "web-proxy", "tgw", "igw", "mgw", "ext"},
	svcIDs:      []string{"web1", "web2", "api1", "db1", "webp", "tgw1", "igw1", "mgw1"},
	checkIDs:    []string{"c1", "c2", "serfHealth", "sc1", "svc:web1"},
	sessIDs:     []string{"aaaaaaaa-aaaa-aaaa-aaaa-aaaaaaaaaaaa", "bbbbbbbb-bbbb-bbbb-bbbb-bbbbbbbbbbbb", "cccccccc-cccc-cccc-cccc-cccccccccccc", "dddddddd-dddd-dddd-dddd-dddddddddddd"},
	sessNames:   []string{"", "lockA", "lockB"},
	keys:        []string{"a", "a/", "a/b", "ab", "b", "é"},
	prefixes:    []string{"", "a", "a/", "b", "zz"},
	queryIDs:    []string{"99999999-9999-9999-9999-999999999991", "99999999-9999-9999-9999-999999999992", "99999999-9999-9999-9999-999999999993"},
	providerIDs: []string{"prov-a", "prov-b"},
	peers:       []string{"peer1", "peer2"},
	peerIDs:     []string{"eeeeeeee-eeee-eeee-eeee-eeeeeeeeeee1", "eeeeeeee-eeee-eeee-eeee-eeeeeeeeeee2"},
	policyIDs:   []string{"a0000000-0000-0000-0000-000000000001", "a0000000-0000-0000-0000-000000000002", "a0000000-0000-0000-0000-000000000003"},
	roleIDs:     []string{"b0000000-0000-0000-0000-000000000001", "b0000000-0000-0000-0000-000000000002"},
	tokenAcc:    []string{"c0000000-0000-0000-0000-000000000001", "c0000000-0000-0000-0000-000000000002", "c0000000-0000-0000-0000-000000000003"},
	tokenSec:    []string{"d0000000-0000-0000-0000-000000000001", "d0000000-0000-0000-0000-000000000002", "d0000000-0000-0000-0000-000000000003"},
	ruleIDs:     []string{"f0000000-0000-0000-0000-000000000001", "f0000000-0000-0000-0000-000000000002"},
	methods:     []string{"meth-a", "meth-b"},
	ixnIDs:      []string{"77777777-7777-7777-7777-777777777771", "77777777-7777-7777-7777-777777777772", "77777777-7777-7777-7777-777777777773"},
	dcs:         []string{"dc1", "dc2"},
	metaKeys:    []string{"virtual-ips", "intention-format", "virtual-ips-term-gateway", "key1"},
	rootIDs:     []string{"root-1", "root-2", "root-3"},
	secretIDs:   []string{"5ec7e700-0000-0000-0000-000000000001", "5ec7e700-0000-0000-0000-000000000002", "5ec7e700-0000-0000-0000-000000000003", "5ec7e700-0000-0000-0000-000000000004"},
}

// baseTime: every timestamp a "leader" stamps is derived from the seed, never from the clock.
var baseTime = time.Date(2026, 1, 2, 3, 4, 5, 0, time.UTC)

// wcmd is one generated command: the encoded Raft log payload plus a readable description.
type wcmd struct {
	Idx  uint64 `json:"idx"`
	Kind string `json:"kind"` // histogram bucket
	Desc string `json:"desc"`
	Data string `json:"data"` // hex of the log entry payload (type byte + body)
}

type wgen struct {
	rng    *rand.Rand
	st     func() *state.Store
	idx    uint64
	mix    string
	vipsOn bool
	// caseMix: names are re-spelled with other letter case now and then (every second history)
	caseMix bool
	// secretSeq numbers the secret ids generated so far
	secretSeq int
}

func (g *wgen) pick(xs []string) string { return xs[g.rng.Intn(len(xs))] }
func (g *wgen) chance(n int) bool       { return g.rng.Intn(n) == 0 }

func (g *wgen) casIndex(cur uint64) uint64 {
	switch r := g.rng.Intn(20); {
	case r < 14:
		return cur
	case r < 16:
		return 0
	case r < 18:
		if cur > 1 {
			return cur - 1
		}
		return cur + 3
	default:
		return g.idx + 5
	}
}

func mustEncode(t structs.MessageType, msg interface{}) []byte {
	b, err := structs.Encode(t, msg)
	if err != nil {
		panic(err)
	}
	return b
}

func mustEncodeProto(t structs.MessageType, msg interface{}) []byte {
	b, err := structs.EncodeProtoInterface(t, msg)
	if err != nil {
		panic(err)
	}
	return b
}

func (g *wgen) mk(kind, desc string, data []byte) wcmd {
	return wcmd{Idx: g.idx, Kind: kind, Desc: desc, Data: hex.EncodeToString(data)}
}

// ---------------------------------------------------------------- catalog

func (g *wgen) existingNodes(peer string) []string {
	_, ns, _ := g.st().Nodes(nil, nil, peer)
	var out []string
	for _, n := range ns {
		out = append(out, n.Node)
	}
	return out
}

// respell: now and then the same name arrives spelled with other letter case (the tables key nodes,
// services and checks on the lower-cased name, so "N1" and "n1" are one row whose stored spelling
// is whatever was written last).
func (g *wgen) respell(s string) string {
	if s == "" || !g.caseMix || g.rng.Intn(7) > 0 {
		return s
	}
	if g.chance(2) {
		return strings.ToUpper(s)
	}
	return strings.ToUpper(s[:1]) + s[1:]
}

func (g *wgen) nodeName() string {
	if ex := g.existingNodes(""); len(ex) > 0 && g.rng.Intn(5) > 0 {
		return ex[g.rng.Intn(len(ex))]
	}
	return g.pick(uni.nodes)
}

var statusNames = []string{api.HealthPassing, api.HealthWarning, api.HealthCritical}

// service definitions by instance id; the name / kind of an id varies so that a service can be
// re-registered under another name, with other tags, or change kind.
func (g *wgen) nodeService(id string) *structs.NodeService {
	ns := &structs.NodeService{ID: id, Port: 8000 + g.rng.Intn(3)}
	switch id {
	case "web1", "web2":
		ns.Service = "web"
		if g.chance(6) {
			ns.Service = "api" // same id, other name
		}
		if g.chance(2) {
			ns.Tags = []string{g.pick([]string{"v1", "v2", "primary"})}
		}
		if g.chance(4) {
			ns.Meta = map[string]string{"version": g.pick([]string{"1", "2"})}
		}
		if g.chance(5) {
			ns.Address = "10.1.0." + fmt.Sprint(1+g.rng.Intn(3))
		}
		if g.chance(6) {
			ns.TaggedAddresses = map[string]structs.ServiceAddress{"lan": {Address: "10.2.0.1", Port: 80}}
		}
		if g.chance(6) {
			ns.Weights = &structs.Weights{Passing: 1 + g.rng.Intn(3), Warning: 1}
		}
	case "api1":
		ns.Service = "api"
		ns.Connect.Native = g.rng.Intn(4) > 0
	case "db1":
		ns.Service = "db"
		if g.chance(3) {
			ns.Tags = []string{"primary", "v1"}
		}
	case "webp":
		ns.Kind = structs.ServiceKindConnectProxy
		ns.Service = "web-proxy"
		ns.Proxy = structs.ConnectProxyConfig{DestinationServiceName: g.pick([]string{"web", "web", "db"}), DestinationServiceID: "web1"}
		if g.chance(2) {
			ns.Proxy.Upstreams = structs.Upstreams{{DestinationName: g.pick([]string{"db", "api"}), LocalBindPort: 9191}}
		}
		if g.chance(4) {
			ns.Proxy.Upstreams = append(ns.Proxy.Upstreams, structs.Upstream{DestinationName: "ext", DestinationPeer: "peer1", LocalBindPort: 9192})
		}
		if g.chance(4) {
			ns.Proxy.Mode = structs.ProxyModeTransparent
		}
	case "tgw1":
		ns.Kind = structs.ServiceKindTerminatingGateway
		ns.Service = "tgw"
	case "igw1":
		ns.Kind = structs.ServiceKindIngressGateway
		ns.Service = "igw"
	case "mgw1":
		ns.Kind = structs.ServiceKindMeshGateway
		ns.Service = "mgw"
		if g.chance(2) {
			ns.Meta = map[string]string{structs.MetaWANFederationKey: "1"}
		}
	}
	return ns
}

func (g *wgen) healthCheck(node string) *structs.HealthCheck {
	id := g.pick(uni.checkIDs)
	hc := &structs.HealthCheck{Node: node, CheckID: types.CheckID(id), Name: "chk-" + id, Status: statusNames[g.rng.Intn(3)],
		Output: fmt.Sprintf("out%d", g.rng.Intn(2))}
	switch id {
	case "sc1":
		hc.Type = "session"
		hc.Definition.SessionName = g.pick(uni.sessNames[1:])
	case "serfHealth":
		hc.Name = structs.SerfCheckName
	case "svc:web1":
		hc.ServiceID = "web1"
	default:
		if g.chance(3) {
			hc.ServiceID = g.pick(uni.svcIDs)
		}
		if g.chance(4) {
			hc.Type = "http"
			hc.Definition.HTTP = "http://localhost/health"
			hc.Definition.Interval = 10 * time.Second
		}
		if g.chance(5) {
			hc.Notes = "note"
		}
	}
	return hc
}

func (g *wgen) register() wcmd {
	peer := ""
	if g.chance(7) {
		peer = g.pick(uni.peers)
	}
	node := g.pick(uni.nodes)
	if g.chance(2) && peer == "" {
		node = g.nodeName()
	}
	node = g.respell(node)
	req := &structs.RegisterRequest{Datacenter: "dc1", Node: node, Address: "10.0.0." + fmt.Sprint(1+g.rng.Intn(2)), PeerName: peer}
	req.ID = types.NodeID(g.pick(uni.nodeIDs))
	if g.rng.Intn(3) > 0 {
		if _, n, _ := g.st().GetNode(node, nil, peer); n != nil {
			req.ID = n.ID
		}
	}
	if g.chance(5) {
		req.NodeMeta = map[string]string{"rack": g.pick([]string{"r1", "r2"})}
	}
	if g.chance(5) {
		req.TaggedAddresses = map[string]string{"wan": "192.0.2.1"}
	}
	req.SkipNodeUpdate = g.chance(8)
	desc := fmt.Sprintf("register node=%s peer=%q id=%.8s", node, peer, req.ID)
	if g.rng.Intn(3) > 0 {
		req.Service = g.nodeService(g.pick(uni.svcIDs))
		req.Service.ID = g.respell(req.Service.ID)
		req.Service.Service = g.respell(req.Service.Service)
		req.Service.PeerName = peer
		desc += fmt.Sprintf(" svc=%s/%s kind=%q tags=%v", req.Service.ID, req.Service.Service, req.Service.Kind, req.Service.Tags)
	}
	for n := g.rng.Intn(3); n > 0; n-- {
		hc := g.healthCheck(node)
		hc.PeerName = peer
		if peer != "" {
			hc.Type = ""
		}
		if g.chance(20) {
			hc.Node = g.pick(uni.nodes)
		}
		hc.CheckID = types.CheckID(g.respell(string(hc.CheckID)))
		hc.ServiceID = g.respell(hc.ServiceID)
		req.Checks = append(req.Checks, hc)
		desc += fmt.Sprintf(" check=%s(%s,svc=%q)", hc.CheckID, hc.Status, hc.ServiceID)
	}
	return g.mk("register", desc, mustEncode(structs.RegisterRequestType, req))
}

func (g *wgen) deregister() wcmd {
	peer := ""
	if g.chance(8) {
		peer = g.pick(uni.peers)
	}
	req := &structs.DeregisterRequest{Datacenter: "dc1", Node: g.respell(g.nodeName()), PeerName: peer}
	switch g.rng.Intn(3) {
	case 0:
		req.ServiceID = g.respell(g.pick(uni.svcIDs))
	case 1:
		req.CheckID = types.CheckID(g.respell(g.pick(uni.checkIDs)))
	}
	return g.mk("deregister", fmt.Sprintf("deregister node=%s svc=%q check=%q peer=%q", req.Node, req.ServiceID, req.CheckID, peer),
		mustEncode(structs.DeregisterRequestType, req))
}

func (g *wgen) coordinates() wcmd {
	var ups structs.Coordinates
	desc := "coordinates"
	for n := 1 + g.rng.Intn(2); n > 0; n-- {
		c := coordinate.NewCoordinate(coordinate.DefaultConfig())
		c.Vec[0] = float64(g.rng.Intn(5)) / 10
		c.Height = 0.001 * float64(1+g.rng.Intn(3))
		u := &structs.Coordinate{Node: g.nodeName(), Coord: c}
		if g.chance(4) {
			u.Segment = "alpha"
		}
		ups = append(ups, u)
		desc += " " + u.Node + "/" + u.Segment
	}
	return g.mk("coordinate", desc, mustEncode(structs.CoordinateBatchUpdateType, ups))
}

// ---------------------------------------------------------------- KV, sessions, queries, txn

func (g *wgen) curKV(k string) *structs.DirEntry {
	_, e, _ := g.st().KVSGet(nil, k, nil)
	return e
}

func (g *wgen) liveSessions() []string {
	_, ss, _ := g.st().SessionList(nil, nil)
	var out []string
	for _, s := range ss {
		out = append(out, s.ID)
	}
	return out
}

func (g *wgen) session() string {
	live := g.liveSessions()
	switch r := g.rng.Intn(20); {
	case r < 16 && len(live) > 0:
		return live[g.rng.Intn(len(live))]
	case r < 17:
		return ""
	default:
		return g.pick(uni.sessIDs)
	}
}

var wvalues = [][]byte{nil, {1, 2, 3}, {255, 0}}

func (g *wgen) dirEnt(verb string) structs.DirEntry {
	d := structs.DirEntry{Key: g.pick(uni.keys), Value: wvalues[g.rng.Intn(len(wvalues))]}
	if g.chance(3) {
		d.Flags = 7
	}
	cur := g.curKV(d.Key)
	var curIdx uint64
	if cur != nil {
		curIdx = cur.ModifyIndex
	}
	switch verb {
	case "delete-tree", "get-tree":
		d.Key = g.pick(uni.prefixes)
	case "cas", "delete-cas", "check-index":
		d.ModifyIndex = g.casIndex(curIdx)
	case "lock", "unlock", "check-session":
		d.Session = g.session()
		if cur != nil && cur.Session != "" && g.chance(2) {
			d.Session = cur.Session
		}
	}
	return d
}

var kvWriteVerbs = []string{"set", "set", "cas", "delete", "delete-cas", "delete-tree", "lock", "lock", "unlock"}

func (g *wgen) kvs() wcmd {
	verb := g.pick(kvWriteVerbs)
	if (verb == "lock" || verb == "unlock") && len(g.liveSessions()) == 0 && g.rng.Intn(4) > 0 {
		verb = "set"
	}
	d := g.dirEnt(verb)
	return g.mk("kvs:"+verb, fmt.Sprintf("kvs %s key=%q session=%.8s index=%d", verb, d.Key, d.Session, d.ModifyIndex),
		mustEncode(structs.KVSRequestType, &structs.KVSRequest{Datacenter: "dc1", Op: api.KVOp(verb), DirEnt: d}))
}

func (g *wgen) sessionCreate() wcmd {
	s := structs.Session{ID: g.pick(uni.sessIDs), Node: g.respell(g.nodeName()), Name: g.pick(uni.sessNames), Behavior: structs.SessionKeysRelease}
	live := g.liveSessions()
	for tries := 0; tries < 4; tries++ {
		isLive := false
		for _, l := range live {
			if l == s.ID {
				isLive = true
			}
		}
		if !isLive {
			break
		}
		s.ID = g.pick(uni.sessIDs)
	}
	for _, l := range live {
		if l == s.ID {
			// the endpoint always picks an unused id (Session.Apply loops until SessionGet finds none)
			return g.sessionDestroy()
		}
	}
	if g.chance(3) {
		s.Behavior = structs.SessionKeysDelete
	}
	if g.chance(2) {
		s.LockDelay = 15 * time.Second
	}
	if g.chance(3) {
		s.TTL = "30s"
	}
	_, ncs, _ := g.st().NodeChecks(nil, s.Node, nil, "")
	for _, hc := range ncs {
		if g.chance(3) && (hc.Status != api.HealthCritical || g.chance(6)) {
			if hc.ServiceID != "" && g.chance(2) {
				s.ServiceChecks = append(s.ServiceChecks, structs.ServiceCheck{ID: string(hc.CheckID)})
			} else {
				s.NodeChecks = append(s.NodeChecks, string(hc.CheckID))
			}
		}
	}
	if g.chance(12) {
		s.NodeChecks = append(s.NodeChecks, g.pick(uni.checkIDs))
	}
	return g.mk("session:create", fmt.Sprintf("session create id=%.8s node=%s name=%q behavior=%s checks=%v/%v", s.ID, s.Node, s.Name, s.Behavior, s.NodeChecks, s.ServiceChecks),
		mustEncode(structs.SessionRequestType, &structs.SessionRequest{Datacenter: "dc1", Op: structs.SessionCreate, Session: s}))
}

func (g *wgen) sessionDestroy() wcmd {
	sid := g.session()
	return g.mk("session:destroy", fmt.Sprintf("session destroy id=%.8s", sid),
		mustEncode(structs.SessionRequestType, &structs.SessionRequest{Datacenter: "dc1", Op: structs.SessionDestroy, Session: structs.Session{ID: sid}}))
}

func (g *wgen) preparedQuery() wcmd {
	qid := g.pick(uni.queryIDs)
	if g.chance(4) {
		return g.mk("query:delete", "query delete "+qid[len(qid)-2:],
			mustEncode(structs.PreparedQueryRequestType, &structs.PreparedQueryRequest{Datacenter: "dc1", Op: structs.PreparedQueryDelete, Query: &structs.PreparedQuery{ID: qid}}))
	}
	q := &structs.PreparedQuery{ID: qid, Session: g.session(), Service: structs.ServiceQuery{Service: g.pick([]string{"web", "db"})}}
	if g.chance(2) {
		q.Session = ""
	}
	switch qid {
	case uni.queryIDs[1]:
		q.Name = "pq-web"
		if g.chance(2) {
			q.Service.Tags = []string{"v1"}
			q.Service.Failover.Datacenters = []string{"dc2"}
		}
	case uni.queryIDs[2]:
		q.Name = "tpl-"
		q.Template = structs.QueryTemplateOptions{Type: structs.QueryTemplateTypeNamePrefixMatch, Regexp: "^tpl-(.*)$"}
		q.Service.Service = "${match(1)}"
	}
	op := structs.PreparedQueryCreate
	if _, ex, _ := g.st().PreparedQueryGet(nil, qid); ex != nil {
		op = structs.PreparedQueryUpdate
	}
	return g.mk("query:set", fmt.Sprintf("query %s id=..%s name=%q session=%.8s", op, qid[len(qid)-2:], q.Name, q.Session),
		mustEncode(structs.PreparedQueryRequestType, &structs.PreparedQueryRequest{Datacenter: "dc1", Op: op, Query: q}))
}

func (g *wgen) reap() wcmd {
	upto := g.idx - uint64(g.rng.Intn(8))
	return g.mk("tombstone:reap", fmt.Sprintf("reap upto=%d", upto),
		mustEncode(structs.TombstoneRequestType, &structs.TombstoneRequest{Datacenter: "dc1", Op: structs.TombstoneReap, ReapIndex: upto}))
}

func (g *wgen) txn() wcmd {
	req := &structs.TxnRequest{Datacenter: "dc1"}
	desc := "txn"
	safe := g.rng.Intn(5) < 3
	for n := 1 + g.rng.Intn(4); n > 0; n-- {
		switch r := g.rng.Intn(10); {
		case r < 5:
			verbs := []string{"set", "cas", "delete", "delete-cas", "delete-tree", "lock", "unlock", "get", "get-tree", "check-session", "check-index", "check-not-exists"}
			if safe {
				verbs = []string{"set", "set", "delete", "delete-tree", "get-tree"}
			}
			v := g.pick(verbs)
			d := g.dirEnt(v)
			req.Ops = append(req.Ops, &structs.TxnOp{KV: &structs.TxnKVOp{Verb: api.KVOp(v), DirEnt: d}})
			desc += fmt.Sprintf(" kv:%s(%q)", v, d.Key)
		case r < 6:
			n := g.nodeName()
			var id types.NodeID
			var mi uint64
			if _, nn, _ := g.st().GetNode(n, nil, ""); nn != nil {
				id, mi = nn.ID, nn.ModifyIndex
			}
			v := g.pick([]string{"set", "cas", "delete", "delete-cas", "get"})
			if safe {
				v = g.pick([]string{"set", "delete"})
			}
			req.Ops = append(req.Ops, &structs.TxnOp{Node: &structs.TxnNodeOp{Verb: api.NodeOp(v),
				Node: structs.Node{Node: n, ID: id, Address: "10.0.0." + fmt.Sprint(1+g.rng.Intn(2)), Datacenter: "dc1", RaftIndex: structs.RaftIndex{ModifyIndex: g.casIndex(mi)}}}})
			desc += fmt.Sprintf(" node:%s(%s)", v, n)
		case r < 8:
			n := g.nodeName()
			svc := g.nodeService(g.pick(uni.svcIDs))
			var mi uint64
			if _, s, _ := g.st().NodeService(nil, n, svc.ID, nil, ""); s != nil {
				mi = s.ModifyIndex
			}
			svc.ModifyIndex = g.casIndex(mi)
			v := g.pick([]string{"set", "cas", "delete", "delete-cas", "get"})
			if safe {
				v = g.pick([]string{"set", "set", "delete"})
			}
			req.Ops = append(req.Ops, &structs.TxnOp{Service: &structs.TxnServiceOp{Verb: api.ServiceOp(v), Node: n, Service: *svc}})
			desc += fmt.Sprintf(" service:%s(%s/%s)", v, n, svc.ID)
		case r < 9:
			n := g.nodeName()
			hc := g.healthCheck(n)
			var mi uint64
			if _, c, _ := g.st().NodeCheck(n, hc.CheckID, nil, ""); c != nil {
				mi = c.ModifyIndex
			}
			hc.ModifyIndex = g.casIndex(mi)
			v := g.pick([]string{"set", "cas", "delete", "delete-cas", "get"})
			if safe {
				v = "set"
				hc.ServiceID = ""
			}
			req.Ops = append(req.Ops, &structs.TxnOp{Check: &structs.TxnCheckOp{Verb: api.CheckOp(v), Check: *hc}})
			desc += fmt.Sprintf(" check:%s(%s/%s)", v, n, hc.CheckID)
		default:
			sid := g.session()
			req.Ops = append(req.Ops, &structs.TxnOp{Session: &structs.TxnSessionOp{Verb: api.SessionDelete, Session: structs.Session{ID: sid}}})
			desc += fmt.Sprintf(" session:delete(%.8s)", sid)
		}
	}
	return g.mk("txn", desc, mustEncode(structs.TxnRequestType, req))
}

// ---------------------------------------------------------------- ACL

func (g *wgen) aclPolicy() wcmd {
	id := g.pick(uni.policyIDs)
	if g.chance(5) {
		return g.mk("acl:policy-delete", "acl policy delete "+id[len(id)-2:],
			mustEncode(structs.ACLPolicyDeleteRequestType, &structs.ACLPolicyBatchDeleteRequest{PolicyIDs: []string{id}}))
	}
	p := &structs.ACLPolicy{ID: id, Name: "pol-" + id[len(id)-1:], Description: g.pick([]string{"", "d1", "d2"}),
		Rules: g.pick([]string{`key "a" { policy = "read" }`, `service "web" { policy = "write" }`, `node_prefix "" { policy = "read" }`})}
	if g.chance(4) {
		p.Datacenters = []string{"dc1"}
	}
	if g.chance(8) {
		p.Name = "pol-1" // may collide with another policy's name
	}
	p.SetHash(true)
	return g.mk("acl:policy-set", fmt.Sprintf("acl policy set %s name=%s", id[len(id)-2:], p.Name),
		mustEncode(structs.ACLPolicySetRequestType, &structs.ACLPolicyBatchSetRequest{Policies: structs.ACLPolicies{p}}))
}

func (g *wgen) aclRole() wcmd {
	id := g.pick(uni.roleIDs)
	if g.chance(5) {
		return g.mk("acl:role-delete", "acl role delete "+id[len(id)-2:],
			mustEncode(structs.ACLRoleDeleteRequestType, &structs.ACLRoleBatchDeleteRequest{RoleIDs: []string{id}}))
	}
	r := &structs.ACLRole{ID: id, Name: "role-" + id[len(id)-1:], Description: g.pick([]string{"", "r"})}
	if g.chance(2) {
		r.Policies = []structs.ACLRolePolicyLink{{ID: g.pick(uni.policyIDs)}}
	}
	if g.chance(3) {
		r.ServiceIdentities = structs.ACLServiceIdentities{{ServiceName: "web"}}
	}
	if g.chance(4) {
		r.NodeIdentities = structs.ACLNodeIdentities{{NodeName: "n1", Datacenter: "dc1"}}
	}
	r.SetHash(true)
	allow := g.chance(3)
	return g.mk("acl:role-set", fmt.Sprintf("acl role set %s policies=%d allowMissing=%v", id[len(id)-2:], len(r.Policies), allow),
		mustEncode(structs.ACLRoleSetRequestType, &structs.ACLRoleBatchSetRequest{Roles: structs.ACLRoles{r}, AllowMissingLinks: allow}))
}

func (g *wgen) aclToken() wcmd {
	i := g.rng.Intn(len(uni.tokenAcc))
	acc, sec := uni.tokenAcc[i], uni.tokenSec[i]
	switch r := g.rng.Intn(12); {
	case r == 0:
		return g.mk("acl:token-delete", "acl token delete "+acc[len(acc)-2:],
			mustEncode(structs.ACLTokenDeleteRequestType, &structs.ACLTokenBatchDeleteRequest{TokenIDs: []string{acc}}))
	case r == 1:
		tok := structs.ACLToken{AccessorID: acc, SecretID: sec, Description: "bootstrap", Policies: []structs.ACLTokenPolicyLink{{ID: structs.ACLPolicyGlobalManagementID}},
			CreateTime: baseTime.Add(time.Duration(g.idx) * time.Second)}
		tok.SetHash(true)
		reset := uint64(0)
		if g.chance(2) {
			_, ri, _ := g.st().CanBootstrapACLToken()
			reset = ri
		}
		return g.mk("acl:bootstrap", fmt.Sprintf("acl bootstrap %s reset=%d", acc[len(acc)-2:], reset),
			mustEncode(structs.ACLBootstrapRequestType, &structs.ACLTokenBootstrapRequest{Token: tok, ResetIndex: reset}))
	}
	t := &structs.ACLToken{AccessorID: acc, SecretID: sec, Description: g.pick([]string{"", "t1", "t2"}), Local: g.chance(4),
		CreateTime: baseTime.Add(time.Duration(g.idx) * time.Second)}
	if _, ex, _ := g.st().ACLTokenGetByAccessor(nil, acc, nil); ex != nil {
		t.CreateTime = ex.CreateTime
		t.Local = ex.Local
	}
	if g.chance(2) {
		t.Policies = []structs.ACLTokenPolicyLink{{ID: g.pick(uni.policyIDs)}}
	}
	if g.chance(3) {
		t.Roles = []structs.ACLTokenRoleLink{{ID: g.pick(uni.roleIDs)}}
	}
	if g.chance(4) {
		t.ServiceIdentities = structs.ACLServiceIdentities{{ServiceName: "db", Datacenters: []string{"dc1"}}}
	}
	if g.chance(4) {
		e := baseTime.Add(time.Duration(g.idx)*time.Second + time.Hour)
		t.ExpirationTime = &e
	}
	if g.chance(6) {
		t.AuthMethod = g.pick(uni.methods)
	}
	t.SetHash(true)
	req := &structs.ACLTokenBatchSetRequest{Tokens: structs.ACLTokens{t}, CAS: g.chance(5), AllowMissingLinks: g.chance(4)}
	if req.CAS {
		var mi uint64
		if _, ex, _ := g.st().ACLTokenGetByAccessor(nil, acc, nil); ex != nil {
			mi = ex.ModifyIndex
		}
		t.ModifyIndex = g.casIndex(mi)
	}
	return g.mk("acl:token-set", fmt.Sprintf("acl token set %s cas=%v policies=%d roles=%d", acc[len(acc)-2:], req.CAS, len(t.Policies), len(t.Roles)),
		mustEncode(structs.ACLTokenSetRequestType, req))
}

func (g *wgen) aclMethodOrRule() wcmd {
	if g.chance(2) {
		name := g.pick(uni.methods)
		if g.chance(5) {
			return g.mk("acl:method-delete", "acl auth-method delete "+name,
				mustEncode(structs.ACLAuthMethodDeleteRequestType, &structs.ACLAuthMethodBatchDeleteRequest{AuthMethodNames: []string{name}}))
		}
		m := &structs.ACLAuthMethod{Name: name, Type: "testing", Description: g.pick([]string{"", "m"}),
			Config: map[string]interface{}{"SessionID": g.pick(uni.sessIDs)}}
		if g.chance(3) {
			m.MaxTokenTTL = 5 * time.Minute
			m.TokenLocality = "local"
		}
		if g.chance(4) {
			m.Config["Nested"] = map[string]interface{}{"a": "b", "n": 6.5}
		}
		return g.mk("acl:method-set", "acl auth-method set "+name,
			mustEncode(structs.ACLAuthMethodSetRequestType, &structs.ACLAuthMethodBatchSetRequest{AuthMethods: structs.ACLAuthMethods{m}}))
	}
	id := g.pick(uni.ruleIDs)
	if g.chance(5) {
		return g.mk("acl:rule-delete", "acl binding-rule delete "+id[len(id)-2:],
			mustEncode(structs.ACLBindingRuleDeleteRequestType, &structs.ACLBindingRuleBatchDeleteRequest{BindingRuleIDs: []string{id}}))
	}
	meth := g.pick(uni.methods)
	if _, ms, _ := g.st().ACLAuthMethodList(nil, structs.DefaultEnterpriseMetaInDefaultPartition()); len(ms) > 0 && g.rng.Intn(5) > 0 {
		meth = ms[g.rng.Intn(len(ms))].Name
	}
	r := &structs.ACLBindingRule{ID: id, Description: g.pick([]string{"", "br"}), AuthMethod: meth, Selector: "serviceaccount.namespace==default",
		BindType: structs.BindingRuleBindTypeService, BindName: "${serviceaccount.name}"}
	return g.mk("acl:rule-set", fmt.Sprintf("acl binding-rule set %s method=%s", id[len(id)-2:], r.AuthMethod),
		mustEncode(structs.ACLBindingRuleSetRequestType, &structs.ACLBindingRuleBatchSetRequest{BindingRules: structs.ACLBindingRules{r}}))
}

// ---------------------------------------------------------------- config entries, intentions

func (g *wgen) configEntry() wcmd {
	var e structs.ConfigEntry
	statusOK := false // kinds a controller writes back with a reconciliation status
	svc := g.pick([]string{"web", "api", "db", "ext"})
	switch g.rng.Intn(19) {
	case 13:
		gw := &structs.APIGatewayConfigEntry{Kind: structs.APIGateway, Name: "agw",
			Listeners: []structs.APIGatewayListener{{Name: "l1", Port: 8443, Protocol: structs.ListenerProtocolHTTP}}}
		if g.chance(2) {
			gw.Listeners = append(gw.Listeners, structs.APIGatewayListener{Name: "l2", Port: 9000, Protocol: structs.ListenerProtocolTCP})
		}
		if g.chance(3) {
			gw.Listeners[0].TLS.Certificates = []structs.ResourceReference{{Kind: g.pick([]string{structs.InlineCertificate, structs.FileSystemCertificate}), Name: "cert1"}}
		}
		statusOK = true
		e = gw
	case 14:
		b := &structs.BoundAPIGatewayConfigEntry{Kind: structs.BoundAPIGateway, Name: "agw",
			Listeners: []structs.BoundAPIGatewayListener{{Name: "l1"}}}
		if g.chance(2) {
			b.Listeners[0].Routes = []structs.ResourceReference{{Kind: structs.HTTPRoute, Name: "hr1"}}
			b.Services = structs.ServiceRouteReferences{structs.NewServiceName(svc, nil): []structs.ResourceReference{{Kind: structs.HTTPRoute, Name: "hr1"}}}
		}
		if g.chance(3) {
			b.Listeners[0].Certificates = []structs.ResourceReference{{Kind: structs.InlineCertificate, Name: "cert1"}}
		}
		e = b
	case 15:
		hr := &structs.HTTPRouteConfigEntry{Kind: structs.HTTPRoute, Name: "hr1",
			Parents: []structs.ResourceReference{{Kind: structs.APIGateway, Name: "agw", SectionName: g.pick([]string{"", "l1"})}},
			Rules:   []structs.HTTPRouteRule{{Services: []structs.HTTPService{{Name: svc, Weight: 1}}}}}
		if g.chance(2) {
			hr.Hostnames = []string{"example.com"}
		}
		if g.chance(3) {
			hr.Rules = append(hr.Rules, structs.HTTPRouteRule{
				Matches:  []structs.HTTPMatch{{Path: structs.HTTPPathMatch{Match: structs.HTTPPathMatchPrefix, Value: "/v2"}}},
				Services: []structs.HTTPService{{Name: g.pick([]string{"api", "db"}), Weight: 2}}})
		}
		statusOK = true
		e = hr
	case 16:
		tr := &structs.TCPRouteConfigEntry{Kind: structs.TCPRoute, Name: "tr1",
			Parents:  []structs.ResourceReference{{Kind: structs.APIGateway, Name: "agw", SectionName: "l2"}},
			Services: []structs.TCPService{{Name: svc}}}
		statusOK = true
		e = tr
	case 17:
		e = &structs.InlineCertificateConfigEntry{Kind: structs.InlineCertificate, Name: "cert1", Certificate: validCertificate, PrivateKey: validPrivateKey}
		if g.chance(3) {
			e.(*structs.InlineCertificateConfigEntry).Meta = map[string]string{"owner": g.pick([]string{"a", "b"})}
		}
	case 18:
		e = &structs.FileSystemCertificateConfigEntry{Kind: structs.FileSystemCertificate, Name: g.pick([]string{"cert1", "cert2"}),
			Certificate: "/etc/cert.pem", PrivateKey: g.pick([]string{"/etc/key.pem", "/etc/key2.pem"})}
	case 0:
		e = &structs.ServiceConfigEntry{Kind: structs.ServiceDefaults, Name: svc, Protocol: g.pick([]string{"tcp", "http", "http", "grpc"})}
	case 1:
		pd := &structs.ProxyConfigEntry{Kind: structs.ProxyDefaults, Name: structs.ProxyConfigGlobal}
		if g.chance(2) {
			pd.Config = map[string]interface{}{"protocol": g.pick([]string{"http", "tcp"})}
		}
		if g.chance(3) {
			pd.MeshGateway.Mode = structs.MeshGatewayModeLocal
		}
		e = pd
	case 2:
		r := &structs.ServiceResolverConfigEntry{Kind: structs.ServiceResolver, Name: svc}
		if g.chance(2) {
			r.Subsets = map[string]structs.ServiceResolverSubset{"v1": {Filter: "Service.Meta.version == 1"}, "v2": {Filter: "Service.Meta.version == 2"}}
			r.DefaultSubset = "v1"
		}
		if g.chance(3) {
			r.Redirect = &structs.ServiceResolverRedirect{Service: g.pick([]string{"db", "api"})}
			r.Subsets, r.DefaultSubset = nil, ""
		}
		if g.chance(3) {
			r.ConnectTimeout = 5 * time.Second
		}
		e = r
	case 3:
		e = &structs.ServiceSplitterConfigEntry{Kind: structs.ServiceSplitter, Name: svc,
			Splits: []structs.ServiceSplit{{Weight: 60, Service: svc}, {Weight: 40, Service: g.pick([]string{"api", "db"})}}}
	case 4:
		e = &structs.ServiceRouterConfigEntry{Kind: structs.ServiceRouter, Name: svc,
			Routes: []structs.ServiceRoute{{Match: &structs.ServiceRouteMatch{HTTP: &structs.ServiceRouteHTTPMatch{PathPrefix: "/admin"}},
				Destination: &structs.ServiceRouteDestination{Service: g.pick([]string{"api", "db"})}}}}
	case 5:
		ig := &structs.IngressGatewayConfigEntry{Kind: structs.IngressGateway, Name: "igw",
			Listeners: []structs.IngressListener{{Port: 8080, Protocol: "tcp", Services: []structs.IngressService{{Name: g.pick([]string{"web", "db"})}}}}}
		if g.chance(3) {
			ig.Listeners = append(ig.Listeners, structs.IngressListener{Port: 8081, Protocol: "http", Services: []structs.IngressService{{Name: "*"}}})
		}
		e = ig
	case 6:
		tg := &structs.TerminatingGatewayConfigEntry{Kind: structs.TerminatingGateway, Name: "tgw",
			Services: []structs.LinkedService{{Name: g.pick([]string{"db", "ext", "web"})}}}
		if g.chance(3) {
			tg.Services = []structs.LinkedService{{Name: "*"}}
		}
		if g.chance(3) {
			tg.Services = append(tg.Services, structs.LinkedService{Name: "api", CAFile: "/ca.pem", SNI: "api.example"})
		}
		e = tg
	case 7, 8:
		si := &structs.ServiceIntentionsConfigEntry{Kind: structs.ServiceIntentions, Name: g.pick([]string{"web", "db", "*"})}
		for n := 1 + g.rng.Intn(2); n > 0; n-- {
			src := &structs.SourceIntention{Name: g.pick([]string{"api", "web", "*"}), Action: g.pick2(structs.IntentionActionAllow, structs.IntentionActionDeny)}
			if g.chance(5) {
				src.Peer = "peer1"
			}
			dup := false
			for _, o := range si.Sources {
				if o.Name == src.Name && o.Peer == src.Peer {
					dup = true
				}
			}
			if !dup {
				si.Sources = append(si.Sources, src)
			}
		}
		e = si
	case 9:
		m := &structs.MeshConfigEntry{}
		m.TransparentProxy.MeshDestinationsOnly = g.chance(2)
		if g.chance(3) {
			m.Peering = &structs.PeeringMeshConfig{PeerThroughMeshGateways: true}
		}
		e = m
	case 10:
		ex := &structs.ExportedServicesConfigEntry{Name: "default",
			Services: []structs.ExportedService{{Name: g.pick([]string{"web", "db", "*"}), Consumers: []structs.ServiceConsumer{{Peer: g.pick(uni.peers)}}}}}
		e = ex
	case 11:
		e = &structs.ServiceConfigEntry{Kind: structs.ServiceDefaults, Name: "ext", Protocol: "tcp",
			Destination: &structs.DestinationConfig{Addresses: []string{"example.com"}, Port: 443}}
	default:
		e = &structs.JWTProviderConfigEntry{Kind: structs.JWTProvider, Name: "okta",
			JSONWebKeySet: &structs.JSONWebKeySet{Local: &structs.LocalJWKS{JWKS: "eyJrZXlzIjogW119"}}, Issuer: g.pick([]string{"iss1", "iss2"})}
	}
	if err := e.Normalize(); err != nil {
		panic(fmt.Sprintf("normalize %s/%s: %v", e.GetKind(), e.GetName(), err))
	}
	invalid := ""
	if err := e.Validate(); err != nil {
		// the endpoint would reject it; keep it out of the log
		invalid = err.Error()
	}
	_, cur, _ := g.st().ConfigEntry(nil, e.GetKind(), e.GetName(), e.GetEnterpriseMeta())
	var curIdx uint64
	if cur != nil {
		curIdx = cur.GetRaftIndex().ModifyIndex
	}
	op := structs.ConfigEntryUpsert
	switch r := g.rng.Intn(10); {
	case r < 5:
	case r < 7:
		op = structs.ConfigEntryUpsertCAS
		e.GetRaftIndex().ModifyIndex = g.casIndex(curIdx)
	case r < 9:
		op = structs.ConfigEntryDelete
	default:
		op = structs.ConfigEntryDeleteCAS
		e.GetRaftIndex().ModifyIndex = g.casIndex(curIdx)
	}
	if ce, ok := e.(structs.ControlledConfigEntry); ok && statusOK && cur != nil && g.chance(3) {
		// the gateway controller writes the entry back with its status, guarded by the index it read
		op = structs.ConfigEntryUpsertWithStatusCAS
		e.GetRaftIndex().ModifyIndex = g.casIndex(curIdx)
		ce.SetStatus(structs.Status{Conditions: []structs.Condition{{Type: "Accepted", Status: g.pick([]string{"True", "False"}), Reason: "Accepted",
			Message: "route is valid", LastTransitionTime: timePtr(baseTime.Add(time.Duration(g.idx) * time.Second))}}})
	}
	if invalid != "" && op != structs.ConfigEntryDelete && op != structs.ConfigEntryDeleteCAS {
		op = structs.ConfigEntryDelete
	}
	return g.mk("config:"+e.GetKind()+":"+string(op), fmt.Sprintf("config-entry %s %s/%s index=%d", op, e.GetKind(), e.GetName(), e.GetRaftIndex().ModifyIndex),
		mustEncode(structs.ConfigEntryRequestType, &structs.ConfigEntryRequest{Op: op, Datacenter: "dc1", Entry: e}))
}

func (g *wgen) pick2(a, b structs.IntentionAction) structs.IntentionAction {
	if g.chance(2) {
		return a
	}
	return b
}

func (g *wgen) intention() wcmd {
	usingCE, _ := g.st().AreIntentionsInConfigEntries()
	id := g.pick(uni.ixnIDs)
	src, dst := g.pick([]string{"api", "web", "*"}), g.pick([]string{"web", "db", "*"})
	if usingCE || g.chance(8) {
		// the leader's mutation form (intentions stored in service-intentions config entries)
		mut := &structs.IntentionMutation{Destination: structs.NewServiceName(dst, nil), Source: structs.NewServiceName(src, nil),
			Value: &structs.SourceIntention{Name: src, Action: g.pick2(structs.IntentionActionAllow, structs.IntentionActionDeny), Type: structs.IntentionSourceConsul,
				EnterpriseMeta: *structs.DefaultEnterpriseMetaInDefaultPartition()}}
		op := structs.IntentionOpUpsert
		switch g.rng.Intn(6) {
		case 0:
			op = structs.IntentionOpDelete
			mut.Value = nil
		case 1:
			op = structs.IntentionOpCreate
			mut.Value.LegacyID = id
			mut.Value.LegacyCreateTime = timePtr(baseTime.Add(time.Duration(g.idx) * time.Second))
			mut.Value.LegacyUpdateTime = mut.Value.LegacyCreateTime
			mut.Value.LegacyMeta = map[string]string{}
		case 2:
			op = structs.IntentionOpDelete
			mut.ID = id
			mut.Value = nil
		}
		return g.mk("intention:mutation:"+string(op), fmt.Sprintf("intention mutation %s %s->%s id=%q", op, src, dst, mut.ID),
			mustEncode(structs.IntentionRequestType, &structs.IntentionRequest{Datacenter: "dc1", Op: op, Mutation: mut}))
	}
	if g.chance(12) {
		return g.mk("intention:legacy:delete-all", "legacy intention delete-all",
			mustEncode(structs.IntentionRequestType, &structs.IntentionRequest{Datacenter: "dc1", Op: structs.IntentionOpDeleteAll}))
	}
	if g.chance(4) {
		return g.mk("intention:legacy:delete", "legacy intention delete "+id[len(id)-2:],
			mustEncode(structs.IntentionRequestType, &structs.IntentionRequest{Datacenter: "dc1", Op: structs.IntentionOpDelete, Intention: &structs.Intention{ID: id}}))
	}
	now := baseTime.Add(time.Duration(g.idx) * time.Second)
	ixn := &structs.Intention{ID: id, SourceNS: "default", SourceName: src, DestinationNS: "default", DestinationName: dst,
		SourcePartition: "default", DestinationPartition: "default",
		SourceType: structs.IntentionSourceConsul, Action: g.pick2(structs.IntentionActionAllow, structs.IntentionActionDeny),
		Meta: map[string]string{}, CreatedAt: now, UpdatedAt: now}
	op := structs.IntentionOpCreate
	//nolint:staticcheck
	if _, _, ex, _ := g.st().IntentionGet(nil, id); ex != nil {
		op = structs.IntentionOpUpdate
		ixn.CreatedAt = ex.CreatedAt
	}
	ixn.UpdatePrecedence()
	//nolint:staticcheck
	ixn.SetHash()
	return g.mk("intention:legacy:"+string(op), fmt.Sprintf("legacy intention %s %s %s->%s %s", op, id[len(id)-2:], src, dst, ixn.Action),
		mustEncode(structs.IntentionRequestType, &structs.IntentionRequest{Datacenter: "dc1", Op: op, Intention: ixn}))
}

func timePtr(t time.Time) *time.Time { return &t }

// ---------------------------------------------------------------- connect CA

func (g *wgen) caRoot(id string, active bool) *structs.CARoot {
	return &structs.CARoot{ID: id, Name: "CA " + id, SerialNumber: uint64(1 + g.rng.Intn(9)), SigningKeyID: "key-" + id,
		ExternalTrustDomain: "11111111-2222-3333-4444-555555555555", NotBefore: baseTime, NotAfter: baseTime.Add(24 * time.Hour),
		RootCert: "-----BEGIN CERTIFICATE-----\n" + id + "\n-----END CERTIFICATE-----\n", Active: active,
		PrivateKeyType: "ec", PrivateKeyBits: 256}
}

func (g *wgen) ca() wcmd {
	_, curRoots, _ := g.st().CARoots(nil)
	rootsIdx, _, _ := g.st().CARoots(nil)
	_, curCfg, _ := g.st().CAConfig(nil)
	newRoots := func() []*structs.CARoot {
		act := g.pick(uni.rootIDs)
		rs := []*structs.CARoot{g.caRoot(act, true)}
		for _, r := range curRoots {
			if r.ID != act && g.chance(2) {
				o := g.caRoot(r.ID, false)
				o.RotatedOutAt = baseTime.Add(time.Duration(g.idx) * time.Second)
				rs = append(rs, o)
			}
		}
		if g.chance(10) {
			rs[0].Active = false // invalid: no active root
		}
		return rs
	}
	newCfg := func() *structs.CAConfiguration {
		c := &structs.CAConfiguration{ClusterID: "11111111-2222-3333-4444-555555555555", Provider: g.pick([]string{"consul", "vault"}),
			Config: map[string]interface{}{"LeafCertTTL": g.pick([]string{"72h", "24h"}), "IntermediateCertTTL": "8760h"}}
		if g.chance(3) {
			c.Config["RotationPeriod"] = 2160.5
		}
		if g.chance(3) {
			c.State = map[string]string{"k": g.pick([]string{"v1", "v2"})}
		}
		return c
	}
	switch g.rng.Intn(7) {
	case 0:
		rs := newRoots()
		ci := g.casIndex(rootsIdx)
		return g.mk("ca:set-roots", fmt.Sprintf("ca set-roots active=%s n=%d index=%d", rs[0].ID, len(rs), ci),
			mustEncode(structs.ConnectCARequestType, &structs.CARequest{Op: structs.CAOpSetRoots, Datacenter: "dc1", Index: ci, Roots: rs}))
	case 1:
		c := newCfg()
		if curCfg != nil && g.chance(2) {
			c.ModifyIndex = g.casIndex(curCfg.ModifyIndex)
		}
		return g.mk("ca:set-config", fmt.Sprintf("ca set-config provider=%s cas=%d", c.Provider, c.ModifyIndex),
			mustEncode(structs.ConnectCARequestType, &structs.CARequest{Op: structs.CAOpSetConfig, Datacenter: "dc1", Config: c}))
	case 2:
		id := g.pick(uni.providerIDs)
		ps := &structs.CAConsulProviderState{ID: id, PrivateKey: "key-" + g.pick([]string{"a", "b"}), RootCert: "cert-" + id}
		if g.chance(3) {
			ps.IntermediateCert = "inter"
		}
		return g.mk("ca:set-provider-state", "ca set-provider-state "+id,
			mustEncode(structs.ConnectCARequestType, &structs.CARequest{Op: structs.CAOpSetProviderState, Datacenter: "dc1", ProviderState: ps}))
	case 3:
		id := g.pick(uni.providerIDs)
		return g.mk("ca:delete-provider-state", "ca delete-provider-state "+id,
			mustEncode(structs.ConnectCARequestType, &structs.CARequest{Op: structs.CAOpDeleteProviderState, Datacenter: "dc1", ProviderState: &structs.CAConsulProviderState{ID: id}}))
	case 4:
		rs := newRoots()
		c := newCfg()
		if curCfg != nil {
			c.ModifyIndex = g.casIndex(curCfg.ModifyIndex)
		}
		ci := g.casIndex(rootsIdx)
		return g.mk("ca:set-roots-and-config", fmt.Sprintf("ca set-roots-and-config active=%s index=%d cfgcas=%d", rs[0].ID, ci, c.ModifyIndex),
			mustEncode(structs.ConnectCARequestType, &structs.CARequest{Op: structs.CAOpSetRootsAndConfig, Datacenter: "dc1", Index: ci, Roots: rs, Config: c}))
	case 5:
		return g.mk("ca:increment-serial", "ca increment-provider-serial",
			mustEncode(structs.ConnectCARequestType, &structs.CARequest{Op: structs.CAOpIncrementProviderSerialNumber, Datacenter: "dc1"}))
	default:
		return g.mk("ca:leaf-index", "ca leaf increment-index",
			mustEncode(structs.ConnectCALeafRequestType, &structs.CALeafRequest{Op: structs.CALeafOpIncrementIndex, Datacenter: "dc1"}))
	}
}

// ---------------------------------------------------------------- peering

// freshSecret: a secret id as the leader generates it (a UUID nobody uses yet); now and then one
// that is already recorded, to exercise the uniqueness refusal.
func (g *wgen) freshSecret() string {
	if g.chance(12) {
		return g.pick(uni.secretIDs)
	}
	g.secretSeq++
	return fmt.Sprintf("5ec7e701-0000-0000-0000-%012d", g.secretSeq)
}

// secretsStep: the next request of the peering-secrets lifecycle for peering [id], as the
// leader emits it.  Accepting side: GenerateToken (establishment) -> ExchangeSecret (establishment
// for a pending stream secret) -> PromotePending (pending becomes active), and again for every
// re-establishment (then establishment / pending coexist with the previous active secret).
// Dialing side: Establish (active).  A quarter of the requests are out of step.
func (g *wgen) secretsStep(id string, dials bool) (string, *pbpeering.SecretsWriteRequest) {
	req := &pbpeering.SecretsWriteRequest{PeerID: id}
	sec, _ := g.st().PeeringSecretsRead(nil, id)
	est, pend := sec.GetEstablishment().GetSecretID(), sec.GetStream().GetPendingSecretID()
	step := g.rng.Intn(4)
	if g.rng.Intn(4) > 0 {
		switch {
		case dials:
			step = 3
		case pend != "":
			step = 2
			if est != "" && g.chance(3) {
				step = 1 // a second exchange overwrites the unused pending secret
			}
		case est != "":
			step = 1
		default:
			step = 0
		}
	}
	switch step {
	case 0:
		req.Request = &pbpeering.SecretsWriteRequest_GenerateToken{GenerateToken: &pbpeering.SecretsWriteRequest_GenerateTokenRequest{EstablishmentSecret: g.freshSecret()}}
		return "generate", req
	case 1:
		e := est
		if e == "" || g.chance(8) {
			e = g.pick(uni.secretIDs)
		}
		req.Request = &pbpeering.SecretsWriteRequest_ExchangeSecret{ExchangeSecret: &pbpeering.SecretsWriteRequest_ExchangeSecretRequest{
			EstablishmentSecret: e, PendingStreamSecret: g.freshSecret()}}
		return "exchange", req
	case 2:
		pd := pend
		if pd == "" || g.chance(8) {
			pd = g.pick(uni.secretIDs)
		}
		req.Request = &pbpeering.SecretsWriteRequest_PromotePending{PromotePending: &pbpeering.SecretsWriteRequest_PromotePendingRequest{ActiveStreamSecret: pd}}
		return "promote", req
	default:
		req.Request = &pbpeering.SecretsWriteRequest_Establish{Establish: &pbpeering.SecretsWriteRequest_EstablishRequest{ActiveStreamSecret: g.freshSecret()}}
		return "establish", req
	}
}

func (g *wgen) peering() wcmd {
	i := g.rng.Intn(len(uni.peers))
	name, id := uni.peers[i], uni.peerIDs[i]
	if g.chance(12) {
		id = uni.peerIDs[1-i] // id/name clash
	}
	_, cur, _ := g.st().PeeringRead(nil, state.Query{Value: name})
	now := timestamppb.New(baseTime.Add(time.Duration(g.idx) * time.Second))
	pk := g.rng.Intn(9)
	if cur != nil && cur.State != pbpeering.PeeringState_DELETING && g.chance(3) {
		pk = 5
	}
	if cur != nil && cur.State != pbpeering.PeeringState_DELETING && g.mix == "peering" && g.rng.Intn(3) > 0 {
		pk = 7 // walk the secrets lifecycle
	}
	switch pk {
	case 0, 1, 2:
		p := &pbpeering.Peering{ID: id, Name: name, State: pbpeering.PeeringState_PENDING}
		if cur != nil {
			p.State = []pbpeering.PeeringState{pbpeering.PeeringState_ESTABLISHING, pbpeering.PeeringState_ACTIVE, pbpeering.PeeringState_FAILING, pbpeering.PeeringState_TERMINATED}[g.rng.Intn(4)]
			p.PeerServerName, p.PeerServerAddresses = cur.PeerServerName, cur.PeerServerAddresses
			p.PeerID = cur.PeerID
		}
		if cur == nil && g.chance(3) {
			// dialing side
			p.PeerID = "dddddddd-0000-0000-0000-00000000000" + fmt.Sprint(i)
			p.PeerServerName = "server.dc2.peer"
			p.PeerServerAddresses = []string{"198.51.100.1:8502"}
			p.State = pbpeering.PeeringState_ESTABLISHING
		}
		if g.chance(3) {
			p.Meta = map[string]string{"env": g.pick([]string{"prod", "dev"})}
		}
		if g.chance(4) {
			p.Remote = &pbpeering.RemoteInfo{Partition: "default", Datacenter: "dc2"}
		}
		if g.chance(8) {
			p.State = pbpeering.PeeringState_DELETING
			p.DeletedAt = now
		}
		req := &pbpeering.PeeringWriteRequest{Peering: p}
		// the leader attaches a secrets request when it generates a token (accepting side) or
		// establishes (dialing side); never to the write that marks a peering for deletion
		// (kept as a rare out-of-protocol write: it is what leaves an orphan secrets row behind)
		if g.chance(2) && (p.State != pbpeering.PeeringState_DELETING || g.chance(6)) {
			if p.PeerID != "" {
				req.SecretsRequest = &pbpeering.SecretsWriteRequest{PeerID: id, Request: &pbpeering.SecretsWriteRequest_Establish{
					Establish: &pbpeering.SecretsWriteRequest_EstablishRequest{ActiveStreamSecret: g.freshSecret()}}}
			} else {
				req.SecretsRequest = &pbpeering.SecretsWriteRequest{PeerID: id, Request: &pbpeering.SecretsWriteRequest_GenerateToken{
					GenerateToken: &pbpeering.SecretsWriteRequest_GenerateTokenRequest{EstablishmentSecret: g.freshSecret()}}}
			}
		}
		return g.mk("peering:write", fmt.Sprintf("peering write %s id=..%s state=%s secrets=%v", name, id[len(id)-1:], p.State, req.SecretsRequest != nil),
			mustEncodeProto(structs.PeeringWriteType, req))
	case 3:
		return g.mk("peering:delete", "peering delete "+name,
			mustEncodeProto(structs.PeeringDeleteType, &pbpeering.PeeringDeleteRequest{Name: name}))
	case 4:
		return g.mk("peering:terminate", "peering terminate id=.."+id[len(id)-1:],
			mustEncodeProto(structs.PeeringTerminateByIDType, &pbpeering.PeeringTerminateByIDRequest{ID: id}))
	case 5:
		tb := &pbpeering.PeeringTrustBundle{TrustDomain: name + ".consul", PeerName: name, RootPEMs: []string{"pem-" + g.pick([]string{"a", "b"})}, ExportedPartition: "default"}
		return g.mk("peering:trust-bundle-write", "peering trust-bundle write "+name,
			mustEncodeProto(structs.PeeringTrustBundleWriteType, &pbpeering.PeeringTrustBundleWriteRequest{PeeringTrustBundle: tb}))
	case 6:
		return g.mk("peering:trust-bundle-delete", "peering trust-bundle delete "+name,
			mustEncodeProto(structs.PeeringTrustBundleDeleteType, &pbpeering.PeeringTrustBundleDeleteRequest{Name: name}))
	default:
		kind, req := g.secretsStep(id, cur != nil && cur.ShouldDial())
		return g.mk("peering:secrets:"+kind, fmt.Sprintf("peering secrets %s id=..%s", kind, id[len(id)-1:]),
			mustEncodeProto(structs.PeeringSecretsWriteType, req))
	}
}

// ---------------------------------------------------------------- the rest

func (g *wgen) misc() wcmd {
	switch g.rng.Intn(9) {
	case 0, 1:
		k := g.pick(uni.metaKeys)
		v := g.pick([]string{"true", "false", "config-entry", "legacy", "val1"})
		switch k {
		case "virtual-ips", "virtual-ips-term-gateway":
			v = "true"
		case "intention-format":
			v = g.pick([]string{"config-entry", "legacy"})
		}
		if g.chance(5) {
			return g.mk("sysmeta:delete", "system-metadata delete "+k,
				mustEncode(structs.SystemMetadataRequestType, &structs.SystemMetadataRequest{Datacenter: "dc1", Op: structs.SystemMetadataDelete, Entry: &structs.SystemMetadataEntry{Key: k}}))
		}
		return g.mk("sysmeta:set", fmt.Sprintf("system-metadata set %s=%s", k, v),
			mustEncode(structs.SystemMetadataRequestType, &structs.SystemMetadataRequest{Datacenter: "dc1", Op: structs.SystemMetadataUpsert, Entry: &structs.SystemMetadataEntry{Key: k, Value: v}}))
	case 2:
		dc := g.pick(uni.dcs)
		if g.chance(4) {
			return g.mk("fedstate:delete", "federation-state delete "+dc,
				mustEncode(structs.FederationStateRequestType, &structs.FederationStateRequest{Datacenter: "dc1", Op: structs.FederationStateDelete, State: &structs.FederationState{Datacenter: dc}}))
		}
		fs := &structs.FederationState{Datacenter: dc, UpdatedAt: baseTime.Add(time.Duration(g.idx) * time.Second), PrimaryModifyIndex: uint64(g.rng.Intn(3))}
		for n := g.rng.Intn(3); n > 0; n-- {
			fs.MeshGateways = append(fs.MeshGateways, structs.CheckServiceNode{
				Node:    &structs.Node{ID: types.NodeID(uni.nodeIDs[1]), Node: "gw" + fmt.Sprint(n), Datacenter: dc, Address: "203.0.113." + fmt.Sprint(n)},
				Service: &structs.NodeService{ID: "mesh-gateway", Service: "mesh-gateway", Kind: structs.ServiceKindMeshGateway, Port: 443, Meta: map[string]string{structs.MetaWANFederationKey: "1"}},
				Checks:  structs.HealthChecks{{Name: "alive", Status: api.HealthPassing, ServiceID: "mesh-gateway"}},
			})
		}
		return g.mk("fedstate:set", fmt.Sprintf("federation-state set %s gateways=%d", dc, len(fs.MeshGateways)),
			mustEncode(structs.FederationStateRequestType, &structs.FederationStateRequest{Datacenter: "dc1", Op: structs.FederationStateUpsert, State: fs}))
	case 3:
		cfg := structs.AutopilotConfig{CleanupDeadServers: g.chance(2), LastContactThreshold: time.Duration(100+g.rng.Intn(3)) * time.Millisecond, MaxTrailingLogs: uint64(200 + g.rng.Intn(3)),
			MinQuorum: uint(g.rng.Intn(3)), ServerStabilizationTime: 10 * time.Second}
		req := &structs.AutopilotSetConfigRequest{Datacenter: "dc1", Config: cfg, CAS: g.chance(2)}
		if req.CAS {
			var mi uint64
			if _, c, _ := g.st().AutopilotConfig(); c != nil {
				mi = c.ModifyIndex
			}
			req.Config.ModifyIndex = g.casIndex(mi)
		}
		return g.mk("autopilot", fmt.Sprintf("autopilot set cas=%v index=%d", req.CAS, req.Config.ModifyIndex),
			mustEncode(structs.AutopilotRequestType, req))
	case 4:
		_, pol, stt, _ := g.st().FeatureGatePolicyAndStatus(nil)
		req := &structs.FeatureGateUpdateRequest{Status: &structs.FeatureGateStatus{RegistryDigest: g.pick([]string{"dg1", "dg2"}),
			Features: map[string]structs.ResolvedFeatureGate{"feat-a": {DesiredEnabled: g.chance(2), EffectiveEnabled: g.chance(2), Eligible: true, Source: "operator", Reason: structs.FeatureGateReasonOperatorEnabled}}}}
		if pol != nil {
			req.ExpectedPolicyIndex = g.casIndex(pol.ModifyIndex)
		}
		if stt != nil {
			req.ExpectedStatusIndex = g.casIndex(stt.ModifyIndex)
		}
		if pol == nil || g.chance(2) {
			req.Policy = &structs.FeatureGatePolicy{Settings: map[string]structs.FeatureGateSetting{"feat-a": {Enabled: g.chance(2), Source: structs.FeatureGateSourceOperator}}}
		}
		return g.mk("feature-gates", fmt.Sprintf("feature-gates update policy=%v expect=%d/%d", req.Policy != nil, req.ExpectedPolicyIndex, req.ExpectedStatusIndex),
			mustEncode(structs.FeatureGateRequestType, req))
	case 5, 6:
		svc := g.pick([]string{"web", "api", "db", "nosuch"})
		if _, vips, _ := g.st().ServiceVirtualIPs(); len(vips) > 0 && g.rng.Intn(5) > 0 {
			svc = vips[g.rng.Intn(len(vips))].Service.ServiceName.Name
		}
		var ips []string
		for n := g.rng.Intn(3); n > 0; n-- {
			ips = append(ips, g.pick([]string{"10.9.0.1", "10.9.0.2", "10.9.0.3"}))
		}
		ips = dedup(ips)
		req := state.ServiceVirtualIP{Service: structs.PeeredServiceName{ServiceName: structs.NewServiceName(svc, nil)}, ManualIPs: ips}
		return g.mk("manual-vips", fmt.Sprintf("manual-vips %s %v", svc, ips), mustEncode(structs.UpdateVirtualIPRequestType, req))
	case 7:
		return g.coordinates()
	default:
		return g.reap()
	}
}

func dedup(xs []string) []string {
	seen := map[string]bool{}
	var out []string
	for _, x := range xs {
		if !seen[x] {
			seen[x] = true
			out = append(out, x)
		}
	}
	return out
}

var _ = net.IP{}

// malformed: requests an endpoint can forward but the FSM rejects without touching the store
// (unknown operation names, empty ids): donor and restored store must reject them alike.
func (g *wgen) malformed() wcmd {
	switch g.rng.Intn(7) {
	case 0:
		return g.mk("malformed:kvs-op", "kvs bogus-op", mustEncode(structs.KVSRequestType, &structs.KVSRequest{Datacenter: "dc1", Op: api.KVOp("bogus"), DirEnt: structs.DirEntry{Key: "a"}}))
	case 1:
		return g.mk("malformed:session-op", "session bogus-op", mustEncode(structs.SessionRequestType, &structs.SessionRequest{Datacenter: "dc1", Op: structs.SessionOp("bogus"), Session: structs.Session{ID: g.pick(uni.sessIDs)}}))
	case 2:
		return g.mk("malformed:session-empty-id", "session create with empty id", mustEncode(structs.SessionRequestType, &structs.SessionRequest{Datacenter: "dc1", Op: structs.SessionCreate, Session: structs.Session{Node: g.nodeName()}}))
	case 3:
		return g.mk("malformed:tombstone-op", "tombstone bogus-op", mustEncode(structs.TombstoneRequestType, &structs.TombstoneRequest{Datacenter: "dc1", Op: structs.TombstoneOp("bogus")}))
	case 4:
		return g.mk("malformed:query-op", "prepared query bogus-op", mustEncode(structs.PreparedQueryRequestType, &structs.PreparedQueryRequest{Datacenter: "dc1", Op: structs.PreparedQueryOp("bogus"), Query: &structs.PreparedQuery{ID: g.pick(uni.queryIDs)}}))
	case 5:
		return g.mk("malformed:ca-op", "ca bogus-op", mustEncode(structs.ConnectCARequestType, &structs.CARequest{Op: structs.CAOp("bogus"), Datacenter: "dc1"}))
	default:
		return g.mk("malformed:txn-kv-verb", "txn with an unknown kv verb", mustEncode(structs.TxnRequestType, &structs.TxnRequest{Datacenter: "dc1",
			Ops: structs.TxnOps{{KV: &structs.TxnKVOp{Verb: api.KVOp("bogus"), DirEnt: structs.DirEntry{Key: "a"}}}, {KV: &structs.TxnKVOp{Verb: api.KVSet, DirEnt: structs.DirEntry{Key: "zz"}}}}}))
	}
}

// next picks the next command according to the mix.
func (g *wgen) next() wcmd {
	g.idx += uint64(1 + g.rng.Intn(3))
	weights := map[string][]int{
		//          reg dereg kvs sess+ sess- query txn aclP aclR aclT aclM cfg ixn ca peer misc
		"catalog": {30, 8, 6, 6, 3, 3, 8, 1, 1, 1, 1, 14, 4, 2, 4, 8},
		"kv":      {10, 3, 30, 8, 5, 5, 14, 1, 1, 1, 1, 3, 1, 1, 1, 6},
		"mesh":    {22, 5, 3, 2, 1, 2, 4, 1, 1, 1, 1, 24, 9, 5, 5, 16},
		"admin":   {8, 2, 4, 3, 2, 3, 3, 8, 7, 10, 7, 6, 4, 10, 12, 10},
		"peering": {10, 2, 3, 1, 1, 1, 2, 1, 1, 1, 1, 5, 2, 2, 60, 6},
	}[g.mix]
	tot := 0
	for _, w := range weights {
		tot += w
	}
	r := g.rng.Intn(tot)
	k := 0
	for ; k < len(weights); k++ {
		if r < weights[k] {
			break
		}
		r -= weights[k]
	}
	if len(g.existingNodes("")) == 0 && g.rng.Intn(3) > 0 {
		k = 0
	}
	if g.rng.Intn(40) == 0 {
		return g.malformed()
	}
	if g.mix == "mesh" && !g.vipsOn && g.rng.Intn(3) > 0 {
		// most connect deployments have virtual IPs enabled from the start
		g.vipsOn = true
		return g.mk("sysmeta:set", "system-metadata set virtual-ips=true",
			mustEncode(structs.SystemMetadataRequestType, &structs.SystemMetadataRequest{Datacenter: "dc1", Op: structs.SystemMetadataUpsert,
				Entry: &structs.SystemMetadataEntry{Key: structs.SystemMetadataVirtualIPsEnabled, Value: "true"}}))
	}
	switch k {
	case 0:
		return g.register()
	case 1:
		return g.deregister()
	case 2:
		return g.kvs()
	case 3:
		return g.sessionCreate()
	case 4:
		return g.sessionDestroy()
	case 5:
		return g.preparedQuery()
	case 6:
		return g.txn()
	case 7:
		return g.aclPolicy()
	case 8:
		return g.aclRole()
	case 9:
		return g.aclToken()
	case 10:
		return g.aclMethodOrRule()
	case 11:
		return g.configEntry()
	case 12:
		return g.intention()
	case 13:
		return g.ca()
	case 14:
		return g.peering()
	default:
		return g.misc()
	}
}

// corpusWide: a fixed history that exercises the two repaired peering restorers on every run: two
// peerings written in the reverse of their name order (so the last peering in name order is not
// the last written: e510f68), the second one dialing with an established stream secret (2c60efb),
// and a trust bundle for each, again in reverse name order.
func corpusWide() []wcmd {
	mk := func(idx uint64, kind, desc string, data []byte) wcmd {
		return wcmd{Idx: idx, Kind: kind, Desc: desc, Data: hex.EncodeToString(data)}
	}
	p2 := &pbpeering.PeeringWriteRequest{
		Peering: &pbpeering.Peering{ID: uni.peerIDs[1], Name: uni.peers[1], State: pbpeering.PeeringState_PENDING},
		SecretsRequest: &pbpeering.SecretsWriteRequest{PeerID: uni.peerIDs[1], Request: &pbpeering.SecretsWriteRequest_GenerateToken{
			GenerateToken: &pbpeering.SecretsWriteRequest_GenerateTokenRequest{EstablishmentSecret: uni.secretIDs[0]}}}}
	p1 := &pbpeering.PeeringWriteRequest{
		Peering: &pbpeering.Peering{ID: uni.peerIDs[0], Name: uni.peers[0], State: pbpeering.PeeringState_ESTABLISHING,
			PeerID: "dddddddd-0000-0000-0000-000000000000", PeerServerName: "server.dc2.peer", PeerServerAddresses: []string{"198.51.100.1:8502"}},
		SecretsRequest: &pbpeering.SecretsWriteRequest{PeerID: uni.peerIDs[0], Request: &pbpeering.SecretsWriteRequest_Establish{
			Establish: &pbpeering.SecretsWriteRequest_EstablishRequest{ActiveStreamSecret: uni.secretIDs[1]}}}}
	tb := func(name string) *pbpeering.PeeringTrustBundleWriteRequest {
		return &pbpeering.PeeringTrustBundleWriteRequest{PeeringTrustBundle: &pbpeering.PeeringTrustBundle{
			TrustDomain: name + ".consul", PeerName: name, RootPEMs: []string{"pem-a"}, ExportedPartition: "default"}}
	}
	return []wcmd{
		mk(2, "peering:write", "peering write peer2 (accepting, establishment secret)", mustEncodeProto(structs.PeeringWriteType, p2)),
		mk(4, "peering:write", "peering write peer1 (dialing, established stream secret)", mustEncodeProto(structs.PeeringWriteType, p1)),
		mk(6, "peering:trust-bundle-write", "peering trust-bundle write peer2", mustEncodeProto(structs.PeeringTrustBundleWriteType, tb(uni.peers[1]))),
		mk(8, "peering:trust-bundle-write", "peering trust-bundle write peer1", mustEncodeProto(structs.PeeringTrustBundleWriteType, tb(uni.peers[0]))),
		mk(9, "kvs:set", "kvs set key=\"a\"", mustEncode(structs.KVSRequestType, &structs.KVSRequest{Datacenter: "dc1", Op: api.KVSet, DirEnt: structs.DirEntry{Key: "a", Value: []byte{1}}})),
	}
}

// corpusWideGateway: a terminating gateway that links "*" and, explicitly, api with its own
// CAFile/SNI; then an instance of api registers. The registration path used to overwrite the
// explicit row with a copy of the wildcard row (repaired by a882280), which a restore undid.
func corpusWideGateway() []wcmd {
	mk := func(idx uint64, kind, desc string, data []byte) wcmd {
		return wcmd{Idx: idx, Kind: kind, Desc: desc, Data: hex.EncodeToString(data)}
	}
	tg := &structs.TerminatingGatewayConfigEntry{Kind: structs.TerminatingGateway, Name: "tgw",
		Services: []structs.LinkedService{{Name: "*"}, {Name: "api", CAFile: "/ca.pem", SNI: "api.example"}}}
	if err := tg.Normalize(); err != nil {
		panic(err)
	}
	if err := tg.Validate(); err != nil {
		panic(err)
	}
	reg := &structs.RegisterRequest{Datacenter: "dc1", Node: "n1", Address: "10.0.0.1",
		Service: &structs.NodeService{ID: "api1", Service: "api", Port: 8000}}
	return []wcmd{
		mk(3, "config:terminating-gateway:upsert", "config-entry upsert terminating-gateway/tgw (\"*\" and api with CAFile/SNI)",
			mustEncode(structs.ConfigEntryRequestType, &structs.ConfigEntryRequest{Op: structs.ConfigEntryUpsert, Datacenter: "dc1", Entry: tg})),
		mk(5, "register", "register node=n1 svc=api1/api", mustEncode(structs.RegisterRequestType, reg)),
		mk(7, "kvs:set", "kvs set key=\"a\"", mustEncode(structs.KVSRequestType, &structs.KVSRequest{Datacenter: "dc1", Op: api.KVSet, DirEnt: structs.DirEntry{Key: "a", Value: []byte{1}}})),
	}
}

// corpusWideSecrets: the whole secrets lifecycle of an ACCEPTING peering, twice: generate /
// exchange / promote, then a re-establishment (generate, exchange: pending AND active present),
// then promote again (which frees the old active secret's UUID), then the peering is deleted.
// Every combination of {establishment, pending, active} occurs at some cut, and PromotePending
// runs in the suffix of the cut where pending and active coexist.
func corpusWideSecrets() []wcmd {
	mk := func(idx uint64, kind, desc string, data []byte) wcmd {
		return wcmd{Idx: idx, Kind: kind, Desc: desc, Data: hex.EncodeToString(data)}
	}
	id, name := uni.peerIDs[0], uni.peers[0]
	sec := func(n int) string { return fmt.Sprintf("5ec7e702-0000-0000-0000-%012d", n) }
	sw := func(r *pbpeering.SecretsWriteRequest) []byte {
		return mustEncodeProto(structs.PeeringSecretsWriteType, r)
	}
	gen := func(e string) *pbpeering.SecretsWriteRequest {
		return &pbpeering.SecretsWriteRequest{PeerID: id, Request: &pbpeering.SecretsWriteRequest_GenerateToken{
			GenerateToken: &pbpeering.SecretsWriteRequest_GenerateTokenRequest{EstablishmentSecret: e}}}
	}
	exch := func(e, p string) *pbpeering.SecretsWriteRequest {
		return &pbpeering.SecretsWriteRequest{PeerID: id, Request: &pbpeering.SecretsWriteRequest_ExchangeSecret{
			ExchangeSecret: &pbpeering.SecretsWriteRequest_ExchangeSecretRequest{EstablishmentSecret: e, PendingStreamSecret: p}}}
	}
	prom := func(p string) *pbpeering.SecretsWriteRequest {
		return &pbpeering.SecretsWriteRequest{PeerID: id, Request: &pbpeering.SecretsWriteRequest_PromotePending{
			PromotePending: &pbpeering.SecretsWriteRequest_PromotePendingRequest{ActiveStreamSecret: p}}}
	}
	pw := &pbpeering.PeeringWriteRequest{Peering: &pbpeering.Peering{ID: id, Name: name, State: pbpeering.PeeringState_PENDING}, SecretsRequest: gen(sec(1))}
	del := &pbpeering.PeeringWriteRequest{Peering: &pbpeering.Peering{ID: id, Name: name, State: pbpeering.PeeringState_DELETING,
		DeletedAt: timestamppb.New(baseTime.Add(time.Hour))}}
	return []wcmd{
		mk(2, "peering:write", "peering write peer1 (accepting) with GenerateToken E1", mustEncodeProto(structs.PeeringWriteType, pw)), // E
		mk(4, "peering:secrets:exchange", "secrets exchange E1 -> pending P1", sw(exch(sec(1), sec(2)))),                               // P
		mk(5, "peering:secrets:generate", "secrets generate E2 while P1 is pending", sw(gen(sec(3)))),                                  // EP
		mk(6, "peering:secrets:promote", "secrets promote P1 -> active", sw(prom(sec(2)))),                                             // EA
		mk(8, "peering:secrets:exchange", "secrets exchange E2 -> pending P2 (pending and active present)", sw(exch(sec(3), sec(4)))),  // PA
		mk(9, "peering:secrets:generate", "secrets generate E3 (establishment, pending and active present)", sw(gen(sec(5)))),          // EPA
		mk(10, "peering:secrets:promote", "secrets promote P2 -> active (frees P1)", sw(prom(sec(4)))),                                 // EA
		mk(12, "peering:secrets:exchange", "secrets exchange E3 -> pending P3", sw(exch(sec(5), sec(6)))),                              // PA
		mk(14, "peering:secrets:promote", "secrets promote P3 -> active (frees P2)", sw(prom(sec(6)))),                                 // A
		mk(16, "peering:write", "peering write peer1 state=DELETING", mustEncodeProto(structs.PeeringWriteType, del)),
		mk(18, "peering:delete", "peering delete peer1", mustEncodeProto(structs.PeeringDeleteType, &pbpeering.PeeringDeleteRequest{Name: name})),
	}
}

// corpusWideAudit: a fixed history that reaches, on every run, the input shapes the audit round
// added (each one the witness of an open finding): a node name re-spelled by a later registration
// (the service row keeps its own spelling), one service name in two letter-case spellings, a
// mesh-topology row deleted by one proxy although another still declares the pair, a
// service-defaults entry that loses its Destination (repaired by 0d0f3e6: must be clean), a route written back with a status (stored
// hash predates the status), and a secrets row adopted by a re-created, now dialing, peering.
func corpusWideAudit() []wcmd {
	mk := func(idx uint64, kind, desc string, data []byte) wcmd {
		return wcmd{Idx: idx, Kind: kind, Desc: desc, Data: hex.EncodeToString(data)}
	}
	reg := func(idx uint64, node string, ns *structs.NodeService) wcmd {
		return mk(idx, "register", fmt.Sprintf("register node=%s svc=%s/%s", node, ns.ID, ns.Service),
			mustEncode(structs.RegisterRequestType, &structs.RegisterRequest{Datacenter: "dc1", Node: node, Address: "10.0.0.1", Service: ns}))
	}
	proxy := func(up string) *structs.NodeService {
		return &structs.NodeService{Kind: structs.ServiceKindConnectProxy, ID: "webp", Service: "web-proxy", Port: 8002,
			Proxy: structs.ConnectProxyConfig{DestinationServiceName: "web", DestinationServiceID: "web1",
				Upstreams: structs.Upstreams{{DestinationName: up, LocalBindPort: 9191}}}}
	}
	cfg := func(idx uint64, op structs.ConfigEntryOp, e structs.ConfigEntry, cas uint64, norm bool) wcmd {
		if norm {
			if err := e.Normalize(); err != nil {
				panic(err)
			}
			if err := e.Validate(); err != nil {
				panic(err)
			}
		}
		e.GetRaftIndex().ModifyIndex = cas
		return mk(idx, "config:"+e.GetKind()+":"+string(op), fmt.Sprintf("config-entry %s %s/%s index=%d", op, e.GetKind(), e.GetName(), cas),
			mustEncode(structs.ConfigEntryRequestType, &structs.ConfigEntryRequest{Op: op, Datacenter: "dc1", Entry: e}))
	}
	route := func() *structs.TCPRouteConfigEntry {
		return &structs.TCPRouteConfigEntry{Kind: structs.TCPRoute, Name: "tr1",
			Parents:  []structs.ResourceReference{{Kind: structs.APIGateway, Name: "agw", SectionName: "l2"}},
			Services: []structs.TCPService{{Name: "db"}}}
	}
	withStatus := route()
	if err := withStatus.Normalize(); err != nil {
		panic(err)
	}
	withStatus.SetStatus(structs.Status{Conditions: []structs.Condition{{Type: "Accepted", Status: "True", Reason: "Accepted", Message: "route is valid",
		LastTransitionTime: timePtr(baseTime.Add(18 * time.Second))}}})
	id := uni.peerIDs[0]
	accept := &pbpeering.PeeringWriteRequest{Peering: &pbpeering.Peering{ID: id, Name: "peer1", State: pbpeering.PeeringState_PENDING},
		SecretsRequest: &pbpeering.SecretsWriteRequest{PeerID: id, Request: &pbpeering.SecretsWriteRequest_GenerateToken{
			GenerateToken: &pbpeering.SecretsWriteRequest_GenerateTokenRequest{EstablishmentSecret: "5ec7e702-0000-0000-0000-000000000001"}}}}
	dial := &pbpeering.PeeringWriteRequest{Peering: &pbpeering.Peering{ID: id, Name: "peer1", State: pbpeering.PeeringState_ESTABLISHING,
		PeerID: "dddddddd-0000-0000-0000-000000000000", PeerServerName: "server.dc2.peer", PeerServerAddresses: []string{"198.51.100.1:8502"}},
		SecretsRequest: &pbpeering.SecretsWriteRequest{PeerID: id, Request: &pbpeering.SecretsWriteRequest_Establish{
			Establish: &pbpeering.SecretsWriteRequest_EstablishRequest{ActiveStreamSecret: "5ec7e702-0000-0000-0000-000000000002"}}}}
	return []wcmd{
		reg(2, "n1", &structs.NodeService{ID: "db1", Service: "db", Port: 8001}),
		reg(4, "N1", proxy("api")),
		reg(6, "n2", &structs.NodeService{ID: "db1", Service: "DB", Port: 8001}),
		reg(8, "n2", proxy("api")),
		reg(10, "N1", proxy("db")),
		cfg(12, structs.ConfigEntryUpsert, &structs.ServiceConfigEntry{Kind: structs.ServiceDefaults, Name: "ext", Protocol: "tcp",
			Destination: &structs.DestinationConfig{Addresses: []string{"example.com"}, Port: 443}}, 0, true),
		cfg(14, structs.ConfigEntryUpsert, &structs.ServiceConfigEntry{Kind: structs.ServiceDefaults, Name: "ext", Protocol: "tcp"}, 0, true),
		cfg(16, structs.ConfigEntryUpsert, route(), 0, true),
		cfg(18, structs.ConfigEntryUpsertWithStatusCAS, withStatus, 16, false),
		mk(20, "peering:write", "peering write peer1 id=..1 state=PENDING secrets=true (establishment secret)", mustEncodeProto(structs.PeeringWriteType, accept)),
		mk(21, "peering:terminate", "peering terminate id=..1", mustEncodeProto(structs.PeeringTerminateByIDType, &pbpeering.PeeringTerminateByIDRequest{ID: id})),
		mk(22, "peering:delete", "peering delete peer1", mustEncodeProto(structs.PeeringDeleteType, &pbpeering.PeeringDeleteRequest{Name: "peer1"})),
		mk(24, "peering:write", "peering write peer1 id=..1 state=ESTABLISHING secrets=true (dialing, stream secret)", mustEncodeProto(structs.PeeringWriteType, dial)),
		mk(26, "kvs:set", "kvs set key=\"a\"", mustEncode(structs.KVSRequestType, &structs.KVSRequest{Datacenter: "dc1", Op: api.KVSet, DirEnt: structs.DirEntry{Key: "a", Value: []byte{1}}})),
	}
}
