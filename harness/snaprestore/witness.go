// Known-finding renderings, conditional on witnesses.
//
// Every open known finding of C02 describes a way in which a restored store legitimately (as the
// code is today) differs from its donor.  A difference is attributed to a finding only when the
// finding's WITNESS PREDICATE holds on the donor store at the cut being compared (this check is
// stale, this gateway has linked services, this proxy row is left over, ...), and only for the
// rows / index rows / query names the witness names.  Without the witness nothing is rendered
// leniently: the same difference is a VIOLATION.  The witness is part of the failure signature.
package main

import (
	"fmt"
	"reflect"
	"sort"
	"strconv"
	"strings"

	"github.com/hashicorp/consul/agent/consul/state"
	"github.com/hashicorp/consul/agent/structs"
	"github.com/hashicorp/consul/api"
	"github.com/hashicorp/consul/proto/private/pbpeering"
)

// witnessName: what must be true of the donor at the cut for the finding to be invoked.
var witnessName = map[maskSet]string{
	mUsage:            "donor-usage-row-index-is-not-max(nodes,services,kvs)-or-count-zero",
	mCheckRefresh:     "donor-check-carries-other-service-name-or-tags-than-its-service",
	mGatewayStamp:     "donor-has-gateway-services-rows",
	mTopologyStamp:    "donor-has-proxy-mesh-topology-rows",
	mOrphanSecret:     "donor-has-peering-secrets-row-without-peering",
	mStaleKindName:    "donor-has-unbacked-kind-service-name-after-an-instance-was-re-registered-under-another-name-kind-or-destination",
	mWildcardUnbacked: "donor-has-wildcard-gateway-mapping",
	mStaleHash:        "donor-has-config-entry-whose-stored-hash-is-not-the-hash-of-its-content",
	mUnheldUUID:       "donor-secret-uuid-list-differs-from-the-ids-held-by-the-secrets-rows-of-its-non-dialing-peerings",
	mNodeSpelling:     "donor-has-service-row-whose-node-name-spelling-differs-from-its-node-row",
	mNameSpelling:     "history-registered-one-service-name-in-two-letter-case-spellings",
}

// histFacts: what the witnesses need to know about the history up to the cut (not readable off the store).
type histFacts struct {
	renamed  bool            // some instance was re-registered under another name / kind / destination
	variants map[string]bool // lower-cased service names that were registered in more than one letter-case spelling
}

// nameTracker accumulates the spellings of service names over a history.
type nameTracker struct {
	spellings map[string]map[string]bool
	variants  map[string]bool
}

func newNameTracker() *nameTracker {
	return &nameTracker{spellings: map[string]map[string]bool{}, variants: map[string]bool{}}
}

func (t *nameTracker) note(st *state.Store) {
	add := func(n string) {
		l := strings.ToLower(n)
		if t.spellings[l] == nil {
			t.spellings[l] = map[string]bool{}
		}
		t.spellings[l][n] = true
		if len(t.spellings[l]) > 1 {
			t.variants[l] = true
		}
	}
	st.WalkAllTables(func(table string, item interface{}) bool {
		switch v := item.(type) {
		case *structs.ServiceNode:
			add(v.ServiceName)
			if v.ServiceKind == structs.ServiceKindConnectProxy {
				add(v.ServiceProxy.DestinationServiceName)
				for _, u := range v.ServiceProxy.Upstreams {
					add(u.DestinationName)
				}
			}
		// the names a gateway's config entry links: its gateway-services rows are written with the
		// spelling of whichever path (config entry or registration) wrote them last
		case *structs.TerminatingGatewayConfigEntry:
			add(v.Name)
			for _, l := range v.Services {
				add(l.Name)
			}
		case *structs.IngressGatewayConfigEntry:
			add(v.Name)
			for _, l := range v.Listeners {
				for _, sv := range l.Services {
					add(sv.Name)
				}
			}
		case *structs.ServiceConfigEntry:
			add(v.Name)
		}
		return true
	})
}

func (t *nameTracker) snapshot() map[string]bool {
	out := map[string]bool{}
	for k := range t.variants {
		out[k] = true
	}
	return out
}

// storeEnv: facts about one store that the renderings consult.
type storeEnv struct {
	svcs  map[svcKey]svcInfo
	kinds map[string]bool   // "kind\x00name" pairs a registered local instance backs
	pairs map[string]bool   // "upstream\x00downstream" pairs the registered proxies give rise to
	nodes map[string]string // "node\x00peer" (lower case) -> the node row's spelling
}

// servicesAndKindsOf: the service instances, and the (kind, name) pairs that upsertKindServiceName
// would record for them (the kind of each local instance under its name; "connect-enabled" for
// the destination of a proxy and for a connect-native service).
func envOf(st *state.Store) *storeEnv {
	e := &storeEnv{svcs: map[svcKey]svcInfo{}, kinds: map[string]bool{}, pairs: map[string]bool{}, nodes: map[string]string{}}
	st.WalkAllTables(func(table string, item interface{}) bool {
		if n, ok := item.(*structs.Node); ok {
			e.nodes[strings.ToLower(n.Node+"\x00"+n.PeerName)] = n.Node
		}
		if sd, ok := item.(*structs.ServiceConfigEntry); ok && sd.Destination != nil {
			e.kinds[strings.ToLower(string(structs.ServiceKindDestination)+"\x00"+sd.Name)] = true
		}
		sn, ok := item.(*structs.ServiceNode)
		if !ok {
			return true
		}
		e.svcs[svcKey{strings.ToLower(sn.Node), strings.ToLower(sn.ServiceID), strings.ToLower(sn.PeerName)}] = svcInfo{sn.ServiceName, sn.ServiceTags}
		if sn.PeerName != "" {
			return true
		}
		e.kinds[strings.ToLower(string(sn.ServiceKind)+"\x00"+sn.ServiceName)] = true
		if sn.ServiceKind == structs.ServiceKindConnectProxy {
			if sn.ServiceProxy.DestinationServiceName != "" {
				e.kinds[strings.ToLower(string(structs.ServiceKindConnectEnabled)+"\x00"+sn.ServiceProxy.DestinationServiceName)] = true
			}
			for _, u := range sn.ServiceProxy.Upstreams {
				if u.DestinationType != structs.UpstreamDestTypePreparedQuery {
					e.pairs[strings.ToLower(u.DestinationName+"\x00"+sn.ServiceProxy.DestinationServiceName)] = true
				}
			}
		}
		if sn.ServiceConnect.Native {
			e.kinds[strings.ToLower(string(structs.ServiceKindConnectEnabled)+"\x00"+sn.ServiceName)] = true
		}
		return true
	})
	return e
}

// instanceSigs: per local instance, what upsertKindServiceName / updateMeshTopology key on.
func instanceSigs(st *state.Store) map[svcKey]string {
	out := map[svcKey]string{}
	st.WalkAllTables(func(table string, item interface{}) bool {
		if sn, ok := item.(*structs.ServiceNode); ok && sn.PeerName == "" {
			out[svcKey{strings.ToLower(sn.Node), strings.ToLower(sn.ServiceID), ""}] =
				fmt.Sprintf("%s|%s|%s|%v", sn.ServiceName, sn.ServiceKind, sn.ServiceProxy.DestinationServiceName, sn.ServiceConnect.Native)
		}
		return true
	})
	return out
}

// txnRenames: the command is a transaction that writes one instance twice, under two names / kinds /
// destinations (a re-registration that the stores before and after the command do not show).
func txnRenames(data []byte, before map[svcKey]string) bool {
	if len(data) == 0 || structs.MessageType(data[0]) != structs.TxnRequestType {
		return false
	}
	var req structs.TxnRequest
	if err := structs.Decode(data[1:], &req); err != nil {
		return false
	}
	// (start from the instances present before the command: the transaction may re-register one of
	// them and delete it again, which the stores before and after do not show either)
	seen := map[svcKey]string{}
	for k, v := range before {
		seen[k] = v
	}
	for _, op := range req.Ops {
		if op.Service == nil || op.Service.Verb == api.ServiceDelete || op.Service.Verb == api.ServiceDeleteCAS {
			continue
		}
		sv := op.Service.Service
		k := svcKey{strings.ToLower(op.Service.Node), strings.ToLower(sv.ID), ""}
		sig := fmt.Sprintf("%s|%s|%s|%v", sv.Service, sv.Kind, sv.Proxy.DestinationServiceName, sv.Connect.Native)
		if old, ok := seen[k]; ok && old != sig {
			return true
		}
		seen[k] = sig
	}
	return false
}

// reRegistered: some instance present before is present after with another name / kind / destination.
func reRegistered(before, after map[svcKey]string) bool {
	for k, v := range before {
		if w, ok := after[k]; ok && w != v {
			return true
		}
	}
	return false
}

// witness: which findings may be invoked for a cut, and for which names.
type witness struct {
	masks       maskSet
	staleNames  map[string]bool // service names a stale check carries, or its service carries
	gwNames     map[string]bool // gateway and service names of gateway-services rows
	gwAll       bool            // a wildcard mapping exists: any name can be affected
	topoNames   map[string]bool // names of proxy mesh-topology rows
	leftover    map[string]bool // names of proxy rows no registered proxy gives rise to
	staleKinds  map[string]bool // kinds that have an unbacked kind-service-names row
	orphanIDs   map[string]bool // quoted secret ids of secrets rows without a peering row
	missing     map[string]bool // "upstream\x00downstream" pairs a registered proxy declares but no row records
	staleHash   map[string]bool // "kind\x00name" of config entries whose stored hash is not the hash of their content
	unheldIDs   map[string]bool // quoted ids in peering-secret-uuids that no secrets row of a non-dialing peering holds
	unlisted    map[string]bool // quoted ids a secrets row of an existing non-dialing peering holds, missing from peering-secret-uuids
	respelled   map[string]bool // "node\x00peer" (lower case) of nodes with a service row spelled otherwise
	variants    map[string]bool // lower-cased service names registered in several spellings so far
	usageRows   map[string]bool // ids of usage rows whose index is not max(nodes,services,kvs), or whose count is zero
	staleChecks map[string]bool // "node\x00check\x00peer" (lower case) of the stale checks
	suffix      bool            // the comparison is made after commands were applied to both stores
}

func (w *witness) has(m maskSet) bool { return w != nil && w.masks&m != 0 }

// forSuffix: the witness for a comparison made after a suffix: both stores were given the later
// spellings too, and the consequences that need a later command (a stale check rewritten by a
// registration that repeats it) may now show.
func (w *witness) forSuffix(v map[string]bool) *witness {
	if w == nil {
		return w
	}
	c := *w
	c.suffix = true
	if len(v) > 0 {
		c.variants = v
		c.masks |= mNameSpelling
	}
	return &c
}

func (w *witness) without(m maskSet) *witness {
	c := *w
	c.masks &^= m
	return &c
}

// ctx: the rendering context for values read from a store with environment [env].
func (w *witness) ctx(env *storeEnv, refresh bool) *canonCtx {
	c := &canonCtx{masks: w.maskOf(), refresh: refresh, svcs: env.svcs, nodes: env.nodes}
	if w != nil {
		c.staleHash, c.respelled, c.variants = w.staleHash, w.respelled, w.variants
		if w.suffix {
			c.staleChecks = w.staleChecks
		}
	}
	return c
}

func (w *witness) maskOf() maskSet {
	if w == nil {
		return 0
	}
	return w.masks
}

// computeWitness evaluates every witness predicate on a (donor) store.
func computeWitness(st *state.Store, hf histFacts) *witness {
	renamed := hf.renamed
	w := &witness{staleNames: map[string]bool{}, gwNames: map[string]bool{}, topoNames: map[string]bool{}, leftover: map[string]bool{},
		staleKinds: map[string]bool{}, orphanIDs: map[string]bool{}, missing: map[string]bool{}, staleHash: map[string]bool{},
		unheldIDs: map[string]bool{}, unlisted: map[string]bool{}, respelled: map[string]bool{}, variants: hf.variants, usageRows: map[string]bool{}, staleChecks: map[string]bool{}}
	if len(hf.variants) > 0 {
		w.masks |= mNameSpelling
	}
	env := envOf(st)
	rowPairs := map[string]bool{}
	var uuids []string
	idx := map[string]uint64{}
	peerings := map[string]bool{}
	dialing := map[string]bool{}
	var secrets []*pbpeering.PeeringSecrets
	type usageRow struct {
		id  string
		idx uint64
		cnt int64
	}
	var usage []usageRow
	st.WalkAllTables(func(table string, item interface{}) bool {
		switch v := item.(type) {
		case *state.IndexEntry:
			idx[v.Key] = v.Value
		case *structs.HealthCheck:
			if v.ServiceID != "" {
				if si, ok := env.svcs[svcKey{strings.ToLower(v.Node), strings.ToLower(v.ServiceID), strings.ToLower(v.PeerName)}]; ok {
					if si.name != v.ServiceName || strings.Join(si.tags, "\x00") != strings.Join(v.ServiceTags, "\x00") {
						w.masks |= mCheckRefresh
						w.staleNames[strings.ToLower(si.name)] = true
						w.staleNames[strings.ToLower(v.ServiceName)] = true
						w.staleChecks[strings.ToLower(v.Node+"\x00"+string(v.CheckID)+"\x00"+v.PeerName)] = true
					}
				}
			}
		case *structs.ServiceNode:
			k := strings.ToLower(v.Node + "\x00" + v.PeerName)
			if sp, ok := env.nodes[k]; ok && sp != v.Node {
				w.masks |= mNodeSpelling
				w.respelled[k] = true
			}
		case structs.ConfigEntry:
			if h, err := structs.HashConfigEntry(v); err == nil && h != v.GetHash() {
				w.masks |= mStaleHash
				w.staleHash[v.GetKind()+"\x00"+v.GetName()] = true
			}
		case string:
			if table == "peering-secret-uuids" {
				uuids = append(uuids, v)
			}
		case *structs.GatewayService:
			w.masks |= mGatewayStamp
			w.gwNames[strings.ToLower(v.Gateway.Name)] = true
			w.gwNames[strings.ToLower(v.Service.Name)] = true
			if v.FromWildcard || v.Service.Name == structs.WildcardSpecifier {
				w.masks |= mWildcardUnbacked
				w.gwAll = true
			}
		case *state.KindServiceName:
			if !env.kinds[strings.ToLower(string(v.Kind)+"\x00"+v.Service.Name)] {
				// (a "destination" row is backed by its service-defaults entry; an unbacked one used to
				// stay behind when the entry lost its Destination: repaired by 0d0f3e6, so it is
				// never rendered leniently and a difference there is a violation)
				if v.Kind != structs.ServiceKindDestination && renamed {
					w.masks |= mStaleKindName
					w.staleKinds[strings.ToLower(string(v.Kind))] = true
				}
			}
		case *pbpeering.Peering:
			peerings[v.ID] = true
			if v.ShouldDial() {
				dialing[v.ID] = true
			}
		case *pbpeering.PeeringSecrets:
			secrets = append(secrets, v)
		default:
			switch table {
			case "mesh-topology":
				rv := reflect.Indirect(reflect.ValueOf(item))
				if rv.FieldByName("Refs").Len() > 0 {
					up := strings.ToLower(rv.FieldByName("Upstream").FieldByName("Name").String())
					down := strings.ToLower(rv.FieldByName("Downstream").FieldByName("Name").String())
					w.masks |= mTopologyStamp
					w.topoNames[up], w.topoNames[down] = true, true
					rowPairs[up+"\x00"+down] = true
					if !env.pairs[up+"\x00"+down] {
						w.leftover[up], w.leftover[down] = true, true
					}
				}
			case "usage":
				ue := reflect.Indirect(reflect.ValueOf(item))
				usage = append(usage, usageRow{ue.FieldByName("ID").String(), ue.FieldByName("Index").Uint(), ue.FieldByName("Count").Int()})
			}
		}
		return true
	})
	expect := idx["nodes"]
	for _, k := range []string{"services", "kvs"} {
		if idx[k] > expect {
			expect = idx[k]
		}
	}
	for _, u := range usage {
		if u.cnt == 0 || u.idx != expect {
			w.masks |= mUsage
			w.usageRows[u.id] = true
		}
	}
	for p := range env.pairs {
		if !rowPairs[p] {
			// a registered proxy declares the pair, yet no row records it (another instance dropping
			// the upstream deleted the whole row)
			w.masks |= mTopologyStamp
			w.missing[p] = true
			ud := strings.SplitN(p, "\x00", 2)
			w.topoNames[ud[0]], w.topoNames[ud[1]] = true, true
			w.leftover[ud[0]], w.leftover[ud[1]] = true, true
		}
	}
	// the ids a restore records: those of the secrets rows of peerings that do not dial
	held := map[string]bool{}
	listed := map[string]bool{}
	for _, id := range uuids {
		listed[id] = true
	}
	for _, s := range secrets {
		if dialing[s.PeerID] {
			continue
		}
		for _, id := range []string{s.GetEstablishment().GetSecretID(), s.GetStream().GetPendingSecretID(), s.GetStream().GetActiveSecretID()} {
			held[id] = true
			if id != "" && !listed[id] && peerings[s.PeerID] {
				// (a row WITHOUT a peering is the orphan finding)
				w.masks |= mUnheldUUID
				w.unlisted[strconv.Quote(id)] = true
			}
		}
	}
	for _, id := range uuids {
		if !held[id] {
			w.masks |= mUnheldUUID
			w.unheldIDs[strconv.Quote(id)] = true
		}
	}
	for _, s := range secrets {
		if !peerings[s.PeerID] {
			w.masks |= mOrphanSecret
			for _, id := range []string{s.GetEstablishment().GetSecretID(), s.GetStream().GetPendingSecretID(), s.GetStream().GetActiveSecretID()} {
				if id != "" {
					w.orphanIDs[strconv.Quote(id)] = true
				}
			}
		}
	}
	return w
}

// indexRowRule: the finding (if its witness holds) that explains a difference in an index-table row.
func (w *witness) indexRowRule(key string) maskSet {
	switch {
	case strings.HasPrefix(key, "kind_service_names."):
		kind := strings.ToLower(strings.TrimPrefix(key, "kind_service_names."))
		if kind == "typical" {
			kind = "" // structs.ServiceKindTypical is the empty string; the index row spells it out
		}
		if kind != string(structs.ServiceKindDestination) && w.has(mStaleKindName) && w.staleKinds[kind] {
			return mStaleKindName
		}
	case key == "gateway-services":
		if w.has(mGatewayStamp) {
			return mGatewayStamp
		}
	case key == "mesh-topology":
		if w.has(mGatewayStamp) {
			return mGatewayStamp
		}
		if w.has(mTopologyStamp) {
			return mTopologyStamp
		}
	case key == "checks" || strings.HasSuffix(key, ":checks"):
		// after a suffix: a registration repeating a stale check rewrites it on the donor only
		if w.suffix && w.has(mCheckRefresh) {
			return mCheckRefresh
		}
	default:
		// "peer.~:service.<name>": bumped when a check carrying that name is rewritten or deleted
		if i := strings.Index(key, ":service."); i >= 0 && w.has(mCheckRefresh) && w.staleNames[strings.ToLower(key[i+len(":service."):])] {
			return mCheckRefresh
		}
		if strings.HasPrefix(key, "service.") && w.has(mCheckRefresh) && w.staleNames[strings.ToLower(strings.TrimPrefix(key, "service."))] {
			return mCheckRefresh
		}
	}
	return 0
}

// ---------------------------------------------------------------- table dumps

type storeDump struct {
	items    map[string][]interface{}
	strict   tableDump
	usageRaw []string
	rows     int
	env      *storeEnv
}

func renderRow(c *canonCtx, table string, item interface{}) string {
	var row interface{} = item
	if table == "prepared-queries" {
		// *queryWrapper{*structs.PreparedQuery; ct *CompiledTemplate}
		rv := reflect.Indirect(reflect.ValueOf(item))
		row = struct {
			Query    interface{}
			Compiled bool
		}{rv.FieldByName("PreparedQuery").Interface(), !rv.FieldByName("ct").IsNil()}
	}
	var sb strings.Builder
	c.walk(reflect.ValueOf(row), &sb, 0, projectedFields[table])
	return sb.String()
}

func dumpStore(st *state.Store) *storeDump {
	d := &storeDump{items: map[string][]interface{}{}, strict: tableDump{}, env: envOf(st)}
	sc := &canonCtx{}
	st.WalkAllTables(func(table string, item interface{}) bool {
		d.rows++
		d.items[table] = append(d.items[table], item)
		if table == "usage" {
			ue := reflect.Indirect(reflect.ValueOf(item))
			d.usageRaw = append(d.usageRaw, fmt.Sprintf("%s index=%d count=%d", ue.FieldByName("ID").String(), ue.FieldByName("Index").Uint(), ue.FieldByName("Count").Int()))
		}
		d.strict[table] = append(d.strict[table], renderRow(sc, table, item))
		return true
	})
	for t := range d.strict {
		sort.Strings(d.strict[t])
	}
	sort.Strings(d.usageRaw)
	return d
}

// lenient: the rows of a table as the findings whose witness holds allow them to be.
// [refresh]: re-copy the check's service fields (the donor side always; the restored side only
// after a suffix, when both sides may have created the same new stale checks).
func (d *storeDump) lenient(table string, w *witness, refresh bool) []string {
	c := w.ctx(d.env, refresh)
	var out []string
	for _, item := range d.items[table] {
		switch table {
		case "usage":
			ue := reflect.Indirect(reflect.ValueOf(item))
			id := ue.FieldByName("ID").String()
			if w.has(mNameSpelling) && id == "service-names" {
				continue // how many names there are depends on which spellings count as one
			}
			if w.has(mUsage) && w.usageRows[id] {
				// only the rows the witness names: index not compared, a zero count is no row
				if cnt := ue.FieldByName("Count").Int(); cnt != 0 {
					out = append(out, fmt.Sprintf("{ID:%q,Count:%d}", id, cnt))
				}
				continue
			}
		case "index":
			ie := item.(*state.IndexEntry)
			if w.indexRowRule(ie.Key) != 0 {
				// attributed to a finding whose witness holds: neither value nor presence compared
			} else {
				out = append(out, fmt.Sprintf("{Key:%q,Value:%d}", ie.Key, ie.Value))
			}
			continue
		case "gateway-services":
			if w.has(mWildcardUnbacked) && c.unbackedWildcard(reflect.ValueOf(item)) {
				continue
			}
		case "mesh-topology":
			rv := reflect.Indirect(reflect.ValueOf(item))
			if rv.FieldByName("Refs").Len() == 0 {
				// a row derived from a gateway mapping
				if w.has(mWildcardUnbacked) {
					continue
				}
			} else if w.has(mTopologyStamp) {
				up := strings.ToLower(rv.FieldByName("Upstream").FieldByName("Name").String())
				down := strings.ToLower(rv.FieldByName("Downstream").FieldByName("Name").String())
				if !d.env.pairs[up+"\x00"+down] {
					continue // left over from a proxy's previous destination
				}
				if w.missing[up+"\x00"+down] {
					continue // the donor lost this row when another instance dropped the upstream
				}
			}
		case "kind-service-names":
			ksn := item.(*state.KindServiceName)
			if !d.env.kinds[strings.ToLower(string(ksn.Kind)+"\x00"+ksn.Service.Name)] {
				if ksn.Kind != structs.ServiceKindDestination && w.has(mStaleKindName) && w.staleKinds[strings.ToLower(string(ksn.Kind))] {
					continue
				}
			}
		case "peering-secret-uuids":
			if id, ok := item.(string); ok && w.has(mOrphanSecret) && w.orphanIDs[strconv.Quote(id)] {
				continue
			}
			if id, ok := item.(string); ok && w.has(mUnheldUUID) && (w.unheldIDs[strconv.Quote(id)] || w.unlisted[strconv.Quote(id)]) {
				continue
			}
		}
		out = append(out, renderRow(c, table, item))
	}
	sort.Strings(out)
	return out
}

func sameRows(a, b []string) bool {
	if len(a) != len(b) {
		return false
	}
	for i := range a {
		if a[i] != b[i] {
			return false
		}
	}
	return true
}

func known(m maskSet) map[string]any {
	return map[string]any{"kind": maskKind[m], "witness": witnessName[m]}
}

// tableFinding: the finding a lenient-only difference of a table belongs to.
func tableFinding(d tableDiff, w *witness) maskSet {
	switch d.Table {
	case "usage":
		if w.has(mNameSpelling) && strings.Contains(d.Donor+d.Other, `"service-names"`) && (!w.has(mUsage) || strings.Contains(d.Donor+d.Other, "Count")) {
			return mNameSpelling
		}
		return mUsage
	case "services":
		return mNodeSpelling
	case "config-entries":
		return mStaleHash
	case "checks":
		return mCheckRefresh
	case "gateway-services":
		if d.NDonor != d.NOther && w.has(mWildcardUnbacked) {
			return mWildcardUnbacked
		}
		return mGatewayStamp
	case "mesh-topology":
		if d.NDonor != d.NOther && w.has(mWildcardUnbacked) && !w.has(mTopologyStamp) {
			return mWildcardUnbacked
		}
		if w.has(mTopologyStamp) {
			return mTopologyStamp
		}
		if w.has(mWildcardUnbacked) {
			return mWildcardUnbacked
		}
		return mGatewayStamp
	case "peering-secret-uuids":
		if w.has(mUnheldUUID) && !w.has(mOrphanSecret) {
			return mUnheldUUID
		}
		if w.has(mUnheldUUID) {
			for _, ids := range []map[string]bool{w.unheldIDs, w.unlisted} {
				for q := range ids {
					if strings.Contains(d.Donor+d.Other, q) {
						return mUnheldUUID
					}
				}
			}
		}
		return mOrphanSecret
	case "kind-service-names":
		if w.has(mNameSpelling) && !w.has(mStaleKindName) {
			return mNameSpelling
		}
		return mStaleKindName
	}
	return 0
}

// compareDumps: strict equality; else equality under the renderings the cut's witness allows
// (a known finding, named with its witness); else a violation.
// [suffix]: the comparison is made after commands were applied to both stores.
func compareDumps(cut int, stage string, a, b *storeDump, w *witness, suffix bool) []Failure {
	var out []Failure
	for _, d := range diffTables(a.strict, b.strict) {
		la, lb := a.lenient(d.Table, w, true), b.lenient(d.Table, w, suffix)
		if d.Table == "index" {
			bad := diffIndexKeys(la, lb)
			for _, key := range bad {
				out = append(out, Failure{Cut: cut, Stage: stage, Signature: map[string]any{"kind": "index-row-differs", "key": indexKeyClass(key)},
					Detail: "index table row " + key + " differs after restore", Tables: []tableDiff{d}})
			}
			seen := map[maskSet]bool{}
			for _, key := range diffIndexKeys(a.strict["index"], b.strict["index"]) {
				if m := w.indexRowRule(strings.SplitN(key, "(", 2)[0]); m != 0 && !seen[m] {
					seen[m] = true
					out = append(out, Failure{Cut: cut, Stage: stage, Signature: known(m), Detail: "index table row " + key, Tables: []tableDiff{d}})
				}
			}
			continue
		}
		if !sameRows(la, lb) {
			ld := diffTables(tableDump{d.Table: la}, tableDump{d.Table: lb})
			out = append(out, Failure{Cut: cut, Stage: stage, Signature: map[string]any{"kind": "table-differs", "table": d.Table},
				Detail: "canonical dump of table " + d.Table + " differs (" + stage + ")", Tables: ld})
			continue
		}
		m := tableFinding(d, w)
		if m == 0 {
			out = append(out, Failure{Cut: cut, Stage: stage, Signature: map[string]any{"kind": "table-differs", "table": d.Table},
				Detail: "strict rendering differs although the lenient one is equal (no finding covers this table)", Tables: []tableDiff{d}})
			continue
		}
		f := Failure{Cut: cut, Stage: stage, Signature: known(m), Detail: "table " + d.Table, Tables: []tableDiff{d}}
		if d.Table == "usage" {
			f.Extra = map[string]string{"donor": strings.Join(a.usageRaw, "; "), "restored": strings.Join(b.usageRaw, "; ")}
		}
		out = append(out, f)
	}
	return out
}

// ---------------------------------------------------------------- read queries

type queryResult struct {
	name   string
	idx    uint64
	err    string
	res    interface{}
	env    *storeEnv
	strict string
}

// kindNames: the result of ServiceNamesOfKind with, per name, whether an instance backs it.
type kindNames struct {
	Names  []string
	Backed []bool
}

func sortCSN(l structs.CheckServiceNodes) {
	c := &canonCtx{}
	keys := make([]string, len(l))
	for i := range l {
		keys[i] = c.render(l[i])
	}
	sort.Sort(&csnSorter{l, keys})
}

type csnSorter struct {
	l    structs.CheckServiceNodes
	keys []string
}

func (s *csnSorter) Len() int           { return len(s.l) }
func (s *csnSorter) Less(i, j int) bool { return s.keys[i] < s.keys[j] }
func (s *csnSorter) Swap(i, j int) {
	s.l[i], s.l[j] = s.l[j], s.l[i]
	s.keys[i], s.keys[j] = s.keys[j], s.keys[i]
}

// queryRule: for one query, the findings (witness permitting) that may change its reported
// index, and the finding that may change its result beyond what the row renderings cover.
func queryRule(name string, w *witness) (idxMasks maskSet, resultMask maskSet) {
	if w == nil {
		return 0, 0
	}
	parts := strings.Split(name, ":")
	fam, arg := parts[0], ""
	if len(parts) > 1 {
		arg = strings.ToLower(parts[1])
	}
	gw := w.has(mGatewayStamp) && (w.gwAll || w.gwNames[arg])
	switch fam {
	case "ServiceUsage", "NodeUsage", "PeeringUsage", "KVUsage", "ConfigEntryUsage":
		if w.has(mUsage) {
			idxMasks |= mUsage
		}
		if fam == "ServiceUsage" && w.has(mNameSpelling) {
			idxMasks |= mNameSpelling
		}
	case "NodeChecks", "ChecksInState", "NodeDump", "ServiceDump":
		// their index is (or includes) the checks table's index row
		if w.suffix && w.has(mCheckRefresh) {
			idxMasks |= mCheckRefresh
		}
	case "ServiceChecks":
		if w.suffix && w.has(mCheckRefresh) {
			idxMasks |= mCheckRefresh // a name without instances reports the checks table's index
		}
		if w.has(mCheckRefresh) && w.staleNames[arg] {
			idxMasks |= mCheckRefresh
			resultMask = mCheckRefresh // the check is listed under the name it carries
		}
	case "ServiceNodes", "CheckServiceNodes":
		if w.has(mCheckRefresh) && w.staleNames[arg] {
			idxMasks |= mCheckRefresh
		}
	case "CheckConnectServiceNodes":
		if w.has(mCheckRefresh) && w.staleNames[arg] {
			idxMasks |= mCheckRefresh
		}
		if gw {
			idxMasks |= mGatewayStamp
		}
	case "GatewayServices":
		// the index of an empty answer is the gateway-services table's index row, which diverges
		// once a restored row already equals what a later registration would write
		if w.has(mGatewayStamp) {
			idxMasks |= mGatewayStamp
		}
	case "DumpGatewayServices":
		if w.has(mGatewayStamp) {
			idxMasks |= mGatewayStamp
		}
	case "ServiceTopology":
		if gw {
			idxMasks |= mGatewayStamp
		}
		if w.has(mTopologyStamp) && w.topoNames[arg] {
			idxMasks |= mTopologyStamp
		}
		switch {
		case w.has(mNameSpelling):
			resultMask = mNameSpelling // ... in whichever spelling the kind-service-names row has
		case w.has(mStaleKindName):
			resultMask = mStaleKindName // intention-derived up/downstreams range over the kind-service-names rows
		case w.has(mWildcardUnbacked):
			resultMask = mWildcardUnbacked // upstream/downstream sets are read off wildcard-derived rows
		case w.has(mTopologyStamp) && w.leftover[arg]:
			resultMask = mTopologyStamp // ... and off left-over proxy rows
		}
	case "ServiceNamesOfKind":
		if arg != string(structs.ServiceKindDestination) && w.has(mStaleKindName) && w.staleKinds[arg] {
			idxMasks |= mStaleKindName
		}
	}
	return idxMasks, resultMask
}

// render: the query's result and index as the findings whose witness holds allow them to be.
func (q *queryResult) render(w *witness, refresh bool) string {
	c := w.ctx(q.env, refresh)
	idxMasks, resultMask := queryRule(q.name, w)
	if resultMask != 0 {
		return "idx=* (result masked: " + maskKind[resultMask] + ")"
	}
	idx := fmt.Sprintf("idx=%d", q.idx)
	if idxMasks != 0 {
		idx = "idx=*"
	}
	if kn, ok := q.res.(kindNames); ok {
		var names []string
		for i, n := range kn.Names {
			if w.has(mNameSpelling) && w.variants[strings.ToLower(n)] {
				n = strings.ToLower(n)
			}
			if idxMasks&mStaleKindName == 0 || kn.Backed[i] {
				names = append(names, n)
			}
		}
		return fmt.Sprintf("%s%s %s", idx, q.err, c.render(names))
	}
	return fmt.Sprintf("%s%s %s", idx, q.err, c.render(q.res))
}

func compareQueries(cut int, stage string, a, b []queryResult, w *witness, suffix bool) []Failure {
	var out []Failure
	if len(a) != len(b) {
		return []Failure{{Cut: cut, Stage: stage, Signature: map[string]any{"kind": "query-list-length"}, Detail: "query lists differ in length"}}
	}
	found := map[maskSet]string{}
	bad := 0
	for i := range a {
		if a[i].strict == b[i].strict {
			continue
		}
		la, lb := a[i].render(w, true), b[i].render(w, suffix)
		if la != lb {
			bad++
			if bad <= 4 {
				out = append(out, Failure{Cut: cut, Stage: stage, Signature: map[string]any{"kind": "query-differs", "query": strings.SplitN(a[i].name, ":", 2)[0]},
					Detail: "query " + a[i].name, Extra: map[string]string{"donor": clip(la), "restored": clip(lb)}})
			}
			continue
		}
		// which findings are needed to explain the difference
		needed := false
		for _, m := range maskList {
			if !w.has(m) {
				continue
			}
			wm := w.without(m)
			if a[i].render(wm, true) != b[i].render(wm, suffix) {
				needed = true
				if _, ok := found[m]; !ok {
					found[m] = fmt.Sprintf("query %s: index %d before, %d after restore", a[i].name, a[i].idx, b[i].idx)
				}
			}
		}
		if !needed {
			// several findings each suffice: attribute to the first in maskList order that does alone
			for _, m := range maskList {
				if !w.has(m) {
					continue
				}
				only := *w
				only.masks = m
				if a[i].render(&only, true) == b[i].render(&only, suffix) {
					if _, ok := found[m]; !ok {
						found[m] = fmt.Sprintf("query %s: index %d before, %d after restore", a[i].name, a[i].idx, b[i].idx)
					}
					break
				}
			}
		}
	}
	for _, m := range maskList {
		if d, ok := found[m]; ok {
			out = append(out, Failure{Cut: cut, Stage: stage, Signature: known(m), Detail: d})
		}
	}
	return out
}
