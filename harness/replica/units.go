// Unit mode (-units): drives, one at a time, the real code of the handlers that range over Go maps and
// writes what went in and what came out in the vocabulary of coq/FSM/Model.v, so that each model is
// evaluated against the implementation (Run/C01.v ucheck / tcheck / gcheck / hcheck / mcheck / jcheck):
//
//	usage           writeUsageDeltas (hook) on a store with usage rows
//	topo            updateMeshTopology through real proxy registrations (first and changed upstream lists)
//	tagged-register ensureServiceTxn: a terminating-gateway instance registered while a gateway config
//	                entry links services (virtual addresses merged into the requested tagged addresses)
//	tagged-config   updateTerminatingGatewayVirtualIPs: the gateway's config entry rewritten
//	meta            structs.ValidateServiceMetadata (the call ensureServiceTxn makes)
//	jwt             validateJWTProvider (hook)
//
// The expected values the harness records come from exported read functions and from the inputs, never
// from the loops under test.
package main

import (
	"fmt"
	"math/rand"
	"regexp"
	"sort"
	"strings"

	"github.com/hashicorp/raft"

	"github.com/hashicorp/consul/agent/consul/state"
	"github.com/hashicorp/consul/agent/structs"
)

type Addr struct {
	Key  string `json:"key"`
	Addr string `json:"addr"`
	Port int    `json:"port"`
}

type Unit struct {
	Kind string `json:"kind"`
	Idx  uint64 `json:"idx,omitempty"`
	// usage
	Deltas  [][2]interface{} `json:"deltas,omitempty"`  // key, delta
	UBefore [][3]interface{} `json:"ubefore,omitempty"` // key, count, index
	UAfter  [][3]interface{} `json:"uafter,omitempty"`
	// topo
	Ds          string      `json:"ds,omitempty"`
	News        []string    `json:"news"`
	Old         []string    `json:"old"`
	RowsBefore  [][2]string `json:"rows_before"`
	IndexBefore uint64      `json:"index_before"`
	RowsAfter   [][2]string `json:"rows_after"`
	IndexAfter  uint64      `json:"index_after"`
	// tagged
	Requested []Addr `json:"requested"`
	Addrs     []Addr `json:"addrs"`
	Existing  []Addr `json:"existing"`
	Result    []Addr `json:"result"`
	// meta
	Pairs [][2]string `json:"pairs"`
	Bad   []string    `json:"bad"`
	Named *[2]string  `json:"named,omitempty"`
	// jwt
	Known      []string `json:"known"`
	Referenced []string `json:"referenced"`
	Lines      []string `json:"lines"`
}

func usageRows(st *state.Store) [][3]interface{} {
	out := [][3]interface{}{}
	st.WalkAllTables(func(table string, item interface{}) bool {
		if u, ok := item.(*state.UsageEntry); ok {
			out = append(out, [3]interface{}{u.ID, u.Count, u.Index})
		}
		return true
	})
	sort.Slice(out, func(i, j int) bool { return out[i][0].(string) < out[j][0].(string) })
	return out
}

func topoRows(st *state.Store) ([][2]string, uint64) {
	rows := [][2]string{}
	var idx uint64
	st.WalkAllTables(func(table string, item interface{}) bool {
		if table == "mesh-topology" {
			// *upstreamDownstream is unexported: read the two names through the canonical text
			txt := canon(item)
			m := topoRe.FindStringSubmatch(txt)
			if m == nil {
				panic("cannot read mesh-topology row: " + txt)
			}
			rows = append(rows, [2]string{m[1], m[2]})
		}
		if ie, ok := item.(*state.IndexEntry); ok && ie.Key == "mesh-topology" {
			idx = ie.Value
		}
		return true
	})
	sort.Slice(rows, func(i, j int) bool { return rows[i][0]+"\x00"+rows[i][1] < rows[j][0]+"\x00"+rows[j][1] })
	return rows, idx
}

var topoRe = regexp.MustCompile(`Upstream:\{Name:"([^"]*)",EnterpriseMeta:\{\}\},Downstream:\{Name:"([^"]*)"`)
var metaErrRe = regexp.MustCompile(`^Couldn't load metadata pair \('(.*)', '(.*)'\): `)

func applyMsg(r *replica, idx uint64, t structs.MessageType, msg interface{}) interface{} {
	data, err := structs.Encode(t, msg)
	if err != nil {
		panic(err)
	}
	return r.rf.Apply(&raft.Log{Index: idx, Term: 1, Type: raft.LogCommand, Data: data})
}

func addrsOf(m map[string]structs.ServiceAddress) []Addr {
	out := []Addr{}
	for k, v := range m {
		out = append(out, Addr{k, v.Address, v.Port})
	}
	sort.Slice(out, func(i, j int) bool { return out[i].Key < out[j].Key })
	return out
}

func units(seed int64, n int, emit func(interface{})) {
	rng := rand.New(rand.NewSource(seed))
	pick := func(xs []string) string { return xs[rng.Intn(len(xs))] }
	subset := func(xs []string, max int) []string {
		k := rng.Intn(max + 1)
		perm := rng.Perm(len(xs))
		out := []string{}
		for i := 0; i < k && i < len(xs); i++ {
			out = append(out, xs[perm[i]])
		}
		return out
	}
	usageKeys := []string{"nodes", "services", "service-names", "kvs", "peering", "billable-services", "connect-native", "connect-proxy"}
	svcs := []string{"web", "db", "api", "cache", "WEB", "a-b", "a.b"}
	metaKeys := []string{"version", "env", "bad key!", "also bad?", "third bad,", "consul-reserved", strings.Repeat("k", 130), "ok_key-1"}

	for i := 0; i < n; i++ {
		// ---------------- usage
		{
			r := newReplica()
			st := r.store()
			idx := uint64(5)
			pre := map[string]int{}
			for _, k := range subset(usageKeys, 5) {
				pre[k] = rng.Intn(4)
			}
			if err := st.VerifC01WriteUsageDeltas(idx, pre); err != nil {
				panic(err)
			}
			idx += uint64(1 + rng.Intn(3))
			d := map[string]int{}
			for _, k := range subset(usageKeys, 6) {
				d[k] = rng.Intn(7) - 3
			}
			u := Unit{Kind: "usage", Idx: idx, UBefore: usageRows(st)}
			ks := []string{}
			for k := range d {
				ks = append(ks, k)
			}
			sort.Strings(ks)
			for _, k := range ks {
				u.Deltas = append(u.Deltas, [2]interface{}{k, d[k]})
			}
			if err := st.VerifC01WriteUsageDeltas(idx, d); err != nil {
				panic(err)
			}
			u.UAfter = usageRows(st)
			emit(u)
			r.close()
		}
		// ---------------- mesh topology
		{
			r := newReplica()
			idx := uint64(1)
			applyMsg(r, idx, structs.RegisterRequestType, &structs.RegisterRequest{Datacenter: "dc1", Node: "n1", Address: "10.0.0.1"})
			proxy := func(id, dest string, ups []string) {
				ns := &structs.NodeService{Kind: structs.ServiceKindConnectProxy, ID: id, Service: dest + "-sidecar-proxy", Port: 21000,
					Proxy: structs.ConnectProxyConfig{DestinationServiceName: dest}}
				for j, u := range ups {
					ns.Proxy.Upstreams = append(ns.Proxy.Upstreams, structs.Upstream{DestinationName: u, LocalBindPort: 9000 + j})
				}
				idx++
				if out := applyMsg(r, idx, structs.RegisterRequestType, &structs.RegisterRequest{Datacenter: "dc1", Node: "n1", Address: "10.0.0.1", Service: ns}); out != nil {
					panic(fmt.Sprint("proxy registration failed: ", out))
				}
			}
			// a bystander proxy of another service
			proxy("other-proxy", pick(svcs[:4]), subset(svcs[:4], 2))
			ds := pick(svcs[:4])
			old := []string{}
			for round := 0; round < 3; round++ {
				news := subset(svcs, 4)
				rb, ib := topoRows(r.store())
				proxy("p1", ds, news)
				ra, ia := topoRows(r.store())
				so := append([]string{}, old...)
				sort.Strings(so)
				emit(Unit{Kind: "topo", Idx: idx, Ds: ds, News: news, Old: so, RowsBefore: rb, IndexBefore: ib, RowsAfter: ra, IndexAfter: ia})
				// the previous registration's upstreams, as a set
				seen := map[string]bool{}
				old = old[:0]
				for _, u := range news {
					if !seen[u] {
						seen[u] = true
						old = append(old, u)
					}
				}
			}
			r.close()
		}
		// ---------------- tagged addresses of a terminating gateway
		{
			r := newReplica()
			idx := uint64(0)
			next := func() uint64 { idx++; return idx }
			applyMsg(r, next(), structs.SystemMetadataRequestType, &structs.SystemMetadataRequest{Op: structs.SystemMetadataUpsert,
				Entry: &structs.SystemMetadataEntry{Key: structs.SystemMetadataVirtualIPsEnabled, Value: "true"}})
			applyMsg(r, next(), structs.SystemMetadataRequestType, &structs.SystemMetadataRequest{Op: structs.SystemMetadataUpsert,
				Entry: &structs.SystemMetadataEntry{Key: structs.SystemMetadataTermGatewayVirtualIPsEnabled, Value: "true"}})
			applyMsg(r, next(), structs.RegisterRequestType, &structs.RegisterRequest{Datacenter: "dc1", Node: "n1", Address: "10.0.0.1"})
			gwConf := func(linked []string) {
				e := &structs.TerminatingGatewayConfigEntry{Kind: structs.TerminatingGateway, Name: "tgw"}
				for _, s := range linked {
					e.Services = append(e.Services, structs.LinkedService{Name: s})
				}
				if err := e.Normalize(); err != nil {
					panic(err)
				}
				if out := applyMsg(r, next(), structs.ConfigEntryRequestType, &structs.ConfigEntryRequest{Op: structs.ConfigEntryUpsert, Entry: e}); out != true {
					panic(fmt.Sprint("gateway config failed: ", out))
				}
			}
			expectAddrs := func(linked []string) []Addr {
				m := map[string]structs.ServiceAddress{}
				for _, s := range linked {
					sn := structs.NewServiceName(s, nil)
					vip, err := r.store().VirtualIPForService(structs.PeeredServiceName{ServiceName: sn})
					if err != nil || vip == "" {
						panic(fmt.Sprint("no virtual IP for linked service ", s, err))
					}
					m[structs.ServiceGatewayVirtualIPTag(sn)] = structs.ServiceAddress{Address: vip}
				}
				return addrsOf(m)
			}
			instTagged := func() []Addr {
				_, ns, err := r.store().NodeService(nil, "n1", "tgw1", nil, "")
				if err != nil || ns == nil {
					panic("gateway instance missing")
				}
				return addrsOf(ns.TaggedAddresses)
			}
			linked := subset(svcs[:4], 3)
			gwConf(linked)
			req := map[string]structs.ServiceAddress{}
			for _, k := range subset([]string{"lan", "wan", "lan_ipv4", "custom", "consul-virtual:stale"}, 3) {
				req[k] = structs.ServiceAddress{Address: fmt.Sprintf("10.1.0.%d", 1+rng.Intn(3)), Port: 8443}
			}
			var ta map[string]structs.ServiceAddress
			if len(req) > 0 || rng.Intn(2) == 0 {
				ta = map[string]structs.ServiceAddress{}
				for k, v := range req {
					ta[k] = v
				}
			}
			if out := applyMsg(r, next(), structs.RegisterRequestType, &structs.RegisterRequest{Datacenter: "dc1", Node: "n1", Address: "10.0.0.1",
				Service: &structs.NodeService{Kind: structs.ServiceKindTerminatingGateway, ID: "tgw1", Service: "tgw", Port: 8443, TaggedAddresses: ta}}); out != nil {
				panic(fmt.Sprint("gateway registration failed: ", out))
			}
			emit(Unit{Kind: "tagged-register", Requested: addrsOf(req), Addrs: expectAddrs(linked), Result: instTagged()})
			for round := 0; round < 2; round++ {
				before := instTagged()
				prev := append([]string{}, linked...)
				sort.Strings(prev)
				linked = subset(svcs[:4], 3)
				now := append([]string{}, linked...)
				sort.Strings(now)
				gwConf(linked)
				// updateGatewayServices returns before the handler when the set of linked services is unchanged
				if strings.Join(prev, ",") != strings.Join(now, ",") {
					emit(Unit{Kind: "tagged-config", Existing: before, Addrs: expectAddrs(linked), Result: instTagged()})
				}
			}
			r.close()
		}
		// ---------------- service metadata
		for k := 0; k < 4; k++ {
			meta := map[string]string{}
			u := Unit{Kind: "meta", Pairs: [][2]string{}, Bad: []string{}}
			for _, key := range subset(metaKeys, 5) {
				v := pick([]string{"v", "", strings.Repeat("x", 600)})
				meta[key] = v
			}
			ks := []string{}
			for key := range meta {
				ks = append(ks, key)
			}
			sort.Strings(ks)
			for _, key := range ks {
				u.Pairs = append(u.Pairs, [2]string{key, meta[key]})
				if structs.ValidateServiceMetadata("", map[string]string{key: meta[key]}, false) != nil {
					u.Bad = append(u.Bad, key)
				}
			}
			if err := structs.ValidateServiceMetadata("", meta, false); err != nil {
				m := metaErrRe.FindStringSubmatch(err.Error())
				if m == nil {
					panic("unexpected metadata error: " + err.Error())
				}
				u.Named = &[2]string{m[1], m[2]}
			}
			emit(u)
		}
		// ---------------- JWT providers
		for k := 0; k < 4; k++ {
			provs := []string{"okta", "auth0", "keycloak", "Okta", "a", "zeta"}
			u := Unit{Kind: "jwt", Known: subset(provs, 3), Referenced: subset(provs, 5), Lines: []string{}}
			sort.Strings(u.Known)
			sort.Strings(u.Referenced)
			txt := state.VerifC01ValidateJWTProvider(u.Known, u.Referenced)
			for _, l := range strings.Split(txt, "\n") {
				const p = "* Referenced JWT Provider does not exist. Provider Name: "
				if j := strings.Index(l, p); j >= 0 {
					u.Lines = append(u.Lines, l[j+len(p):])
				}
			}
			emit(u)
		}
	}
}
