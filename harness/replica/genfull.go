package main

import (
	"math/rand"

	"github.com/hashicorp/consul/agent/consul/fsm"
	"github.com/hashicorp/consul/agent/netutil"
)

func initEnv() {
	// identical configuration on every replica: the bind-address family decides how virtual IPs are
	// rendered (netutil.IsDualStack inside addIPOffset would otherwise call the local agent over HTTP)
	netutil.GetAgentBindAddrFunc = netutil.GetMockGetAgentBindAddrFunc("0.0.0.0")
}

func typesReport() (map[string]interface{}, []int) {
	reg := fsm.VerifRegisteredTypes()
	var missing []int
	types := []int{}
	for _, t := range reg {
		types = append(types, int(t))
	}
	return map[string]interface{}{"registered": types}, missing
}

func generate(seed int64, tier string, n int, emit func(interface{})) {
	rng := rand.New(rand.NewSource(seed))
	mixes := []string{"kv", "session", "txn"}
	for i := 0; i < n; i++ {
		r := newReplica()
		g := &coreGen{rng: rand.New(rand.NewSource(rng.Int63())), r: r, mix: mixes[i%3]}
		h := History{ID: i, Profile: "core-" + g.mix}
		ln := 1 + rng.Intn(30)
		for k := 0; k < ln; k++ {
			c := g.next()
			e := coreEntry(&c)
			r.applyEntry(&e)
			h.Entries = append(h.Entries, e)
		}
		r.close()
		emit(h)
	}
}
