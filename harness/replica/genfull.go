// The full log generator: every message type registered in fsm's `commands` map, built the way the
// leader builds it (endpoint pre-apply steps: Normalize / Validate / SetHash, ID and timestamp
// assignment, defaults), accepted and rejected commands, against a live FSM so that references
// (CAS indexes, IDs, links) are mostly valid. All randomness comes from the one seed.
package main

import (
	"encoding/hex"
	"fmt"
	"math/rand"
	"sort"
	"time"

	"github.com/hashicorp/consul/agent/consul/fsm"
	"github.com/hashicorp/consul/agent/netutil"
	"github.com/hashicorp/consul/agent/structs"
	"github.com/hashicorp/consul/api"
	"github.com/hashicorp/consul/types"
	"google.golang.org/protobuf/proto"
)

func initEnv() {
	// identical configuration on every replica: the bind-address family decides how virtual IPs are
	// rendered (netutil.IsDualStack inside addIPOffset would otherwise call the local agent over HTTP)
	netutil.GetAgentBindAddrFunc = netutil.GetMockGetAgentBindAddrFunc("0.0.0.0")
}

// ---------------------------------------------------------------- universe of the full profile

var (
	fNodes    = []string{"n1", "n2", "n3", "N1"}
	fSvcNames = []string{"web", "db", "api", "cache"}
	fPeers    = []string{"peer-a", "peer-b"}
	fPeerIDs  = map[string]string{"peer-a": "aaaa1111-0000-0000-0000-000000000001", "peer-b": "bbbb2222-0000-0000-0000-000000000002"}
	fDCs      = []string{"dc1", "dc2", "dc3"}
	fIPs      = []string{"240.0.0.1", "240.0.0.2", "240.0.0.3", "240.0.0.4", "2001:db8::1"}
	fMetaKeys = []string{"version", "env", "team", "zone", "rack"}
	fUUIDs    = func() []string {
		out := []string{}
		for i := 1; i <= 6; i++ {
			out = append(out, fmt.Sprintf("%08d-1111-2222-3333-%012d", i, i))
		}
		return out
	}()
	baseTime = time.Date(2024, 3, 1, 12, 0, 0, 0, time.UTC)
	wallNow  int64 // -now-unix: real time at generation (0 = not given; the log then depends on the seed only)
)

type fullGen struct {
	rng  *rand.Rand
	r    *replica
	idx  uint64
	core *coreGen
	opn  uint64 // chunking op numbers
	// graph: the service-graph / gateway directed profile (long histories dominated by config entries,
	// proxies and gateways, so that discovery chains, gateway mappings and virtual IPs pile up and single
	// writes touch several of them)
	graph bool
}

// weight of a generator under the current profile
func (g *fullGen) weightOf(gf genFn) int {
	if !g.graph {
		return gf.weight
	}
	switch gf.name {
	case "config-entry":
		return 70
	case "register":
		return 30
	case "deregister":
		return 5
	case "intention":
		return 10
	case "manual-vips":
		return 8
	case "peering-write", "system-metadata", "txn-full":
		return 2
	case "kvs", "session", "core":
		return 1
	default:
		return 0
	}
}

type built struct {
	kind  string
	typ   structs.MessageType
	msg   interface{}   // msgpack-encoded request
	pmsg  proto.Message // or protobuf-encoded request
	raw   []byte        // or raw bytes after the type byte
	ext   []byte        // raft.Log.Extensions
	model *Cmd
}

func (g *fullGen) pick(xs []string) string { return xs[g.rng.Intn(len(xs))] }
func (g *fullGen) chance(n int) bool       { return g.rng.Intn(n) == 0 }
func (g *fullGen) now() time.Time          { return baseTime.Add(time.Duration(g.idx) * time.Second) }

func (g *fullGen) subset(xs []string, max int) []string {
	n := g.rng.Intn(max + 1)
	perm := g.rng.Perm(len(xs))
	out := []string{}
	for i := 0; i < n && i < len(xs); i++ {
		out = append(out, xs[perm[i]])
	}
	return out
}

func (g *fullGen) meta(max int) map[string]string {
	ks := g.subset(fMetaKeys, max)
	if len(ks) == 0 {
		if g.chance(2) {
			return nil
		}
		return map[string]string{}
	}
	m := map[string]string{}
	for _, k := range ks {
		m[k] = g.pick([]string{"v1", "v2", "prod", ""})
	}
	return m
}

// cas: 0, current (~65%), stale, future
func (g *fullGen) cas(cur uint64) uint64 {
	switch r := g.rng.Intn(20); {
	case r < 13:
		return cur
	case r < 15:
		return 0
	case r < 18:
		if cur > 1 {
			return cur - 1
		}
		return cur + 3
	default:
		return g.idx + 5
	}
}

func encodeBuilt(b *built) []byte {
	switch {
	case b.raw != nil:
		return append([]byte{byte(b.typ)}, b.raw...)
	case b.pmsg != nil:
		data, err := structs.EncodeProto(b.typ, b.pmsg)
		if err != nil {
			panic(err)
		}
		return data
	default:
		data, err := structs.Encode(b.typ, b.msg)
		if err != nil {
			panic(fmt.Sprintf("encode %s: %v", b.kind, err))
		}
		return data
	}
}

// ---------------------------------------------------------------- generator registry

type genFn struct {
	name   string
	types  []structs.MessageType // the registered message types this generator emits
	weight int
	fn     func(g *fullGen) *built
}

var generators []genFn

func reg(name string, weight int, fn func(g *fullGen) *built, types ...structs.MessageType) {
	generators = append(generators, genFn{name, types, weight, fn})
}

func typesReport() (map[string]interface{}, []int) {
	regd := fsm.VerifRegisteredTypes()
	cover := map[int][]string{}
	for _, gf := range generators {
		for _, t := range gf.types {
			cover[int(t)] = append(cover[int(t)], gf.name)
		}
	}
	var missing []int
	tys := []int{}
	names := map[string]string{}
	for _, t := range regd {
		tys = append(tys, int(t))
		names[fmt.Sprint(int(t))] = t.String()
		if len(cover[int(t)]) == 0 {
			missing = append(missing, int(t))
		}
	}
	cov := map[string][]string{}
	for t, n := range cover {
		cov[fmt.Sprint(t)] = n
	}
	return map[string]interface{}{"registered": tys, "names": names, "generators": cov, "missing": missing}, missing
}

func (g *fullGen) nextBuilt() *built {
	tot := 0
	for _, gf := range generators {
		tot += g.weightOf(gf)
	}
	for tries := 0; tries < 50; tries++ {
		r := g.rng.Intn(tot)
		for _, gf := range generators {
			w := g.weightOf(gf)
			if r < w {
				if b := gf.fn(g); b != nil {
					return b
				}
				break
			}
			r -= w
		}
	}
	return genKVS(g)
}

// next returns the log entries of one command (several when the command is sent in chunks).
func (g *fullGen) next() []Entry {
	g.idx += uint64(1 + g.rng.Intn(3))
	g.core.idx = g.idx
	b := g.nextBuilt()
	data := encodeBuilt(b)
	if b.model != nil {
		b.model.Idx = g.idx
	}
	// a large-ish command is sometimes sent the way raftApplyWithEncoder chunks it
	if len(data) > 40 && b.ext == nil && g.chance(40) {
		return g.chunked(b, data)
	}
	return []Entry{{Idx: g.idx, Kind: b.kind, Type: int(data[0] &^ byte(structs.IgnoreUnknownTypeFlag)), Data: hex.EncodeToString(data),
		Ext: hex.EncodeToString(b.ext), Model: b.model}}
}

// ---------------------------------------------------------------- state lookups

func (g *fullGen) existingNodes() []string {
	_, ns, _ := g.r.store().Nodes(nil, nil, "")
	out := []string{}
	for _, n := range ns {
		out = append(out, n.Node)
	}
	return out
}

func (g *fullGen) nodeName() string {
	if ex := g.existingNodes(); len(ex) > 0 && g.rng.Intn(6) > 0 {
		return ex[g.rng.Intn(len(ex))]
	}
	return g.pick(fNodes)
}

func (g *fullGen) liveSessions() []string {
	_, ss, _ := g.r.store().SessionList(nil, nil)
	out := []string{}
	for _, s := range ss {
		out = append(out, s.ID)
	}
	return out
}

func (g *fullGen) session() string {
	live := g.liveSessions()
	switch r := g.rng.Intn(20); {
	case r < 16 && len(live) > 0:
		return live[g.rng.Intn(len(live))]
	case r < 17:
		return ""
	default:
		return g.pick(sessIDs)
	}
}

type svcInst struct {
	node string
	svc  *structs.NodeService
}

func (g *fullGen) instances() []svcInst {
	out := []svcInst{}
	for _, n := range g.existingNodes() {
		_, ns, _ := g.r.store().NodeServices(nil, n, nil, "")
		if ns == nil {
			continue
		}
		ids := []string{}
		for id := range ns.Services {
			ids = append(ids, id)
		}
		sort.Strings(ids)
		for _, id := range ids {
			out = append(out, svcInst{n, ns.Services[id]})
		}
	}
	return out
}

// ---------------------------------------------------------------- catalog

func (g *fullGen) taggedAddrs() map[string]structs.ServiceAddress {
	ks := g.subset([]string{"lan", "wan", "lan_ipv4", "wan_ipv4", "custom", structs.TaggedAddressVirtualIP}, 3)
	if len(ks) == 0 {
		return nil
	}
	m := map[string]structs.ServiceAddress{}
	for _, k := range ks {
		m[k] = structs.ServiceAddress{Address: fmt.Sprintf("10.1.%d.%d", g.rng.Intn(2), 1+g.rng.Intn(3)), Port: 8000 + g.rng.Intn(3)}
	}
	return m
}

func (g *fullGen) nodeService() *structs.NodeService {
	name := g.pick(fSvcNames)
	s := &structs.NodeService{Service: name, ID: name + fmt.Sprint(1+g.rng.Intn(2)), Port: 8000 + g.rng.Intn(3),
		Tags: g.subset([]string{"primary", "v1", "v2"}, 2), Meta: g.meta(3), TaggedAddresses: g.taggedAddrs()}
	if len(s.Tags) == 0 && g.chance(2) {
		s.Tags = nil
	}
	if g.chance(4) {
		s.Address = fmt.Sprintf("10.2.0.%d", 1+g.rng.Intn(3))
	}
	if g.chance(4) {
		s.Weights = &structs.Weights{Passing: 1 + g.rng.Intn(3), Warning: 1}
	}
	if g.chance(5) {
		s.EnableTagOverride = true
	}
	switch r := g.rng.Intn(20); {
	case r < 8: // typical
	case r < 12: // sidecar proxy
		dest := g.pick(fSvcNames)
		s.Kind = structs.ServiceKindConnectProxy
		s.Service = dest + "-sidecar-proxy"
		s.ID = s.Service + fmt.Sprint(1+g.rng.Intn(2))
		s.Proxy = structs.ConnectProxyConfig{DestinationServiceName: dest, DestinationServiceID: dest + "1", LocalServicePort: 8000}
		for _, u := range g.subset(fSvcNames, 3) {
			up := structs.Upstream{DestinationType: structs.UpstreamDestTypeService, DestinationName: u, LocalBindPort: 9000 + len(s.Proxy.Upstreams)}
			if g.chance(4) {
				up.DestinationPeer = g.pick(fPeers)
			}
			if g.chance(6) {
				up.Datacenter = "dc2"
			}
			s.Proxy.Upstreams = append(s.Proxy.Upstreams, up)
		}
		if g.chance(3) {
			s.Proxy.Mode = structs.ProxyModeTransparent
		}
		if g.chance(4) {
			s.Proxy.Config = map[string]interface{}{"protocol": g.pick([]string{"http", "tcp"})}
		}
	case r < 14:
		s.Connect.Native = true
	case r < 16:
		s.Kind = structs.ServiceKindTerminatingGateway
		s.Service, s.ID = "tgw", "tgw"+fmt.Sprint(1+g.rng.Intn(2))
	case r < 17:
		s.Kind = structs.ServiceKindIngressGateway
		s.Service, s.ID = "igw", "igw1"
	case r < 18:
		s.Kind = structs.ServiceKindMeshGateway
		s.Service, s.ID = "mgw", "mgw1"
	case r < 19:
		s.Kind = structs.ServiceKindAPIGateway
		s.Service, s.ID = "apigw", "apigw1"
	default:
		s.Service, s.ID = "consul", "consul"
	}
	if g.chance(25) {
		// what a client of the Catalog.Register RPC can send: service meta the endpoint does not vet
		s.Meta = map[string]string{"bad key!": "x", "also bad?": "y"}
	}
	return s
}

func (g *fullGen) healthCheck(node string) *structs.HealthCheck {
	id := g.pick([]string{"c1", "c2", "serfHealth", "sc1", "svc:web1"})
	hc := &structs.HealthCheck{Node: node, CheckID: types.CheckID(id), Name: "check " + id,
		Status: g.pick([]string{api.HealthPassing, api.HealthWarning, api.HealthCritical}), Output: g.pick([]string{"", "ok", "timeout"})}
	if g.chance(5) {
		hc.Notes = "n"
	}
	if g.chance(3) {
		insts := g.instances()
		if len(insts) > 0 && g.rng.Intn(4) > 0 {
			in := insts[g.rng.Intn(len(insts))]
			if in.node == node || g.chance(8) {
				hc.ServiceID = in.svc.ID
			}
		} else {
			hc.ServiceID = g.pick(fSvcNames) + "1"
		}
	}
	if id == "sc1" {
		hc.Type = "session"
		hc.Definition.SessionName = g.pick(sessNames[1:])
		hc.ServiceID = ""
	}
	if id == "serfHealth" {
		hc.ServiceID = ""
	}
	if g.chance(6) {
		hc.Definition.Interval = 10 * time.Second
		hc.Definition.HTTP = "http://localhost/health"
		hc.Definition.Header = map[string][]string{"X-A": {"1", "2"}, "X-B": {"3"}}
		hc.Type = "http"
	}
	return hc
}

func genRegister(g *fullGen) *built {
	node := g.pick(fNodes[:3])
	if g.chance(2) {
		node = g.nodeName()
	}
	if g.chance(40) {
		node = "N1"
	}
	r := &structs.RegisterRequest{Datacenter: "dc1", Node: node, Address: fmt.Sprintf("10.0.0.%d", 1+g.rng.Intn(2)),
		ID: types.NodeID(g.pick(nodeIDs)), SkipNodeUpdate: g.chance(8)}
	if g.rng.Intn(3) > 0 {
		if _, n, _ := g.r.store().GetNode(node, nil, ""); n != nil {
			r.ID = n.ID
		}
	}
	if g.chance(3) {
		r.TaggedAddresses = map[string]string{}
		for _, k := range g.subset([]string{"lan", "wan", "lan_ipv4", "wan_ipv6"}, 3) {
			r.TaggedAddresses[k] = fmt.Sprintf("192.168.0.%d", 1+g.rng.Intn(3))
		}
	}
	if g.chance(3) {
		r.NodeMeta = g.meta(3)
	}
	if g.chance(10) {
		r.Locality = &structs.Locality{Region: "us-west-1", Zone: g.pick([]string{"a", "b"})}
	}
	kind := "register:node"
	if g.rng.Intn(10) < 6 {
		for tries := 0; tries < 5; tries++ {
			s := g.nodeService()
			// the endpoint's servicePreApplyValidate
			if err := s.Validate(); err != nil {
				continue
			}
			r.Service = s
			kind = "register:service"
			if s.Kind != "" {
				kind = "register:" + string(s.Kind)
			} else if s.Connect.Native {
				kind = "register:connect-native"
			}
			break
		}
	}
	for n := g.rng.Intn(3); n > 0; n-- {
		hc := g.healthCheck(node)
		if g.chance(15) {
			hc.Node = g.pick(fNodes)
		}
		if r.Service != nil && g.chance(2) && hc.Type != "session" && hc.CheckID != "serfHealth" {
			hc.ServiceID = r.Service.ID
		}
		r.Checks = append(r.Checks, hc)
	}
	if len(r.Checks) == 1 && g.chance(3) {
		r.Check, r.Checks = r.Checks[0], nil
	}
	if g.chance(12) {
		// imported from a peer (written by the peerstream handler)
		r.PeerName = g.pick(fPeers)
		if r.Service != nil {
			r.Service.PeerName = r.PeerName
		}
		for _, c := range r.Checks {
			c.PeerName = r.PeerName
		}
		if r.Check != nil {
			r.Check.PeerName = r.PeerName
		}
		kind += ":peer"
	}
	return &built{kind: kind, typ: structs.RegisterRequestType, msg: r}
}

func genDeregister(g *fullGen) *built {
	r := &structs.DeregisterRequest{Datacenter: "dc1", Node: g.nodeName()}
	kind := "deregister:node"
	insts := g.instances()
	switch g.rng.Intn(4) {
	case 0:
		r.ServiceID = g.pick(fSvcNames) + "1"
		if len(insts) > 0 && g.rng.Intn(4) > 0 {
			in := insts[g.rng.Intn(len(insts))]
			r.Node, r.ServiceID = in.node, in.svc.ID
		}
		kind = "deregister:service"
	case 1:
		r.CheckID = types.CheckID(g.pick([]string{"c1", "c2", "serfHealth", "sc1", "svc:web1"}))
		kind = "deregister:check"
	case 2:
		if !g.chance(3) {
			return nil
		}
	}
	if g.chance(15) {
		r.PeerName = g.pick(fPeers)
		kind += ":peer"
	}
	return &built{kind: kind, typ: structs.DeregisterRequestType, msg: r}
}

// ---------------------------------------------------------------- core commands (KV, session, txn, ...)

func (g *fullGen) coreBuilt(c Cmd) *built {
	c.Idx = g.idx
	data := encodeCore(&c)
	kind := c.Kind
	if c.Kind == "kvs" {
		kind = "kvs:" + c.Verb
	}
	cc := c
	return &built{kind: kind, typ: structs.MessageType(data[0]), raw: data[1:], model: &cc}
}

func genKVS(g *fullGen) *built {
	verb := g.core.pick(kvWriteVerbs)
	if (verb == "lock" || verb == "unlock") && len(g.liveSessions()) == 0 && g.rng.Intn(4) > 0 {
		verb = "set"
	}
	if g.chance(40) {
		// a verb the KVS endpoint never forwards to Raft; the FSM answers with an error
		verb = g.pick([]string{"get", "check-session", "bogus"})
		b := g.coreBuilt(Cmd{Kind: "kvs", Verb: verb, KV: g.core.kvReq("set")})
		b.model = nil
		b.kind = "kvs:invalid-op"
		return b
	}
	return g.coreBuilt(Cmd{Kind: "kvs", Verb: verb, KV: g.core.kvReq(verb)})
}

func genSession(g *fullGen) *built {
	if g.chance(3) {
		return &built{kind: "session:destroy", typ: structs.SessionRequestType,
			msg: &structs.SessionRequest{Datacenter: "dc1", Op: structs.SessionDestroy, Session: structs.Session{ID: g.session()}}}
	}
	if g.chance(30) {
		return &built{kind: "session:invalid-op", typ: structs.SessionRequestType,
			msg: &structs.SessionRequest{Datacenter: "dc1", Op: "renew", Session: structs.Session{ID: g.session()}}}
	}
	s := structs.Session{ID: g.pick(sessIDs), Node: g.nodeName(), Name: g.pick(sessNames), Behavior: structs.SessionKeysRelease}
	for tries := 0; tries < 4; tries++ {
		live := false
		for _, l := range g.liveSessions() {
			live = live || l == s.ID
		}
		if !live || g.chance(10) {
			break
		}
		s.ID = g.pick(sessIDs)
	}
	if g.chance(3) {
		s.Behavior = structs.SessionKeysDelete
	}
	if g.chance(2) {
		s.LockDelay = time.Duration(1+g.rng.Intn(15)) * time.Second
	}
	if g.chance(3) {
		s.TTL = g.pick([]string{"10s", "30s", "1h"})
	}
	_, ncs, _ := g.r.store().NodeChecks(nil, s.Node, nil, "")
	for _, hc := range ncs {
		if g.chance(3) && (hc.Status != api.HealthCritical || g.chance(6)) {
			if hc.ServiceID != "" && g.chance(2) {
				s.ServiceChecks = append(s.ServiceChecks, structs.ServiceCheck{ID: string(hc.CheckID)})
			} else {
				s.NodeChecks = append(s.NodeChecks, string(hc.CheckID))
			}
		}
	}
	if g.chance(12) {
		s.NodeChecks = append(s.NodeChecks, g.pick(checkIDs))
	}
	if s.NodeChecks == nil && s.ServiceChecks == nil && g.chance(2) {
		// Session.Apply's default
		s.NodeChecks = []string{string(structs.SerfCheckID)}
	}
	return &built{kind: "session:create", typ: structs.SessionRequestType,
		msg: &structs.SessionRequest{Datacenter: "dc1", Op: structs.SessionCreate, Session: s}}
}

func genCoreMisc(g *fullGen) *built {
	// the modelled commands exactly as harness/store generates them
	for tries := 0; tries < 10; tries++ {
		g.core.idx = g.idx - 1
		c := g.core.next()
		g.core.idx = g.idx
		if c.Kind == "kvs" {
			continue
		}
		return g.coreBuilt(c)
	}
	return nil
}

func genTombstone(g *fullGen) *built {
	if g.chance(10) {
		return &built{kind: "tombstone:invalid-op", typ: structs.TombstoneRequestType,
			msg: &structs.TombstoneRequest{Datacenter: "dc1", Op: "purge", ReapIndex: g.idx}}
	}
	return g.coreBuilt(Cmd{Kind: "reap", Upto: g.idx - uint64(g.rng.Intn(8))})
}

func genLegacyACL(g *fullGen) *built {
	return &built{kind: "acl-legacy", typ: structs.DeprecatedACLRequestType, msg: map[string]interface{}{"Op": "set", "ACL": map[string]string{"ID": "x"}}}
}

func genTxnFull(g *fullGen) *built {
	// transactions over the richer catalog objects (the core ones come from genCoreMisc)
	r := &structs.TxnRequest{Datacenter: "dc1"}
	n := 1 + g.rng.Intn(4)
	for i := 0; i < n; i++ {
		switch g.rng.Intn(6) {
		case 0, 1:
			v := g.core.pick(kvTxnVerbs)
			o := TxnOp{Kind: "kv", Verb: v, KV: g.core.kvReq(v)}
			r.Ops = append(r.Ops, txnOp(&o))
		case 2:
			node := g.nodeName()
			nd := structs.Node{Node: node, Address: fmt.Sprintf("10.0.0.%d", 1+g.rng.Intn(2)), Datacenter: "dc1", ID: types.NodeID(g.pick(nodeIDs)), Meta: g.meta(2)}
			_, cur, _ := g.r.store().GetNode(node, nil, "")
			if cur != nil {
				if g.rng.Intn(3) > 0 {
					nd.ID = cur.ID
				}
				nd.ModifyIndex = g.cas(cur.ModifyIndex)
			}
			r.Ops = append(r.Ops, &structs.TxnOp{Node: &structs.TxnNodeOp{Verb: api.NodeOp(g.pick([]string{"get", "set", "cas", "delete", "delete-cas"})), Node: nd}})
		case 3:
			var s *structs.NodeService
			for tries := 0; tries < 5 && s == nil; tries++ {
				if c := g.nodeService(); c.Validate() == nil {
					s = c
				}
			}
			if s == nil {
				continue
			}
			node := g.nodeName()
			if _, cur, _ := g.r.store().NodeService(nil, node, s.ID, nil, ""); cur != nil {
				s.ModifyIndex = g.cas(cur.ModifyIndex)
			}
			r.Ops = append(r.Ops, &structs.TxnOp{Service: &structs.TxnServiceOp{Verb: api.ServiceOp(g.pick([]string{"get", "set", "cas", "delete", "delete-cas"})), Node: node, Service: *s}})
		case 4:
			hc := g.healthCheck(g.nodeName())
			if _, cur, _ := g.r.store().NodeCheck(hc.Node, hc.CheckID, nil, ""); cur != nil {
				hc.ModifyIndex = g.cas(cur.ModifyIndex)
			}
			r.Ops = append(r.Ops, &structs.TxnOp{Check: &structs.TxnCheckOp{Verb: api.CheckOp(g.pick([]string{"get", "set", "cas", "delete", "delete-cas"})), Check: *hc}})
		default:
			r.Ops = append(r.Ops, &structs.TxnOp{Session: &structs.TxnSessionOp{Verb: api.SessionDelete, Session: structs.Session{ID: g.session()}}})
		}
	}
	if len(r.Ops) == 0 {
		return nil
	}
	return &built{kind: "txn:full", typ: structs.TxnRequestType, msg: r}
}

// ---------------------------------------------------------------- history driver

// apply runs the entries on the generator's own FSM; false when the FSM panicked (which every replica
// will do too: the history ends there)
func (g *fullGen) apply(es []Entry) bool {
	for i := range es {
		if _, pan := g.r.applyEntry(&es[i]); pan != "" {
			return false
		}
	}
	return true
}

func sysmeta(idx uint64, key, val string) Entry {
	data, err := structs.Encode(structs.SystemMetadataRequestType, &structs.SystemMetadataRequest{Datacenter: "dc1",
		Op: structs.SystemMetadataUpsert, Entry: &structs.SystemMetadataEntry{Key: key, Value: val}})
	if err != nil {
		panic(err)
	}
	return Entry{Idx: idx, Kind: "system-metadata:upsert", Type: int(structs.SystemMetadataRequestType), Data: hex.EncodeToString(data)}
}

func generate(seed int64, tier string, n int, emit func(interface{})) {
	if _, missing := typesReport(); len(missing) > 0 {
		panic(fmt.Sprintf("registered message types without a generator: %v", missing))
	}
	rng := rand.New(rand.NewSource(seed))
	id := 0
	for _, h := range scripted() {
		h.ID = id
		id++
		emit(h)
	}
	mixes := []string{"kv", "session", "txn"}
	firstGenerated := id
	if firstGenerated%4 == 3 {
		firstGenerated++
	}
	for ; id < n; id++ {
		r := newReplica()
		hs := rng.Int63()
		if id%4 == 3 {
			// the modelled subset only: replayed through coq/Store/Model.v by Run/C01.v
			g := &coreGen{rng: rand.New(rand.NewSource(hs)), r: r, mix: mixes[(id/4)%3]}
			h := History{ID: id, Profile: "core-" + g.mix}
			for k, ln := 0, 1+rng.Intn(30); k < ln; k++ {
				c := g.next()
				e := coreEntry(&c)
				r.applyEntry(&e)
				h.Entries = append(h.Entries, e)
			}
			r.close()
			emit(h)
			continue
		}
		g := &fullGen{rng: rand.New(rand.NewSource(hs)), r: r}
		g.core = &coreGen{rng: g.rng, r: r, mix: mixes[id%3]}
		h := History{ID: id, Profile: "full"}
		// one history in 50 (and at least the first generated one) follows the service-graph profile
		g.graph = id%50 == 5 || id == firstGenerated
		if g.graph {
			h.Profile = "graph"
		}
		// preamble: the system metadata a leader writes when it establishes leadership
		pre := []Entry{}
		if g.rng.Intn(10) < 8 || g.graph {
			g.idx++
			pre = append(pre, sysmeta(g.idx, structs.SystemMetadataVirtualIPsEnabled, "true"))
		}
		if g.rng.Intn(10) < 5 || g.graph {
			g.idx++
			pre = append(pre, sysmeta(g.idx, structs.SystemMetadataTermGatewayVirtualIPsEnabled, "true"))
		}
		if g.rng.Intn(10) < 5 {
			g.idx++
			pre = append(pre, sysmeta(g.idx, structs.SystemMetadataIntentionFormatKey, structs.SystemMetadataIntentionFormatConfigValue))
		}
		if g.rng.Intn(10) < 6 {
			// initializeACLs: the builtin policies
			g.idx++
			pol := &structs.ACLPolicy{ID: structs.ACLPolicyGlobalManagementID, Name: structs.ACLPolicyGlobalManagementName,
				Description: structs.ACLPolicyGlobalManagementDesc, Rules: structs.ACLPolicyGlobalManagementRules}
			pol.SetHash(true)
			data, err := structs.Encode(structs.ACLPolicySetRequestType, &structs.ACLPolicyBatchSetRequest{Policies: structs.ACLPolicies{pol}})
			if err != nil {
				panic(err)
			}
			pre = append(pre, Entry{Idx: g.idx, Kind: "acl-policy-set", Type: int(structs.ACLPolicySetRequestType), Data: hex.EncodeToString(data)})
		}
		if g.rng.Intn(10) < 4 || (g.graph && g.rng.Intn(4) > 0) {
			// an operator's proxy-defaults with an L7 protocol: routers, splitters and http listeners are then accepted
			g.idx++
			pd := &structs.ProxyConfigEntry{Kind: structs.ProxyDefaults, Name: structs.ProxyConfigGlobal, Config: map[string]interface{}{"protocol": "http"}}
			if err := pd.Normalize(); err != nil {
				panic(err)
			}
			data, err := structs.Encode(structs.ConfigEntryRequestType, &structs.ConfigEntryRequest{Datacenter: "dc1", Op: structs.ConfigEntryUpsert, Entry: pd})
			if err != nil {
				panic(err)
			}
			pre = append(pre, Entry{Idx: g.idx, Kind: "config-entry:upsert:proxy-defaults", Type: int(structs.ConfigEntryRequestType), Data: hex.EncodeToString(data)})
		}
		g.apply(pre)
		h.Entries = append(h.Entries, pre...)
		ln := 5 + rng.Intn(36)
		if g.graph {
			ln = 160 + rng.Intn(80)
		}
		for k := 0; k < ln; k++ {
			es := g.next()
			alive := g.apply(es)
			h.Entries = append(h.Entries, es...)
			if !alive {
				break
			}
		}
		if g.chance(15) && len(h.Entries) > 0 {
			// malformed stream: an entry cut short.  FSM.Apply panics on undecodable entries by design
			// ("so that we crash and our state doesn't diverge"); the history ends there on every replica
			last := h.Entries[len(h.Entries)-1]
			if raw, err := hex.DecodeString(last.Data); err == nil && len(raw) > 6 && last.Ext == "" {
				g.idx++
				cut := Entry{Idx: g.idx, Kind: "malformed:truncated", Type: last.Type, Data: hex.EncodeToString(raw[:2+g.rng.Intn(len(raw)-3)])}
				g.apply([]Entry{cut})
				h.Entries = append(h.Entries, cut)
			}
		}
		r.close()
		emit(h)
	}
}
