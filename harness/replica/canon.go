// Canonical serialisation of command results and of the whole state store, field by field through
// reflection: no %v on pointers, maps by sorted key, nil distinguished from empty, time.Time as UTC
// text, protobuf bookkeeping fields left out.
package main

import (
	"crypto/sha256"
	"encoding/hex"
	"fmt"
	"reflect"
	"sort"
	"strconv"
	"strings"
	"time"

	"github.com/hashicorp/consul/agent/consul/state"
)

// fields that are caches / bookkeeping of the protobuf runtime or compiled forms of data that is
// serialised anyway next to them
var skipFields = map[string]bool{
	"state": true, "sizeCache": true, "unknownFields": true, "noCopy": true, "DoNotCompare": true,
	"ct": true, // prepared-query wrapper: compiled template of the query serialised beside it
}

var timeType = reflect.TypeOf(time.Time{})

func canonValue(sb *strings.Builder, v reflect.Value, depth int) {
	if depth > 60 {
		sb.WriteString("<deep>")
		return
	}
	if !v.IsValid() {
		sb.WriteString("null")
		return
	}
	switch v.Kind() {
	case reflect.Ptr:
		if v.IsNil() {
			sb.WriteString("null")
			return
		}
		sb.WriteByte('&')
		canonValue(sb, v.Elem(), depth+1)
	case reflect.Interface:
		if v.IsNil() {
			sb.WriteString("null")
			return
		}
		e := v.Elem()
		sb.WriteByte('<')
		sb.WriteString(e.Type().String())
		sb.WriteByte('>')
		// errors inside values are compared by message
		if e.CanInterface() {
			if err, ok := e.Interface().(error); ok {
				sb.WriteString(strconv.Quote(err.Error()))
				return
			}
		}
		canonValue(sb, e, depth+1)
	case reflect.Struct:
		if v.Type() == timeType {
			if v.CanInterface() {
				t := v.Interface().(time.Time)
				sb.WriteString("T" + strconv.Quote(t.UTC().Format(time.RFC3339Nano)))
			} else {
				// wall-clock part only (the monotonic reading is per process by construction)
				sb.WriteString("T<unexported>")
			}
			return
		}
		sb.WriteByte('{')
		t := v.Type()
		first := true
		for i := 0; i < v.NumField(); i++ {
			f := t.Field(i)
			if skipFields[f.Name] {
				continue
			}
			if !first {
				sb.WriteByte(',')
			}
			first = false
			sb.WriteString(f.Name)
			sb.WriteByte(':')
			canonValue(sb, v.Field(i), depth+1)
		}
		sb.WriteByte('}')
	case reflect.Map:
		if v.IsNil() {
			sb.WriteString("null")
			return
		}
		type kv struct {
			k string
			v reflect.Value
		}
		items := make([]kv, 0, v.Len())
		it := v.MapRange()
		for it.Next() {
			var kb strings.Builder
			canonValue(&kb, it.Key(), depth+1)
			items = append(items, kv{kb.String(), it.Value()})
		}
		sort.Slice(items, func(i, j int) bool { return items[i].k < items[j].k })
		sb.WriteString("map{")
		for i, it := range items {
			if i > 0 {
				sb.WriteByte(',')
			}
			sb.WriteString(it.k)
			sb.WriteString("=>")
			canonValue(sb, it.v, depth+1)
		}
		sb.WriteByte('}')
	case reflect.Slice:
		if v.IsNil() {
			sb.WriteString("null")
			return
		}
		fallthrough
	case reflect.Array:
		if v.Type().Elem().Kind() == reflect.Uint8 {
			b := make([]byte, v.Len())
			for i := range b {
				b[i] = byte(v.Index(i).Uint())
			}
			sb.WriteString("x\"" + hex.EncodeToString(b) + "\"")
			return
		}
		sb.WriteByte('[')
		for i := 0; i < v.Len(); i++ {
			if i > 0 {
				sb.WriteByte(',')
			}
			canonValue(sb, v.Index(i), depth+1)
		}
		sb.WriteByte(']')
	case reflect.String:
		sb.WriteString(strconv.Quote(v.String()))
	case reflect.Bool:
		sb.WriteString(strconv.FormatBool(v.Bool()))
	case reflect.Int, reflect.Int8, reflect.Int16, reflect.Int32, reflect.Int64:
		sb.WriteString(strconv.FormatInt(v.Int(), 10))
	case reflect.Uint, reflect.Uint8, reflect.Uint16, reflect.Uint32, reflect.Uint64, reflect.Uintptr:
		sb.WriteString(strconv.FormatUint(v.Uint(), 10))
	case reflect.Float32, reflect.Float64:
		sb.WriteString(strconv.FormatFloat(v.Float(), 'g', -1, 64))
	case reflect.Complex64, reflect.Complex128:
		sb.WriteString(fmt.Sprint(v.Complex()))
	case reflect.Func, reflect.Chan, reflect.UnsafePointer:
		if v.IsNil() {
			sb.WriteString("null")
		} else {
			sb.WriteString("<" + v.Kind().String() + ">")
		}
	default:
		sb.WriteString("<?" + v.Kind().String() + ">")
	}
}

func canon(x interface{}) string {
	var sb strings.Builder
	if x == nil {
		return "nil"
	}
	v := reflect.ValueOf(x)
	sb.WriteString(v.Type().String())
	sb.WriteByte(' ')
	canonValue(&sb, v, 0)
	return sb.String()
}

// canonResult: the value FSM.Apply returned. Errors by message.
func canonResult(x interface{}) string {
	if err, ok := x.(error); ok {
		return "error " + strconv.Quote(err.Error())
	}
	return canon(x)
}

// ---------------------------------------------------------------- whole-store dump

// A dump maps every table name to the sorted canonical texts of its rows (rows of a table are
// pairwise distinct: the id index is unique).
type dump map[string][]string

func dumpStore(st *state.Store) dump {
	d := dump{}
	err := st.WalkAllTables(func(table string, item interface{}) bool {
		d[table] = append(d[table], canon(item))
		return true
	})
	if err != nil {
		panic(err)
	}
	for t := range d {
		sort.Strings(d[t])
	}
	return d
}

func (d dump) tables() []string {
	ts := make([]string, 0, len(d))
	for t := range d {
		ts = append(ts, t)
	}
	sort.Strings(ts)
	return ts
}

func (d dump) rows() int {
	n := 0
	for _, r := range d {
		n += len(r)
	}
	return n
}

func (d dump) text() string {
	var sb strings.Builder
	for _, t := range d.tables() {
		for _, r := range d[t] {
			sb.WriteString(t)
			sb.WriteByte('\t')
			sb.WriteString(r)
			sb.WriteByte('\n')
		}
	}
	return sb.String()
}

func (d dump) sha() string {
	h := sha256.Sum256([]byte(d.text()))
	return hex.EncodeToString(h[:])
}

// delta: the rows removed from / added to the previous dump, as sorted "-table\trow" / "+table\trow"
// lines. Equal initial dumps and equal deltas at every step give equal dumps at every step.
func delta(prev, cur dump) []string {
	out := []string{}
	seen := map[string]bool{}
	for t := range prev {
		seen[t] = true
	}
	for t := range cur {
		seen[t] = true
	}
	ts := make([]string, 0, len(seen))
	for t := range seen {
		ts = append(ts, t)
	}
	sort.Strings(ts)
	for _, t := range ts {
		p, c := prev[t], cur[t]
		i, j := 0, 0
		for i < len(p) || j < len(c) {
			switch {
			case j >= len(c) || (i < len(p) && p[i] < c[j]):
				out = append(out, "-"+t+"\t"+p[i])
				i++
			case i >= len(p) || c[j] < p[i]:
				out = append(out, "+"+t+"\t"+c[j])
				j++
			default:
				i++
				j++
			}
		}
	}
	return out
}
