// Harness for property C01 (replicas that apply the same committed log hold the same state).
//
// Compiled inside consul's module by the build overlay as
// github.com/hashicorp/consul/internal/verifharness/replica (-tags verif).
//
// Modes
//
//	-types                      print the message types registered in fsm's `commands` map (hook) and
//	                            which generator kinds cover each; exit 2 if a registered type has none
//	-gen -seed N -tier T [-now-unix U] -out F write histories (JSON lines): encoded Raft log entries, generated from
//	                            the one seed against a live FSM so that most commands are valid
//	-apply F -out G [-name X] [-plant-delays] [-sleep-ms N]
//	                            REPLICA mode: for every history build a fresh real fsm.FSM, apply the
//	                            entries through FSM.ChunkingFSM().Apply (what Raft calls) and write, after
//	                            EVERY entry, the canonical result and the canonical delta + SHA-256 of a
//	                            dump of the WHOLE store (every memdb table incl. the index table, and the
//	                            resource store). checks/C01.py runs this twice as separate OS processes
//	                            with different environments and compares the outputs byte-wise.
//	-apply F -repeat K          as above, on K fresh FSMs per history inside the process (differences reported in self_diffs)
//	-units -seed N -out F       drive the map-ranging handlers one at a time (units.go)
//	-apply F -full              as above, with the complete dump text after every entry (diagnosis)
//	-replay F                   F = {"entries":[...]}: apply in this process on two fresh FSMs (the second
//	                            with planted lock delays) and print both observation lines
package main

import (
	"bufio"
	"context"
	"encoding/hex"
	"encoding/json"
	"flag"
	"fmt"
	"math/big"
	"os"
	"runtime"
	"runtime/debug"
	"sort"
	"strings"
	"time"

	"github.com/hashicorp/go-hclog"
	"github.com/hashicorp/raft"
	"google.golang.org/grpc"

	"github.com/hashicorp/consul/agent/consul/discoverychain"
	"github.com/hashicorp/consul/agent/consul/fsm"
	"github.com/hashicorp/consul/agent/consul/state"
	"github.com/hashicorp/consul/agent/structs"
	raftstorage "github.com/hashicorp/consul/internal/storage/raft"
	"github.com/hashicorp/consul/proto-public/pbresource"
)

// ---------------------------------------------------------------- log entries and observations

type Entry struct {
	Idx   uint64 `json:"idx"`
	Kind  string `json:"kind"`            // generator label, e.g. "kvs:set"
	Type  int    `json:"type"`            // message type (flags stripped); -1 for non-command entries
	Data  string `json:"data"`            // hex of raft.Log.Data
	Ext   string `json:"ext,omitempty"`   // hex of raft.Log.Extensions
	Term  uint64 `json:"term,omitempty"`  // raft term (default 1)
	Model *Cmd   `json:"model,omitempty"` // the same command in the vocabulary of coq/Store/Model.v
}

type History struct {
	ID      int     `json:"id"`
	Profile string  `json:"profile"`
	Entries []Entry `json:"entries"`
}

type Step struct {
	Res   string   `json:"res"`   // canonical result, exactly as returned (list orders included)
	Delta []string `json:"delta"` // rows removed / added by this entry
	Sha   string   `json:"sha"`   // SHA-256 of the full canonical dump after this entry
	Rows  int      `json:"rows"`
	Full  string   `json:"full,omitempty"` // -full: the dump text
	MRes  *Res     `json:"mres,omitempty"` // result in the model's vocabulary (entries with Model)
	MVip  *MVip    `json:"mvip,omitempty"` // manual-VIP commands: the rows before/after (coq/FSM/Model.v)
}

// service-virtual-ips rows in the vocabulary of coq/FSM/Model.v
type VipRow struct {
	Key    string   `json:"key"` // peer name, NUL, service name
	IP     string   `json:"ip"`  // the raw allocated IP as a decimal number
	Manual []string `json:"manual"`
	C      uint64   `json:"c"`
	M      uint64   `json:"m"`
}
type VipView struct {
	Rows  []VipRow `json:"rows"`
	Index uint64   `json:"index"` // index table row "service-virtual-ips" (0 = absent)
}
type MVip struct {
	Before     VipView  `json:"before"`
	Svc        string   `json:"svc"`
	Ips        []string `json:"ips"`
	After      VipView  `json:"after"`
	Found      bool     `json:"found"`
	Unassigned []string `json:"unassigned"` // raw order
}

// the key orders like (peer, name), the order AssignManualServiceVIPs sorts its result in
func vipKey(p structs.PeeredServiceName) string {
	return p.Peer + "\x00" + p.ServiceName.Name
}

func (r *replica) vipView() VipView {
	v := VipView{Rows: []VipRow{}}
	r.store().WalkAllTables(func(table string, item interface{}) bool {
		switch x := item.(type) {
		case state.ServiceVirtualIP:
			m := append([]string{}, x.ManualIPs...)
			v.Rows = append(v.Rows, VipRow{Key: vipKey(x.Service), IP: new(big.Int).SetBytes(x.IP).String(), Manual: m, C: x.CreateIndex, M: x.ModifyIndex})
		case *state.IndexEntry:
			if x.Key == "service-virtual-ips" {
				v.Index = x.Value
			}
		}
		return true
	})
	sort.Slice(v.Rows, func(i, j int) bool { return v.Rows[i].Key < v.Rows[j].Key })
	return v
}

type Obs struct {
	ID     int    `json:"id"`
	Steps  []Step `json:"steps"`
	MFinal *Dump  `json:"mfinal,omitempty"` // projected final store (all entries modelled)
	Panic  string `json:"panic,omitempty"`
	// -repeat k: the same history applied on k-1 further fresh FSMs in this process; every step at which
	// one of them differs from the first is listed (empty when they all agree)
	SelfDiffs []SelfDiff `json:"self_diffs,omitempty"`
	// non-HTTP discovery chains compiled after config-entry / intention entries, and the largest number of
	// non-failover targets seen in one (the argument for config_entry.go convertTargetsToTestSpiffeIDs
	// needs it to be <= 1)
	L4Chains     int `json:"l4_chains,omitempty"`
	L4TargetsMax int `json:"l4_targets_max,omitempty"`
}

type SelfDiff struct {
	Rep  int   `json:"rep"`
	Step int   `json:"step"`
	A    *Step `json:"a"`
	B    *Step `json:"b"`
}

// ---------------------------------------------------------------- one replica

type nullHandle struct{}

func (nullHandle) Apply([]byte) (any, error)                     { return nil, fmt.Errorf("no raft") }
func (nullHandle) IsLeader() bool                                { return false }
func (nullHandle) EnsureStrongConsistency(context.Context) error { return fmt.Errorf("no raft") }
func (nullHandle) DialLeader() (*grpc.ClientConn, error)         { return nil, fmt.Errorf("no raft") }

type replica struct {
	f       *fsm.FSM
	rf      raft.FSM
	backend *raftstorage.Backend
	cancel  context.CancelFunc
}

func newReplica() *replica {
	ctx, cancel := context.WithCancel(context.Background())
	backend, err := raftstorage.NewBackend(nullHandle{}, hclog.NewNullLogger())
	if err != nil {
		panic(err)
	}
	go backend.Run(ctx)
	f := fsm.NewFromDeps(fsm.Deps{
		Logger:         hclog.NewNullLogger(),
		NewStateStore:  func() *state.Store { return state.NewStateStore(nil) },
		StorageBackend: backend,
	})
	return &replica{f: f, rf: f.ChunkingFSM(), backend: backend, cancel: cancel}
}

func (r *replica) close() { r.cancel() }

func (r *replica) store() *state.Store { return r.f.State() }

func (r *replica) dump() dump {
	d := dumpStore(r.store())
	// the resource store (written by ResourceOperationType entries) lives outside memdb
	snap, err := r.backend.Snapshot()
	if err != nil {
		panic(err)
	}
	for {
		b, err := snap.Next()
		if err != nil {
			panic(err)
		}
		if b == nil {
			break
		}
		var res pbresource.Resource
		if err := res.UnmarshalBinary(b); err != nil {
			panic(err)
		}
		d["~resources"] = append(d["~resources"], canon(&res))
	}
	sort.Strings(d["~resources"])
	return d
}

func (r *replica) applyEntry(e *Entry) (out interface{}, panicked string) {
	data, err := hex.DecodeString(e.Data)
	if err != nil {
		panic(err)
	}
	var ext []byte // nil unless the entry carries extensions (raftchunking tests for nil)
	if e.Ext != "" {
		if ext, err = hex.DecodeString(e.Ext); err != nil {
			panic(err)
		}
	}
	term := e.Term
	if term == 0 {
		term = 1
	}
	defer func() {
		if p := recover(); p != nil {
			panicked = fmt.Sprint(p)
			if len(panicked) > 300 {
				panicked = panicked[:300]
			}
		}
	}()
	out = r.rf.Apply(&raft.Log{Index: e.Idx, Term: term, Type: raft.LogCommand, Data: data, Extensions: ext})
	return out, ""
}

func runOnce(h *History, full bool, plant bool) Obs {
	r := newReplica()
	defer r.close()
	if plant {
		// the local, non-replicated part of the store differs between the replicas
		now := time.Now()
		for _, k := range keys {
			r.store().VerifC01SetLockDelay(k, now, time.Hour)
		}
	}
	obs := Obs{ID: h.ID, Steps: []Step{}}
	prev := r.dump()
	prevVip := r.vipView()
	allModel := len(h.Entries) > 0
	for i := range h.Entries {
		e := &h.Entries[i]
		out, pan := r.applyEntry(e)
		if pan != "" {
			// FSM.Apply panics on undecodable entries by design; a panic is an observation too
			obs.Steps = append(obs.Steps, Step{Res: "panic " + pan, Delta: []string{}})
			obs.Panic = pan
			break
		}
		cur := r.dump()
		st := Step{Res: canonResult(out), Delta: delta(prev, cur), Sha: cur.sha(), Rows: cur.rows()}
		if full {
			st.Full = cur.text()
		}
		if e.Model != nil {
			m := projectResult(out)
			st.MRes = &m
		} else {
			allModel = false
		}
		if e.Kind == "manual-vips" {
			curVip := r.vipView()
			var req state.ServiceVirtualIP
			data, _ := hex.DecodeString(e.Data)
			if resp, ok := out.(structs.AssignServiceManualVIPsResponse); ok && structs.Decode(data[1:], &req) == nil {
				mv := &MVip{Before: prevVip, Svc: vipKey(req.Service), Ips: append([]string{}, req.ManualIPs...), After: curVip,
					Found: resp.Found, Unassigned: []string{}}
				for _, u := range resp.UnassignedFrom {
					mv.Unassigned = append(mv.Unassigned, vipKey(u))
				}
				st.MVip = mv
			}
			prevVip = curVip
		} else if e.Type != int(structs.KVSRequestType) {
			prevVip = r.vipView()
		}
		obs.Steps = append(obs.Steps, st)
		prev = cur
		if e.Type == int(structs.ConfigEntryRequestType) || e.Type == int(structs.IntentionRequestType) {
			r.checkL4Chains(&obs)
		}
	}
	if allModel && obs.Panic == "" {
		d := projectDump(r.store())
		obs.MFinal = &d
	}
	return obs
}

// runHistory applies the history on `repeat` fresh FSMs (the first as asked, the others alternately with
// and without planted lock delays) and reports every step at which a later one differs from the first.
func runHistory(h *History, full bool, plant bool, repeat int) Obs {
	first := runOnce(h, full, plant)
	for rep := 1; rep < repeat; rep++ {
		other := runOnce(h, false, (rep%2 == 1) != plant)
		n := len(first.Steps)
		if len(other.Steps) < n {
			n = len(other.Steps)
		}
		for i := 0; i < n; i++ {
			a, b := first.Steps[i], other.Steps[i]
			a.Full, b.Full = "", ""
			ja, _ := json.Marshal(a)
			jb, _ := json.Marshal(b)
			if string(ja) != string(jb) {
				first.SelfDiffs = append(first.SelfDiffs, SelfDiff{Rep: rep, Step: i, A: &a, B: &b})
			}
		}
		if len(first.Steps) != len(other.Steps) {
			first.SelfDiffs = append(first.SelfDiffs, SelfDiff{Rep: rep, Step: n})
		}
	}
	return first
}

// checkL4Chains compiles the discovery chain of every service of the universe and, for the chains whose
// protocol is not HTTP-like, counts the targets that are not failover targets.
func (r *replica) checkL4Chains(obs *Obs) {
	st := r.store()
	for _, svc := range fSvcNames {
		_, entries, err := st.ReadDiscoveryChainConfigEntries(nil, svc, nil)
		if err != nil {
			continue
		}
		chain, err := discoverychain.Compile(discoverychain.CompileRequest{ServiceName: svc, EvaluateInNamespace: "default",
			EvaluateInPartition: "default", EvaluateInDatacenter: "dc1", EvaluateInTrustDomain: "b6fc9da3-03d4-4b5a-9134-c045e9b20152.consul",
			Entries: entries})
		if err != nil || chain == nil || structs.IsProtocolHTTPLike(chain.Protocol) {
			continue
		}
		excluded := map[string]bool{}
		for _, n := range chain.Nodes {
			if n != nil && n.Resolver != nil && n.Resolver.Failover != nil {
				for _, t := range n.Resolver.Failover.Targets {
					excluded[t] = true
				}
			}
		}
		cnt := 0
		for tid := range chain.Targets {
			if !excluded[tid] {
				cnt++
			}
		}
		obs.L4Chains++
		if cnt > obs.L4TargetsMax {
			obs.L4TargetsMax = cnt
		}
	}
}

// ---------------------------------------------------------------- main

func readHistories(path string) []History {
	f, err := os.Open(path)
	if err != nil {
		panic(err)
	}
	defer f.Close()
	var hs []History
	sc := bufio.NewScanner(f)
	sc.Buffer(make([]byte, 1<<20), 1<<30)
	for sc.Scan() {
		if len(strings.TrimSpace(sc.Text())) == 0 {
			continue
		}
		var h History
		if err := json.Unmarshal(sc.Bytes(), &h); err != nil {
			panic(err)
		}
		hs = append(hs, h)
	}
	return hs
}

func main() {
	seed := flag.Int64("seed", 1, "seed")
	tier := flag.String("tier", "quick", "quick|thorough")
	out := flag.String("out", "", "output file (default stdout)")
	count := flag.Int("n", 0, "number of histories (default by tier)")
	genMode := flag.Bool("gen", false, "generate histories")
	applyPath := flag.String("apply", "", "replica mode: apply the histories of this file")
	full := flag.Bool("full", false, "replica mode: include the full dump text after every entry")
	plant := flag.Bool("plant-delays", false, "replica mode: start with lock delays planted on every key (local state differs)")
	sleepMs := flag.Int("sleep-ms", 0, "replica mode: sleep before starting (different wall-clock)")
	name := flag.String("name", "", "replica name (informational)")
	nowUnix := flag.Int64("now-unix", 0, "generator: the real time (token expiries are placed within the minute after it)")
	repeat := flag.Int("repeat", 1, "replica mode: apply every history on this many fresh FSMs and report where they differ")
	unitsMode := flag.Bool("units", false, "unit mode: drive the map-ranging handlers one at a time (see units.go)")
	typesMode := flag.Bool("types", false, "print registered message types and generator coverage")
	replay := flag.String("replay", "", "replay file {entries:[...]}")
	flag.Parse()
	_ = name
	wallNow = *nowUnix
	debug.SetGCPercent(400)
	initEnv()

	w := bufio.NewWriterSize(os.Stdout, 1<<20)
	if *out != "" {
		f, err := os.Create(*out)
		if err != nil {
			panic(err)
		}
		defer f.Close()
		w = bufio.NewWriterSize(f, 1<<20)
	}
	defer w.Flush()
	enc := json.NewEncoder(w)
	enc.SetEscapeHTML(false)
	emit := func(v interface{}) {
		if err := enc.Encode(v); err != nil {
			panic(err)
		}
	}

	switch {
	case *typesMode:
		rep, missing := typesReport()
		emit(rep)
		if len(missing) > 0 {
			w.Flush()
			os.Exit(2)
		}
	case *unitsMode:
		n := *count
		if n == 0 {
			n = 40
			if *tier == "thorough" {
				n = 400
			}
		}
		units(*seed, n, emit)
	case *genMode:
		n := *count
		if n == 0 {
			n = 300
			if *tier == "thorough" {
				n = 3000
			}
		}
		generate(*seed, *tier, n, emit)
	case *applyPath != "":
		if *sleepMs > 0 {
			time.Sleep(time.Duration(*sleepMs) * time.Millisecond)
		}
		hs := readHistories(*applyPath)
		emit(map[string]interface{}{"replica": *name, "gomaxprocs": runtime.GOMAXPROCS(0), "pid": os.Getpid(),
			"start_unix_nano": time.Now().UnixNano(), "tz": time.Local.String(), "plant_delays": *plant, "repeat": *repeat})
		for i := range hs {
			emit(runHistory(&hs[i], *full, *plant, *repeat))
		}
	case *replay != "":
		raw, err := os.ReadFile(*replay)
		if err != nil {
			panic(err)
		}
		var h History
		if err := json.Unmarshal(raw, &h); err != nil {
			panic(err)
		}
		a := runHistory(&h, false, false, 1)
		b := runHistory(&h, false, true, 1)
		emit(a)
		emit(b)
		ja, _ := json.Marshal(a)
		jb, _ := json.Marshal(b)
		if string(ja) != string(jb) {
			emit(map[string]string{"verdict": "replicas differ"})
		} else {
			emit(map[string]string{"verdict": "replicas agree (in-process; map order may need several runs)"})
		}
	default:
		flag.Usage()
		os.Exit(2)
	}
}
