package main

import (
	"encoding/binary"
	"encoding/hex"
	"fmt"
	"time"

	chunktypes "github.com/hashicorp/go-raftchunking/types"
	"github.com/hashicorp/raft-wal/verifier"
	"github.com/hashicorp/serf/coordinate"
	"google.golang.org/protobuf/proto"
	"google.golang.org/protobuf/types/known/anypb"
	"google.golang.org/protobuf/types/known/timestamppb"

	"github.com/hashicorp/consul/agent/consul/state"
	"github.com/hashicorp/consul/agent/structs"
	"github.com/hashicorp/consul/api"
	"github.com/hashicorp/consul/proto-public/pbresource"
	"github.com/hashicorp/consul/proto/private/pbpeering"
	"github.com/hashicorp/consul/proto/private/pbstorage"
)

func init() {
	reg("register", 22, genRegister, structs.RegisterRequestType)
	reg("deregister", 7, genDeregister, structs.DeregisterRequestType)
	reg("kvs", 10, genKVS, structs.KVSRequestType)
	reg("session", 6, genSession, structs.SessionRequestType)
	reg("core", 8, genCoreMisc, structs.RegisterRequestType, structs.DeregisterRequestType, structs.SessionRequestType,
		structs.TxnRequestType, structs.TombstoneRequestType, structs.PreparedQueryRequestType)
	reg("tombstone", 1, genTombstone, structs.TombstoneRequestType)
	reg("acl-legacy", 1, genLegacyACL, structs.DeprecatedACLRequestType)
	reg("txn-full", 5, genTxnFull, structs.TxnRequestType)
	reg("coordinate", 3, genCoordinate, structs.CoordinateBatchUpdateType)
	reg("prepared-query", 4, genPreparedQuery, structs.PreparedQueryRequestType)
	reg("autopilot", 2, genAutopilot, structs.AutopilotRequestType)
	reg("feature-gate", 2, genFeatureGate, structs.FeatureGateRequestType)
	reg("intention", 6, genIntention, structs.IntentionRequestType)
	reg("connect-ca", 6, genConnectCA, structs.ConnectCARequestType)
	reg("ca-leaf", 1, genCALeaf, structs.ConnectCALeafRequestType)
	reg("acl-token-set", 5, genACLTokenSet, structs.ACLTokenSetRequestType)
	reg("acl-token-delete", 2, genACLTokenDelete, structs.ACLTokenDeleteRequestType)
	reg("acl-bootstrap", 1, genACLBootstrap, structs.ACLBootstrapRequestType)
	reg("acl-policy-set", 4, genACLPolicySet, structs.ACLPolicySetRequestType)
	reg("acl-policy-delete", 2, genACLPolicyDelete, structs.ACLPolicyDeleteRequestType)
	reg("acl-role-set", 3, genACLRoleSet, structs.ACLRoleSetRequestType)
	reg("acl-role-delete", 1, genACLRoleDelete, structs.ACLRoleDeleteRequestType)
	reg("acl-binding-rule-set", 2, genACLBindingRuleSet, structs.ACLBindingRuleSetRequestType)
	reg("acl-binding-rule-delete", 1, genACLBindingRuleDelete, structs.ACLBindingRuleDeleteRequestType)
	reg("acl-auth-method-set", 3, genACLAuthMethodSet, structs.ACLAuthMethodSetRequestType)
	reg("acl-auth-method-delete", 1, genACLAuthMethodDelete, structs.ACLAuthMethodDeleteRequestType)
	reg("config-entry", 22, genConfigEntry, structs.ConfigEntryRequestType)
	reg("federation-state", 3, genFederationState, structs.FederationStateRequestType)
	reg("system-metadata", 3, genSystemMetadata, structs.SystemMetadataRequestType)
	reg("peering-write", 8, genPeeringWrite, structs.PeeringWriteType)
	reg("peering-delete", 2, genPeeringDelete, structs.PeeringDeleteType)
	reg("peering-terminate", 1, genPeeringTerminate, structs.PeeringTerminateByIDType)
	reg("peering-trust-bundle-write", 2, genPTBWrite, structs.PeeringTrustBundleWriteType)
	reg("peering-trust-bundle-delete", 1, genPTBDelete, structs.PeeringTrustBundleDeleteType)
	reg("peering-secrets", 3, genPeeringSecrets, structs.PeeringSecretsWriteType)
	reg("resource", 4, genResource, structs.ResourceOperationType)
	reg("manual-vips", 9, genManualVIPs, structs.UpdateVirtualIPRequestType)
	reg("unknown-ignorable", 1, genUnknownIgnorable)
	reg("verifier-checkpoint", 1, genVerifierCheckpoint)
}

// ---------------------------------------------------------------- coordinates, queries, autopilot, gates

func genCoordinate(g *fullGen) *built {
	var cs structs.Coordinates
	for n := 1 + g.rng.Intn(3); n > 0; n-- {
		c := coordinate.NewCoordinate(coordinate.DefaultConfig())
		for i := range c.Vec {
			c.Vec[i] = float64(g.rng.Intn(1000)) / 1000
		}
		c.Error = 0.1 * float64(1+g.rng.Intn(5))
		c.Height = 0.001 * float64(1+g.rng.Intn(5))
		cs = append(cs, &structs.Coordinate{Node: g.nodeName(), Segment: g.pick([]string{"", "", "alpha"}), Coord: c})
	}
	return &built{kind: "coordinate", typ: structs.CoordinateBatchUpdateType, msg: cs}
}

func (g *fullGen) queries() []*structs.PreparedQuery {
	_, qs, _ := g.r.store().PreparedQueryList(nil)
	return qs
}

func genPreparedQuery(g *fullGen) *built {
	ids := queryIDs
	ex := g.queries()
	if g.chance(4) {
		id := g.pick(ids)
		if len(ex) > 0 && g.rng.Intn(4) > 0 {
			id = ex[g.rng.Intn(len(ex))].ID
		}
		return &built{kind: "prepared-query:delete", typ: structs.PreparedQueryRequestType,
			msg: &structs.PreparedQueryRequest{Datacenter: "dc1", Op: structs.PreparedQueryDelete, Query: &structs.PreparedQuery{ID: id}}}
	}
	if g.chance(25) {
		return &built{kind: "prepared-query:invalid-op", typ: structs.PreparedQueryRequestType,
			msg: &structs.PreparedQueryRequest{Datacenter: "dc1", Op: "explain", Query: &structs.PreparedQuery{ID: g.pick(ids)}}}
	}
	q := &structs.PreparedQuery{ID: g.pick(ids), Name: g.pick([]string{"", "q-web", "q-db", "geo-"}), Session: "",
		Service: structs.ServiceQuery{Service: g.pick(fSvcNames), Tags: g.subset([]string{"v1", "!v2"}, 2), OnlyPassing: g.chance(2),
			NodeMeta: g.meta(2), ServiceMeta: g.meta(2)}}
	if g.chance(3) {
		q.Session = g.session()
	}
	if g.chance(4) {
		q.Service.Failover = structs.QueryFailoverOptions{NearestN: 2, Datacenters: []string{"dc2", "dc3"}}
	}
	if g.chance(4) {
		q.Template = structs.QueryTemplateOptions{Type: structs.QueryTemplateTypeNamePrefixMatch, Regexp: g.pick([]string{"^geo-(.*)$", "", "("}), RemoveEmptyTags: g.chance(2)}
		q.Service.Service = g.pick([]string{"${match(1)}", "${name.full}", "web"})
	}
	if g.chance(5) {
		q.DNS.TTL = "10s"
	}
	op := structs.PreparedQueryCreate
	if len(ex) > 0 && g.chance(3) {
		op = structs.PreparedQueryUpdate
		q.ID = ex[g.rng.Intn(len(ex))].ID
	}
	return &built{kind: "prepared-query:" + string(op), typ: structs.PreparedQueryRequestType,
		msg: &structs.PreparedQueryRequest{Datacenter: "dc1", Op: op, Query: q}}
}

func genAutopilot(g *fullGen) *built {
	c := structs.AutopilotConfig{CleanupDeadServers: g.chance(2), LastContactThreshold: time.Duration(200+g.rng.Intn(3)*100) * time.Millisecond,
		MaxTrailingLogs: uint64(250 * (1 + g.rng.Intn(2))), MinQuorum: uint(g.rng.Intn(4)), ServerStabilizationTime: 10 * time.Second}
	req := &structs.AutopilotSetConfigRequest{Datacenter: "dc1", Config: c, CAS: g.chance(2)}
	kind := "autopilot:set"
	if req.CAS {
		kind = "autopilot:cas"
		_, cur, _ := g.r.store().AutopilotConfig()
		var ci uint64
		if cur != nil {
			ci = cur.ModifyIndex
		}
		req.Config.ModifyIndex = g.cas(ci)
	}
	return &built{kind: kind, typ: structs.AutopilotRequestType, msg: req}
}

func genFeatureGate(g *fullGen) *built {
	_, pol, stt, _ := g.r.store().FeatureGatePolicyAndStatus(nil)
	var pi, si uint64
	if pol != nil {
		pi = pol.ModifyIndex
	}
	if stt != nil {
		si = stt.ModifyIndex
	}
	req := &structs.FeatureGateUpdateRequest{ExpectedPolicyIndex: g.cas(pi), ExpectedStatusIndex: g.cas(si)}
	if g.rng.Intn(10) < 7 {
		req.Policy = &structs.FeatureGatePolicy{Settings: map[string]structs.FeatureGateSetting{}}
		for _, f := range g.subset([]string{"alpha", "beta", "gamma", "delta"}, 3) {
			req.Policy.Settings[f] = structs.FeatureGateSetting{Enabled: g.chance(2), Source: structs.FeatureGateSourceOperator}
		}
	}
	if g.rng.Intn(10) < 9 {
		req.Status = &structs.FeatureGateStatus{RegistryDigest: "sha256:abc", Features: map[string]structs.ResolvedFeatureGate{}}
		for _, f := range g.subset([]string{"alpha", "beta", "gamma", "delta"}, 4) {
			e := g.chance(2)
			req.Status.Features[f] = structs.ResolvedFeatureGate{DesiredEnabled: e, EffectiveEnabled: e, Eligible: true, Source: "operator",
				Reason: structs.FeatureGateReasonOperatorEnabled}
		}
	}
	return &built{kind: "feature-gate", typ: structs.FeatureGateRequestType, msg: req}
}

// ---------------------------------------------------------------- intentions

func (g *fullGen) intention() *structs.Intention {
	ixn := &structs.Intention{
		ID:              g.pick(fUUIDs),
		SourceNS:        "default",
		SourceName:      g.pick(append([]string{"*"}, fSvcNames...)),
		DestinationNS:   "default",
		DestinationName: g.pick(append([]string{"*"}, fSvcNames...)),
		SourceType:      structs.IntentionSourceConsul,
		Action:          structs.IntentionAction(g.pick([]string{"allow", "deny"})),
		Description:     g.pick([]string{"", "d"}),
		Meta:            g.meta(2),
		CreatedAt:       g.now(),
		UpdatedAt:       g.now(),
	}
	if g.chance(8) {
		ixn.SourcePeer = g.pick(fPeers)
	}
	if g.chance(6) {
		ixn.Action = ""
		ixn.Permissions = []*structs.IntentionPermission{{Action: structs.IntentionActionAllow,
			HTTP: &structs.IntentionHTTPPermission{PathPrefix: "/v1", Methods: []string{"GET", "PUT"}}}}
	}
	// Intention.Apply: defaults, precedence and hash are fixed by the leader
	ixn.FillPartitionAndNamespace(structs.DefaultEnterpriseMetaInDefaultPartition(), true)
	ixn.UpdatePrecedence()
	ixn.SetHash()
	return ixn
}

// an intention ID stored inside a service-intentions config entry (created through the legacy API)
func (g *fullGen) legacyIDInEntries() string {
	ids := []string{}
	for _, e := range g.storedEntries() {
		if si, ok := e.(*structs.ServiceIntentionsConfigEntry); ok {
			for _, src := range si.Sources {
				if src.LegacyID != "" {
					ids = append(ids, src.LegacyID)
				}
			}
		}
	}
	if len(ids) == 0 {
		return ""
	}
	return ids[g.rng.Intn(len(ids))]
}

func genIntention(g *fullGen) *built {
	req := &structs.IntentionRequest{Datacenter: "dc1"}
	_, legacy, _ := g.r.store().LegacyIntentions(nil, structs.WildcardEnterpriseMetaInDefaultPartition())
	ixn := g.intention()
	useMutation := g.chance(2)
	if _, ent, _ := g.r.store().SystemMetadataGet(nil, structs.SystemMetadataIntentionFormatKey); g.rng.Intn(5) > 0 {
		useMutation = ent != nil && ent.Value == structs.SystemMetadataIntentionFormatConfigValue
	}
	if useMutation {
		// the config-entry era: the endpoint sends a Mutation
		op := structs.IntentionOp(g.pick([]string{"create", "update", "delete", "upsert", "delete"}))
		req.Op = op
		m := &structs.IntentionMutation{Destination: ixn.DestinationServiceName(), Source: ixn.SourceServiceName()}
		switch op {
		case structs.IntentionOpCreate:
			m.Value = ixn.ToSourceIntention(true)
		case structs.IntentionOpUpdate:
			m.ID = ixn.ID
			if id := g.legacyIDInEntries(); id != "" && g.rng.Intn(4) > 0 {
				m.ID = id
			}
			m.Value = ixn.ToSourceIntention(true)
		case structs.IntentionOpDelete:
			if g.chance(2) {
				m.ID = ixn.ID
				if id := g.legacyIDInEntries(); id != "" && g.rng.Intn(4) > 0 {
					m.ID = id
				}
			}
		case structs.IntentionOpUpsert:
			m.Value = ixn.ToSourceIntention(false)
		}
		if g.chance(30) {
			req.Op = structs.IntentionOpDeleteAll
		}
		req.Mutation = m
		return &built{kind: "intention:mutation-" + string(req.Op), typ: structs.IntentionRequestType, msg: req}
	}
	op := structs.IntentionOp(g.pick([]string{"create", "create", "update", "delete", "delete-all", "upsert"}))
	req.Op = op
	req.Intention = ixn
	if len(legacy) > 0 && (op == structs.IntentionOpUpdate || op == structs.IntentionOpDelete) && g.rng.Intn(4) > 0 {
		ixn.ID = legacy[g.rng.Intn(len(legacy))].ID
	}
	if op == structs.IntentionOpDeleteAll && !g.chance(4) {
		req.Op = structs.IntentionOpCreate
	}
	return &built{kind: "intention:legacy-" + string(req.Op), typ: structs.IntentionRequestType, msg: req}
}

// ---------------------------------------------------------------- connect CA

func (g *fullGen) caRoot(i int, active bool) *structs.CARoot {
	return &structs.CARoot{ID: fmt.Sprintf("root-%d", i), Name: fmt.Sprintf("Consul CA %d", i), SerialNumber: uint64(100 + i),
		SigningKeyID: fmt.Sprintf("%02x:%02x", i, i+1), ExternalTrustDomain: "11111111-2222-3333-4444-555555555555",
		NotBefore: baseTime, NotAfter: baseTime.Add(24 * time.Hour * 365), RootCert: fmt.Sprintf("-----BEGIN CERTIFICATE-----\nroot%d\n-----END CERTIFICATE-----\n", i),
		IntermediateCerts: g.subset([]string{"int-a", "int-b"}, 2), Active: active, PrivateKeyType: "ec", PrivateKeyBits: 256}
}

func genConnectCA(g *fullGen) *built {
	req := &structs.CARequest{Datacenter: "dc1"}
	st := g.r.store()
	conf := func() *structs.CAConfiguration {
		return &structs.CAConfiguration{ClusterID: "11111111-2222-3333-4444-555555555555", Provider: g.pick([]string{"consul", "vault"}),
			Config: map[string]interface{}{"LeafCertTTL": g.pick([]string{"72h", "24h"}), "RotationPeriod": "2160h", "IntermediateCertTTL": "8760h"},
			State:  map[string]string{"k": g.pick([]string{"a", "b"})}}
	}
	roots := func() []*structs.CARoot {
		n := 1 + g.rng.Intn(2)
		act := g.rng.Intn(n)
		rs := []*structs.CARoot{}
		for i := 0; i < n; i++ {
			rs = append(rs, g.caRoot(g.rng.Intn(3), i == act))
		}
		if g.chance(8) {
			for _, r := range rs {
				r.Active = g.chance(2)
			}
		}
		return rs
	}
	rootIdx, _, _ := st.CARoots(nil)
	switch g.rng.Intn(9) {
	case 0, 1:
		req.Op = structs.CAOpSetConfig
		req.Config = conf()
		if g.chance(2) {
			_, cur, _ := st.CAConfig(nil)
			var ci uint64
			if cur != nil {
				ci = cur.ModifyIndex
			}
			req.Config.ModifyIndex = g.cas(ci)
		}
	case 2, 3:
		req.Op = structs.CAOpSetRoots
		req.Index = g.cas(rootIdx)
		req.Roots = roots()
	case 4:
		req.Op = structs.CAOpSetProviderState
		req.ProviderState = &structs.CAConsulProviderState{ID: g.pick([]string{"prov-1", "prov-2"}), PrivateKey: "key", RootCert: "cert" + fmt.Sprint(g.rng.Intn(2))}
	case 5:
		req.Op = structs.CAOpDeleteProviderState
		req.ProviderState = &structs.CAConsulProviderState{ID: g.pick([]string{"prov-1", "prov-2"})}
	case 6:
		req.Op = structs.CAOpSetRootsAndConfig
		req.Index = g.cas(rootIdx)
		req.Roots = roots()
		req.Config = conf()
		if g.chance(2) {
			_, cur, _ := st.CAConfig(nil)
			if cur != nil {
				req.Config.ModifyIndex = g.cas(cur.ModifyIndex)
			}
		}
	case 7:
		req.Op = structs.CAOpIncrementProviderSerialNumber
	default:
		req.Op = "rotate-everything"
	}
	return &built{kind: "connect-ca:" + string(req.Op), typ: structs.ConnectCARequestType, msg: req}
}

func genCALeaf(g *fullGen) *built {
	op := structs.CALeafOpIncrementIndex
	if g.chance(6) {
		op = "decrement-index"
	}
	return &built{kind: "ca-leaf:" + string(op), typ: structs.ConnectCALeafRequestType, msg: &structs.CALeafRequest{Datacenter: "dc1", Op: op}}
}

// ---------------------------------------------------------------- ACLs

var (
	polIDs    = []string{"00000001-aaaa-0000-0000-000000000001", "00000001-aaaa-0000-0000-000000000002", "00000001-aaaa-0000-0000-000000000003"}
	polNames  = []string{"pol-read", "pol-write", "pol-ops"}
	roleIDs   = []string{"00000002-bbbb-0000-0000-000000000001", "00000002-bbbb-0000-0000-000000000002"}
	roleNames = []string{"role-a", "role-b"}
	tokIDs    = []string{"00000003-cccc-0000-0000-000000000001", "00000003-cccc-0000-0000-000000000002", "00000003-cccc-0000-0000-000000000003"}
	tokSecret = map[string]string{}
	brIDs     = []string{"00000004-dddd-0000-0000-000000000001", "00000004-dddd-0000-0000-000000000002"}
	amNames   = []string{"k8s", "jwt"}
)

func init() {
	for i, t := range tokIDs {
		tokSecret[t] = fmt.Sprintf("5ec2e700-0000-0000-0000-00000000000%d", i+1)
	}
}

func (g *fullGen) svcIdentities() structs.ACLServiceIdentities {
	var out structs.ACLServiceIdentities
	for _, s := range g.subset(fSvcNames, 2) {
		out = append(out, &structs.ACLServiceIdentity{ServiceName: s, Datacenters: g.subset(fDCs, 2)})
	}
	return out
}

func (g *fullGen) nodeIdentities() structs.ACLNodeIdentities {
	var out structs.ACLNodeIdentities
	for _, n := range g.subset(fNodes[:3], 1) {
		out = append(out, &structs.ACLNodeIdentity{NodeName: n, Datacenter: "dc1"})
	}
	return out
}

func genACLPolicySet(g *fullGen) *built {
	req := &structs.ACLPolicyBatchSetRequest{}
	for n := 1 + g.rng.Intn(2); n > 0; n-- {
		i := g.rng.Intn(len(polIDs))
		p := &structs.ACLPolicy{ID: polIDs[i], Name: polNames[i], Description: g.pick([]string{"", "d1", "d2"}),
			Rules:       g.pick([]string{`key_prefix "" { policy = "read" }`, `service "web" { policy = "write" }`, `node_prefix "" { policy = "read" } operator = "read"`}),
			Datacenters: g.subset(fDCs, 2)}
		if g.chance(6) {
			p.Name = g.pick(polNames) // possible name collision with another policy
		}
		if g.chance(20) {
			p.ID = structs.ACLPolicyGlobalManagementID
			p.Name = g.pick([]string{"global-management", "renamed"})
		}
		if g.chance(25) {
			p.ID = ""
		}
		p.SetHash(true)
		req.Policies = append(req.Policies, p)
	}
	return &built{kind: "acl-policy-set", typ: structs.ACLPolicySetRequestType, msg: req}
}

func genACLPolicyDelete(g *fullGen) *built {
	ids := g.subset(polIDs, 2)
	if g.chance(10) {
		ids = append(ids, structs.ACLPolicyGlobalManagementID)
	}
	if len(ids) == 0 {
		return nil
	}
	return &built{kind: "acl-policy-delete", typ: structs.ACLPolicyDeleteRequestType, msg: &structs.ACLPolicyBatchDeleteRequest{PolicyIDs: ids}}
}

func (g *fullGen) policyLinks() []string {
	ids := g.subset(polIDs, 2)
	if g.chance(8) {
		ids = append(ids, "00000001-aaaa-0000-0000-00000000dead")
	}
	return ids
}

func genACLRoleSet(g *fullGen) *built {
	req := &structs.ACLRoleBatchSetRequest{AllowMissingLinks: g.chance(4)}
	for n := 1 + g.rng.Intn(2); n > 0; n-- {
		i := g.rng.Intn(len(roleIDs))
		r := &structs.ACLRole{ID: roleIDs[i], Name: roleNames[i], Description: g.pick([]string{"", "r"}),
			ServiceIdentities: g.svcIdentities(), NodeIdentities: g.nodeIdentities()}
		for _, p := range g.policyLinks() {
			r.Policies = append(r.Policies, structs.ACLRolePolicyLink{ID: p})
		}
		if g.chance(8) {
			r.Name = g.pick(roleNames)
		}
		if g.chance(6) {
			r.TemplatedPolicies = structs.ACLTemplatedPolicies{{TemplateName: api.ACLTemplatedPolicyServiceName, TemplateVariables: &structs.ACLTemplatedPolicyVariables{Name: "web"}}}
		}
		r.SetHash(true)
		req.Roles = append(req.Roles, r)
	}
	return &built{kind: "acl-role-set", typ: structs.ACLRoleSetRequestType, msg: req}
}

func genACLRoleDelete(g *fullGen) *built {
	ids := g.subset(roleIDs, 2)
	if len(ids) == 0 {
		return nil
	}
	return &built{kind: "acl-role-delete", typ: structs.ACLRoleDeleteRequestType, msg: &structs.ACLRoleBatchDeleteRequest{RoleIDs: ids}}
}

func (g *fullGen) token(i int) *structs.ACLToken {
	t := &structs.ACLToken{AccessorID: tokIDs[i], SecretID: tokSecret[tokIDs[i]], Description: g.pick([]string{"", "t1", "t2"}),
		ServiceIdentities: g.svcIdentities(), NodeIdentities: g.nodeIdentities(), Local: g.chance(4), CreateTime: g.now()}
	for _, p := range g.policyLinks() {
		t.Policies = append(t.Policies, structs.ACLTokenPolicyLink{ID: p})
	}
	for _, r := range g.subset(roleIDs, 1) {
		t.Roles = append(t.Roles, structs.ACLTokenRoleLink{ID: r})
	}
	if g.chance(5) {
		// ACL.TokenSet resolves the TTL into an absolute expiry before the Raft apply.  With -now-unix the
		// expiry falls within the next minute of real time, so that replicas started at different moments
		// apply the entry before and after it
		e := g.now().Add(time.Hour)
		if wallNow != 0 {
			e = time.Unix(wallNow, 0).UTC().Add(time.Duration(1+g.rng.Intn(60)) * time.Second)
		}
		t.ExpirationTime = &e
	}
	if g.chance(8) {
		t.AuthMethod = g.pick(amNames)
	}
	if g.chance(12) {
		t.SecretID = "5ec2e700-0000-0000-0000-0000000000ff"
	}
	if g.chance(25) {
		t.SecretID = ""
	}
	t.SetHash(true)
	return t
}

func genACLTokenSet(g *fullGen) *built {
	req := &structs.ACLTokenBatchSetRequest{CAS: g.chance(3), AllowMissingLinks: g.chance(4), ProhibitUnprivileged: g.chance(4), FromReplication: g.chance(8)}
	for n := 1 + g.rng.Intn(2); n > 0; n-- {
		t := g.token(g.rng.Intn(len(tokIDs)))
		if req.CAS {
			_, cur, _ := g.r.store().ACLTokenGetByAccessor(nil, t.AccessorID, nil)
			var ci uint64
			if cur != nil {
				ci = cur.ModifyIndex
			}
			t.ModifyIndex = g.cas(ci)
		}
		req.Tokens = append(req.Tokens, t)
	}
	kind := "acl-token-set"
	if req.CAS {
		kind += ":cas"
	}
	return &built{kind: kind, typ: structs.ACLTokenSetRequestType, msg: req}
}

func genACLTokenDelete(g *fullGen) *built {
	ids := g.subset(tokIDs, 2)
	if len(ids) == 0 {
		return nil
	}
	return &built{kind: "acl-token-delete", typ: structs.ACLTokenDeleteRequestType, msg: &structs.ACLTokenBatchDeleteRequest{TokenIDs: ids}}
}

func genACLBootstrap(g *fullGen) *built {
	t := g.token(g.rng.Intn(len(tokIDs)))
	t.Policies = []structs.ACLTokenPolicyLink{{ID: structs.ACLPolicyGlobalManagementID}}
	t.Description = "Bootstrap Token (Global Management)"
	t.SetHash(true)
	var reset uint64
	if g.chance(3) {
		_, ri, _ := g.r.store().CanBootstrapACLToken()
		reset = g.cas(ri)
	}
	return &built{kind: "acl-bootstrap", typ: structs.ACLBootstrapRequestType, msg: &structs.ACLTokenBootstrapRequest{Token: *t, ResetIndex: reset}}
}

func genACLBindingRuleSet(g *fullGen) *built {
	req := &structs.ACLBindingRuleBatchSetRequest{}
	for n := 1 + g.rng.Intn(2); n > 0; n-- {
		am := g.pick(amNames)
		if _, ms, _ := g.r.store().ACLAuthMethodList(nil, structs.DefaultEnterpriseMetaInDefaultPartition()); len(ms) > 0 && g.rng.Intn(5) > 0 {
			am = ms[g.rng.Intn(len(ms))].Name
		}
		r := &structs.ACLBindingRule{ID: g.pick(brIDs), Description: g.pick([]string{"", "b"}), AuthMethod: am,
			Selector: g.pick([]string{"", "serviceaccount.namespace==default"}), BindType: g.pick([]string{structs.BindingRuleBindTypeService, structs.BindingRuleBindTypeRole, structs.BindingRuleBindTypeNode}),
			BindName: g.pick([]string{"web", "${serviceaccount.name}"})}
		if g.chance(20) {
			r.ID = ""
		}
		req.BindingRules = append(req.BindingRules, r)
	}
	return &built{kind: "acl-binding-rule-set", typ: structs.ACLBindingRuleSetRequestType, msg: req}
}

func genACLBindingRuleDelete(g *fullGen) *built {
	ids := g.subset(brIDs, 2)
	if len(ids) == 0 {
		return nil
	}
	return &built{kind: "acl-binding-rule-delete", typ: structs.ACLBindingRuleDeleteRequestType, msg: &structs.ACLBindingRuleBatchDeleteRequest{BindingRuleIDs: ids}}
}

func genACLAuthMethodSet(g *fullGen) *built {
	req := &structs.ACLAuthMethodBatchSetRequest{}
	for n := 1 + g.rng.Intn(2); n > 0; n-- {
		i := g.rng.Intn(len(amNames))
		m := &structs.ACLAuthMethod{Name: amNames[i], Type: []string{"kubernetes", "jwt"}[i], DisplayName: g.pick([]string{"", "D"}), Description: g.pick([]string{"", "m"}),
			MaxTokenTTL: time.Duration(g.rng.Intn(3)) * time.Hour, TokenLocality: g.pick([]string{"", "local", "global"}),
			Config: map[string]interface{}{"Host": "https://k8s.example", "CACert": "pem", "ServiceAccountJWT": g.pick([]string{"a", "b"})}}
		if g.chance(12) {
			m.Type = "jwt" // the type of an existing method is immutable
		}
		if g.chance(25) {
			m.Name = ""
		}
		req.AuthMethods = append(req.AuthMethods, m)
	}
	return &built{kind: "acl-auth-method-set", typ: structs.ACLAuthMethodSetRequestType, msg: req}
}

func genACLAuthMethodDelete(g *fullGen) *built {
	ns := g.subset(amNames, 2)
	if len(ns) == 0 {
		return nil
	}
	return &built{kind: "acl-auth-method-delete", typ: structs.ACLAuthMethodDeleteRequestType, msg: &structs.ACLAuthMethodBatchDeleteRequest{AuthMethodNames: ns}}
}

// ---------------------------------------------------------------- config entries

func (g *fullGen) configEntry() structs.ConfigEntry {
	svc := g.pick(fSvcNames)
	proto := g.pick([]string{"http", "http", "tcp", "grpc", "http2"})
	switch g.rng.Intn(20) {
	case 0, 1, 2:
		e := &structs.ServiceConfigEntry{Kind: structs.ServiceDefaults, Name: svc, Protocol: proto, Meta: g.meta(2)}
		if g.chance(4) {
			e.UpstreamConfig = &structs.UpstreamConfiguration{Defaults: &structs.UpstreamConfig{ConnectTimeoutMs: 1000 * (1 + g.rng.Intn(3))},
				Overrides: []*structs.UpstreamConfig{{Name: g.pick(fSvcNames), Protocol: proto}}}
		}
		if g.chance(6) {
			e.Protocol = "tcp"
			e.Destination = &structs.DestinationConfig{Addresses: g.subset([]string{"example.com", "10.9.9.9", "api.example.com"}, 2), Port: 443}
		}
		if g.chance(6) {
			e.MutualTLSMode = structs.MutualTLSModePermissive
		}
		return e
	case 3:
		e := &structs.ProxyConfigEntry{Kind: structs.ProxyDefaults, Name: structs.ProxyConfigGlobal, Meta: g.meta(2),
			Config: map[string]interface{}{"protocol": proto}}
		if g.chance(3) {
			e.MeshGateway.Mode = structs.MeshGatewayMode(g.pick([]string{"local", "remote", "none"}))
		}
		if g.chance(4) {
			e.Config["local_connect_timeout_ms"] = 1000 + g.rng.Intn(3)
			e.Config["envoy_prometheus_bind_addr"] = "0.0.0.0:9102"
		}
		return e
	case 4, 5:
		e := &structs.ServiceResolverConfigEntry{Kind: structs.ServiceResolver, Name: svc, ConnectTimeout: time.Duration(g.rng.Intn(3)) * time.Second}
		switch g.rng.Intn(4) {
		case 0:
			e.Subsets = map[string]structs.ServiceResolverSubset{"v1": {Filter: "Service.Meta.version == v1"}, "v2": {Filter: "Service.Meta.version == v2", OnlyPassing: true}}
			e.DefaultSubset = g.pick([]string{"v1", "v2", ""})
		case 1:
			e.Redirect = &structs.ServiceResolverRedirect{Service: g.pick(fSvcNames)}
			if g.chance(3) {
				e.Redirect.Peer = g.pick(fPeers)
			}
			if g.chance(3) {
				e.Redirect.Datacenter = "dc2"
			}
		case 2:
			e.Failover = map[string]structs.ServiceResolverFailover{"*": {Datacenters: g.subset(fDCs[1:], 2)}}
			if len(e.Failover["*"].Datacenters) == 0 {
				e.Failover = map[string]structs.ServiceResolverFailover{"*": {Targets: []structs.ServiceResolverFailoverTarget{{Peer: g.pick(fPeers)}, {Service: g.pick(fSvcNames)}}}}
			}
		}
		return e
	case 6:
		other := g.pick(fSvcNames)
		w := float32(10 * (1 + g.rng.Intn(9)))
		return &structs.ServiceSplitterConfigEntry{Kind: structs.ServiceSplitter, Name: svc,
			Splits: []structs.ServiceSplit{{Weight: w, Service: svc}, {Weight: 100 - w, Service: other}}}
	case 7:
		return &structs.ServiceRouterConfigEntry{Kind: structs.ServiceRouter, Name: svc, Routes: []structs.ServiceRoute{
			{Match: &structs.ServiceRouteMatch{HTTP: &structs.ServiceRouteHTTPMatch{PathPrefix: "/" + g.pick([]string{"api", "admin"})}},
				Destination: &structs.ServiceRouteDestination{Service: g.pick(fSvcNames)}}}}
	case 8, 9:
		e := &structs.IngressGatewayConfigEntry{Kind: structs.IngressGateway, Name: "igw"}
		lp := g.pick([]string{"http", "tcp"})
		l := structs.IngressListener{Port: 8080 + g.rng.Intn(2), Protocol: lp}
		if lp == "tcp" {
			l.Services = []structs.IngressService{{Name: g.pick(fSvcNames)}}
		} else {
			for _, s := range g.subset(append([]string{"*"}, fSvcNames...), 3) {
				is := structs.IngressService{Name: s}
				if s != "*" && g.chance(2) {
					is.Hosts = []string{s + ".example.com"}
				}
				l.Services = append(l.Services, is)
			}
			if len(l.Services) == 0 {
				l.Services = []structs.IngressService{{Name: "*"}}
			}
		}
		e.Listeners = []structs.IngressListener{l}
		if g.chance(3) {
			e.Listeners = append(e.Listeners, structs.IngressListener{Port: 9090, Protocol: "tcp", Services: []structs.IngressService{{Name: g.pick(fSvcNames)}}})
		}
		return e
	case 10, 11:
		e := &structs.TerminatingGatewayConfigEntry{Kind: structs.TerminatingGateway, Name: "tgw"}
		for _, s := range g.subset(append([]string{"*"}, fSvcNames...), 3) {
			ls := structs.LinkedService{Name: s}
			if g.chance(4) {
				ls.CAFile, ls.SNI = "/etc/ca.pem", s+".internal"
			}
			e.Services = append(e.Services, ls)
		}
		return e
	case 12, 13:
		e := &structs.ServiceIntentionsConfigEntry{Kind: structs.ServiceIntentions, Name: g.pick(append([]string{"*"}, fSvcNames...)), Meta: g.meta(2)}
		for _, s := range g.subset(append([]string{"*"}, fSvcNames...), 3) {
			si := &structs.SourceIntention{Name: s, Action: structs.IntentionAction(g.pick([]string{"allow", "deny"}))}
			if g.chance(6) {
				si.Peer = g.pick(fPeers)
			}
			if g.chance(5) && e.Name != "*" {
				si.Action = ""
				si.Permissions = []*structs.IntentionPermission{{Action: structs.IntentionActionAllow, HTTP: &structs.IntentionHTTPPermission{PathExact: "/x"}}}
			}
			e.Sources = append(e.Sources, si)
		}
		if g.chance(4) {
			// references to JWT providers are checked against the stored providers inside the FSM
			e.JWT = &structs.IntentionJWTRequirement{}
			for _, p := range g.subset([]string{"okta", "auth0", "keycloak"}, 3) {
				e.JWT.Providers = append(e.JWT.Providers, &structs.IntentionJWTProvider{Name: p})
			}
		}
		return e
	case 14:
		e := &structs.MeshConfigEntry{Meta: g.meta(2)}
		e.TransparentProxy.MeshDestinationsOnly = g.chance(2)
		if g.chance(3) {
			e.Peering = &structs.PeeringMeshConfig{PeerThroughMeshGateways: g.chance(2)}
		}
		return e
	case 15, 16:
		e := &structs.ExportedServicesConfigEntry{Name: "default"}
		for _, s := range g.subset(append([]string{"*"}, fSvcNames...), 3) {
			es := structs.ExportedService{Name: s}
			for _, p := range g.subset(fPeers, 2) {
				es.Consumers = append(es.Consumers, structs.ServiceConsumer{Peer: p})
			}
			if len(es.Consumers) == 0 {
				es.Consumers = []structs.ServiceConsumer{{Peer: g.pick(fPeers)}}
			}
			e.Services = append(e.Services, es)
		}
		return e
	case 17:
		return &structs.JWTProviderConfigEntry{Kind: structs.JWTProvider, Name: g.pick([]string{"okta", "auth0", "keycloak"}),
			Issuer: "https://issuer.example", JSONWebKeySet: &structs.JSONWebKeySet{Local: &structs.LocalJWKS{JWKS: "eyJrZXlzIjogW119"}},
			Audiences: g.subset([]string{"a", "b"}, 2)}
	case 18:
		switch g.rng.Intn(4) {
		case 0:
			return &structs.APIGatewayConfigEntry{Kind: structs.APIGateway, Name: "apigw", Listeners: []structs.APIGatewayListener{
				{Name: "l1", Port: 9443 + g.rng.Intn(2), Protocol: structs.APIGatewayListenerProtocol(g.pick([]string{"http", "tcp"}))}}}
		case 1:
			return &structs.HTTPRouteConfigEntry{Kind: structs.HTTPRoute, Name: g.pick([]string{"r1", "r2"}),
				Parents: []structs.ResourceReference{{Kind: structs.APIGateway, Name: "apigw"}},
				Rules:   []structs.HTTPRouteRule{{Services: []structs.HTTPService{{Name: g.pick(fSvcNames), Weight: 1}}}}, Hostnames: g.subset([]string{"a.example.com", "b.example.com"}, 2)}
		case 2:
			return &structs.TCPRouteConfigEntry{Kind: structs.TCPRoute, Name: "t1", Parents: []structs.ResourceReference{{Kind: structs.APIGateway, Name: "apigw", SectionName: "l1"}},
				Services: []structs.TCPService{{Name: g.pick(fSvcNames)}}}
		default:
			return &structs.BoundAPIGatewayConfigEntry{Kind: structs.BoundAPIGateway, Name: "apigw", Listeners: []structs.BoundAPIGatewayListener{
				{Name: "l1", Routes: []structs.ResourceReference{{Kind: structs.HTTPRoute, Name: g.pick([]string{"r1", "r2"})}}}}}
		}
	default:
		return &structs.FileSystemCertificateConfigEntry{Kind: structs.FileSystemCertificate, Name: g.pick([]string{"cert1", "cert2"}),
			Certificate: "/etc/certs/c.pem", PrivateKey: "/etc/certs/k.pem"}
	}
}

func (g *fullGen) storedEntries() []structs.ConfigEntry {
	_, es, _ := g.r.store().ConfigEntries(nil, structs.WildcardEnterpriseMetaInDefaultPartition())
	return es
}

func genConfigEntry(g *fullGen) *built {
	var e structs.ConfigEntry
	for tries := 0; tries < 8 && e == nil; tries++ {
		c := g.configEntry()
		// ConfigEntry.Apply: Normalize (sets the hash) and Validate before the Raft apply
		if err := c.Normalize(); err != nil {
			continue
		}
		if err := c.Validate(); err != nil {
			continue
		}
		e = c
	}
	if e == nil {
		return nil
	}
	stored := g.storedEntries()
	var curIdx uint64
	for _, s := range stored {
		if s.GetKind() == e.GetKind() && s.GetName() == e.GetName() {
			curIdx = s.GetRaftIndex().ModifyIndex
		}
	}
	req := &structs.ConfigEntryRequest{Datacenter: "dc1", Entry: e}
	switch r := g.rng.Intn(20); {
	case r < 9:
		req.Op = structs.ConfigEntryUpsert
	case r < 13:
		req.Op = structs.ConfigEntryUpsertCAS
		e.GetRaftIndex().ModifyIndex = g.cas(curIdx)
	case r < 14:
		req.Op = structs.ConfigEntryUpsertWithStatusCAS
		e.GetRaftIndex().ModifyIndex = g.cas(curIdx)
		if c, ok := e.(structs.ControlledConfigEntry); ok {
			c.SetStatus(structs.Status{Conditions: []structs.Condition{{Type: "Accepted", Status: "True", Reason: "Accepted", Message: "ok", LastTransitionTime: ptrTime(g.now())}}})
		}
	case r < 17:
		req.Op = structs.ConfigEntryDelete
		if len(stored) > 0 && g.rng.Intn(4) > 0 {
			req.Entry = stored[g.rng.Intn(len(stored))]
		}
	case r < 19:
		req.Op = structs.ConfigEntryDeleteCAS
		if len(stored) > 0 && g.rng.Intn(4) > 0 {
			s := stored[g.rng.Intn(len(stored))]
			// a copy: the stored object must not be modified
			c, err := structs.MakeConfigEntry(s.GetKind(), s.GetName())
			if err != nil {
				return nil
			}
			c.GetRaftIndex().ModifyIndex = g.cas(s.GetRaftIndex().ModifyIndex)
			req.Entry = c
		} else {
			e.GetRaftIndex().ModifyIndex = g.cas(curIdx)
		}
	default:
		req.Op = "patch"
	}
	if req.Op == structs.ConfigEntryDelete && req.Entry != e {
		c, err := structs.MakeConfigEntry(req.Entry.GetKind(), req.Entry.GetName())
		if err != nil {
			return nil
		}
		req.Entry = c
	}
	return &built{kind: "config-entry:" + string(req.Op) + ":" + req.Entry.GetKind(), typ: structs.ConfigEntryRequestType, msg: req}
}

func ptrTime(t time.Time) *time.Time { return &t }

// ---------------------------------------------------------------- federation states, system metadata

func genFederationState(g *fullGen) *built {
	dc := g.pick(fDCs)
	if g.chance(4) {
		return &built{kind: "federation-state:delete", typ: structs.FederationStateRequestType,
			msg: &structs.FederationStateRequest{Datacenter: "dc1", Op: structs.FederationStateDelete, State: &structs.FederationState{Datacenter: dc}}}
	}
	if g.chance(20) {
		return &built{kind: "federation-state:invalid-op", typ: structs.FederationStateRequestType,
			msg: &structs.FederationStateRequest{Datacenter: "dc1", Op: "merge", State: &structs.FederationState{Datacenter: dc}}}
	}
	fs := &structs.FederationState{Datacenter: dc, UpdatedAt: g.now(), PrimaryModifyIndex: uint64(g.rng.Intn(5))}
	for n := g.rng.Intn(3); n > 0; n-- {
		fs.MeshGateways = append(fs.MeshGateways, structs.CheckServiceNode{
			Node:    &structs.Node{Node: "gw" + fmt.Sprint(n), Address: "10.5.0." + fmt.Sprint(n), Datacenter: dc, Meta: g.meta(2)},
			Service: &structs.NodeService{Kind: structs.ServiceKindMeshGateway, ID: "mgw", Service: "mgw", Port: 8443, Meta: g.meta(2), TaggedAddresses: g.taggedAddrs()},
			Checks:  structs.HealthChecks{{Node: "gw" + fmt.Sprint(n), CheckID: "c", Status: api.HealthPassing}}})
	}
	if g.chance(12) {
		fs.Datacenter = ""
	}
	return &built{kind: "federation-state:upsert", typ: structs.FederationStateRequestType,
		msg: &structs.FederationStateRequest{Datacenter: "dc1", Op: structs.FederationStateUpsert, State: fs}}
}

func genSystemMetadata(g *fullGen) *built {
	key := g.pick([]string{structs.SystemMetadataVirtualIPsEnabled, structs.SystemMetadataTermGatewayVirtualIPsEnabled,
		structs.SystemMetadataIntentionFormatKey, "custom-key"})
	val := g.pick([]string{"true", "false", structs.SystemMetadataIntentionFormatConfigValue, structs.SystemMetadataIntentionFormatLegacyValue})
	op := structs.SystemMetadataUpsert
	if g.chance(4) {
		op = structs.SystemMetadataDelete
	}
	if g.chance(20) {
		op = "rotate"
	}
	return &built{kind: "system-metadata:" + string(op), typ: structs.SystemMetadataRequestType,
		msg: &structs.SystemMetadataRequest{Datacenter: "dc1", Op: op, Entry: &structs.SystemMetadataEntry{Key: key, Value: val}}}
}

// ---------------------------------------------------------------- peering

func (g *fullGen) peerings() []*pbpeering.Peering {
	_, ps, _ := g.r.store().PeeringList(nil, *structs.DefaultEnterpriseMetaInDefaultPartition())
	return ps
}

func genPeeringWrite(g *fullGen) *built {
	name := g.pick(fPeers)
	var existing *pbpeering.Peering
	for _, p := range g.peerings() {
		if p.Name == name {
			existing = p
		}
	}
	states := []int32{0, int32(pbpeering.PeeringState_PENDING), int32(pbpeering.PeeringState_ESTABLISHING),
		int32(pbpeering.PeeringState_ACTIVE), int32(pbpeering.PeeringState_ACTIVE), int32(pbpeering.PeeringState_FAILING)}
	if existing != nil || g.chance(10) {
		states = append(states, int32(pbpeering.PeeringState_TERMINATED))
	}
	p := &pbpeering.Peering{ID: fPeerIDs[name], Name: name, Meta: g.meta(2), State: pbpeering.PeeringState(g.pick2(states))}
	dial := name == "peer-b"
	if g.chance(12) {
		dial = !dial
	}
	if dial {
		// the dialing side
		p.PeerServerAddresses = []string{"10.7.0.1:8502"}
		p.PeerServerName = "server.dc2.peering." + name
		p.PeerCAPems = []string{"pem1"}
		p.PeerID = "remote-" + name
	}
	if g.chance(3) {
		p.Remote = &pbpeering.RemoteInfo{Partition: "default", Datacenter: "dc2"}
	}
	if (existing != nil && g.chance(5)) || g.chance(30) {
		p.State = pbpeering.PeeringState_DELETING
		p.DeletedAt = timestamppb.New(g.now())
	}
	if g.chance(30) {
		p.State = pbpeering.PeeringState_DELETING // without a deletion time: rejected
	}
	if g.chance(30) {
		p.ID = ""
	}
	if g.chance(7) {
		// same name, other id -- and, since the id is shared by both names, sometimes an ID that is in use
		// under another name (rejected with an error since 202ac2a; before it the FSM dereferenced a nil
		// peering while formatting that error)
		p.ID = "cccc3333-0000-0000-0000-000000000003"
	}
	req := &pbpeering.PeeringWriteRequest{Peering: p}
	if g.chance(3) && p.ID != "" {
		req.SecretsRequest = g.secretsRequest(p.ID, dial)
	}
	return &built{kind: "peering-write", typ: structs.PeeringWriteType, pmsg: req}
}

func (g *fullGen) pick2(xs []int32) int32 { return xs[g.rng.Intn(len(xs))] }

func (g *fullGen) secretsRequest(peerID string, dial bool) *pbpeering.SecretsWriteRequest {
	sec := func() string { return g.pick([]string{"sec-1", "sec-2", "sec-3"}) }
	r := &pbpeering.SecretsWriteRequest{PeerID: peerID}
	k := g.rng.Intn(4)
	if g.rng.Intn(6) > 0 {
		// what each side of a peering sends: the dialer Establish, the acceptor the other three
		if dial {
			k = 1
		} else {
			k = []int{0, 2, 3}[g.rng.Intn(3)]
		}
	}
	switch k {
	case 0:
		r.Request = &pbpeering.SecretsWriteRequest_GenerateToken{GenerateToken: &pbpeering.SecretsWriteRequest_GenerateTokenRequest{EstablishmentSecret: sec()}}
	case 1:
		r.Request = &pbpeering.SecretsWriteRequest_Establish{Establish: &pbpeering.SecretsWriteRequest_EstablishRequest{ActiveStreamSecret: sec()}}
	case 2:
		cur := sec()
		if s, _ := g.r.store().PeeringSecretsRead(nil, peerID); s != nil && s.GetEstablishment() != nil && g.rng.Intn(4) > 0 {
			cur = s.GetEstablishment().GetSecretID()
		}
		r.Request = &pbpeering.SecretsWriteRequest_ExchangeSecret{ExchangeSecret: &pbpeering.SecretsWriteRequest_ExchangeSecretRequest{EstablishmentSecret: cur, PendingStreamSecret: sec()}}
	default:
		cur := sec()
		if s, _ := g.r.store().PeeringSecretsRead(nil, peerID); s != nil && s.GetStream() != nil && g.rng.Intn(4) > 0 {
			cur = s.GetStream().GetPendingSecretID()
		}
		r.Request = &pbpeering.SecretsWriteRequest_PromotePending{PromotePending: &pbpeering.SecretsWriteRequest_PromotePendingRequest{ActiveStreamSecret: cur}}
	}
	return r
}

func genPeeringSecrets(g *fullGen) *built {
	id := fPeerIDs[g.pick(fPeers)]
	if ps := g.peerings(); len(ps) > 0 && g.rng.Intn(6) > 0 {
		id = ps[g.rng.Intn(len(ps))].ID
	}
	if g.chance(10) {
		id = "dddd4444-0000-0000-0000-000000000004"
	}
	dial := g.chance(2)
	for _, p := range g.peerings() {
		if p.ID == id {
			dial = p.ShouldDial()
		}
	}
	return &built{kind: "peering-secrets", typ: structs.PeeringSecretsWriteType, pmsg: g.secretsRequest(id, dial)}
}

func genPeeringDelete(g *fullGen) *built {
	return &built{kind: "peering-delete", typ: structs.PeeringDeleteType, pmsg: &pbpeering.PeeringDeleteRequest{Name: g.pick(fPeers)}}
}

func genPeeringTerminate(g *fullGen) *built {
	id := fPeerIDs[g.pick(fPeers)]
	return &built{kind: "peering-terminate", typ: structs.PeeringTerminateByIDType, pmsg: &pbpeering.PeeringTerminateByIDRequest{ID: id}}
}

func genPTBWrite(g *fullGen) *built {
	name := g.pick(fPeers)
	tb := &pbpeering.PeeringTrustBundle{TrustDomain: name + ".consul", PeerName: name, RootPEMs: g.subset([]string{"root-a", "root-b"}, 2), ExportedPartition: "default"}
	if g.chance(15) {
		tb.PeerName = ""
	}
	return &built{kind: "peering-trust-bundle-write", typ: structs.PeeringTrustBundleWriteType, pmsg: &pbpeering.PeeringTrustBundleWriteRequest{PeeringTrustBundle: tb}}
}

func genPTBDelete(g *fullGen) *built {
	return &built{kind: "peering-trust-bundle-delete", typ: structs.PeeringTrustBundleDeleteType, pmsg: &pbpeering.PeeringTrustBundleDeleteRequest{Name: g.pick(fPeers)}}
}

// ---------------------------------------------------------------- resources (Raft storage backend)

func genResource(g *fullGen) *built {
	typ := &pbresource.Type{Group: "demo", GroupVersion: "v1", Kind: g.pick([]string{"Artist", "Album"})}
	if g.chance(10) {
		typ = &pbresource.Type{Group: "catalog", GroupVersion: "v2beta1", Kind: "Service"} // a retired type
	}
	id := &pbresource.ID{Type: typ, Tenancy: &pbresource.Tenancy{Partition: "default", Namespace: "default"}, Name: g.pick([]string{"r1", "r2", "r3"}),
		Uid: g.pick([]string{"01HV0000000000000000000001", "01HV0000000000000000000002"})}
	if g.chance(15) {
		return &built{kind: "resource:garbage", typ: structs.ResourceOperationType, raw: []byte{0xff, 0x01, 0x02}}
	}
	// versions the resource service read before issuing the write
	curVsn := ""
	snap, err := g.r.backend.Snapshot()
	if err == nil {
		for {
			b, _ := snap.Next()
			if b == nil {
				break
			}
			var res pbresource.Resource
			if res.UnmarshalBinary(b) == nil && res.Id.Name == id.Name && res.Id.Type.Kind == id.Type.Kind {
				curVsn = res.Version
				if g.rng.Intn(4) > 0 {
					id.Uid = res.Id.Uid
				}
			}
		}
	}
	vsn := curVsn
	if g.chance(5) {
		vsn = g.pick([]string{"", "1", "999"})
	}
	var lg *pbstorage.Log
	kind := "resource:write"
	if g.chance(4) {
		kind = "resource:delete"
		lg = &pbstorage.Log{Type: pbstorage.LogType_LOG_TYPE_DELETE, Request: &pbstorage.Log_Delete{Delete: &pbstorage.DeleteRequest{Id: id, Version: vsn}}}
	} else {
		res := &pbresource.Resource{Id: id, Version: vsn, Generation: "01HVGEN" + fmt.Sprint(g.idx), Metadata: g.meta(3),
			Data: &anypb.Any{TypeUrl: "hashicorp.consul.internal.demo.v1." + typ.Kind, Value: []byte{byte(g.rng.Intn(4))}}}
		if g.chance(5) {
			res.Owner = &pbresource.ID{Type: typ, Tenancy: id.Tenancy, Name: "owner", Uid: "01HV0000000000000000000009"}
		}
		lg = &pbstorage.Log{Type: pbstorage.LogType_LOG_TYPE_WRITE, Request: &pbstorage.Log_Write{Write: &pbstorage.WriteRequest{Resource: res}}}
	}
	if g.chance(25) {
		lg.Type = pbstorage.LogType_LOG_TYPE_UNSPECIFIED
		kind = "resource:unspecified"
	}
	raw, err := lg.MarshalBinary()
	if err != nil {
		panic(err)
	}
	return &built{kind: kind, typ: structs.ResourceOperationType, raw: raw}
}

// ---------------------------------------------------------------- manual virtual IPs

func genManualVIPs(g *fullGen) *built {
	// Internal.AssignManualServiceVIPs: the IPs are validated and de-duplicated through a map
	ips := g.subset(fIPs, 3)
	if g.chance(12) {
		ips = []string{}
	}
	name := g.pick(fSvcNames)
	peer := ""
	// prefer services that own a virtual IP row
	_, vips, _ := g.r.store().ServiceVirtualIPs()
	if len(vips) > 0 && g.rng.Intn(6) > 0 {
		v := vips[g.rng.Intn(len(vips))]
		name = v.Service.ServiceName.Name
		if g.chance(3) {
			peer = v.Service.Peer // the row of an imported service (the endpoint itself only names local ones)
		}
	}
	if g.chance(10) && len(ips) > 0 {
		// beyond what the endpoint emits (it de-duplicates): a repeated address, as an older leader could send
		ips = append(ips, ips[g.rng.Intn(len(ips))])
	}
	req := state.ServiceVirtualIP{Service: structs.PeeredServiceName{ServiceName: structs.NewServiceName(name, nil), Peer: peer}, ManualIPs: ips}
	return &built{kind: "manual-vips", typ: structs.UpdateVirtualIPRequestType, msg: req}
}

// ---------------------------------------------------------------- entries that are not registered commands

// a message type this version does not know, flagged as safe to ignore (what a newer leader may send)
func genUnknownIgnorable(g *fullGen) *built {
	return &built{kind: "unknown-ignorable", typ: structs.MessageType(60) | structs.IgnoreUnknownTypeFlag, msg: map[string]string{"k": "v"}}
}

// the raft-wal log verifier's checkpoint entry (handled by the chunking shim)
func genVerifierCheckpoint(g *fullGen) *built {
	var ext [24]byte
	binary.LittleEndian.PutUint64(ext[0:8], verifier.ExtensionMagicPrefix)
	binary.LittleEndian.PutUint64(ext[8:16], g.idx)
	binary.LittleEndian.PutUint64(ext[16:24], uint64(g.rng.Int63()))
	return &built{kind: "verifier-checkpoint", typ: structs.RaftLogVerifierCheckpoint | structs.IgnoreUnknownTypeFlag, raw: []byte{0xc0}, ext: ext[:]}
}

// chunked: the command split the way raftApplyWithEncoder / raftchunking.ChunkingApply sends large
// commands: consecutive entries carrying ChunkInfo extensions; only the last returns the result.
func (g *fullGen) chunked(b *built, data []byte) []Entry {
	g.opn++
	n := 2 + g.rng.Intn(2)
	sz := (len(data) + n - 1) / n
	var es []Entry
	for i := 0; i < n; i++ {
		lo, hi := i*sz, (i+1)*sz
		if hi > len(data) {
			hi = len(data)
		}
		ext, err := proto.Marshal(&chunktypes.ChunkInfo{OpNum: g.opn, SequenceNum: uint32(i), NumChunks: uint32(n)})
		if err != nil {
			panic(err)
		}
		if i > 0 {
			g.idx++
		}
		es = append(es, Entry{Idx: g.idx, Kind: "chunk:" + b.kind, Type: -1, Data: hex.EncodeToString(data[lo:hi]), Ext: hex.EncodeToString(ext)})
	}
	es[len(es)-1].Type = int(data[0])
	return es
}

// ---------------------------------------------------------------- scripted histories (run first)

func scriptEntry(idx uint64, kind string, t structs.MessageType, msg interface{}) Entry {
	data, err := structs.Encode(t, msg)
	if err != nil {
		panic(err)
	}
	return Entry{Idx: idx, Kind: kind, Type: int(t), Data: hex.EncodeToString(data)}
}

// scripted returns fixed histories that exercise the map-ordered handlers densely: several connect
// services each owning manual virtual IPs, then assignments that take IPs away from two or three of
// them at once (AssignManualServiceVIPs ranges over a map of IPs and returns a map's keys).
func scripted() []History {
	var hs []History
	for variant := 0; variant < 2; variant++ {
		h := History{Profile: "scripted-manual-vips"}
		idx := uint64(0)
		add := func(kind string, t structs.MessageType, msg interface{}) {
			idx++
			h.Entries = append(h.Entries, scriptEntry(idx, kind, t, msg))
		}
		add("system-metadata:upsert", structs.SystemMetadataRequestType, &structs.SystemMetadataRequest{Datacenter: "dc1", Op: structs.SystemMetadataUpsert,
			Entry: &structs.SystemMetadataEntry{Key: structs.SystemMetadataVirtualIPsEnabled, Value: "true"}})
		for _, s := range fSvcNames {
			add("register:connect-native", structs.RegisterRequestType, &structs.RegisterRequest{Datacenter: "dc1", Node: "n1", Address: "10.0.0.1",
				Service: &structs.NodeService{ID: s + "1", Service: s, Port: 8000, Connect: structs.ServiceConnect{Native: true}}})
		}
		vip := func(svc string, ips ...string) {
			add("manual-vips", structs.UpdateVirtualIPRequestType, state.ServiceVirtualIP{
				Service: structs.PeeredServiceName{ServiceName: structs.NewServiceName(svc, nil)}, ManualIPs: ips})
		}
		for round := 0; round < 6; round++ {
			vip("web", "240.0.0.1")
			vip("db", "240.0.0.2")
			vip("api", "240.0.0.3")
			if variant == 0 {
				vip("cache", "240.0.0.1", "240.0.0.2", "240.0.0.3")
			} else {
				vip("cache", "240.0.0.2", "240.0.0.1")
			}
			vip("cache")
		}
		hs = append(hs, h)
	}
	hs = append(hs, scriptedErrorTexts())
	hs = append(hs, scriptedExportOfUnsafeChain())
	return hs
}

// scriptedExportOfUnsafeChain: a discovery chain that contains TWO resolvers, each unfit for peer export
// for a different reason (a cross-datacenter failover target on web, a cross-datacenter redirect on db),
// both legal while web is not exported; then web is exported.  validateChainIsPeerExportSafe ranges over
// the chain's resolvers (a map) and returns the first complaint.
func scriptedExportOfUnsafeChain() History {
	h := History{Profile: "scripted-export-unsafe-chain"}
	idx := uint64(0)
	ce := func(e structs.ConfigEntry) {
		if err := e.Normalize(); err != nil {
			panic(err)
		}
		if err := e.Validate(); err != nil {
			panic(err)
		}
		idx++
		h.Entries = append(h.Entries, scriptEntry(idx, "config-entry:upsert:"+e.GetKind(), structs.ConfigEntryRequestType,
			&structs.ConfigEntryRequest{Datacenter: "dc1", Op: structs.ConfigEntryUpsert, Entry: e}))
	}
	ce(&structs.ServiceResolverConfigEntry{Kind: structs.ServiceResolver, Name: "db", Redirect: &structs.ServiceResolverRedirect{Datacenter: "dc2"}})
	ce(&structs.ServiceResolverConfigEntry{Kind: structs.ServiceResolver, Name: "web", Failover: map[string]structs.ServiceResolverFailover{
		"*": {Targets: []structs.ServiceResolverFailoverTarget{{Service: "db"}, {Datacenter: "dc3"}}}}})
	for i := 0; i < 8; i++ {
		ce(&structs.ExportedServicesConfigEntry{Name: "default", Services: []structs.ExportedService{
			{Name: "web", Consumers: []structs.ServiceConsumer{{Peer: "peer-a"}}}}})
	}
	return h
}

// scriptedErrorTexts: rejected commands whose error text names "the first" offending item met while
// ranging over a Go map (service metadata pairs, missing JWT providers, failing discovery chains).
func scriptedErrorTexts() History {
	h := History{Profile: "scripted-error-texts"}
	idx := uint64(0)
	add := func(kind string, t structs.MessageType, msg interface{}) {
		idx++
		h.Entries = append(h.Entries, scriptEntry(idx, kind, t, msg))
	}
	ce := func(e structs.ConfigEntry) {
		if err := e.Normalize(); err != nil {
			panic(err)
		}
		if err := e.Validate(); err != nil {
			panic(err)
		}
		add("config-entry:upsert:"+e.GetKind(), structs.ConfigEntryRequestType, &structs.ConfigEntryRequest{Datacenter: "dc1", Op: structs.ConfigEntryUpsert, Entry: e})
	}
	add("register:node", structs.RegisterRequestType, &structs.RegisterRequest{Datacenter: "dc1", Node: "n1", Address: "10.0.0.1"})
	for i := 0; i < 6; i++ {
		// Catalog.Register does not vet service metadata; ensureServiceTxn does, inside the FSM
		add("register:service", structs.RegisterRequestType, &structs.RegisterRequest{Datacenter: "dc1", Node: "n1", Address: "10.0.0.1",
			Service: &structs.NodeService{ID: "web1", Service: "web", Port: 8000, Meta: map[string]string{"bad key!": "x", "also bad?": "y", "third bad,": "z"}}})
		// ConfigEntry.Apply validates the entry alone; the referenced providers are looked up inside the FSM
		si := &structs.ServiceIntentionsConfigEntry{Kind: structs.ServiceIntentions, Name: "web",
			Sources: []*structs.SourceIntention{{Name: "api", Action: structs.IntentionActionAllow}},
			JWT:     &structs.IntentionJWTRequirement{Providers: []*structs.IntentionJWTProvider{{Name: "okta"}, {Name: "auth0"}, {Name: "keycloak"}}}}
		ce(si)
	}
	// two exported services whose discovery chains both become invalid by one write
	ce(&structs.ProxyConfigEntry{Kind: structs.ProxyDefaults, Name: structs.ProxyConfigGlobal, Config: map[string]interface{}{"protocol": "http"}})
	ce(&structs.ServiceResolverConfigEntry{Kind: structs.ServiceResolver, Name: "web", Redirect: &structs.ServiceResolverRedirect{Service: "api"}})
	ce(&structs.ServiceResolverConfigEntry{Kind: structs.ServiceResolver, Name: "db", Redirect: &structs.ServiceResolverRedirect{Service: "api"}})
	ce(&structs.ServiceResolverConfigEntry{Kind: structs.ServiceResolver, Name: "cache", Redirect: &structs.ServiceResolverRedirect{Service: "api"}})
	ce(&structs.ExportedServicesConfigEntry{Name: "default", Services: []structs.ExportedService{
		{Name: "web", Consumers: []structs.ServiceConsumer{{Peer: "peer-a"}}},
		{Name: "db", Consumers: []structs.ServiceConsumer{{Peer: "peer-a"}}},
		{Name: "cache", Consumers: []structs.ServiceConsumer{{Peer: "peer-a"}}}}})
	for i := 0; i < 6; i++ {
		ce(&structs.ServiceResolverConfigEntry{Kind: structs.ServiceResolver, Name: "api", Redirect: &structs.ServiceResolverRedirect{Datacenter: "dc2"}})
	}
	return h
}
