// Correspondence harness and direct oracle for property C07 (catalog integrity).
//
// Drives a real fsm.FSM / state.Store with encoded Raft log entries over a small universe in which
// service kinds, proxies and their destinations, gateway config entries (with wildcards), node
// renames by ID, last-instance removals and catalog transactions all occur.  After EVERY command
// the whole catalog (base tables and every derived table) is dumped and a model-independent
// oracle recomputes each derived view from the base rows and config entries alone and compares:
// kind-service-names, usage counters (table and Store.ServiceUsage / NodeUsage), gateway-services
// (table and Store.GatewayServices), mesh-topology (table and Store.ServiceTopology), virtual IPs
// (table, Store.VirtualIPForService, free list, tagged addresses), plus orphan checks.
// The final dump of every history is also compared with the Coq model (Run/C07.v).
package main

import (
	"bufio"
	"encoding/json"
	"flag"
	"fmt"
	"math/rand"
	"net"
	"os"
	"reflect"
	"sort"
	"strings"

	"github.com/hashicorp/go-hclog"
	"github.com/hashicorp/raft"
	"github.com/hashicorp/serf/coordinate"

	"github.com/hashicorp/consul/agent/consul/fsm"
	"github.com/hashicorp/consul/agent/consul/state"
	"github.com/hashicorp/consul/agent/consul/stream"
	"github.com/hashicorp/consul/agent/netutil"
	"github.com/hashicorp/consul/agent/structs"
	"github.com/hashicorp/consul/api"
	"github.com/hashicorp/consul/types"
)

// ---------------------------------------------------------------- command description (JSON)

type SvcSpec struct {
	ID      string   `json:"id"`
	Name    string   `json:"name"`
	Kind    string   `json:"kind"` // "" connect-proxy mesh-gateway terminating-gateway ingress-gateway
	Native  bool     `json:"native"`
	Dest    string   `json:"dest"`
	Port    int      `json:"port"`
	Ups     []string `json:"ups"`
	Weights bool     `json:"weights"`           // request carries explicit default weights (as agents do)
	Index   uint64   `json:"index"`             // supplied ModifyIndex (txn cas verbs)
	TagVIP  int      `json:"tag_vip,omitempty"` // k > 0: the request itself carries TaggedAddresses["consul-virtual"] = 240.0.0.k (wide stream only)
}

type CheckReq struct {
	Node    string `json:"node"`
	ID      string `json:"id"`
	Status  int    `json:"status"` // 0 passing 1 warning 2 critical
	Service string `json:"service"`
	Index   uint64 `json:"index"`
}

type TxnOp struct {
	Kind  string    `json:"kind"` // node service check
	Verb  string    `json:"verb"` // get set cas delete delete-cas
	Node  string    `json:"node,omitempty"`
	ID    string    `json:"id,omitempty"`
	Addr  int       `json:"addr,omitempty"`
	Index uint64    `json:"index,omitempty"`
	Svc   *SvcSpec  `json:"svc,omitempty"`
	Check *CheckReq `json:"check,omitempty"`
}

type Listener struct {
	Port     int      `json:"port"`
	Services []string `json:"services"`
}

type Conf struct {
	Kind      string     `json:"kind"` // terminating-gateway ingress-gateway service-defaults service-resolver
	Name      string     `json:"name"`
	Services  []string   `json:"services,omitempty"`  // terminating-gateway linked services ("*" = wildcard)
	Listeners []Listener `json:"listeners,omitempty"` // ingress-gateway
	Dest      bool       `json:"dest,omitempty"`      // service-defaults with a Destination
}

type Cmd struct {
	Kind string `json:"kind"` // sysmeta register deregister txn conf_set conf_delete manual_vips coord
	Idx  uint64 `json:"idx"`
	// sysmeta
	Key   string `json:"key,omitempty"`
	Value string `json:"value,omitempty"`
	// register / deregister: "" = local, else the name of the peer the rows are imported from
	Peer string `json:"peer,omitempty"`
	// register
	Node   string     `json:"node,omitempty"`
	ID     string     `json:"id,omitempty"`
	Addr   int        `json:"addr,omitempty"`
	Skip   bool       `json:"skip,omitempty"`
	Svc    *SvcSpec   `json:"svc,omitempty"`
	Checks []CheckReq `json:"checks,omitempty"`
	// deregister
	SvcID   string `json:"svc_id,omitempty"`
	CheckID string `json:"check_id,omitempty"`
	// txn
	Ops []TxnOp `json:"ops,omitempty"`
	// config entries
	Conf *Conf `json:"conf,omitempty"`
	// manual vips
	Service string   `json:"service,omitempty"`
	IPs     []string `json:"ips,omitempty"`
}

// ---------------------------------------------------------------- projected observations

type NodeRow struct {
	Peer string `json:"peer,omitempty"` // "" = local; peer-imported rows appear only in the oracle-only peer stream
	Name string `json:"name"`
	ID   string `json:"id"`
	Addr int    `json:"addr"`
	C    uint64 `json:"c"`
	M    uint64 `json:"m"`
}
type SvcRow struct {
	Peer   string   `json:"peer,omitempty"`
	Node   string   `json:"node"`
	ID     string   `json:"id"`
	Name   string   `json:"name"`
	Kind   string   `json:"kind"`
	Native bool     `json:"native"`
	Dest   string   `json:"dest"`
	Port   int      `json:"port"`
	Ups    []string `json:"ups"`
	VIP    int64    `json:"vip"`   // "consul-virtual" tagged address minus the range start; -1 = none
	Extra  []string `json:"extra"` // other tagged addresses "key=addr"
	C      uint64   `json:"c"`
	M      uint64   `json:"m"`
}
type CheckRow struct {
	Peer    string `json:"peer,omitempty"`
	Node    string `json:"node"`
	ID      string `json:"id"`
	Status  int    `json:"status"`
	Svc     string `json:"svc"`
	SvcName string `json:"svcname"`
	C       uint64 `json:"c"`
	M       uint64 `json:"m"`
}
type ConfRow struct {
	Kind      string     `json:"kind"`
	Name      string     `json:"name"`
	Services  []string   `json:"services"`
	Listeners []Listener `json:"listeners"`
	Dest      bool       `json:"dest"`
}
type VIPRow struct {
	Peer    string   `json:"peer,omitempty"`
	Service string   `json:"service"`
	IP      int64    `json:"ip"`
	Manual  []string `json:"manual"`
}
type FreeRow struct {
	IP      int64 `json:"ip"`
	Counter bool  `json:"counter"`
}
type GSRow struct {
	Gateway  string `json:"gateway"`
	Service  string `json:"service"`
	Port     int    `json:"port"`
	GWKind   string `json:"gwkind"`
	Wildcard bool   `json:"wildcard"` // FromWildcard
	SvcKind  string `json:"svckind"`
}
type TopoRow struct {
	Up   string   `json:"up"`
	Down string   `json:"down"`
	Refs []string `json:"refs"`
}
type Dump struct {
	Nodes     []NodeRow   `json:"nodes"`
	Services  []SvcRow    `json:"services"`
	Checks    []CheckRow  `json:"checks"`
	Coords    []string    `json:"coords"`
	Confs     []ConfRow   `json:"confs"`
	KindNames [][2]string `json:"kindnames"`
	Usage     [][2]string `json:"usage"` // id, count  (zero counts dropped)
	VIPs      []VIPRow    `json:"vips"`
	Free      []FreeRow   `json:"free"`
	GWS       []GSRow     `json:"gws"`
	Topo      []TopoRow   `json:"topo"`
	VIPsOn    bool        `json:"vips_on"`
	Other     [][2]string `json:"-"`
}

type Res struct {
	Kind  string   `json:"kind"` // nil bool err txn-ok txn-err manual
	Bool  bool     `json:"bool,omitempty"`
	Err   string   `json:"err,omitempty"`
	Msg   string   `json:"msg,omitempty"`
	Op    int      `json:"op,omitempty"`    // txn-err: first failing op
	Found bool     `json:"found,omitempty"` // manual
	From  []string `json:"from,omitempty"`  // manual: unassigned from (sorted)
}

type OracleFail struct {
	Step int    `json:"step"`
	Kind string `json:"kind"` // orphan kindnames usage gateway-services topology vip-unique vip-advertised ...
	Sub  string `json:"sub"`  // structured sub-class
	What string `json:"what"` // human detail
	// Cause: the known class of histories the failure belongs to ("" = none: the failure is in a
	// history outside every excluded class); computed from the real dumps, not from the model
	Cause string `json:"cause"`
	// Rows: the differing rows of this failure in a machine-readable form (view specific); the attribution
	// to an open finding is decided row by row
	Rows []string `json:"rows,omitempty"`
}

type History struct {
	ID      int             `json:"id"`
	Mix     string          `json:"mix"`
	Model   bool            `json:"model"` // inside the modelled fragment: compared with the Coq model
	Cmds    []Cmd           `json:"cmds"`
	Results []Res           `json:"results"`
	Final   Dump            `json:"final"`
	Oracle  []OracleFail    `json:"oracle"`
	Shrunk  []Cmd           `json:"shrunk,omitempty"`
	Stats   map[string]int  `json:"stats,omitempty"`
	Flags   map[string]bool `json:"flags,omitempty"`
}

// ---------------------------------------------------------------- universe

var (
	nodeNames = []string{"n1", "n2", "n3"}
	nodeIDs   = []string{"", "11111111-1111-1111-1111-111111111111", "22222222-2222-2222-2222-222222222222"}
	svcIDs    = []string{"s1", "s2", "s3"}
	plainName = []string{"web", "db", "api"}
	checkIDs  = []string{"c1", "c2", "serfHealth"}
	tgwNames  = []string{"tgw", "tgw2"}
	igwNames  = []string{"igw"}
	manualIPs = []string{"1.1.1.1", "2.2.2.2", "3.3.3.3"}
	extName   = "ext" // the name that service-defaults entries turn into a destination
)

// universe: the tables above.  The default one is all lower case (the Coq model compares names
// exactly).  caseUniverse is used by the oracle-only stream: node names, service names and ids with
// upper-case letters, digits, dots and dashes, and two node names that differ only in case (the store
// keys nodes, service ids and service names by their lower-cased form but stores them as given).
type universe struct {
	nodes, svcIDs, plain, tgw, igw []string
	ext                            string
}

var (
	lowerUniverse = universe{nodeNames, svcIDs, plainName, tgwNames, igwNames, extName}
	caseUniverse  = universe{
		nodes:  []string{"Web-Host-1", "DB.Node-2", "web-host-1"},
		svcIDs: []string{"Svc-1", "s.2", "S3"},
		plain:  []string{"Web", "db.v1", "Api-2"},
		tgw:    []string{"TGW-1", "tgw2"},
		igw:    []string{"IGW.a"},
		ext:    "Ext-1",
	}
)

func setUniverse(u universe) {
	nodeNames, svcIDs, plainName, tgwNames, igwNames, extName = u.nodes, u.svcIDs, u.plain, u.tgw, u.igw, u.ext
}

const vipBase = 240 << 24 // 240.0.0.0

// ---------------------------------------------------------------- implementation under test

type recPublisher struct{ events int }

func (r *recPublisher) Publish(e []stream.Event) { r.events += len(e) }
func (r *recPublisher) RegisterHandler(stream.Topic, stream.SnapshotFunc, bool) error {
	return nil
}
func (r *recPublisher) Subscribe(*stream.SubscribeRequest) (*stream.Subscription, error) {
	return nil, fmt.Errorf("not supported")
}

type impl struct {
	f *fsm.FSM
}

func newImpl() *impl {
	pub := &recPublisher{}
	f := fsm.NewFromDeps(fsm.Deps{
		Logger: hclog.NewNullLogger(),
		NewStateStore: func() *state.Store {
			return state.NewStateStoreWithEventPublisher(nil, pub)
		},
		StorageBackend: fsm.NullStorageBackend,
	})
	im := &impl{f: f}
	// the topology query compiles discovery chains, which needs a CA configuration (trust domain)
	if err := im.store().CASetConfig(0, &structs.CAConfiguration{ClusterID: "11111111-2222-3333-4444-555555555555", Provider: "consul"}); err != nil {
		panic(err)
	}
	return im
}

func (im *impl) store() *state.Store { return im.f.State() }

var statusNames = []string{api.HealthPassing, api.HealthWarning, api.HealthCritical}

func addrOf(n int) string { return fmt.Sprintf("10.0.0.%d", n) }
func addrNum(a string) int {
	var n int
	fmt.Sscanf(a, "10.0.0.%d", &n)
	return n
}
func statusNum(s string) int {
	for i, n := range statusNames {
		if n == s {
			return i
		}
	}
	return 99
}

func nodeService(s *SvcSpec) *structs.NodeService {
	ns := &structs.NodeService{ID: s.ID, Service: s.Name, Kind: structs.ServiceKind(s.Kind), Port: s.Port,
		RaftIndex: structs.RaftIndex{ModifyIndex: s.Index}}
	ns.Connect.Native = s.Native
	if s.Kind == string(structs.ServiceKindConnectProxy) {
		ns.Proxy.DestinationServiceName = s.Dest
	}
	for i, u := range s.Ups {
		ns.Proxy.Upstreams = append(ns.Proxy.Upstreams, structs.Upstream{DestinationType: structs.UpstreamDestTypeService,
			DestinationName: u, LocalBindPort: 9000 + i})
	}
	if s.Weights {
		ns.Weights = &structs.Weights{Passing: 1, Warning: 1}
	}
	if s.TagVIP > 0 {
		ns.TaggedAddresses = map[string]structs.ServiceAddress{
			structs.TaggedAddressVirtualIP: {Address: fmt.Sprintf("240.0.0.%d", s.TagVIP), Port: s.Port}}
	}
	return ns
}

func healthCheck(c *CheckReq) *structs.HealthCheck {
	return &structs.HealthCheck{Node: c.Node, CheckID: types.CheckID(c.ID), Name: "chk", Status: statusNames[c.Status],
		ServiceID: c.Service, RaftIndex: structs.RaftIndex{ModifyIndex: c.Index}}
}

func configEntry(c *Conf) structs.ConfigEntry {
	switch c.Kind {
	case structs.TerminatingGateway:
		e := &structs.TerminatingGatewayConfigEntry{Kind: c.Kind, Name: c.Name}
		for _, s := range c.Services {
			e.Services = append(e.Services, structs.LinkedService{Name: s})
		}
		return e
	case structs.IngressGateway:
		e := &structs.IngressGatewayConfigEntry{Kind: c.Kind, Name: c.Name}
		for _, l := range c.Listeners {
			il := structs.IngressListener{Port: l.Port, Protocol: "http"}
			for _, s := range l.Services {
				il.Services = append(il.Services, structs.IngressService{Name: s})
			}
			e.Listeners = append(e.Listeners, il)
		}
		return e
	case structs.ServiceDefaults:
		// every service speaks http (as proxy-defaults says), so that ingress listeners validate
		e := &structs.ServiceConfigEntry{Kind: c.Kind, Name: c.Name, Protocol: "http"}
		if c.Dest {
			e.Destination = &structs.DestinationConfig{Addresses: []string{"example.com"}, Port: 443}
		}
		return e
	case structs.ServiceResolver:
		return &structs.ServiceResolverConfigEntry{Kind: c.Kind, Name: c.Name}
	case structs.ProxyDefaults:
		return &structs.ProxyConfigEntry{Kind: c.Kind, Name: structs.ProxyConfigGlobal, Config: map[string]interface{}{"protocol": "http"}}
	}
	panic("unknown config entry kind " + c.Kind)
}

// prepared as the RPC endpoint prepares it; returns nil when the endpoint would reject the entry
func preparedEntry(c *Conf) structs.ConfigEntry {
	e := configEntry(c)
	if err := e.Normalize(); err != nil {
		return nil
	}
	if err := e.Validate(); err != nil {
		return nil
	}
	return e
}

func txnOp(o *TxnOp) *structs.TxnOp {
	switch o.Kind {
	case "node":
		return &structs.TxnOp{Node: &structs.TxnNodeOp{Verb: api.NodeOp(o.Verb),
			Node: structs.Node{Node: o.Node, ID: types.NodeID(o.ID), Address: addrOf(o.Addr), Datacenter: "dc1",
				RaftIndex: structs.RaftIndex{ModifyIndex: o.Index}}}}
	case "service":
		return &structs.TxnOp{Service: &structs.TxnServiceOp{Verb: api.ServiceOp(o.Verb), Node: o.Node, Service: *nodeService(o.Svc)}}
	case "check":
		return &structs.TxnOp{Check: &structs.TxnCheckOp{Verb: api.CheckOp(o.Verb), Check: *healthCheck(o.Check)}}
	}
	panic("unknown txn op kind " + o.Kind)
}

func encode(c *Cmd) []byte {
	var t structs.MessageType
	var msg interface{}
	switch c.Kind {
	case "sysmeta":
		t = structs.SystemMetadataRequestType
		msg = &structs.SystemMetadataRequest{Datacenter: "dc1", Op: structs.SystemMetadataUpsert,
			Entry: &structs.SystemMetadataEntry{Key: c.Key, Value: c.Value}}
	case "register":
		t = structs.RegisterRequestType
		r := &structs.RegisterRequest{Datacenter: "dc1", Node: c.Node, ID: types.NodeID(c.ID), Address: addrOf(c.Addr), SkipNodeUpdate: c.Skip, PeerName: c.Peer}
		if c.Svc != nil {
			r.Service = nodeService(c.Svc)
		}
		for i := range c.Checks {
			r.Checks = append(r.Checks, healthCheck(&c.Checks[i]))
		}
		msg = r
	case "deregister":
		t = structs.DeregisterRequestType
		msg = &structs.DeregisterRequest{Datacenter: "dc1", Node: c.Node, ServiceID: c.SvcID, CheckID: types.CheckID(c.CheckID), PeerName: c.Peer}
	case "txn":
		t = structs.TxnRequestType
		r := &structs.TxnRequest{Datacenter: "dc1"}
		for i := range c.Ops {
			r.Ops = append(r.Ops, txnOp(&c.Ops[i]))
		}
		msg = r
	case "conf_set":
		t = structs.ConfigEntryRequestType
		e := preparedEntry(c.Conf)
		if e == nil {
			e = configEntry(c.Conf)
		}
		msg = &structs.ConfigEntryRequest{Datacenter: "dc1", Op: structs.ConfigEntryUpsert, Entry: e}
	case "conf_delete":
		t = structs.ConfigEntryRequestType
		msg = &structs.ConfigEntryRequest{Datacenter: "dc1", Op: structs.ConfigEntryDelete, Entry: configEntry(c.Conf)}
	case "manual_vips":
		t = structs.UpdateVirtualIPRequestType
		msg = state.ServiceVirtualIP{Service: structs.PeeredServiceName{ServiceName: structs.NewServiceName(c.Service, nil)}, ManualIPs: c.IPs}
	case "coord":
		t = structs.CoordinateBatchUpdateType
		msg = structs.Coordinates{&structs.Coordinate{Node: c.Node, Coord: coordinate.NewCoordinate(coordinate.DefaultConfig())}}
	default:
		panic("unknown cmd kind " + c.Kind)
	}
	b, err := structs.Encode(t, msg)
	if err != nil {
		panic(err)
	}
	return b
}

func errClass(msg string) string {
	switch {
	case strings.Contains(msg, "index is stale"):
		return "EStale"
	case strings.Contains(msg, "is reserved by node"):
		return "ESimilarName"
	case strings.Contains(msg, "does not match node"):
		return "ECheckNodeMismatch"
	case strings.Contains(msg, state.ErrMissingNode.Error()):
		return "EMissingNode"
	case strings.Contains(msg, state.ErrMissingService.Error()):
		return "EMissingService"
	case strings.Contains(msg, "doesn't exist"), strings.Contains(msg, "not found"):
		return "ENotFound"
	case strings.Contains(msg, "cannot allocate any more unique service virtual IPs"):
		return "EVipExhausted"
	}
	return "EOther:" + msg
}

func (im *impl) apply(c *Cmd) (res Res) {
	// a panic inside the store (e.g. a dereference of a missing parent row) ends the history: the
	// write transaction is left open and the store cannot be used further
	defer func() {
		if r := recover(); r != nil {
			res = Res{Kind: "panic", Msg: fmt.Sprint(r)}
		}
	}()
	out := im.f.Apply(&raft.Log{Index: c.Idx, Term: 1, Type: raft.LogCommand, Data: encode(c)})
	switch v := out.(type) {
	case nil:
		return Res{Kind: "nil"}
	case bool:
		return Res{Kind: "bool", Bool: v}
	case error:
		return Res{Kind: "err", Err: errClass(v.Error()), Msg: v.Error()}
	case structs.TxnResponse:
		if len(v.Errors) == 0 {
			return Res{Kind: "txn-ok"}
		}
		return Res{Kind: "txn-err", Op: v.Errors[0].OpIndex, Err: errClass(v.Errors[0].What), Msg: v.Errors[0].What}
	case structs.AssignServiceManualVIPsResponse:
		r := Res{Kind: "manual", Found: v.Found, From: []string{}}
		for _, p := range v.UnassignedFrom {
			r.From = append(r.From, p.ServiceName.Name)
		}
		sort.Strings(r.From)
		return r
	}
	return Res{Kind: "err", Err: fmt.Sprintf("EOther:unexpected result type %T", out)}
}

func ipNum(ip net.IP) int64 {
	v4 := ip.To4()
	if v4 == nil {
		return -2
	}
	return int64(v4[0])<<24 | int64(v4[1])<<16 | int64(v4[2])<<8 | int64(v4[3])
}

func svcRow(v *structs.ServiceNode) SvcRow {
	r := SvcRow{Peer: v.PeerName, Node: v.Node, ID: v.ServiceID, Name: v.ServiceName, Kind: string(v.ServiceKind), Native: v.ServiceConnect.Native,
		Dest: v.ServiceProxy.DestinationServiceName, Port: v.ServicePort, Ups: []string{}, VIP: -1, Extra: []string{},
		C: v.CreateIndex, M: v.ModifyIndex}
	for _, u := range v.ServiceProxy.Upstreams {
		r.Ups = append(r.Ups, u.DestinationName)
	}
	for k, a := range v.ServiceTaggedAddresses {
		if k == structs.TaggedAddressVirtualIP {
			ip := net.ParseIP(a.Address)
			if ip == nil || ip.To4() == nil {
				r.VIP = -2
			} else {
				r.VIP = ipNum(ip) - vipBase
			}
			if a.Port != v.ServicePort {
				r.Extra = append(r.Extra, fmt.Sprintf("%s.port=%d", k, a.Port))
			}
		} else {
			r.Extra = append(r.Extra, k+"="+a.Address)
		}
	}
	sort.Strings(r.Extra)
	return r
}

func confRow(e structs.ConfigEntry) (ConfRow, bool) {
	r := ConfRow{Kind: e.GetKind(), Name: e.GetName(), Services: []string{}, Listeners: []Listener{}}
	switch x := e.(type) {
	case *structs.TerminatingGatewayConfigEntry:
		for _, s := range x.Services {
			r.Services = append(r.Services, s.Name)
		}
	case *structs.IngressGatewayConfigEntry:
		for _, l := range x.Listeners {
			ll := Listener{Port: l.Port, Services: []string{}}
			for _, s := range l.Services {
				ll.Services = append(ll.Services, s.Name)
			}
			r.Listeners = append(r.Listeners, ll)
		}
	case *structs.ServiceConfigEntry:
		r.Dest = x.Destination != nil
	case *structs.ServiceResolverConfigEntry:
	default:
		return r, false
	}
	return r, true
}

func (im *impl) dump() Dump {
	d := Dump{Nodes: []NodeRow{}, Services: []SvcRow{}, Checks: []CheckRow{}, Coords: []string{}, Confs: []ConfRow{},
		KindNames: [][2]string{}, Usage: [][2]string{}, VIPs: []VIPRow{}, Free: []FreeRow{}, GWS: []GSRow{}, Topo: []TopoRow{}}
	st := im.store()
	st.WalkAllTables(func(table string, item interface{}) bool {
		switch v := item.(type) {
		case *structs.Node:
			d.Nodes = append(d.Nodes, NodeRow{Peer: v.PeerName, Name: v.Node, ID: string(v.ID), Addr: addrNum(v.Address), C: v.CreateIndex, M: v.ModifyIndex})
		case *structs.ServiceNode:
			d.Services = append(d.Services, svcRow(v))
		case *structs.HealthCheck:
			d.Checks = append(d.Checks, CheckRow{Peer: v.PeerName, Node: v.Node, ID: string(v.CheckID), Status: statusNum(v.Status), Svc: v.ServiceID,
				SvcName: v.ServiceName, C: v.CreateIndex, M: v.ModifyIndex})
		case *structs.Coordinate:
			d.Coords = append(d.Coords, v.Node)
		case structs.ConfigEntry:
			if r, ok := confRow(v); ok {
				d.Confs = append(d.Confs, r)
			}
		case *state.KindServiceName:
			d.KindNames = append(d.KindNames, [2]string{string(v.Kind), v.Service.Name})
		case *state.UsageEntry:
			if v.Count != 0 {
				d.Usage = append(d.Usage, [2]string{v.ID, fmt.Sprint(v.Count)})
			}
		case state.ServiceVirtualIP:
			m := append([]string{}, v.ManualIPs...)
			d.VIPs = append(d.VIPs, VIPRow{Peer: v.Service.Peer, Service: v.Service.ServiceName.Name, IP: ipNum(v.IP), Manual: m})
		case state.FreeVirtualIP:
			d.Free = append(d.Free, FreeRow{IP: ipNum(v.IP), Counter: v.IsCounter})
		case *structs.GatewayService:
			d.GWS = append(d.GWS, GSRow{Gateway: v.Gateway.Name, Service: v.Service.Name, Port: v.Port, GWKind: string(v.GatewayKind),
				Wildcard: v.FromWildcard, SvcKind: string(v.ServiceKind)})
		case *structs.SystemMetadataEntry:
			if v.Key == structs.SystemMetadataVirtualIPsEnabled && v.Value != "" {
				d.VIPsOn = true
			}
		default:
			if table == "mesh-topology" {
				rv := reflect.Indirect(reflect.ValueOf(item))
				up := rv.FieldByName("Upstream").Interface().(structs.ServiceName)
				down := rv.FieldByName("Downstream").Interface().(structs.ServiceName)
				r := TopoRow{Up: up.Name, Down: down.Name, Refs: []string{}}
				for _, k := range rv.FieldByName("Refs").MapKeys() {
					r.Refs = append(r.Refs, k.String())
				}
				sort.Strings(r.Refs)
				d.Topo = append(d.Topo, r)
			}
		}
		return true
	})
	sort.Slice(d.Nodes, func(i, j int) bool {
		return d.Nodes[i].Peer+"\x00"+d.Nodes[i].Name < d.Nodes[j].Peer+"\x00"+d.Nodes[j].Name
	})
	sort.Slice(d.Services, func(i, j int) bool {
		return d.Services[i].Peer+"\x00"+d.Services[i].Node+"\x00"+d.Services[i].ID < d.Services[j].Peer+"\x00"+d.Services[j].Node+"\x00"+d.Services[j].ID
	})
	sort.Slice(d.Checks, func(i, j int) bool {
		return d.Checks[i].Peer+"\x00"+d.Checks[i].Node+"\x00"+d.Checks[i].ID < d.Checks[j].Peer+"\x00"+d.Checks[j].Node+"\x00"+d.Checks[j].ID
	})
	sort.Strings(d.Coords)
	sort.Slice(d.Confs, func(i, j int) bool {
		return d.Confs[i].Kind+"\x00"+d.Confs[i].Name < d.Confs[j].Kind+"\x00"+d.Confs[j].Name
	})
	sort.Slice(d.KindNames, func(i, j int) bool {
		return d.KindNames[i][0]+"\x00"+d.KindNames[i][1] < d.KindNames[j][0]+"\x00"+d.KindNames[j][1]
	})
	sort.Slice(d.Usage, func(i, j int) bool { return d.Usage[i][0] < d.Usage[j][0] })
	sort.Slice(d.VIPs, func(i, j int) bool {
		return d.VIPs[i].Peer+"\x00"+d.VIPs[i].Service < d.VIPs[j].Peer+"\x00"+d.VIPs[j].Service
	})
	sort.Slice(d.Free, func(i, j int) bool { return d.Free[i].IP < d.Free[j].IP })
	gk := func(g GSRow) string { return fmt.Sprintf("%s\x00%s\x00%08d", g.Gateway, g.Service, g.Port) }
	sort.Slice(d.GWS, func(i, j int) bool { return gk(d.GWS[i]) < gk(d.GWS[j]) })
	sort.Slice(d.Topo, func(i, j int) bool { return d.Topo[i].Up+"\x00"+d.Topo[i].Down < d.Topo[j].Up+"\x00"+d.Topo[j].Down })
	return d
}

// ---------------------------------------------------------------- the direct oracle: recompute from scratch

func connectName(s *SvcRow) (string, bool) {
	switch {
	case s.Kind == "connect-proxy":
		return s.Dest, true
	case s.Native:
		return s.Name, true
	}
	return "", false
}

func setDiff(kind string, want, got map[string]bool) (sub, what string) {
	var missing, extra []string
	for k := range want {
		if !got[k] {
			missing = append(missing, k)
		}
	}
	for k := range got {
		if !want[k] {
			extra = append(extra, k)
		}
	}
	sort.Strings(missing)
	sort.Strings(extra)
	switch {
	case len(missing) > 0 && len(extra) > 0:
		sub = "missing+extra"
	case len(missing) > 0:
		sub = "missing"
	case len(extra) > 0:
		sub = "extra"
	default:
		return "", ""
	}
	return sub, fmt.Sprintf("%s: missing=%v extra=%v", kind, missing, extra)
}

// recomputeKindNames: (kind, name) for every local instance, (connect-enabled, n) for every instance in the
// connect index, (destination, n) for every service-defaults entry with a destination.
func recomputeKindNames(d *Dump) map[string]bool {
	want := map[string]bool{}
	for i := range d.Services {
		s := &d.Services[i]
		want[s.Kind+"|"+s.Name] = true
		if n, ok := connectName(s); ok && n != "" {
			want["connect-enabled|"+n] = true
		}
	}
	for _, c := range d.Confs {
		if c.Kind == structs.ServiceDefaults && c.Dest {
			want["destination|"+c.Name] = true
		}
	}
	return want
}

func recomputeUsage(d *Dump) map[string]int {
	u := map[string]int{}
	u["nodes"] = len(d.Nodes)
	u["services"] = len(d.Services)
	names := map[string]bool{}
	for i := range d.Services {
		s := &d.Services[i]
		names[s.Name] = true
		if s.Kind != "" {
			u["connect-mesh-"+s.Kind]++
		}
		if s.Native {
			u["connect-mesh-connect-native"]++
		}
		if s.Kind == "" && s.Name != "consul" {
			u["billable-services"]++
		}
	}
	u["service-names"] = len(names)
	for _, c := range d.Confs {
		u["config-entries-"+c.Kind]++
	}
	return u
}

// instances by name
func hasInstances(d *Dump, name string) (any, connect, nonNative, typical bool) {
	for i := range d.Services {
		s := &d.Services[i]
		if s.Name == name {
			any = true
			if !s.Native {
				nonNative = true
			}
			if s.Kind == "" {
				typical = true
			}
		}
		if n, ok := connectName(s); ok && n == name {
			connect = true
		}
	}
	return
}

func destConf(d *Dump, name string) bool {
	for _, c := range d.Confs {
		if c.Kind == structs.ServiceDefaults && c.Name == name && c.Dest {
			return true
		}
	}
	return false
}

func gatewayServiceKind(d *Dump, name string) string {
	if a, _, _, _ := hasInstances(d, name); a {
		return "service"
	}
	if destConf(d, name) {
		return "destination"
	}
	return ""
}

// recomputeGatewayServices: the association of gateways with services that the config entries and the
// registrations determine.  Key "gateway|service|port", value "gwkind|fromWildcard|svckind".
func recomputeGatewayServices(d *Dump) map[string]string {
	want := map[string]string{}
	typicalNames := map[string]bool{}
	for i := range d.Services {
		if d.Services[i].Kind == "" && d.Services[i].Name != "consul" {
			typicalNames[d.Services[i].Name] = true
		}
	}
	// names with a connect instance (proxy for it, or native): what an ingress wildcard targets
	connectNames := map[string]bool{}
	for i := range d.Services {
		if n, ok := connectName(&d.Services[i]); ok && n != "" && n != "consul" {
			connectNames[n] = true
		}
	}
	for _, c := range d.Confs {
		switch c.Kind {
		case structs.TerminatingGateway:
			wild := false
			for _, s := range c.Services {
				if s == "*" {
					wild = true
					continue
				}
				want[fmt.Sprintf("%s|%s|0", c.Name, s)] = "terminating-gateway|false|" + gatewayServiceKind(d, s)
			}
			if wild {
				want[fmt.Sprintf("%s|*|0", c.Name)] = "terminating-gateway|false|"
				for n := range typicalNames {
					_, _, nonNative, _ := hasInstances(d, n)
					k := fmt.Sprintf("%s|%s|0", c.Name, n)
					if _, exact := want[k]; !exact && nonNative {
						want[k] = "terminating-gateway|true|service"
					}
				}
				for _, e := range d.Confs {
					if e.Kind == structs.ServiceDefaults && e.Dest {
						k := fmt.Sprintf("%s|%s|0", c.Name, e.Name)
						if _, exact := want[k]; !exact {
							want[k] = "terminating-gateway|true|" + gatewayServiceKind(d, e.Name)
						}
					}
				}
			}
		case structs.IngressGateway:
			for _, l := range c.Listeners {
				wild := false
				for _, s := range l.Services {
					if s == "*" {
						wild = true
						continue
					}
					want[fmt.Sprintf("%s|%s|%d", c.Name, s, l.Port)] = "ingress-gateway|false|"
				}
				if wild {
					want[fmt.Sprintf("%s|*|%d", c.Name, l.Port)] = "ingress-gateway|false|"
					for n := range connectNames {
						k := fmt.Sprintf("%s|%s|%d", c.Name, n, l.Port)
						if _, exact := want[k]; !exact {
							want[k] = "ingress-gateway|true|service"
						}
					}
				}
			}
		}
	}
	return want
}

// recomputeTopology: upstream|downstream -> sorted refs.  From proxies / natives with upstreams and from
// ingress gateway associations (no refs).
func recomputeTopology(d *Dump, gws map[string]string) map[string]string {
	refs := map[string][]string{}
	for i := range d.Services {
		s := &d.Services[i]
		if s.Kind != "connect-proxy" && !s.Native {
			continue
		}
		for _, u := range s.Ups {
			k := u + "|" + s.Dest
			refs[k] = append(refs[k], strings.ToLower(s.Node+"/"+s.ID))
		}
	}
	want := map[string]string{}
	for k, r := range refs {
		sort.Strings(r)
		want[k] = strings.Join(uniq(r), ",")
	}
	for k, v := range gws {
		p := strings.Split(k, "|")
		if strings.HasPrefix(v, "ingress-gateway|") && p[1] != "*" {
			tk := p[1] + "|" + p[0]
			if _, ok := want[tk]; !ok {
				want[tk] = ""
			}
		}
	}
	return want
}

func uniq(xs []string) []string {
	var out []string
	for i, x := range xs {
		if i == 0 || x != xs[i-1] {
			out = append(out, x)
		}
	}
	return out
}

func mapDiff(want, got map[string]string) (sub, what string) {
	var missing, extra, differ []string
	for k, v := range want {
		g, ok := got[k]
		if !ok {
			missing = append(missing, k)
		} else if g != v {
			differ = append(differ, fmt.Sprintf("%s: want %s got %s", k, v, g))
		}
	}
	for k := range got {
		if _, ok := want[k]; !ok {
			extra = append(extra, k)
		}
	}
	sort.Strings(missing)
	sort.Strings(extra)
	sort.Strings(differ)
	var parts []string
	if len(missing) > 0 {
		parts = append(parts, "missing")
	}
	if len(extra) > 0 {
		parts = append(parts, "extra")
	}
	if len(differ) > 0 {
		parts = append(parts, "differ")
	}
	if len(parts) == 0 {
		return "", ""
	}
	return strings.Join(parts, "+"), fmt.Sprintf("missing=%v extra=%v differ=%v", missing, extra, differ)
}

// localView: the dump without the rows imported from peers.  Every derived view (kind-service-names, usage,
// gateway-services, mesh-topology) is recomputed from the LOCAL registrations only: no derived row may owe its
// existence to an imported row.  (Virtual IPs are per (peer, name) and are checked on the whole dump.)
func localView(d *Dump) *Dump {
	l := *d
	l.Nodes, l.Services, l.Checks, l.VIPs = nil, nil, nil, nil
	for _, n := range d.Nodes {
		if n.Peer == "" {
			l.Nodes = append(l.Nodes, n)
		}
	}
	for _, x := range d.Services {
		if x.Peer == "" {
			l.Services = append(l.Services, x)
		}
	}
	for _, c := range d.Checks {
		if c.Peer == "" {
			l.Checks = append(l.Checks, c)
		}
	}
	for _, v := range d.VIPs {
		if v.Peer == "" {
			l.VIPs = append(l.VIPs, v)
		}
	}
	return &l
}

func (im *impl) oracle(step int, all *Dump) []OracleFail {
	d := localView(all)
	var out []OracleFail
	fail := func(kind, sub, what string) {
		out = append(out, OracleFail{Step: step, Kind: kind, Sub: sub, What: what})
	}
	failRows := func(kind, sub, what string, rows []string) {
		sort.Strings(rows)
		out = append(out, OracleFail{Step: step, Kind: kind, Sub: sub, What: what, Rows: rows})
	}
	st := im.store()

	// ---- orphans (also covers the cascades: a removed parent leaves no row behind)
	lc := strings.ToLower // the store keys nodes and service ids by their lower-cased form
	// a row's parent is the row of the same peer ("" = local): an imported service under a local node of
	// the same name is an orphan
	nodes := map[string]bool{}
	for _, n := range all.Nodes {
		nodes[n.Peer+"\x00"+lc(n.Name)] = true
	}
	svcs := map[string]*SvcRow{}
	pfx := func(peer string) string {
		if peer == "" {
			return ""
		}
		return "imported-"
	}
	for i := range all.Services {
		s := &all.Services[i]
		svcs[s.Peer+"\x00"+lc(s.Node+"/"+s.ID)] = s
		if !nodes[s.Peer+"\x00"+lc(s.Node)] {
			fail("orphan", pfx(s.Peer)+"service-without-node", s.Peer+":"+s.Node+"/"+s.ID)
		}
	}
	for _, c := range all.Checks {
		if !nodes[c.Peer+"\x00"+lc(c.Node)] {
			fail("orphan", pfx(c.Peer)+"check-without-node", c.Peer+":"+c.Node+"/"+c.ID)
		}
		if c.Svc != "" {
			if s := svcs[c.Peer+"\x00"+lc(c.Node+"/"+c.Svc)]; s == nil {
				fail("orphan", pfx(c.Peer)+"check-without-service", c.Peer+":"+c.Node+"/"+c.ID+" -> "+c.Svc)
			}
		}
	}
	for _, n := range d.Coords {
		if !nodes["\x00"+lc(n)] {
			fail("orphan", "coordinate-without-node", n)
		}
	}

	// ---- kind-service-names
	gotKN := map[string]bool{}
	for _, k := range d.KindNames {
		gotKN[k[0]+"|"+k[1]] = true
	}
	{
		split := func(m map[string]bool, dest bool) map[string]bool {
			o := map[string]bool{}
			for k := range m {
				if strings.HasPrefix(k, "destination|") == dest {
					o[k] = true
				}
			}
			return o
		}
		wantKN := recomputeKindNames(d)
		if sub, what := setDiff("kind-service-names", split(wantKN, false), split(gotKN, false)); sub != "" {
			var rows []string
			for k := range split(gotKN, false) {
				if !wantKN[k] {
					rows = append(rows, k)
				}
			}
			failRows("kindnames", sub, what, rows)
		}
		if sub, what := setDiff("kind-service-names", split(wantKN, true), split(gotKN, true)); sub != "" {
			var rows []string
			for k := range split(gotKN, true) {
				if !wantKN[k] {
					rows = append(rows, k)
				}
			}
			failRows("kindnames", "destination-"+sub, what, rows)
		}
	}
	// the query API agrees with the table
	for _, kind := range []structs.ServiceKind{structs.ServiceKindTypical, structs.ServiceKindConnectProxy, structs.ServiceKindConnectEnabled,
		structs.ServiceKindMeshGateway, structs.ServiceKindTerminatingGateway, structs.ServiceKindIngressGateway, structs.ServiceKindDestination} {
		_, names, err := st.ServiceNamesOfKind(nil, kind)
		if err != nil {
			fail("kindnames", "api-error", err.Error())
			continue
		}
		api := map[string]bool{}
		for _, n := range names {
			api[string(kind)+"|"+n.Service.Name] = true
		}
		tab := map[string]bool{}
		for k := range gotKN {
			if strings.HasPrefix(k, string(kind)+"|") {
				tab[k] = true
			}
		}
		if sub, what := setDiff("ServiceNamesOfKind("+string(kind)+")", tab, api); sub != "" {
			fail("kindnames", "api-"+sub, what)
		}
	}

	// ---- usage
	usageFailsBefore := len(out)
	wantU := recomputeUsage(d)
	gotU := map[string]int{}
	for _, u := range d.Usage {
		var n int
		fmt.Sscan(u[1], &n)
		gotU[u[0]] = n
	}
	for _, id := range unionKeys(wantU, gotU) {
		if id == "config-entries-proxy-defaults" {
			// kinds the harness writes but does not dump (proxy-defaults)
			continue
		}
		if wantU[id] != gotU[id] {
			fail("usage", id, fmt.Sprintf("%s: recomputed %d stored %d", id, wantU[id], gotU[id]))
		}
	}
	tableUsageOK := len(out) == usageFailsBefore
	if _, su, err := st.ServiceUsage(nil, false); err != nil || !tableUsageOK {
		if err != nil {
			fail("usage", "api-error", err.Error())
		}
	} else {
		if su.ServiceInstances != wantU["services"] || su.Services != wantU["service-names"] || su.Nodes != wantU["nodes"] ||
			su.BillableServiceInstances != wantU["billable-services"] {
			fail("usage", "api-ServiceUsage", fmt.Sprintf("%+v vs %v", su, wantU))
		}
		for k, v := range su.ConnectServiceInstances {
			if v != wantU["connect-mesh-"+k] {
				fail("usage", "api-ServiceUsage-connect-"+k, fmt.Sprintf("%d vs %d", v, wantU["connect-mesh-"+k]))
			}
		}
	}
	if _, nu, err := st.NodeUsage(); err != nil || nu.Nodes != wantU["nodes"] {
		fail("usage", "api-NodeUsage", fmt.Sprintf("%v %v", nu, err))
	}

	// ---- gateway-services
	wantG := recomputeGatewayServices(d)
	gotG := map[string]string{}
	for _, g := range d.GWS {
		gotG[fmt.Sprintf("%s|%s|%d", g.Gateway, g.Service, g.Port)] = normGW(fmt.Sprintf("%s|%v|%s", g.GWKind, g.Wildcard, g.SvcKind))
	}
	for k, v := range wantG {
		wantG[k] = normGW(v)
	}
	// every differing row is classified by its own SHAPE in the current state (not by the history); rows of
	// one shape are reported together.  Only the shapes of the open findings have a name; anything else is
	// "unclassified" and can never be attributed to a known finding.
	{
		groups := map[string][]string{}
		groupKeys := map[string][]string{}
		keys := map[string]bool{}
		for k := range wantG {
			keys[k] = true
		}
		for k := range gotG {
			keys[k] = true
		}
		for k := range keys {
			w, hasW := wantG[k]
			g, hasG := gotG[k]
			if hasW && hasG && w == g {
				continue
			}
			svc := strings.Split(k, "|")[1]
			any, connect, nonNative, typical := hasInstances(d, svc)
			shape := "unclassified"
			switch {
			case hasW && !hasG:
				// expected from an ingress wildcard for a name that has a connect instance but no typical
				// instance (a sidecar proxy's destination): the config-write path skips such names
				if w == "ingress-gateway|true|-" && connect && !typical {
					shape = "missing:ingress-wildcard-name-without-typical-instance"
				}
				// expected from a terminating wildcard only because a NON-typical instance (a proxy named like
				// the service) is the name's non-native instance: the registration path did not count it
				if w == "terminating-gateway|true|-" && typical && nonNative {
					typicalNonNative := false
					for i := range d.Services {
						if r := &d.Services[i]; r.Name == svc && r.Kind == "" && !r.Native {
							typicalNonNative = true
						}
					}
					if !typicalNonNative {
						shape = "missing:terminating-wildcard-non-typical-name"
					}
				}
				// a Destination whose name also has instances, none of them a typical non-native one: the
				// service-defaults write asks for kind "service" (an instance exists) and the terminating
				// wildcard then wants a non-connect instance, so no row is written; the gateway-entry write
				// would write it (destination loop)
				// (and the row stays missing when the instances go later: attributed only to names recorded as
				// having been a Destination WITH instances)
				if strings.HasPrefix(w, "terminating-gateway|true|") && destConf(d, svc) {
					typicalNonNative := false
					for i := range d.Services {
						if r := &d.Services[i]; r.Name == svc && r.Kind == "" && !r.Native {
							typicalNonNative = true
						}
					}
					if !typicalNonNative {
						shape = "missing:wildcard-row-of-destination-with-instances"
					}
				}
			case !hasW && hasG:
				switch {
				case g == "ingress-gateway|true|-" && destConf(d, svc) && !connect:
					// written by the config-write path only (whether or not the destination's name also has
					// non-connect instances: the wide stream registers such names)
					shape = "extra:ingress-wildcard-destination"
				case g == "terminating-gateway|true|-" && any && nonNative && !typical:
					shape = "extra:terminating-wildcard-non-typical-name" // kept/created by the registration path only
				case strings.Contains(g, "|true|") && !any && !destConf(d, svc):
					// left behind (known: only when an instance was redefined or a Destination dropped by an update)
					shape = "extra:wildcard-row-of-absent-name"
				case strings.Contains(g, "|true|") && any:
					// the name has instances but none that qualifies for this gateway kind any more
					// (known: only when an instance was redefined, e.g. became connect-native, without a delete)
					shape = "extra:wildcard-row-of-unqualified-name"
				}
			default:
				if strings.HasSuffix(g, "|destination") && strings.TrimSuffix(g, "destination") == strings.TrimSuffix(w, "-") && !destConf(d, svc) {
					shape = "differ:stale-destination-kind" // known: only after a Destination was dropped by an update
				}
				// a destination whose name ALSO has instances (wide stream only): the gateway-entry write stamps its
				// wildcard row "destination", the service-defaults write and the registration stamp it "service"
				// and neither refreshes it when the instances come or go
				wp, gp := strings.Split(w, "|"), strings.Split(g, "|")
				if destConf(d, svc) && wp[0] == gp[0] && wp[1] == gp[1] && wp[2] != gp[2] {
					shape = "differ:kind-of-destination-with-instances"
				}
			}
			groups[shape] = append(groups[shape], fmt.Sprintf("%s: want %q got %q", k, w, g))
			groupKeys[shape] = append(groupKeys[shape], k)
		}
		var shapes []string
		for sh := range groups {
			shapes = append(shapes, sh)
		}
		sort.Strings(shapes)
		for _, sh := range shapes {
			sort.Strings(groups[sh])
			failRows("gateway-services", sh, strings.Join(groups[sh], "; "), groupKeys[sh])
		}
	}
	for _, gw := range append(append([]string{}, tgwNames...), igwNames...) {
		_, gs, err := st.GatewayServices(nil, gw, nil)
		if err != nil {
			fail("gateway-services", "api-error", err.Error())
			continue
		}
		api := map[string]bool{}
		for _, g := range gs {
			api[fmt.Sprintf("%s|%s|%d", g.Gateway.Name, g.Service.Name, g.Port)] = true
		}
		tab := map[string]bool{}
		for k := range gotG {
			p := strings.Split(k, "|")
			if p[0] == gw && p[1] != "*" {
				tab[k] = true
			}
		}
		// the query filters wildcard-derived ingress rows whose protocol does not match: only rows
		// the table does not have are wrong
		for k := range api {
			if !tab[k] {
				fail("gateway-services", "api-extra", "GatewayServices("+gw+") returns "+k+" which the table lacks")
			}
		}
	}

	// ---- mesh-topology (table; the recomputation uses the stored gateway associations so that a
	// gateway-services deviation is not reported twice)
	wantT := recomputeTopology(d, gotG)
	gotT := map[string]string{}
	for _, t := range d.Topo {
		// instance identity is case-insensitive in the store: compare WHICH instances reference a pair, not how
		// their node names were spelled
		lr := []string{}
		for _, r := range t.Refs {
			lr = append(lr, strings.ToLower(r))
		}
		sort.Strings(lr)
		gotT[t.Up+"|"+t.Down] = strings.Join(uniq(lr), ",")
	}
	// one failure per differing pair, with the differing references as rows: "<up>|<down>#-<ref>" a
	// reference (declaring instance) the table lacks, "#+<ref>" one it has without a declaring instance,
	// "#-pair" / "#+pair" for pairs without references (ingress associations)
	{
		keys := map[string]bool{}
		for k := range wantT {
			keys[k] = true
		}
		for k := range gotT {
			keys[k] = true
		}
		var ks []string
		for k := range keys {
			ks = append(ks, k)
		}
		sort.Strings(ks)
		toSet := func(v string) map[string]bool {
			m := map[string]bool{}
			for _, r := range strings.Split(v, ",") {
				if r != "" {
					m[r] = true
				}
			}
			return m
		}
		for _, k := range ks {
			w, inW := wantT[k]
			g, inG := gotT[k]
			if inW && inG && w == g {
				continue
			}
			W, G := toSet(w), toSet(g)
			var rows []string
			for r := range W {
				if !G[r] {
					rows = append(rows, k+"#-"+r)
				}
			}
			for r := range G {
				if !W[r] {
					rows = append(rows, k+"#+"+r)
				}
			}
			p := strings.SplitN(k, "|", 2)
			shape := "refs"
			switch {
			case p[1] == "":
				shape = "native-pair" // only a connect-native instance with upstreams has the empty downstream
			case inW && !inG && len(W) == 0:
				rows = append(rows, k+"#-pair")
				shape = "missing:ingress-pair"
				for gk, gv := range gotG {
					q := strings.Split(gk, "|")
					if q[0] == p[1] && q[1] == p[0] && gv == "ingress-gateway|false|-" {
						shape = "missing:ingress-pair-of-listed-service"
					}
				}
			case !inW && inG && len(G) == 0:
				rows = append(rows, k+"#+pair")
				shape = "extra:pair-without-refs"
			}
			failRows("topology", shape, fmt.Sprintf("%s: want [%s] (present %v) got [%s] (present %v)", k, w, inW, g, inG), rows)
		}
	}
	// the query API: upstream names with source "registration" of every service name
	for _, name := range append(append([]string{}, plainName...), "consul") {
		_, topo, err := st.ServiceTopology(nil, "dc1", name, structs.ServiceKindTypical, true, nil)
		if err != nil {
			fail("topology", "api-error", err.Error())
			continue
		}
		apiReg, apiAny := map[string]bool{}, map[string]bool{}
		for k, src := range topo.UpstreamSources {
			n := strings.TrimPrefix(k, "default/")
			if src == structs.TopologySourceRegistration {
				apiReg[n] = true
			}
			apiAny[n] = true
		}
		tab := map[string]bool{}
		for k := range gotT {
			p := strings.Split(k, "|")
			if p[1] == name {
				tab[p[0]] = true
			}
		}
		for n := range tab {
			if !apiAny[n] {
				fail("topology", "api-missing", fmt.Sprintf("ServiceTopology(%s) does not report upstream %s of the table", name, n))
			}
		}
		for n := range apiReg {
			if !tab[n] {
				fail("topology", "api-extra", fmt.Sprintf("ServiceTopology(%s) reports upstream %s (from registrations) that the table lacks", name, n))
			}
		}
	}

	// ---- virtual IPs
	byIP := map[int64]string{}
	vipOf := map[string]int64{}
	var counter int64 = 0
	hasCounter := false
	freeSet := map[int64]bool{}
	for _, f := range d.Free {
		if f.Counter {
			if hasCounter {
				fail("vip-unique", "two-counters", "")
			}
			hasCounter = true
			counter = f.IP
		} else {
			if freeSet[f.IP] {
				fail("vip-unique", "free-duplicate", fmt.Sprint(f.IP))
			}
			freeSet[f.IP] = true
		}
	}
	manualSeen := map[string]string{}
	for _, v := range all.VIPs {
		if o, dup := byIP[v.IP]; dup {
			fail("vip-unique", "same-ip-two-services", fmt.Sprintf("%s and %s both have %d", o, v.Peer+":"+v.Service, v.IP))
		}
		byIP[v.IP] = v.Peer + ":" + v.Service
		vipOf[v.Peer+"|"+v.Service] = v.IP
		if freeSet[v.IP] {
			fail("vip-unique", "assigned-ip-in-free-list", fmt.Sprintf("%s has %d", v.Service, v.IP))
		}
		if v.IP > counter || v.IP <= 0 {
			fail("vip-unique", "assigned-ip-beyond-counter", fmt.Sprintf("%s has %d counter %d", v.Service, v.IP, counter))
		}
		for _, m := range v.Manual {
			if o, dup := manualSeen[m]; dup {
				fail("vip-unique", "manual-ip-two-services", fmt.Sprintf("%s and %s both have %s", o, v.Service, m))
			}
			manualSeen[m] = v.Service
		}
		got, err := st.VirtualIPForService(structs.PeeredServiceName{Peer: v.Peer, ServiceName: structs.NewServiceName(v.Service, nil)})
		if err != nil || ipNum(net.ParseIP(got))-vipBase != v.IP {
			fail("vip-advertised", "api-VirtualIPForService", fmt.Sprintf("%s: %q vs %d (%v)", v.Service, got, v.IP, err))
		}
	}
	// a manual address inside the automatic range that equals the automatic address of ANOTHER service
	for _, v := range all.VIPs {
		for _, m := range v.Manual {
			ip := net.ParseIP(m)
			if ip == nil || ip.To4() == nil || ip.To4()[0] < 240 {
				continue
			}
			if o, taken := byIP[ipNum(ip)-vipBase]; taken && o != v.Peer+":"+v.Service {
				failRows("vip-unique", "manual-ip-equals-auto-ip-of-other-service", fmt.Sprintf("%s has the manual address %s, the automatic address of %s", v.Peer+":"+v.Service, m, o), []string{m})
			}
		}
	}
	for f := range freeSet {
		if f > counter || f <= 0 {
			fail("vip-unique", "free-ip-beyond-counter", fmt.Sprint(f))
		}
	}
	for i := range all.Services {
		s := &all.Services[i]
		if s.VIP == -1 {
			continue
		}
		n, ok := connectName(s)
		if !ok {
			failRows("vip-advertised", "non-connect-instance-advertises", s.Node+"/"+s.ID, []string{s.Peer + ":" + lc(s.Node+"/"+s.ID)})
			continue
		}
		cur, has := vipOf[s.Peer+"|"+n] // an imported instance advertises the address of (its peer, name)
		px := ""
		if s.Kind == "connect-proxy" {
			px = ":proxy" // the instance is a sidecar proxy: n is its destination, not its own name
		}
		if s.Peer != "" {
			px += ":imported"
		}
		switch {
		case !has:
			failRows("vip-advertised", "service-has-no-assignment"+px, fmt.Sprintf("%s/%s advertises %d for %q which has no virtual IP", s.Node, s.ID, s.VIP, n),
				[]string{s.Peer + ":" + lc(s.Node+"/"+s.ID)})
		case cur != s.VIP:
			failRows("vip-advertised", "differs-from-assignment"+px, fmt.Sprintf("%s/%s advertises %d, %q has %d", s.Node, s.ID, s.VIP, n, cur),
				[]string{s.Peer + ":" + lc(s.Node+"/"+s.ID)})
		}
	}
	for _, o := range all.Other {
		fail("unexpected-row", o[0], o[1])
	}
	return out
}

// normGW: the stored ServiceKind is compared only as "is a destination", and only for terminating gateways
// (for ingress gateways it is "" or "service" depending on the order of writes and has no meaning).
func normGW(v string) string {
	p := strings.Split(v, "|")
	d := "-"
	if p[0] == "terminating-gateway" && p[2] == "destination" {
		d = "destination"
	}
	return p[0] + "|" + p[1] + "|" + d
}

func classifyGW(want, got map[string]string) string {
	// which kind of gateway and whether wildcard-derived rows are involved
	kinds := map[string]bool{}
	for k, v := range want {
		if got[k] != v {
			p := strings.Split(v, "|")
			kinds[p[0]+"/"+p[1]] = true
		}
	}
	for k, v := range got {
		if want[k] != v {
			p := strings.Split(v, "|")
			kinds[p[0]+"/"+p[1]] = true
		}
	}
	var ks []string
	for k := range kinds {
		ks = append(ks, k)
	}
	sort.Strings(ks)
	return strings.Join(ks, ",")
}

func unionKeys(a, b map[string]int) []string {
	m := map[string]bool{}
	for k := range a {
		m[k] = true
	}
	for k := range b {
		m[k] = true
	}
	var out []string
	for k := range m {
		out = append(out, k)
	}
	sort.Strings(out)
	return out
}

// ---------------------------------------------------------------- history classes (for structured signatures)

// tracker follows, on the real dumps, the few facts about a history that delimit the classes of
// histories on which the unchanged code is known to deviate (known_findings.json).
type tracker struct {
	flags map[string]bool   // classes of the history (reported in the evidence; not used for attribution any more, except two)
	stale map[string]uint64 // instances (node/id -> modify index) whose advertised virtual IP lost its assignment while they stayed
	// the recorded events an oracle failure must match ROW BY ROW to be attributed to an open finding:
	oldPairs     map[string]bool   // "kind|name", "connect-enabled|n" of the OLD definition of an instance redefined in place
	oldNames     map[string]bool   // names (own name, connect name) of such old definitions
	droppedPairs map[string]bool   // "up|down": an instance stopped listing up while updateMeshTopology ran with destination down
	staleRefs    map[string]bool   // "up|down#node/id": a pair of the OLD definition of an instance redefined in place
	seenGW       map[string]bool   // gateway-services rows seen since the last write of their gateway's config entry
	imported     map[string]bool   // names for which a connect instance IMPORTED from a peer was registered
	destWithInst map[string]bool   // names that were a service-defaults destination while they had instances (wide stream only)
	droppedDest  map[string]bool   // names whose service-defaults entry lost its Destination by an update
	clientVIP    map[string]bool   // ":node/id" of local instances whose last successful write carried its own consul-virtual tagged address
	staleImp     map[string]uint64 // imported sidecar proxies ("peer:node/id" -> modify index) whose advertised virtual IP lost its assignment while they stayed
}

func newTracker() *tracker {
	return &tracker{flags: map[string]bool{}, stale: map[string]uint64{}, oldPairs: map[string]bool{}, oldNames: map[string]bool{},
		droppedPairs: map[string]bool{}, staleRefs: map[string]bool{}, seenGW: map[string]bool{}, imported: map[string]bool{}, staleImp: map[string]uint64{}, clientVIP: map[string]bool{}, destWithInst: map[string]bool{}, droppedDest: map[string]bool{}}
}

func (t *tracker) observe(before, after *Dump) {
	bs := map[string]*SvcRow{}
	for i := range before.Services {
		r := &before.Services[i]
		bs[strings.ToLower(r.Node+"/"+r.ID)] = r
	}
	kindOf := map[string]string{}
	pairs := map[string]int{}
	as := map[string]*SvcRow{}
	for i := range after.Services {
		r := &after.Services[i]
		as[strings.ToLower(r.Node+"/"+r.ID)] = r
		if o := bs[strings.ToLower(r.Node+"/"+r.ID)]; o != nil {
			if o.Name != r.Name || o.Kind != r.Kind || o.Native != r.Native || o.Dest != r.Dest {
				t.flags["instance-redefined"] = true
				if o.Name == "consul" || r.Name == "consul" {
					t.flags["consul-renamed"] = true
				}
			}
			if strings.Join(o.Ups, ",") != strings.Join(r.Ups, ",") {
				t.flags["upstreams-changed"] = true
			}
		}
		if k, ok := kindOf[r.Name]; ok && k != r.Kind {
			t.flags["name-shared-across-kinds"] = true
		}
		kindOf[r.Name] = r.Kind
		if r.Kind == "connect-proxy" || r.Native {
			for _, u := range uniq(sortedCopy(r.Ups)) {
				pairs[u+"|"+r.Dest]++
				if pairs[u+"|"+r.Dest] > 1 {
					t.flags["pair-declared-twice"] = true
				}
			}
		}
	}
	for _, c := range after.Confs {
		if c.Kind == structs.ServiceDefaults && !c.Dest && destConf(before, c.Name) {
			t.flags["destination-dropped-by-update"] = true
			t.droppedDest[c.Name] = true
		}
		if c.Kind == structs.ServiceDefaults && c.Dest {
			if a, _, _, _ := hasInstances(after, c.Name); a {
				t.destWithInst[c.Name] = true
				t.flags["destination-with-instances"] = true
			}
		}
		for _, x := range c.Services {
			if x == "*" {
				t.flags["wildcard-gateway"] = true
			}
		}
		for _, l := range c.Listeners {
			for _, x := range l.Services {
				if x == "*" {
					t.flags["wildcard-gateway"] = true
					t.flags["ingress-wildcard-gateway"] = true
				}
			}
		}
	}
	// a proxy destination that is also the NAME of an instance of a non-typical kind (e.g. a proxy named
	// like its destination): the registration path of a terminating wildcard counts that instance as a
	// "non-connect instance" of the destination, the config-write path only looks at typical instances
	dests := map[string]bool{}
	for i := range after.Services {
		if after.Services[i].Kind == "connect-proxy" {
			dests[after.Services[i].Dest] = true
		}
	}
	for i := range after.Services {
		if r := &after.Services[i]; r.Kind != "" && !r.Native && dests[r.Name] {
			t.flags["non-typical-instance-named-like-destination"] = true
		}
	}
	// the rows present BEFORE this command: a wanted row that is missing now although it was there a moment
	// ago was deleted by this command, not "never written"
	t.seenGW = map[string]bool{}
	for _, g := range before.GWS {
		t.seenGW[fmt.Sprintf("%s|%s|%d", g.Gateway, g.Service, g.Port)] = true
	}
	// a service associated with gateways by more than one row (two gateways, or two listeners)
	rowsOf := map[string]int{}
	for _, g := range after.GWS {
		if g.Service != "*" {
			rowsOf[g.Service]++
			if rowsOf[g.Service] > 1 {
				t.flags["service-in-two-gateway-rows"] = true
			}
		}
	}
	// a virtual IP assignment disappeared although a sidecar proxy of that service stays and advertises it
	av := map[string]bool{}
	for _, v := range after.VIPs {
		av[v.Service] = true
	}
	for _, v := range before.VIPs {
		if av[v.Service] {
			continue
		}
		for k, r := range as {
			if r.Kind == "connect-proxy" && r.Dest == v.Service && r.VIP >= 0 {
				t.stale[k] = r.M
				t.flags["proxy-outlived-assignment"] = true
			}
		}
	}
	for k, m := range t.stale {
		if r := as[k]; r == nil || r.M != m {
			delete(t.stale, k)
		}
	}
}

// observeImported (on the whole dumps): the virtual IP assignment of (peer, name) disappeared although an imported
// sidecar proxy of that name stays and advertises it
func (t *tracker) observeImported(before, after *Dump) {
	av := map[string]bool{}
	for _, v := range after.VIPs {
		av[v.Peer+"|"+v.Service] = true
	}
	as := map[string]*SvcRow{}
	for i := range after.Services {
		r := &after.Services[i]
		if r.Peer != "" {
			as[r.Peer+":"+strings.ToLower(r.Node+"/"+r.ID)] = r
		}
	}
	for _, v := range before.VIPs {
		if v.Peer == "" || av[v.Peer+"|"+v.Service] {
			continue
		}
		for k, r := range as {
			if r.Peer == v.Peer && r.Kind == "connect-proxy" && r.Dest == v.Service && r.VIP >= 0 {
				t.staleImp[k] = r.M
				t.flags["imported-proxy-outlived-assignment"] = true
			}
		}
	}
	for k, m := range t.staleImp {
		if r := as[k]; r == nil || r.M != m {
			delete(t.staleImp, k)
		}
	}
}

// observeCmd: redefinitions inside one command (a transaction may define an instance twice)
func (t *tracker) observeCmd(c *Cmd, before *Dump) {
	if c.Peer != "" {
		// imported rows define nothing locally; remember only the names imported connect instances stand for
		if c.Kind == "register" && c.Svc != nil {
			t.flags["peer-imported"] = true
			switch {
			case c.Svc.Kind == "connect-proxy":
				t.imported[c.Svc.Dest] = true
			case c.Svc.Native:
				t.imported[c.Svc.Name] = true
			}
		}
		return
	}
	type def struct {
		name, kind, dest string
		native           bool
	}
	cur := map[string]def{}
	ups := map[string][]string{}
	spelling := map[string]string{}
	for i := range before.Services {
		r := &before.Services[i]
		spelling[strings.ToLower(r.Node+"/"+r.ID)] = r.Node
		cur[strings.ToLower(r.Node+"/"+r.ID)] = def{r.Name, r.Kind, r.Dest, r.Native}
		ups[strings.ToLower(r.Node+"/"+r.ID)] = r.Ups
	}
	pairsTwice := func() {
		pairs := map[string]int{}
		for k, d := range cur {
			if d.kind != "connect-proxy" && !d.native {
				continue
			}
			for _, u := range uniq(sortedCopy(ups[k])) {
				pairs[u+"|"+d.dest]++
				if pairs[u+"|"+d.dest] > 1 {
					t.flags["pair-declared-twice"] = true
				}
			}
		}
	}
	write := func(node string, sp *SvcSpec) {
		// an instance written under another spelling of its node name (the store finds the same row)
		if o, ok := spelling[strings.ToLower(node+"/"+sp.ID)]; ok && o != node {
			t.flags["node-respelled"] = true
		}
		spelling[strings.ToLower(node+"/"+sp.ID)] = node
		if sp.TagVIP > 0 {
			t.clientVIP[":"+strings.ToLower(node+"/"+sp.ID)] = true
			t.flags["client-supplied-virtual-address"] = true
		} else {
			delete(t.clientVIP, ":"+strings.ToLower(node+"/"+sp.ID))
		}
		// an instance of a name that is a service-defaults Destination is written: the registration re-stamps
		// the kind of the destination's gateway rows ("service").  Recorded at the write, because inside one
		// transaction the instance may be renamed away again before any dump shows it.
		if destConf(before, sp.Name) {
			t.destWithInst[sp.Name] = true
			t.flags["destination-with-instances"] = true
		}
		node = strings.ToLower(node) // instance identity is case-insensitive in the store
		defer pairsTwice()
		oldUps := ups[node+"/"+strings.ToLower(sp.ID)]
		if o, ok := ups[node+"/"+strings.ToLower(sp.ID)]; ok && strings.Join(o, ",") != strings.Join(sp.Ups, ",") {
			t.flags["upstreams-changed"] = true
		}
		ups[node+"/"+strings.ToLower(sp.ID)] = sp.Ups
		d := def{sp.Name, sp.Kind, "", sp.Native}
		if sp.Kind == "connect-proxy" {
			d.dest = sp.Dest
		}
		key := node + "/" + strings.ToLower(sp.ID)
		if o, ok := cur[key]; ok {
			newConnect := d.kind == "connect-proxy" || d.native
			oldConnect := o.kind == "connect-proxy" || o.native
			has := func(xs []string, x string) bool {
				for _, y := range xs {
					if y == x {
						return true
					}
				}
				return false
			}
			if newConnect {
				// updateMeshTopology: DeleteAll(up, NEW destination) for every upstream of the stored row it no longer lists
				for _, u := range oldUps {
					if !has(sp.Ups, u) {
						t.droppedPairs[u+"|"+d.dest] = true
					}
				}
			}
			if oldConnect && (!newConnect || o.dest != d.dest) {
				// the pairs of the old definition are never cleaned up
				for _, u := range oldUps {
					t.staleRefs[u+"|"+o.dest+"#"+key] = true
				}
			}
			if o != d {
				t.oldPairs[o.kind+"|"+o.name] = true
				t.oldNames[o.name] = true
				switch {
				case o.kind == "connect-proxy":
					t.oldPairs["connect-enabled|"+o.dest] = true
					t.oldNames[o.dest] = true
				case o.native:
					t.oldPairs["connect-enabled|"+o.name] = true
				}
			}
		}
		if o, ok := cur[key]; ok && o != d {
			t.flags["instance-redefined"] = true
			if o.name == "consul" || d.name == "consul" {
				t.flags["consul-renamed"] = true
			}
		}
		cur[node+"/"+strings.ToLower(sp.ID)] = d
		for _, o := range cur {
			if o.name == d.name && o.kind != d.kind {
				t.flags["name-shared-across-kinds"] = true
			}
		}
	}
	remove := func(node, id string) { // a delete runs the cleanups: a later write is a fresh registration
		for k := range cur {
			if strings.HasPrefix(k, strings.ToLower(node)+"/") && (id == "" || k == strings.ToLower(node+"/"+id)) {
				delete(cur, k)
				delete(ups, k)
				delete(spelling, k)
				delete(t.clientVIP, ":"+k)
			}
		}
	}
	switch c.Kind {
	case "register":
		if c.Svc != nil {
			write(c.Node, c.Svc)
		}
	case "txn":
		for i := range c.Ops {
			o := &c.Ops[i]
			switch {
			case o.Kind == "service" && (o.Verb == "set" || o.Verb == "cas"):
				write(o.Node, o.Svc)
			case o.Kind == "service" && (o.Verb == "delete" || o.Verb == "delete-cas"):
				remove(o.Node, o.Svc.ID)
			case o.Kind == "node" && (o.Verb == "delete" || o.Verb == "delete-cas"):
				remove(o.Node, "")
			}
		}
	case "deregister":
		if c.CheckID == "" || c.SvcID != "" {
			remove(c.Node, c.SvcID)
		}
	}
}

// forgetGateway (after observe): the rows of a gateway are rebuilt when its entry is written, so a row missing
// after such a write was not written by it
func (t *tracker) forgetGateway(c *Cmd) {
	if (c.Kind == "conf_set" || c.Kind == "conf_delete") && c.Conf != nil &&
		(c.Conf.Kind == structs.TerminatingGateway || c.Conf.Kind == structs.IngressGateway) {
		for k := range t.seenGW {
			if strings.HasPrefix(k, c.Conf.Name+"|") {
				delete(t.seenGW, k)
			}
		}
	}
}

func sortedCopy(xs []string) []string {
	out := append([]string{}, xs...)
	sort.Strings(out)
	return out
}

// cause: the excluded class a failure belongs to, or ""
func (t *tracker) cause(f *OracleFail) string {
	switch f.Kind {
	case "kindnames":
		// no excluded class for the (destination, name) rows any more: since /repo 0d0f3e6 an update that
		// drops the Destination cleans them up like a delete
		// a name shared by instances of several kinds is fine by itself (since /repo 0bb54ea).  An unjustified
		// row is attributed only if it is a pair of the OLD definition of an instance redefined in place.
		if f.Sub == "extra" && len(f.Rows) > 0 {
			for _, r := range f.Rows {
				if !t.oldPairs[r] {
					return ""
				}
			}
			return "instance-redefined"
		}
	case "vip-unique":
		if f.Sub == "manual-ip-equals-auto-ip-of-other-service" {
			return "manual-ip-in-auto-range" // the clause is the finding's shape: nothing else is reported under it
		}
		return ""
	case "usage":
		// no excluded class (since /repo 10e7cca a rename to or from "consul" is counted correctly)
		return ""
	case "vip-advertised":
		// no excluded class for local instances: since /repo 8e1bd1c the advertised address of every instance
		// (sidecar proxies included) must be its service's assignment.  The repair does not cover IMPORTED
		// sidecar proxies: exactly the instances recorded when their assignment was freed under them.
		// A request that carries its own consul-virtual tagged address is stored verbatim unless the instance is a
		// connect instance AND virtual IPs are on: exactly the instances whose last write carried one.
		if len(f.Rows) == 1 && t.clientVIP[f.Rows[0]] {
			return "client-supplied-address"
		}
		if strings.HasSuffix(f.Sub, ":proxy:imported") && len(f.Rows) == 1 {
			if _, ok := t.staleImp[f.Rows[0]]; ok {
				return "imported-proxy-outlived-assignment"
			}
		}
		return ""
	case "topology":
		if strings.HasPrefix(f.Sub, "api-") {
			return ""
		}
		// row by row: a missing reference only on a pair some instance dropped, an extra reference only if it is
		// the recorded stale reference of an instance redefined in place, an extra reference on a pair with the
		// empty downstream (connect-native instances with upstreams are never cleaned up), a missing ingress
		// pair only if the gateway still lists the service (shape computed by the oracle)
		switch f.Sub {
		case "missing:ingress-pair-of-listed-service":
			return "ingress-wildcard-cleanup"
		case "refs", "native-pair":
			if len(f.Rows) == 0 {
				return ""
			}
			cause := ""
			for _, r := range f.Rows {
				k := strings.SplitN(r, "#", 2)
				c := ""
				switch {
				case strings.HasPrefix(k[1], "-") && t.droppedPairs[k[0]]:
					c = "upstream-dropped"
				case strings.HasPrefix(k[1], "+") && t.staleRefs[k[0]+"#"+k[1][1:]]:
					c = "instance-redefined"
				case strings.HasPrefix(k[1], "+") && f.Sub == "native-pair":
					c = "native-upstreams"
				}
				if c == "" {
					return ""
				}
				if cause == "" {
					cause = c
				}
			}
			return cause
		}
	case "gateway-services":
		if strings.HasPrefix(f.Sub, "api-") {
			return ""
		}
		// the open findings, by the SHAPE of the differing rows (computed by the oracle from the current
		// state); a history class is required in addition only where the shape alone could also be
		// produced by something else
		switch f.Sub {
		case "missing:ingress-wildcard-name-without-typical-instance", "missing:terminating-wildcard-non-typical-name":
			// "never written", not "wrongly deleted": a row that existed since the entry was last written and is
			// gone now is not the order dependence
			for _, r := range f.Rows {
				if t.seenGW[r] {
					return ""
				}
			}
			return "wildcard-order"
		case "extra:ingress-wildcard-destination", "extra:terminating-wildcard-non-typical-name":
			return "wildcard-order"
		case "differ:kind-of-destination-with-instances", "missing:wildcard-row-of-destination-with-instances":
			// only rows of names that were a destination and registered AT THE SAME TIME somewhere in the history
			for _, r := range f.Rows {
				if !t.destWithInst[strings.Split(r, "|")[1]] {
					return ""
				}
			}
			if len(f.Rows) > 0 {
				return "destination-with-instances"
			}
		case "extra:wildcard-row-of-absent-name", "extra:wildcard-row-of-unqualified-name":
			// row by row: every row must be explained by a recorded fact about ITS name -- the name of the OLD
			// definition of an instance redefined in place, a name an imported connect instance was registered
			// for, or (absent names only) a name whose entry lost its Destination by an update
			cause := ""
			for _, r := range f.Rows {
				n := strings.Split(r, "|")[1]
				c := ""
				switch {
				case t.oldNames[n]:
					c = "instance-redefined"
				}
				// since /repo 737750a (imported connect instances stay out of gateway-services) and 0d0f3e6 (a
				// Destination dropped by an update is cleaned up) those two explanations are gone: such rows are
				// violations again
				if c == "" {
					return ""
				}
				if cause == "" {
					cause = c
				}
			}
			return cause
		case "differ:stale-destination-kind":
			return "" // repaired by /repo 0d0f3e6
		}
	}
	return ""
}

// ---------------------------------------------------------------- generator

type gen struct {
	rng      *rand.Rand
	im       *impl
	idx      uint64
	mix      string
	model    bool   // stay inside the modelled fragment
	destInst bool   // one model-compared history in four: destinations whose names also have instances, the virtual-ips flag toggled mid-history
	wide     bool   // the wide stream: virtual-IP flag toggled mid-history, destinations that also have instances, manual addresses inside 240.0.0.0/4, requests with their own consul-virtual address
	peers    bool   // the peer stream: some registrations / deregistrations carry a peer name (imported rows)
	peer     string // the peer of the command being generated ("" = local)
}

func (g *gen) pick(xs []string) string { return xs[g.rng.Intn(len(xs))] }

func (g *gen) casIndex(cur uint64) uint64 {
	switch r := g.rng.Intn(20); {
	case r < 14:
		return cur
	case r < 16:
		return 0
	case r < 18:
		if cur > 1 {
			return cur - 1
		}
		return cur + 3
	default:
		return g.idx + 5
	}
}

func (g *gen) existingNodes() []string {
	_, ns, _ := g.im.store().Nodes(nil, nil, g.peer)
	var out []string
	for _, n := range ns {
		out = append(out, n.Node)
	}
	return out
}

func (g *gen) nodeName() string {
	if ex := g.existingNodes(); len(ex) > 0 && g.rng.Intn(6) > 0 {
		return ex[g.rng.Intn(len(ex))]
	}
	return g.pick(nodeNames)
}

func (g *gen) existingServices() []SvcRow {
	var out []SvcRow
	for _, s := range g.im.dump().Services {
		if s.Peer == g.peer {
			out = append(out, s)
		}
	}
	return out
}

func (g *gen) subset(xs []string, max int) []string {
	out := []string{}
	for _, x := range xs {
		if len(out) < max && g.rng.Intn(3) == 0 {
			out = append(out, x)
		}
	}
	return out
}

// a service definition; re-registrations mostly repeat the instance's current definition
func (g *gen) svcSpec(node string) *SvcSpec {
	id := g.pick(svcIDs)
	for _, s := range g.existingServices() {
		if s.Node == node && s.ID == id && g.rng.Intn(4) > 0 {
			sp := &SvcSpec{ID: id, Name: s.Name, Kind: s.Kind, Native: s.Native, Dest: s.Dest, Port: s.Port, Ups: s.Ups, Weights: g.rng.Intn(2) == 0}
			if g.rng.Intn(3) == 0 {
				sp.Port = 80 + g.rng.Intn(2)
			}
			if (s.Kind == "connect-proxy" || (s.Native && len(s.Ups) > 0)) && g.rng.Intn(3) == 0 {
				sp.Ups = g.subset(plainName, 2)
			}
			if g.wide && g.rng.Intn(12) == 0 {
				sp.TagVIP = 1 + g.rng.Intn(3)
			}
			return sp
		}
	}
	sp := &SvcSpec{ID: id, Port: 80 + g.rng.Intn(2), Ups: []string{}, Weights: g.rng.Intn(2) == 0}
	kw := map[string][]int{
		//            typical proxy native mesh-gw term-gw ingress-gw
		"connect": {30, 35, 20, 5, 5, 5},
		"gateway": {40, 20, 10, 2, 14, 14},
		"rename":  {50, 20, 10, 6, 7, 7},
		"txn":     {45, 25, 15, 5, 5, 5},
		"wild":    {40, 25, 10, 5, 10, 10},
	}[g.mix]
	tot := 0
	for _, w := range kw {
		tot += w
	}
	r := g.rng.Intn(tot)
	k := 0
	for ; k < len(kw); k++ {
		if r < kw[k] {
			break
		}
		r -= kw[k]
	}
	switch k {
	case 0:
		sp.Name = g.pick(plainName)
		if g.rng.Intn(40) == 0 {
			sp.Name = "consul"
		}
	case 1:
		sp.Kind = "connect-proxy"
		sp.Dest = g.pick(plainName)
		sp.Name = sp.Dest + "-proxy"
		if g.rng.Intn(12) == 0 {
			sp.Name = g.pick(plainName) // a proxy that shares a name with plain services
		}
		sp.Ups = g.subset(plainName, 2)
	case 2:
		sp.Name = g.pick(plainName)
		sp.Native = true
		// Catalog.Register accepts a connect-native service with Proxy.Upstreams (NodeService.Validate does
		// not reject it) and ensureServiceTxn runs updateMeshTopology for it
		if g.rng.Intn(4) == 0 {
			sp.Ups = g.subset(plainName, 1)
		}
	case 3:
		sp.Kind = "mesh-gateway"
		sp.Name = "mgw"
	case 4:
		sp.Kind = "terminating-gateway"
		sp.Name = g.pick(tgwNames)
	case 5:
		sp.Kind = "ingress-gateway"
		sp.Name = g.pick(igwNames)
	}
	if g.wide && k <= 2 && g.rng.Intn(10) == 0 {
		sp.TagVIP = 1 + g.rng.Intn(3)
	}
	if (g.wide && k == 0 && g.rng.Intn(8) == 0) || (g.destInst && k == 0 && g.rng.Intn(12) == 0) {
		sp.Name = extName // the destination's name is also registered as a service
	}
	return sp
}

func (g *gen) checkReq(node string) CheckReq {
	c := CheckReq{Node: node, ID: g.pick(checkIDs), Status: g.rng.Intn(3)}
	if c.ID != "serfHealth" && g.rng.Intn(2) == 0 {
		c.Service = g.pick(svcIDs)
		for _, s := range g.existingServices() {
			if s.Node == node && g.rng.Intn(2) == 0 {
				c.Service = s.ID
			}
		}
	}
	_, cur, _ := g.im.store().NodeCheck(node, types.CheckID(c.ID), nil, g.peer)
	var curIdx uint64
	if cur != nil {
		curIdx = cur.ModifyIndex
	}
	c.Index = g.casIndex(curIdx)
	return c
}

func (g *gen) nodeIdx(name string) uint64 {
	_, n, _ := g.im.store().GetNode(name, nil, g.peer)
	if n != nil {
		return n.ModifyIndex
	}
	return 0
}
func (g *gen) svcIdx(node, id string) uint64 {
	_, s, _ := g.im.store().NodeService(nil, node, id, nil, g.peer)
	if s != nil {
		return s.ModifyIndex
	}
	return 0
}

func (g *gen) nodeID(node string) string {
	id := g.pick(nodeIDs)
	if g.rng.Intn(4) > 0 { // usually keep a node's own id
		_, n, _ := g.im.store().GetNode(node, nil, g.peer)
		if n != nil {
			id = string(n.ID)
		}
	}
	return id
}

func (g *gen) txnOp(safe bool) TxnOp {
	switch r := g.rng.Intn(10); {
	case r < 2:
		n := g.nodeName()
		verbs := []string{"get", "set", "cas", "delete", "delete-cas"}
		if safe {
			verbs = []string{"set", "set", "delete"}
		}
		o := TxnOp{Kind: "node", Verb: g.pick(verbs), Node: n, ID: g.nodeID(n), Addr: 1 + g.rng.Intn(2)}
		o.Index = g.casIndex(g.nodeIdx(n))
		if safe && (o.Verb == "cas" || o.Verb == "delete-cas") {
			o.Index = g.nodeIdx(n)
		}
		return o
	case r < 7:
		n := g.nodeName()
		sp := g.svcSpec(n)
		verbs := []string{"get", "set", "set", "cas", "delete", "delete-cas"}
		if safe {
			verbs = []string{"set", "set", "set", "delete"}
		}
		v := g.pick(verbs)
		sp.Index = g.casIndex(g.svcIdx(n, sp.ID))
		return TxnOp{Kind: "service", Verb: v, Node: n, Svc: sp}
	default:
		c := g.checkReq(g.nodeName())
		verbs := []string{"get", "set", "set", "cas", "delete", "delete-cas"}
		if safe {
			c.Service = ""
			verbs = []string{"set", "set", "delete"}
		}
		return TxnOp{Kind: "check", Verb: g.pick(verbs), Check: &c}
	}
}

func (g *gen) conf() *Conf {
	w := map[string][]int{
		//           tgw igw sdefaults resolver
		"connect": {2, 2, 4, 4},
		"gateway": {5, 5, 3, 1},
		"rename":  {2, 2, 2, 2},
		"txn":     {2, 2, 2, 2},
		"wild":    {5, 5, 3, 1},
	}[g.mix]
	tot := 0
	for _, x := range w {
		tot += x
	}
	r := g.rng.Intn(tot)
	k := 0
	for ; k < len(w); k++ {
		if r < w[k] {
			break
		}
		r -= w[k]
	}
	wildP := 4
	if g.mix == "wild" {
		wildP = 2
	}
	switch k {
	case 0:
		c := &Conf{Kind: structs.TerminatingGateway, Name: g.pick(tgwNames), Services: g.subset([]string{plainName[0], plainName[1], extName}, 3)}
		if g.rng.Intn(wildP) == 0 {
			c.Services = append(c.Services, "*")
		}
		return c
	case 1:
		c := &Conf{Kind: structs.IngressGateway, Name: g.pick(igwNames)}
		for p := 0; p < 1+g.rng.Intn(2); p++ {
			l := Listener{Port: 8080 + p, Services: g.subset([]string{plainName[0], plainName[2]}, 2)}
			if g.rng.Intn(wildP) == 0 {
				l.Services = []string{"*"}
			}
			if len(l.Services) == 0 {
				l.Services = []string{g.pick(plainName)}
			}
			c.Listeners = append(c.Listeners, l)
		}
		return c
	case 2:
		// a destination is an external service: never a name that is also registered in the catalog
		if (g.wide && g.rng.Intn(3) == 0) || (g.destInst && g.rng.Intn(5) == 0) {
			return &Conf{Kind: structs.ServiceDefaults, Name: g.pick(plainName), Dest: g.rng.Intn(3) > 0}
		}
		if g.rng.Intn(2) == 0 {
			return &Conf{Kind: structs.ServiceDefaults, Name: extName, Dest: g.rng.Intn(4) > 0}
		}
		return &Conf{Kind: structs.ServiceDefaults, Name: g.pick(plainName)}
	default:
		return &Conf{Kind: structs.ServiceResolver, Name: g.pick(plainName)}
	}
}

func (g *gen) next() Cmd {
	g.idx += uint64(1 + g.rng.Intn(3))
	c := Cmd{Idx: g.idx}
	weights := map[string][]int{
		//          reg dereg txn confset confdel manual coord
		"connect": {50, 22, 8, 8, 6, 4, 2},
		"gateway": {38, 16, 6, 24, 12, 2, 2},
		"rename":  {55, 20, 10, 4, 3, 2, 6},
		"txn":     {30, 10, 45, 6, 4, 2, 3},
		"wild":    {40, 18, 6, 22, 10, 2, 2},
	}[g.mix]
	tot := 0
	for _, w := range weights {
		tot += w
	}
	r := g.rng.Intn(tot)
	k := 0
	for ; k < len(weights); k++ {
		if r < weights[k] {
			break
		}
		r -= weights[k]
	}
	if (g.wide && g.rng.Intn(20) == 0) || (g.destInst && g.rng.Intn(30) == 0) {
		c.Kind, c.Key, c.Value = "sysmeta", structs.SystemMetadataVirtualIPsEnabled, "true"
		if g.rng.Intn(2) == 0 {
			c.Value = ""
		}
		return c
	}
	g.peer = ""
	if g.peers && k <= 1 && g.rng.Intn(5) < 2 {
		g.peer = "p1"
		if g.rng.Intn(6) == 0 {
			g.peer = "p2"
		}
	}
	defer func() { g.peer = "" }()
	c.Peer = g.peer
	if len(g.existingNodes()) == 0 && g.rng.Intn(3) > 0 {
		k = 0
	}
	switch k {
	case 0:
		c.Kind = "register"
		c.Node = g.pick(nodeNames)
		if g.rng.Intn(2) == 0 {
			c.Node = g.nodeName()
		}
		c.ID = g.nodeID(c.Node)
		if g.mix == "rename" && g.rng.Intn(3) == 0 {
			// rename: an id that currently belongs to another node
			for _, n := range g.im.dump().Nodes {
				if n.ID != "" && n.Name != c.Node && n.Peer == g.peer {
					c.ID = n.ID
				}
			}
		}
		c.Addr = 1 + g.rng.Intn(2)
		c.Skip = g.rng.Intn(8) == 0
		if g.rng.Intn(5) > 0 {
			c.Svc = g.svcSpec(c.Node)
		}
		for n := g.rng.Intn(3); n > 0; n-- {
			ck := g.checkReq(c.Node)
			if c.Svc != nil && g.rng.Intn(2) == 0 && ck.ID != "serfHealth" {
				ck.Service = c.Svc.ID
			}
			if g.rng.Intn(20) == 0 {
				ck.Node = g.pick(nodeNames)
			}
			c.Checks = append(c.Checks, ck)
		}
	case 1:
		c.Kind = "deregister"
		c.Node = g.nodeName()
		switch g.rng.Intn(5) {
		case 0, 1, 2:
			c.SvcID = g.pick(svcIDs)
			var mine []string
			for _, s := range g.existingServices() {
				if s.Node == c.Node {
					mine = append(mine, s.ID)
				}
			}
			if len(mine) > 0 && g.rng.Intn(5) > 0 {
				c.SvcID = g.pick(mine)
			}
		case 3:
			c.CheckID = g.pick(checkIDs)
		}
		if c.SvcID != "" && g.rng.Intn(10) == 0 {
			c.CheckID = g.pick(checkIDs) // both ids: the service goes, the check id is ignored
		}
	case 2:
		c.Kind = "txn"
		n := 1 + g.rng.Intn(3) + g.rng.Intn(3)*g.rng.Intn(2)
		safe := g.rng.Intn(5) < 3
		for i := 0; i < n; i++ {
			c.Ops = append(c.Ops, g.txnOp(safe))
		}
	case 3:
		c.Kind = "conf_set"
		c.Conf = g.conf()
		for tries := 0; tries < 5 && preparedEntry(c.Conf) == nil; tries++ {
			c.Conf = g.conf()
		}
	case 4:
		c.Kind = "conf_delete"
		c.Conf = g.conf()
		if cs := g.im.dump().Confs; len(cs) > 0 && g.rng.Intn(5) > 0 {
			x := cs[g.rng.Intn(len(cs))]
			c.Conf = &Conf{Kind: x.Kind, Name: x.Name}
		}
		c.Conf.Services, c.Conf.Listeners, c.Conf.Dest = nil, nil, false
	case 5:
		c.Kind = "manual_vips"
		c.Service = g.pick(plainName)
		if vs := g.im.dump().VIPs; len(vs) > 0 && g.rng.Intn(4) > 0 {
			c.Service = vs[g.rng.Intn(len(vs))].Service
		}
		c.IPs = g.subset(manualIPs, 2)
		if g.wide && g.rng.Intn(2) == 0 {
			c.IPs = append(c.IPs, fmt.Sprintf("240.0.0.%d", 1+g.rng.Intn(3)))
		}
	case 6:
		c.Kind = "coord"
		c.Node = g.nodeName()
	}
	return c
}

// ---------------------------------------------------------------- running

func preamble(vips bool) []Cmd {
	cs := []Cmd{{Kind: "conf_set", Idx: 1, Conf: &Conf{Kind: structs.ProxyDefaults, Name: "global"}}}
	if vips {
		cs = append(cs, Cmd{Kind: "sysmeta", Idx: 2, Key: structs.SystemMetadataVirtualIPsEnabled, Value: "true"})
	}
	return cs
}

func runScript(id int, mix string, script []Cmd, g *gen, n int) History {
	im := newImpl()
	if g != nil {
		g.im = im
	}
	h := History{ID: id, Mix: mix, Cmds: []Cmd{}, Results: []Res{}, Oracle: []OracleFail{}, Stats: map[string]int{}}
	tr := newTracker()
	before := im.dump()
	for i := 0; i < n; i++ {
		var c Cmd
		if i < len(script) {
			c = script[i]
			if g != nil && c.Idx > g.idx {
				g.idx = c.Idx
			}
		} else {
			c = g.next()
		}
		res := im.apply(&c)
		if res.Kind == "panic" {
			h.Cmds = append(h.Cmds, c)
			h.Results = append(h.Results, Res{Kind: "panic"})
			h.Oracle = append(h.Oracle, OracleFail{Step: i, Kind: "panic", Sub: "store-panicked", What: res.Msg})
			h.Model = false
			h.Final = before
			break
		}
		after := im.dump()
		h.Cmds = append(h.Cmds, c)
		if res.Kind != "err" && res.Kind != "txn-err" { // a failed command wrote nothing: it defines nothing
			tr.observeCmd(&c, localView(&before))
		}
		tr.observe(localView(&before), localView(&after))
		tr.observeImported(&before, &after)
		tr.forgetGateway(&c)
		for _, f := range im.oracle(i, &after) {
			f.Cause = tr.cause(&f)
			h.Oracle = append(h.Oracle, f)
		}
		before = after
		h.Stats[c.Kind]++
		if res.Kind == "err" || res.Kind == "txn-err" {
			h.Stats["err:"+strings.SplitN(res.Err, ":", 2)[0]]++
		}
		if !strings.HasPrefix(res.Err, "EOther:") {
			res.Msg = ""
		}
		if strings.HasPrefix(res.Err, "EOther:") {
			res.Err = "EOther"
		}
		h.Results = append(h.Results, res)
		h.Final = after
	}
	h.Flags = tr.flags
	return h
}

// corpus: the minimised histories of coq/Catalog/Refuted.v, run first on every run: the witnesses of the open
// findings (must fail as recorded) and the regression cases of the repaired ones (vip-proxy-outlives-assignment,
// topology-pair-declared-twice: must not fail any more)
func corpus() map[string][]Cmd {
	reg := func(idx uint64, node string, sp *SvcSpec) Cmd {
		return Cmd{Kind: "register", Idx: idx, Node: node, Addr: 1, Svc: sp}
	}
	proxy := func(id, name, dest string, ups ...string) *SvcSpec {
		if ups == nil {
			ups = []string{}
		}
		return &SvcSpec{ID: id, Name: name, Kind: "connect-proxy", Dest: dest, Port: 80, Ups: ups, Weights: true}
	}
	plain := func(id, name string) *SvcSpec {
		return &SvcSpec{ID: id, Name: name, Port: 80, Ups: []string{}, Weights: true}
	}
	native := func(id, name string) *SvcSpec {
		return &SvcSpec{ID: id, Name: name, Native: true, Port: 80, Ups: []string{}, Weights: true}
	}
	return map[string][]Cmd{
		"vip-proxy-outlives-assignment": {
			{Kind: "sysmeta", Idx: 2, Key: structs.SystemMetadataVirtualIPsEnabled, Value: "true"},
			reg(3, "n1", proxy("s1", "web-proxy", "web")),
			{Kind: "conf_set", Idx: 4, Conf: &Conf{Kind: structs.ServiceDefaults, Name: "web"}},
			{Kind: "conf_delete", Idx: 5, Conf: &Conf{Kind: structs.ServiceDefaults, Name: "web"}},
			reg(6, "n1", native("s2", "db")),
		},
		"kindnames-name-shared-across-kinds": {
			reg(3, "n2", proxy("s1", "web", "db")),
			reg(4, "n3", plain("s1", "web")),
			{Kind: "deregister", Idx: 5, Node: "n2"},
		},
		"kindnames-instance-renamed": {
			reg(3, "n1", plain("s1", "db")),
			reg(4, "n1", plain("s1", "web")),
		},
		"topology-pair-declared-twice": {
			reg(3, "n1", proxy("s1", "web-proxy", "web", "db")),
			reg(4, "n2", proxy("s1", "web-proxy", "web", "db")),
			{Kind: "deregister", Idx: 5, Node: "n2", SvcID: "s1"},
		},
		// still failing: the second instance stops listing the upstream and the pair goes although n1 declares it
		"topology-upstream-dropped": {
			reg(3, "n1", proxy("s1", "web-proxy", "web", "db")),
			reg(4, "n2", proxy("s1", "web-proxy", "web", "db")),
			reg(5, "n2", proxy("s1", "web-proxy", "web")),
		},
		"gateway-listed-service-overwritten-by-wildcard": {
			{Kind: "conf_set", Idx: 3, Conf: &Conf{Kind: structs.TerminatingGateway, Name: "tgw", Services: []string{"web", "*"}}},
			reg(4, "n1", plain("s1", "web")),
			{Kind: "deregister", Idx: 5, Node: "n1", SvcID: "s1"},
		},
		// a proxy with upstreams on a node whose name has upper-case letters, deregistered by service and,
		// after a second registration, by node (the node named in lower case); the tables must be clean
		"topology-mixed-case-node": {
			reg(3, "Web-Host-1", proxy("Svc-1", "Web-proxy", "Web", "db.v1", "Api-2")),
			reg(4, "DB.Node-2", proxy("Svc-1", "Web-proxy", "Web", "db.v1")),
			{Kind: "deregister", Idx: 5, Node: "Web-Host-1", SvcID: "Svc-1"},
			reg(6, "Web-Host-1", proxy("Svc-1", "Web-proxy", "Web", "db.v1")),
			{Kind: "deregister", Idx: 7, Node: "DB.Node-2", SvcID: "Svc-1"},
			{Kind: "deregister", Idx: 8, Node: "web-host-1"},
		},
		// regression (dc11ff4): the same instance written under two spellings of its node name used to get a
		// reference per spelling, and only the row's spelling was removed on deregistration
		"topology-mixed-case-node-respelled": {
			reg(3, "Web-Host-1", proxy("Svc-1", "Web-proxy", "Web", "db.v1")),
			reg(4, "web-host-1", &SvcSpec{ID: "Svc-1", Name: "Web-proxy", Kind: "connect-proxy", Dest: "Web", Port: 81, Ups: []string{"db.v1"}}),
			{Kind: "deregister", Idx: 5, Node: "Web-Host-1", SvcID: "Svc-1"},
		},
		// regression (948377c): two gateways list ext, then ext becomes a destination
		"gateway-service-in-two-rows": {
			{Kind: "conf_set", Idx: 3, Conf: &Conf{Kind: structs.TerminatingGateway, Name: "tgw", Services: []string{"ext"}}},
			{Kind: "conf_set", Idx: 4, Conf: &Conf{Kind: structs.TerminatingGateway, Name: "tgw2", Services: []string{"ext"}}},
			{Kind: "conf_set", Idx: 5, Conf: &Conf{Kind: structs.ServiceDefaults, Name: "ext", Dest: true}},
		},
		// still failing: a sidecar proxy registered before a wildcard ingress entry gets no association
		"gateway-ingress-wildcard-order": {
			{Kind: "conf_set", Idx: 1, Conf: &Conf{Kind: structs.ProxyDefaults, Name: "global"}},
			reg(3, "n1", proxy("s1", "db-proxy", "db")),
			{Kind: "conf_set", Idx: 4, Conf: &Conf{Kind: structs.IngressGateway, Name: "igw", Listeners: []Listener{{Port: 8080, Services: []string{"*"}}}}},
		},
		// still failing: a service-defaults entry loses its destination by an update
		"kindnames-destination-dropped": {
			{Kind: "conf_set", Idx: 3, Conf: &Conf{Kind: structs.ServiceDefaults, Name: "ext", Dest: true}},
			{Kind: "conf_set", Idx: 4, Conf: &Conf{Kind: structs.ServiceDefaults, Name: "ext"}},
		},
		// an imported sidecar proxy under an ingress wildcard: the association it creates is of the LOCAL name
		// web (which has no instance), and the deregistration of the imported row does not remove it
		"peer-imported-proxy-under-ingress-wildcard": {
			{Kind: "conf_set", Idx: 1, Conf: &Conf{Kind: structs.ProxyDefaults, Name: "global"}},
			{Kind: "conf_set", Idx: 3, Conf: &Conf{Kind: structs.IngressGateway, Name: "igw", Listeners: []Listener{{Port: 8080, Services: []string{"*"}}}}},
			{Kind: "register", Idx: 4, Peer: "p1", Node: "n1", Addr: 1, Svc: proxy("s1", "web-proxy", "web")},
			{Kind: "deregister", Idx: 5, Peer: "p1", Node: "n1"},
		},
		// imported rows and local rows of the same names side by side, with virtual IPs: deregistering either
		// side leaves the other side's rows, derived rows and addresses alone
		"peer-same-names-both-sides": {
			{Kind: "sysmeta", Idx: 2, Key: structs.SystemMetadataVirtualIPsEnabled, Value: "true"},
			{Kind: "register", Idx: 3, Peer: "p1", Node: "n1", Addr: 1, Svc: native("s1", "web")},
			reg(4, "n1", native("s1", "web")),
			reg(5, "n1", proxy("s2", "db-proxy", "db", "web")),
			{Kind: "deregister", Idx: 6, Peer: "p1", Node: "n1"},
			{Kind: "register", Idx: 7, Peer: "p1", Node: "n1", Addr: 1, Svc: plain("s1", "db")},
			{Kind: "deregister", Idx: 8, Node: "n1"},
			{Kind: "deregister", Idx: 9, Peer: "p1", Node: "n1", SvcID: "s1"},
		},
		// the virtual IP of (p1, web) is freed with the last imported instance NAMED web although an imported
		// sidecar proxy of web stays and advertises it (8e1bd1c repaired this for local instances only)
		"peer-vip-imported-proxy-outlives-assignment": {
			{Kind: "sysmeta", Idx: 2, Key: structs.SystemMetadataVirtualIPsEnabled, Value: "true"},
			{Kind: "register", Idx: 3, Peer: "p1", Node: "n1", Addr: 1, Svc: proxy("s1", "web-proxy", "web")},
			{Kind: "register", Idx: 4, Peer: "p1", Node: "n1", Addr: 1, Svc: plain("s3", "web")},
			{Kind: "deregister", Idx: 5, Peer: "p1", Node: "n1", SvcID: "s3"},
		},
		// native instances with upstreams: the pairs (upstream, "") are written and never removed
		"topology-native-upstreams": {
			reg(3, "n1", &SvcSpec{ID: "s1", Name: "web", Native: true, Port: 80, Ups: []string{"db"}, Weights: true}),
			{Kind: "deregister", Idx: 4, Node: "n1", SvcID: "s1"},
		},
		// an instance redefined in place from a sidecar proxy to a plain service keeps its topology reference
		"topology-instance-redefined": {
			reg(3, "n1", proxy("s1", "web-proxy", "web", "db")),
			reg(4, "n1", plain("s1", "web")),
		},
		// a service listed by an ingress gateway and also covered by its wildcard listener on another port: the
		// deregistration of the last connect instance removes the topology pair of the LISTED association too
		"topology-ingress-wildcard-cleanup": {
			{Kind: "conf_set", Idx: 1, Conf: &Conf{Kind: structs.ProxyDefaults, Name: "global"}},
			{Kind: "conf_set", Idx: 3, Conf: &Conf{Kind: structs.IngressGateway, Name: "igw", Listeners: []Listener{{Port: 8080, Services: []string{"web"}}, {Port: 8081, Services: []string{"*"}}}}},
			reg(4, "n1", native("s1", "web")),
			{Kind: "deregister", Idx: 5, Node: "n1", SvcID: "s1"},
		},
		// wide stream: a name that is a destination and has an instance; the row's kind is stale after the instance goes
		"wide-destination-with-instances": {
			reg(3, "n2", plain("s3", "api")),
			{Kind: "conf_set", Idx: 4, Conf: &Conf{Kind: structs.TerminatingGateway, Name: "tgw2", Services: []string{"db", "*"}}},
			{Kind: "conf_set", Idx: 5, Conf: &Conf{Kind: structs.ServiceDefaults, Name: "api", Dest: true}},
			{Kind: "deregister", Idx: 6, Node: "n2", SvcID: "s3"},
		},
		// wide stream: a typical service registered with its own consul-virtual tagged address
		"wide-client-supplied-virtual-address": {
			{Kind: "sysmeta", Idx: 2, Key: structs.SystemMetadataVirtualIPsEnabled, Value: "true"},
			reg(3, "n2", &SvcSpec{ID: "s2", Name: "web", Port: 80, Ups: []string{}, Weights: true, TagVIP: 3}),
		},
		// wide stream: a manual address equal to the automatic address of another service
		"wide-manual-ip-in-auto-range": {
			{Kind: "sysmeta", Idx: 2, Key: structs.SystemMetadataVirtualIPsEnabled, Value: "true"},
			reg(3, "n1", proxy("s1", "web-proxy", "web")),
			reg(4, "n1", proxy("s2", "db-proxy", "db")),
			{Kind: "manual_vips", Idx: 5, Service: "db", IPs: []string{"240.0.0.1"}},
		},
		// regression (10e7cca) for the usage count; the rename itself still leaves a kind-service-name behind
		"usage-instance-renamed-to-consul": {
			reg(3, "n1", plain("s1", "web")),
			reg(4, "n1", proxy("s2", "p", "web")),
			reg(5, "n1", proxy("s2", "consul", "web")),
		},
	}
}

func panicked(h *History) bool {
	for _, f := range h.Oracle {
		if f.Kind == "panic" {
			return true
		}
	}
	return false
}

func sigOf(f OracleFail) string { return f.Kind + "/" + f.Sub + "/" + f.Cause }

// shrinkTarget: the failure of a history worth shrinking -- the first one outside every excluded class (at most
// three histories per signature and stream), else the first one (one history per signature and stream, as an
// illustration of the open finding)
func shrinkTarget(h *History, stream string, done map[string]int) (string, bool) {
	if len(h.Oracle) == 0 {
		return "", false
	}
	f, limit := h.Oracle[0], 1
	for _, x := range h.Oracle {
		if x.Cause == "" {
			f, limit = x, 3
			break
		}
	}
	key := stream + "/" + sigOf(f)
	if done[key] >= limit {
		return "", false
	}
	done[key]++
	return sigOf(f), true
}

// shrink: delta debugging over the command list, keeping the first failure's class
func shrink(cmds []Cmd, sig string) []Cmd {
	fails := func(cs []Cmd) bool {
		h := runScript(0, "shrink", cs, nil, len(cs))
		for _, f := range h.Oracle {
			if sigOf(f) == sig {
				return true
			}
		}
		return false
	}
	cur := append([]Cmd{}, cmds...)
	// cut after the first failing step
	for n := 1; n <= len(cur); n++ {
		if fails(cur[:n]) {
			cur = cur[:n]
			break
		}
	}
	for changed := true; changed; {
		changed = false
		for i := len(cur) - 1; i >= 0; i-- {
			trial := append(append([]Cmd{}, cur[:i]...), cur[i+1:]...)
			if len(trial) > 0 && fails(trial) {
				cur = trial
				changed = true
			}
		}
	}
	// simplify registrations: drop checks, then txn ops
	for i := range cur {
		if len(cur[i].Checks) > 0 {
			saved := cur[i].Checks
			cur[i].Checks = nil
			if !fails(cur) {
				cur[i].Checks = saved
			}
		}
		for j := len(cur[i].Ops) - 1; j >= 0 && len(cur[i].Ops) > 1; j-- {
			saved := cur[i].Ops
			cur[i].Ops = append(append([]TxnOp{}, saved[:j]...), saved[j+1:]...)
			if !fails(cur) {
				cur[i].Ops = saved
			}
		}
	}
	return cur
}

func main() {
	netutil.GetAgentBindAddrFunc = netutil.GetMockGetAgentBindAddrFunc("0.0.0.0")

	seed := flag.Int64("seed", 1, "seed")
	tier := flag.String("tier", "quick", "quick|thorough")
	out := flag.String("out", "", "output jsonl")
	count := flag.Int("n", 0, "number of histories (default by tier)")
	replay := flag.String("replay", "", "replay file: {cmds:[...]}")
	noShrink := flag.Bool("noshrink", false, "do not shrink failing histories")
	flag.Parse()

	w := bufio.NewWriterSize(os.Stdout, 1<<20)
	if *out != "" {
		f, err := os.Create(*out)
		if err != nil {
			panic(err)
		}
		defer f.Close()
		w = bufio.NewWriterSize(f, 1<<20)
	}
	defer w.Flush()

	if *replay != "" {
		raw, err := os.ReadFile(*replay)
		if err != nil {
			panic(err)
		}
		var r struct {
			Cmds []Cmd `json:"cmds"`
		}
		if err := json.Unmarshal(raw, &r); err != nil {
			panic(err)
		}
		// a replay of the mixed-case stream: the query-API clauses iterate over that universe's names
		for _, c := range r.Cmds {
			names := c.Node + c.SvcID + c.Service
			if c.Svc != nil {
				names += c.Svc.ID + c.Svc.Name
			}
			if c.Conf != nil {
				names += c.Conf.Name
			}
			if names != strings.ToLower(names) {
				setUniverse(caseUniverse)
			}
		}
		h := runScript(0, "replay", r.Cmds, nil, len(r.Cmds))
		j, _ := json.MarshalIndent(&h, "", " ")
		w.Write(j)
		w.WriteByte('\n')
		return
	}

	n := *count
	if n == 0 {
		n = 600
		if *tier == "thorough" {
			n = 7000
		}
	}
	{
		cp := corpus()
		var names []string
		for k := range cp {
			names = append(names, k)
		}
		sort.Strings(names)
		for i, k := range names {
			mixedCase := strings.Contains(k, "mixed-case")
			if mixedCase {
				setUniverse(caseUniverse) // the query-API clauses of the oracle iterate over the universe's names
			}
			h := runScript(-1-i, "corpus:"+k, cp[k], nil, len(cp[k]))
			setUniverse(lowerUniverse)
			h.Model = !panicked(&h) && !mixedCase && !strings.HasPrefix(k, "peer-") && !strings.HasPrefix(k, "wide-")
			j, _ := json.Marshal(&h)
			w.Write(j)
			w.WriteByte('\n')
		}
	}
	rng := rand.New(rand.NewSource(*seed))
	mixes := []string{"connect", "gateway", "rename", "txn", "wild"}
	shrunkSigs := map[string]int{}
	for i := 0; i < n; i++ {
		mix := mixes[i%len(mixes)]
		ln := 3 + rng.Intn(28)
		g := &gen{rng: rand.New(rand.NewSource(rng.Int63())), mix: mix, model: true, destInst: i%4 == 3}
		pre := preamble(rng.Intn(8) > 0)
		h := runScript(i, mix, pre, g, len(pre)+ln)
		h.Model = !panicked(&h)
		if !*noShrink {
			if sig, ok := shrinkTarget(&h, "model", shrunkSigs); ok {
				h.Shrunk = shrink(h.Cmds, sig)
			}
		}
		j, _ := json.Marshal(&h)
		w.Write(j)
		w.WriteByte('\n')
	}

	// ---- the oracle-only peer stream: the same mixes, two registrations/deregistrations in five carry a peer
	// name (rows imported from a peer; outside the Coq model, which has no peers)
	np := n / 4
	prng := rand.New(rand.NewSource(*seed + 104729))
	for i := 0; i < np; i++ {
		mix := mixes[i%len(mixes)]
		ln := 3 + prng.Intn(28)
		g := &gen{rng: rand.New(rand.NewSource(prng.Int63())), mix: mix, peers: true}
		pre := preamble(prng.Intn(8) > 0)
		h := runScript(2*n+i, mix, pre, g, len(pre)+ln)
		h.Mix = "peer:" + mix
		h.Model = false
		if !*noShrink {
			if sig, ok := shrinkTarget(&h, "peer", shrunkSigs); ok {
				h.Shrunk = shrink(h.Cmds, sig)
			}
		}
		j, _ := json.Marshal(&h)
		w.Write(j)
		w.WriteByte('\n')
	}

	// ---- the oracle-only wide stream: parts of the command universe the Coq model's generator stays out of
	nw := n / 4
	wrng := rand.New(rand.NewSource(*seed + 1299709))
	for i := 0; i < nw; i++ {
		mix := mixes[i%len(mixes)]
		ln := 3 + wrng.Intn(28)
		g := &gen{rng: rand.New(rand.NewSource(wrng.Int63())), mix: mix, wide: true}
		pre := preamble(wrng.Intn(8) > 0)
		h := runScript(3*n+i, mix, pre, g, len(pre)+ln)
		h.Mix = "wide:" + mix
		h.Model = false
		if !*noShrink {
			if sig, ok := shrinkTarget(&h, "wide", shrunkSigs); ok {
				h.Shrunk = shrink(h.Cmds, sig)
			}
		}
		j, _ := json.Marshal(&h)
		w.Write(j)
		w.WriteByte('\n')
	}

	// ---- the oracle-only stream: the same mixes over the mixed-case universe (outside the Coq model,
	// which compares names exactly): every oracle clause after every command, shrinking, no model comparison
	nc := n / 4
	crng := rand.New(rand.NewSource(*seed + 7919))
	setUniverse(caseUniverse)
	for i := 0; i < nc; i++ {
		mix := mixes[i%len(mixes)]
		ln := 3 + crng.Intn(28)
		g := &gen{rng: rand.New(rand.NewSource(crng.Int63())), mix: mix}
		pre := preamble(crng.Intn(8) > 0)
		h := runScript(n+i, mix, pre, g, len(pre)+ln)
		h.Mix = "case:" + mix
		h.Model = false
		if !*noShrink {
			if sig, ok := shrinkTarget(&h, "case", shrunkSigs); ok {
				h.Shrunk = shrink(h.Cmds, sig)
			}
		}
		j, _ := json.Marshal(&h)
		w.Write(j)
		w.WriteByte('\n')
	}
	setUniverse(lowerUniverse)
}
