package main

import (
	"fmt"
	"reflect"
	"strings"
)

// The direct oracle: property C11 stated on the implementation's observations only (no model).
//
//  view-mismatch         after an update at index k the materialized view differs from what the direct
//                        query returned at k (recorded after every commit)
//  index-regression      the materializer's index decreased (other than by a reset)
//  duplicate-event       an index was delivered twice, other than the batch at the snapshot's own index once,
//                        with the committed content, right after that snapshot (Subscription.Next re-delivers it)
//  skipped-event / unexpected-event
//                        after quiescence the indexes delivered after the snapshot are not exactly the
//                        commits that touched the subject after the snapshot index
//  final-view-mismatch   after quiescence the view differs from the current query result
//  missing-forced-close / spurious-close
//                        Next did not return the close error first after Restore / a published
//                        closeSubscription event for the subscription's token (a batch queued before a
//                        Restore is dropped by the publisher and closes nothing)
//  events-do-not-match-state-change
//                        a committed batch, applied to the previous query results, does not give the new ones
//  ready-item-not-delivered
//                        a deliverable item (not older than the snapshot) is reachable but Next waits
//  (+ protocol sanity: framing, request index, publish-one)
//
// Every failure carries a cause computed from the observations; "unknown" unless it is one of the
// following (the first four were repaired in /repo — 2bf672d, 949dae4, 9502e45, f559b0f — and are
// VIOLATIONs if they come back; query-index-behind-content is an open known finding)
//  subscribe-in-commit-publish-gap  the offending delivery is an event whose index is not larger than the
//                                   index of the snapshot the subscriber already applied (an event contained
//                                   in the snapshot, published after the snapshot was taken, delivered after it)
//  restore-keeps-topic-buffer       the offending delivery is an event committed to a store that has since been
//                                   replaced by Restore and published BEFORE the restore (it sat in a topic
//                                   buffer that RefreshAllTopics does not drop), or the subscriber resumed on
//                                   such a buffer without a snapshot
//  restore-keeps-publish-queue      same, but the event was still in publishCh at the restore
//  query-index-behind-content       the snapshot's index (the index the direct query reports) is smaller than the
//                                   index of a commit whose effect the snapshot (the query result) already
//                                   contains: the view equals a LATER committed state, or an event published
//                                   before the subscription started is neither delivered nor above the snapshot index
//  connect-native-flag-removed      a service instance registered with Connect.Native is re-registered without
//                                   it: it leaves the connect query result but no event is emitted on the
//                                   connect topic
// A client hit by one of these keeps the cause for its later failures until it applies a new snapshot.

type oBatch struct {
	idx       uint64
	evs       []Ev
	close     []int
	epoch     int
	published bool
	pubEpoch  int
	pubStep   int
}

type oHist struct {
	idx  uint64
	rows []KV
}

type oClient struct {
	ts         TS
	tok        int
	kind       int
	subscribed bool
	closed     bool
	mustClose  string
	snapPhase  bool
	first      bool // no delivery yet on this subscription
	reqIdx     uint64
	start      uint64 // deliveries with a larger index are "after the snapshot"
	haveStart  bool
	snapIdx    uint64 // index of the last snapshot applied (kept across resume)
	lastIdx    uint64
	delivered  []uint64
	blocked    bool
	epoch      int // store incarnation of the last snapshot applied
	taint      string
	view       []KV
	subStep    int
	exp        []KV // the delivered events applied by the oracle itself (what a correct view holds)
	pend       []Ev // snapshot events delivered so far
	eosHere    bool // this subscription delivered its own snapshot
	behindSnap bool // that snapshot carried an index smaller than a commit its content includes (open finding)
	dupSeen    bool // the batch at the snapshot's own index has been delivered once more
}

func touches(ts TS, e Ev) bool {
	return e.T == ts.T && (ts.S < 0 || e.S == ts.S)
}

func applyEvs(ts TS, rows []KV, evs []Ev) []KV {
	out := append([]KV{}, rows...)
	for _, e := range evs {
		if !touches(ts, e) {
			continue
		}
		k := -1
		for i := range out {
			if out[i].S == e.S && out[i].I == e.I {
				k = i
			}
		}
		switch {
		case e.V == 0 && k >= 0:
			out = append(out[:k], out[k+1:]...)
		case e.V != 0 && k >= 0:
			out[k].V = e.V
		case e.V != 0:
			out = append(out, KV{e.S, e.I, e.V})
		}
	}
	sortKV(out)
	return out
}

func sameRows(a, b []KV) bool {
	if len(a) == 0 && len(b) == 0 {
		return true
	}
	return reflect.DeepEqual(a, b)
}

// diffRows: the events that turn rows a into rows b
func diffRows(t int, a, b []KV) []Ev {
	var out []Ev
	find := func(r []KV, s, i int) (int, bool) {
		for _, x := range r {
			if x.S == s && x.I == i {
				return x.V, true
			}
		}
		return 0, false
	}
	for _, x := range b {
		if v, ok := find(a, x.S, x.I); !ok || v != x.V {
			out = append(out, Ev{t, x.S, x.I, x.V})
		}
	}
	for _, x := range a {
		if _, ok := find(b, x.S, x.I); !ok {
			out = append(out, Ev{t, x.S, x.I, 0})
		}
	}
	return out
}

type evKey struct{ T, S, I int }

func scopeOf(ts *TS, c *oClient) string {
	t := -1
	if ts != nil {
		t = ts.T
	} else if c != nil {
		t = c.ts.T
	}
	switch t {
	case THealth:
		return "service-health"
	case TConnect:
		return "service-health-connect"
	case TConfig:
		return "config-entry"
	}
	return ""
}

// dupKeys: the view holds two rows for one instance (the materialized view keyed them by differently
// spelled node names)
func dupKeys(rows []KV) bool {
	for i := range rows {
		for j := i + 1; j < len(rows); j++ {
			if rows[i].S == rows[j].S && rows[i].I == rows[j].I {
				return true
			}
		}
	}
	return false
}

func oracle(steps []Step, drained bool) []Failure {
	var fails []Failure
	seen := map[string]bool{}
	queue := []*oBatch{}
	epoch := 0
	base := map[TS][]KV{}
	hist := map[TS][]oHist{}
	cur := map[TS][]KV{}
	committed := []*oBatch{}
	clients := map[int]*oClient{}
	// rows changed without an event (cause), from the commit that did it until a commit whose events name them again
	type silentSpan struct {
		from, to uint64 // to == 0: still open
		cause    string
	}
	silentKeys := map[evKey][]silentSpan{}
	silentAt := func(k evKey, idx uint64) (string, bool) {
		for _, sp := range silentKeys[k] {
			if sp.from <= idx && (sp.to == 0 || idx < sp.to) {
				return sp.cause, true
			}
		}
		return "", false
	}
	behind := map[TS]bool{}         // subjects whose direct query was seen reporting an index behind its content
	spelling := map[string]string{} // node (lower case) -> spelling used by the writes so far
	respelt := map[string]bool{}    // nodes that the writes spelled in two ways
	noteSpelling := func(w *Write) {
		var note func(x *Write)
		note = func(x *Write) {
			if x.Node != "" {
				l := strings.ToLower(x.Node)
				if sp, ok := spelling[l]; ok && sp != x.Node {
					respelt[l] = true
				}
				spelling[l] = x.Node
			}
			for k := range x.Ops {
				note(&x.Ops[k])
			}
		}
		if w != nil {
			note(w)
		}
	}
	acls := newACLState()
	for _, ts := range allTS {
		base[ts] = []KV{}
		cur[ts] = []KV{}
	}
	contentAt := func(ts TS, k uint64) []KV {
		rows := base[ts]
		for _, h := range hist[ts] {
			if h.idx <= k {
				rows = h.rows
			}
		}
		return rows
	}
	batchAt := func(k uint64) *oBatch {
		for i := len(committed) - 1; i >= 0; i-- {
			if committed[i].idx == k {
				return committed[i]
			}
		}
		return nil
	}
	// cause of a wrong delivery at index k to client c
	deliveryCause := func(c *oClient, k uint64) string {
		if b := batchAt(k); b != nil && b.epoch < epoch {
			if b.published && b.pubEpoch < epoch {
				return "restore-keeps-topic-buffer"
			}
			return "restore-keeps-publish-queue"
		}
		// a batch strictly older than the snapshot; the batch at the snapshot's own index is delivered once
		// by design (a second time is a duplicate-event of unknown cause)
		if c.snapIdx > 0 && k < c.snapIdx && c.epoch == epoch {
			return "subscribe-in-commit-publish-gap"
		}
		return "unknown"
	}
	// cause of a wrong view: every differing row is one that changed without an event
	viewCause := func(c *oClient, view, want []KV, at uint64) string {
		d := diffRows(c.ts.T, want, view)
		if len(d) == 0 {
			return "unknown"
		}
		if dupKeys(view) && !dupKeys(want) {
			return "node-name-respelled"
		}
		// the delivered events, applied by the oracle, give the right rows: the view mis-applied them; and
		// every row it got wrong is on a node that the writes spelled in two ways
		if sameRows(c.exp, want) && c.ts.T != TConfig {
			all := true
			for _, e := range d {
				if e.I >= len(instIDs) || !respelt[strings.SplitN(instIDs[e.I], "/", 2)[0]] {
					all = false
				}
			}
			if all {
				return "node-name-respelled"
			}
		}
		cause := ""
		for _, e := range d {
			x, ok := silentAt(evKey{e.T, e.S, e.I}, at)
			if !ok || (cause != "" && cause != x) {
				return "unknown"
			}
			cause = x
		}
		return cause
	}
	var failTS *TS // subject of a failure that is not about a client
	for i := range steps {
		st := &steps[i]
		failTS = nil
		fail := func(c int, kind, cause, msg string) {
			if cl := clients[c]; cl != nil {
				// the gap defect is transient (attributed delivery by delivery); the others leave the view wrong
				if cause == "unknown" && cl.taint != "" {
					cause = cl.taint
				} else if cause != "unknown" && cause != "subscribe-in-commit-publish-gap" && cl.taint == "" {
					cl.taint = cause
				}
			}
			if !seen[kind+":"+cause] {
				seen[kind+":"+cause] = true
				fails = append(fails, Failure{Kind: kind, Cause: cause, Scope: scopeOf(failTS, clients[c]), Step: i, C: c, Msg: msg})
			}
		}
		switch st.Op {
		case "commit":
			if st.Err != "" && st.Queued {
				fail(-1, "commit-error-but-published", "unknown", st.Err)
			}
			noteSpelling(st.W)
			var evs []Ev
			if st.Queued {
				b := &oBatch{idx: st.Idx, evs: st.Evs, close: st.Close, epoch: epoch}
				queue = append(queue, b)
				committed = append(committed, b)
				evs = st.Evs
				for _, e := range evs {
					k := evKey{e.T, e.S, e.I}
					for n := range silentKeys[k] {
						if silentKeys[k][n].to == 0 {
							silentKeys[k][n].to = st.Idx
						}
					}
				}
			}
			// the tokens whose subscriptions this write must close, from the generated ACL writes only
			if st.Queued && st.Err == "" {
				if wantClose, ok := aclExpected(acls, st.W); ok {
					got := map[int]bool{}
					for _, t := range st.Close {
						got[t] = true
					}
					if !reflect.DeepEqual(got, wantClose) {
						fail(-1, "acl-close-set-mismatch", "unknown",
							fmt.Sprintf("write %+v must close the subscriptions of tokens %v, the closeSubscription event names %v", *st.W, wantClose, st.Close))
					}
				}
			}
			for qi := range st.Q {
				q := st.Q[qi]
				failTS = &st.Q[qi].TS
				// the direct query's own index must cover a commit that changed its result
				if st.Queued && !sameRows(cur[q.TS], q.Rows) && q.Idx < st.Idx {
					cause := "unknown"
					// the recorded shape: the connect query takes the max over the service names still in its
					// result, a write that removes (or renames, or re-targets) an instance does not advance it.
					// (the shapes on the plain health topic were repaired by e956cb5, 2c57fbe, 566301e)
					if w := st.W; q.TS.T == TConnect && w != nil &&
						(w.K == "svc" || w.K == "reg" || w.K == "txn" || w.K == "dsvc" || w.K == "dnode") {
						cause = "query-index-behind-content"
						behind[q.TS] = true
					}
					fail(-1, "query-index-not-advanced", cause,
						fmt.Sprintf("ts %v: result changed by the commit at %d, the query reports index %d", q.TS, st.Idx, q.Idx))
				}
				want := applyEvs(q.TS, cur[q.TS], evs)
				if !sameRows(want, q.Rows) {
					cause := "unknown"
					d := diffRows(q.TS.T, want, q.Rows)

					// the instance written by this commit was connect-native and no longer is
					if w := st.W; w != nil && w.K == "svc" && w.Kind == "" && q.TS.T == TConnect && len(d) == 1 &&
						d[0].V == 0 && d[0].I == instID(w.Node, w.SID) {
						cause = "connect-native-flag-removed"
					}
					for _, e := range d {
						k := evKey{e.T, e.S, e.I}
						silentKeys[k] = append(silentKeys[k], silentSpan{from: st.Idx, cause: cause})
					}
					fail(-1, "events-do-not-match-state-change", cause,
						fmt.Sprintf("ts %v: previous rows %v + events %v != query %v", q.TS, cur[q.TS], evs, q.Rows))
				}
				cur[q.TS] = q.Rows
				hist[q.TS] = append(hist[q.TS], oHist{st.Idx, q.Rows})
			}
			failTS = nil
		case "restore":
			epoch++
			silentKeys = map[evKey][]silentSpan{}
			behind = map[TS]bool{}
			for k := range st.R {
				noteSpelling(&st.R[k])
			}
			acls = newACLState() // only the ACL rows of the restored content exist now
			for k := range st.R {
				if x := &st.R[k]; x.K == "pol" || x.K == "tok" || x.K == "role" {
					aclExpected(acls, x)
				}
			}
			for _, q := range st.Q {
				base[q.TS] = q.Rows
				cur[q.TS] = q.Rows
				hist[q.TS] = nil
			}
			for _, c := range clients {
				if c.subscribed && !c.closed && c.mustClose == "" {
					c.mustClose = "force"
				}
			}
		case "pub":
			if st.Did != (len(queue) > 0) {
				fail(-1, "publish-one-mismatch", "unknown", fmt.Sprintf("did=%v queued=%d", st.Did, len(queue)))
			}
			if st.Did && len(queue) > 0 {
				b := queue[0]
				queue = queue[1:]
				if b.epoch != epoch {
					// a batch of a replaced store: publishBatch drops it (generation check), it closes nothing
					continue
				}
				b.published, b.pubEpoch, b.pubStep = true, epoch, i
				for _, t := range b.close {
					for _, c := range clients {
						if c.subscribed && !c.closed && c.tok == t && c.mustClose == "" {
							c.mustClose = "acl"
						}
					}
				}
			}
		case "sub":
			c := clients[st.C]
			if c == nil {
				c = &oClient{ts: st.TS, tok: st.Tok, kind: st.CK}
				clients[st.C] = c
			}
			c.subscribed = false
			if unsupported := st.TS.S < 0 && st.TS.T != TConfig; unsupported != (st.Err != "") {
				fail(st.C, "subscribe-result", "unknown", fmt.Sprintf("wildcard unsupported=%v, error %q", unsupported, st.Err))
			}
			if st.Err != "" {
				continue
			}
			if st.ReqIdx != c.lastIdx {
				fail(st.C, "request-index", "unknown", fmt.Sprintf("request index %d, materializer index %d", st.ReqIdx, c.lastIdx))
			}
			c.subscribed, c.closed, c.mustClose = true, false, ""
			c.reqIdx, c.first, c.snapPhase = st.ReqIdx, true, st.ReqIdx == 0
			c.delivered, c.haveStart, c.blocked, c.subStep = nil, false, false, i
			c.eosHere, c.dupSeen, c.behindSnap = false, false, false
			// a new subscription starts a new handler: snapshot events collected so far by an unfinished
			// snapshot are dropped, and a materializer at index 0 holds no rows
			c.pend = nil
			if st.ReqIdx == 0 {
				c.exp = nil
			}
		case "unsub":
			if c := clients[st.C]; c != nil {
				c.subscribed = false
			}
		case "next":
			c := clients[st.C]
			if c == nil || !c.subscribed {
				continue
			}
			c.blocked = false
			if st.Out != "nosub" {
				c.view = st.View
			}
			if c.mustClose != "" && st.Out != c.mustClose {
				fail(st.C, "missing-forced-close", "unknown", fmt.Sprintf("expected close %q, Next returned %q", c.mustClose, st.Out))
				c.mustClose = ""
			}
			switch st.Out {
			case "force", "acl":
				if c.mustClose == "" && !c.closed {
					fail(st.C, "spurious-close", "unknown", st.Out)
				}
				c.closed, c.mustClose = true, ""
				if c.kind == 0 {
					c.lastIdx = 0
					c.taint = ""
					c.exp, c.pend = nil, nil
				}
				if st.CIdx != c.lastIdx {
					fail(st.C, "index-after-close", "unknown", fmt.Sprintf("materializer index %d, expected %d", st.CIdx, c.lastIdx))
				}
				continue
			case "block":
				c.blocked = true
				if c.first && !c.snapPhase && c.epoch != epoch && c.lastIdx > 0 && c.taint == "" {
					// resumed (no snapshot, no reset) although its view was built from a replaced store
					c.taint = "restore-keeps-topic-buffer"
				}
				continue
			case "stuck":
				fail(st.C, "ready-item-not-delivered", "unknown", "an item that Next should deliver is reachable but Next waited instead")
				continue
			case "unsub", "nosub", "filtered":
				continue
			}
			if st.HErr != "" {
				fail(st.C, "handler-error", "unknown", st.HErr)
			}
			if c.closed {
				fail(st.C, "delivery-after-close", "unknown", st.Out)
			}
			wasFirst := c.first
			c.first = false
			switch st.Out {
			case "nstf":
				if !wasFirst || c.reqIdx == 0 {
					fail(st.C, "unexpected-framing", "unknown", "NewSnapshotToFollow not first or on a fresh request")
				}
				c.snapPhase = true
				c.lastIdx = 0
				c.taint = ""
				c.exp, c.pend = nil, nil
				if st.CIdx != 0 || len(st.View) != 0 {
					fail(st.C, "reset-incomplete", "unknown", "view not reset by NewSnapshotToFollow")
				}
			case "eos":
				if !c.snapPhase {
					fail(st.C, "unexpected-framing", "unknown", "EndOfSnapshot outside a snapshot")
				}
				c.snapPhase = false
				c.exp, c.pend = applyEvs(c.ts, c.exp, c.pend), nil
				c.snapIdx, c.start, c.haveStart, c.epoch = st.OIdx, st.OIdx, true, epoch
				c.eosHere = true
				c.taint = ""
				if st.CIdx != st.OIdx {
					fail(st.C, "index-not-set", "unknown", fmt.Sprintf("materializer index %d after EndOfSnapshot %d", st.CIdx, st.OIdx))
				}
				if st.CIdx < c.lastIdx {
					fail(st.C, "index-regression", "unknown", fmt.Sprintf("snapshot index %d after %d", st.CIdx, c.lastIdx))
				}
				c.lastIdx = st.CIdx
				if want := contentAt(c.ts, st.CIdx); !sameRows(want, st.View) {
					// first the open finding: the snapshot is exactly a LATER recorded result of a query whose
					// index was seen not to advance (whatever the spelling of the node names)
					cause := "unknown"
					for _, h := range hist[c.ts] {
						if cause == "unknown" && behind[c.ts] && h.idx > st.CIdx && sameRows(h.rows, st.View) {
							cause = "query-index-behind-content"
							c.behindSnap = true
						}
					}
					if cause == "unknown" {
						cause = viewCause(c, st.View, want, st.CIdx)
					}
					fail(st.C, "view-mismatch", cause, fmt.Sprintf("after snapshot@%d view %v, query at that index %v", st.CIdx, st.View, want))
				}
			case "ev":
				for _, e := range st.OEvs {
					if !touches(c.ts, e) {
						fail(st.C, "foreign-event", "unknown", fmt.Sprintf("event %v delivered to subscription on %v", e, c.ts))
					}
				}
				if c.snapPhase {
					c.pend = append(c.pend, st.OEvs...)
					if st.CIdx != c.lastIdx {
						fail(st.C, "index-moved-in-snapshot", "unknown", "")
					}
					continue
				}
				c.exp = applyEvs(c.ts, c.exp, st.OEvs)
				if !c.haveStart { // resumed subscription
					c.start, c.haveStart = c.reqIdx, true
					if c.epoch != epoch && c.taint == "" {
						c.taint = "restore-keeps-topic-buffer"
					}
				}
				c.delivered = append(c.delivered, st.OIdx)
				cause := deliveryCause(c, st.OIdx)
				if st.CIdx != st.OIdx {
					fail(st.C, "index-not-set", "unknown", fmt.Sprintf("materializer index %d after event %d", st.CIdx, st.OIdx))
				}
				if st.CIdx < c.lastIdx {
					fail(st.C, "index-regression", cause,
						fmt.Sprintf("event@%d delivered after index %d (snapshot@%d)", st.OIdx, c.lastIdx, c.snapIdx))
				}
				if st.CIdx == c.lastIdx {
					// the same index twice: only the batch at the snapshot's own index, once, right after
					// the snapshot of this subscription, and with the content of the committed batch
					ok := c.eosHere && !c.dupSeen && st.OIdx == c.snapIdx
					if b := batchAt(st.OIdx); ok && b != nil && b.epoch == epoch {
						var want []Ev
						for _, e := range b.evs {
							if touches(c.ts, e) {
								want = append(want, e)
							}
						}
						ok = reflect.DeepEqual(want, st.OEvs)
					}
					if !ok {
						fail(st.C, "duplicate-event", cause,
							fmt.Sprintf("event@%d delivered at index %d again (snapshot@%d)", st.OIdx, c.lastIdx, c.snapIdx))
					}
					c.dupSeen = true
				}
				c.lastIdx = st.CIdx
				if want := contentAt(c.ts, st.CIdx); !sameRows(want, st.View) {
					if cause == "unknown" {
						cause = viewCause(c, st.View, want, st.CIdx)
					}
					// the one re-delivered batch at the index of a snapshot already known to carry an
					// understated index: the view is still ahead of the content recorded at that index
					if cause == "unknown" && c.behindSnap && st.OIdx == c.snapIdx {
						cause = "query-index-behind-content"
					}
					fail(st.C, "view-mismatch", cause,
						fmt.Sprintf("after event@%d (snapshot@%d) view %v, query at that index %v", st.CIdx, c.snapIdx, st.View, want))
				}
			}
		}
	}
	// quiescence (only when the schedule ended with the drain)
	if drained && len(queue) == 0 {
		last := len(steps) - 1
		for id := 0; id < 64; id++ {
			c := clients[id]
			if c == nil || !c.subscribed || c.closed || !c.blocked || c.snapPhase || c.mustClose != "" {
				continue
			}
			fail := func(kind, cause, msg string) {
				if cause == "unknown" && c.taint != "" {
					cause = c.taint
				}
				if !seen[kind+":"+cause] {
					seen[kind+":"+cause] = true
					fails = append(fails, Failure{Kind: kind, Cause: cause, Scope: scopeOf(nil, c), Step: last, C: id, Msg: msg})
				}
			}
			if !c.haveStart {
				c.start = c.reqIdx
			}
			var want []uint64
			cause := "unknown"
			early := map[uint64]bool{}
			for _, b := range committed {
				if b.idx <= c.start || b.epoch != epoch {
					continue
				}
				for _, e := range b.evs {
					if touches(c.ts, e) {
						want = append(want, b.idx)
						early[b.idx] = b.published && b.pubStep < c.subStep
						break
					}
				}
			}
			var got []uint64
			for _, k := range c.delivered {
				if k > c.start {
					got = append(got, k)
					if b := batchAt(k); b != nil && b.epoch < epoch {
						cause = deliveryCause(c, k)
					}
				}
			}
			if !reflect.DeepEqual(want, got) && !(len(want) == 0 && len(got) == 0) {
				kind := "unexpected-event"
				if len(got) < len(want) {
					kind = "skipped-event"
					// every commit not delivered was published before this subscription started, so the
					// snapshot contains it although the snapshot's index is smaller
					allEarly, gi := true, 0
					for _, k := range want {
						if gi < len(got) && got[gi] == k {
							gi++
						} else if !early[k] {
							allEarly = false
						}
					}
					if allEarly && gi == len(got) && cause == "unknown" && behind[c.ts] {
						cause = "query-index-behind-content"
					}
				}
				fail(kind, cause, fmt.Sprintf("subject %v: commits after index %d: %v, delivered: %v", c.ts, c.start, want, got))
			}
			if !sameRows(c.view, cur[c.ts]) {
				fail("final-view-mismatch", viewCause(c, c.view, cur[c.ts], ^uint64(0)>>1),
					fmt.Sprintf("subject %v: view %v, current query %v", c.ts, c.view, cur[c.ts]))
			}
		}
	}
	return fails
}

// ---- which tokens a generated ACL write affects (independent of acl_events.go)

type aclState struct {
	tokPols  map[int][]int
	tokRole  map[int]bool
	rolePols []int
	role     bool
}

func newACLState() *aclState {
	return &aclState{tokPols: map[int][]int{}, tokRole: map[int]bool{}}
}

// aclExpected: the set of tokens whose subscriptions the (successful) write w must close; it also
// applies w to the bookkeeping. ok is false for writes that are no ACL writes (they must close nothing).
func aclExpected(a *aclState, w *Write) (map[int]bool, bool) {
	out := map[int]bool{}
	if w == nil {
		return out, true
	}
	switch w.K {
	case "tok":
		out[w.Tok] = true
		a.tokPols[w.Tok] = append([]int{}, w.Links...)
		a.tokRole[w.Tok] = w.Role
	case "dtok":
		if _, ok := a.tokPols[w.Tok]; ok {
			out[w.Tok] = true
		}
		delete(a.tokPols, w.Tok)
		delete(a.tokRole, w.Tok)
	case "pol":
		viaRole := false
		for _, p := range a.rolePols {
			if p == w.Pol {
				viaRole = true
			}
		}
		for t, ps := range a.tokPols {
			for _, p := range ps {
				if p == w.Pol {
					out[t] = true
				}
			}
			if viaRole && a.role && a.tokRole[t] {
				out[t] = true
			}
		}
	case "role":
		for t := range a.tokPols {
			if a.tokRole[t] {
				out[t] = true
			}
		}
		a.role = true
		a.rolePols = append([]int{}, w.Links...)
	}
	return out, true
}
