package main

import (
	"fmt"
	"reflect"
)

// The direct oracle: property C11 stated on the implementation's observations only (no model).
//
//  view-mismatch         after an update at index k the materialized view differs from what the direct
//                        query returned at k (recorded after every commit)
//  index-regression      the materializer's index decreased (other than by a reset)
//  skipped-event / unexpected-event
//                        after quiescence the indexes delivered after the snapshot are not exactly the
//                        commits that touched the subject after the snapshot index
//  final-view-mismatch   after quiescence the view differs from the current query result
//  missing-forced-close / spurious-close
//                        Next did not return the close error first after Restore / a published
//                        closeSubscription event for the subscription's token
//  events-do-not-match-state-change
//                        a committed batch, applied to the previous query results, does not give the new ones
//
// cause = subscribe-in-commit-publish-gap when the offending delivery is an event whose index is not
// larger than the index of the snapshot the subscriber already applied (an event contained in the
// snapshot, published after the snapshot was taken, re-delivered after it): DESIGN.md section 9, finding 11.

type oBatch struct {
	idx   uint64
	evs   []Ev
	close []int
	epoch int
}

type oHist struct {
	idx  uint64
	rows []KV
}

type oClient struct {
	ts         TS
	tok        int
	kind       int
	subscribed bool
	closed     bool
	mustClose  string
	snapPhase  bool
	first      bool // no delivery yet on this subscription
	reqIdx     uint64
	start      uint64 // deliveries with a larger index are "after the snapshot"
	haveStart  bool
	snapIdx    uint64 // index of the last snapshot applied (kept across resume)
	lastIdx    uint64
	delivered  []uint64
	blocked    bool
	epoch      int
}

func touches(ts TS, e Ev) bool {
	return e.T == ts.T && (ts.S < 0 || e.S == ts.S)
}

func applyEvs(ts TS, rows []KV, evs []Ev) []KV {
	out := append([]KV{}, rows...)
	for _, e := range evs {
		if !touches(ts, e) {
			continue
		}
		k := -1
		for i := range out {
			if out[i].S == e.S && out[i].I == e.I {
				k = i
			}
		}
		switch {
		case e.V == 0 && k >= 0:
			out = append(out[:k], out[k+1:]...)
		case e.V != 0 && k >= 0:
			out[k].V = e.V
		case e.V != 0:
			out = append(out, KV{e.S, e.I, e.V})
		}
	}
	sortKV(out)
	return out
}

func sameRows(a, b []KV) bool {
	if len(a) == 0 && len(b) == 0 {
		return true
	}
	return reflect.DeepEqual(a, b)
}

func oracle(steps []Step) *Failure {
	queue := []*oBatch{}
	epoch := 0
	base := map[TS][]KV{}
	hist := map[TS][]oHist{}
	cur := map[TS][]KV{}
	committed := []*oBatch{}
	clients := map[int]*oClient{}
	for _, ts := range allTS {
		base[ts] = []KV{}
		cur[ts] = []KV{}
	}
	contentAt := func(ts TS, k uint64) []KV {
		rows := base[ts]
		for _, h := range hist[ts] {
			if h.idx <= k {
				rows = h.rows
			}
		}
		return rows
	}
	gapCause := func(c *oClient, k uint64) string {
		if c.snapIdx > 0 && k <= c.snapIdx && c.epoch == epoch {
			return "subscribe-in-commit-publish-gap"
		}
		return "unknown"
	}
	for i := range steps {
		st := &steps[i]
		fail := func(c int, kind, cause, msg string) *Failure {
			return &Failure{Kind: kind, Cause: cause, Step: i, C: c, Msg: msg}
		}
		switch st.Op {
		case "commit":
			if st.Err != "" && st.Queued {
				return fail(-1, "commit-error-but-published", "unknown", st.Err)
			}
			var evs []Ev
			if st.Queued {
				b := &oBatch{idx: st.Idx, evs: st.Evs, close: st.Close, epoch: epoch}
				queue = append(queue, b)
				committed = append(committed, b)
				evs = st.Evs
			}
			for _, q := range st.Q {
				want := applyEvs(q.TS, cur[q.TS], evs)
				if !sameRows(want, q.Rows) {
					return fail(-1, "events-do-not-match-state-change", "unknown",
						fmt.Sprintf("ts %v: previous rows %v + events %v != query %v", q.TS, cur[q.TS], evs, q.Rows))
				}
				cur[q.TS] = q.Rows
				hist[q.TS] = append(hist[q.TS], oHist{st.Idx, q.Rows})
			}
		case "restore":
			epoch++
			for _, q := range st.Q {
				base[q.TS] = q.Rows
				cur[q.TS] = q.Rows
				hist[q.TS] = nil
			}
			for _, c := range clients {
				if c.subscribed && !c.closed && c.mustClose == "" {
					c.mustClose = "force"
				}
			}
		case "pub":
			if st.Did != (len(queue) > 0) {
				return fail(-1, "publish-one-mismatch", "unknown", fmt.Sprintf("did=%v queued=%d", st.Did, len(queue)))
			}
			if st.Did {
				b := queue[0]
				queue = queue[1:]
				for _, t := range b.close {
					for _, c := range clients {
						if c.subscribed && !c.closed && c.tok == t && c.mustClose == "" {
							c.mustClose = "acl"
						}
					}
				}
			}
		case "sub":
			c := clients[st.C]
			if c == nil {
				c = &oClient{ts: st.TS, tok: st.Tok, kind: st.CK}
				clients[st.C] = c
			}
			if unsupported := st.TS.S < 0 && st.TS.T != TConfig; unsupported != (st.Err != "") {
				return fail(st.C, "subscribe-result", "unknown", fmt.Sprintf("wildcard unsupported=%v, error %q", unsupported, st.Err))
			}
			if st.Err != "" {
				continue
			}
			if st.ReqIdx != c.lastIdx {
				return fail(st.C, "request-index", "unknown", fmt.Sprintf("request index %d, materializer index %d", st.ReqIdx, c.lastIdx))
			}
			c.subscribed, c.closed, c.mustClose = true, false, ""
			c.reqIdx, c.first, c.snapPhase = st.ReqIdx, true, st.ReqIdx == 0
			c.delivered, c.haveStart, c.blocked = nil, false, false
		case "unsub":
			if c := clients[st.C]; c != nil {
				c.subscribed = false
			}
		case "next":
			c := clients[st.C]
			if c == nil || !c.subscribed {
				continue
			}
			c.blocked = false
			if c.mustClose != "" && st.Out != c.mustClose {
				return fail(st.C, "missing-forced-close", "unknown", fmt.Sprintf("expected close %q, Next returned %q", c.mustClose, st.Out))
			}
			switch st.Out {
			case "force", "acl":
				if c.mustClose == "" && !c.closed {
					return fail(st.C, "spurious-close", "unknown", st.Out)
				}
				c.closed, c.mustClose = true, ""
				if c.kind == 0 {
					c.lastIdx = 0
				}
				if st.CIdx != c.lastIdx {
					return fail(st.C, "index-after-close", "unknown", fmt.Sprintf("materializer index %d, expected %d", st.CIdx, c.lastIdx))
				}
				continue
			case "block":
				c.blocked = true
				continue
			case "unsub", "nosub", "filtered":
				continue
			}
			if st.HErr != "" {
				return fail(st.C, "handler-error", "unknown", st.HErr)
			}
			if c.closed {
				return fail(st.C, "delivery-after-close", "unknown", st.Out)
			}
			wasFirst := c.first
			c.first = false
			switch st.Out {
			case "nstf":
				if !wasFirst || c.reqIdx == 0 {
					return fail(st.C, "unexpected-framing", "unknown", "NewSnapshotToFollow not first or on a fresh request")
				}
				c.snapPhase = true
				c.lastIdx = 0
				if st.CIdx != 0 || len(st.View) != 0 {
					return fail(st.C, "reset-incomplete", "unknown", "view not reset by NewSnapshotToFollow")
				}
			case "eos":
				if !c.snapPhase {
					return fail(st.C, "unexpected-framing", "unknown", "EndOfSnapshot outside a snapshot")
				}
				c.snapPhase = false
				c.snapIdx, c.start, c.haveStart, c.epoch = st.OIdx, st.OIdx, true, epoch
				if st.CIdx != st.OIdx {
					return fail(st.C, "index-not-set", "unknown", fmt.Sprintf("materializer index %d after EndOfSnapshot %d", st.CIdx, st.OIdx))
				}
				if st.CIdx < c.lastIdx {
					return fail(st.C, "index-regression", "unknown", fmt.Sprintf("snapshot index %d after %d", st.CIdx, c.lastIdx))
				}
				c.lastIdx = st.CIdx
				if want := contentAt(c.ts, st.CIdx); !sameRows(want, st.View) {
					return fail(st.C, "view-mismatch", "unknown", fmt.Sprintf("after snapshot@%d view %v, query at that index %v", st.CIdx, st.View, want))
				}
			case "ev":
				for _, e := range st.OEvs {
					if !touches(c.ts, e) {
						return fail(st.C, "foreign-event", "unknown", fmt.Sprintf("event %v delivered to subscription on %v", e, c.ts))
					}
				}
				if c.snapPhase {
					if st.CIdx != c.lastIdx {
						return fail(st.C, "index-moved-in-snapshot", "unknown", "")
					}
					continue
				}
				if !c.haveStart { // resumed subscription
					c.start, c.haveStart = c.reqIdx, true
				}
				c.delivered = append(c.delivered, st.OIdx)
				if st.CIdx != st.OIdx {
					return fail(st.C, "index-not-set", "unknown", fmt.Sprintf("materializer index %d after event %d", st.CIdx, st.OIdx))
				}
				if st.CIdx < c.lastIdx {
					return fail(st.C, "index-regression", gapCause(c, st.OIdx),
						fmt.Sprintf("event@%d delivered after index %d (snapshot@%d)", st.OIdx, c.lastIdx, c.snapIdx))
				}
				c.lastIdx = st.CIdx
				if want := contentAt(c.ts, st.CIdx); !sameRows(want, st.View) {
					return fail(st.C, "view-mismatch", gapCause(c, st.OIdx),
						fmt.Sprintf("after event@%d (snapshot@%d) view %v, query at that index %v", st.CIdx, c.snapIdx, st.View, want))
				}
			}
		}
	}
	// quiescence (only meaningful when the schedule ended with the drain)
	if len(queue) == 0 {
		for id, c := range clients {
			if !c.subscribed || c.closed || !c.blocked || c.snapPhase || c.mustClose != "" {
				continue
			}
			if !c.haveStart {
				c.start = c.reqIdx
			}
			var want []uint64
			for _, b := range committed {
				if b.idx <= c.start || b.epoch != epoch {
					continue
				}
				for _, e := range b.evs {
					if touches(c.ts, e) {
						want = append(want, b.idx)
						break
					}
				}
			}
			var got []uint64
			for _, k := range c.delivered {
				if k > c.start {
					got = append(got, k)
				}
			}
			if !reflect.DeepEqual(want, got) && !(len(want) == 0 && len(got) == 0) {
				kind := "unexpected-event"
				if len(got) < len(want) {
					kind = "skipped-event"
				}
				return &Failure{Kind: kind, Cause: "unknown", Step: len(steps) - 1, C: id,
					Msg: fmt.Sprintf("subject %v: commits after index %d: %v, delivered: %v", c.ts, c.start, want, got)}
			}
		}
	}
	return nil
}

// finalCheck: after quiescence every streaming client's view equals the current query result.
func finalCheck(steps []Step) *Failure {
	cur := map[TS][]KV{}
	for _, ts := range allTS {
		cur[ts] = []KV{}
	}
	type cl struct {
		ts      TS
		view    []KV
		blocked bool
		live    bool
		snap    bool
	}
	clients := map[int]*cl{}
	queued := 0
	for i := range steps {
		st := &steps[i]
		switch st.Op {
		case "commit", "restore":
			for _, q := range st.Q {
				cur[q.TS] = q.Rows
			}
			if st.Queued {
				queued++
			}
		case "pub":
			if st.Did {
				queued--
			}
		case "sub":
			clients[st.C] = &cl{ts: st.TS, live: st.Err == "", snap: true}
			if st.ReqIdx > 0 {
				clients[st.C].snap = false
			}
		case "unsub":
			if c := clients[st.C]; c != nil {
				c.live = false
			}
		case "next":
			c := clients[st.C]
			if c == nil || !c.live {
				continue
			}
			c.blocked = st.Out == "block"
			switch st.Out {
			case "force", "acl", "unsub":
				c.live = false
			case "nstf":
				c.snap = true
			case "eos":
				c.snap = false
			}
			if st.Out != "nosub" {
				c.view = st.View
			}
		}
	}
	if queued != 0 {
		return nil
	}
	for id, c := range clients {
		if c.live && c.blocked && !c.snap && !sameRows(c.view, cur[c.ts]) {
			return &Failure{Kind: "final-view-mismatch", Cause: "unknown", Step: len(steps) - 1, C: id,
				Msg: fmt.Sprintf("subject %v: view %v, current query %v", c.ts, c.view, cur[c.ts])}
		}
	}
	return nil
}
