// Correspondence harness for property C11 (streaming subscribers materialize exactly the server's state).
//
// A real state.Store is wired to a real stream.EventPublisher whose Run goroutine is NOT started:
// the verif hook VerifPublishOne moves exactly one committed batch from publishCh to the topic
// buffers.  Generated schedules (commit / publish-one / subscribe / next / unsubscribe / restore /
// cache-evict) are executed deterministically, single threaded.  Every subscriber is a real
// submatview materializer (hook VerifMat: real handler state machine, real updateView/reset) over
// the real rpcclient/health HealthView or rpcclient/configentry views.
//
// One JSON line per case: the schedule with, per step, the implementation's observations
// (committed batch as abstract events, query results after each commit, outcome of every
// Subscription.Next, the materializer's index and view after it) and the verdict of a direct,
// model-independent oracle ("oracle": "" when fine, else a structured failure).
//
// -mode free  (thorough tier, built with -race): the same write histories with the publisher's Run
// goroutine and one goroutine per subscriber running freely; only final equality is compared.
package main

import (
	"context"
	"encoding/json"
	"errors"
	"fmt"
	"sort"
	"strings"
	"time"

	"bytes"
	"io"

	"github.com/hashicorp/go-hclog"
	"google.golang.org/grpc"

	"github.com/hashicorp/consul/acl"
	"github.com/hashicorp/consul/agent/consul/fsm"
	"github.com/hashicorp/consul/agent/consul/state"
	"github.com/hashicorp/consul/agent/consul/stream"
	"github.com/hashicorp/consul/agent/rpcclient/configentry"
	"github.com/hashicorp/consul/agent/rpcclient/health"
	"github.com/hashicorp/consul/agent/structs"
	"github.com/hashicorp/consul/agent/submatview"
	"github.com/hashicorp/consul/api"
	raftstorage "github.com/hashicorp/consul/internal/storage/raft"
	"github.com/hashicorp/consul/proto/private/pbsubscribe"
	"github.com/hashicorp/consul/types"
)

// ---------------------------------------------------------------------------------------------
// universe

var nodes = []string{"n1", "n2"}
var svcNames = []string{"web", "api", "db"} // subject numbers 0,1,2
var sids = []string{"api1", "db1", "web1", "web2", "webp", "apip"}

// instance ids: index into the sorted list of "node/sid"
var instIDs []string

func init() {
	for _, n := range nodes {
		for _, s := range sids {
			instIDs = append(instIDs, n+"/"+s)
		}
	}
	sort.Strings(instIDs)
}

// instID: node names are case-insensitive in the catalog (a node re-registered as "N1" is node "n1"),
// so rows are identified by the lower-cased node name and the service id
func instID(node, sid string) int {
	k := strings.ToLower(node) + "/" + sid
	for i, s := range instIDs {
		if s == k {
			return i
		}
	}
	panic("unknown instance " + k)
}

func subjNum(name string) int {
	name = strings.ToLower(name)
	for i, s := range svcNames {
		if s == name {
			return i
		}
	}
	panic("unknown subject " + name)
}

const (
	THealth  = 0
	TConnect = 1
	TConfig  = 2
)

var topics = []pbsubscribe.Topic{pbsubscribe.Topic_ServiceHealth, pbsubscribe.Topic_ServiceHealthConnect, pbsubscribe.Topic_ServiceDefaults}

func topicNum(t stream.Topic) int {
	for i, x := range topics {
		if t == stream.Topic(x) {
			return i
		}
	}
	return -1
}

// TS is a topic/subject: subject -1 is the wildcard.
type TS struct {
	T int `json:"t"`
	S int `json:"s"`
}

var allTS = []TS{{0, 0}, {0, 1}, {0, 2}, {1, 0}, {1, 1}, {2, 0}, {2, 1}, {2, -1}}

var secrets = []string{"secret-0", "secret-1", "secret-2"}
var accessors = []string{"00000000-0000-0000-0000-0000000000a0", "00000000-0000-0000-0000-0000000000a1", "00000000-0000-0000-0000-0000000000a2"}
var policyIDs = []string{"00000000-0000-0000-0000-0000000000b0", "00000000-0000-0000-0000-0000000000b1"}
var roleIDs = []string{"00000000-0000-0000-0000-0000000000c0"}

func tokNum(secret string) int {
	for i, s := range secrets {
		if s == secret {
			return i
		}
	}
	return -1
}

// ---------------------------------------------------------------------------------------------
// schedule and observations

// Write is one state-store write (one Raft apply).
type Write struct {
	K      string  `json:"k"` // svc dsvc node dnode chk dchk cfg dcfg tok dtok pol role kv reg txn
	Node   string  `json:"node,omitempty"`
	SID    string  `json:"sid,omitempty"`
	Name   string  `json:"name,omitempty"`
	Kind   string  `json:"kind,omitempty"` // "" | proxy | native
	Dest   string  `json:"dest,omitempty"`
	Port   int     `json:"port,omitempty"`
	Meta   string  `json:"meta,omitempty"`
	Check  string  `json:"check,omitempty"`
	Status string  `json:"status,omitempty"`
	Proto  string  `json:"proto,omitempty"`
	Tok    int     `json:"tok,omitempty"`
	Pol    int     `json:"pol,omitempty"`
	Links  []int   `json:"links,omitempty"` // policies linked by a token / role
	Role   bool    `json:"role,omitempty"`  // token links role 0
	Desc   string  `json:"desc,omitempty"`
	NMeta  string  `json:"nmeta,omitempty"`  // reg: node meta written by the same request
	NCheck string  `json:"ncheck,omitempty"` // reg: status of the node-level check "nc" written by the same request
	Ops    []Write `json:"ops,omitempty"`    // txn: node / svc / chk / dsvc / dchk operations of ONE transaction
}

// Ev is an abstract event: topic, subject, instance id, value (0 = deregister / delete).
type Ev struct {
	T int `json:"t"`
	S int `json:"s"`
	I int `json:"i"`
	V int `json:"v"`
}

// KV is one row of a query result or a view: key (subject, id), interned value.
type KV struct {
	S int `json:"s"`
	I int `json:"i"`
	V int `json:"v"`
}

type Content struct {
	TS   TS     `json:"ts"`
	Idx  uint64 `json:"idx"`
	Rows []KV   `json:"rows"`
}

type Step struct {
	Op  string  `json:"op"` // commit pub sub next unsub restore evict
	W   *Write  `json:"w,omitempty"`
	R   []Write `json:"r,omitempty"` // restore: writes replayed into the fresh store
	C   int     `json:"c"`
	TS  TS      `json:"ts"`
	Tok int     `json:"tok"`
	CK  int     `json:"ck"` // client kind: 0 = rpc materializer (resets when the stream is aborted), 1 = local materializer (keeps its index)

	// observations
	Idx    uint64    `json:"idx,omitempty"`    // commit: raft index used
	Err    string    `json:"err,omitempty"`    // commit/sub: error text
	Queued bool      `json:"queued,omitempty"` // commit: a batch was queued
	Evs    []Ev      `json:"evs,omitempty"`    // commit: abstract events of the batch (stable-sorted by t,s,i)
	Close  []int     `json:"close,omitempty"`  // commit: tokens named by the closeSubscription event
	Silent []Ev      `json:"silent,omitempty"` // commit: row changes of the query results that no event of the batch announces
	Q      []Content `json:"q,omitempty"`      // commit/restore: all query results afterwards
	Did    bool      `json:"did,omitempty"`    // pub: something was published
	ReqIdx uint64    `json:"reqidx,omitempty"` // sub: index in the request (the materializer's index)
	QIdx   uint64    `json:"qidx,omitempty"`   // sub: index the direct query reports for the subject right now
	QLen   int       `json:"qlen,omitempty"`   // sub: publisher queue length right now
	Path   string    `json:"path,omitempty"`   // sub: way Subscribe will go, read from the publisher's state: err resume cache build
	Out    string    `json:"out,omitempty"`    // next: ev eos nstf force acl unsub block nosub
	OIdx   uint64    `json:"oidx,omitempty"`   // next: index of the delivered event
	OEvs   []Ev      `json:"oevs,omitempty"`   // next: delivered events
	CIdx   uint64    `json:"cidx,omitempty"`   // next: materializer index afterwards
	View   []KV      `json:"view,omitempty"`   // next: materialized view afterwards
	HErr   string    `json:"herr,omitempty"`   // next: error returned by the handler
}

type Failure struct {
	Kind  string `json:"kind"`
	Cause string `json:"cause"`
	Scope string `json:"scope"` // topic class of the subject concerned: service-health | service-health-connect | config-entry | ""
	Step  int    `json:"step"`
	C     int    `json:"c"`
	Msg   string `json:"msg"`
}

type Case struct {
	ID     int       `json:"id"`
	Gen    string    `json:"gen"`
	Steps  []Step    `json:"steps"`
	Bufs   int       `json:"bufs"`
	Snaps  int       `json:"snaps"`
	QueueN int       `json:"queue_n"`
	Oracle string    `json:"oracle"` // "" or kind:cause of every distinct oracle failure, joined by ";"
	Fails  []Failure `json:"fails,omitempty"`
	NVals  int       `json:"nvals"`
	Mode   string    `json:"mode"`
	Cache  bool      `json:"cache"` // snapshot cache enabled (snapCacheTTL != 0)
	Vals   []string  `json:"vals,omitempty"`
	Idx0   bool      `json:"idx0,omitempty"` // the first write gets raft index 1 (upstream tests do that; Raft never does)
}

var debugVals = false

// ---------------------------------------------------------------------------------------------
// world

type Client struct {
	id   int
	ts   TS
	tok  int
	kind int
	view submatview.View
	mat  *submatview.VerifMat
	req  *stream.SubscribeRequest
	sub  *stream.Subscription
}

type World struct {
	pub     *stream.EventPublisher
	f       *fsm.FSM // the server's FSM: owns the state store, swaps it on Restore and calls RefreshAllTopics
	cancel  context.CancelFunc
	idx     uint64
	clients map[int]*Client
	vals    map[string]int
	authz   acl.Authorizer
	lastQ   map[TS][]KV
}

type raftHandle struct {
	apply func(msg []byte) (any, error)
}

func (h *raftHandle) Apply(msg []byte) (any, error)              { return h.apply(msg) }
func (raftHandle) IsLeader() bool                                { return true }
func (raftHandle) EnsureStrongConsistency(context.Context) error { return nil }
func (raftHandle) DialLeader() (*grpc.ClientConn, error)         { return nil, errors.New("no") }

type memSink struct{ bytes.Buffer }

func (m *memSink) ID() string    { return "verif" }
func (m *memSink) Cancel() error { return nil }
func (m *memSink) Close() error  { return nil }

// newFSM: a real consul FSM; with a publisher its state stores hand their events to it and the FSM
// registers the snapshot handlers (fsm.registerStreamSnapshotHandlers).
func newFSM(pub *stream.EventPublisher) (*fsm.FSM, context.CancelFunc) {
	logger := hclog.NewNullLogger()
	handle := &raftHandle{}
	backend, err := raftstorage.NewBackend(handle, logger)
	must(err)
	handle.apply = func(buf []byte) (any, error) { return backend.Apply(buf, 1), nil }
	ctx, cancel := context.WithCancel(context.Background())
	go backend.Run(ctx)
	deps := fsm.Deps{Logger: logger, StorageBackend: backend}
	if pub != nil {
		deps.Publisher = pub
		deps.NewStateStore = func() *state.Store { return state.NewStateStoreWithEventPublisher(nil, pub) }
	} else {
		deps.NewStateStore = func() *state.Store { return state.NewStateStore(nil) }
	}
	return fsm.NewFromDeps(deps), cancel
}

func (w *World) cur() *state.Store { return w.f.State() }

func (w *World) close() { w.cancel() }

func newWorld(cacheTTL time.Duration) *World {
	w := &World{clients: map[int]*Client{}, vals: map[string]int{}, idx: 1, authz: acl.ManageAll(), lastQ: map[TS][]KV{}}
	w.pub = stream.NewEventPublisher(cacheTTL)
	w.f, w.cancel = newFSM(w.pub)
	return w
}

func must(err error) {
	if err != nil {
		panic(err)
	}
}

var defMeta = structs.DefaultEnterpriseMetaInDefaultPartition()

// ---- canonical values

func strip(g interface{}) interface{} {
	switch x := g.(type) {
	case map[string]interface{}:
		out := map[string]interface{}{}
		for k, v := range x {
			s := strip(v)
			if s != nil {
				out[k] = s
			}
		}
		if len(out) == 0 {
			return nil
		}
		return out
	case []interface{}:
		var out []interface{}
		for _, v := range x {
			s := strip(v)
			if s != nil {
				out = append(out, s)
			}
		}
		if len(out) == 0 {
			return nil
		}
		return out
	case string:
		if x == "" {
			return nil
		}
		return x
	case json.Number:
		if x.String() == "0" {
			return nil
		}
		return x
	case bool:
		if !x {
			return nil
		}
		return x
	case nil:
		return nil
	}
	return g
}

func canon(v interface{}) string {
	b, err := json.Marshal(v)
	must(err)
	dec := json.NewDecoder(strings.NewReader(string(b)))
	dec.UseNumber()
	var g interface{}
	must(dec.Decode(&g))
	out, err := json.Marshal(strip(g))
	must(err)
	return string(out)
}

func (w *World) intern(s string) int {
	if v, ok := w.vals[s]; ok {
		return v
	}
	v := len(w.vals) + 1
	w.vals[s] = v
	return v
}

func (w *World) csnVal(csn *structs.CheckServiceNode) int {
	c := *csn
	// checks order is not part of the value
	cs := append(structs.HealthChecks{}, c.Checks...)
	sort.SliceStable(cs, func(i, j int) bool { return cs[i].CheckID < cs[j].CheckID })
	c.Checks = cs
	return w.intern("csn:" + canon(&c))
}

// cfgVal: the Kind field is projected away (pbconfigentry.ConfigEntryToStructs leaves it empty for
// service-defaults; GetKind() is a constant and the topic determines the kind).
func (w *World) cfgVal(e structs.ConfigEntry) int {
	cp := *(e.(*structs.ServiceConfigEntry))
	cp.Kind = ""
	return w.intern("cfg:" + canon(&cp))
}

func sortKV(r []KV) {
	sort.SliceStable(r, func(i, j int) bool {
		if r[i].S != r[j].S {
			return r[i].S < r[j].S
		}
		return r[i].I < r[j].I
	})
}

func sortEv(r []Ev) {
	sort.SliceStable(r, func(i, j int) bool {
		if r[i].T != r[j].T {
			return r[i].T < r[j].T
		}
		if r[i].S != r[j].S {
			return r[i].S < r[j].S
		}
		return r[i].I < r[j].I
	})
}

// query is the direct query equivalent to a subscription on ts.
func (w *World) query(ts TS) Content {
	s := w.cur()
	c := Content{TS: ts, Rows: []KV{}}
	if ts.T != TConfig && ts.S < 0 {
		return c
	}
	switch ts.T {
	case THealth, TConnect:
		var idx uint64
		var ns structs.CheckServiceNodes
		var err error
		if ts.T == THealth {
			idx, ns, err = s.CheckServiceNodes(nil, svcNames[ts.S], defMeta, "")
		} else {
			idx, ns, err = s.CheckConnectServiceNodes(nil, svcNames[ts.S], defMeta, "")
		}
		must(err)
		c.Idx = idx
		for i := range ns {
			c.Rows = append(c.Rows, KV{ts.S, instID(ns[i].Node.Node, ns[i].Service.ID), w.csnVal(&ns[i])})
		}
	case TConfig:
		if ts.S >= 0 {
			idx, e, err := s.ConfigEntry(nil, structs.ServiceDefaults, svcNames[ts.S], defMeta)
			must(err)
			c.Idx = idx
			if e != nil {
				c.Rows = append(c.Rows, KV{ts.S, 0, w.cfgVal(e)})
			}
		} else {
			idx, es, err := s.ConfigEntriesByKind(nil, structs.ServiceDefaults, structs.WildcardEnterpriseMetaInPartition(structs.WildcardSpecifier))
			must(err)
			c.Idx = idx
			for _, e := range es {
				c.Rows = append(c.Rows, KV{subjNum(e.GetName()), 0, w.cfgVal(e)})
			}
		}
	}
	sortKV(c.Rows)
	return c
}

func (w *World) queryAll() []Content {
	var out []Content
	for _, ts := range allTS {
		out = append(out, w.query(ts))
	}
	return out
}

// viewRows reads the materialized view through the view's own Result.
func (w *World) viewRows(c *Client) []KV {
	rows := []KV{}
	switch r := c.mat.VerifResult().(type) {
	case *structs.IndexedCheckServiceNodes:
		for i := range r.Nodes {
			rows = append(rows, KV{c.ts.S, instID(r.Nodes[i].Node.Node, r.Nodes[i].Service.ID), w.csnVal(&r.Nodes[i])})
		}
	case *structs.ConfigEntryResponse:
		if r.Entry != nil {
			rows = append(rows, KV{subjNum(r.Entry.GetName()), 0, w.cfgVal(r.Entry)})
		}
	case *structs.IndexedConfigEntries:
		for _, e := range r.Entries {
			rows = append(rows, KV{subjNum(e.GetName()), 0, w.cfgVal(e)})
		}
	default:
		panic(fmt.Sprintf("unexpected view result %T", r))
	}
	sortKV(rows)
	return rows
}

// abstractEvent maps a real stream.Event (not framing, not close) to Ev.
func (w *World) abstractEvent(e stream.Event) (Ev, bool) {
	t := topicNum(e.Topic)
	if t < 0 {
		return Ev{}, false
	}
	switch p := e.Payload.(type) {
	case state.EventPayloadCheckServiceNode:
		name := p.Subject().String()
		known := false
		for _, s := range svcNames {
			if s == name {
				known = true
			}
		}
		if !known {
			return Ev{}, false
		}
		ev := Ev{T: t, S: subjNum(name), I: instID(p.Value.Node.Node, p.Value.Service.ID)}
		if p.Op == pbsubscribe.CatalogOp_Register {
			ev.V = w.csnVal(p.Value)
		}
		return ev, true
	case state.EventPayloadConfigEntry:
		ev := Ev{T: t, S: subjNum(p.Value.GetName()), I: 0}
		if p.Op == pbsubscribe.ConfigEntryUpdate_Upsert {
			ev.V = w.cfgVal(p.Value)
		}
		return ev, true
	}
	return Ev{}, false
}

func (w *World) abstractDelivered(e stream.Event) []Ev {
	var out []Ev
	if pe, ok := e.Payload.(*stream.PayloadEvents); ok {
		for _, it := range pe.Items {
			if a, ok := w.abstractEvent(it); ok {
				out = append(out, a)
			}
		}
	} else if a, ok := w.abstractEvent(e); ok {
		out = append(out, a)
	}
	sortEv(out)
	return out
}

// ---- writes

func (w *World) nodeService(x *Write) *structs.NodeService {
	ns := &structs.NodeService{ID: x.SID, Service: x.Name, Port: x.Port, EnterpriseMeta: *defMeta}
	if x.Meta != "" {
		ns.Meta = map[string]string{"m": x.Meta}
	}
	switch x.Kind {
	case "proxy":
		ns.Kind = structs.ServiceKindConnectProxy
		ns.Proxy = structs.ConnectProxyConfig{DestinationServiceName: x.Dest}
	case "native":
		ns.Connect.Native = true
	}
	return ns
}

func (w *World) registerRequest(x *Write) *structs.RegisterRequest {
	req := &structs.RegisterRequest{Datacenter: "dc1", Node: x.Node, Address: "10.0.0." + x.Node[1:], EnterpriseMeta: *defMeta}
	req.ID = types.NodeID("11111111-2222-3333-4444-00000000000" + x.Node[1:])
	switch x.K {
	case "node":
		if x.Meta != "" {
			req.NodeMeta = map[string]string{"nm": x.Meta}
		}
	case "svc":
		req.SkipNodeUpdate = true
		req.Service = w.nodeService(x)
		if x.Check != "" {
			req.Checks = structs.HealthChecks{{Node: x.Node, CheckID: types.CheckID(x.Check), Name: x.Check, Status: x.Status, ServiceID: x.SID, EnterpriseMeta: *defMeta}}
		}
	case "chk":
		req.SkipNodeUpdate = true
		req.Checks = structs.HealthChecks{{Node: x.Node, CheckID: types.CheckID(x.Check), Name: x.Check, Status: x.Status, ServiceID: x.SID, EnterpriseMeta: *defMeta}}
	case "reg":
		// one Catalog.Register request that writes the node, a node-level check, a service and a service check together
		if x.NMeta != "" {
			req.NodeMeta = map[string]string{"nm": x.NMeta}
		}
		if x.SID != "" {
			req.Service = w.nodeService(x)
		}
		if x.NCheck != "" {
			req.Checks = append(req.Checks, &structs.HealthCheck{Node: x.Node, CheckID: "nc", Name: "nc", Status: x.NCheck, EnterpriseMeta: *defMeta})
		}
		if x.Check != "" && x.SID != "" {
			req.Checks = append(req.Checks, &structs.HealthCheck{Node: x.Node, CheckID: types.CheckID(x.Check), Name: x.Check, Status: x.Status, ServiceID: x.SID, EnterpriseMeta: *defMeta})
		}
	}
	return req
}

func (w *World) apply(s *state.Store, idx uint64, x *Write) error {
	switch x.K {
	case "node", "svc", "chk", "reg":
		return s.EnsureRegistration(idx, w.registerRequest(x))
	case "txn":
		var ops structs.TxnOps
		for i := range x.Ops {
			o := &x.Ops[i]
			switch o.K {
			case "node":
				n := structs.Node{Node: o.Node, Address: "10.0.0." + o.Node[1:], Datacenter: "dc1", ID: types.NodeID("11111111-2222-3333-4444-00000000000" + o.Node[1:])}
				if o.Meta != "" {
					n.Meta = map[string]string{"nm": o.Meta}
				}
				ops = append(ops, &structs.TxnOp{Node: &structs.TxnNodeOp{Verb: api.NodeSet, Node: n}})
			case "svc":
				ops = append(ops, &structs.TxnOp{Service: &structs.TxnServiceOp{Verb: api.ServiceSet, Node: o.Node, Service: *w.nodeService(o)}})
			case "dsvc":
				ops = append(ops, &structs.TxnOp{Service: &structs.TxnServiceOp{Verb: api.ServiceDelete, Node: o.Node, Service: structs.NodeService{ID: o.SID, EnterpriseMeta: *defMeta}}})
			case "chk":
				ops = append(ops, &structs.TxnOp{Check: &structs.TxnCheckOp{Verb: api.CheckSet, Check: structs.HealthCheck{Node: o.Node, CheckID: types.CheckID(o.Check), Name: o.Check, Status: o.Status, ServiceID: o.SID, EnterpriseMeta: *defMeta}}})
			case "dchk":
				ops = append(ops, &structs.TxnOp{Check: &structs.TxnCheckOp{Verb: api.CheckDelete, Check: structs.HealthCheck{Node: o.Node, CheckID: types.CheckID(o.Check), EnterpriseMeta: *defMeta}}})
			}
		}
		if _, errs := s.TxnRW(idx, ops); len(errs) > 0 {
			return errs[0]
		}
		return nil
	case "dsvc":
		return s.DeleteService(idx, x.Node, x.SID, defMeta, "")
	case "dnode":
		return s.DeleteNode(idx, x.Node, defMeta, "")
	case "dchk":
		return s.DeleteCheck(idx, x.Node, types.CheckID(x.Check), defMeta, "")
	case "cfg":
		e := &structs.ServiceConfigEntry{Kind: structs.ServiceDefaults, Name: x.Name, Protocol: x.Proto, EnterpriseMeta: *defMeta}
		must(e.Normalize())
		if err := e.Validate(); err != nil {
			return err
		}
		return s.EnsureConfigEntry(idx, e)
	case "dcfg":
		return s.DeleteConfigEntry(idx, structs.ServiceDefaults, x.Name, defMeta)
	case "tok":
		t := &structs.ACLToken{AccessorID: accessors[x.Tok], SecretID: secrets[x.Tok], Description: x.Desc}
		for _, p := range x.Links {
			t.Policies = append(t.Policies, structs.ACLTokenPolicyLink{ID: policyIDs[p]})
		}
		if x.Role {
			t.Roles = append(t.Roles, structs.ACLTokenRoleLink{ID: roleIDs[0]})
		}
		return s.ACLTokenSet(idx, t)
	case "dtok":
		return s.ACLTokenDeleteByAccessor(idx, accessors[x.Tok], defMeta)
	case "pol":
		p := &structs.ACLPolicy{ID: policyIDs[x.Pol], Name: fmt.Sprintf("pol%d", x.Pol), Description: x.Desc, Rules: `service_prefix "" { policy = "read" }`}
		p.SetHash(true)
		return s.ACLPolicySet(idx, p)
	case "role":
		r := &structs.ACLRole{ID: roleIDs[0], Name: "role0", Description: x.Desc}
		for _, p := range x.Links {
			r.Policies = append(r.Policies, structs.ACLRolePolicyLink{ID: policyIDs[p]})
		}
		r.SetHash(true)
		return s.ACLRoleSet(idx, r)
	case "kv":
		return s.KVSSet(idx, &structs.DirEntry{Key: "k/" + x.Name, Value: []byte(x.Desc)})
	}
	return fmt.Errorf("unknown write %q", x.K)
}

func safely(f func() error) (err error) {
	defer func() {
		if r := recover(); r != nil {
			err = fmt.Errorf("panic: %v", r)
		}
	}()
	return f()
}

// ---- steps

func (w *World) doCommit(st *Step) {
	w.idx++
	st.Idx = w.idx
	before := w.pub.VerifQueued()
	if err := safely(func() error { return w.apply(w.cur(), w.idx, st.W) }); err != nil {
		st.Err = short(err.Error())
	}
	q := w.pub.VerifQueue()
	if len(q) > before {
		st.Queued = true
		b := q[len(q)-1]
		st.Evs = []Ev{}
		st.Close = []int{}
		for _, e := range b {
			if toks, ok := stream.VerifCloseTokens(e); ok {
				for _, t := range toks {
					if n := tokNum(t); n >= 0 {
						st.Close = append(st.Close, n)
					}
				}
				continue
			}
			if e.Index != w.idx {
				st.Err = fmt.Sprintf("event index %d in a batch committed at %d", e.Index, w.idx)
			}
			if a, ok := w.abstractEvent(e); ok {
				st.Evs = append(st.Evs, a)
			}
		}
		sortEv(st.Evs)
		sort.Ints(st.Close)
	}
	st.Q = w.queryAll()
	// what the batch does not announce: (previous rows + events) vs the new rows, per subject
	seenSilent := map[Ev]bool{}
	for _, q := range st.Q {
		for _, e := range diffRows(q.TS.T, applyEvs(q.TS, w.lastQ[q.TS], st.Evs), q.Rows) {
			if !seenSilent[e] {
				seenSilent[e] = true
				st.Silent = append(st.Silent, e)
			}
		}
		w.lastQ[q.TS] = q.Rows
	}
	sortEv(st.Silent)
}

func short(s string) string {
	if len(s) > 120 {
		return s[:120]
	}
	return s
}

// doRestore: a second FSM is filled with the generated content (indexes 2,3,...), persisted with the
// real snapshot writer, and the server's FSM restores those bytes (fsm.Restore: new store, swap,
// RefreshAllTopics under the state lock, abandon the old store).
func (w *World) doRestore(st *Step) {
	tmp, cancel := newFSM(nil)
	defer cancel()
	idx := uint64(1)
	for i := range st.R {
		idx++
		if err := safely(func() error { return w.apply(tmp.State(), idx, &st.R[i]) }); err != nil {
			st.Err = short(err.Error())
		}
	}
	if idx > w.idx {
		w.idx = idx // the raft index is never behind the index of an installed snapshot
	}
	snap, err := tmp.Snapshot()
	must(err)
	sink := &memSink{}
	must(snap.Persist(sink))
	snap.Release()
	must(w.f.Restore(io.NopCloser(bytes.NewReader(sink.Bytes()))))
	st.Idx = w.idx
	st.Q = w.queryAll()
	for _, q := range st.Q {
		w.lastQ[q.TS] = q.Rows
	}
}

func (w *World) subscribeRequest(ts TS, tok int, index uint64) *stream.SubscribeRequest {
	pb := &pbsubscribe.SubscribeRequest{Topic: topics[ts.T], Token: secrets[tok], Index: index}
	if ts.S < 0 {
		pb.Subject = &pbsubscribe.SubscribeRequest_WildcardSubject{WildcardSubject: true}
	} else {
		pb.Subject = &pbsubscribe.SubscribeRequest_NamedSubject{NamedSubject: &pbsubscribe.NamedSubject{Key: svcNames[ts.S]}}
	}
	req, err := state.PBToStreamSubscribeRequest(pb, pb.EnterpriseMeta())
	must(err)
	return req
}

func newView(ts TS) submatview.View {
	switch {
	case ts.T != TConfig && ts.S < 0: // unsupported wildcard: Subscribe fails, the view is never used
		return &configentry.ConfigEntryView{}
	case ts.T == THealth || ts.T == TConnect:
		v, err := health.NewHealthView(structs.ServiceSpecificRequest{ServiceName: svcNames[ts.S], Connect: ts.T == TConnect, EnterpriseMeta: *defMeta})
		must(err)
		return v
	default:
		if ts.S >= 0 {
			return &configentry.ConfigEntryView{}
		}
		return configentry.NewConfigEntryListView(structs.ServiceDefaults, *structs.WildcardEnterpriseMetaInPartition(structs.WildcardSpecifier))
	}
}

// doSub: a new client subscribes, or an existing client (re)subscribes the way Materializer.Run does:
// the previous subscription is unsubscribed first (deferred Unsubscribe of subscribeOnce), the request
// carries the materializer's current index, the handler is initialHandler(index).
func (w *World) doSub(st *Step) {
	c := w.clients[st.C]
	if c == nil {
		c = &Client{id: st.C, ts: st.TS, tok: st.Tok, kind: st.CK, view: newView(st.TS)}
		c.mat = submatview.VerifNewMat(c.view)
		w.clients[st.C] = c
	} else {
		st.TS, st.Tok, st.CK = c.ts, c.tok, c.kind
		if c.sub != nil {
			c.sub.Unsubscribe()
			c.sub = nil
		}
	}
	st.ReqIdx = c.mat.VerifBegin()
	st.QIdx = w.query(c.ts).Idx
	st.QLen = w.pub.VerifQueued()
	c.req = w.subscribeRequest(c.ts, c.tok, st.ReqIdx)
	st.Path = w.pub.VerifSubscribePath(c.req)
	sub, err := w.pub.Subscribe(c.req)
	if err != nil {
		st.Err = short(err.Error())
		return
	}
	c.sub = sub
}

func (w *World) doUnsub(st *Step) {
	c := w.clients[st.C]
	if c == nil || c.sub == nil {
		st.Out = "nosub"
		return
	}
	c.sub.Unsubscribe()
	c.sub = nil
}

func (w *World) doNext(st *Step) {
	c := w.clients[st.C]
	if c == nil || c.sub == nil {
		st.Out = "nosub"
		return
	}
	defer func() {
		st.CIdx = c.mat.VerifIndex()
		st.View = w.viewRows(c)
	}()
	if !c.sub.VerifReady() {
		st.Out = "block"
		return
	}
	// VerifReady said an item is deliverable; if the real Next disagrees (skips it and waits) this must
	// become an observation, not a hang of the single-threaded harness
	nctx, ncancel := context.WithTimeout(context.Background(), 3*time.Second)
	ev, err := c.sub.Next(nctx)
	ncancel()
	if errors.Is(err, context.DeadlineExceeded) {
		st.Out = "stuck"
		return
	}
	switch {
	case errors.Is(err, stream.ErrSubForceClosed):
		st.Out = "force"
	case errors.Is(err, stream.ErrACLChanged):
		st.Out = "acl"
	case err != nil:
		st.Out = "unsub"
		st.HErr = short(err.Error())
	}
	if err != nil {
		// grpc-internal/services/subscribe returns codes.Aborted for both close reasons; the RPC
		// materializer then resets its view, the local materializer returns the error and keeps it.
		if (st.Out == "force" || st.Out == "acl") && c.kind == 0 {
			c.mat.VerifAborted()
		}
		return
	}
	if !ev.Payload.HasReadPermission(w.authz) {
		st.Out = "filtered"
		return
	}
	st.OIdx = ev.Index
	switch {
	case ev.IsEndOfSnapshot():
		st.Out = "eos"
	case ev.IsNewSnapshotToFollow():
		st.Out = "nstf"
	default:
		st.Out = "ev"
		st.OEvs = w.abstractDelivered(ev)
	}
	if herr := c.mat.VerifHandle(ev.Payload.ToSubscriptionEvent(ev.Index)); herr != nil {
		st.HErr = short(herr.Error())
	}
}

func (w *World) doEvict(st *Step) {
	w.pub.VerifEvictSnapshot(w.subscribeRequest(st.TS, 0, 0))
}

func (w *World) exec(st *Step) {
	switch st.Op {
	case "commit":
		w.doCommit(st)
	case "pub":
		st.Did = w.pub.VerifPublishOne()
	case "sub":
		w.doSub(st)
	case "next":
		w.doNext(st)
	case "unsub":
		w.doUnsub(st)
	case "restore":
		w.doRestore(st)
	case "evict":
		w.doEvict(st)
	default:
		panic("unknown op " + st.Op)
	}
}

func clearObs(st *Step) {
	*st = Step{Op: st.Op, W: st.W, R: st.R, C: st.C, TS: st.TS, Tok: st.Tok, CK: st.CK}
}

// runCase executes the schedule (appending the final drain) and evaluates the oracle.
func runCase(id int, gen string, steps []Step, cache bool, drain bool, idx0 ...bool) Case {
	ttl := time.Duration(0)
	if cache {
		ttl = time.Hour
	}
	w := newWorld(ttl)
	if len(idx0) > 0 && idx0[0] {
		w.idx = 0
	}
	defer w.close()
	out := make([]Step, 0, len(steps)+32)
	for i := range steps {
		st := steps[i]
		clearObs(&st)
		w.exec(&st)
		out = append(out, st)
	}
	if drain {
		// quiescence: publish everything, let every subscribed client consume everything
		for w.pub.VerifQueued() > 0 {
			st := Step{Op: "pub"}
			w.exec(&st)
			out = append(out, st)
		}
		var ids []int
		for id := range w.clients {
			ids = append(ids, id)
		}
		sort.Ints(ids)
		for _, cid := range ids {
			for n := 0; n < 200; n++ {
				st := Step{Op: "next", C: cid}
				w.exec(&st)
				out = append(out, st)
				if st.Out != "ev" && st.Out != "eos" && st.Out != "nstf" {
					break
				}
			}
		}
	}
	c := Case{ID: id, Gen: gen, Steps: out, NVals: len(w.vals), Mode: "sched", Cache: cache, Idx0: len(idx0) > 0 && idx0[0]}
	if debugVals {
		c.Vals = make([]string, len(w.vals)+1)
		for k, v := range w.vals {
			c.Vals[v] = k
		}
	}
	c.Bufs, c.Snaps = w.pub.VerifTopicBuffers()
	c.QueueN = w.pub.VerifQueued()
	c.Fails = oracle(out, drain)
	var names []string
	for _, f := range c.Fails {
		names = append(names, f.Kind+":"+f.Cause)
	}
	c.Oracle = strings.Join(names, ";")
	return c
}
