package main

import "math/rand"

func runFree(id int, r *rand.Rand) Case { return Case{ID: id, Mode: "free"} }
