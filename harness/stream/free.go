package main

import (
	"context"
	"errors"
	"fmt"
	"math/rand"
	"sync"
	"time"

	"github.com/hashicorp/consul/agent/consul/stream"
	"github.com/hashicorp/consul/agent/submatview"
)

// Free-running mode (thorough tier, built with -race): the publisher's Run goroutine, one writer
// goroutine and one goroutine per subscriber (real Subscription.Next blocking, real materializer
// handlers) run concurrently on a generated write history.  Only the final state is compared: after
// the writer has finished and the system is quiescent every subscriber's view must equal the direct
// query result.  Writes that trigger the known event-computation defect (an instance losing its
// connect-native flag) are not generated here, and no Restore happens.

type freeClient struct {
	ts   TS
	tok  int
	kind int
	view submatview.View
	mat  *submatview.VerifMat
	subs int
	errs []string
}

func (w *World) runSubscriber(ctx context.Context, c *freeClient, r *rand.Rand, wg *sync.WaitGroup) {
	defer wg.Done()
	for ctx.Err() == nil {
		idx := c.mat.VerifBegin()
		req := w.subscribeRequest(c.ts, c.tok, idx)
		sub, err := w.pub.Subscribe(req)
		if err != nil {
			c.errs = append(c.errs, "subscribe: "+err.Error())
			return
		}
		c.subs++
		budget := 1 + r.Intn(40) // deliveries before this client drops the subscription and resubscribes
		for {
			ev, err := sub.Next(ctx)
			if err != nil {
				if errors.Is(err, stream.ErrSubForceClosed) || errors.Is(err, stream.ErrACLChanged) {
					if c.kind == 0 {
						c.mat.VerifAborted()
					}
				}
				break
			}
			if !ev.Payload.HasReadPermission(w.authz) {
				continue
			}
			if herr := c.mat.VerifHandle(ev.Payload.ToSubscriptionEvent(ev.Index)); herr != nil {
				c.errs = append(c.errs, "handler: "+herr.Error())
				break
			}
			if r.Intn(8) == 0 {
				time.Sleep(time.Duration(r.Intn(200)) * time.Microsecond)
			}
			budget--
			if budget == 0 && r.Intn(3) == 0 {
				break
			}
		}
		sub.Unsubscribe()
	}
}

func runFree(id int, r *rand.Rand) Case {
	w := newWorld(time.Hour)
	defer w.close()
	ctx, cancel := context.WithCancel(context.Background())
	defer cancel()
	go w.pub.Run(ctx)

	g := &genState{r: r, subbed: map[int]bool{}, cts: map[int]TS{}, insts: map[string]bool{}, tokens: map[int]bool{}, pols: map[int]bool{}, flavour: "acl"}
	var writes []*Write
	for len(writes) < 30+r.Intn(40) {
		x := g.write(false)
		if x.K == "svc" && (x.SID == "web1" || x.SID == "web2" || x.SID == "api1") {
			x.Kind = ""
			if x.SID == "api1" {
				x.Kind = "native" // fixed per service id: no instance ever loses the flag
			}
		}
		writes = append(writes, x)
	}

	var wg sync.WaitGroup
	var clients []*freeClient
	for i := 0; i < 3+r.Intn(3); i++ {
		ts := allTS[r.Intn(len(allTS))]
		c := &freeClient{ts: ts, tok: r.Intn(3), kind: r.Intn(2), view: newView(ts)}
		c.mat = submatview.VerifNewMat(c.view)
		clients = append(clients, c)
		wg.Add(1)
		go w.runSubscriber(ctx, c, rand.New(rand.NewSource(r.Int63())), &wg)
	}
	wr := rand.New(rand.NewSource(r.Int63()))
	for _, x := range writes {
		w.idx++
		_ = safely(func() error { return w.apply(w.cur(), w.idx, x) })
		if wr.Intn(3) == 0 {
			time.Sleep(time.Duration(wr.Intn(300)) * time.Microsecond)
		}
	}

	c := Case{ID: id, Gen: "free", Mode: "free", Cache: true}
	// quiescence: every view equals the current query result
	deadline := time.Now().Add(10 * time.Second)
	var bad string
	for {
		bad = ""
		for i, fc := range clients {
			want := w.query(fc.ts)
			tmp := &Client{ts: fc.ts, mat: fc.mat}
			got := w.viewRows(tmp)
			if !sameRows(want.Rows, got) {
				bad = fmt.Sprintf("client %d subject %v: view %v (index %d), query %v (index %d)", i, fc.ts, got, fc.mat.VerifIndex(), want.Rows, want.Idx)
			}
		}
		if bad == "" || time.Now().After(deadline) {
			break
		}
		time.Sleep(2 * time.Millisecond)
	}
	cancel()
	wg.Wait()
	for i, fc := range clients {
		for _, e := range fc.errs {
			bad = fmt.Sprintf("client %d: %s", i, e)
		}
		c.Steps = append(c.Steps, Step{Op: "free-client", C: i, TS: fc.ts, Tok: fc.tok, CK: fc.kind, Idx: uint64(fc.subs)})
	}
	for _, x := range writes {
		c.Steps = append(c.Steps, Step{Op: "commit", W: x})
	}
	if bad != "" {
		c.Fails = []Failure{{Kind: "final-view-mismatch", Cause: "unknown", Step: -1, C: -1, Msg: bad}}
		c.Oracle = "final-view-mismatch:unknown"
	}
	return c
}
