package main

import (
	"bufio"
	"encoding/json"
	"flag"
	"fmt"
	"math/rand"
	"os"
	"path/filepath"
	"strings"
)

// ---------------------------------------------------------------------------------------------
// generator: structured, mostly valid schedules in several flavours, plus a malformed stream

type genState struct {
	r       *rand.Rand
	steps   []Step
	nclient int
	subbed  map[int]bool
	cts     map[int]TS
	queued  int
	insts   map[string]bool // node/sid registered
	tokens  map[int]bool
	pols    map[int]bool
	role    bool
	flavour string
}

func pick(r *rand.Rand, xs ...string) string { return xs[r.Intn(len(xs))] }

// respell: generate writes that spell node n1 as "N1" (flag -respell)
var respell = false

// node: one of the two nodes; now and then node n1 spelled "N1" (the catalog is case-insensitive)
func (g *genState) node() string {
	if respell && g.r.Intn(9) == 0 {
		return "N1"
	}
	return nodes[g.r.Intn(len(nodes))]
}

// svcWrite: a (re)registration of one of the six service ids with varying content.
func (g *genState) svcWrite() *Write {
	r := g.r
	w := &Write{K: "svc", Node: g.node(), SID: pick(r, sids...), Port: 80 + 8000*r.Intn(2), Meta: pick(r, "", "", "a", "b")}
	switch w.SID {
	case "web1", "web2":
		w.Name = "web"
		if r.Intn(8) == 0 {
			w.Name = "api" // same id re-registered under another service name
		}
		if r.Intn(6) == 0 {
			w.Kind = "native"
		}
	case "api1":
		w.Name = "api"
		if r.Intn(3) == 0 {
			w.Kind = "native"
		}
	case "db1":
		w.Name = "db"
	case "webp":
		w.Name, w.Kind, w.Dest = "webp", "proxy", "web"
		if r.Intn(5) == 0 {
			w.Dest = "api" // the proxy changes the service it fronts
		}
	case "apip":
		w.Name, w.Kind, w.Dest = "apip", "proxy", "api"
	}
	if r.Intn(3) == 0 {
		w.Check, w.Status = "sc-"+w.SID, pick(r, "passing", "critical")
	}
	g.insts[w.Node+"/"+w.SID] = true
	return w
}

// flipService: a (re)registration of sid on node whose service name, connect-native flag, kind or proxy
// destination is drawn uniformly, so that re-registering an existing id often needs a deregistration
// event (renamed, destination changed, connect-native removed, proxy turned into a plain service)
func (g *genState) flipService(node, sid string) *Write {
	r := g.r
	w := &Write{K: "svc", Node: node, SID: sid, Port: 80 + 8000*r.Intn(2), Meta: pick(r, "", "a", "b")}
	switch sid {
	case "web1", "web2", "api1":
		w.Name = pick(r, "web", "api")
		if r.Intn(2) == 0 {
			w.Kind = "native"
		}
	case "db1":
		w.Name = pick(r, "db", "web")
	default: // webp, apip
		w.Name = sid
		if r.Intn(4) > 0 {
			w.Kind, w.Dest = "proxy", pick(r, "web", "api")
		}
	}
	g.insts[node+"/"+sid] = true
	return w
}

// comboWrite: ONE request / transaction that changes the node (meta and/or a node-level check) together
// with one or several service updates on that node
func (g *genState) comboWrite() *Write {
	r := g.r
	node := g.node()
	sid := pick(r, sids...)
	if n, s, ok := g.someInst(); ok && r.Intn(4) > 0 {
		node, sid = n, s
	}
	if r.Intn(3) > 0 {
		w := g.flipService(node, sid)
		w.K = "reg"
		switch r.Intn(3) {
		case 0:
			w.NMeta = pick(r, "p", "q", "r")
		case 1:
			w.NCheck = pick(r, "passing", "critical", "warning")
		default:
			w.NMeta, w.NCheck = pick(r, "p", "q", "r"), pick(r, "passing", "critical")
		}
		if r.Intn(3) == 0 {
			w.Check, w.Status = "sc-"+sid, pick(r, "passing", "critical")
		}
		return w
	}
	t := &Write{K: "txn", Node: node}
	if r.Intn(3) > 0 {
		t.Ops = append(t.Ops, Write{K: "node", Node: node, Meta: pick(r, "p", "q", "r")})
	}
	for k := 1 + r.Intn(3); k > 0; k-- {
		s := sid
		if k > 1 {
			s = pick(r, sids...)
		}
		if r.Intn(6) == 0 && g.insts[node+"/"+s] {
			delete(g.insts, node+"/"+s)
			t.Ops = append(t.Ops, Write{K: "dsvc", Node: node, SID: s})
		} else {
			t.Ops = append(t.Ops, *g.flipService(node, s))
		}
	}
	if r.Intn(2) == 0 {
		t.Ops = append(t.Ops, Write{K: "chk", Node: node, Check: "nc", Status: pick(r, "passing", "critical")})
	}
	return t
}

func (g *genState) someInst() (string, string, bool) {
	var ks []string
	for _, n := range []string{"n1", "n2", "N1"} {
		for _, s := range sids {
			if g.insts[n+"/"+s] {
				ks = append(ks, n+"/"+s)
			}
		}
	}
	if len(ks) == 0 {
		return "", "", false
	}
	k := ks[g.r.Intn(len(ks))]
	return k[:2], k[3:], true
}

func (g *genState) write(malformed bool) *Write {
	r := g.r
	if malformed && r.Intn(3) == 0 {
		switch r.Intn(5) {
		case 0:
			return &Write{K: "dsvc", Node: g.node(), SID: pick(r, sids...)} // may not exist
		case 1:
			return &Write{K: "chk", Node: g.node(), Check: "sc-x", SID: pick(r, sids...), Status: "passing"} // service may be missing
		case 2:
			return &Write{K: "dcfg", Name: pick(r, svcNames...)}
		case 3:
			return &Write{K: "tok", Tok: r.Intn(3), Links: []int{r.Intn(2)}, Desc: pick(r, "x", "y")} // policy may be missing
		default:
			return &Write{K: "dnode", Node: g.node()}
		}
	}
	acl := g.flavour == "acl"
	if acl && r.Intn(100) < 30 {
		return g.aclWrite()
	}
	if r.Intn(100) < 16 {
		return g.comboWrite()
	}
	x := r.Intn(100)
	switch {
	case x < 34:
		return g.svcWrite()
	case x < 44:
		if n, s, ok := g.someInst(); ok {
			delete(g.insts, n+"/"+s)
			return &Write{K: "dsvc", Node: n, SID: s}
		}
		return g.svcWrite()
	case x < 52:
		return &Write{K: "node", Node: g.node(), Meta: pick(r, "", "p", "q")}
	case x < 55:
		n := g.node()
		for _, s := range sids {
			delete(g.insts, n+"/"+s)
		}
		return &Write{K: "dnode", Node: n}
	case x < 65:
		if n, s, ok := g.someInst(); ok && r.Intn(3) > 0 {
			return &Write{K: "chk", Node: n, SID: s, Check: "sc-" + s, Status: pick(r, "passing", "critical", "warning")}
		}
		return &Write{K: "chk", Node: g.node(), Check: "nc", Status: pick(r, "passing", "critical")}
	case x < 69:
		if n, s, ok := g.someInst(); ok && r.Intn(2) == 0 {
			return &Write{K: "dchk", Node: n, Check: "sc-" + s}
		}
		return &Write{K: "dchk", Node: g.node(), Check: "nc"}
	case x < 81:
		return &Write{K: "cfg", Name: pick(r, "web", "api", "db"), Proto: pick(r, "http", "tcp", "grpc")}
	case x < 85:
		return &Write{K: "dcfg", Name: pick(r, "web", "api", "db")}
	case x < 88 && !acl:
		return &Write{K: "kv", Name: pick(r, "a", "b"), Desc: pick(r, "1", "2")}
	default:
		return g.aclWrite()
	}
}

// aclWrite: a policy, role or token write, or a token deletion. Tokens link policies directly and/or
// through the one role; a role is written once a policy exists (a policy is written first otherwise)
func (g *genState) aclWrite() *Write {
	r := g.r
	switch y := r.Intn(10); {
	case y < 2 || (y < 4 && len(g.pols) == 0):
		p := r.Intn(2)
		g.pols[p] = true
		return &Write{K: "pol", Pol: p, Desc: pick(r, "d1", "d2", "d3")}
	case y < 4:
		g.role = true
		w := &Write{K: "role", Desc: pick(r, "r1", "r2")}
		for p := 0; p < 2; p++ {
			if g.pols[p] && (len(w.Links) == 0 || r.Intn(2) == 0) {
				w.Links = append(w.Links, p)
			}
		}
		return w
	case y < 9:
		w := &Write{K: "tok", Tok: r.Intn(3), Desc: pick(r, "t1", "t2", "t3")}
		for p := 0; p < 2; p++ {
			if g.pols[p] && r.Intn(2) == 0 {
				w.Links = append(w.Links, p)
			}
		}
		if g.role && r.Intn(2) == 0 {
			w.Role = true
		}
		g.tokens[w.Tok] = true
		return w
	default:
		t := r.Intn(3)
		delete(g.tokens, t)
		return &Write{K: "dtok", Tok: t}
	}
}

func (g *genState) restoreContent() []Write {
	var out []Write
	g.insts = map[string]bool{}
	g.pols, g.tokens, g.role = map[int]bool{}, map[int]bool{}, false
	if g.r.Intn(3) == 0 { // ACL rows in the restored snapshot
		out = append(out, Write{K: "pol", Pol: 0, Desc: "rp"})
		g.pols[0] = true
		t := g.r.Intn(3)
		out = append(out, Write{K: "tok", Tok: t, Links: []int{0}, Desc: "rt"})
		g.tokens[t] = true
	}
	for n := g.r.Intn(9); n > 0; n-- {
		if g.r.Intn(3) == 0 {
			out = append(out, Write{K: "cfg", Name: pick(g.r, "web", "api"), Proto: pick(g.r, "http", "tcp")})
		} else {
			out = append(out, *g.svcWrite())
		}
	}
	return out
}

func (g *genState) add(s Step) {
	g.steps = append(g.steps, s)
}

func (g *genState) commit(malformed bool) {
	if g.queued >= 40 {
		g.pub()
	}
	g.add(Step{Op: "commit", W: g.write(malformed)})
	g.queued++
}

func (g *genState) pub() {
	g.add(Step{Op: "pub"})
	if g.queued > 0 {
		g.queued--
	}
}

func (g *genState) newClient(malformed bool) {
	ts := allTS[g.r.Intn(len(allTS))]
	if g.r.Intn(2) == 0 { // favour the busy subjects
		ts = []TS{{0, 0}, {0, 0}, {0, 1}, {1, 0}, {2, -1}, {2, 0}}[g.r.Intn(6)]
	}
	if malformed && g.r.Intn(4) == 0 {
		ts = TS{g.r.Intn(2), -1} // wildcard on a topic that does not support it
	}
	id := g.nclient
	g.nclient++
	g.add(Step{Op: "sub", C: id, TS: ts, Tok: g.r.Intn(3), CK: g.r.Intn(2)})
	g.subbed[id] = ts.S >= 0 || ts.T == TConfig
	g.cts[id] = ts
}

func (g *genState) someClient() int {
	if g.nclient == 0 {
		return 0
	}
	// mostly a client that holds a subscription
	if g.r.Intn(8) > 0 {
		var live []int
		for id := 0; id < g.nclient; id++ {
			if g.subbed[id] {
				live = append(live, id)
			}
		}
		if len(live) > 0 {
			return live[g.r.Intn(len(live))]
		}
	}
	return g.r.Intn(g.nclient)
}

func (g *genState) resub(c int) {
	g.add(Step{Op: "sub", C: c})
	g.subbed[c] = true
}

func (g *genState) unsub(c int) {
	g.add(Step{Op: "unsub", C: c})
	g.subbed[c] = false
}

func genCase(r *rand.Rand, flavour string, n int) ([]Step, bool) {
	g := &genState{r: r, subbed: map[int]bool{}, cts: map[int]TS{}, insts: map[string]bool{}, tokens: map[int]bool{}, pols: map[int]bool{}, flavour: flavour}
	cache := r.Intn(4) > 0
	malformed := flavour == "malformed"
	// a small prefix of registrations so that snapshots are not empty
	for k := r.Intn(4); k > 0; k-- {
		g.commit(false)
		if flavour == "eager" || r.Intn(2) == 0 {
			g.pub()
		}
	}
	for len(g.steps) < n {
		x := r.Intn(100)
		switch flavour {
		case "resume":
			// two or three clients share one subject (the topic buffer stays alive); a client that has
			// consumed everything drops its subscription and subscribes again with its index
			if g.nclient < 2+r.Intn(2) {
				ts := TS{0, 0}
				if g.nclient > 0 {
					ts = g.cts[0]
				} else {
					ts = []TS{{0, 0}, {0, 0}, {1, 0}, {2, -1}, {2, 0}, {0, 1}}[r.Intn(6)]
				}
				id := g.nclient
				g.nclient++
				g.add(Step{Op: "sub", C: id, TS: ts, Tok: r.Intn(3), CK: r.Intn(2)})
				g.cts[id], g.subbed[id] = ts, true
				continue
			}
			switch {
			case x < 25:
				// a write that (mostly) touches the shared subject
				w := g.write(false)
				ts := g.cts[0]
				if r.Intn(3) > 0 {
					switch ts.T {
					case 0:
						w = &Write{K: "svc", Node: g.node(), SID: pick(r, "web1", "web2"), Name: svcNames[ts.S], Port: 80 + 8000*r.Intn(2), Meta: pick(r, "", "a", "b")}
						g.insts[w.Node+"/"+w.SID] = true
					case 1:
						w = &Write{K: "svc", Node: g.node(), SID: "webp", Name: "webp", Kind: "proxy", Dest: svcNames[ts.S], Port: 80 + 8000*r.Intn(2), Meta: pick(r, "", "a", "b")}
						g.insts[w.Node+"/"+w.SID] = true
					default:
						w = &Write{K: "cfg", Name: pick(r, "web", "api"), Proto: pick(r, "http", "tcp", "grpc")}
					}
				}
				if g.queued >= 40 {
					g.pub()
				}
				g.add(Step{Op: "commit", W: w})
				g.queued++
				if r.Intn(4) > 0 {
					g.pub()
				}
			case x < 35:
				g.pub()
			case x < 75:
				c := g.someClient()
				for k := 1 + r.Intn(3); k > 0; k-- {
					g.add(Step{Op: "next", C: c})
				}
			case x < 90:
				c := g.someClient()
				for g.queued > 0 && r.Intn(4) > 0 {
					g.pub()
				}
				for k := 6; k > 0; k-- {
					g.add(Step{Op: "next", C: c})
				}
				if r.Intn(2) == 0 {
					g.unsub(c)
					if r.Intn(3) == 0 {
						g.commit(false)
						if r.Intn(2) == 0 {
							g.pub()
						}
					}
				}
				g.resub(c)
			case x < 96:
				g.unsub(g.someClient())
			default:
				g.add(Step{Op: "evict", TS: g.cts[0]})
			}
			continue
		case "restorebuf":
			// several subscribers share one subject; everything is published before the restore; one of
			// them resubscribes while the others still hold the topic buffer
			switch {
			case x < 22:
				g.commit(false)
				g.pub()
			case x < 34:
				if g.nclient < 4 {
					ts := TS{0, 0}
					if g.nclient > 0 {
						ts = g.cts[0]
					} else if r.Intn(3) == 0 {
						ts = allTS[r.Intn(len(allTS))]
					}
					id := g.nclient
					g.nclient++
					g.add(Step{Op: "sub", C: id, TS: ts, Tok: r.Intn(3), CK: r.Intn(2)})
					g.cts[id] = ts
					g.subbed[id] = true
				} else {
					g.resub(g.someClient())
				}
			case x < 80:
				g.add(Step{Op: "next", C: g.someClient()})
			case x < 86:
				for g.queued > 0 {
					g.pub()
				}
				g.add(Step{Op: "restore", R: g.restoreContent()})
				if g.nclient > 0 {
					c := g.someClient()
					g.add(Step{Op: "next", C: c})
					g.resub(c)
					g.add(Step{Op: "next", C: c})
					g.add(Step{Op: "next", C: c})
					g.add(Step{Op: "next", C: c})
				}
			case x < 92:
				g.unsub(g.someClient())
			default:
				g.add(Step{Op: "evict", TS: allTS[r.Intn(len(allTS))]})
			}
			continue
		case "gap":
			// bursts: several commits, a subscription in the gap, then publication and consumption
			switch {
			case x < 30:
				for k := 1 + r.Intn(3); k > 0; k-- {
					g.commit(false)
				}
				if g.nclient < 5 && r.Intn(2) == 0 {
					g.newClient(false)
				} else if g.nclient > 0 {
					g.resub(g.someClient())
				}
			case x < 55:
				g.pub()
			case x < 90:
				g.add(Step{Op: "next", C: g.someClient()})
			case x < 95:
				g.unsub(g.someClient())
			default:
				g.add(Step{Op: "evict", TS: allTS[r.Intn(len(allTS))]})
			}
			continue
		case "eager":
			// every commit is published before anything else happens: the queue is always empty at subscribe time
			switch {
			case x < 30:
				g.commit(false)
				g.pub()
			case x < 42:
				if g.nclient < 5 {
					g.newClient(false)
				} else {
					g.resub(g.someClient())
				}
			case x < 47:
				g.resub(g.someClient())
			case x < 90:
				g.add(Step{Op: "next", C: g.someClient()})
			case x < 95:
				g.unsub(g.someClient())
			default:
				g.add(Step{Op: "evict", TS: allTS[r.Intn(len(allTS))]})
			}
			continue
		}
		switch {
		case x < 26:
			g.commit(malformed)
		case x < 44:
			g.pub()
		case x < 52:
			if g.nclient < 5 {
				g.newClient(malformed)
			} else {
				g.resub(g.someClient())
			}
		case x < 56:
			g.resub(g.someClient())
		case x < 88:
			c := g.someClient()
			if malformed && r.Intn(10) == 0 {
				c = 7 // unknown client
			}
			g.add(Step{Op: "next", C: c})
		case x < 92:
			g.unsub(g.someClient())
		case x < 95:
			g.add(Step{Op: "evict", TS: allTS[r.Intn(len(allTS))]})
		default:
			if flavour == "restore" || flavour == "malformed" {
				g.add(Step{Op: "restore", R: g.restoreContent()})
			} else {
				g.commit(false)
			}
		}
	}
	return g.steps, cache
}

// ---------------------------------------------------------------------------------------------

type replayFile struct {
	Steps []Step `json:"steps"`
	Cache bool   `json:"cache"`
	Drain bool   `json:"drain"`
	Idx0  bool   `json:"idx0"`
}

func main() {
	seed := flag.Int64("seed", 1, "PRNG seed")
	tier := flag.String("tier", "quick", "quick|thorough")
	out := flag.String("out", "", "output file (JSON lines)")
	replay := flag.String("replay", "", "replay file: {steps, cache, drain} or a VIOLATION replay written by the check")
	mode := flag.String("mode", "sched", "sched (deterministic schedules) | free (free-running goroutines, final equality only)")
	ncases := flag.Int("n", 0, "number of cases (default by tier)")
	corpus := flag.String("corpus", "", "directory of replay files executed before the generated cases")
	asJSON := flag.Bool("json", false, "with -replay: print the executed case as one JSON line")
	flag.BoolVar(&respell, "respell", false, "also spell node n1 as N1 in generated writes")
	flag.BoolVar(&debugVals, "vals", false, "include the interned value table in every case (debugging)")
	flag.Parse()

	if *replay != "" {
		b, err := os.ReadFile(*replay)
		must(err)
		var rf replayFile
		must(json.Unmarshal(b, &rf))
		if len(rf.Steps) == 0 {
			var wrap struct {
				Case replayFile `json:"case"`
			}
			must(json.Unmarshal(b, &wrap))
			rf = wrap.Case
		}
		c := runCase(0, "replay", rf.Steps, rf.Cache, rf.Drain, rf.Idx0)
		if *asJSON {
			must(json.NewEncoder(os.Stdout).Encode(c))
			return
		}
		for i, st := range c.Steps {
			j, _ := json.Marshal(st)
			fmt.Printf("%3d %s\n", i, j)
		}
		fmt.Printf("bufs=%d snaps=%d queue=%d\noracle: %q\n", c.Bufs, c.Snaps, c.QueueN, c.Oracle)
		for _, f := range c.Fails {
			fmt.Printf("failure: %+v\n", f)
		}
		if len(c.Fails) > 0 {
			os.Exit(1)
		}
		return
	}

	w := bufio.NewWriter(os.Stdout)
	if *out != "" {
		f, err := os.Create(*out)
		must(err)
		defer f.Close()
		w = bufio.NewWriter(f)
	}
	defer w.Flush()
	enc := json.NewEncoder(w)

	if *mode == "free" {
		n := *ncases
		if n == 0 {
			n = 60
		}
		r := rand.New(rand.NewSource(*seed))
		for i := 0; i < n; i++ {
			must(enc.Encode(runFree(i, r)))
		}
		return
	}

	n := *ncases
	if n < 0 {
		n = 0
	} else if n == 0 {
		n = 400
		if *tier == "thorough" {
			n = 6000
		}
	}
	if *corpus != "" {
		ents, _ := os.ReadDir(*corpus)
		for k, e := range ents {
			if e.IsDir() || !strings.HasSuffix(e.Name(), ".json") {
				continue
			}
			b, err := os.ReadFile(filepath.Join(*corpus, e.Name()))
			must(err)
			var rf replayFile
			must(json.Unmarshal(b, &rf))
			must(enc.Encode(runCase(100000+k, "corpus:"+e.Name(), rf.Steps, rf.Cache, rf.Drain, rf.Idx0)))
		}
	}
	flavours := []string{"mixed", "gap", "eager", "restore", "acl", "malformed", "restorebuf", "resume", "eager", "gap"}
	r := rand.New(rand.NewSource(*seed))
	for i := 0; i < n; i++ {
		fl := flavours[i%len(flavours)]
		n := 10 + r.Intn(22)
		if fl == "resume" || fl == "restorebuf" {
			n = 30 + r.Intn(30)
		}
		steps, cache := genCase(r, fl, n)
		must(enc.Encode(runCase(i, fl, steps, cache, true)))
	}
}
