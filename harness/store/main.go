// Correspondence harness for the core state-store model (properties C03, C04, C05).
//
// It drives a real fsm.FSM with encoded Raft log entries generated from one seed over a small
// universe chosen so that prefix relations, lock ownership, session cascades and transaction
// failures all occur, and records for every history: the commands, every command result, the
// projected store after every command (used by the Go oracles) and at the end (compared with
// the Coq model), plus the verdicts of three model-independent oracles.
package main

import (
	"bufio"
	"encoding/hex"
	"encoding/json"
	"flag"
	"fmt"
	"math/rand"
	"os"
	"reflect"
	"sort"
	"strings"
	"time"

	"github.com/hashicorp/go-hclog"
	memdb "github.com/hashicorp/go-memdb"
	"github.com/hashicorp/raft"

	"github.com/hashicorp/consul/agent/consul/fsm"
	"github.com/hashicorp/consul/agent/consul/state"
	"github.com/hashicorp/consul/agent/consul/stream"
	"github.com/hashicorp/consul/agent/structs"
	"github.com/hashicorp/consul/api"
	"github.com/hashicorp/consul/types"
)

// ---------------------------------------------------------------- command description (JSON)

type KVReq struct {
	Key     string `json:"key"`
	Value   string `json:"value"` // hex
	Flags   uint64 `json:"flags"`
	Session string `json:"session"`
	Index   uint64 `json:"index"`
	Lock    uint64 `json:"lock"`
}

type CheckReq struct {
	Node     string `json:"node"`
	ID       string `json:"id"`
	Status   int    `json:"status"` // 0 passing 1 warning 2 critical 3 omitted ("")
	Service  string `json:"service"`
	SessType bool   `json:"sess_type"`
	SessName string `json:"sess_name"`
	Output   int    `json:"output"`
	Index    uint64 `json:"index"`
}

type TxnOp struct {
	Kind  string    `json:"kind"` // kv node service check session
	Verb  string    `json:"verb"`
	KV    *KVReq    `json:"kv,omitempty"`
	Node  string    `json:"node,omitempty"`
	ID    string    `json:"id,omitempty"`
	Addr  int       `json:"addr,omitempty"`
	Svc   string    `json:"svc,omitempty"`
	Name  string    `json:"name,omitempty"`
	Port  int       `json:"port,omitempty"`
	Index uint64    `json:"index,omitempty"`
	Check *CheckReq `json:"check,omitempty"`
	Sid   string    `json:"sid,omitempty"`
}

type Cmd struct {
	Kind string `json:"kind"` // kvs session_create session_destroy register deregister txn reap query_set query_delete
	Idx  uint64 `json:"idx"`
	Verb string `json:"verb,omitempty"`
	KV   *KVReq `json:"kv,omitempty"`
	// session
	Sid    string   `json:"sid,omitempty"`
	Node   string   `json:"node,omitempty"`
	Name   string   `json:"name,omitempty"`
	Delete bool     `json:"delete,omitempty"`
	Checks []string `json:"checks,omitempty"`
	Delay  bool     `json:"delay,omitempty"`
	// register
	ID       string     `json:"id,omitempty"`
	Addr     int        `json:"addr,omitempty"`
	Skip     bool       `json:"skip,omitempty"`
	HasSvc   bool       `json:"has_svc,omitempty"`
	Svc      string     `json:"svc,omitempty"`
	SvcName  string     `json:"svc_name,omitempty"`
	Port     int        `json:"port,omitempty"`
	RegCheck []CheckReq `json:"reg_checks,omitempty"`
	// deregister
	CheckID string `json:"check_id,omitempty"`
	// txn
	Ops []TxnOp `json:"ops,omitempty"`
	// reap
	Upto uint64 `json:"upto,omitempty"`
	// query
	Qid string `json:"qid,omitempty"`
}

// ---------------------------------------------------------------- projected observations

type KVRow struct {
	K string `json:"k"`
	V string `json:"v"`
	F uint64 `json:"f"`
	S string `json:"s"`
	L uint64 `json:"l"`
	C uint64 `json:"c"`
	M uint64 `json:"m"`
}
type SessRow struct {
	ID     string   `json:"id"`
	Node   string   `json:"node"`
	Name   string   `json:"name"`
	Del    bool     `json:"del"`
	Checks []string `json:"checks"`
	Delay  bool     `json:"delay"`
	C      uint64   `json:"c"`
}
type NodeRow struct {
	Name string `json:"name"`
	ID   string `json:"id"`
	Addr int    `json:"addr"`
	C    uint64 `json:"c"`
	M    uint64 `json:"m"`
}
type SvcRow struct {
	Node string `json:"node"`
	ID   string `json:"id"`
	Name string `json:"name"`
	Port int    `json:"port"`
	C    uint64 `json:"c"`
	M    uint64 `json:"m"`
}
type CheckRow struct {
	Node     string `json:"node"`
	ID       string `json:"id"`
	Status   int    `json:"status"`
	Svc      string `json:"svc"`
	SvcName  string `json:"svcname"`
	SessType bool   `json:"stype"`
	SessName string `json:"sname"`
	OutKind  string `json:"okind"` // user inforce invalid
	OutN     int    `json:"on"`
	OutSid   string `json:"osid"`
	C        uint64 `json:"c"`
	M        uint64 `json:"m"`
}
type Dump struct {
	KVs      []KVRow      `json:"kvs"`
	Tombs    [][2]string  `json:"tombs"` // key, index (decimal)
	Sessions []SessRow    `json:"sessions"`
	SChecks  [][3]string  `json:"schecks"`
	Queries  [][2]string  `json:"queries"`
	Nodes    []NodeRow    `json:"nodes"`
	Services []SvcRow     `json:"services"`
	Checks   []CheckRow   `json:"checks"`
	Index    [][2]string  `json:"index"`
	Delay    []string     `json:"lockdelay"`
}

type TRes struct {
	Kind  string    `json:"kind"` // kv node service check
	KV    *KVRow    `json:"kv,omitempty"`
	WithV bool      `json:"with_value,omitempty"`
	Node  *NodeRow  `json:"node,omitempty"`
	Svc   *SvcRow   `json:"svc,omitempty"`
	Check *CheckRow `json:"check,omitempty"`
}
type Res struct {
	Kind    string   `json:"kind"` // nil bool str err txn
	Bool    bool     `json:"bool,omitempty"`
	Str     string   `json:"str,omitempty"`
	Err     string   `json:"err,omitempty"` // model enum name
	Msg     string   `json:"msg,omitempty"`
	Results []TRes   `json:"results,omitempty"`
	Errors  [][2]any `json:"errors,omitempty"` // [op index, enum name]
}

type History struct {
	ID      int      `json:"id"`
	Mix     string   `json:"mix"`
	Cmds    []Cmd    `json:"cmds"`
	Results []Res    `json:"results"`
	Final   Dump     `json:"final"`
	Oracle  []string `json:"oracle"` // failures of the model-independent oracles
	Stats   map[string]int `json:"stats"` // how often each oracle clause had something to check
}

// ---------------------------------------------------------------- universe

var (
	nodeNames = []string{"n1", "n2", "n3"}
	nodeIDs   = []string{"", "11111111-1111-1111-1111-111111111111", "22222222-2222-2222-2222-222222222222", "33333333-3333-3333-3333-333333333333"}
	svcIDs    = []string{"s1", "s2"}
	svcNames  = []string{"web", "db"}
	checkIDs  = []string{"c1", "c2", "serfHealth", "sc1"}
	sessIDs   = []string{"aaaaaaaa-aaaa-aaaa-aaaa-aaaaaaaaaaaa", "bbbbbbbb-bbbb-bbbb-bbbb-bbbbbbbbbbbb", "cccccccc-cccc-cccc-cccc-cccccccccccc", "dddddddd-dddd-dddd-dddd-dddddddddddd"}
	sessNames = []string{"", "lockA", "lockB"}
	keys      = []string{"a", "a/", "a/b", "ab", "b", "é"}
	prefixes  = []string{"", "a", "a/", "b", "zz"}
	values    = [][]byte{{}, {1, 2, 3}, {255, 0}}
	queryIDs  = []string{"99999999-9999-9999-9999-999999999991", "99999999-9999-9999-9999-999999999992"}
)

// ---------------------------------------------------------------- recording publisher

type recPublisher struct{ events int }

func (r *recPublisher) Publish(e []stream.Event) { r.events += len(e) }
func (r *recPublisher) RegisterHandler(stream.Topic, stream.SnapshotFunc, bool) error {
	return nil
}
func (r *recPublisher) Subscribe(*stream.SubscribeRequest) (*stream.Subscription, error) {
	return nil, fmt.Errorf("not supported")
}

// ---------------------------------------------------------------- the implementation under test

type impl struct {
	f   *fsm.FSM
	pub *recPublisher
}

func newImpl() *impl {
	pub := &recPublisher{}
	f := fsm.NewFromDeps(fsm.Deps{
		Logger: hclog.NewNullLogger(),
		NewStateStore: func() *state.Store {
			return state.NewStateStoreWithEventPublisher(nil, pub)
		},
		StorageBackend: fsm.NullStorageBackend,
	})
	return &impl{f: f, pub: pub}
}

func (im *impl) store() *state.Store { return im.f.State() }

func dirEnt(q *KVReq) structs.DirEntry {
	v, _ := hex.DecodeString(q.Value)
	if len(v) == 0 {
		v = nil
	}
	return structs.DirEntry{Key: q.Key, Value: v, Flags: q.Flags, Session: q.Session, LockIndex: q.Lock,
		RaftIndex: structs.RaftIndex{ModifyIndex: q.Index}}
}

var statusNames = []string{api.HealthPassing, api.HealthWarning, api.HealthCritical}

func healthCheck(c *CheckReq) *structs.HealthCheck {
	status := ""
	if c.Status < len(statusNames) {
		status = statusNames[c.Status]
	}
	hc := &structs.HealthCheck{Node: c.Node, CheckID: types.CheckID(c.ID), Name: "chk", Status: status,
		ServiceID: c.Service, Output: fmt.Sprintf("out%d", c.Output),
		RaftIndex: structs.RaftIndex{ModifyIndex: c.Index}}
	if c.SessType {
		hc.Type = "session"
		hc.Definition.SessionName = c.SessName
	}
	return hc
}

func addrOf(n int) string { return fmt.Sprintf("10.0.0.%d", n) }

func encode(c *Cmd) []byte {
	var t structs.MessageType
	var msg interface{}
	switch c.Kind {
	case "kvs":
		t = structs.KVSRequestType
		msg = &structs.KVSRequest{Datacenter: "dc1", Op: api.KVOp(c.Verb), DirEnt: dirEnt(c.KV)}
	case "session_create":
		t = structs.SessionRequestType
		s := structs.Session{ID: c.Sid, Node: c.Node, Name: c.Name, Behavior: structs.SessionKeysRelease}
		if c.Delete {
			s.Behavior = structs.SessionKeysDelete
		}
		for _, ck := range c.Checks {
			s.NodeChecks = append(s.NodeChecks, ck)
		}
		if c.Delay {
			s.LockDelay = 15 * time.Second
		}
		msg = &structs.SessionRequest{Datacenter: "dc1", Op: structs.SessionCreate, Session: s}
	case "session_destroy":
		t = structs.SessionRequestType
		msg = &structs.SessionRequest{Datacenter: "dc1", Op: structs.SessionDestroy, Session: structs.Session{ID: c.Sid}}
	case "register":
		t = structs.RegisterRequestType
		r := &structs.RegisterRequest{Datacenter: "dc1", Node: c.Node, ID: types.NodeID(c.ID), Address: addrOf(c.Addr), SkipNodeUpdate: c.Skip}
		if c.HasSvc {
			r.Service = &structs.NodeService{ID: c.Svc, Service: c.SvcName, Port: c.Port}
		}
		for i := range c.RegCheck {
			r.Checks = append(r.Checks, healthCheck(&c.RegCheck[i]))
		}
		msg = r
	case "deregister":
		t = structs.DeregisterRequestType
		msg = &structs.DeregisterRequest{Datacenter: "dc1", Node: c.Node, ServiceID: c.Svc, CheckID: types.CheckID(c.CheckID)}
	case "txn":
		t = structs.TxnRequestType
		r := &structs.TxnRequest{Datacenter: "dc1"}
		for i := range c.Ops {
			r.Ops = append(r.Ops, txnOp(&c.Ops[i]))
		}
		msg = r
	case "reap":
		t = structs.TombstoneRequestType
		msg = &structs.TombstoneRequest{Datacenter: "dc1", Op: structs.TombstoneReap, ReapIndex: c.Upto}
	case "query_set":
		t = structs.PreparedQueryRequestType
		msg = &structs.PreparedQueryRequest{Datacenter: "dc1", Op: structs.PreparedQueryCreate,
			Query: &structs.PreparedQuery{ID: c.Qid, Session: c.Sid, Service: structs.ServiceQuery{Service: "web"}}}
	case "query_delete":
		t = structs.PreparedQueryRequestType
		msg = &structs.PreparedQueryRequest{Datacenter: "dc1", Op: structs.PreparedQueryDelete,
			Query: &structs.PreparedQuery{ID: c.Qid}}
	default:
		panic("unknown cmd kind " + c.Kind)
	}
	b, err := structs.Encode(t, msg)
	if err != nil {
		panic(err)
	}
	return b
}

func txnOp(o *TxnOp) *structs.TxnOp {
	switch o.Kind {
	case "kv":
		return &structs.TxnOp{KV: &structs.TxnKVOp{Verb: api.KVOp(o.Verb), DirEnt: dirEnt(o.KV)}}
	case "node":
		return &structs.TxnOp{Node: &structs.TxnNodeOp{Verb: api.NodeOp(o.Verb),
			Node: structs.Node{Node: o.Node, ID: types.NodeID(o.ID), Address: addrOf(o.Addr), Datacenter: "dc1",
				RaftIndex: structs.RaftIndex{ModifyIndex: o.Index}}}}
	case "service":
		return &structs.TxnOp{Service: &structs.TxnServiceOp{Verb: api.ServiceOp(o.Verb), Node: o.Node,
			Service: structs.NodeService{ID: o.Svc, Service: o.Name, Port: o.Port,
				RaftIndex: structs.RaftIndex{ModifyIndex: o.Index}}}}
	case "check":
		return &structs.TxnOp{Check: &structs.TxnCheckOp{Verb: api.CheckOp(o.Verb), Check: *healthCheck(o.Check)}}
	case "session":
		return &structs.TxnOp{Session: &structs.TxnSessionOp{Verb: api.SessionDelete, Session: structs.Session{ID: o.Sid}}}
	}
	panic("unknown txn op kind " + o.Kind)
}

// errClass maps implementation error text to the model's enum.
func errClass(msg string) string {
	switch {
	case strings.Contains(msg, "failed to check session"), strings.Contains(msg, "failed session check"),
		strings.Contains(msg, "failed to check index"), strings.Contains(msg, "failed index check"),
		strings.HasSuffix(msg, " exists"):
		return "EGuard"
	case strings.Contains(msg, "index is stale"), strings.Contains(msg, "lock is already held"), strings.Contains(msg, "lock isn't held"):
		return "EStale"
	case strings.Contains(msg, "is reserved by node"):
		return "ESimilarName"
	case strings.Contains(msg, "does not match node"):
		return "ECheckNodeMismatch"
	case strings.Contains(msg, "Missing check '"), strings.Contains(msg, "' is in critical state"), strings.Contains(msg, "is in critical state"):
		return "EBadSessionCheck"
	case strings.Contains(msg, state.ErrMissingNode.Error()):
		return "EMissingNode"
	case strings.Contains(msg, state.ErrMissingService.Error()):
		return "EMissingService"
	case strings.Contains(msg, state.ErrMissingSessionID.Error()):
		return "EMissingSessionID"
	case strings.Contains(msg, "missing session"):
		return "ENoSession"
	case strings.Contains(msg, "invalid session"):
		return "EInvalidSession"
	case strings.Contains(msg, "doesn't exist"), strings.Contains(msg, "not found"):
		return "ENotFound"
	}
	return "EOther:" + msg
}

func parseOutput(o string) (string, int, string) {
	var n int
	if _, err := fmt.Sscanf(o, "out%d", &n); err == nil {
		return "user", n, ""
	}
	if strings.HasPrefix(o, "Session '") && strings.HasSuffix(o, "' in force") {
		return "inforce", 0, strings.TrimSuffix(strings.TrimPrefix(o, "Session '"), "' in force")
	}
	if strings.HasPrefix(o, "Session '") && strings.HasSuffix(o, "' is invalid") {
		return "invalid", 0, strings.TrimSuffix(strings.TrimPrefix(o, "Session '"), "' is invalid")
	}
	return "other:" + o, 0, ""
}

func addrNum(a string) int {
	var n int
	fmt.Sscanf(a, "10.0.0.%d", &n)
	return n
}

func statusNum(s string) int {
	for i, n := range statusNames {
		if n == s {
			return i
		}
	}
	return 99
}

func kvRow(e *structs.DirEntry) KVRow {
	return KVRow{K: e.Key, V: hex.EncodeToString(e.Value), F: e.Flags, S: e.Session, L: e.LockIndex, C: e.CreateIndex, M: e.ModifyIndex}
}
func nodeRow(n *structs.Node) NodeRow {
	return NodeRow{Name: n.Node, ID: string(n.ID), Addr: addrNum(n.Address), C: n.CreateIndex, M: n.ModifyIndex}
}
func checkRow(c *structs.HealthCheck) CheckRow {
	k, n, sid := parseOutput(c.Output)
	return CheckRow{Node: c.Node, ID: string(c.CheckID), Status: statusNum(c.Status), Svc: c.ServiceID, SvcName: c.ServiceName,
		SessType: c.Type == "session", SessName: c.Definition.SessionName, OutKind: k, OutN: n, OutSid: sid,
		C: c.CreateIndex, M: c.ModifyIndex}
}

func (im *impl) dump() Dump {
	d := Dump{KVs: []KVRow{}, Tombs: [][2]string{}, Sessions: []SessRow{}, SChecks: [][3]string{}, Queries: [][2]string{},
		Nodes: []NodeRow{}, Services: []SvcRow{}, Checks: []CheckRow{}, Index: [][2]string{}, Delay: []string{}}
	st := im.store()
	st.WalkAllTables(func(table string, item interface{}) bool {
		switch v := item.(type) {
		case *structs.DirEntry:
			d.KVs = append(d.KVs, kvRow(v))
		case *state.Tombstone:
			d.Tombs = append(d.Tombs, [2]string{v.Key, fmt.Sprint(v.Index)})
		case *structs.Session:
			r := SessRow{ID: v.ID, Node: v.Node, Name: v.Name, Del: v.Behavior == structs.SessionKeysDelete, Checks: []string{},
				Delay: v.LockDelay > 0, C: v.CreateIndex}
			for _, c := range v.CheckIDs() {
				r.Checks = append(r.Checks, string(c))
			}
			d.Sessions = append(d.Sessions, r)
		case *structs.Node:
			d.Nodes = append(d.Nodes, nodeRow(v))
		case *structs.ServiceNode:
			d.Services = append(d.Services, SvcRow{Node: v.Node, ID: v.ServiceID, Name: v.ServiceName, Port: v.ServicePort, C: v.CreateIndex, M: v.ModifyIndex})
		case *structs.HealthCheck:
			d.Checks = append(d.Checks, checkRow(v))
		case *state.IndexEntry:
			switch v.Key {
			case "kvs", "tombstones", "sessions", "prepared-queries":
				d.Index = append(d.Index, [2]string{v.Key, fmt.Sprint(v.Value)})
			}
		default:
			rv := reflect.Indirect(reflect.ValueOf(item))
			switch table {
			case "session_checks":
				cid := rv.FieldByName("CheckID").FieldByName("ID")
				d.SChecks = append(d.SChecks, [3]string{rv.FieldByName("Node").String(), cid.String(), rv.FieldByName("Session").String()})
			case "prepared-queries":
				pq := rv.FieldByName("PreparedQuery").Interface().(*structs.PreparedQuery)
				d.Queries = append(d.Queries, [2]string{pq.ID, pq.Session})
			}
		}
		return true
	})
	now := time.Now()
	for _, k := range keys {
		if st.KVSLockDelay(k, nil).After(now) {
			d.Delay = append(d.Delay, k)
		}
	}
	sort.Slice(d.KVs, func(i, j int) bool { return d.KVs[i].K < d.KVs[j].K })
	sort.Slice(d.Tombs, func(i, j int) bool { return d.Tombs[i][0] < d.Tombs[j][0] })
	sort.Slice(d.Sessions, func(i, j int) bool { return d.Sessions[i].ID < d.Sessions[j].ID })
	sort.Slice(d.SChecks, func(i, j int) bool { return fmt.Sprint(d.SChecks[i]) < fmt.Sprint(d.SChecks[j]) })
	sort.Slice(d.Queries, func(i, j int) bool { return d.Queries[i][0] < d.Queries[j][0] })
	sort.Slice(d.Nodes, func(i, j int) bool { return d.Nodes[i].Name < d.Nodes[j].Name })
	sort.Slice(d.Services, func(i, j int) bool { return d.Services[i].Node+"\x00"+d.Services[i].ID < d.Services[j].Node+"\x00"+d.Services[j].ID })
	sort.Slice(d.Checks, func(i, j int) bool { return d.Checks[i].Node+"\x00"+d.Checks[i].ID < d.Checks[j].Node+"\x00"+d.Checks[j].ID })
	sort.Slice(d.Index, func(i, j int) bool { return d.Index[i][0] < d.Index[j][0] })
	return d
}

func (im *impl) apply(c *Cmd) Res {
	out := im.f.Apply(&raft.Log{Index: c.Idx, Term: 1, Type: raft.LogCommand, Data: encode(c)})
	switch v := out.(type) {
	case nil:
		return Res{Kind: "nil"}
	case bool:
		return Res{Kind: "bool", Bool: v}
	case string:
		return Res{Kind: "str", Str: v}
	case error:
		return Res{Kind: "err", Err: errClass(v.Error()), Msg: v.Error()}
	case structs.TxnResponse:
		return projectTxn(v.Results, v.Errors)
	}
	return Res{Kind: "err", Err: fmt.Sprintf("EOther:unexpected result type %T", out)}
}

func projectTxn(results structs.TxnResults, errors structs.TxnErrors) Res {
	{
		r := Res{Kind: "txn", Results: []TRes{}, Errors: [][2]any{}}
		for _, tr := range results {
			switch {
			case tr.KV != nil:
				row := kvRow(tr.KV)
				r.Results = append(r.Results, TRes{Kind: "kv", KV: &row})
			case tr.Node != nil:
				row := nodeRow(tr.Node)
				r.Results = append(r.Results, TRes{Kind: "node", Node: &row})
			case tr.Service != nil:
				r.Results = append(r.Results, TRes{Kind: "service", Svc: &SvcRow{ID: tr.Service.ID, Name: tr.Service.Service, Port: tr.Service.Port,
					C: tr.Service.CreateIndex, M: tr.Service.ModifyIndex}})
			case tr.Check != nil:
				row := checkRow(tr.Check)
				r.Results = append(r.Results, TRes{Kind: "check", Check: &row})
			}
		}
		for _, e := range errors {
			r.Errors = append(r.Errors, [2]any{e.OpIndex, errClass(e.What)})
		}
		return r
	}
}

// ---------------------------------------------------------------- generator

type gen struct {
	rng  *rand.Rand
	im   *impl
	idx  uint64
	mix  string
	safe bool // generate transaction ops that are likely to succeed
}

func (g *gen) pick(xs []string) string { return xs[g.rng.Intn(len(xs))] }

// casIndex: 0, current (~65%), stale, future, resolved against the implementation's state.
func (g *gen) casIndex(cur uint64) uint64 {
	switch r := g.rng.Intn(20); {
	case r < 13:
		return cur
	case r < 15:
		return 0
	case r < 18:
		if cur > 1 {
			return cur - 1
		}
		return cur + 3
	case r < 19:
		return g.idx // the command's own index: matches what an earlier operation of the same transaction wrote
	default:
		return g.idx + 5
	}
}

func (g *gen) curKV(k string) *structs.DirEntry {
	_, e, _ := g.im.store().KVSGet(nil, k, nil)
	return e
}

func (g *gen) existingKeys() []string {
	_, es, _ := g.im.store().KVSList(nil, "", nil)
	var out []string
	for _, e := range es {
		out = append(out, e.Key)
	}
	return out
}

func (g *gen) existingNodes() []string {
	_, ns, _ := g.im.store().Nodes(nil, nil, "")
	var out []string
	for _, n := range ns {
		out = append(out, n.Node)
	}
	return out
}

func (g *gen) nodeName() string {
	if ex := g.existingNodes(); len(ex) > 0 && g.rng.Intn(6) > 0 {
		return ex[g.rng.Intn(len(ex))]
	}
	return g.pick(nodeNames)
}

func (g *gen) liveSessions() []string {
	_, ss, _ := g.im.store().SessionList(nil, nil)
	var out []string
	for _, s := range ss {
		out = append(out, s.ID)
	}
	return out
}

func (g *gen) session() string {
	live := g.liveSessions()
	switch r := g.rng.Intn(20); {
	case r < 16 && len(live) > 0:
		return live[g.rng.Intn(len(live))]
	case r < 17:
		return ""
	default:
		return g.pick(sessIDs)
	}
}

func (g *gen) kvReq(verb string) *KVReq {
	q := &KVReq{Key: g.pick(keys), Value: hex.EncodeToString(values[g.rng.Intn(len(values))])}
	if g.rng.Intn(3) == 0 {
		q.Flags = 7
	}
	if verb == "set" && g.rng.Intn(4) == 0 {
		// revisit a locked key
		_, es, _ := g.im.store().KVSList(nil, "", nil)
		for _, e := range es {
			if e.Session != "" {
				q.Key = e.Key
			}
		}
	}
	switch verb {
	case "get", "check-session", "check-index", "unlock", "delete-cas", "cas":
		if ex := g.existingKeys(); len(ex) > 0 && g.rng.Intn(5) > 0 {
			q.Key = ex[g.rng.Intn(len(ex))]
		}
	case "check-not-exists":
		if g.rng.Intn(3) > 0 {
			for _, k := range keys {
				if g.curKV(k) == nil {
					q.Key = k
				}
			}
		}
	}
	cur := g.curKV(q.Key)
	var curIdx uint64
	if cur != nil {
		curIdx = cur.ModifyIndex
	}
	switch verb {
	case "delete-tree", "get-tree":
		q.Key = g.pick(prefixes)
	case "cas", "delete-cas", "check-index":
		q.Index = g.casIndex(curIdx)
	case "lock", "unlock", "check-session":
		q.Session = g.session()
		if cur != nil && cur.Session != "" && g.rng.Intn(2) == 0 {
			q.Session = cur.Session
		}
	case "set":
		// a plain set stores the request's lock index and may repeat the current content
		// (more often when the key is locked: the no-op rule must not look at the holder)
		if cur != nil && (g.rng.Intn(3) == 0 || (cur.Session != "" && g.rng.Intn(2) == 0)) {
			q.Value, q.Flags, q.Lock = hex.EncodeToString(cur.Value), cur.Flags, cur.LockIndex
		} else if g.rng.Intn(4) == 0 {
			q.Lock = uint64(g.rng.Intn(3))
		}
		if g.rng.Intn(6) == 0 {
			q.Session = g.session() // ignored by a plain set: the holder is kept
		}
	}
	if verb == "cas" && cur != nil && cur.Session != "" && g.rng.Intn(3) == 0 {
		q.Value, q.Flags, q.Lock, q.Index = hex.EncodeToString(cur.Value), cur.Flags, cur.LockIndex, cur.ModifyIndex
	}
	return q
}

var kvWriteVerbs = []string{"set", "set", "cas", "delete", "delete-cas", "delete-tree", "lock", "lock", "unlock"}
var kvTxnVerbs = []string{"set", "cas", "delete", "delete-cas", "delete-tree", "lock", "unlock", "get", "get-or-empty", "get-tree", "check-session", "check-index", "check-not-exists"}

func (g *gen) checkReq(node string) CheckReq {
	c := CheckReq{Node: node, ID: g.pick(checkIDs), Status: g.rng.Intn(3), Output: g.rng.Intn(2)}
	if g.rng.Intn(8) == 0 {
		c.Status = 3 // status omitted: the store defaults it to critical
	}
	if g.rng.Intn(3) == 0 {
		c.Service = g.pick(svcIDs)
	}
	if c.ID == "sc1" {
		c.SessType = true
		c.SessName = g.pick(sessNames[1:])
		c.Service = ""
	}
	if c.ID == "serfHealth" {
		c.Service = ""
	}
	_, cur, _ := g.im.store().NodeCheck(node, types.CheckID(c.ID), nil, "")
	var curIdx uint64
	if cur != nil {
		curIdx = cur.ModifyIndex
	}
	c.Index = g.casIndex(curIdx)
	return c
}

func (g *gen) nodeIdx(name string) uint64 {
	_, n, _ := g.im.store().GetNode(name, nil, "")
	if n != nil {
		return n.ModifyIndex
	}
	return 0
}
func (g *gen) svcIdx(node, id string) uint64 {
	_, s, _ := g.im.store().NodeService(nil, node, id, nil, "")
	if s != nil {
		return s.ModifyIndex
	}
	return 0
}

func (g *gen) txnOp() TxnOp {
	w := 10
	if g.mix == "kv" {
		w = 25
	}
	if g.safe {
		switch r := g.rng.Intn(10); {
		case r < 6:
			v := g.pick([]string{"set", "set", "get-or-empty", "get-tree", "delete", "delete-tree", "cas", "check-index", "get", "lock", "unlock"})
			q := g.kvReq(v)
			if cur := g.curKV(q.Key); cur != nil && (v == "cas" || v == "check-index") {
				q.Index = cur.ModifyIndex
			} else if v == "cas" {
				q.Index = 0
			}
			if live := g.liveSessions(); (v == "lock" || v == "unlock") && len(live) == 0 {
				v = "set"
			}
			return TxnOp{Kind: "kv", Verb: v, KV: q}
		case r < 7:
			n := g.nodeName()
			id := ""
			if _, nn, _ := g.im.store().GetNode(n, nil, ""); nn != nil {
				id = string(nn.ID)
			}
			return TxnOp{Kind: "node", Verb: g.pick([]string{"set", "delete"}), Node: n, ID: id, Addr: 1 + g.rng.Intn(2)}
		case r < 9:
			c := g.checkReq(g.nodeName())
			c.Service = ""
			return TxnOp{Kind: "check", Verb: g.pick([]string{"set", "set", "delete"}), Check: &c}
		default:
			if live := g.liveSessions(); len(live) > 0 {
				return TxnOp{Kind: "session", Verb: "delete", Sid: live[g.rng.Intn(len(live))]}
			}
			n := g.nodeName()
			si := g.rng.Intn(len(svcIDs))
			return TxnOp{Kind: "service", Verb: "set", Node: n, Svc: svcIDs[si], Name: svcNames[si], Port: 80 + g.rng.Intn(2)}
		}
	}
	switch r := g.rng.Intn(w + 10); {
	case r < w:
		v := g.pick(kvTxnVerbs)
		return TxnOp{Kind: "kv", Verb: v, KV: g.kvReq(v)}
	case r < w+3:
		n := g.nodeName()
		return TxnOp{Kind: "node", Verb: g.pick([]string{"get", "set", "cas", "delete", "delete-cas"}), Node: n, ID: g.pick(nodeIDs), Addr: 1 + g.rng.Intn(2), Index: g.casIndex(g.nodeIdx(n))}
	case r < w+5:
		n := g.nodeName()
		si := g.rng.Intn(len(svcIDs))
		return TxnOp{Kind: "service", Verb: g.pick([]string{"get", "set", "cas", "delete", "delete-cas"}), Node: n, Svc: svcIDs[si], Name: svcNames[si], Port: 80 + g.rng.Intn(2), Index: g.casIndex(g.svcIdx(n, svcIDs[si]))}
	case r < w+8:
		c := g.checkReq(g.nodeName())
		return TxnOp{Kind: "check", Verb: g.pick([]string{"get", "set", "set", "cas", "delete", "delete-cas"}), Check: &c}
	default:
		return TxnOp{Kind: "session", Verb: "delete", Sid: g.session()}
	}
}

func (g *gen) next() Cmd {
	g.idx += uint64(1 + g.rng.Intn(3))
	c := Cmd{Idx: g.idx}
	// targeted shapes (a session that holds SEVERAL keys, with and without a lock delay, and ends):
	// one session locks two or three keys in one transaction; a session holding two or more keys is
	// destroyed.  Left to chance these are rare (four sessions, six keys, one lock per command).
	if live := g.liveSessions(); len(live) > 0 {
		switch g.rng.Intn(28) {
		case 0, 1:
			sid := live[g.rng.Intn(len(live))]
			c.Kind = "txn"
			perm := g.rng.Perm(len(keys))
			for _, ki := range perm[:2+g.rng.Intn(2)] {
				c.Ops = append(c.Ops, TxnOp{Kind: "kv", Verb: "lock", KV: &KVReq{Key: keys[ki], Value: "01", Session: sid}})
			}
			return c
		case 2:
			held := map[string]int{}
			_, ents, _ := g.im.store().KVSList(nil, "", nil)
			for _, e := range ents {
				if e.Session != "" {
					held[e.Session]++
				}
			}
			for _, sid := range live {
				if held[sid] >= 2 {
					c.Kind, c.Sid = "session_destroy", sid
					return c
				}
			}
		}
	}
	weights := map[string][]int{
		//            kvs sess+ sess- reg dereg txn reap q+ q-
		"kv":      {50, 6, 4, 8, 3, 14, 4, 1, 1},
		"session": {22, 14, 8, 18, 10, 12, 2, 5, 2},
		"txn":     {15, 8, 3, 12, 4, 40, 2, 2, 1},
	}[g.mix]
	tot := 0
	for _, w := range weights {
		tot += w
	}
	r := g.rng.Intn(tot)
	k := 0
	for ; k < len(weights); k++ {
		if r < weights[k] {
			break
		}
		r -= weights[k]
	}
	// make sure something exists early on
	if len(g.im.dumpNodes()) == 0 && g.rng.Intn(3) > 0 {
		k = 3
	}
	switch k {
	case 0:
		c.Kind = "kvs"
		c.Verb = g.pick(kvWriteVerbs)
		if (c.Verb == "lock" || c.Verb == "unlock") && len(g.liveSessions()) == 0 && g.rng.Intn(4) > 0 {
			c.Verb = "set"
		}
		c.KV = g.kvReq(c.Verb)
	case 1:
		c.Kind = "session_create"
		c.Sid = g.pick(sessIDs)
		// the endpoint always picks a fresh id: avoid live ones most of the time
		for tries := 0; tries < 4; tries++ {
			live := false
			for _, l := range g.liveSessions() {
				if l == c.Sid {
					live = true
				}
			}
			if !live || g.rng.Intn(10) == 0 {
				break
			}
			c.Sid = g.pick(sessIDs)
		}
		c.Node = g.nodeName()
		c.Name = g.pick(sessNames)
		c.Delete = g.rng.Intn(3) == 0
		c.Delay = g.rng.Intn(2) == 0
		_, ncs, _ := g.im.store().NodeChecks(nil, c.Node, nil, "")
		for _, hc := range ncs {
			if g.rng.Intn(3) == 0 && (hc.Status != api.HealthCritical || g.rng.Intn(6) == 0) {
				c.Checks = append(c.Checks, string(hc.CheckID))
			}
		}
		if g.rng.Intn(12) == 0 {
			c.Checks = append(c.Checks, g.pick(checkIDs))
		}
	case 2:
		c.Kind = "session_destroy"
		c.Sid = g.session()
	case 3:
		c.Kind = "register"
		c.Node = g.pick(nodeNames)
		if g.rng.Intn(2) == 0 {
			c.Node = g.nodeName()
		}
		c.ID = g.pick(nodeIDs)
		if g.rng.Intn(3) > 0 { // usually keep a node's own id
			_, n, _ := g.im.store().GetNode(c.Node, nil, "")
			if n != nil {
				c.ID = string(n.ID)
			}
		}
		c.Addr = 1 + g.rng.Intn(2)
		c.Skip = g.rng.Intn(8) == 0
		if g.rng.Intn(2) == 0 {
			si := g.rng.Intn(len(svcIDs))
			c.HasSvc, c.Svc, c.SvcName, c.Port = true, svcIDs[si], svcNames[si], 80+g.rng.Intn(2)
		}
		for n := g.rng.Intn(3); n > 0; n-- {
			ck := g.checkReq(c.Node)
			if g.rng.Intn(15) == 0 {
				ck.Node = g.pick(nodeNames)
			}
			c.RegCheck = append(c.RegCheck, ck)
		}
	case 4:
		c.Kind = "deregister"
		c.Node = g.nodeName()
		switch g.rng.Intn(3) {
		case 0:
			c.Svc = g.pick(svcIDs)
		case 1:
			c.CheckID = g.pick(checkIDs)
		}
	case 5:
		c.Kind = "txn"
		n := 1 + g.rng.Intn(3) + g.rng.Intn(3)*g.rng.Intn(2)
		switch g.rng.Intn(40) {
		case 0:
			n = 0 // the empty transaction
		case 1:
			n = 20 + g.rng.Intn(45) // long (the endpoint allows 128 operations)
		}
		g.safe = g.rng.Intn(5) < 3
		switch {
		case n > 0 && g.rng.Intn(12) == 0:
			// a creation chain inside one transaction: node, then a service and a check on it, then a
			// write that depends on them (the check's own-index cas) -- read-your-writes across tables
			nd := g.pick(nodeNames)
			si := g.rng.Intn(len(svcIDs))
			ck := g.checkReq(nd)
			ck.Service = svcIDs[si]
			ck2 := ck
			ck2.Status = g.rng.Intn(3)
			ck2.Index = g.idx
			c.Ops = append(c.Ops,
				TxnOp{Kind: "node", Verb: "set", Node: nd, ID: g.pick(nodeIDs), Addr: 1 + g.rng.Intn(2)},
				TxnOp{Kind: "service", Verb: "set", Node: nd, Svc: svcIDs[si], Name: svcNames[si], Port: 80},
				TxnOp{Kind: "check", Verb: "set", Check: &ck},
				TxnOp{Kind: "check", Verb: "cas", Check: &ck2})
			if g.rng.Intn(2) == 0 {
				c.Ops = append(c.Ops, g.txnOp())
			}
		case n > 1 && g.rng.Intn(10) == 0:
			// cascades ahead of a (likely) failing operation: end lock-holding sessions, then a guard
			for _, sid := range g.liveSessions() {
				if g.rng.Intn(2) == 0 {
					c.Ops = append(c.Ops, TxnOp{Kind: "session", Verb: "delete", Sid: sid})
				}
			}
			c.Ops = append(c.Ops, TxnOp{Kind: "node", Verb: "delete", Node: g.nodeName()})
			q := g.kvReq("check-index")
			c.Ops = append(c.Ops, TxnOp{Kind: "kv", Verb: "check-index", KV: q})
		default:
			for i := 0; i < n; i++ {
				c.Ops = append(c.Ops, g.txnOp())
			}
		}
	case 6:
		c.Kind = "reap"
		c.Upto = g.idx - uint64(g.rng.Intn(8))
	case 7:
		c.Kind = "query_set"
		c.Qid = g.pick(queryIDs)
		c.Sid = g.session()
	case 8:
		c.Kind = "query_delete"
		c.Qid = g.pick(queryIDs)
	}
	return c
}

func (im *impl) dumpNodes() []NodeRow { return im.dump().Nodes }

// rawDump renders every row of every memdb table with all its fields, exported or not (pointers
// followed, map keys sorted, funcs and channels left out): the unprojected store, for the "changes nothing at all"
// oracles.  One line per row, sorted.
func deepString(b *strings.Builder, v reflect.Value, depth int) {
	if depth > 12 {
		b.WriteString("...")
		return
	}
	switch v.Kind() {
	case reflect.Invalid:
		b.WriteString("nil")
	case reflect.Ptr, reflect.Interface:
		if v.IsNil() {
			b.WriteString("nil")
			return
		}
		deepString(b, v.Elem(), depth+1)
	case reflect.Struct:
		b.WriteString(v.Type().Name() + "{")
		for i := 0; i < v.NumField(); i++ {
			b.WriteString(v.Type().Field(i).Name + ":")
			deepString(b, v.Field(i), depth+1)
			b.WriteString(" ")
		}
		b.WriteString("}")
	case reflect.Slice, reflect.Array:
		if v.Kind() == reflect.Slice && v.IsNil() {
			b.WriteString("nil[]")
			return
		}
		b.WriteString("[")
		for i := 0; i < v.Len(); i++ {
			deepString(b, v.Index(i), depth+1)
			b.WriteString(" ")
		}
		b.WriteString("]")
	case reflect.Map:
		if v.IsNil() {
			b.WriteString("nilmap")
			return
		}
		var ks []string
		m := map[string]reflect.Value{}
		for _, k := range v.MapKeys() {
			var kb strings.Builder
			deepString(&kb, k, depth+1)
			ks = append(ks, kb.String())
			m[kb.String()] = v.MapIndex(k)
		}
		sort.Strings(ks)
		b.WriteString("map[")
		for _, k := range ks {
			b.WriteString(k + ":")
			deepString(b, m[k], depth+1)
			b.WriteString(" ")
		}
		b.WriteString("]")
	case reflect.Func, reflect.Chan, reflect.UnsafePointer:
		b.WriteString("-")
	case reflect.String:
		fmt.Fprintf(b, "%q", v.String())
	case reflect.Bool:
		fmt.Fprint(b, v.Bool())
	case reflect.Int, reflect.Int8, reflect.Int16, reflect.Int32, reflect.Int64:
		fmt.Fprint(b, v.Int())
	case reflect.Uint, reflect.Uint8, reflect.Uint16, reflect.Uint32, reflect.Uint64, reflect.Uintptr:
		fmt.Fprint(b, v.Uint())
	case reflect.Float32, reflect.Float64:
		fmt.Fprint(b, v.Float())
	default:
		fmt.Fprintf(b, "?%s", v.Kind())
	}
}

func (im *impl) rawDump() []string {
	var out []string
	im.store().WalkAllTables(func(table string, item interface{}) bool {
		var b strings.Builder
		deepString(&b, reflect.ValueOf(item), 0)
		out = append(out, table+"|"+b.String())
		return true
	})
	sort.Strings(out)
	return out
}

func rawDiff(a, b []string) string {
	am := map[string]int{}
	for _, x := range a {
		am[x]++
	}
	for _, x := range b {
		am[x]--
	}
	for x, n := range am {
		if n != 0 {
			if len(x) > 160 {
				x = x[:160]
			}
			return x
		}
	}
	return ""
}

// C03, read path: KVSGet of every pool key and KVSList of every pool prefix (through the store's
// own read functions, not the table walk) return exactly the rows of the table walk.
func (im *impl) oracleReads(d *Dump) []string {
	var out []string
	st := im.store()
	rows := map[string]KVRow{}
	for _, kv := range d.KVs {
		rows[kv.K] = kv
	}
	for _, k := range keys {
		_, e, err := st.KVSGet(nil, k, nil)
		want, ok := rows[k]
		switch {
		case err != nil:
			out = append(out, "C03:get-error:key="+k)
		case e == nil && ok:
			out = append(out, "C03:get-misses-present-key:key="+k)
		case e != nil && !ok:
			out = append(out, "C03:get-returns-absent-key:key="+k)
		case e != nil && kvRow(e) != want:
			out = append(out, "C03:get-differs-from-table:key="+k)
		}
	}
	for _, p := range append([]string{"a/b", "é", "\xc3"}, prefixes...) {
		_, ents, err := st.KVSList(nil, p, nil)
		if err != nil {
			out = append(out, "C03:list-error:prefix="+p)
			continue
		}
		var want []KVRow
		for _, kv := range d.KVs { // d.KVs is sorted by key
			if strings.HasPrefix(kv.K, p) {
				want = append(want, kv)
			}
		}
		if len(ents) != len(want) {
			out = append(out, fmt.Sprintf("C03:list-wrong-length:prefix=%q got %d want %d", p, len(ents), len(want)))
			continue
		}
		for i, e := range ents {
			if kvRow(e) != want[i] {
				out = append(out, fmt.Sprintf("C03:list-differs-from-table:prefix=%q at %d", p, i))
				break
			}
		}
	}
	return out
}

func bucket(n int) string {
	switch {
	case n == 0:
		return "0"
	case n <= 3:
		return "1-3"
	case n <= 8:
		return "4-8"
	case n <= 19:
		return "9-19"
	}
	return "20+"
}

func toInt(v any) int64 {
	switch x := v.(type) {
	case int:
		return int64(x)
	case int64:
		return x
	case uint64:
		return int64(x)
	case float64:
		return int64(x)
	}
	return 0
}

func allReads(ops []TxnOp) bool {
	for _, o := range ops {
		switch o.Kind {
		case "kv":
			switch o.Verb {
			case "get", "get-or-empty", "get-tree", "check-session", "check-index", "check-not-exists":
			default:
				return false
			}
		case "node", "service", "check":
			if o.Verb != "get" {
				return false
			}
		default:
			return false
		}
	}
	return len(ops) > 0
}

// ---------------------------------------------------------------- oracles (model-independent)

// C04: every lock holder, check link and query session is a live session.
func oracleLocks(d *Dump) []string {
	live := map[string]bool{}
	for _, s := range d.Sessions {
		live[s.ID] = true
	}
	var out []string
	for _, kv := range d.KVs {
		if kv.S != "" && !live[kv.S] {
			out = append(out, "C04:lock-holder-dangling:key="+kv.K)
		}
	}
	for _, m := range d.SChecks {
		if !live[m[2]] {
			out = append(out, "C04:check-link-dangling:check="+m[1])
		}
	}
	for _, q := range d.Queries {
		if q[1] != "" && !live[q[1]] {
			out = append(out, "C04:query-session-dangling")
		}
	}
	return out
}

// C04: a live session's node exists, every check it is bound to exists, is linked to it and is not
// critical (a check of type "session" may have been critical when the session was created) --
// i.e. each of the triggers that must end a session has ended it.
func oracleSessionValid(d *Dump) []string {
	nodes := map[string]bool{}
	for _, n := range d.Nodes {
		nodes[n.Name] = true
	}
	checks := map[[2]string]CheckRow{}
	for _, c := range d.Checks {
		checks[[2]string{c.Node, c.ID}] = c
	}
	links := map[[3]string]bool{}
	for _, m := range d.SChecks {
		links[m] = true
	}
	var out []string
	for _, s := range d.Sessions {
		if !nodes[s.Node] {
			out = append(out, "C04:live-session-on-missing-node:session="+s.ID)
		}
		for _, cid := range s.Checks {
			c, ok := checks[[2]string{s.Node, cid}]
			switch {
			case !ok:
				out = append(out, "C04:live-session-bound-to-missing-check:check="+cid)
			case c.Status == 2 && !c.SessType:
				out = append(out, "C04:live-session-bound-to-critical-check:check="+cid)
			}
			if !links[[3]string{s.Node, cid, s.ID}] {
				out = append(out, "C04:session-check-link-missing:check="+cid)
			}
		}
	}
	return out
}

// C04 end-of-session clause on consecutive dumps.  For a single command (not a transaction, whose
// later operations may write a released key again) the clause is checked exactly: a held key is
// deleted with a tombstone at the command's index, or released with value, flags, lock counter and
// create index kept and the modify index set to the command's index, according to the behaviour.
func oracleSessionEnd(before, after *Dump, idx uint64, isTxn bool, ops []TxnOp) []string {
	// inside a transaction a KV verb may release, re-lock, delete or re-create a key before or after
	// the operation that ends its holder's session: keys named by the transaction's own KV verbs are
	// left to the model comparison (operation by operation)
	named := func(k string) bool {
		for _, op := range ops {
			if op.Kind == "kv" && (op.KV.Key == k || (op.Verb == "delete-tree" && strings.HasPrefix(k, op.KV.Key))) {
				return true
			}
		}
		return false
	}
	var out []string
	liveAfter := map[string]bool{}
	for _, s := range after.Sessions {
		liveAfter[s.ID] = true
	}
	afterKV := map[string]KVRow{}
	for _, kv := range after.KVs {
		afterKV[kv.K] = kv
	}
	afterTomb := map[string]string{}
	for _, t := range after.Tombs {
		afterTomb[t[0]] = t[1]
	}
	for _, s := range before.Sessions {
		if liveAfter[s.ID] {
			continue
		}
		for _, kv := range before.KVs {
			if kv.S != s.ID || (isTxn && named(kv.K)) {
				continue
			}
			a, ok := afterKV[kv.K]
			if s.Del {
				if ok && a.C == kv.C {
					out = append(out, "C04:held-key-not-deleted:key="+kv.K)
				}
				if !isTxn && (ok || afterTomb[kv.K] != fmt.Sprint(idx)) {
					out = append(out, "C04:deleted-key-without-tombstone-at-index:key="+kv.K)
				}
			} else {
				if ok && a.C == kv.C && a.S == s.ID {
					out = append(out, "C04:held-key-not-released:key="+kv.K)
				}
				if !isTxn {
					want := kv
					want.S, want.M = "", idx
					if !ok || a != want {
						out = append(out, "C04:released-key-altered:key="+kv.K)
					}
				}
			}
		}
	}
	return out
}

// C03: an independent sequential versioned map.
type refKV struct {
	val          string
	flags        uint64
	session      string
	lock, cr, mo uint64
}
type refMap map[string]*refKV

func (m refMap) step(idx uint64, verb string, q *KVReq, live map[string]bool) (ok bool, isErr bool) {
	cur := m[q.Key]
	write := func(val string, flags uint64, sess string, lock uint64) {
		if cur != nil && cur.val == val && cur.flags == flags && cur.session == sess && cur.lock == lock {
			return // a write that changes nothing does not advance the modify index
		}
		cr := idx
		if cur != nil {
			cr = cur.cr
		}
		m[q.Key] = &refKV{val, flags, sess, lock, cr, idx}
	}
	switch verb {
	case "set":
		s := ""
		if cur != nil {
			s = cur.session
		}
		write(q.Value, q.Flags, s, q.Lock)
		return true, false
	case "cas":
		if (q.Index == 0 && cur != nil) || (q.Index != 0 && (cur == nil || cur.mo != q.Index)) {
			return false, false
		}
		s := ""
		if cur != nil {
			s = cur.session
		}
		write(q.Value, q.Flags, s, q.Lock)
		return true, false
	case "delete":
		delete(m, q.Key)
		return true, false
	case "delete-cas":
		if cur == nil {
			return true, false
		}
		if cur.mo != q.Index {
			return false, false
		}
		delete(m, q.Key)
		return true, false
	case "delete-tree":
		for k := range m {
			if strings.HasPrefix(k, q.Key) {
				delete(m, k)
			}
		}
		return true, false
	case "lock":
		if q.Session == "" || !live[q.Session] {
			return false, true
		}
		switch {
		case cur == nil:
			write(q.Value, q.Flags, q.Session, 1)
		case cur.session == q.Session:
			write(q.Value, q.Flags, q.Session, cur.lock)
		case cur.session == "":
			write(q.Value, q.Flags, q.Session, cur.lock+1)
		default:
			return false, false
		}
		return true, false
	case "unlock":
		if q.Session == "" {
			return false, true
		}
		if cur == nil || cur.session != q.Session {
			return false, false
		}
		write(q.Value, q.Flags, "", cur.lock)
		return true, false
	}
	return true, false
}

func (m refMap) clone() refMap {
	out := refMap{}
	for k, v := range m {
		c := *v
		out[k] = &c
	}
	return out
}

// endSessions applies "the session ended" to the reference map for sessions that disappeared.
func (m refMap) endSessions(idx uint64, before, after *Dump) {
	liveAfter := map[string]bool{}
	for _, s := range after.Sessions {
		liveAfter[s.ID] = true
	}
	for _, s := range before.Sessions {
		if liveAfter[s.ID] {
			continue
		}
		for k, v := range m {
			if v.session == s.ID {
				if s.Del {
					delete(m, k)
				} else {
					v.session, v.mo = "", idx
				}
			}
		}
	}
}

func (m refMap) diff(d *Dump) string {
	if len(m) != len(d.KVs) {
		return fmt.Sprintf("key count %d vs %d", len(m), len(d.KVs))
	}
	for _, kv := range d.KVs {
		r := m[kv.K]
		if r == nil {
			return "unexpected key " + kv.K
		}
		if r.val != kv.V || r.flags != kv.F || r.session != kv.S || r.lock != kv.L || r.cr != kv.C || r.mo != kv.M {
			return fmt.Sprintf("key %q: reference %+v implementation %+v", kv.K, *r, kv)
		}
	}
	return ""
}

func watchAll(st *state.Store) memdb.WatchSet {
	ws := memdb.NewWatchSet()
	st.KVSList(ws, "", nil)
	st.SessionList(ws, nil)
	st.Nodes(ws, nil, "")
	st.ServiceList(ws, nil, "")
	st.ChecksInState(ws, api.HealthAny, nil, "")
	st.PreparedQueryList(ws)
	for _, k := range keys {
		st.KVSGet(ws, k, nil)
	}
	return ws
}

func fired(ws memdb.WatchSet) bool {
	for ch := range ws {
		select {
		case <-ch:
			return true
		default:
		}
	}
	return false
}

func dumpsEqual(a, b *Dump) bool {
	ja, _ := json.Marshal(a)
	jb, _ := json.Marshal(b)
	return string(ja) == string(jb)
}

// ---------------------------------------------------------------- main

func runHistory(id int, seed int64, mix string, n int, script []Cmd) History {
	im := newImpl()
	g := &gen{rng: rand.New(rand.NewSource(seed)), im: im, mix: mix}
	h := History{ID: id, Mix: mix, Cmds: []Cmd{}, Results: []Res{}, Oracle: []string{}, Stats: map[string]int{}}
	ref := refMap{}
	before := im.dump()
	for i := 0; i < n; i++ {
		var c Cmd
		if script != nil {
			c = script[i]
		} else {
			c = g.next()
		}
		ws := watchAll(im.store())
		ev0 := im.pub.events
		raw0 := im.rawDump()
		// C05: a read-only transaction through the read endpoint's store function changes nothing
		// and answers what the write path answers for the same operations
		var roRes *Res
		if c.Kind == "txn" && allReads(c.Ops) {
			ops := structs.TxnOps{}
			for i := range c.Ops {
				ops = append(ops, txnOp(&c.Ops[i]))
			}
			r, e := im.store().TxnRO(ops)
			pr := projectTxn(r, e)
			roRes = &pr
			h.Stats["read_only_txns_through_TxnRO"]++
			if d := rawDiff(raw0, im.rawDump()); d != "" {
				h.Oracle = append(h.Oracle, fmt.Sprintf("step %d: C05:read-only-txn-changed-store: %s", i, d))
			}
		}
		res := im.apply(&c)
		after := im.dump()
		raw1 := im.rawDump()
		if roRes != nil {
			a, _ := json.Marshal(roRes)
			b, _ := json.Marshal(res)
			if string(a) != string(b) {
				h.Oracle = append(h.Oracle, fmt.Sprintf("step %d: C05:read-only-txn-answers-differ", i))
			}
			if d := rawDiff(raw0, raw1); d != "" {
				h.Oracle = append(h.Oracle, fmt.Sprintf("step %d: C05:read-only-txn-changed-store: %s", i, d))
			}
		}
		// C05: a command that reports an error (a transaction with a failed operation included)
		// leaves every row of every table as it was
		if c.Kind == "txn" {
			h.Stats[fmt.Sprintf("txn_ops_%s", bucket(len(c.Ops)))]++
			if len(res.Errors) > 0 {
				first := int(toInt(res.Errors[0][0]))
				writes := 0
				for i2, op := range c.Ops {
					if i2 >= first {
						break
					}
					if !(op.Kind == "kv" && (op.Verb == "get" || op.Verb == "get-or-empty" || op.Verb == "get-tree" || strings.HasPrefix(op.Verb, "check-"))) && op.Verb != "get" {
						writes++
					}
				}
				if writes > 0 {
					h.Stats["failed_txns_with_write_ops_before_the_failing_one"]++
				}
			}
		}
		if res.Kind == "err" || (c.Kind == "txn" && len(res.Errors) > 0) {
			h.Stats["failed_commands_raw_store_compared"]++
			if d := rawDiff(raw0, raw1); d != "" {
				h.Oracle = append(h.Oracle, fmt.Sprintf("step %d: C05:failed-command-changed-store: %s", i, d))
			}
		}
		// C03: the store's read functions agree with the tables
		h.Stats["read_path_checks(get+list)"] += len(keys) + len(prefixes) + 3
		if len(after.Sessions) < len(before.Sessions) {
			h.Stats["steps_ending_sessions"]++
		}
		for _, o := range im.oracleReads(&after) {
			h.Oracle = append(h.Oracle, fmt.Sprintf("step %d: %s", i, o))
		}
		h.Cmds = append(h.Cmds, c)
		res.Msg = ""
		h.Results = append(h.Results, res)

		// ---- C04
		for _, o := range oracleLocks(&after) {
			h.Oracle = append(h.Oracle, fmt.Sprintf("step %d: %s", i, o))
		}
		for _, o := range oracleSessionValid(&after) {
			h.Oracle = append(h.Oracle, fmt.Sprintf("step %d: %s", i, o))
		}
		for _, o := range oracleSessionEnd(&before, &after, c.Idx, c.Kind == "txn", c.Ops) {
			h.Oracle = append(h.Oracle, fmt.Sprintf("step %d: %s", i, o))
		}
		// ---- C05
		if c.Kind == "txn" && len(res.Errors) > 0 {
			b2, a2 := before, after
			b2.Delay, a2.Delay = nil, nil
			if !dumpsEqual(&b2, &a2) {
				h.Oracle = append(h.Oracle, fmt.Sprintf("step %d: C05:failed-txn-changed-data", i))
			}
			if im.pub.events != ev0 {
				h.Oracle = append(h.Oracle, fmt.Sprintf("step %d: C05:failed-txn-published-events", i))
			}
			if fired(ws) {
				h.Oracle = append(h.Oracle, fmt.Sprintf("step %d: C05:failed-txn-woke-watcher", i))
			}
			if strings.Join(after.Delay, ",") != strings.Join(before.Delay, ",") {
				h.Oracle = append(h.Oracle, fmt.Sprintf("step %d: C05:failed-txn-set-lock-delay", i))
			}
			if len(res.Results) != 0 {
				h.Oracle = append(h.Oracle, fmt.Sprintf("step %d: C05:failed-txn-returned-results", i))
			}
		}
		if c.Kind == "txn" && len(res.Errors) == 0 {
			// every row the transaction changed carries the transaction's index
			bk := map[string]KVRow{}
			for _, kv := range before.KVs {
				bk[kv.K] = kv
			}
			for _, kv := range after.KVs {
				if o, ok := bk[kv.K]; (!ok || o != kv) && kv.M != c.Idx {
					h.Oracle = append(h.Oracle, fmt.Sprintf("step %d: C05:changed-row-has-other-index:key=%s", i, kv.K))
				}
			}
		}
		// ---- C03
		live := map[string]bool{}
		for _, s := range before.Sessions {
			live[s.ID] = true
		}
		switch c.Kind {
		case "kvs":
			ok, isErr := ref.step(c.Idx, c.Verb, c.KV, live)
			switch {
			case isErr && res.Kind != "err":
				h.Oracle = append(h.Oracle, fmt.Sprintf("step %d: C03:expected-error:%s", i, c.Verb))
			case !isErr && (c.Verb == "cas" || c.Verb == "delete-cas" || c.Verb == "lock" || c.Verb == "unlock") && (res.Kind != "bool" || res.Bool != ok):
				h.Oracle = append(h.Oracle, fmt.Sprintf("step %d: C03:wrong-report:%s", i, c.Verb))
			}
		case "txn":
			trial := ref.clone()
			failed := false
			for _, op := range c.Ops {
				if op.Kind != "kv" {
					continue
				}
				switch op.Verb {
				case "get", "get-or-empty", "get-tree", "check-session", "check-index", "check-not-exists":
					continue
				}
				ok, isErr := trial.step(c.Idx, op.Verb, op.KV, live)
				if !ok || isErr {
					failed = true
				}
			}
			if len(res.Errors) == 0 {
				mixed := false
				for _, op := range c.Ops {
					if op.Kind != "kv" {
						mixed = true
					}
				}
				// (in a mixed transaction a KV verb may rightly succeed on a state an earlier node,
				// check or session verb of the same transaction produced, e.g. a delete-cas of a key
				// that the end of its holder's session has just deleted)
				if failed && !mixed {
					h.Oracle = append(h.Oracle, fmt.Sprintf("step %d: C03:txn-succeeded-but-reference-op-failed", i))
				}
				ref = trial
			}
		}
		ref.endSessions(c.Idx, &before, &after)
		pureKV := true
		for _, op := range c.Ops {
			if op.Kind != "kv" {
				pureKV = false
			}
		}
		if c.Kind == "txn" && len(res.Errors) == 0 && !pureKV {
			// A committed transaction that mixes KV verbs with node, service, check or session verbs:
			// the dumps around it do not say at which operation a session ended, so the reference
			// cannot interleave session ends with the KV verbs.  The keys such a transaction can
			// touch -- the keys and prefixes its KV verbs name, and the keys held before it by a
			// session that is gone after it -- are taken from the store; every other key must be
			// exactly what the reference says.  (A transaction of KV verbs alone ends no session and is
			// compared exactly; the model comparison covers the mixed ones operation by operation.)
			gone := map[string]bool{}
			liveAfter := map[string]bool{}
			for _, s := range after.Sessions {
				liveAfter[s.ID] = true
			}
			for _, s := range before.Sessions {
				if !liveAfter[s.ID] {
					gone[s.ID] = true
				}
			}
			touched := func(k string) bool {
				for _, op := range c.Ops {
					if op.Kind != "kv" {
						continue
					}
					if op.KV.Key == k || ((op.Verb == "delete-tree") && strings.HasPrefix(k, op.KV.Key)) {
						return true
					}
				}
				for _, kv := range before.KVs {
					if kv.K == k && gone[kv.S] {
						return true
					}
				}
				return false
			}
			afterKV := map[string]KVRow{}
			for _, kv := range after.KVs {
				afterKV[kv.K] = kv
				if touched(kv.K) {
					ref[kv.K] = &refKV{kv.V, kv.F, kv.S, kv.L, kv.C, kv.M}
				}
			}
			for k := range ref {
				if _, ok := afterKV[k]; !ok && touched(k) {
					delete(ref, k)
				}
			}
			h.Stats["mixed_txns_reference_resynced_on_touched_keys"]++
		}
		if d := ref.diff(&after); d != "" {
			h.Oracle = append(h.Oracle, fmt.Sprintf("step %d: C03:map-differs: %s", i, d))
			// resynchronise so that one defect is reported once
			ref = refMap{}
			for _, kv := range after.KVs {
				ref[kv.K] = &refKV{kv.V, kv.F, kv.S, kv.L, kv.C, kv.M}
			}
		}
		before = after
	}
	h.Final = before
	return h
}

func main() {
	seed := flag.Int64("seed", 1, "seed")
	tier := flag.String("tier", "quick", "quick|thorough")
	out := flag.String("out", "", "output jsonl")
	count := flag.Int("n", 0, "number of histories (default by tier)")
	replay := flag.String("replay", "", "replay file: {cmds:[...]}")
	flag.Parse()

	w := bufio.NewWriterSize(os.Stdout, 1<<20)
	if *out != "" {
		f, err := os.Create(*out)
		if err != nil {
			panic(err)
		}
		defer f.Close()
		w = bufio.NewWriterSize(f, 1<<20)
	}
	defer w.Flush()

	if *replay != "" {
		raw, err := os.ReadFile(*replay)
		if err != nil {
			panic(err)
		}
		var r struct {
			Cmds []Cmd `json:"cmds"`
		}
		if err := json.Unmarshal(raw, &r); err != nil {
			panic(err)
		}
		h := runHistory(0, 0, "replay", len(r.Cmds), r.Cmds)
		j, _ := json.Marshal(&h)
		w.Write(j)
		w.WriteByte('\n')
		return
	}

	n := *count
	if n == 0 {
		n = 600
		if *tier == "thorough" {
			n = 6000
		}
	}
	rng := rand.New(rand.NewSource(*seed))
	mixes := []string{"kv", "session", "txn"}
	for i := 0; i < n; i++ {
		mix := mixes[i%3]
		ln := 1 + rng.Intn(30)
		h := runHistory(i, rng.Int63(), mix, ln, nil)
		j, _ := json.Marshal(&h)
		w.Write(j)
		w.WriteByte('\n')
	}
}
