// Correspondence harness for property C19 (one replication round makes a secondary equal to the primary).
//
// Three streams, all from one seed:
//
//  1. TABLES (exhaustive small scope).  For each of the five instances (token, policy, role, config, fed) every
//     pair of unique-key object sets over a small universe (keys x hashes x remote modify indexes) x every
//     last-index value is decoded from its number, shuffled into a pseudo-random input order, and given to the
//     REAL diff function (real replicator types with their real SortState/LocalMeta/RemoteMeta and diffACLType;
//     diffConfigEntries; FederationStateReplicator.DiffRemoteAndLocalState).  The outputs are written as one
//     number per case; the Coq side enumerates the same scope with its own decoder and compares.
//  2. DIFF cases: structured random lists (history-consistent pairs, equal pairs, unrelated pairs, empty ids,
//     nil/empty hashes, zero config hashes, duplicates, long lists that leave the insertion-sort range of
//     sort.Slice) through the same real functions; inputs and outputs written explicitly.
//  3. ROUND cases: a secondary reduced to the real FSM + state store behind a real single-node in-memory Raft
//     and the primary simulated at the RPC boundary runs the REAL replicateACLTokens / replicateACLPolicies /
//     replicateACLRoles / replicateConfig / IndexReplicator.Replicate(FederationStateReplicator); the
//     secondary's tables are listed afterwards.
//
// Every case also goes through a direct oracle that does not use the model: under the property's hypotheses
// (unique ids, last index consistent with what was applied, hashes that identify content) the replicated
// set after applying the diff equals the primary's; objects outside replication are untouched; an equal
// secondary is not written to.
package main

import (
	"bufio"
	"bytes"
	"crypto/sha256"
	"encoding/hex"
	"encoding/json"
	"flag"
	"fmt"
	"math/rand"
	"os"
	"sort"
	"strconv"
	"strings"

	"github.com/hashicorp/consul/agent/consul"
)

// ---------------------------------------------------------------------------------------------- items

type Item struct {
	Kind   string `json:"kind,omitempty"`
	ID     string `json:"id"`    // hex of the bytes
	Mod    uint64 `json:"mod"`
	Hash   string `json:"hash"`  // hex (ACL)
	NilH   bool   `json:"nilh,omitempty"`
	Hash64 uint64 `json:"hash64,omitempty"`
	Body   uint64 `json:"body"`
	Local  bool   `json:"local,omitempty"`
	Create uint64 `json:"create,omitempty"`
}

func hx(s string) string { return hex.EncodeToString([]byte(s)) }
func unhx(s string) string {
	b, err := hex.DecodeString(s)
	if err != nil {
		panic(err)
	}
	return string(b)
}

func (it Item) raw() consul.VerifReplItem {
	h, _ := hex.DecodeString(it.Hash)
	return consul.VerifReplItem{Kind: unhx(it.Kind), ID: unhx(it.ID), Mod: it.Mod, Hash: h, NilH: it.NilH,
		Hash64: it.Hash64, Body: strconv.FormatUint(it.Body, 10), Local: it.Local, Create: it.Create}
}

func fromRaw(r consul.VerifReplItem) Item {
	b, err := strconv.ParseUint(r.Body, 10, 64)
	if err != nil {
		b = 1 << 40 // a body no generated object has
	}
	return Item{Kind: hx(r.Kind), ID: hx(r.ID), Mod: r.Mod, Hash: hex.EncodeToString(r.Hash), Hash64: r.Hash64, Body: b, Local: r.Local}
}

func raws(l []Item) []consul.VerifReplItem {
	out := make([]consul.VerifReplItem, len(l))
	for i, it := range l {
		out[i] = it.raw()
	}
	return out
}

func froms(l []consul.VerifReplItem) []Item {
	out := make([]Item, len(l))
	for i, it := range l {
		out[i] = fromRaw(it)
	}
	return out
}

type Diff struct {
	Del   []Item `json:"del"`
	Ups   []Item `json:"ups"`
	LSkip int    `json:"lskip"`
	RSkip int    `json:"rskip"`
}

func isACL(inst string) bool { return inst == "token" || inst == "policy" || inst == "role" }

// realDiff calls the implementation.
func realDiff(inst string, local, remote []Item, last uint64) (Diff, error) {
	var d consul.VerifReplDiff
	var err error
	switch {
	case isACL(inst):
		d, err = consul.VerifReplDiffACL(inst, raws(local), raws(remote), last)
	case inst == "config":
		d, err = consul.VerifReplDiffConfig(raws(local), raws(remote), last)
	case inst == "fed":
		d, err = consul.VerifReplDiffFed(raws(local), raws(remote), last)
	default:
		err = fmt.Errorf("unknown instance %q", inst)
	}
	if err != nil {
		return Diff{}, err
	}
	out := Diff{Del: froms(d.Del), Ups: froms(d.Ups), LSkip: d.LSkip, RSkip: d.RSkip}
	if isACL(inst) { // only ids come back
		for i := range out.Del {
			out.Del[i] = Item{ID: out.Del[i].ID}
		}
		for i := range out.Ups {
			out.Ups[i] = Item{ID: out.Ups[i].ID}
		}
	}
	return out, nil
}

// ---------------------------------------------------------------------------------------------- the direct oracle
// (the property itself, stated on implementation observations only)

const exported = "exported-services"

func key(it Item) string { return it.Kind + "/" + it.ID }

// replicated: the object takes part in replication (not local-scoped, not an unmigrated empty id,
// not of the exported-services kind which "only applies to the primary datacenter").
func replicated(inst string, it Item) bool {
	if it.Local {
		return false
	}
	if isACL(inst) && it.ID == "" {
		return false
	}
	if inst == "config" && unhx(it.Kind) == exported {
		return false
	}
	return true
}

func sameHash(inst string, a, b Item) bool {
	switch {
	case isACL(inst):
		return a.Hash == b.Hash
	case inst == "config":
		return a.Hash64 != 0 && b.Hash64 != 0 && a.Hash64 == b.Hash64
	}
	return false
}

type Pre struct {
	NoDup        bool `json:"nodup"`         // keys unique on each side (the tables are keyed by them)
	Consistent   bool `json:"consistent"`    // remote.mod <= last  =>  the secondary already has that content
	HashSound    bool `json:"hash_sound"`    // equal hashes => equal content
	Disjoint     bool `json:"disjoint"`      // no local-scoped object shares its id with a remote one
	Equal        bool `json:"equal"`         // the replicated sets are already equal
	HashComplete bool `json:"hash_complete"` // equal content => (equal usable hashes or remote.mod <= last)
	ZeroHashEq   bool `json:"zero_hash_eq"`  // config: some equal pair carries a zero hash and remote.mod > last
	FedEqNewer   bool `json:"fed_eq_newer"`  // fed: some equal pair has remote.mod > last
	// keys of the equal pairs that carry a zero config hash with remote.mod > last (the recorded finding)
	zeroKeys map[string]bool
}

func preconditions(inst string, st, remote []Item, last uint64) Pre {
	p := Pre{NoDup: true, Consistent: true, HashSound: true, Disjoint: true, Equal: true, HashComplete: true, zeroKeys: map[string]bool{}}
	seen := map[string]bool{}
	for _, x := range st {
		if isACL(inst) && x.ID == "" {
			continue
		}
		if seen[key(x)] {
			p.NoDup = false
		}
		seen[key(x)] = true
	}
	rk := map[string]Item{}
	for _, y := range remote {
		if isACL(inst) && y.ID == "" {
			continue
		}
		if _, ok := rk[key(y)]; ok {
			p.NoDup = false
		}
		rk[key(y)] = y
		if y.Local {
			p.Disjoint = false
		}
	}
	lrep := map[string]Item{}
	for _, x := range st {
		if isACL(inst) && x.ID == "" {
			continue
		}
		y, both := rk[key(x)]
		if x.Local {
			if both {
				p.Disjoint = false
			}
			continue
		}
		if !replicated(inst, x) { // the hypotheses speak about the replicated part only
			continue
		}
		lrep[key(x)] = x
		if !both {
			continue
		}
		if y.Mod <= last && x.Body != y.Body {
			p.Consistent = false
		}
		if sameHash(inst, x, y) && x.Body != y.Body {
			p.HashSound = false
		}
		if x.Body == y.Body && !(sameHash(inst, x, y) || y.Mod <= last) {
			p.HashComplete = false
			if inst == "config" && (x.Hash64 == 0 || y.Hash64 == 0) {
				p.ZeroHashEq = true
				p.zeroKeys[key(x)] = true
			}
			if inst == "fed" {
				p.FedEqNewer = true
			}
		}
	}
	nrep := 0
	for _, y := range rk {
		if !replicated(inst, y) {
			continue
		}
		nrep++
		x, ok := lrep[key(y)]
		if !ok || x.Body != y.Body {
			p.Equal = false
		}
	}
	if nrep != len(lrep) {
		p.Equal = false
	}
	return p
}

// applyDiff is the harness's own "apply deletions, then upserts" for DIFF cases (round cases let the
// real code apply). Deletions and upserts of the exported-services kind are not issued by consul.
func applyDiff(inst string, st, remote []Item, d Diff) []Item {
	skip := func(it Item) bool { return inst == "config" && unhx(it.Kind) == exported }
	out := append([]Item{}, st...)
	for _, del := range d.Del {
		if skip(del) {
			continue
		}
		var keep []Item
		for _, x := range out {
			if key(x) != key(del) {
				keep = append(keep, x)
			}
		}
		out = keep
	}
	for _, up := range d.Ups {
		if skip(up) {
			continue
		}
		var obj *Item
		for i := range remote {
			if key(remote[i]) == key(up) {
				obj = &remote[i]
				break
			}
		}
		if obj == nil {
			continue // an upsert of something the primary does not have writes nothing
		}
		var keep []Item
		for _, x := range out {
			if key(x) != key(up) {
				keep = append(keep, x)
			}
		}
		out = append(keep, *obj)
	}
	return out
}

func contentSet(inst string, l []Item) map[string]uint64 {
	m := map[string]uint64{}
	for _, x := range l {
		if replicated(inst, x) {
			m[key(x)] = x.Body
		}
	}
	return m
}

// oracleRound: final is the secondary's table after the round; effLast the last index the round ran with.
// writes reports whether some object of the replicated part was (re)written (nil when unknown).
//
// issuedDel / issuedUps: number of deletions / upserts the round issued; written: the keys of the objects it
// (re)wrote, deleted: of those it removed.
func oracleRound(inst string, st, remote, final []Item, effLast uint64, issuedDel, issuedUps int, written, deleted []string, pre Pre) (string, map[string]interface{}) {
	if !pre.NoDup {
		return "", nil
	}
	if pre.Consistent && pre.HashSound {
		want, got := contentSet(inst, remote), contentSet(inst, final)
		for k, b := range want {
			gb, ok := got[k]
			if !ok {
				return "not-converged:missing:" + k, map[string]interface{}{"kind": "not-converged", "instance": inst, "how": "missing"}
			}
			if gb != b {
				return "not-converged:stale:" + k, map[string]interface{}{"kind": "not-converged", "instance": inst, "how": "stale"}
			}
		}
		for k := range got {
			if _, ok := want[k]; !ok {
				return "not-converged:extra:" + k, map[string]interface{}{"kind": "not-converged", "instance": inst, "how": "extra"}
			}
		}
	}
	if pre.Disjoint {
		// objects outside replication are untouched (same content, hash and modify index)
		for _, x := range st {
			if replicated(inst, x) {
				continue
			}
			n, found := 0, false
			for _, y := range st {
				if !replicated(inst, y) && y == x {
					n++
				}
			}
			m := 0
			for _, z := range final {
				if z.Kind == x.Kind && z.ID == x.ID && z.Body == x.Body && z.Local == x.Local &&
					z.Mod == x.Mod && z.Hash == x.Hash && z.Hash64 == x.Hash64 {
					m++
					found = true
				}
			}
			if !found || m < n {
				return "local-touched:" + key(x), map[string]interface{}{"kind": "local-touched", "instance": inst}
			}
		}
	}
	// "a secondary that is already equal produces no writes".  Stated for ACL objects and config entries;
	// equal content with different hashes cannot arise when the hash is a function of the content, so such
	// (malformed) pairs are not judged -- except a config entry with a ZERO hash (stored before hashes
	// existed), which is a real state: that one is reported (and is a recorded finding).
	if pre.Equal && (issuedDel > 0 || issuedUps > 0) && inst != "fed" && (pre.HashComplete || pre.ZeroHashEq) {
		// the recorded finding, and nothing else: no deletion, and every write is the rewrite of an equal pair
		// that carries a zero hash and is newer than last
		onlyZero := pre.ZeroHashEq && issuedDel == 0 && len(deleted) == 0 && len(written) == issuedUps
		for _, k := range written {
			if !pre.zeroKeys[k] {
				onlyZero = false
			}
		}
		sig := map[string]interface{}{"kind": "rewrite-of-equal", "instance": inst, "only_zero_hash_pairs_rewritten": onlyZero}
		return fmt.Sprintf("rewrite-of-equal:writes=%d", issuedDel+issuedUps), sig
	}
	return "", nil
}

func issuedKeys(inst string, d Diff) (written, deleted []string) {
	for _, x := range d.Del {
		if !(inst == "config" && unhx(x.Kind) == exported) {
			deleted = append(deleted, key(x))
		}
	}
	for _, x := range d.Ups {
		if !(inst == "config" && unhx(x.Kind) == exported) {
			written = append(written, key(x))
		}
	}
	return
}

// changedKeys: what a real round did to the table, read off the modify indexes (a write re-stamps the object
// with a raft index of the secondary, which the hook keeps above every index the generators use)
func changedKeys(st, final []Item) (written, deleted []string) {
	before := map[string]Item{}
	for _, x := range st {
		before[key(x)] = x
	}
	after := map[string]bool{}
	for _, z := range final {
		after[key(z)] = true
		if x, ok := before[key(z)]; !ok || x.Mod != z.Mod {
			written = append(written, key(z))
		}
	}
	for _, x := range st {
		if !after[key(x)] {
			deleted = append(deleted, key(x))
		}
	}
	return
}

func issuedCounts(inst string, d Diff) (int, int) {
	nd, nu := 0, 0
	for _, x := range d.Del {
		if !(inst == "config" && unhx(x.Kind) == exported) {
			nd++
		}
	}
	for _, x := range d.Ups {
		if !(inst == "config" && unhx(x.Kind) == exported) {
			nu++
		}
	}
	return nd, nu
}

// ---------------------------------------------------------------------------------------------- cases

type Round struct {
	Final    []Item   `json:"final"`
	RetIndex uint64   `json:"ret_index"`
	Exit     bool     `json:"exit"`
	Err      string   `json:"err"`
	Calls    []string `json:"calls"`
	Writes   uint64   `json:"writes"`
}

type Case struct {
	ID          int                    `json:"id"`
	Kind        string                 `json:"kind"` // diff | round
	Inst        string                 `json:"inst"`
	Class       string                 `json:"class"`
	Local       []Item                 `json:"local"` // diff: the listed local objects; round: the secondary's whole table
	Remote      []Item                 `json:"remote"`
	Last        uint64                 `json:"last"`
	RemoteIndex uint64                 `json:"remote_index"`
	// round2 / twosnap: a later snapshot of the primary for the second round; twosnap: what the batch reads of
	// the first round are answered from
	Remote2      []Item `json:"remote2,omitempty"`
	RemoteIndex2 uint64 `json:"remote_index2,omitempty"`
	Batch        []Item `json:"batch,omitempty"`
	Out          *Diff  `json:"out,omitempty"`
	Round        *Round `json:"round,omitempty"`
	Round2       *Round `json:"round2,omitempty"`
	Pre         Pre                    `json:"pre"`
	Oracle      string                 `json:"oracle"`
	Sig         map[string]interface{} `json:"signature,omitempty"`
	ToCoq       bool                   `json:"to_coq"`
	Shrunk      bool                   `json:"shrunk,omitempty"`
}

var srv *consul.VerifReplServer

func view(st []Item) []Item {
	var out []Item
	for _, x := range st {
		if !x.Local {
			out = append(out, x)
		}
	}
	return out
}

// eval runs the implementation on the case's inputs and fills outputs, hypotheses and oracle verdict.
func eval(c *Case) error {
	c.Out, c.Round, c.Oracle, c.Sig = nil, nil, "", nil
	switch c.Kind {
	case "diff":
		d, err := realDiff(c.Inst, c.Local, c.Remote, c.Last)
		if err != nil {
			return err
		}
		c.Out = &d
		c.Pre = preconditions(c.Inst, c.Local, c.Remote, c.Last)
		final := applyDiff(c.Inst, c.Local, c.Remote, d)
		nd, nu := issuedCounts(c.Inst, d)
		w, dl := issuedKeys(c.Inst, d)
		c.Oracle, c.Sig = oracleRound(c.Inst, c.Local, c.Remote, final, c.Last, nd, nu, w, dl, c.Pre)
	case "round", "round2", "twosnap":
		if srv == nil {
			var err error
			if srv, err = consul.VerifReplNewServer(); err != nil {
				return err
			}
		}
		c.Round2 = nil
		opts := consul.VerifReplOpts{}
		if c.Kind == "twosnap" {
			opts = consul.VerifReplOpts{TwoSnapshots: true, Batch: raws(c.Batch)}
		}
		r, err := srv.RoundOpts(c.Inst, raws(c.Local), raws(c.Remote), c.RemoteIndex, c.Last, opts)
		if err != nil {
			return err
		}
		c.Round = &Round{Final: froms(r.Final), RetIndex: r.RetIndex, Exit: r.Exit, Err: r.Err, Calls: r.Calls, Writes: r.Writes}
		eff := c.Last
		if c.RemoteIndex < c.Last {
			eff = 0 // the primary was rebuilt: the round must do a full sync
		}
		c.Pre = preconditions(c.Inst, c.Local, c.Remote, eff)
		if c.Kind == "twosnap" {
			return evalTwoSnap(c)
		}
		if r.Err != "" || r.Exit {
			c.Oracle = "round-failed:" + r.Err
			c.Sig = map[string]interface{}{"kind": "round-failed", "instance": c.Inst, "cause": refusalCause(c), "refused_with": refusedWith(r.Err)}
			if c.Kind == "round2" || c.Sig["cause"] == "" {
				return nil
			}
			// a refused write: is it transient? run the retry the replicator would run (last = 0)
			r2, err := srv.RoundOpts(c.Inst, nil, raws(c.Remote), c.RemoteIndex, 0, consul.VerifReplOpts{Keep: true})
			if err != nil {
				return err
			}
			c.Round2 = &Round{Final: froms(r2.Final), RetIndex: r2.RetIndex, Exit: r2.Exit, Err: r2.Err, Calls: r2.Calls, Writes: r2.Writes}
			c.Sig["retry_fails_too"] = r2.Err != ""
			return nil
		}
		if r.RetIndex != c.RemoteIndex {
			c.Oracle = fmt.Sprintf("wrong-index-returned:%d", r.RetIndex)
			c.Sig = map[string]interface{}{"kind": "wrong-index", "instance": c.Inst}
			return nil
		}
		written, deleted := changedKeys(c.Local, c.Round.Final)
		nd, nu := len(deleted), len(written)
		if r.Writes > 0 && nd+nu == 0 {
			nu = int(r.Writes)
		}
		c.Oracle, c.Sig = oracleRound(c.Inst, c.Local, c.Remote, c.Round.Final, eff, nd, nu, written, deleted, c.Pre)
		if c.Kind == "round2" && c.Oracle == "" {
			return evalSecondRound(c)
		}
	default:
		return fmt.Errorf("unknown case kind %q", c.Kind)
	}
	return nil
}

// modelCovers: the Coq model predicts this case's observables. Refused writes are modelled for policies and
// roles (unique names) only; a failing config / second round, and ensureRemoteConsistent (policy batch reads
// from another snapshot), are judged by the oracle alone.
func modelCovers(c *Case) bool {
	switch c.Kind {
	case "diff":
		return true
	case "round":
		return c.Round.Err == "" || c.Inst == "policy" || c.Inst == "role"
	case "round2":
		return c.Round.Err == "" && c.Round2 != nil && c.Round2.Err == ""
	case "twosnap":
		return c.Inst == "token" && c.Round.Err == "" && c.Round2 != nil && c.Round2.Err == ""
	}
	return false
}

func attrOf(x Item) uint64 { return (x.Body >> 20) & 7 }

// refusalCause names the input shape of a round the state store is known to refuse (recorded findings); ""
// when the case has none of them.
//
//	name-held-by-other-id: (policy, role) an object to upsert takes a shared name that, at that point of
//	    the id-ordered batch, another id of the secondary holds
//	dependent-kinds-together: (config) the round issues, in (kind, name) order, writes of entries whose
//	    validity depends on each other (service-defaults protocol <-> service-router / ingress-gateway)
func refusalCause(c *Case) string {
	switch c.Inst {
	case "policy", "role":
		d, err := realDiff(c.Inst, view(c.Local), c.Remote, effLast(c))
		if err != nil {
			return ""
		}
		gone := map[string]bool{}
		for _, x := range d.Del {
			gone[x.ID] = true
		}
		names := map[string]uint64{} // id -> shared name held (0 none)
		for _, x := range c.Local {
			if !gone[x.ID] {
				names[x.ID] = attrOf(x)
			}
		}
		for _, u := range d.Ups { // walk order = id order = batch order
			for _, y := range c.Remote {
				if y.ID != u.ID {
					continue
				}
				if n := attrOf(y); n != 0 {
					for id, held := range names {
						if id != y.ID && held == n {
							return "name-held-by-other-id"
						}
					}
				}
				names[y.ID] = attrOf(y)
			}
		}
	case "config":
		d, err := realDiff(c.Inst, c.Local, c.Remote, effLast(c))
		if err != nil {
			return ""
		}
		dep := func(k string) bool { return k == "service-router" || k == "ingress-gateway" }
		hasDep, hasProto := map[string]bool{}, map[string]bool{}
		for _, l := range [][]Item{d.Del, d.Ups} {
			for _, x := range l {
				if dep(unhx(x.Kind)) {
					hasDep[x.ID] = true
				}
				if unhx(x.Kind) == "service-defaults" {
					hasProto[x.ID] = true
				}
			}
		}
		for _, l := range [][]Item{c.Local, c.Remote} { // a dependent entry that stays also constrains the writes
			for _, x := range l {
				if dep(unhx(x.Kind)) {
					hasDep[x.ID] = true
				}
			}
		}
		for n := range hasDep {
			if hasProto[n] {
				return "dependent-kinds-together"
			}
		}
	}
	return ""
}

// refusedWith classifies the error text of a failed round
func refusedWith(e string) string {
	switch {
	case strings.Contains(e, "with name") && strings.Contains(e, "already exists"):
		return "name-exists"
	case strings.Contains(e, "does not permit advanced routing or splitting behavior"),
		strings.Contains(e, "does not match defined listener protocol"):
		return "chain-protocol"
	}
	return "other"
}

func effLast(c *Case) uint64 {
	if c.RemoteIndex < c.Last {
		return 0
	}
	return c.Last
}

// evalSecondRound: round 2 on the state round 1 left, with last := the index round 1 returned, against a later
// snapshot (or the same one).  No hypothesis about `last` is supplied by the generator here: the code has to
// have produced it.
func evalSecondRound(c *Case) error {
	last2 := c.Round.RetIndex
	r2, err := srv.RoundOpts(c.Inst, nil, raws(c.Remote2), c.RemoteIndex2, last2, consul.VerifReplOpts{Keep: true})
	if err != nil {
		return err
	}
	c.Round2 = &Round{Final: froms(r2.Final), RetIndex: r2.RetIndex, Exit: r2.Exit, Err: r2.Err, Calls: r2.Calls, Writes: r2.Writes}
	if r2.Err != "" || r2.Exit {
		c.Oracle = "second-round-failed:" + r2.Err
		c.Sig = map[string]interface{}{"kind": "round-failed", "instance": c.Inst, "cause": "", "round": 2}
		return nil
	}
	if r2.RetIndex != c.RemoteIndex2 {
		c.Oracle = fmt.Sprintf("wrong-index-returned:%d", r2.RetIndex)
		c.Sig = map[string]interface{}{"kind": "wrong-index", "instance": c.Inst, "round": 2}
		return nil
	}
	if !c.Pre.NoDup || !c.Pre.Consistent || !c.Pre.HashSound {
		return nil // round 1 was not judged, so round 2 starts from an unknown state
	}
	want, got := contentSet(c.Inst, c.Remote2), contentSet(c.Inst, c.Round2.Final)
	for k, b := range want {
		if gb, ok := got[k]; !ok || gb != b {
			c.Oracle = "second-round-not-converged:" + k
			c.Sig = map[string]interface{}{"kind": "not-converged", "instance": c.Inst, "round": 2}
			return nil
		}
	}
	for k := range got {
		if _, ok := want[k]; !ok {
			c.Oracle = "second-round-not-converged:extra:" + k
			c.Sig = map[string]interface{}{"kind": "not-converged", "instance": c.Inst, "round": 2}
			return nil
		}
	}
	same := len(c.Remote) == len(c.Remote2)
	if same {
		m := map[string]Item{}
		for _, y := range c.Remote {
			m[key(y)] = y
		}
		for _, y := range c.Remote2 {
			if m[key(y)] != y {
				same = false
			}
		}
	}
	if same && r2.Writes > 0 { // every instance, whatever the hashes: nothing is newer than the returned index
		c.Oracle = fmt.Sprintf("second-round-rewrites-unchanged:writes=%d", r2.Writes)
		c.Sig = map[string]interface{}{"kind": "rewrite-of-equal", "instance": c.Inst, "round": 2}
	}
	return nil
}

// evalTwoSnap: round 1 listed c.Remote but its batch reads were answered from c.Batch; round 2 sees ONE later
// snapshot c.Remote2 with last := what round 1 returned (0 after an error, as Replicator.Run does).  Expected:
// the secondary equals c.Remote2 afterwards.
func evalTwoSnap(c *Case) error {
	last2 := c.Round.RetIndex
	if c.Round.Err != "" {
		last2 = 0
	}
	r2, err := srv.RoundOpts(c.Inst, nil, raws(c.Remote2), c.RemoteIndex2, last2, consul.VerifReplOpts{Keep: true})
	if err != nil {
		return err
	}
	c.Round2 = &Round{Final: froms(r2.Final), RetIndex: r2.RetIndex, Exit: r2.Exit, Err: r2.Err, Calls: r2.Calls, Writes: r2.Writes}
	if r2.Err != "" {
		c.Oracle = "second-round-failed:" + r2.Err
		c.Sig = map[string]interface{}{"kind": "round-failed", "instance": c.Inst, "cause": "", "round": 2}
		return nil
	}
	if !c.Pre.NoDup || !c.Pre.Consistent || !c.Pre.HashSound {
		return nil
	}
	// which objects did round 1 (having succeeded and advanced the index) leave in an outdated version because of
	// the other snapshot?  older: the batch read returned an older version than the one listed and it was
	// written; omitted: the batch read did not return the object at all while the secondary holds an outdated one
	explained := map[string]bool{}
	if c.Round.Err == "" {
		lst, bat, sec := map[string]Item{}, map[string]Item{}, map[string]Item{}
		for _, y := range c.Remote {
			lst[key(y)] = y
		}
		for _, b := range c.Batch {
			bat[key(b)] = b
		}
		for _, x := range c.Local {
			sec[key(x)] = x
		}
		for k, y := range lst {
			b, inBatch := bat[k]
			x, inSec := sec[k]
			switch {
			case c.Inst == "token" && inBatch && b.Mod < y.Mod && b.Body != y.Body:
				explained[k] = true
			case !inBatch && inSec && x.Body != y.Body && y.Mod > c.Last:
				explained[k] = true
			}
		}
	}
	want, got := contentSet(c.Inst, c.Remote2), contentSet(c.Inst, c.Round2.Final)
	bad, all := "", true
	for k, b := range want {
		if gb, ok := got[k]; !ok || gb != b {
			bad = k
			if !explained[k] {
				all = false
			}
		}
	}
	for k := range got {
		if _, ok := want[k]; !ok {
			bad, all = k, false
		}
	}
	if bad != "" {
		c.Oracle = "stale-after-two-snapshot-round:" + bad
		c.Sig = map[string]interface{}{"kind": "stale-batch-read-sticks", "instance": c.Inst, "only_outdated_batch_versions": all}
	}
	return nil
}

// shrink: delta debugging over the two object lists (remove chunks of halving size while the oracle keeps
// failing with the same kind), with a budget of implementation runs.
func shrink(c Case) Case {
	kind := func(c *Case) string { // what must stay the same while shrinking: the kind AND the recorded input shape
		if c.Sig == nil {
			return ""
		}
		return fmt.Sprint(c.Sig["kind"], "|", c.Sig["cause"], "|", c.Sig["refused_with"], "|",
			c.Sig["only_zero_hash_pairs_rewritten"], "|", c.Sig["only_outdated_batch_versions"], "|", c.Sig["round"])
	}
	want := kind(&c)
	if want == "" {
		return c
	}
	budget := 400
	if len(c.Local)+len(c.Remote) > 1000 {
		budget = 16
	}
	best := c
	try := func(t Case) bool {
		if budget <= 0 {
			return false
		}
		budget--
		if err := eval(&t); err == nil && kind(&t) == want {
			best = t
			return true
		}
		return false
	}
	for side := 0; side < 2; side++ {
		get := func() []Item {
			if side == 0 {
				return best.Local
			}
			return best.Remote
		}
		for chunk := (len(get()) + 1) / 2; chunk >= 1 && budget > 0; {
			removed := false
			for start := 0; start < len(get()) && budget > 0; {
				l := get()
				end := start + chunk
				if end > len(l) {
					end = len(l)
				}
				t := best
				nl := append(append([]Item{}, l[:start]...), l[end:]...)
				if side == 0 {
					t.Local = nl
				} else {
					t.Remote = nl
				}
				if try(t) {
					removed = true
				} else {
					start += chunk
				}
			}
			if !removed || chunk == 1 {
				if chunk == 1 && !removed {
					break
				}
				if chunk == 1 {
					continue
				}
				chunk = (chunk + 1) / 2
				if chunk < 1 {
					chunk = 1
				}
			}
		}
	}
	// one more pass over the first side: removing remote objects may have made local ones removable
	for i := 0; i < len(best.Local) && budget > 0; {
		t := best
		t.Local = append(append([]Item{}, best.Local[:i]...), best.Local[i+1:]...)
		if !try(t) {
			i++
		}
	}
	best.Shrunk = true
	return best
}

// ---------------------------------------------------------------------------------------------- tables

type Scope struct {
	Inst    string   `json:"inst"`
	Keys    []Item   `json:"keys"`   // Kind+ID used
	Hashes  []Item   `json:"hashes"` // Hash / Hash64 / Body used (Body = the content that hash stands for)
	LHashes int      `json:"lhashes"` // the local side uses the first LHashes of them
	Mods    []uint64 `json:"mods"`
	Lasts   []uint64 `json:"lasts"`
	Salt    uint64   `json:"salt"`
	IdsOnly bool     `json:"ids_only"`
}

func (sc *Scope) total() uint64 {
	lb := uint64(1 + sc.LHashes)
	rb := uint64(1 + len(sc.Hashes)*len(sc.Mods))
	t := uint64(len(sc.Lasts))
	for range sc.Keys {
		t *= lb * rb
	}
	return t
}

func shuffle(seed uint64, l []Item) []Item {
	rest := append([]Item{}, l...)
	var out []Item
	for len(rest) > 0 {
		n := uint64(len(rest))
		i := seed % n
		seed /= n
		out = append(out, rest[i])
		rest = append(rest[:i], rest[i+1:]...)
	}
	return out
}

const localMod = 2

func (sc *Scope) decode(idx uint64) (local, remote []Item, last uint64) {
	x := idx
	nh, nm := uint64(len(sc.Hashes)), uint64(len(sc.Mods))
	lb, rb := 1+uint64(sc.LHashes), 1+nh*nm
	for _, k := range sc.Keys {
		d := x % lb
		x /= lb
		if d > 0 {
			h := sc.Hashes[d-1]
			local = append(local, Item{Kind: k.Kind, ID: k.ID, Mod: localMod, Hash: h.Hash, Hash64: h.Hash64, Body: h.Body})
		}
	}
	for _, k := range sc.Keys {
		d := x % rb
		x /= rb
		if d > 0 {
			e := d - 1
			h := sc.Hashes[e/nm]
			remote = append(remote, Item{Kind: k.Kind, ID: k.ID, Mod: sc.Mods[e%nm], Hash: h.Hash, Hash64: h.Hash64, Body: h.Body})
		}
	}
	last = sc.Lasts[x%uint64(len(sc.Lasts))]
	local = shuffle((idx*7919+sc.Salt)%1000003, local)
	remote = shuffle((idx*104729+sc.Salt*31+17)%1000003, remote)
	return
}

// encode: hexadecimal digits  1, {key+1 [, hash+1, mod]}*, 0, {key+1 [, hash+1, mod]}*, 0, lskip, rskip
func (sc *Scope) encode(d Diff) string {
	var b strings.Builder
	b.WriteByte('1')
	dig := func(n int) {
		if n < 0 || n > 15 {
			n = 15
		}
		b.WriteString(strconv.FormatInt(int64(n), 16))
	}
	item := func(it Item) {
		ki := 14
		for i, k := range sc.Keys {
			if k.Kind == it.Kind && k.ID == it.ID {
				ki = i
			}
		}
		dig(ki + 1)
		if sc.IdsOnly {
			return
		}
		hi := 13
		for i, h := range sc.Hashes {
			if h.Hash == it.Hash && h.Hash64 == it.Hash64 {
				hi = i
				break
			}
		}
		dig(hi + 1)
		dig(int(it.Mod))
	}
	for _, it := range d.Del {
		item(it)
	}
	dig(0)
	for _, it := range d.Ups {
		item(it)
	}
	dig(0)
	dig(d.LSkip)
	dig(d.RSkip)
	return b.String()
}

type Table struct {
	Scope      Scope          `json:"scope"`
	Total      uint64         `json:"total"`
	Out        []string       `json:"out"`
	OracleFail []Case         `json:"oracle_fail"`
	Stats      map[string]int `json:"stats"`
}

func scopes(tier string, seed uint64) []Scope {
	k := func(kind, id string) Item { return Item{Kind: hx(kind), ID: hx(id)} }
	aclKeys := []Item{k("", ""), k("", "a"), k("", "ab"), k("", "b")}
	aclHashes := []Item{{Hash: "0102", Body: 1}, {Hash: "0103", Body: 2}}
	cfgKeys := []Item{k("exported-services", "z"), k("service-defaults", "a"), k("service-defaults", "ab"), k("service-resolver", "a")}
	cfgHashes := []Item{{Hash64: 0, Body: 1}, {Hash64: 5, Body: 1}, {Hash64: 6, Body: 2}}
	_ = cfgHashes
	fedKeys := []Item{k("", "dc1"), k("", "dc10"), k("", "dc2"), k("", "DC3"), k("", "eu")}
	mods, lasts := []uint64{1, 3}, []uint64{0, 2, 3}
	var out []Scope
	// quick: the local side takes one hash (hash equality is symmetric, so nothing is lost for the ACL
	// types), config entries two of three; thorough: the full product
	aclLH, cfgLH := 1, 2
	if tier == "thorough" {
		aclLH = 2
		fedKeys = append(fedKeys, k("", "z"))
	}
	for _, inst := range []string{"token", "policy", "role"} {
		out = append(out, Scope{Inst: inst, Keys: aclKeys, Hashes: aclHashes, LHashes: aclLH, Mods: mods, Lasts: lasts, Salt: seed, IdsOnly: true})
	}
	ck := cfgKeys
	if tier == "quick" {
		ck = cfgKeys[:3]
	}
	out = append(out, Scope{Inst: "config", Keys: ck, Hashes: cfgHashes, LHashes: cfgLH, Mods: mods, Lasts: lasts, Salt: seed})
	out = append(out, Scope{Inst: "fed", Keys: fedKeys[:4], Hashes: []Item{{Body: 1}}, LHashes: 1, Mods: mods, Lasts: lasts, Salt: seed})
	if tier == "thorough" {
		out[len(out)-1].Keys = fedKeys
	}
	return out
}

func runTable(sc Scope, hist map[string]int) (Table, error) {
	t := Table{Scope: sc, Total: sc.total(), Stats: map[string]int{}, OracleFail: []Case{}}
	t.Out = make([]string, 0, t.Total)
	for idx := uint64(0); idx < t.Total; idx++ {
		local, remote, last := sc.decode(idx)
		d, err := realDiff(sc.Inst, local, remote, last)
		if err != nil {
			return t, err
		}
		t.Out = append(t.Out, sc.encode(d))
		pre := preconditions(sc.Inst, local, remote, last)
		final := applyDiff(sc.Inst, local, remote, d)
		nd, nu := issuedCounts(sc.Inst, d)
		w, dl := issuedKeys(sc.Inst, d)
		o, sig := oracleRound(sc.Inst, local, remote, final, last, nd, nu, w, dl, pre)
		if pre.Consistent && pre.HashSound {
			t.Stats["round_hypotheses_hold"]++
		}
		if pre.Equal {
			t.Stats["already_equal"]++
		}
		if len(d.Del)+len(d.Ups) > 0 {
			t.Stats["nonempty_diff"]++
		}
		hist[fmt.Sprintf("table/%s/len%d-%d", sc.Inst, len(local), len(remote))]++
		if o != "" {
			t.Stats["oracle_failures"]++
			if len(t.OracleFail) < 40 || (sig != nil && sig["kind"] != "rewrite-of-equal" && len(t.OracleFail) < 80) {
				c := Case{ID: int(idx), Kind: "diff", Inst: sc.Inst, Class: "table", Local: local, Remote: remote, Last: last,
					Out: &d, Pre: pre, Oracle: o, Sig: sig}
				t.OracleFail = append(t.OracleFail, c)
			}
		}
	}
	return t, nil
}

// ---------------------------------------------------------------------------------------------- generators

var aclIDs = []string{"a", "ab", "abc", "b", "B", "a0", "\xc3\xa9", "zz", "10", "9", "a-", "a b",
	"3f2a7c1e-0000-4000-8000-0000000000aa", "3f2a7c1e-0000-4000-8000-0000000000ab", "3F2A7C1E-0000-4000-8000-0000000000AA",
	"f", "ff", "e\xcc\x81"}
var cfgKinds = []string{"service-defaults", "service-resolver", "exported-services", "proxy-defaults", "service-intentions"}
var fedIDs = []string{"dc1", "dc2", "dc10", "DC3", "eu-west", "eu", "ap", "dc", "z"}

type gen struct {
	r    *rand.Rand
	inst string
}

func (g *gen) hashOf(body uint64, it *Item) {
	switch {
	case isACL(g.inst):
		it.Hash = hex.EncodeToString([]byte{byte(body), byte(body >> 8), byte(body >> 16), byte(body >> 20), 0x5a})
	case g.inst == "config":
		it.Hash64 = 1000 + body
	}
	it.Body = body
}

func (g *gen) keys(n int) []Item {
	seen := map[string]bool{}
	var out []Item
	for tries := 0; len(out) < n && tries < 50*n+50; tries++ {
		var k Item
		switch {
		case isACL(g.inst):
			if n > len(aclIDs)-2 {
				k.ID = hx(fmt.Sprintf("%08x-%04x", g.r.Uint32(), g.r.Intn(65536)))
			} else {
				k.ID = hx(aclIDs[g.r.Intn(len(aclIDs))])
			}
		case g.inst == "config":
			kind := cfgKinds[g.r.Intn(len(cfgKinds))]
			name := aclIDs[g.r.Intn(12)]
			if n > 20 {
				name = fmt.Sprintf("svc-%05x", g.r.Intn(1<<20))
			}
			k.Kind, k.ID = hx(kind), hx(name)
		default:
			if n > len(fedIDs)-1 {
				k.ID = hx(fmt.Sprintf("dc-%05x", g.r.Intn(1<<20)))
			} else {
				k.ID = hx(fedIDs[g.r.Intn(len(fedIDs))])
			}
		}
		if !seen[key(k)] {
			seen[key(k)] = true
			out = append(out, k)
		}
	}
	return out
}

func (g *gen) perm(l []Item) []Item {
	out := append([]Item{}, l...)
	g.r.Shuffle(len(out), func(i, j int) { out[i], out[j] = out[j], out[i] })
	return out
}

// synced: the secondary applied everything up to `last`; afterwards the primary created, changed and
// deleted objects (all with a modify index above last). The secondary may also hold objects the primary
// never had or has deleted long ago, local-scoped tokens and exported-services entries of its own.
func (g *gen) synced(n int) (st, remote []Item, last uint64) {
	last = uint64(5 + g.r.Intn(40))
	for _, k := range g.keys(n) {
		body := uint64(1 + g.r.Intn(6))
		l, r := k, k
		g.hashOf(body, &l)
		g.hashOf(body, &r)
		l.Mod = uint64(1 + g.r.Intn(60))
		r.Mod = uint64(1 + g.r.Intn(int(last)))
		switch g.r.Intn(10) {
		case 0, 1: // changed at the primary after last
			g.hashOf(body+10, &r)
			r.Mod = last + 1 + uint64(g.r.Intn(5))
			st, remote = append(st, l), append(remote, r)
		case 2: // deleted at the primary
			st = append(st, l)
		case 3, 4: // created at the primary after last
			r.Mod = last + 1 + uint64(g.r.Intn(5))
			remote = append(remote, r)
		case 5: // rewritten at the primary with the same content after last
			r.Mod = last + 1
			st, remote = append(st, l), append(remote, r)
		case 6: // a token of local scope in the secondary
			if g.inst == "token" {
				l.Local = true
				st = append(st, l)
			} else {
				st, remote = append(st, l), append(remote, r)
			}
		default:
			st, remote = append(st, l), append(remote, r)
		}
	}
	return g.perm(st), g.perm(remote), last
}

func (g *gen) unrelated(n int) (st, remote []Item, last uint64) {
	last = uint64(g.r.Intn(12))
	for _, k := range g.keys(n) {
		l, r := k, k
		g.hashOf(uint64(1+g.r.Intn(3)), &l)
		g.hashOf(uint64(1+g.r.Intn(3)), &r)
		l.Mod, r.Mod = uint64(1+g.r.Intn(12)), uint64(1+g.r.Intn(12))
		switch g.r.Intn(4) {
		case 0:
			st = append(st, l)
		case 1:
			remote = append(remote, r)
		default:
			st, remote = append(st, l), append(remote, r)
		}
	}
	return g.perm(st), g.perm(remote), last
}

func (g *gen) equal(n int) (st, remote []Item, last uint64) {
	last = uint64(g.r.Intn(12))
	for _, k := range g.keys(n) {
		l, r := k, k
		b := uint64(1 + g.r.Intn(5))
		g.hashOf(b, &l)
		g.hashOf(b, &r)
		l.Mod, r.Mod = uint64(1+g.r.Intn(12)), uint64(1+g.r.Intn(12))
		if g.inst == "config" && g.r.Intn(12) == 0 { // an entry stored before hashes existed
			if g.r.Intn(2) == 0 {
				l.Hash64 = 0
			} else {
				r.Hash64 = 0
			}
		}
		st, remote = append(st, l), append(remote, r)
	}
	return g.perm(st), g.perm(remote), last
}

// rename (policies, roles): objects carry a shared name (attribute k in 1..3) or an id-derived one (0); names are
// unique inside each side, as the state store demands; at the primary names were moved around after `last`
// (swapped, shifted along a chain, freed by a deletion and taken by a new object).
func (g *gen) rename() (st, remote []Item, last uint64) {
	last = uint64(8 + g.r.Intn(8))
	keys := g.keys(2 + g.r.Intn(3))
	content := uint64(1)
	next := func() uint64 { content++; return content }
	assign := func(n int) []uint64 { // an injective choice of names (0 may repeat)
		pool := []uint64{1, 2, 3}
		g.r.Shuffle(3, func(i, j int) { pool[i], pool[j] = pool[j], pool[i] })
		out := make([]uint64, n)
		used := 0
		for i := range out {
			if used < 3 && g.r.Intn(4) != 0 {
				out[i] = pool[used]
				used++
			}
		}
		return out
	}
	before, after := assign(len(keys)), assign(len(keys))
	if g.r.Intn(3) == 0 && len(keys) >= 2 { // a plain swap of the first two
		before[0], before[1] = 1, 2
		after[0], after[1] = 2, 1
		for i := 2; i < len(keys); i++ {
			if before[i] != 3 {
				before[i] = 0
			}
			if after[i] != 3 {
				after[i] = 0
			}
		}
	}
	for i, k := range keys {
		l, r := k, k
		c := next()
		g.hashOf(c|before[i]<<20, &l)
		l.Mod = uint64(1 + g.r.Intn(int(last)))
		switch {
		case before[i] != after[i] || g.r.Intn(4) == 0: // renamed (or otherwise changed) after last
			g.hashOf(next()|after[i]<<20, &r)
			r.Mod = last + 1 + uint64(g.r.Intn(4))
			if g.r.Intn(6) == 0 { // deleted at the primary instead: its name becomes free
				st = append(st, l)
				continue
			}
		default:
			g.hashOf(c|before[i]<<20, &r)
			r.Mod = uint64(1 + g.r.Intn(int(last)))
		}
		if g.r.Intn(8) == 0 { // new at the primary
			r.Mod = last + 1 + uint64(g.r.Intn(4))
			remote = append(remote, r)
			continue
		}
		st, remote = append(st, l), append(remote, r)
	}
	return g.perm(st), g.perm(remote), last
}

// dependent (config entries): per service name a valid combination of service-defaults (tcp or http),
// service-router and ingress-gateway (both need http); the two sides are chosen independently, so dependent
// entries are created / deleted / changed together with what they depend on.
func (g *gen) dependent() (st, remote []Item, last uint64) {
	last = 5
	side := func(modBase uint64) []Item {
		var defs, deps []Item
		for _, name := range []string{"a", "b"} {
			mk := func(kind string, content, attr uint64) Item {
				x := Item{Kind: hx(kind), ID: hx(name)}
				g.hashOf(content|attr<<20, &x)
				x.Mod = modBase + uint64(g.r.Intn(4))
				return x
			}
			switch g.r.Intn(6) {
			case 0:
			case 1:
				defs = append(defs, mk("service-defaults", 1, 0))
			case 2:
				defs = append(defs, mk("service-defaults", 2, 1))
			case 3:
				defs, deps = append(defs, mk("service-defaults", 2, 1)), append(deps, mk("service-router", 3, 0))
			case 4:
				defs, deps = append(defs, mk("service-defaults", 2, 1)), append(deps, mk("ingress-gateway", 4, 0))
			default:
				defs = append(defs, mk("service-defaults", 2, 1))
				deps = append(deps, mk("service-router", 3, 0), mk("ingress-gateway", 4, 0))
			}
		}
		return append(defs, deps...) // loadable in this order
	}
	return side(1), side(6), last
}

// evolve: a later snapshot of the primary than `remote` (taken at index ri): some objects changed, deleted or
// created, all with a modify index in (ri, ri2]
func (g *gen) evolve(remote []Item, ri, ri2 uint64) []Item {
	var out []Item
	if ri2 == ri {
		return append(out, remote...)
	}
	span := int(ri2 - ri)
	for _, y := range remote {
		switch g.r.Intn(5) {
		case 0:
			g.hashOf(y.Body+1000, &y)
			y.Mod = ri + 1 + uint64(g.r.Intn(span))
		case 1:
			continue
		}
		out = append(out, y)
	}
	for _, k := range g.keys(g.r.Intn(3)) {
		dup := false
		for _, y := range remote {
			if key(y) == key(k) {
				dup = true
			}
		}
		if !dup {
			g.hashOf(uint64(30+g.r.Intn(5)), &k)
			k.Mod = ri + 1 + uint64(g.r.Intn(span))
			out = append(out, k)
		}
	}
	return g.perm(out)
}

// otherSnapshot: what the batch reads see when a different server of the primary answers them: per object
// the same version, an older one, a newer one, or nothing; remote2 is the later snapshot that contains the
// newer versions
func (g *gen) otherSnapshot(remote []Item, ri uint64) (batch, remote2 []Item) {
	for _, y := range remote {
		b, y2 := y, y
		switch g.r.Intn(6) {
		case 0: // older
			if y.Mod > 1 {
				g.hashOf(y.Body+2000, &b)
				b.Mod = uint64(1 + g.r.Intn(int(y.Mod-1)))
			}
			batch = append(batch, b)
		case 1: // newer
			g.hashOf(y.Body+3000, &b)
			b.Mod = ri + 1 + uint64(g.r.Intn(4))
			batch = append(batch, b)
			y2 = b
		case 2: // the lagging server does not have it yet
			if g.r.Intn(2) == 0 {
				y.Create = y.Mod
			}
		default:
			batch = append(batch, b)
		}
		remote2 = append(remote2, y2)
	}
	return
}

// realHashes replaces the harness-chosen hashes by the ones the real code computes for these objects
func realHashes(inst string, l []Item) []Item {
	out := make([]Item, len(l))
	for i, x := range l {
		r, err := consul.VerifReplRealHash(inst, x.raw())
		if err != nil {
			panic(err)
		}
		y := fromRaw(r)
		y.Create = x.Create
		out[i] = y
	}
	return out
}

// malformed additions for DIFF cases: empty ids, duplicates, hash collisions, nil / empty hashes
func (g *gen) spoil(st, remote []Item, what string) ([]Item, []Item) {
	pick := func(l []Item) *Item {
		if len(l) == 0 {
			return nil
		}
		return &l[g.r.Intn(len(l))]
	}
	switch what {
	case "empties":
		for i := 0; i < 1+g.r.Intn(3); i++ {
			var e Item
			g.hashOf(uint64(20+i), &e)
			e.Mod = uint64(1 + g.r.Intn(50))
			if g.r.Intn(2) == 0 {
				st = append(st, e)
			} else {
				remote = append(remote, e)
			}
		}
	case "dups":
		if x := pick(st); x != nil && g.r.Intn(2) == 0 {
			d := *x
			g.hashOf(d.Body+1, &d)
			st = append(st, d)
		}
		if y := pick(remote); y != nil {
			d := *y
			g.hashOf(d.Body+uint64(g.r.Intn(2)), &d)
			d.Mod = uint64(1 + g.r.Intn(50))
			remote = append(remote, d)
		}
	case "collide":
		if x := pick(st); x != nil {
			x.Body += 100 // same hash, other content
		}
	case "nohash":
		for _, l := range [][]Item{st, remote} {
			if x := pick(l); x != nil {
				x.Hash, x.Hash64 = "", 0
				x.NilH = g.r.Intn(2) == 0
			}
		}
	}
	return g.perm(st), g.perm(remote)
}

// ---------------------------------------------------------------------------------------------- main

func main() {
	seed := flag.Int64("seed", 1, "")
	tier := flag.String("tier", "quick", "")
	outp := flag.String("out", "", "explicit cases, JSON lines")
	tabp := flag.String("tab", "", "tables, JSON lines (one table per line)")
	replay := flag.String("replay", "", "re-run the case stored in a replay file")
	explain := flag.String("explain", "", "inst:idx  print the decoded table case")
	probe := flag.Bool("probe", false, "run the hand-written scenarios and print what the real code did")
	flag.Parse()
	if *probe {
		doProbe()
		return
	}

	if *replay != "" {
		os.Exit(doReplay(*replay))
	}
	if *explain != "" {
		p := strings.SplitN(*explain, ":", 2)
		idx, _ := strconv.ParseUint(p[1], 10, 64)
		for _, sc := range scopes(*tier, uint64(*seed)) {
			if sc.Inst == p[0] {
				l, r, last := sc.decode(idx)
				c := Case{ID: int(idx), Kind: "diff", Inst: sc.Inst, Class: "table", Local: l, Remote: r, Last: last}
				if err := eval(&c); err != nil {
					fmt.Println(err)
					os.Exit(2)
				}
				json.NewEncoder(os.Stdout).Encode(c)
			}
		}
		return
	}

	hist := map[string]int{}
	if *tabp != "" {
		f, err := os.Create(*tabp)
		if err != nil {
			panic(err)
		}
		w := bufio.NewWriter(f)
		for _, sc := range scopes(*tier, uint64(*seed)) {
			t, err := runTable(sc, hist)
			if err != nil {
				fmt.Fprintln(os.Stderr, "table failed:", err)
				os.Exit(2)
			}
			for i := range t.OracleFail {
				if i < 5 {
					t.OracleFail[i] = shrink(t.OracleFail[i])
				}
			}
			b, _ := json.Marshal(t)
			w.Write(b)
			w.WriteByte('\n')
		}
		w.Flush()
		f.Close()
	}

	if *outp == "" {
		return
	}
	f, err := os.Create(*outp)
	if err != nil {
		panic(err)
	}
	w := bufio.NewWriter(f)
	enc := json.NewEncoder(w)
	rng := rand.New(rand.NewSource(*seed))
	id := 0
	shrunk := 0
	emit := func(c Case) {
		c.ID = id
		id++
		if err := eval(&c); err != nil {
			fmt.Fprintf(os.Stderr, "case %d (%s %s %s) failed to run: %v\n", c.ID, c.Kind, c.Inst, c.Class, err)
			os.Exit(2)
		}
		hist[fmt.Sprintf("%s/%s/%s", c.Kind, c.Inst, c.Class)]++
		if strings.HasSuffix(c.Class, "-real-hash") && c.Oracle == "" {
			if !c.Pre.HashSound {
				c.Oracle, c.Sig = "real-hash-collision", map[string]interface{}{"kind": "hash-not-sound", "instance": c.Inst}
			} else if !c.Pre.HashComplete && !c.Pre.ZeroHashEq {
				for _, x := range c.Local {
					for _, y := range c.Remote {
						if key(x) == key(y) && x.Body == y.Body && !x.Local && !sameHash(c.Inst, x, y) {
							c.Oracle, c.Sig = "real-hash-differs-for-equal-content:"+key(x), map[string]interface{}{"kind": "hash-not-functional", "instance": c.Inst}
						}
					}
				}
			}
		}
		c.ToCoq = modelCovers(&c)
		if c.Oracle != "" && shrunk < 12 {
			s := shrink(c)
			s.ToCoq = false
			s.Class += "/shrunk"
			enc.Encode(s)
			shrunk++
		}
		enc.Encode(c)
	}
	mult := 1
	if *tier == "thorough" {
		mult = 8
	}
	insts := []string{"token", "policy", "role", "config", "fed"}

	// DIFF cases
	for rep := 0; rep < 24*mult; rep++ {
		for _, inst := range insts {
			g := &gen{r: rng, inst: inst}
			n := rng.Intn(9)
			st, rem, last := g.synced(n)
			emit(Case{Kind: "diff", Inst: inst, Class: "synced", Local: view(st), Remote: rem, Last: last})
			st, rem, last = g.unrelated(rng.Intn(7))
			emit(Case{Kind: "diff", Inst: inst, Class: "unrelated", Local: st, Remote: rem, Last: last})
			st, rem, last = g.equal(rng.Intn(7))
			emit(Case{Kind: "diff", Inst: inst, Class: "equal", Local: st, Remote: rem, Last: last})
			for _, what := range []string{"empties", "dups", "collide", "nohash"} {
				if what == "empties" && !isACL(inst) {
					continue
				}
				st, rem, last = g.synced(1 + rng.Intn(6))
				st = view(st)
				st, rem = g.spoil(st, rem, what)
				emit(Case{Kind: "diff", Inst: inst, Class: "malformed-" + what, Local: st, Remote: rem, Last: last})
			}
		}
	}
	for rep := 0; rep < 2*mult; rep++ { // beyond the insertion-sort range of sort.Slice (12 elements)
		for _, inst := range insts {
			g := &gen{r: rng, inst: inst}
			st, rem, last := g.synced(13 + rng.Intn(60*(1+rep%3)))
			emit(Case{Kind: "diff", Inst: inst, Class: "long", Local: view(st), Remote: rem, Last: last})
		}
	}

	// ROUND cases (real FSM, state store, raft, replication functions)
	for rep := 0; rep < 30*mult; rep++ {
		for _, inst := range insts {
			g := &gen{r: rng, inst: inst}
			st, rem, last := g.synced(rng.Intn(9))
			st, rem = roundSafe(inst, st), roundSafe(inst, rem)
			emit(Case{Kind: "round", Inst: inst, Class: "synced", Local: st, Remote: rem, Last: last, RemoteIndex: last + 6 + uint64(rng.Intn(3))})
			st, rem, last = g.equal(rng.Intn(6))
			st, rem = roundSafe(inst, st), roundSafe(inst, rem)
			emit(Case{Kind: "round", Inst: inst, Class: "equal", Local: st, Remote: rem, Last: last, RemoteIndex: 13})
			if rep%2 == 0 {
				st, rem, last = g.unrelated(rng.Intn(7))
				st, rem = roundSafe(inst, st), roundSafe(inst, rem)
				emit(Case{Kind: "round", Inst: inst, Class: "unrelated", Local: st, Remote: rem, Last: last, RemoteIndex: 13})
				// the primary's index went backwards: full sync expected whatever `last` says
				st, rem, _ = g.unrelated(rng.Intn(7))
				st, rem = roundSafe(inst, st), roundSafe(inst, rem)
				emit(Case{Kind: "round", Inst: inst, Class: "index-backwards", Local: st, Remote: rem, Last: 50 + uint64(rng.Intn(5)), RemoteIndex: 13 + uint64(rng.Intn(30))})
			}
		}
	}
	for rep := 0; rep < mult; rep++ {
		for _, inst := range insts {
			g := &gen{r: rng, inst: inst}
			st, rem, last := g.synced(40 + rng.Intn(80))
			st, rem = roundSafe(inst, st), roundSafe(inst, rem)
			emit(Case{Kind: "round", Inst: inst, Class: "long", Local: st, Remote: rem, Last: last, RemoteIndex: last + 9})
		}
	}
	// hashes computed by the real SetHash / HashConfigEntry instead of chosen by the harness: here "equal hashes
	// mean equal content" and "equal content means equal hashes" are facts about the code, which the oracle checks
	for rep := 0; rep < 8*mult; rep++ {
		for _, inst := range []string{"token", "policy", "role", "config"} {
			g := &gen{r: rng, inst: inst}
			for k, f := range []func(int) ([]Item, []Item, uint64){g.synced, g.equal, g.unrelated} {
				st, rem, last := f(rng.Intn(8))
				st, rem = realHashes(inst, roundSafe(inst, st)), realHashes(inst, roundSafe(inst, rem))
				cls := []string{"synced", "equal", "unrelated"}[k] + "-real-hash"
				emit(Case{Kind: "diff", Inst: inst, Class: cls, Local: view(st), Remote: rem, Last: last})
				emit(Case{Kind: "round", Inst: inst, Class: cls, Local: st, Remote: rem, Last: last, RemoteIndex: 60})
			}
		}
	}
	// rounds whose writes the state store may refuse
	for rep := 0; rep < 12*mult; rep++ {
		for _, inst := range []string{"policy", "role"} {
			g := &gen{r: rng, inst: inst}
			st, rem, last := g.rename()
			st, rem = roundSafe(inst, st), roundSafe(inst, rem)
			emit(Case{Kind: "round", Inst: inst, Class: "rename", Local: st, Remote: rem, Last: last, RemoteIndex: last + 6})
		}
		g := &gen{r: rng, inst: "config"}
		st, rem, last := g.dependent()
		emit(Case{Kind: "round", Inst: "config", Class: "dependent", Local: st, Remote: rem, Last: last, RemoteIndex: 12})
	}
	// two rounds in a row: the second runs with last := the index the first returned
	for rep := 0; rep < 10*mult; rep++ {
		for _, inst := range insts {
			g := &gen{r: rng, inst: inst}
			st, rem, last := g.synced(rng.Intn(8))
			if rep%3 == 0 { // first round from nothing known: last = 0
				st, rem, _ = g.unrelated(rng.Intn(7))
				last = 0
			}
			st, rem = roundSafe(inst, st), roundSafe(inst, rem)
			ri := uint64(60)
			ri2 := ri
			if rep%2 == 1 {
				ri2 = ri + 1 + uint64(rng.Intn(6))
			}
			rem2 := roundSafe(inst, g.evolve(rem, ri, ri2))
			cls := "two-rounds-changed"
			if ri2 == ri {
				cls = "two-rounds-same-index"
			}
			emit(Case{Kind: "round2", Inst: inst, Class: cls, Local: st, Remote: rem, Last: last, RemoteIndex: ri, Remote2: rem2, RemoteIndex2: ri2})
		}
	}
	// the batch reads of a round answered from another snapshot of the primary than its list
	for rep := 0; rep < 10*mult; rep++ {
		for _, inst := range []string{"token", "policy"} {
			g := &gen{r: rng, inst: inst}
			st, rem, last := g.synced(1 + rng.Intn(7))
			st, rem = roundSafe(inst, st), roundSafe(inst, rem)
			ri := uint64(60)
			batch, rem2 := g.otherSnapshot(rem, ri)
			emit(Case{Kind: "twosnap", Inst: inst, Class: "two-snapshots", Local: st, Remote: rem, Last: last, RemoteIndex: ri,
				Batch: batch, Remote2: rem2, RemoteIndex2: ri + 10})
		}
	}
	// one round per ACL type that crosses the batching limits of deleteLocalACLType (4096 ids) and
	// updateLocalACLType (256 KiB estimated size): oracle only
	for _, inst := range []string{"token", "policy", "role"} {
		g := &gen{r: rng, inst: inst}
		n := 4300
		if *tier == "thorough" {
			n = 9000
		}
		var st, rem []Item
		for i, k := range g.keys(2 * n) {
			it := k
			g.hashOf(uint64(i%7), &it)
			if i < n {
				it.Mod = 3
				st = append(st, it)
			} else {
				it.Mod = 9
				rem = append(rem, it)
			}
		}
		st, rem = roundSafe(inst, st), roundSafe(inst, rem)
		c := Case{Kind: "round", Inst: inst, Class: "batches", Local: st, Remote: rem, Last: 5, RemoteIndex: 10}
		c.ID = id
		id++
		if err := eval(&c); err != nil {
			fmt.Fprintln(os.Stderr, "batch round failed to run:", err)
			os.Exit(2)
		}
		hist["round/"+inst+"/batches"]++
		c.ToCoq = false
		// keep the line small: drop the object lists, keep the verdict
		small := c
		small.Local, small.Remote, small.Round = nil, nil, &Round{RetIndex: c.Round.RetIndex, Err: c.Round.Err, Calls: c.Round.Calls}
		if c.Oracle != "" {
			small = shrink(c)
		}
		enc.Encode(small)
	}
	w.Flush()
	f.Close()
	if srv != nil {
		srv.Close()
	}
	hb, _ := json.Marshal(hist)
	fmt.Println(string(hb))
}

// roundSafe keeps what the real state store accepts as a fixture: non-empty ids and hashes,
// config-entry kinds whose store-level validation does not depend on other entries.
func roundSafe(inst string, l []Item) []Item {
	var out []Item
	for _, x := range l {
		if x.ID == "" {
			continue
		}
		if isACL(inst) { // the state store's id indexes only take UUIDs (and ignore their case)
			h := sha256.Sum256([]byte(unhx(x.ID)))
			x.ID = hx(fmt.Sprintf("%x-%x-%x-%x-%x", h[0:4], h[4:6], h[6:8], h[8:10], h[10:16]))
		}
		if inst == "config" {
			switch unhx(x.Kind) {
			case "proxy-defaults", "service-intentions":
				x.Kind = hx("service-defaults")
			}
		}
		dup := false
		for _, y := range out {
			// config entries are indexed by the lower-cased name: "b" and "B" are one row
			if key(y) == key(x) || (inst == "config" && y.Kind == x.Kind && strings.EqualFold(unhx(y.ID), unhx(x.ID))) {
				dup = true
			}
		}
		if !dup {
			out = append(out, x)
		}
	}
	return out
}

func doReplay(path string) int {
	b, err := os.ReadFile(path)
	if err != nil {
		fmt.Println(err)
		return 2
	}
	var wrap struct {
		Case *Case `json:"case"`
	}
	if err := json.Unmarshal(b, &wrap); err != nil || wrap.Case == nil {
		fmt.Println("replay file has no \"case\" object:", err)
		return 2
	}
	c := *wrap.Case
	if err := eval(&c); err != nil {
		fmt.Println("run failed:", err)
		return 2
	}
	show := func(name string, l []Item) {
		sort.SliceStable(l, func(i, j int) bool { return key(l[i]) < key(l[j]) })
		fmt.Printf("  %s:\n", name)
		for _, x := range l {
			fmt.Printf("    kind=%q id=%q mod=%d hash=%s/%d body=%d local=%v\n", unhx(x.Kind), unhx(x.ID), x.Mod, x.Hash, x.Hash64, x.Body, x.Local)
		}
	}
	fmt.Printf("%s case, instance %s, last=%d remote_index=%d\n", c.Kind, c.Inst, c.Last, c.RemoteIndex)
	show("secondary", append([]Item{}, c.Local...))
	show("primary", append([]Item{}, c.Remote...))
	if c.Out != nil {
		show("deletions", c.Out.Del)
		show("upserts", c.Out.Ups)
		show("after applying", applyDiff(c.Inst, c.Local, c.Remote, *c.Out))
	}
	if c.Round != nil {
		show("secondary after the round", c.Round.Final)
		fmt.Printf("  returned index %d err=%q\n", c.Round.RetIndex, c.Round.Err)
	}
	pb, _ := json.Marshal(c.Pre)
	fmt.Printf("  hypotheses: %s\n", pb)
	if c.Oracle != "" {
		fmt.Println("ORACLE FAILS:", c.Oracle)
		return 1
	}
	fmt.Println("oracle: ok")
	return 0
}

var _ = bytes.Equal

// ---------------------------------------------------------------------------------------------- probes
func attr(content uint64, k uint64) uint64 { return content | k<<20 }

func doProbe() {
	var err error
	if srv, err = consul.VerifReplNewServer(); err != nil {
		panic(err)
	}
	it := func(kind, id string, mod, body uint64) Item {
		x := Item{Kind: hx(kind), ID: hx(id), Mod: mod, Body: body, Hash: hex.EncodeToString([]byte{byte(body), byte(body >> 8), byte(body >> 16), byte(body >> 20), 0x5a}), Hash64: 1000 + body}
		if kind != "" {
			x.Hash = ""
		}
		return x
	}
	show := func(l []Item) string {
		var b strings.Builder
		for _, x := range l {
			fmt.Fprintf(&b, " [%s/%s mod=%d body=%d attr=%d]", unhx(x.Kind), unhx(x.ID), x.Mod, x.Body&0xfffff, x.Body>>20)
		}
		return b.String()
	}
	run := func(title, inst string, st, rem []Item, ri, last uint64, opts consul.VerifReplOpts) consul.VerifReplRound {
		r, err := srv.RoundOpts(inst, raws(roundSafe(inst, st)), raws(roundSafe(inst, rem)), ri, last, opts)
		fmt.Printf("== %s (%s)\n   err=%q ret=%d writes=%d\n   final:%s\n", title, inst, r.Err, r.RetIndex, r.Writes, show(froms(r.Final)))
		if err != nil {
			fmt.Println("   HARNESS ERROR", err)
		}
		return r
	}
	for _, inst := range []string{"policy", "role"} {
		st := []Item{it("", "p1", 3, attr(1, 1)), it("", "p2", 3, attr(2, 2))}
		run("name swap", inst, st, []Item{it("", "p1", 8, attr(3, 2)), it("", "p2", 9, attr(4, 1))}, 10, 5, consul.VerifReplOpts{})
		run("name swap, again on the state left", inst, nil, []Item{it("", "p1", 8, attr(3, 2)), it("", "p2", 9, attr(4, 1))}, 10, 0, consul.VerifReplOpts{Keep: true})
		run("chain p1:1->2 p2:2->3", inst, st, []Item{it("", "p1", 8, attr(3, 2)), it("", "p2", 9, attr(4, 3))}, 10, 5, consul.VerifReplOpts{})
		run("chain p2:2->1' p1:1->3", inst, st, []Item{it("", "p1", 8, attr(3, 3)), it("", "p2", 9, attr(4, 1))}, 10, 5, consul.VerifReplOpts{})
		run("delete p1 (name 1), create p3 with name 1", inst, st, []Item{it("", "p3", 8, attr(3, 1)), it("", "p2", 3, attr(2, 2))}, 10, 5, consul.VerifReplOpts{})
	}
	sd, rt, ig := "service-defaults", "service-router", "ingress-gateway"
	both := []Item{it(sd, "a", 3, attr(1, 1)), it(rt, "a", 3, 2)}
	run("delete service-defaults{http}+router together", "config", both, nil, 10, 5, consul.VerifReplOpts{})
	run("  second round", "config", nil, nil, 11, 10, consul.VerifReplOpts{Keep: true})
	run("create service-defaults{http}+router together", "config", nil, both, 10, 5, consul.VerifReplOpts{})
	gw := []Item{it(sd, "a", 8, attr(1, 1)), it(ig, "a", 8, 2)}
	run("create ingress-gateway+service-defaults{http} together", "config", nil, gw, 10, 5, consul.VerifReplOpts{})
	run("  second round", "config", nil, gw, 10, 0, consul.VerifReplOpts{Keep: true})
	run("delete ingress-gateway+service-defaults{http} together", "config", gw, nil, 10, 5, consul.VerifReplOpts{})
	run("protocol http->tcp while a router exists (primary deleted router too)", "config", both, []Item{it(sd, "a", 8, 5)}, 10, 5, consul.VerifReplOpts{})
	run("  second round", "config", nil, []Item{it(sd, "a", 8, 5)}, 10, 0, consul.VerifReplOpts{Keep: true})

	// two snapshots of the primary
	oldT, newT := it("", "t1", 5, 1), it("", "t1", 10, 2)
	for _, inst := range []string{"token", "policy"} {
		run("batch read OLDER than the list (object known to the secondary in its old version)", inst, []Item{oldT}, []Item{newT}, 12, 6,
			consul.VerifReplOpts{TwoSnapshots: true, Batch: raws(roundSafe(inst, []Item{oldT}))})
		run("  next round, one snapshot, last = returned index", inst, nil, []Item{newT}, 12, 12, consul.VerifReplOpts{Keep: true})
		run("batch read OLDER than the list (object new to the secondary)", inst, nil, []Item{newT}, 12, 4,
			consul.VerifReplOpts{TwoSnapshots: true, Batch: raws(roundSafe(inst, []Item{oldT}))})
		run("  next round, one snapshot, last = returned index", inst, nil, []Item{newT}, 12, 12, consul.VerifReplOpts{Keep: true})
		created := newT
		created.Create = 5 // created at 5, modified at 10; the lagging server is at 4 and does not have it
		run("batch read lacks an object created at 5 and modified at 10", inst, nil, []Item{created}, 12, 4,
			consul.VerifReplOpts{TwoSnapshots: true, Batch: nil})
		run("  next round, one snapshot, last = returned index", inst, nil, []Item{created}, 12, 12, consul.VerifReplOpts{Keep: true})
		fresh := newT
		fresh.Create = 10
		run("batch read lacks an object created at 10", inst, nil, []Item{fresh}, 12, 4,
			consul.VerifReplOpts{TwoSnapshots: true, Batch: nil})
		newer := it("", "t1", 14, 3)
		run("batch read NEWER than the list", inst, []Item{oldT}, []Item{newT}, 12, 6,
			consul.VerifReplOpts{TwoSnapshots: true, Batch: raws(roundSafe(inst, []Item{newer}))})
		run("  next round, one snapshot at 14", inst, nil, []Item{newer}, 14, 12, consul.VerifReplOpts{Keep: true})
	}
	srv.Close()
}
